//go:build verif

package telemetry

// C20 correspondence harness (injected into pkg/telemetry with -overlay).
//
//   seq  <kind> <cap> <nlabels> <buckets|-> <op>...         one sequential history, exact observables
//   conc <kind> <cap> <nlabels> <rounds> <noise> <setup|-> <prog>...
//        real goroutines, one per <prog>, started together behind a spin barrier, <rounds> times on a
//        fresh registry; prints the sorted set of distinct quiescent observations
//
// tuples: label values joined by ',', each value hex bytes ('-' = empty), '_' = the empty tuple.

import (
	"bufio"
	"context"
	"errors"
	"fmt"
	"math"
	"os"
	"runtime"
	"sort"
	"strconv"
	"strings"
	"sync"
	"sync/atomic"
	"testing"
	"time"
)

func vfTuple(tok string) []string {
	if tok == "_" {
		return nil
	}
	parts := strings.Split(tok, ",")
	out := make([]string, len(parts))
	for i, p := range parts {
		if p == "-" {
			out[i] = ""
			continue
		}
		b := make([]byte, len(p)/2)
		for j := range b {
			v, _ := strconv.ParseUint(p[2*j:2*j+2], 16, 8)
			b[j] = byte(v)
		}
		out[i] = string(b)
	}
	return out
}

func vfTupleTok(vals []string) string {
	if len(vals) == 0 {
		return "_"
	}
	parts := make([]string, len(vals))
	for i, v := range vals {
		if v == "" {
			parts[i] = "-"
		} else {
			parts[i] = fmt.Sprintf("%x", []byte(v))
		}
	}
	return strings.Join(parts, ",")
}

func vfLabelsTok(l []LabelPair) string {
	vals := make([]string, len(l))
	for i := range l {
		vals[i] = l[i].Value
	}
	return vfTupleTok(vals)
}

func vfFloat(f float64) string {
	if math.Abs(f) >= 9007199254740992 || f != math.Trunc(f) {
		return "big"
	}
	return strconv.FormatInt(int64(f), 10)
}

// vfMetric hides the three metric kinds behind one interface (the three Go files are textual copies).
type vfHandle struct {
	c *CounterHandle
	g *GaugeHandle
	h *HistogramHandle
}

func (x vfHandle) key() any {
	switch {
	case x.c != nil:
		return x.c
	case x.g != nil:
		return x.g
	default:
		return x.h
	}
}
func (x vfHandle) tomb() bool {
	switch {
	case x.c != nil:
		return x.c.isTombstone
	case x.g != nil:
		return x.g.isTombstone
	default:
		return x.h.isTombstone
	}
}
func (x vfHandle) stale() bool {
	switch {
	case x.c != nil:
		return x.c.stale.Load()
	case x.g != nil:
		return x.g.stale.Load()
	default:
		return x.h.stale.Load()
	}
}
func (x vfHandle) labelValues() []string {
	switch {
	case x.c != nil:
		return x.c.labelValues
	case x.g != nil:
		return x.g.labelValues
	default:
		return x.h.labelValues
	}
}

// scalar in which landed emissions are visible (counter value / histogram count)
func (x vfHandle) scalar() uint64 {
	switch {
	case x.c != nil:
		return x.c.Value()
	case x.g != nil:
		return uint64(int64(x.g.Value()))
	default:
		if x.h.isTombstone {
			return 0
		}
		return x.h.count.Load()
	}
}

// scalarStr prints the scalar; a gauge value is signed
func (x vfHandle) scalarStr() string {
	if x.g != nil {
		return strconv.FormatInt(int64(x.g.Value()), 10)
	}
	if x.h != nil && !x.h.isTombstone {
		// histogram: count / sum / bucket counters
		bs := make([]string, len(x.h.bucketCount))
		for i := range x.h.bucketCount {
			bs[i] = strconv.FormatUint(x.h.bucketCount[i].Load(), 10)
		}
		return strconv.FormatUint(x.h.count.Load(), 10) + "/" + strconv.FormatInt(int64(math.Float64frombits(x.h.sumBits.Load())), 10) + "/" + strings.Join(bs, "_")
	}
	return strconv.FormatUint(x.scalar(), 10)
}

func (x vfHandle) show() string {
	switch {
	case x.c != nil:
		return strconv.FormatUint(x.c.Value(), 10)
	case x.g != nil:
		return vfFloat(x.g.Value())
	default:
		if x.h.isTombstone {
			return "0/0/"
		}
		bs := make([]string, len(x.h.bucketCount))
		for i := range x.h.bucketCount {
			bs[i] = strconv.FormatUint(x.h.bucketCount[i].Load(), 10)
		}
		return strconv.FormatUint(x.h.count.Load(), 10) + "/" + vfFloat(math.Float64frombits(x.h.sumBits.Load())) + "/" + strings.Join(bs, ".")
	}
}

// emit goes through EVERY emission method of the handle types, chosen by the spelling of the delta:
//
//	counter:   "1" -> Inc()          anything else -> Add(d)           ("01" = Add(1))
//	gauge:     set -> Set(d);  "1" -> Inc();  "-1" -> Dec();  "-<n>" -> Sub(n);  anything else -> Add(d)   ("01", "-01" = Add(+-1))
//	histogram: Observe(d)
func (x vfHandle) emit(set bool, d string) {
	switch {
	case x.c != nil:
		if d == "1" {
			x.c.Inc()
			return
		}
		v, _ := strconv.ParseUint(d, 10, 64)
		x.c.Add(v)
	case x.g != nil:
		v, _ := strconv.ParseInt(d, 10, 64)
		switch {
		case set:
			x.g.Set(float64(v))
		case d == "1":
			x.g.Inc()
		case d == "-1":
			x.g.Dec()
		case strings.HasPrefix(d, "-") && !strings.HasPrefix(d, "-0"):
			x.g.Sub(float64(-v))
		default:
			x.g.Add(float64(v))
		}
	default:
		v, _ := strconv.ParseInt(d, 10, 64)
		x.h.Observe(float64(v))
	}
}

type vfMetric struct {
	decoy bool
	kind  string
	r     *Registry
	c     *Counter
	g     *Gauge
	h     *Histogram
}

func vfNewMetric(kind string, cap int, nlabels int, buckets []float64) *vfMetric {
	r := NewRegistry()
	r.SetTickInterval(24 * time.Hour)
	labels := make([]string, nlabels)
	for i := range labels {
		labels[i] = "l" + strconv.Itoa(i)
	}
	m := &vfMetric{kind: kind, r: r}
	var err error
	switch kind {
	case "c":
		m.c, err = r.RegisterCounter(CounterOpts{Name: "vf.m", Help: "h", Labels: labels, MaxSeriesPerMetric: cap})
	case "g":
		m.g, err = r.RegisterGauge(GaugeOpts{Name: "vf.m", Help: "h", Labels: labels, MaxSeriesPerMetric: cap})
	default:
		m.h, err = r.RegisterHistogram(HistogramOpts{Name: "vf.m", Help: "h", Labels: labels, Buckets: buckets, MaxSeriesPerMetric: cap})
	}
	if err != nil {
		panic(err)
	}
	return m
}
func (m *vfMetric) resolve(t []string) vfHandle {
	switch m.kind {
	case "c":
		return vfHandle{c: m.c.WithLabelValues(t...)}
	case "g":
		return vfHandle{g: m.g.WithLabelValues(t...)}
	default:
		return vfHandle{h: m.h.WithLabelValues(t...)}
	}
}
func (m *vfMetric) emitT(set bool, d string, t []string) {
	switch m.kind {
	case "c":
		if d == "1" {
			m.c.Inc(t...) // the variadic by-tuple form of Inc
			return
		}
		v, _ := strconv.ParseUint(d, 10, 64)
		m.c.Add(v, t...)
	case "g":
		v, _ := strconv.ParseInt(d, 10, 64)
		if set {
			m.g.Set(float64(v), t...)
		} else {
			m.g.Add(float64(v), t...)
		}
	default:
		v, _ := strconv.ParseInt(d, 10, 64)
		m.h.Observe(float64(v), t...)
	}
}
func (m *vfMetric) unreg(t []string) bool {
	switch m.kind {
	case "c":
		return m.c.UnregisterSeries(t...)
	case "g":
		return m.g.UnregisterSeries(t...)
	default:
		return m.h.UnregisterSeries(t...)
	}
}
func (m *vfMetric) series() *sync.Map {
	switch m.kind {
	case "c":
		return &m.c.series
	case "g":
		return &m.g.series
	default:
		return &m.h.series
	}
}
func (m *vfMetric) wrap(v any) vfHandle {
	switch x := v.(type) {
	case *CounterHandle:
		return vfHandle{c: x}
	case *GaugeHandle:
		return vfHandle{g: x}
	case *HistogramHandle:
		return vfHandle{h: x}
	}
	panic("unknown handle type")
}

func vfSampleVal(s Sample) string {
	if s.Type == MetricHistogram {
		bs := make([]string, len(s.Histogram.Buckets))
		for i, b := range s.Histogram.Buckets {
			bs[i] = strconv.FormatUint(b.Count, 10)
		}
		return strconv.FormatUint(s.Histogram.Count, 10) + "/" + vfFloat(s.Histogram.Sum) + "/" + strings.Join(bs, ".")
	}
	return vfFloat(s.Value)
}

// snapshot through the public path: AppendSnapshot incl. the internal drop metrics
func (m *vfMetric) snapshot() string {
	samples := m.r.AppendSnapshot(nil, SnapshotOptions{})
	var series, dseries []string
	cnt, d, u, st, subs, sdrops := "?", "0", "0", "0", "?", []string{}
	dc, dd, du := "?", "0", "0"
	// the per-metric internal samples carry the metric name as their label: read the ones of THIS metric (a second metric of
	// another kind lives in the same registry, see vfSeq) and report the other metric's separately
	of := func(smp Sample) string {
		if len(smp.Labels) == 1 && smp.Labels[0].Name == internalLabelMetric {
			return smp.Labels[0].Value
		}
		return ""
	}
	for _, s := range samples {
		switch s.Name {
		case "vf.m":
			series = append(series, vfLabelsTok(s.Labels)+"="+vfSampleVal(s))
		case "vf.decoy":
			dseries = append(dseries, vfLabelsTok(s.Labels)+"="+vfSampleVal(s))
		case internalMetricSeriesTotal:
			if of(s) == "vf.decoy" {
				dc = vfFloat(s.Value)
			} else {
				cnt = vfFloat(s.Value)
			}
		case internalMetricCardinalityDrops:
			if of(s) == "vf.decoy" {
				dd = vfFloat(s.Value)
			} else {
				d = vfFloat(s.Value)
			}
		case internalMetricUnknownEmits:
			if of(s) == "vf.decoy" {
				du = vfFloat(s.Value)
			} else {
				u = vfFloat(s.Value)
			}
		case internalMetricStaleEmits:
			if of(s) != "vf.decoy" {
				st = vfFloat(s.Value)
			}
		case internalMetricSubscriptionsTotal:
			subs = vfFloat(s.Value)
		case internalMetricSubscriptionDrops:
			sdrops = append(sdrops, s.Labels[0].Value+":"+vfFloat(s.Value))
		}
	}
	sort.Strings(series)
	sort.Strings(sdrops)
	sort.Strings(dseries)
	other := ""
	if m.decoy {
		other = "|o=" + strings.Join(dseries, ";") + "/" + dc + "/" + dd + "/" + du
	}
	return "{" + strings.Join(series, ";") + "|c=" + cnt + "|d=" + d + "|u=" + u + "|st=" + st + "|subs=" + subs + "|sd=" + strings.Join(sdrops, ",") + other + "}"
}

// vfDecoy registers a SECOND metric of another kind in the same registry (cap 1), gives it one series, one emission through the
// tombstone and one to an unknown tuple: per-metric state (series, cap, the three drop counters) must not leak between metrics.
func (m *vfMetric) vfDecoy() {
	m.decoy = true
	if m.kind == "c" {
		g, _ := m.r.RegisterGauge(GaugeOpts{Name: "vf.decoy", Help: "h", Labels: []string{"l0"}, MaxSeriesPerMetric: 1})
		g.WithLabelValues("x").Set(3)
		g.WithLabelValues("y").Set(5)
		g.Set(7, "z")
		return
	}
	c, _ := m.r.RegisterCounter(CounterOpts{Name: "vf.decoy", Help: "h", Labels: []string{"l0"}, MaxSeriesPerMetric: 1})
	c.WithLabelValues("x").Add(3)
	c.WithLabelValues("y").Add(5)
	c.Add(7, "z")
}

func vfBuckets(tok string) []float64 {
	if tok == "-" {
		return nil
	}
	var out []float64
	for _, p := range strings.Split(tok, ",") {
		v, _ := strconv.ParseInt(p, 10, 64)
		out = append(out, float64(v))
	}
	return out
}

// one operation with per-op recover
func vfGuard(f func() string) (out string) {
	defer func() {
		if r := recover(); r != nil {
			if r == ErrLabelCount {
				out = "panic"
			} else {
				out = "panic!" + strings.ReplaceAll(fmt.Sprint(r), " ", "_")
			}
		}
	}()
	return f()
}

func vfChanCap(ch <-chan Update) int { return cap(ch) }

func vfSeq(f []string) string {
	kind := f[1]
	cap, _ := strconv.Atoi(f[2])
	nl, _ := strconv.Atoi(f[3])
	m := vfNewMetric(kind, cap, nl, vfBuckets(f[4]))
	defer m.r.Shutdown(context.Background())
	m.vfDecoy()
	var slots []vfHandle
	var subs []*Subscription
	var out []string
	for _, o := range f[5:] {
		p := strings.Split(o, ":")
		out = append(out, vfGuard(func() string {
			switch p[0] {
			case "r":
				h := m.resolve(vfTuple(p[1]))
				slots = append(slots, h)
				if h.tomb() {
					return "t"
				}
				for j, s := range slots {
					if s.key() == h.key() {
						return "h" + strconv.Itoa(j)
					}
				}
				return "h?"
			case "e", "S":
				k, _ := strconv.Atoi(p[1])
				if k >= len(slots) {
					return "-"
				}
				slots[k].emit(p[0] == "S", p[2])
				return "v" + slots[k].show()
			case "a", "A":
				m.emitT(p[0] == "A", p[2], vfTuple(p[1]))
				return "."
			case "u":
				if m.unreg(vfTuple(p[1])) {
					return "1"
				}
				return "0"
			case "s":
				return m.snapshot()
			case "sub":
				b, _ := strconv.Atoi(p[1])
				sub := m.r.Subscribe(SubscribeOptions{BufferSize: b})
				subs = append(subs, sub)
				// the channel capacity the implementation chose (its default when BufferSize <= 0), through the public API
				return "sub" + strconv.Itoa(len(subs)-1) + "/" + strconv.Itoa(vfChanCap(sub.Updates()))
			case "unsub":
				k, _ := strconv.Atoi(p[1])
				if k >= len(subs) {
					return "-"
				}
				subs[k].Unsubscribe()
				return "."
			case "tick":
				m.r.publishTick(nil, time.Unix(0, 0))
				return "."
			case "drain":
				k, _ := strconv.Atoi(p[1])
				n, _ := strconv.Atoi(p[2])
				if k >= len(subs) {
					return "-"
				}
				got := 0
				for got < n {
					select {
					case u := <-subs[k].Updates():
						if u.Name != "vf.m" {
							return "wrongname"
						}
						got++
						continue
					default:
					}
					break
				}
				return "got" + strconv.Itoa(got) + "/drop" + strconv.FormatUint(subs[k].Dropped(), 10)
			}
			return "badop"
		}))
	}
	return strings.Join(out, " ")
}

// ---------------------------------------------------------------- concurrent stress
type vfOp struct {
	code  string
	tuple []string
	slot  int
	d     string
}

func vfProg(tok string) []vfOp {
	if tok == "-" {
		return nil
	}
	var out []vfOp
	for _, o := range strings.Split(tok, "/") {
		p := strings.Split(o, ":")
		op := vfOp{code: p[0]}
		switch p[0] {
		case "r", "u":
			op.tuple = vfTuple(p[1])
		case "e", "S":
			op.slot, _ = strconv.Atoi(p[1])
			op.d = p[2]
		case "a", "A":
			op.tuple = vfTuple(p[1])
			op.d = p[2]
		}
		out = append(out, op)
	}
	return out
}

type vfRes struct {
	code string // "h" handle, "1"/"0", "e", "p"
	h    vfHandle
}

func vfExec(m *vfMetric, prog []vfOp, slots []vfHandle) (res []vfRes, outSlots []vfHandle) {
	for _, op := range prog {
		func() {
			defer func() {
				if r := recover(); r != nil {
					res = append(res, vfRes{code: "p"})
				}
			}()
			switch op.code {
			case "r":
				h := m.resolve(op.tuple)
				slots = append(slots, h)
				res = append(res, vfRes{code: "h", h: h})
			case "e", "S":
				if op.slot < len(slots) {
					slots[op.slot].emit(op.code == "S", op.d)
				}
				res = append(res, vfRes{code: "e"})
			case "a", "A":
				m.emitT(op.code == "A", op.d, op.tuple)
				res = append(res, vfRes{code: "e"})
			case "u":
				if m.unreg(op.tuple) {
					res = append(res, vfRes{code: "1"})
				} else {
					res = append(res, vfRes{code: "0"})
				}
			}
		}()
	}
	return res, slots
}

func vfWeight(kind string, progs [][]vfOp) uint64 {
	var tot uint64
	for _, p := range progs {
		for _, op := range p {
			if op.code == "e" || op.code == "a" || op.code == "S" || op.code == "A" {
				if kind == "c" {
					v, _ := strconv.ParseUint(op.d, 10, 64)
					tot += v
				} else {
					tot++
				}
			}
		}
	}
	return tot
}

// vfPool keeps one goroutine per program alive for all rounds of a case; a round is released by bumping
// roundNo, on which all workers spin, so that they enter the code under test within nanoseconds of each other.
type vfPool struct {
	progs    [][]vfOp
	m        atomic.Pointer[vfMetric]
	base     atomic.Pointer[[]vfHandle]
	roundNo  atomic.Int64
	done     atomic.Int32
	results  [][]vfRes
	slotsOut [][]vfHandle
	wg       sync.WaitGroup
}

func vfSpin(i *int) {
	*i++
	if *i%200 == 0 {
		runtime.Gosched()
	}
	if *i > 200000 && *i%2000 == 0 {
		time.Sleep(50 * time.Microsecond) // oversubscribed machine: stop burning the CPU the others need
	}
}

func vfNewPool(progs [][]vfOp) *vfPool {
	p := &vfPool{progs: progs, results: make([][]vfRes, len(progs)), slotsOut: make([][]vfHandle, len(progs))}
	for i := range progs {
		p.wg.Add(1)
		go func(i int) {
			defer p.wg.Done()
			last := int64(0)
			for {
				spins := 0
				for p.roundNo.Load() == last {
					vfSpin(&spins)
				}
				last = p.roundNo.Load()
				if last < 0 {
					return
				}
				own := append([]vfHandle(nil), *p.base.Load()...)
				p.results[i], p.slotsOut[i] = vfExec(p.m.Load(), p.progs[i], own)
				p.done.Add(1)
			}
		}(i)
	}
	return p
}

func (p *vfPool) stop() {
	p.roundNo.Store(-1)
	p.wg.Wait()
}

func vfConcRound(pool *vfPool, kind string, cap, nl int, noise bool, setup []vfOp, progs [][]vfOp, bks []float64) string {
	m := vfNewMetric(kind, cap, nl, bks)
	defer m.r.Shutdown(context.Background())
	setupRes, base := vfExec(m, setup, nil)
	n := len(progs)
	results := pool.results
	checkSnap := kind != "g"
	for _, p := range append([][]vfOp{setup}, progs...) {
		for _, op := range p {
			if op.code == "u" {
				checkSnap = false
			}
		}
	}
	lastSeen := map[string]float64{}
	var snapViol atomic.Bool
	stopNoise := make(chan struct{})
	var nwg sync.WaitGroup
	if noise {
		nwg.Add(1)
		started := make(chan struct{})
		go func() {
			defer nwg.Done()
			// a subscriber that never reads, one that comes and goes, snapshots and forced ticks
			stuck := m.r.Subscribe(SubscribeOptions{BufferSize: 1})
			defer stuck.Unsubscribe()
			close(started)
			var buf []Sample
			for {
				select {
				case <-stopNoise:
					return
				default:
				}
				s := m.r.Subscribe(SubscribeOptions{BufferSize: 2})
				buf = m.r.AppendSnapshot(buf[:0], SnapshotOptions{})
				// a NON-quiescent snapshot: without unregisters a series value never goes backwards between two
				// snapshots and never more than cap series are shown (every series value lies between its values
				// at the start and at the end of the snapshot)
				if checkSnap {
					n := 0
					for _, smp := range buf {
						if smp.Name != "vf.m" {
							continue
						}
						n++
						v := smp.Value
						if smp.Type == MetricHistogram {
							v = float64(smp.Histogram.Count)
						}
						k := vfLabelsTok(smp.Labels)
						if old, ok := lastSeen[k]; ok && v < old {
							snapViol.Store(true)
						}
						lastSeen[k] = v
					}
					if cap > 0 && n > cap {
						snapViol.Store(true)
					}
				}
				m.r.publishTick(nil, time.Unix(0, 0))
				s.Unsubscribe()
			}
		}()
		<-started
	}
	pool.m.Store(m)
	pool.base.Store(&base)
	pool.done.Store(0)
	pool.roundNo.Add(1)
	spins := 0
	for int(pool.done.Load()) < n {
		vfSpin(&spins)
	}
	close(stopNoise)
	nwg.Wait()

	// quiescent observation
	type ent struct {
		tup string
		h   vfHandle
	}
	var live []ent
	inMap := map[any]bool{}
	m.series().Range(func(_, v any) bool {
		h := m.wrap(v)
		live = append(live, ent{vfTupleTok(h.labelValues()), h})
		inMap[h.key()] = true
		return true
	})
	sort.Slice(live, func(i, j int) bool { return live[i].tup < live[j].tup })
	seen := map[any]vfHandle{}
	for _, e := range live {
		seen[e.h.key()] = e.h
	}
	var sb strings.Builder
	sb.WriteString("m=")
	for i, e := range live {
		if i > 0 {
			sb.WriteString("+")
		}
		sb.WriteString(e.tup + ":" + e.h.scalarStr())
	}
	ic := m.r.SnapshotInternal()
	show := func(rs []vfRes, progOps []vfOp) string {
		parts := make([]string, len(rs))
		for i, r := range rs {
			if r.code != "h" {
				parts[i] = r.code
				continue
			}
			if r.h.tomb() {
				parts[i] = "t"
				continue
			}
			seen[r.h.key()] = r.h
			cls := "o"
			if inMap[r.h.key()] {
				cls = "l"
			} else if r.h.stale() {
				cls = "s"
			}
			// tuple identity: the handle must carry the tuple that was asked for
			if progOps != nil && vfTupleTok(r.h.labelValues()) != vfTupleTok(progOps[i].tuple) {
				cls = "X"
			}
			parts[i] = cls + r.h.scalarStr()
		}
		if len(parts) == 0 {
			return "-"
		}
		return strings.Join(parts, ".")
	}
	var tparts []string
	tparts = append(tparts, "S="+show(setupRes, setup))
	for i := range progs {
		tparts = append(tparts, "T"+strconv.Itoa(i)+"="+show(results[i], progs[i]))
	}
	var acc uint64
	for _, h := range seen {
		acc += h.scalar()
	}
	acc += ic.CardinalityDrops + ic.UnknownSeriesEmits + ic.StaleHandleEmits
	total := vfWeight(kind, append([][]vfOp{setup}, progs...))
	lost := int64(total - acc)
	if kind == "g" {
		lost = 0 // a gauge value does not count emissions
	}
	sb.WriteString(";c=" + strconv.FormatInt(ic.SeriesTotal, 10))
	sb.WriteString(";d=" + strconv.FormatUint(ic.CardinalityDrops, 10))
	sb.WriteString(";u=" + strconv.FormatUint(ic.UnknownSeriesEmits, 10))
	sb.WriteString(";s=" + strconv.FormatUint(ic.StaleHandleEmits, 10))
	sb.WriteString(";lost=" + strconv.FormatInt(lost, 10))
	sb.WriteString(";" + strings.Join(tparts, ";"))
	if snapViol.Load() {
		sb.WriteString(";SNAPVIOL")
	}
	return sb.String()
}

func vfConc(f []string) string {
	kind := f[1]
	cap, _ := strconv.Atoi(f[2])
	nl, _ := strconv.Atoi(f[3])
	rounds, _ := strconv.Atoi(f[4])
	noise := f[5] == "1"
	setup := vfProg(f[6])
	var progs [][]vfOp
	for _, p := range f[7:] {
		progs = append(progs, vfProg(p))
	}
	var bks []float64
	if kind == "h" {
		bks = []float64{1, 5}
	}
	set := map[string]bool{}
	pool := vfNewPool(progs)
	// <rounds> is an upper bound: on a loaded machine the case stops after a time budget proportional to it
	// (every observation is checked for admissibility, so fewer rounds only means fewer observations)
	deadline := time.Now().Add(time.Duration(rounds)*150*time.Microsecond + 200*time.Millisecond)
	for i := 0; i < rounds; i++ {
		set[vfConcRound(pool, kind, cap, nl, noise, setup, progs, bks)] = true
		if i%32 == 31 && time.Now().After(deadline) {
			break
		}
	}
	pool.stop()
	var obs []string
	for o := range set {
		obs = append(obs, o)
	}
	sort.Strings(obs)
	return "conc " + strings.Join(obs, " | ")
}

// ---------------------------------------------------------------- concurrent registration
//
//	reg <cap> <rounds> <noise> <pre> <name@kind@nlabels@prog>...
//
// every goroutine is released by the barrier straight into Register{Counter,Gauge,Histogram}; the ones that are
// told "ok" then run their program on the metric object THEY obtained.  The observation is taken from the object
// the registry maps the name to (what AppendSnapshot walks).
type vfRegThread struct {
	name   string
	kind   string
	labels []string // label names in declaration order: l0..l(n-1) for "<n>", or the listed indices for "L1.0"
	prog   []vfOp
}

func vfRegLabels(spec string) []string {
	var out []string
	if strings.HasPrefix(spec, "L") {
		for _, p := range strings.Split(spec[1:], ".") {
			out = append(out, "l"+p)
		}
		return out
	}
	n, _ := strconv.Atoi(spec)
	for i := 0; i < n; i++ {
		out = append(out, "l"+strconv.Itoa(i))
	}
	return out
}

type vfRegOut struct {
	res string // ok | etype | eschema | panic | eother
	m   *vfMetric
	ops []vfRes
}

func vfRegister(r *Registry, name, kind string, labels []string, cap int) (res string, m *vfMetric) {
	defer func() {
		if rec := recover(); rec != nil {
			res, m = "panic", nil
		}
	}()
	m = &vfMetric{kind: kind, r: r}
	var err error
	switch kind {
	case "c":
		m.c, err = r.RegisterCounter(CounterOpts{Name: name, Help: "h", Labels: labels, MaxSeriesPerMetric: cap})
	case "g":
		m.g, err = r.RegisterGauge(GaugeOpts{Name: name, Help: "h", Labels: labels, MaxSeriesPerMetric: cap})
	default:
		m.h, err = r.RegisterHistogram(HistogramOpts{Name: name, Help: "h", Labels: labels, Buckets: []float64{1, 5}, MaxSeriesPerMetric: cap})
	}
	switch {
	case err == nil:
		return "ok", m
	case errors.Is(err, ErrTypeMismatch):
		return "etype", nil
	case errors.Is(err, ErrSchemaMismatch):
		return "eschema", nil
	}
	return "eother", nil
}

func (m *vfMetric) obj() any {
	switch m.kind {
	case "c":
		return m.c
	case "g":
		return m.g
	default:
		return m.h
	}
}

func (x vfHandle) parent() any {
	switch {
	case x.c != nil:
		return x.c.counter
	case x.g != nil:
		return x.g.gauge
	default:
		return x.h.histogram
	}
}

type vfRegPool struct {
	ths     []vfRegThread
	cap     int
	reg     atomic.Pointer[Registry]
	roundNo atomic.Int64
	done    atomic.Int32
	out     []vfRegOut
	wg      sync.WaitGroup
}

func vfNewRegPool(ths []vfRegThread, cap int) *vfRegPool {
	p := &vfRegPool{ths: ths, cap: cap, out: make([]vfRegOut, len(ths))}
	for i := range ths {
		p.wg.Add(1)
		go func(i int) {
			defer p.wg.Done()
			last := int64(0)
			t := p.ths[i]
			for {
				spins := 0
				for p.roundNo.Load() == last {
					vfSpin(&spins)
				}
				last = p.roundNo.Load()
				if last < 0 {
					return
				}
				var o vfRegOut
				o.res, o.m = vfRegister(p.reg.Load(), t.name, t.kind, t.labels, p.cap)
				if o.res == "ok" {
					o.ops, _ = vfExec(o.m, t.prog, nil)
				}
				p.out[i] = o
				p.done.Add(1)
			}
		}(i)
	}
	return p
}

func vfRegRound(p *vfRegPool, noise, pre bool) string {
	r := NewRegistry()
	r.SetTickInterval(24 * time.Hour)
	defer r.Shutdown(context.Background())
	preObj := map[string]any{}
	var names []string
	seenName := map[string]bool{}
	for _, t := range p.ths {
		if !seenName[t.name] {
			seenName[t.name] = true
			names = append(names, t.name)
			if pre {
				if res, m := vfRegister(r, t.name, t.kind, t.labels, p.cap); res == "ok" {
					preObj[t.name] = m.obj()
				}
			}
		}
	}
	sort.Strings(names)
	stopNoise := make(chan struct{})
	var nwg sync.WaitGroup
	if noise {
		nwg.Add(1)
		started := make(chan struct{})
		go func() {
			defer nwg.Done()
			stuck := r.Subscribe(SubscribeOptions{BufferSize: 1})
			defer stuck.Unsubscribe()
			close(started)
			var buf []Sample
			for {
				select {
				case <-stopNoise:
					return
				default:
				}
				sub := r.Subscribe(SubscribeOptions{BufferSize: 2})
				buf = r.AppendSnapshot(buf[:0], SnapshotOptions{})
				r.publishTick(nil, time.Unix(0, 0))
				_ = r.MetricCount()
				sub.Unsubscribe()
			}
		}()
		<-started
	}
	p.reg.Store(r)
	p.done.Store(0)
	p.roundNo.Add(1)
	spins := 0
	for int(p.done.Load()) < len(p.ths) {
		vfSpin(&spins)
	}
	close(stopNoise)
	nwg.Wait()

	var parts []string
	for _, name := range names {
		var regObj any
		var rm *vfMetric
		if v, ok := r.metrics.Load(name); ok {
			regObj = v
			switch x := v.(type) {
			case *Counter:
				rm = &vfMetric{kind: "c", r: r, c: x}
			case *Gauge:
				rm = &vfMetric{kind: "g", r: r, g: x}
			case *Histogram:
				rm = &vfMetric{kind: "h", r: r, h: x}
			}
		}
		distinct := map[any]bool{}
		allSame := true
		if o, ok := preObj[name]; ok {
			distinct[o] = true
			if o != regObj {
				allSame = false
			}
		}
		for i, t := range p.ths {
			if t.name == name && p.out[i].res == "ok" {
				distinct[p.out[i].m.obj()] = true
				if p.out[i].m.obj() != regObj {
					allSame = false
				}
			}
		}
		inMap := map[any]bool{}
		seen := map[any]vfHandle{}
		var live []string
		var c int64
		var d, u, st uint64
		if rm != nil {
			type ent struct {
				tup string
				h   vfHandle
			}
			var es []ent
			rm.series().Range(func(_, v any) bool {
				h := rm.wrap(v)
				es = append(es, ent{vfTupleTok(h.labelValues()), h})
				inMap[h.key()] = true
				seen[h.key()] = h
				return true
			})
			sort.Slice(es, func(i, j int) bool { return es[i].tup < es[j].tup })
			for _, e := range es {
				live = append(live, e.tup+":"+e.h.scalarStr())
			}
			mi := regObj.(metric)
			c, d, u, st = mi.seriesCountLoad(), mi.cardinalityDropsLoad(), mi.unknownSeriesEmitsLoad(), mi.staleHandleEmitsLoad()
		}
		var tparts []string
		var total uint64
		for i, t := range p.ths {
			if t.name != name {
				continue
			}
			o := p.out[i]
			fields := []string{o.res}
			if o.res == "ok" {
				total += vfWeight(t.kind, [][]vfOp{t.prog})
				for j, rr := range o.ops {
					if rr.code != "h" {
						fields = append(fields, rr.code)
						continue
					}
					if rr.h.tomb() {
						fields = append(fields, "t")
						continue
					}
					cls := "o"
					switch {
					case rr.h.parent() != regObj:
						cls = "O" // a series of a metric object the registry does not know: no snapshot will ever see it
					case inMap[rr.h.key()]:
						cls = "l"
					case rr.h.stale():
						cls = "s"
					}
					if cls != "O" {
						seen[rr.h.key()] = rr.h
					}
					if vfTupleTok(rr.h.labelValues()) != vfTupleTok(t.prog[j].tuple) {
						cls = "X"
					}
					fields = append(fields, cls+rr.h.scalarStr())
				}
			}
			tparts = append(tparts, "T"+strconv.Itoa(i)+"="+strings.Join(fields, "."))
		}
		var acc uint64
		for _, h := range seen {
			acc += h.scalar()
		}
		acc += d + u + st
		same := "0"
		if allSame {
			same = "1"
		}
		parts = append(parts, name+":reg="+strconv.Itoa(len(distinct))+","+same+";m="+strings.Join(live, "+")+
			";c="+strconv.FormatInt(c, 10)+";d="+strconv.FormatUint(d, 10)+";u="+strconv.FormatUint(u, 10)+
			";s="+strconv.FormatUint(st, 10)+";lost="+strconv.FormatInt(vfLost(rm, total, acc), 10)+";"+strings.Join(tparts, ";"))
	}
	return strings.Join(parts, " # ")
}

func vfLost(rm *vfMetric, total, acc uint64) int64 {
	if rm != nil && rm.kind == "g" {
		return 0
	}
	return int64(total - acc)
}

func vfReg(f []string) string {
	cap, _ := strconv.Atoi(f[1])
	rounds, _ := strconv.Atoi(f[2])
	noise := f[3] == "1"
	pre := f[4] == "1"
	var ths []vfRegThread
	for _, tok := range f[5:] {
		p := strings.Split(tok, "@")
		ths = append(ths, vfRegThread{name: p[0], kind: p[1], labels: vfRegLabels(p[2]), prog: vfProg(p[3])})
	}
	if runtime.GOMAXPROCS(0) < len(ths)+1 {
		runtime.GOMAXPROCS(len(ths) + 1)
	}
	set := map[string]bool{}
	pool := vfNewRegPool(ths, cap)
	deadline := time.Now().Add(time.Duration(rounds)*150*time.Microsecond + 200*time.Millisecond)
	for i := 0; i < rounds; i++ {
		set[vfRegRound(pool, noise, pre)] = true
		if i%32 == 31 && time.Now().After(deadline) {
			break
		}
	}
	pool.roundNo.Store(-1)
	pool.wg.Wait()
	var obs []string
	for o := range set {
		obs = append(obs, o)
	}
	sort.Strings(obs)
	return "reg " + strings.Join(obs, " | ")
}

// ---------------------------------------------------------------- churn on ONE tuple
//
//	churn <kind> <cap> <budget_ms> <iters> <nU> <nC> <nE> <noise>
//
// nU goroutines loop UnregisterSeries(A), nC loop WithLabelValues(A)+emit(1) keeping every handle they were given,
// nE loop emit-by-tuple(A,1); all of them meet at a spin barrier before EVERY iteration so the three parties overlap
// again and again on a warm metric.  At quiescence every distinct handle ever handed out emits once more, then the
// conservation monitor decides: each handle must be the tombstone, in the series map, or stale, and
// live + stale series values + cardinality_drops + unknown + stale_handle_emits == emitted.
type vfBarrier struct {
	gen atomic.Int64
	cnt atomic.Int32
	n   int32
}

func (b *vfBarrier) wait() {
	g := b.gen.Load()
	if b.cnt.Add(1) == b.n {
		b.cnt.Store(0)
		b.gen.Add(1)
		return
	}
	spins := 0
	for b.gen.Load() == g {
		vfSpin(&spins)
	}
}

func (x vfHandle) churnScalar() uint64 {
	if x.g != nil {
		return uint64(int64(x.g.Value()))
	}
	return x.scalar()
}

type vfChurnStats struct{ orphans, lost, overcap, drift, alias, rounds int64 }

func vfChurnRound(kind string, cap, iters, nU, nC, nE int, noise bool, st *vfChurnStats) {
	var bks []float64
	if kind == "h" {
		bks = []float64{1, 5}
	}
	m := vfNewMetric(kind, cap, 1, bks)
	defer m.r.Shutdown(context.Background())
	tupA := []string{"A"}
	h0 := m.resolve(tupA)
	n := nU + nC + nE
	bar := &vfBarrier{n: int32(n)}
	held := make([][]vfHandle, nC)
	var emitted atomic.Uint64
	var wg sync.WaitGroup
	stopNoise := make(chan struct{})
	var nwg sync.WaitGroup
	if noise {
		nwg.Add(1)
		started := make(chan struct{})
		go func() {
			defer nwg.Done()
			stuck := m.r.Subscribe(SubscribeOptions{BufferSize: 1})
			defer stuck.Unsubscribe()
			close(started)
			var buf []Sample
			for {
				select {
				case <-stopNoise:
					return
				default:
				}
				buf = m.r.AppendSnapshot(buf[:0], SnapshotOptions{})
				m.r.publishTick(nil, time.Unix(0, 0))
			}
		}()
		<-started
	}
	for i := 0; i < n; i++ {
		wg.Add(1)
		go func(i int) {
			defer wg.Done()
			for k := 0; k < iters; k++ {
				bar.wait()
				switch {
				case i < nU:
					m.unreg(tupA)
				case i < nU+nC:
					h := m.resolve(tupA)
					h.emit(false, "1")
					emitted.Add(1)
					held[i-nU] = append(held[i-nU], h)
				default:
					m.emitT(false, "1", tupA)
					emitted.Add(1)
				}
			}
		}(i)
	}
	wg.Wait()
	close(stopNoise)
	nwg.Wait()
	// quiescent: every distinct handle emits once more
	distinct := map[any]vfHandle{h0.key(): h0}
	for _, l := range held {
		for _, h := range l {
			distinct[h.key()] = h
		}
	}
	for _, h := range distinct {
		h.emit(false, "1")
		emitted.Add(1)
	}
	inMap := map[any]bool{}
	nseries := 0
	m.series().Range(func(_, v any) bool {
		inMap[m.wrap(v).key()] = true
		nseries++
		return true
	})
	var visible uint64
	for _, h := range distinct {
		switch {
		case h.tomb():
		case inMap[h.key()] || h.stale():
			visible += h.churnScalar()
			if len(h.labelValues()) != 1 || h.labelValues()[0] != "A" {
				st.alias++
			}
		default:
			st.orphans++
		}
	}
	// a series in the map that nobody holds would be a handle the harness lost track of
	for k := range inMap {
		if _, ok := distinct[k]; !ok {
			m.series().Range(func(_, v any) bool {
				if h := m.wrap(v); h.key() == k {
					visible += h.churnScalar()
				}
				return true
			})
		}
	}
	var mi metric
	switch kind {
	case "c":
		mi = m.c
	case "g":
		mi = m.g
	default:
		mi = m.h
	}
	visible += mi.cardinalityDropsLoad() + mi.unknownSeriesEmitsLoad() + mi.staleHandleEmitsLoad()
	if d := int64(emitted.Load() - visible); d != 0 {
		if d < 0 {
			d = -d
		}
		st.lost += d
	}
	capEff := cap
	if capEff == 0 {
		capEff = DefaultMaxSeriesPerMetric
	}
	if capEff > 0 && nseries > capEff {
		st.overcap++
	}
	if mi.seriesCountLoad() != int64(nseries) {
		st.drift++
	}
	st.rounds++
}

func vfChurn(f []string) string {
	kind := f[1]
	cap, _ := strconv.Atoi(f[2])
	budget, _ := strconv.Atoi(f[3])
	iters, _ := strconv.Atoi(f[4])
	nU, _ := strconv.Atoi(f[5])
	nC, _ := strconv.Atoi(f[6])
	nE, _ := strconv.Atoi(f[7])
	noise := f[8] == "1"
	if runtime.GOMAXPROCS(0) < nU+nC+nE+1 {
		runtime.GOMAXPROCS(nU + nC + nE + 1)
	}
	var st vfChurnStats
	deadline := time.Now().Add(time.Duration(budget) * time.Millisecond)
	for st.rounds < 3 || time.Now().Before(deadline) {
		vfChurnRound(kind, cap, iters, nU, nC, nE, noise, &st)
		if st.rounds >= 100000 {
			break
		}
	}
	return fmt.Sprintf("churn orphans=%d lost=%d overcap=%d drift=%d alias=%d", st.orphans, st.lost, st.overcap, st.drift, st.alias)
}

// ---------------------------------------------------------------- default configuration: many series
//
//	bulk <kind> <cap> <n> <g>
//
// The metric is registered with MaxSeriesPerMetric = cap (0 = the field is left at its zero value, i.e. the default cap
// applies); g goroutines resolve n distinct tuples between them and emit 1 through every handle they get.
func vfBulk(f []string) string {
	kind := f[1]
	cap, _ := strconv.Atoi(f[2])
	// "<n>" = n tuples; "+<k>" = k tuples more than the default cap the package exports (so the default is always reached)
	n, _ := strconv.Atoi(strings.TrimPrefix(f[3], "+"))
	if strings.HasPrefix(f[3], "+") {
		n += DefaultMaxSeriesPerMetric
	}
	g, _ := strconv.Atoi(f[4])
	var bks []float64
	if kind == "h" {
		bks = []float64{1, 5}
	}
	m := vfNewMetric(kind, cap, 1, bks)
	defer m.r.Shutdown(context.Background())
	var tombs, early atomic.Int64
	capEff := cap
	if capEff == 0 {
		capEff = DefaultMaxSeriesPerMetric
	}
	var wg sync.WaitGroup
	bar := &vfBarrier{n: int32(g)}
	for j := 0; j < g; j++ {
		wg.Add(1)
		go func(j int) {
			defer wg.Done()
			bar.wait()
			for i := j; i < n; i += g {
				h := m.resolve([]string{strconv.Itoa(i)})
				h.emit(false, "1")
				if h.tomb() {
					tombs.Add(1)
					// a tombstone is legitimate only once the cap is reached; nothing is ever unregistered here, so
					// seriesCount read AFTER the call must be at the cap (on an unbounded metric: never)
					if capEff <= 0 || m.r.SeriesCount() < int64(capEff) {
						early.Add(1)
					}
				}
			}
		}(j)
	}
	wg.Wait()
	series, sum := 0, uint64(0)
	cnt, d, u, st := "?", "0", "0", "0"
	for _, s := range m.r.AppendSnapshot(nil, SnapshotOptions{}) {
		switch s.Name {
		case "vf.m":
			series++
			if s.Type == MetricHistogram {
				sum += s.Histogram.Count
			} else {
				sum += uint64(s.Value)
			}
		case internalMetricSeriesTotal:
			cnt = vfFloat(s.Value)
		case internalMetricCardinalityDrops:
			d = vfFloat(s.Value)
		case internalMetricUnknownEmits:
			u = vfFloat(s.Value)
		case internalMetricStaleEmits:
			st = vfFloat(s.Value)
		}
	}
	return fmt.Sprintf("bulk n=%d dcap=%d series=%d drops=%s tombs=%d sum=%d count=%s unknown=%s stale=%s early=%d", n, DefaultMaxSeriesPerMetric, series, d, tombs.Load(), sum, cnt, u, st, early.Load())
}

func TestVerifC20(t *testing.T) {
	in, err := os.Open(os.Getenv("VERIF_CASES"))
	if err != nil {
		t.Fatal(err)
	}
	defer in.Close()
	out, err := os.Create(os.Getenv("VERIF_OUT"))
	if err != nil {
		t.Fatal(err)
	}
	defer out.Close()
	w := bufio.NewWriter(out)
	defer w.Flush()
	sc := bufio.NewScanner(in)
	sc.Buffer(make([]byte, 1<<20), 1<<26)
	hung := false
	for sc.Scan() {
		f := strings.Fields(sc.Text())
		if len(f) == 0 {
			continue
		}
		if hung {
			// a goroutine of the code under test is blocked for good; do not pile more on top of it
			fmt.Fprintln(w, "skipped-after-hang")
			continue
		}
		done := make(chan string, 1)
		go func() {
			defer func() {
				if r := recover(); r != nil {
					done <- "panic " + strings.ReplaceAll(fmt.Sprint(r), "\n", " ")
				}
			}()
			switch f[0] {
			case "seq":
				done <- vfSeq(f)
			case "conc", "rconc":
				done <- vfConc(f)
			case "reg", "rreg":
				done <- vfReg(f)
			case "churn", "rchurn":
				done <- vfChurn(f)
			case "bulk", "rbulk":
				done <- vfBulk(f)
			case "probe":
				done <- "probe dcap=" + strconv.Itoa(DefaultMaxSeriesPerMetric)
			default:
				done <- "badline"
			}
		}()
		limit := 90 * time.Second
		if f[0] == "seq" {
			limit = 5 * time.Second
		}
		select {
		case line := <-done:
			fmt.Fprintln(w, line)
		case <-time.After(limit):
			// an emitter or the tick blocked: the non-blocking clause is violated (or the harness is stuck)
			fmt.Fprintln(w, "hang")
			hung = true
		}
		w.Flush()
	}
}
