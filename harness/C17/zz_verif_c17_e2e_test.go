//go:build verif

package ipoe

// C17 end-to-end harness: the REAL ipoe component (this package; DHCPv4 DISCOVER through
// handleDiscover, terminate through handleSubscriberTerminate) and the REAL pppoe component
// (pppoe.New + Start; PADI/PADR packets through its packet channel) run against ONE shared
// session.Registry and ONE real local event bus, on a mixed-access S-VLAN.
//
// Case: "e2e <op>..." with
//
//	D<t>   DHCPv4 DISCOVER from tuple t (0..3)           (ipoe session-creation path handleDiscover, dhcpv4.go)
//	Q<t>   DHCPv4 REQUEST without a preceding DISCOVER   (ipoe session-creation path handleRequest, dhcpv4.go)
//	S<t>   DHCPv6 SOLICIT                                (ipoe session-creation path handleDHCPv6Solicit, dhcpv6.go)
//	P<t>   PPPoE PADI + PADR from tuple t                (pppoe session-creation path, handlePADR)
//
// Case "ae2e <op>...": the same with the terminate events HELD by the bus wrapper until released:
//
//	V      the bus delivers the oldest held terminate event (to both components)
//	X<t>   PADT for the tuple's current PPPoE session
//	O<t>   a terminate request naming the tuple's IPoE session is published (held like every terminate event)
//
// After every op the system is left to settle (sentinel events through the bus until neither the
// number of published events nor the snapshot changes any more) and one token is printed with the
// state of ALL four tuples, the op's own tuple first:
//
//	t<t>:i<n>p<m>:<owner>,t<u>:...,...
//
// n = IPoE sessions for the tuple in the ipoe component's own session index, m = PPPoE sessions
// created for the tuple (PADS sent) and not yet released (lifecycle "released" event), owner =
// protocol of the registry's owner (i, p) or - when the tuple is unowned.
import (
	"bufio"
	"context"
	"fmt"
	"net"
	"os"
	"strings"
	"sync"
	"testing"
	"time"

	"github.com/google/gopacket/layers"
	"github.com/veesix-networks/osvbng/internal/pppoe"
	"github.com/veesix-networks/osvbng/pkg/component"
	"github.com/veesix-networks/osvbng/pkg/config"
	aaacfg "github.com/veesix-networks/osvbng/pkg/config/aaa"
	"github.com/veesix-networks/osvbng/pkg/config/subscriber"
	"github.com/veesix-networks/osvbng/pkg/dataplane"
	"github.com/veesix-networks/osvbng/pkg/dhcp6"
	"github.com/veesix-networks/osvbng/pkg/events"
	"github.com/veesix-networks/osvbng/pkg/events/local"
	"github.com/veesix-networks/osvbng/pkg/ifmgr"
	"github.com/veesix-networks/osvbng/pkg/logger"
	"github.com/veesix-networks/osvbng/pkg/models"
	pppoepkt "github.com/veesix-networks/osvbng/pkg/pppoe"
	"github.com/veesix-networks/osvbng/pkg/session"
)

// c17HoldBus is what both components get as their event bus.  It passes everything to the real local bus,
// except that SubscriberTerminate events can be HELD in publication order and released one at a time (V op): the
// real bus is asynchronous, this makes the interleaving of creations, teardowns and deliveries a test input.
type c17HoldBus struct {
	events.Bus
	mu   sync.Mutex
	hold bool
	q    []events.Event
}

func (b *c17HoldBus) Publish(topic string, ev events.Event) {
	b.mu.Lock()
	if b.hold && topic == events.TopicSubscriberTerminate {
		b.q = append(b.q, ev)
		b.mu.Unlock()
		return
	}
	b.mu.Unlock()
	b.Bus.Publish(topic, ev)
}

func (b *c17HoldBus) releaseOne() {
	b.mu.Lock()
	if len(b.q) == 0 {
		b.mu.Unlock()
		return
	}
	ev := b.q[0]
	b.q = b.q[1:]
	b.mu.Unlock()
	b.Bus.Publish(events.TopicSubscriberTerminate, ev)
}

type c17Mixed struct{}

func (c17Mixed) IsMixedAccessSVLAN(svlan uint16) bool { return svlan == 100 || svlan == 101 }

type c17Tuple struct {
	mac  net.HardwareAddr
	cvl  uint16
	svl  uint16
	name string
}

// t0 is the base tuple; every other tuple differs from it in as few components as possible: t1 MAC[5], t2 C-VLAN, t3 C-VLAN 0 and MAC[5],
// t4 S-VLAN, t5..t9 MAC[0]..MAC[4]
var c17Tuples = []c17Tuple{
	{net.HardwareAddr{0x02, 0xaa, 0xbb, 0xcc, 0x00, 0x01}, 10, 100, "t0"},
	{net.HardwareAddr{0x02, 0xaa, 0xbb, 0xcc, 0x00, 0x11}, 10, 100, "t1"},
	{net.HardwareAddr{0x02, 0xaa, 0xbb, 0xcc, 0x00, 0x01}, 11, 100, "t2"},
	{net.HardwareAddr{0x02, 0xaa, 0xbb, 0xcc, 0x00, 0x02}, 0, 100, "t3"},
	{net.HardwareAddr{0x02, 0xaa, 0xbb, 0xcc, 0x00, 0x01}, 10, 101, "t4"},
	{net.HardwareAddr{0x06, 0xaa, 0xbb, 0xcc, 0x00, 0x01}, 10, 100, "t5"},
	{net.HardwareAddr{0x02, 0xab, 0xbb, 0xcc, 0x00, 0x01}, 10, 100, "t6"},
	{net.HardwareAddr{0x02, 0xaa, 0xba, 0xcc, 0x00, 0x01}, 10, 100, "t7"},
	{net.HardwareAddr{0x02, 0xaa, 0xbb, 0xcd, 0x00, 0x01}, 10, 100, "t8"},
	{net.HardwareAddr{0x02, 0xaa, 0xbb, 0xcc, 0x01, 0x01}, 10, 100, "t9"},
}

type c17World struct {
	mu       sync.Mutex
	bus      events.Bus
	hb       *c17HoldBus
	cur      map[string]uint16 // tuple -> PPPoE session id of the last PADS
	reg      *session.Registry
	ic       *Component
	pc       *pppoe.Component
	pppCh    chan *dataplane.ParsedPacket
	cookies  map[string][]byte // tuple -> AC-Cookie of the last PADO
	created  map[string]map[uint16]bool
	released map[uint16]bool
	activity int64
	sentinel, sentinelSeen int64
	ipoeBusy int
	cancel   context.CancelFunc
}

func (w *c17World) tupleOf(mac string, svlan, cvlan uint16) string {
	for _, t := range c17Tuples {
		if t.mac.String() == mac && t.svl == svlan && t.cvl == cvlan {
			return t.name
		}
	}
	return "?"
}

func c17NewWorld(hold bool) *c17World {
	ifMgr := ifmgr.New()
	ifMgr.Add(&ifmgr.Interface{SwIfIndex: 10, SupSwIfIndex: 2, Name: "TenGigE0/0.100", Type: ifmgr.IfTypeSub, OuterVlanID: 100})
	ifMgr.Add(&ifmgr.Interface{SwIfIndex: 2, Name: "TenGigE0/0", Type: ifmgr.IfTypeHardware, MAC: []byte{0x52, 0x54, 0x00, 0x11, 0x22, 0x33}})
	cfg := &config.Config{
		SubscriberGroups: &subscriber.SubscriberGroupsConfig{
			Groups: map[string]*subscriber.SubscriberGroup{
				"grp": {IPv4Profile: "v4", IPv6Profile: "v6", AAAPolicy: "p1", VLANs: []subscriber.VLANRange{{SVLAN: "100-101"}}},
			},
		},
		AAA: aaacfg.AAAConfig{Policy: []aaacfg.AAAPolicy{{Name: "p1", Type: aaacfg.PolicyTypeDHCP, Format: "$mac-address$"}}},
	}
	w := &c17World{bus: local.NewBus(), reg: session.NewRegistry(), pppCh: make(chan *dataplane.ParsedPacket, 64),
		cookies: map[string][]byte{}, created: map[string]map[uint16]bool{}, released: map[uint16]bool{}, cur: map[string]uint16{}}
	w.hb = &c17HoldBus{Bus: w.bus, hold: hold}
	cm := &fakeConfigManager{cfg: cfg}
	srg := &fakeSRGProvider{active: true, srgForGrp: "grp"}
	// observers on the bus: PADO cookies, PADS (= PPPoE session created), lifecycle released
	w.bus.SubscribeAll(func(ev events.Event) {
		w.mu.Lock()
		defer w.mu.Unlock()
		if n, ok := ev.Data.(int64); ok && ev.Source == "verif" {
			if n > w.sentinelSeen {
				w.sentinelSeen = n
			}
			return
		}
		w.activity++
		switch d := ev.Data.(type) {
		case *events.EgressEvent:
			if d.Protocol != models.ProtocolPPPoEDiscovery {
				return
			}
			p := d.Packet
			if len(p.RawData) < 6 {
				return
			}
			code := layers.PPPoECode(p.RawData[1])
			sid := uint16(p.RawData[2])<<8 | uint16(p.RawData[3])
			tn := w.tupleOf(p.DstMAC, p.OuterVLAN, p.InnerVLAN)
			switch code {
			case layers.PPPoECodePADO:
				if tags, err := pppoepkt.ParseTags(p.RawData[6:]); err == nil {
					w.cookies[tn] = tags.ACCookie
				}
			case layers.PPPoECodePADS:
				if w.created[tn] == nil {
					w.created[tn] = map[uint16]bool{}
				}
				w.created[tn][sid] = true
				w.cur[tn] = sid
			}
		case *events.SessionLifecycleEvent:
			if ps, ok := d.Session.(*models.PPPSession); ok && d.State == models.SessionStateReleased {
				w.released[ps.PPPSessionID] = true
			}
		}
	})
	// the ipoe component, wired as Component.Start wires it (component.go: Subscribe terminate)
	w.ic = &Component{
		Base: component.NewBase("ipoe"), logger: logger.NewTest(), eventBus: w.hb, srgMgr: srg, ifMgr: ifMgr, cfgMgr: cm,
		exclusivity: w.reg, accessResolver: c17Mixed{},
	}
	w.ic.SetReadyState(component.StateReady)
	w.bus.Subscribe(events.TopicSubscriberTerminate, func(ev events.Event) {
		w.mu.Lock()
		w.ipoeBusy++
		w.mu.Unlock()
		w.ic.handleSubscriberTerminate(ev)
		w.mu.Lock()
		w.ipoeBusy--
		w.mu.Unlock()
	})
	// the pppoe component through its exported constructor and Start
	pc, err := pppoe.New(component.Dependencies{EventBus: w.hb, ConfigManager: cm, Exclusivity: w.reg,
		AccessResolver: c17Mixed{}, PPPChan: w.pppCh}, srg, ifMgr, nil)
	if err != nil {
		panic(err)
	}
	ctx, cancel := context.WithCancel(context.Background())
	w.cancel = cancel
	if err := pc.Start(ctx); err != nil {
		panic(err)
	}
	w.pc = pc
	return w
}

func (w *c17World) close() {
	w.cancel()
	ctx, c := context.WithTimeout(context.Background(), time.Second)
	defer c()
	w.pc.Stop(ctx)
	w.bus.Close()
}

const c17Sentinel = "verif:c17:sentinel"

// one barrier: a sentinel event published now has been dispatched by the bus, i.e. every event published
// before it has been handed to its handlers
func (w *c17World) barrier() bool {
	w.mu.Lock()
	w.sentinel++
	want := w.sentinel
	w.mu.Unlock()
	w.bus.Publish(c17Sentinel, events.Event{Source: "verif", Data: want})
	for i := 0; i < 2000; i++ {
		w.mu.Lock()
		got := w.sentinelSeen
		w.mu.Unlock()
		if got >= want {
			return true
		}
		time.Sleep(500 * time.Microsecond)
	}
	return false
}

// settled = four consecutive barrier rounds during which nobody but this harness published an event, no ipoe
// terminate handler was running, and the snapshot of all tuples stayed the same
func (w *c17World) settle(t c17Tuple) string {
	last, stable := "", 0
	var lastAct int64 = -1
	deadline := time.Now().Add(5 * time.Second)
	for time.Now().Before(deadline) {
		if !w.barrier() {
			break
		}
		time.Sleep(2 * time.Millisecond)
		s := w.snapshotAll(t)
		w.mu.Lock()
		act, busy := w.activity, w.ipoeBusy
		w.mu.Unlock()
		if s == last && act == lastAct && busy == 0 {
			stable++
			if stable >= 4 {
				return s
			}
		} else {
			last, lastAct, stable = s, act, 0
		}
	}
	return last + "!unsettled"
}

func (w *c17World) snapshotAll(first c17Tuple) string {
	// the op's own tuple, then every other tuple that is not empty
	parts := []string{w.snapshot(first)}
	for _, t := range c17Tuples {
		if t.name != first.name {
			if s := w.snapshot(t); !strings.HasSuffix(s, ":i0p0:-") {
				parts = append(parts, s)
			}
		}
	}
	return strings.Join(parts, ",")
}

func (w *c17World) snapshot(t c17Tuple) string {
	ni := 0
	w.ic.sessionIndex.Range(func(_, v any) bool {
		s := v.(*SessionState)
		if s.MAC.String() == t.mac.String() && s.OuterVLAN == t.svl && s.InnerVLAN == t.cvl {
			ni++
		}
		return true
	})
	w.mu.Lock()
	np := 0
	for sid := range w.created[t.name] {
		if !w.released[sid] {
			np++
		}
	}
	act := w.activity
	w.mu.Unlock()
	_ = act
	own := "-"
	if o := w.reg.Lookup(session.MakeTupleKey(t.svl, t.cvl, t.mac)); o != nil {
		switch o.Protocol {
		case session.ProtoIPoE:
			own = "i"
		case session.ProtoPPPoE:
			own = "p"
		default:
			own = "?"
		}
	}
	return fmt.Sprintf("%s:i%dp%d:%s", t.name, ni, np, own)
}

func (w *c17World) discover(t c17Tuple) {
	dh := &layers.DHCPv4{Operation: layers.DHCPOpRequest, HardwareType: layers.LinkTypeEthernet, HardwareLen: 6, Xid: 0x1234,
		ClientHWAddr: t.mac, Options: layers.DHCPOptions{layers.NewDHCPOption(layers.DHCPOptMessageType, []byte{byte(layers.DHCPMsgTypeDiscover)})}}
	_ = w.ic.handleDiscover(&dataplane.ParsedPacket{MAC: t.mac, OuterVLAN: t.svl, InnerVLAN: t.cvl, SwIfIndex: 10, DHCPv4: dh})
}

func (w *c17World) request(t c17Tuple) {
	dh := &layers.DHCPv4{Operation: layers.DHCPOpRequest, HardwareType: layers.LinkTypeEthernet, HardwareLen: 6, Xid: 0x1235,
		ClientHWAddr: t.mac, Options: layers.DHCPOptions{layers.NewDHCPOption(layers.DHCPOptMessageType, []byte{byte(layers.DHCPMsgTypeRequest)})}}
	_ = w.ic.handleRequest(&dataplane.ParsedPacket{MAC: t.mac, OuterVLAN: t.svl, InnerVLAN: t.cvl, SwIfIndex: 10, DHCPv4: dh})
}

func (w *c17World) solicit(t c17Tuple) {
	msg := &dhcp6.Message{MsgType: dhcp6.MsgTypeSolicit, TransactionID: [3]byte{1, 2, 3}}
	msg.Options.ClientID = []byte{0, 3, 0, 1, t.mac[0], t.mac[1], t.mac[2], t.mac[3], t.mac[4], t.mac[5]}
	_ = w.ic.handleDHCPv6Solicit(&dataplane.ParsedPacket{MAC: t.mac, OuterVLAN: t.svl, InnerVLAN: t.cvl, SwIfIndex: 10,
		DHCPv6: &layers.DHCPv6{}}, msg, nil)
}

// PADT from the host for the tuple's current PPPoE session (handlePADT -> removeFromIndexes -> Release)
func (w *c17World) padt(t c17Tuple) {
	w.mu.Lock()
	sid, ok := w.cur[t.name]
	delete(w.cur, t.name)
	w.mu.Unlock()
	if !ok {
		return
	}
	w.pppCh <- &dataplane.ParsedPacket{Protocol: models.ProtocolPPPoEDiscovery, MAC: t.mac, OuterVLAN: t.svl, InnerVLAN: t.cvl, SwIfIndex: 10,
		PPPoE: &layers.PPPoE{Version: 1, Type: 1, Code: layers.PPPoECodePADT, SessionId: sid}}
	for i := 0; i < 2000; i++ {
		time.Sleep(time.Millisecond)
		w.mu.Lock()
		gone := w.released[sid]
		w.mu.Unlock()
		if gone {
			return
		}
	}
}

// a terminate request naming the tuple's IPoE session (operator clear, lease expiry, ...) is published
func (w *c17World) operTerminate(t c17Tuple) {
	var sid string
	w.ic.sessionIndex.Range(func(_, v any) bool {
		s := v.(*SessionState)
		if s.MAC.String() == t.mac.String() && s.OuterVLAN == t.svl && s.InnerVLAN == t.cvl {
			sid = s.SessionID
		}
		return true
	})
	if sid != "" {
		w.hb.Publish(events.TopicSubscriberTerminate, events.Event{Source: "operator", Data: &events.SubscriberTerminateEvent{SessionID: sid, Reason: "cleared"}})
	}
}

func (w *c17World) pppoeConnect(t c17Tuple) {
	mk := func(code layers.PPPoECode, payload []byte) *dataplane.ParsedPacket {
		return &dataplane.ParsedPacket{Protocol: models.ProtocolPPPoEDiscovery, MAC: t.mac, OuterVLAN: t.svl, InnerVLAN: t.cvl, SwIfIndex: 10,
			PPPoE: &layers.PPPoE{Version: 1, Type: 1, Code: code, Length: uint16(len(payload)), BaseLayer: layers.BaseLayer{Payload: payload}}}
	}
	w.mu.Lock()
	delete(w.cookies, t.name)
	w.mu.Unlock()
	w.pppCh <- mk(layers.PPPoECodePADI, pppoepkt.NewTagBuilder().AddServiceName("").Build())
	var cookie []byte
	for i := 0; i < 400 && cookie == nil; i++ {
		time.Sleep(2 * time.Millisecond)
		w.mu.Lock()
		cookie = w.cookies[t.name]
		w.mu.Unlock()
	}
	if cookie == nil {
		panic("no PADO")
	}
	w.mu.Lock()
	before := len(w.created[t.name])
	w.mu.Unlock()
	w.pppCh <- mk(layers.PPPoECodePADR, pppoepkt.NewTagBuilder().AddServiceName("").AddACCookie(cookie).Build())
	// wait for the PADS of a NEW session id
	for i := 0; i < 2000; i++ {
		time.Sleep(time.Millisecond)
		w.mu.Lock()
		n := len(w.created[t.name])
		w.mu.Unlock()
		if n > before {
			return
		}
	}
	panic("no PADS")
}

func c17E2E(f []string) (out string) {
	defer func() {
		if e := recover(); e != nil {
			out = "panic " + strings.ReplaceAll(fmt.Sprint(e), " ", "_")
		}
	}()
	w := c17NewWorld(f[0] == "ae2e" || f[0] == "rae2e")
	defer w.close()
	var res []string
	for _, op := range f[1:] {
		t := c17Tuples[0]
		if len(op) > 1 {
			t = c17Tuples[int(op[1]-'0')]
		}
		switch op[0] {
		case 'D':
			w.discover(t)
		case 'Q':
			w.request(t)
		case 'S':
			w.solicit(t)
		case 'V':
			w.hb.releaseOne()
		case 'X':
			w.padt(t)
		case 'O':
			w.operTerminate(t)
		case 'P':
			w.pppoeConnect(t)
		default:
			panic("bad op " + op)
		}
		res = append(res, w.settle(t))
	}
	if len(res) == 0 {
		return "empty"
	}
	return strings.Join(res, " ")
}

func TestVerifC17E2E(t *testing.T) {
	in, err := os.Open(os.Getenv("VERIF_CASES"))
	if err != nil {
		t.Fatal(err)
	}
	defer in.Close()
	out, err := os.Create(os.Getenv("VERIF_OUT"))
	if err != nil {
		t.Fatal(err)
	}
	defer out.Close()
	wr := bufio.NewWriter(out)
	defer wr.Flush()
	sc := bufio.NewScanner(in)
	sc.Buffer(make([]byte, 1<<20), 1<<26)
	for sc.Scan() {
		fmt.Fprintln(wr, c17E2E(strings.Fields(sc.Text())))
	}
}
