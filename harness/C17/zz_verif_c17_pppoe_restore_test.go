//go:build verif

package pppoe

// C17 restore harness for internal/pppoe: ownership across a RESTART.  The real component (New, addToIndexes,
// checkpointSessionSync, restoreSessions -> installInMemoryState -> addToIndexes, handleSubscriberTerminate,
// removeFromIndexes) runs on an in-memory opdb that survives the restart; every restart creates a NEW component
// and a NEW session.Registry.  The IPoE side is simulated in the harness exactly as the model describes it
// (one session per tuple, claims when new, re-claims after a restart, leaves when told to terminate).
//
// Case: "rpppoe <op>..." with
//
//	N<t>   a new PPPoE session on tuple t as handlePADR builds it (MixedAccess from the access resolver), indexed, checkpointed
//	X<t>   the IPoE side gets a packet on tuple t (new IPoE session claims, existing one does nothing)
//	B      restart: new registry, new component restored from the opdb; the IPoE side re-claims its live sessions
//
// After every op one token with all tuples, the op's tuple first (B: t0 first):  t<t>:i<n>p<m>:<owner>
// n = simulated IPoE sessions, m = sessions of the tuple in the component's sessionIDIndex, owner = protocol of Lookup.
import (
	"bufio"
	"context"
	"fmt"
	"net"
	"os"
	"strings"
	"sync"
	"testing"
	"time"

	"github.com/veesix-networks/osvbng/pkg/cache/memory"
	"github.com/veesix-networks/osvbng/pkg/component"
	"github.com/veesix-networks/osvbng/pkg/config"
	"github.com/veesix-networks/osvbng/pkg/config/subscriber"
	"github.com/veesix-networks/osvbng/pkg/events"
	"github.com/veesix-networks/osvbng/pkg/ifmgr"
	"github.com/veesix-networks/osvbng/pkg/opdb"
	"github.com/veesix-networks/osvbng/pkg/ppp"
	"github.com/veesix-networks/osvbng/pkg/session"
)

type c17RStore struct {
	mu sync.Mutex
	m  map[string]map[string][]byte
}

func (s *c17RStore) Put(_ context.Context, ns, key string, v []byte) error {
	s.mu.Lock()
	defer s.mu.Unlock()
	if s.m[ns] == nil {
		s.m[ns] = map[string][]byte{}
	}
	s.m[ns][key] = append([]byte(nil), v...)
	return nil
}
func (s *c17RStore) Delete(_ context.Context, ns, key string) error {
	s.mu.Lock()
	defer s.mu.Unlock()
	delete(s.m[ns], key)
	return nil
}
func (s *c17RStore) Load(_ context.Context, ns string, fn opdb.LoadFunc) error {
	s.mu.Lock()
	keys := []string{}
	for k := range s.m[ns] {
		keys = append(keys, k)
	}
	cp := map[string][]byte{}
	for k, v := range s.m[ns] {
		cp[k] = v
	}
	s.mu.Unlock()
	for _, k := range keys {
		if err := fn(k, cp[k]); err != nil {
			return err
		}
	}
	return nil
}
func (s *c17RStore) Count(_ context.Context, ns string) (int, error) {
	s.mu.Lock()
	defer s.mu.Unlock()
	return len(s.m[ns]), nil
}
func (s *c17RStore) Clear(context.Context, string) error { return nil }
func (s *c17RStore) Stats() opdb.Stats                   { return opdb.Stats{} }
func (s *c17RStore) Close() error                        { return nil }

// queueing bus: terminate events are delivered to every registered handler (like the real bus delivers to every
// component) when the harness drains the queue after the operation - never from inside Publish, whose callers hold
// component locks (the real bus is asynchronous too)
type c17RBus struct {
	handlers []events.Handler
	queue    []events.Event
}

func (b *c17RBus) Publish(topic string, ev events.Event) {
	if topic == events.TopicSubscriberTerminate {
		b.queue = append(b.queue, ev)
	}
}

func (b *c17RBus) drain() {
	for len(b.queue) > 0 {
		ev := b.queue[0]
		b.queue = b.queue[1:]
		for _, h := range append([]events.Handler(nil), b.handlers...) {
			h(ev)
		}
	}
}

type c17RSub struct{}

func (c17RSub) Unsubscribe() {}

func (b *c17RBus) Subscribe(string, events.Handler) events.Subscription { return c17RSub{} }
func (b *c17RBus) SubscribeAll(events.Handler) events.Subscription      { return c17RSub{} }
func (b *c17RBus) Stats() events.Stats                                  { return events.Stats{} }
func (b *c17RBus) SetDebugTopics([]string)                              {}
func (b *c17RBus) DebugTopics() []string                                { return nil }
func (b *c17RBus) Close() error                                         { return nil }

type c17RMixed struct{}

func (c17RMixed) IsMixedAccessSVLAN(svlan uint16) bool { return svlan == 100 || svlan == 101 }

type c17RTuple struct {
	mac net.HardwareAddr
	cvl uint16
	svl uint16
}

// same ten tuples as the e2e harness: t0 base, t1 MAC[5], t2 C-VLAN, t3 C-VLAN 0 + MAC[5], t4 S-VLAN, t5..t9 MAC[0]..MAC[4]
var c17RTuples = []c17RTuple{
	{net.HardwareAddr{0x02, 0xaa, 0xbb, 0xcc, 0x00, 0x01}, 10, 100},
	{net.HardwareAddr{0x02, 0xaa, 0xbb, 0xcc, 0x00, 0x11}, 10, 100},
	{net.HardwareAddr{0x02, 0xaa, 0xbb, 0xcc, 0x00, 0x01}, 11, 100},
	{net.HardwareAddr{0x02, 0xaa, 0xbb, 0xcc, 0x00, 0x02}, 0, 100},
	{net.HardwareAddr{0x02, 0xaa, 0xbb, 0xcc, 0x00, 0x01}, 10, 101},
	{net.HardwareAddr{0x06, 0xaa, 0xbb, 0xcc, 0x00, 0x01}, 10, 100},
	{net.HardwareAddr{0x02, 0xab, 0xbb, 0xcc, 0x00, 0x01}, 10, 100},
	{net.HardwareAddr{0x02, 0xaa, 0xba, 0xcc, 0x00, 0x01}, 10, 100},
	{net.HardwareAddr{0x02, 0xaa, 0xbb, 0xcd, 0x00, 0x01}, 10, 100},
	{net.HardwareAddr{0x02, 0xaa, 0xbb, 0xcc, 0x01, 0x01}, 10, 100},
}

type c17RWorld struct {
	store *c17RStore
	reg   *session.Registry
	bus   *c17RBus
	c     *Component
	other map[int]string // simulated IPoE sessions: tuple -> session id
	n     int
	stop  func()
}

func (w *c17RWorld) tk(t int) session.TupleKey {
	return session.MakeTupleKey(c17RTuples[t].svl, c17RTuples[t].cvl, c17RTuples[t].mac)
}

func (w *c17RWorld) boot() {
	if w.stop != nil {
		w.stop()
	}
	cfg := &config.Config{SubscriberGroups: &subscriber.SubscriberGroupsConfig{Groups: map[string]*subscriber.SubscriberGroup{
		"grp": {VLANs: []subscriber.VLANRange{{SVLAN: "100-101", AccessTypes: []subscriber.AccessType{subscriber.AccessTypeIPoE, subscriber.AccessTypePPPoE}}}},
	}}}
	w.reg = session.NewRegistry()
	w.bus = &c17RBus{}
	c, err := New(component.Dependencies{EventBus: w.bus, Cache: memory.New(), ConfigManager: &pppFakeCfgMgr{cfg: cfg}, OpDB: w.store,
		Exclusivity: w.reg, AccessResolver: c17RMixed{}}, nil, ifmgr.New(), nil)
	if err != nil {
		panic(err)
	}
	c.registry = nil
	c.StartContext(context.Background())
	w.stop = c.StopContext
	w.c = c
	w.bus.handlers = []events.Handler{c.handleSubscriberTerminate, w.otherTerminate}
}

// the simulated IPoE component's terminate handler (resolution by tuple only if the event names that session)
func (w *c17RWorld) otherTerminate(ev events.Event) {
	d, ok := ev.Data.(*events.SubscriberTerminateEvent)
	if !ok {
		return
	}
	for t, sid := range w.other {
		if sid == d.SessionID {
			delete(w.other, t)
			w.reg.Release(w.tk(t), session.Owner{Protocol: session.ProtoIPoE, SessionID: sid, Key: w.tk(t)})
		}
	}
}

func (w *c17RWorld) otherClaim(t int, sid string) {
	tk := w.tk(t)
	if prev := w.reg.Claim(tk, session.Owner{Protocol: session.ProtoIPoE, SessionID: sid, Key: tk}); prev != nil && prev.Protocol != session.ProtoIPoE {
		w.bus.Publish(events.TopicSubscriberTerminate, events.Event{Source: "ipoe", Data: &events.SubscriberTerminateEvent{
			SessionID: prev.SessionID, Reason: "evicted by cross-protocol claim", Key: &tk}})
	}
}

func (w *c17RWorld) snapshot(first int) string {
	one := func(t int) string {
		ni := 0
		if _, ok := w.other[t]; ok {
			ni = 1
		}
		np := 0
		w.c.sessionMu.RLock()
		for _, s := range w.c.sessionIDIndex {
			if s.MAC.String() == c17RTuples[t].mac.String() && s.OuterVLAN == c17RTuples[t].svl && s.InnerVLAN == c17RTuples[t].cvl {
				np++
			}
		}
		w.c.sessionMu.RUnlock()
		own := "-"
		if o := w.reg.Lookup(w.tk(t)); o != nil {
			switch o.Protocol {
			case session.ProtoIPoE:
				own = "i"
			case session.ProtoPPPoE:
				own = "p"
			default:
				own = "?"
			}
		}
		return fmt.Sprintf("t%d:i%dp%d:%s", t, ni, np, own)
	}
	parts := []string{one(first)}
	for t := range c17RTuples {
		if t != first {
			if s := one(t); !strings.HasSuffix(s, ":i0p0:-") {
				parts = append(parts, s)
			}
		}
	}
	return strings.Join(parts, ",")
}

func c17RRun(f []string) (out string) {
	defer func() {
		if e := recover(); e != nil {
			out = "panic " + strings.ReplaceAll(fmt.Sprint(e), " ", "_")
		}
	}()
	w := &c17RWorld{store: &c17RStore{m: map[string]map[string][]byte{}}, other: map[int]string{}}
	w.boot()
	defer func() { w.stop() }()
	var res []string
	for _, op := range f[1:] {
		t := 0
		if len(op) > 1 {
			t = int(op[1] - '0')
		}
		switch op[0] {
		case 'N':
			w.n++
			tp := c17RTuples[t]
			sess := &SessionState{
				SessionID: fmt.Sprintf("p%d", w.n), AcctSessionID: fmt.Sprintf("a%d", w.n), PPPoESessionID: uint16(w.n),
				MAC: tp.mac, OuterVLAN: tp.svl, InnerVLAN: tp.cvl, Phase: ppp.PhaseEstablish, GroupName: "grp",
				MixedAccess: w.c.isMixedAccessSVLAN(tp.svl), Attributes: map[string]string{},
				CreatedAt: time.Now(), LastSeen: time.Now(), component: w.c,
			}
			sess.initPPP()
			w.c.sessionMu.Lock()
			w.c.addToIndexes(sess)
			w.c.sessionMu.Unlock()
			w.bus.drain()
			// the component checkpoints a session when it is programmed; sessions that lost the tuple in the meantime
			// were removed (and their checkpoint deleted) by the terminate handler
			w.c.sessionMu.RLock()
			_, live := w.c.sessionIDIndex[sess.SessionID]
			w.c.sessionMu.RUnlock()
			if live {
				if err := w.c.checkpointSessionSync(sess); err != nil {
					panic(err)
				}
			}
		case 'X':
			if _, ok := w.other[t]; !ok {
				w.n++
				sid := fmt.Sprintf("i%d", w.n)
				w.other[t] = sid
				w.otherClaim(t, sid)
				w.bus.drain()
			}
		case 'B':
			w.boot()
			if err := w.c.restoreSessions(context.Background()); err != nil {
				panic(err)
			}
			for tt := 0; tt < len(c17RTuples); tt++ {
				if sid, ok := w.other[tt]; ok {
					w.otherClaim(tt, sid)
				}
			}
			w.bus.drain()
		default:
			panic("bad op " + op)
		}
		res = append(res, w.snapshot(t))
	}
	if len(res) == 0 {
		return "empty"
	}
	return strings.Join(res, " ")
}

func TestVerifC17Restore(t *testing.T) {
	in, err := os.Open(os.Getenv("VERIF_CASES"))
	if err != nil {
		t.Fatal(err)
	}
	defer in.Close()
	out, err := os.Create(os.Getenv("VERIF_OUT"))
	if err != nil {
		t.Fatal(err)
	}
	defer out.Close()
	wr := bufio.NewWriter(out)
	defer wr.Flush()
	sc := bufio.NewScanner(in)
	sc.Buffer(make([]byte, 1<<20), 1<<26)
	for sc.Scan() {
		fmt.Fprintln(wr, c17RRun(strings.Fields(sc.Text())))
	}
}
