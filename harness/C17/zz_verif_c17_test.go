//go:build verif

package session

// C17 correspondence harness (injected into pkg/session with go test -overlay).
//
// Case lines (tokens separated by single spaces):
//
//	seq <op>...                               one goroutine, results compared exactly with the model
//	conc <flags> <T> {<n> <op>*n}*T fin <n> <op>*n
//	rconc ...                                 same as conc (routed to the -race build by props/C17.py)
//	wgl <reject|accept|malformed> <conc body> @@ H <records>   self-test of the driver's linearizability search
//	                                          on a hand-written history; this harness only echoes the expected verdict
//
// ops:  c <key> <proto> <sid> <okey>   Claim      -> nil | o:<proto>/<sid>/<key>
//
//	r <key> <proto> <sid> <okey>   Release    -> ok
//	i <key> <proto> <sid> <okey>   IsOwner    -> T | F
//	l <key>                        Lookup     -> nil | o:...
//	s <key>                        (seq only) the shard shardFor selects, numbered in first-seen order within the case -> s<i>
//	m <svlan> <cvlan> <machex>     (seq only) MakeTupleKey -> k:<key>
//	v                              (seq only) re-read the Owner behind the last non-nil pointer returned by Claim/Lookup -> v:<owner>
//	w                              (seq only) overwrite that Owner through the pointer (must not reach the table) -> w
//	n                              (seq only) number of stored tuples, and whether each sits in its shard -> n<k> | BADSHARD
//
// key = <svlan>.<cvlan>.<12 hex digits>; strings are hex, "-" is the empty string.
// flags = d<0|1>  (1: a disturber goroutine repeatedly write-locks the shards in use so that the
//
//	workers queue up behind the mutex and run their critical sections back to back)
//	y<p>    (each worker yields before an operation with probability p/8)
//	x<n>    (optional, last) repeat the scenario n times; the histories are joined with " | "
//
// A concurrent case prints the recorded history: one token <thread>:<index>:<inv>:<res>:<result> per
// operation; inv/res are taken from one global atomic counter immediately before the call and
// immediately after the return.  The final operations (after all workers were joined) are thread T.
import (
	"bufio"
	"encoding/hex"
	"fmt"
	"math/rand"
	"os"
	"os/exec"
	"runtime"
	"strconv"
	"strings"
	"sync"
	"sync/atomic"
	"testing"
	"time"
)

func c17Str(tok string) string {
	if tok == "-" {
		return ""
	}
	b, err := hex.DecodeString(tok)
	if err != nil {
		panic("bad hex " + tok)
	}
	return string(b)
}

func c17Hex(s string) string {
	if s == "" {
		return "-"
	}
	return hex.EncodeToString([]byte(s))
}

func c17Key(tok string) TupleKey {
	p := strings.Split(tok, ".")
	if len(p) != 3 {
		panic("bad key " + tok)
	}
	s, _ := strconv.Atoi(p[0])
	c, _ := strconv.Atoi(p[1])
	m, err := hex.DecodeString(p[2])
	if err != nil || len(m) != 6 {
		panic("bad mac " + tok)
	}
	var k TupleKey
	k.SVLAN = uint16(s)
	k.CVLAN = uint16(c)
	copy(k.MAC[:], m)
	return k
}

func c17ShowKey(k TupleKey) string {
	return fmt.Sprintf("%d.%d.%s", k.SVLAN, k.CVLAN, hex.EncodeToString(k.MAC[:]))
}

func c17ShowOwner(o *Owner) string {
	if o == nil {
		return "nil"
	}
	return "o:" + c17Hex(string(o.Protocol)) + "/" + c17Hex(o.SessionID) + "/" + c17ShowKey(o.Key)
}

type c17Op struct {
	kind  byte
	key   TupleKey
	owner Owner
	raw   []string
}

// parses one op starting at f[p]; returns the op and the next position
func c17ParseOp(f []string, p int) (c17Op, int) {
	var o c17Op
	o.kind = f[p][0]
	switch o.kind {
	case 'c', 'r', 'i':
		o.key = c17Key(f[p+1])
		o.owner = Owner{Protocol: Protocol(c17Str(f[p+2])), SessionID: c17Str(f[p+3]), Key: c17Key(f[p+4])}
		return o, p + 5
	case 'l', 's':
		o.key = c17Key(f[p+1])
		return o, p + 2
	case 'm':
		o.raw = f[p+1 : p+4]
		return o, p + 4
	case 'n', 'v', 'w':
		return o, p + 1
	}
	panic("bad op " + f[p])
}

func c17Apply(r *Registry, o c17Op) (out string) {
	defer func() {
		if e := recover(); e != nil {
			out = "panic"
		}
	}()
	switch o.kind {
	case 'v':
		// the Owner behind the pointer most recently returned by Claim/Lookup must still read as it did then
		return "v:" + c17ShowOwner(c17Last)
	case 'w':
		// scribbling over the returned Owner must not reach the table
		if c17Last != nil {
			c17Last.SessionID = "scribble"
			c17Last.Protocol = "x"
			c17Last = nil
		}
		return "w"
	case 'c':
		pr := r.Claim(o.key, o.owner)
		if pr != nil && c17Track {
			c17Last = pr
		}
		return c17ShowOwner(pr)
	case 'r':
		r.Release(o.key, o.owner)
		return "ok"
	case 'i':
		if r.IsOwner(o.key, o.owner) {
			return "T"
		}
		return "F"
	case 'l':
		pr := r.Lookup(o.key)
		if pr != nil && c17Track {
			c17Last = pr
		}
		return c17ShowOwner(pr)
	case 's':
		// the shard is identified by the order in which this case first saw it: the harness never looks at the
		// layout of Registry.shards, only at what shardFor returns
		return "s" + strconv.Itoa(c17ShardID(r.shardFor(o.key)))
	case 'm':
		s, _ := strconv.Atoi(o.raw[0])
		c, _ := strconv.Atoi(o.raw[1])
		var mac []byte
		if o.raw[2] != "-" {
			mac, _ = hex.DecodeString(o.raw[2])
		}
		return "k:" + c17ShowKey(MakeTupleKey(uint16(s), uint16(c), mac))
	case 'n':
		// every shard any tuple of this case maps to: number of stored tuples, each in the shard shardFor names
		n := 0
		seen := map[*shard]bool{}
		for _, k0 := range c17Keys {
			sh := r.shardFor(k0)
			if sh == nil || seen[sh] {
				continue
			}
			seen[sh] = true
			sh.mu.RLock()
			for k := range sh.owned {
				n++
				if r.shardFor(k) != sh {
					sh.mu.RUnlock()
					return "BADSHARD"
				}
			}
			sh.mu.RUnlock()
		}
		return "n" + strconv.Itoa(n)
	}
	return "badop"
}

// pointer most recently returned by Claim/Lookup in a seq case (value-vs-alias observations v, w)
var c17Last *Owner
var c17Keys []TupleKey // tuples named so far in the current seq case
var c17Shards []*shard // distinct shards in first-seen order (s op)

func c17ShardID(sh *shard) int {
	for i, x := range c17Shards {
		if x == sh {
			return i
		}
	}
	c17Shards = append(c17Shards, sh)
	return len(c17Shards) - 1
}

var c17Track bool // only sequential cases remember pointers (workers of concurrent cases must not share it)

func c17Seq(f []string) string {
	c17Last = nil
	c17Keys, c17Shards = nil, nil
	c17Track = true
	defer func() { c17Track = false }()
	r := NewRegistry()
	var res []string
	for p := 1; p < len(f); {
		var o c17Op
		o, p = c17ParseOp(f, p)
		switch o.kind {
		case 'c', 'r', 'i', 'l', 's':
			c17Keys = append(c17Keys, o.key)
		}
		res = append(res, c17Apply(r, o))
	}
	if len(res) == 0 {
		return "empty"
	}
	return strings.Join(res, " ")
}

var c17Hangs int

type c17Rec struct {
	inv, res int64
	out      string
}

// x<n> in the flags: run the scenario n times on fresh registries; histories are joined with " | "
func c17Conc(f []string, seed int64) string {
	reps := 1
	if i := strings.IndexByte(f[1], 'x'); i >= 0 {
		if n, err := strconv.Atoi(f[1][i+1:]); err == nil && n > 0 {
			reps = n
		}
	}
	var outs []string
	for i := 0; i < reps; i++ {
		outs = append(outs, c17ConcOnce(f, seed+int64(i)*104729))
	}
	return strings.Join(outs, " | ")
}

func c17ConcOnce(f []string, seed int64) string {
	flags := f[1]
	disturb := strings.Contains(flags, "d1")
	yieldP := 0
	if i := strings.IndexByte(flags, 'y'); i >= 0 && i+1 < len(flags) {
		yieldP = int(flags[i+1] - '0')
	}
	nt, _ := strconv.Atoi(f[2])
	p := 3
	progs := make([][]c17Op, nt+1)
	for t := 0; t <= nt; t++ {
		if t == nt {
			if f[p] != "fin" {
				panic("expected fin")
			}
			p++
		}
		n, _ := strconv.Atoi(f[p])
		p++
		for j := 0; j < n; j++ {
			var o c17Op
			o, p = c17ParseOp(f, p)
			progs[t] = append(progs[t], o)
		}
	}
	r := NewRegistry()
	recs := make([][]c17Rec, nt+1)
	for t := range recs {
		recs[t] = make([]c17Rec, len(progs[t]))
	}
	var clock int64
	start := make(chan struct{})
	var ready, done sync.WaitGroup
	// only the disturber looks the shards up beforehand; without it the workers' first operations are the
	// first use of the registry (and of each shard) and race with each other
	used := map[*shard]bool{}
	if disturb {
		for t := 0; t < nt; t++ {
			for _, o := range progs[t] {
				used[r.shardFor(o.key)] = true
			}
		}
	}
	for t := 0; t < nt; t++ {
		ready.Add(1)
		done.Add(1)
		go func(t int) {
			defer done.Done()
			rng := rand.New(rand.NewSource(seed*1000003 + int64(t)))
			ready.Done()
			<-start
			for k, o := range progs[t] {
				if yieldP > 0 && rng.Intn(8) < yieldP {
					runtime.Gosched()
				}
				inv := atomic.AddInt64(&clock, 1)
				out := c17Apply(r, o)
				res := atomic.AddInt64(&clock, 1)
				recs[t][k] = c17Rec{inv, res, out}
			}
		}(t)
	}
	ready.Wait()
	var stop int32
	var dwg sync.WaitGroup
	if disturb {
		for s := range used {
			s.mu.Lock()
		}
		dwg.Add(1)
		go func() {
			defer dwg.Done()
			first := true
			for atomic.LoadInt32(&stop) == 0 {
				if !first {
					for s := range used {
						s.mu.Lock()
					}
				}
				first = false
				// let the workers pile up behind the mutexes
				for i := 0; i < 20; i++ {
					runtime.Gosched()
				}
				for s := range used {
					s.mu.Unlock()
				}
				for i := 0; i < 5; i++ {
					runtime.Gosched()
				}
			}
		}()
	}
	close(start)
	fin := make(chan struct{})
	go func() { done.Wait(); close(fin) }()
	select {
	case <-fin:
	case <-time.After(10 * time.Second):
		atomic.StoreInt32(&stop, 1)
		c17Hangs++
		return "hang"
	}
	atomic.StoreInt32(&stop, 1)
	dwg.Wait()
	for k, o := range progs[nt] {
		inv := atomic.AddInt64(&clock, 1)
		out := c17Apply(r, o)
		res := atomic.AddInt64(&clock, 1)
		recs[nt][k] = c17Rec{inv, res, out}
	}
	var sb strings.Builder
	sb.WriteString("H")
	for t := range recs {
		for k, rc := range recs[t] {
			fmt.Fprintf(&sb, " %d:%d:%d:%d:%s", t, k, rc.inv, rc.res, rc.out)
		}
	}
	return sb.String()
}

// The cases run in a CHILD process (this test binary re-executed).  A data race reported by the race
// detector or a fatal runtime error (concurrent map access, deadlock) makes the child exit non-zero and
// would otherwise take every result of the run with it.  The parent then bisects the case list with further
// children and prints "crash:<race|fatal|exit>" for exactly the cases that cannot run cleanly, so that all
// other lines are still compared and the failing input is reported.
func TestVerifC17(t *testing.T) {
	if os.Getenv("VERIF_C17_CHILD") != "" {
		c17Child(t)
		return
	}
	data, err := os.ReadFile(os.Getenv("VERIF_CASES"))
	if err != nil {
		t.Fatal(err)
	}
	cases := strings.Split(strings.TrimRight(string(data), "\n"), "\n")
	outPath := os.Getenv("VERIF_OUT")
	runs := 0
	runChild := func(lines []string) ([]string, string) {
		runs++
		cf := fmt.Sprintf("%s.child%d.cases", outPath, runs)
		of := fmt.Sprintf("%s.child%d.out", outPath, runs)
		defer os.Remove(cf)
		defer os.Remove(of)
		if err := os.WriteFile(cf, []byte(strings.Join(lines, "\n")+"\n"), 0o644); err != nil {
			return nil, "exit"
		}
		cmd := exec.Command(os.Args[0], "-test.run=^TestVerifC17$", "-test.count=1", "-test.timeout=550s")
		cmd.Env = append(os.Environ(), "VERIF_C17_CHILD=1", "VERIF_CASES="+cf, "VERIF_OUT="+of)
		log, err := cmd.CombinedOutput()
		if err == nil {
			if b, e := os.ReadFile(of); e == nil {
				got := strings.Split(strings.TrimRight(string(b), "\n"), "\n")
				if len(got) == len(lines) {
					return got, ""
				}
			}
			return nil, "exit"
		}
		switch {
		case strings.Contains(string(log), "DATA RACE"):
			return nil, "race"
		case strings.Contains(string(log), "fatal error"):
			return nil, "fatal"
		}
		return nil, "exit"
	}
	var solve func(lines []string) []string
	solve = func(lines []string) []string {
		if runs >= 80 {
			r := make([]string, len(lines))
			for i := range r {
				r[i] = "crash-unresolved"
			}
			return r
		}
		got, why := runChild(lines)
		if got != nil {
			return got
		}
		if len(lines) == 1 {
			return []string{"crash:" + why}
		}
		h := len(lines) / 2
		return append(solve(lines[:h]), solve(lines[h:])...)
	}
	res := solve(cases)
	if err := os.WriteFile(outPath, []byte(strings.Join(res, "\n")+"\n"), 0o644); err != nil {
		t.Fatal(err)
	}
}

func c17Child(t *testing.T) {
	in, err := os.Open(os.Getenv("VERIF_CASES"))
	if err != nil {
		t.Fatal(err)
	}
	defer in.Close()
	out, err := os.Create(os.Getenv("VERIF_OUT"))
	if err != nil {
		t.Fatal(err)
	}
	defer out.Close()
	w := bufio.NewWriter(out)
	defer w.Flush()
	seed, _ := strconv.ParseInt(os.Getenv("VERIF_SEED"), 10, 64)
	sc := bufio.NewScanner(in)
	sc.Buffer(make([]byte, 1<<20), 1<<26)
	lineNo := int64(0)
	for sc.Scan() {
		lineNo++
		f := strings.Fields(sc.Text())
		func() {
			defer func() {
				if e := recover(); e != nil {
					fmt.Fprintln(w, "panic harness:", strings.ReplaceAll(fmt.Sprint(e), "\n", " "))
				}
			}()
			if len(f) == 0 {
				fmt.Fprintln(w, "empty")
				return
			}
			if c17Hangs >= 3 {
				// every hang costs its full timeout and leaks goroutines: stop running cases
				fmt.Fprintln(w, "hang-skipped")
				return
			}
			switch f[0] {
			case "seq":
				// watchdog: a method that returns without unlocking blocks the next call for ever
				ch := make(chan string, 1)
				go func() {
					defer func() {
						if e := recover(); e != nil {
							ch <- "panic harness: " + strings.ReplaceAll(fmt.Sprint(e), "\n", " ")
						}
					}()
					ch <- c17Seq(f)
				}()
				select {
				case o := <-ch:
					fmt.Fprintln(w, o)
				case <-time.After(3 * time.Second):
					c17Hangs++
					fmt.Fprintln(w, "hang")
				}
			case "wgl":
				// self-test of the linearizability checker: the history is in the case, the expected
				// verdict is its second token; nothing is executed here
				switch f[1] {
				case "reject":
					fmt.Fprintln(w, "rejected")
				case "accept":
					fmt.Fprintln(w, "accepted")
				case "malformed":
					fmt.Fprintln(w, "malformed")
				default:
					fmt.Fprintln(w, "badline")
				}
			case "conc", "rconc":
				fmt.Fprintln(w, c17Conc(f, seed*7919+lineNo))
			default:
				fmt.Fprintln(w, "badline")
			}
		}()
	}
}
