//go:build verif

package ipoe

// C17 restore harness for internal/ipoe: ownership across a RESTART.  The real component (handleDiscover,
// checkpointSession, restoreSessions -> installInMemoryState -> setupSession(Restore) -> claimTuple,
// handleSubscriberTerminate, releaseTuple) runs on an in-memory opdb that survives the restart and a minimal
// dataplane fake; every restart creates a NEW component and a NEW session.Registry.  The PPPoE side is simulated
// in the harness exactly as the model describes it.
//
// Case: "ripoe <op>..." with
//
//	N<t>   DHCPv4 DISCOVER on tuple t through handleDiscover; the new session is then made a bound session
//	       (AAA approved, dataplane session created, lease) and checkpointed
//	H<t>   same, but checkpointed half-established (AAA approved, dataplane session not yet created)
//	X<t>   the PPPoE side gets a PADR on tuple t (always a new PPPoE session, claims, evicts what it displaced)
//	A<t>   HA promotion: a session of tuple t synced from the formerly active node (a checkpoint in the HA-synced
//	       namespace of the opdb) is installed by restoreFromHASync (nothing happens if the tuple has a session here)
//	B      restart: new registry, new component restored from the opdb; the PPPoE side re-claims its live sessions
//
// After every op one token with all tuples, the op's tuple first:  t<t>:i<n>p<m>:<owner>
// n = sessions of the tuple in the component's sessionIndex, m = simulated PPPoE sessions, owner = protocol of Lookup.
import (
	"bufio"
	"context"
	"fmt"
	"net"
	"os"
	"runtime/debug"
	"strings"
	"sync"
	"testing"
	"time"

	"github.com/google/gopacket/layers"
	hapb "github.com/veesix-networks/osvbng/api/proto/ha"
	"google.golang.org/protobuf/proto"
	"github.com/veesix-networks/osvbng/pkg/cache/memory"
	"github.com/veesix-networks/osvbng/pkg/component"
	"github.com/veesix-networks/osvbng/pkg/config"
	aaacfg "github.com/veesix-networks/osvbng/pkg/config/aaa"
	"github.com/veesix-networks/osvbng/pkg/config/subscriber"
	"github.com/veesix-networks/osvbng/pkg/dataplane"
	"github.com/veesix-networks/osvbng/pkg/events"
	"github.com/veesix-networks/osvbng/pkg/ifmgr"
	"github.com/veesix-networks/osvbng/pkg/logger"
	"github.com/veesix-networks/osvbng/pkg/opdb"
	"github.com/veesix-networks/osvbng/pkg/session"
	"github.com/veesix-networks/osvbng/pkg/southbound"
)

// dataplane fake: only what restoreSessions / setupSessionRestore / terminate touch; anything else panics (nil embedded interface)
type c17RVPP struct {
	southbound.Southbound
	next uint32
}

func (v *c17RVPP) DumpInterfaces() ([]southbound.InterfaceInfo, error) { return nil, nil }
func (v *c17RVPP) GetInterfaceIndex(string) (int, error)              { return 0, fmt.Errorf("none") }
func (v *c17RVPP) AddIPoESession(net.HardwareAddr, net.HardwareAddr, uint32, uint16, uint16, uint32) (uint32, error) {
	v.next++
	return 1000 + v.next, nil
}
func (v *c17RVPP) IPoESetSessionIPv4(uint32, net.IP, bool) error            { return nil }
func (v *c17RVPP) IPoESetSessionIPv6(uint32, net.IP, bool) error            { return nil }
func (v *c17RVPP) SetUnnumberedAsync(uint32, string, func(error))           {}
func (v *c17RVPP) EnableSourceVerify(uint32, bool) error                    { return nil }
func (v *c17RVPP) DeleteIPoESessionAsync(net.HardwareAddr, uint32, uint16, func(error)) {}

type c17RStore struct {
	mu sync.Mutex
	m  map[string]map[string][]byte
}

func (s *c17RStore) Put(_ context.Context, ns, key string, v []byte) error {
	s.mu.Lock()
	defer s.mu.Unlock()
	if s.m[ns] == nil {
		s.m[ns] = map[string][]byte{}
	}
	s.m[ns][key] = append([]byte(nil), v...)
	return nil
}
func (s *c17RStore) Delete(_ context.Context, ns, key string) error {
	s.mu.Lock()
	defer s.mu.Unlock()
	delete(s.m[ns], key)
	return nil
}
func (s *c17RStore) Load(_ context.Context, ns string, fn opdb.LoadFunc) error {
	s.mu.Lock()
	keys := []string{}
	for k := range s.m[ns] {
		keys = append(keys, k)
	}
	cp := map[string][]byte{}
	for k, v := range s.m[ns] {
		cp[k] = v
	}
	s.mu.Unlock()
	for _, k := range keys {
		if err := fn(k, cp[k]); err != nil {
			return err
		}
	}
	return nil
}
func (s *c17RStore) Count(_ context.Context, ns string) (int, error) {
	s.mu.Lock()
	defer s.mu.Unlock()
	return len(s.m[ns]), nil
}
func (s *c17RStore) Clear(context.Context, string) error { return nil }
func (s *c17RStore) Stats() opdb.Stats                   { return opdb.Stats{} }
func (s *c17RStore) Close() error                        { return nil }

// queueing bus: terminate events are delivered to every registered handler (like the real bus delivers to every
// component) when the harness drains the queue after the operation - never from inside Publish, whose callers hold
// component locks (the real bus is asynchronous too)
type c17RBus struct {
	handlers []events.Handler
	queue    []events.Event
}

func (b *c17RBus) Publish(topic string, ev events.Event) {
	if topic == events.TopicSubscriberTerminate {
		b.queue = append(b.queue, ev)
	}
}

func (b *c17RBus) drain() {
	for len(b.queue) > 0 {
		ev := b.queue[0]
		b.queue = b.queue[1:]
		for _, h := range append([]events.Handler(nil), b.handlers...) {
			h(ev)
		}
	}
}

type c17RSub struct{}

func (c17RSub) Unsubscribe() {}

func (b *c17RBus) Subscribe(string, events.Handler) events.Subscription { return c17RSub{} }
func (b *c17RBus) SubscribeAll(events.Handler) events.Subscription      { return c17RSub{} }
func (b *c17RBus) Stats() events.Stats                                  { return events.Stats{} }
func (b *c17RBus) SetDebugTopics([]string)                              {}
func (b *c17RBus) DebugTopics() []string                                { return nil }
func (b *c17RBus) Close() error                                         { return nil }

type c17RMixed struct{}

func (c17RMixed) IsMixedAccessSVLAN(svlan uint16) bool { return svlan == 100 || svlan == 101 }

type c17RTuple struct {
	mac net.HardwareAddr
	cvl uint16
	svl uint16
}

// same ten tuples as the e2e harness: t0 base, t1 MAC[5], t2 C-VLAN, t3 C-VLAN 0 + MAC[5], t4 S-VLAN, t5..t9 MAC[0]..MAC[4]
var c17RTuples = []c17RTuple{
	{net.HardwareAddr{0x02, 0xaa, 0xbb, 0xcc, 0x00, 0x01}, 10, 100},
	{net.HardwareAddr{0x02, 0xaa, 0xbb, 0xcc, 0x00, 0x11}, 10, 100},
	{net.HardwareAddr{0x02, 0xaa, 0xbb, 0xcc, 0x00, 0x01}, 11, 100},
	{net.HardwareAddr{0x02, 0xaa, 0xbb, 0xcc, 0x00, 0x02}, 0, 100},
	{net.HardwareAddr{0x02, 0xaa, 0xbb, 0xcc, 0x00, 0x01}, 10, 101},
	{net.HardwareAddr{0x06, 0xaa, 0xbb, 0xcc, 0x00, 0x01}, 10, 100},
	{net.HardwareAddr{0x02, 0xab, 0xbb, 0xcc, 0x00, 0x01}, 10, 100},
	{net.HardwareAddr{0x02, 0xaa, 0xba, 0xcc, 0x00, 0x01}, 10, 100},
	{net.HardwareAddr{0x02, 0xaa, 0xbb, 0xcd, 0x00, 0x01}, 10, 100},
	{net.HardwareAddr{0x02, 0xaa, 0xbb, 0xcc, 0x01, 0x01}, 10, 100},
}

type c17RWorld struct {
	store *c17RStore
	reg   *session.Registry
	bus   *c17RBus
	c     *Component
	other map[string]int // simulated PPPoE sessions: session id -> tuple
	n     int
	stop  func()
}

func (w *c17RWorld) tk(t int) session.TupleKey {
	return session.MakeTupleKey(c17RTuples[t].svl, c17RTuples[t].cvl, c17RTuples[t].mac)
}

func (w *c17RWorld) boot() {
	if w.stop != nil {
		w.stop()
	}
	ifMgr := ifmgr.New()
	ifMgr.Add(&ifmgr.Interface{SwIfIndex: 10, SupSwIfIndex: 2, Name: "TenGigE0/0.100", Type: ifmgr.IfTypeSub, OuterVlanID: 100})
	ifMgr.Add(&ifmgr.Interface{SwIfIndex: 2, Name: "TenGigE0/0", Type: ifmgr.IfTypeHardware, MAC: []byte{0x52, 0x54, 0x00, 0x11, 0x22, 0x33}})
	cfg := &config.Config{
		SubscriberGroups: &subscriber.SubscriberGroupsConfig{Groups: map[string]*subscriber.SubscriberGroup{
			"grp": {IPv4Profile: "v4", AAAPolicy: "p1", VLANs: []subscriber.VLANRange{{SVLAN: "100-101"}}},
		}},
		AAA: aaacfg.AAAConfig{Policy: []aaacfg.AAAPolicy{{Name: "p1", Type: aaacfg.PolicyTypeDHCP, Format: "$mac-address$"}}},
	}
	cfg.HA.SRGs = map[string]*config.SRGConfig{"grp": {Interfaces: []string{"TenGigE0/0"}}}
	w.reg = session.NewRegistry()
	w.bus = &c17RBus{}
	c := &Component{
		Base: component.NewBase("ipoe"), logger: logger.NewTest(), eventBus: w.bus,
		srgMgr: &fakeSRGProvider{active: true, srgForGrp: "grp"}, ifMgr: ifMgr, cfgMgr: &fakeConfigManager{cfg: cfg},
		exclusivity: w.reg, accessResolver: c17RMixed{}, opdb: w.store, cache: memory.New(), vpp: &c17RVPP{},
	}
	c.StartContext(context.Background())
	c.SetReadyState(component.StateReady)
	w.stop = c.StopContext
	w.c = c
	w.bus.handlers = []events.Handler{c.handleSubscriberTerminate, w.otherTerminate}
}

// the simulated PPPoE component's terminate handler: the session the event names leaves and releases
func (w *c17RWorld) otherTerminate(ev events.Event) {
	d, ok := ev.Data.(*events.SubscriberTerminateEvent)
	if !ok {
		return
	}
	if t, ok := w.other[d.SessionID]; ok {
		delete(w.other, d.SessionID)
		w.reg.Release(w.tk(t), session.Owner{Protocol: session.ProtoPPPoE, SessionID: d.SessionID, Key: w.tk(t)})
	}
}

// the simulated PPPoE call site (addToIndexes): claim, evict every session the claim displaced
func (w *c17RWorld) otherClaim(t int, sid string) {
	tk := w.tk(t)
	if prev := w.reg.Claim(tk, session.Owner{Protocol: session.ProtoPPPoE, SessionID: sid, Key: tk}); prev != nil {
		w.bus.Publish(events.TopicSubscriberTerminate, events.Event{Source: "pppoe", Data: &events.SubscriberTerminateEvent{
			SessionID: prev.SessionID, Reason: "evicted by cross-protocol claim", Key: &tk}})
	}
}

func (w *c17RWorld) mine(t int) *SessionState {
	if v, ok := w.c.sessions.Load(w.c.makeSessionKeyV4(c17RTuples[t].mac, c17RTuples[t].svl, c17RTuples[t].cvl)); ok {
		return v.(*SessionState)
	}
	return nil
}

func (w *c17RWorld) waitStored(sid string) {
	for i := 0; i < 2000; i++ {
		w.store.mu.Lock()
		_, ok := w.store.m[opdb.NamespaceIPoESessions][sid]
		w.store.mu.Unlock()
		if ok {
			return
		}
		time.Sleep(time.Millisecond)
	}
	panic("checkpoint never reached the opdb")
}

func (w *c17RWorld) snapshot(first int) string {
	one := func(t int) string {
		ni := 0
		w.c.sessionIndex.Range(func(_, v any) bool {
			s := v.(*SessionState)
			if s.MAC.String() == c17RTuples[t].mac.String() && s.OuterVLAN == c17RTuples[t].svl && s.InnerVLAN == c17RTuples[t].cvl {
				ni++
			}
			return true
		})
		np := 0
		for _, tt := range w.other {
			if tt == t {
				np++
			}
		}
		own := "-"
		if o := w.reg.Lookup(w.tk(t)); o != nil {
			switch o.Protocol {
			case session.ProtoIPoE:
				own = "i"
			case session.ProtoPPPoE:
				own = "p"
			default:
				own = "?"
			}
		}
		return fmt.Sprintf("t%d:i%dp%d:%s", t, ni, np, own)
	}
	parts := []string{one(first)}
	for t := range c17RTuples {
		if t != first {
			if s := one(t); !strings.HasSuffix(s, ":i0p0:-") {
				parts = append(parts, s)
			}
		}
	}
	return strings.Join(parts, ",")
}

func c17RRun(f []string) (out string) {
	defer func() {
		if e := recover(); e != nil {
			out = "panic " + strings.ReplaceAll(fmt.Sprint(e), " ", "_")
			out += "@" + strings.ReplaceAll(string(debug.Stack()), "\n", ";")[:0]
		}
	}()
	w := &c17RWorld{store: &c17RStore{m: map[string]map[string][]byte{}}, other: map[string]int{}}
	w.boot()
	defer func() { w.stop() }()
	var res []string
	for _, op := range f[1:] {
		t := 0
		if len(op) > 1 {
			t = int(op[1] - '0')
		}
		switch op[0] {
		case 'N', 'H':
			tp := c17RTuples[t]
			before := w.mine(t)
			dh := &layers.DHCPv4{Operation: layers.DHCPOpRequest, HardwareType: layers.LinkTypeEthernet, HardwareLen: 6, Xid: 0x1234,
				ClientHWAddr: tp.mac, Options: layers.DHCPOptions{layers.NewDHCPOption(layers.DHCPOptMessageType, []byte{byte(layers.DHCPMsgTypeDiscover)})}}
			_ = w.c.handleDiscover(&dataplane.ParsedPacket{MAC: tp.mac, OuterVLAN: tp.svl, InnerVLAN: tp.cvl, SwIfIndex: 10, DHCPv4: dh})
			w.bus.drain()
			if sess := w.mine(t); sess != nil && sess != before {
				// what the AAA answer and the dataplane callback make of a new session
				sess.mu.Lock()
				sess.AAAApproved = true
				sess.AAAInFlight = false
				if op[0] == 'N' {
					sess.IPoESessionCreated = true
					sess.IPoESwIfIndex = 500
					sess.State = "bound"
					sess.IPv4 = net.IPv4(10, 0, byte(t), byte(w.n+1))
					sess.LeaseTime = 3600
					sess.BoundAt = time.Now()
				}
				sess.mu.Unlock()
				w.n++
				w.c.checkpointSession(sess)
				w.waitStored(sess.SessionID)
			}
		case 'A':
			if w.mine(t) == nil {
				tp := c17RTuples[t]
				w.n++
				sid := fmt.Sprintf("ha-%d", w.n)
				cp := &hapb.SessionCheckpoint{SessionId: sid, SrgName: "grp", Mac: tp.mac, OuterVlan: uint32(tp.svl), InnerVlan: uint32(tp.cvl),
					AaaSessionId: sid, Ipv4Address: net.IPv4(10, 1, byte(t), byte(w.n)).To4(), Ipv4LeaseTime: 3600, BoundAtNs: time.Now().UnixNano()}
				data, err := proto.Marshal(cp)
				if err != nil {
					panic(err)
				}
				w.store.Put(context.Background(), opdb.NamespaceHASyncedIPoE, sid, data)
				w.c.restoreFromHASync("grp")
				w.bus.drain()
				if w.mine(t) != nil {
					w.waitStored(sid) // restoreFromHASync checkpoints the installed session asynchronously
				}
			}
		case 'X':
			w.n++
			sid := fmt.Sprintf("p%d", w.n)
			w.other[sid] = t
			w.otherClaim(t, sid)
			w.bus.drain()
		case 'B':
			w.boot()
			if err := w.c.restoreSessions(context.Background()); err != nil {
				panic(err)
			}
			for sid, tt := range w.other {
				w.otherClaim(tt, sid)
			}
			w.bus.drain()
		default:
			panic("bad op " + op)
		}
		res = append(res, w.snapshot(t))
	}
	if len(res) == 0 {
		return "empty"
	}
	return strings.Join(res, " ")
}

func TestVerifC17Restore(t *testing.T) {
	in, err := os.Open(os.Getenv("VERIF_CASES"))
	if err != nil {
		t.Fatal(err)
	}
	defer in.Close()
	out, err := os.Create(os.Getenv("VERIF_OUT"))
	if err != nil {
		t.Fatal(err)
	}
	defer out.Close()
	wr := bufio.NewWriter(out)
	defer wr.Flush()
	sc := bufio.NewScanner(in)
	sc.Buffer(make([]byte, 1<<20), 1<<26)
	for sc.Scan() {
		fmt.Fprintln(wr, c17RRun(strings.Fields(sc.Text())))
	}
}
