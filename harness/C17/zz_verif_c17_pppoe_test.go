//go:build verif

package pppoe

// C17 caller harness for internal/pppoe: addToIndexes / removeFromIndexes (their exclusivity part) against a real session.Registry and a
// recording event bus.  Case: "pppoe <op>..." with
//
//	C <svlan> <cvlan> <machex|-> <sidhex> <mixed>   c.addToIndexes(sess)      -> ev[<sid>@<key>,...]
//	R <svlan> <cvlan> <machex|-> <sidhex> <mixed>   c.removeFromIndexes(sess) -> ok
//	x <key> <proto> <sid>                           Registry.Claim by another party   -> nil | o:...
//	y <key> <proto> <sid>                           Registry.Release by another party -> ok
//	l <key>                                         Registry.Lookup -> nil | o:...
//	Z <svlan> <cvlan> <machex|-> <sidhex> <mixed>   claim+release on a component with exclusivity == nil -> ev[]
//	G <j> <x|y> <key> <proto> <sid>                 arm: run this Claim/Release of another party immediately before the
//	                                                j-th registry call of the NEXT C/R op (after it, if it makes fewer) -> armed;
//	                                                the C/R token gets /g:<result> (fired inside) or /a:<result> (after return)
import (
	"bufio"
	"encoding/hex"
	"fmt"
	"net"
	"os"
	"strconv"
	"strings"
	"testing"

	"github.com/veesix-networks/osvbng/pkg/events"
	"github.com/veesix-networks/osvbng/pkg/session"
)

type c17Bus struct{ evs []string }

func (b *c17Bus) Publish(topic string, ev events.Event) {
	d, ok := ev.Data.(*events.SubscriberTerminateEvent)
	switch {
	case topic != events.TopicSubscriberTerminate:
		b.evs = append(b.evs, "WRONGTOPIC")
	case !ok || d.Key == nil:
		b.evs = append(b.evs, "WRONGDATA")
	case ev.Source != "pppoe" || (d.Reason != "evicted by cross-protocol claim" && d.Reason != "superseded by a newer PPPoE session on the tuple"):
		b.evs = append(b.evs, "WRONGSOURCE-OR-REASON")
	default:
		b.evs = append(b.evs, c17Hex(d.SessionID)+"@"+c17ShowKey(*d.Key))
	}
}
func (b *c17Bus) Subscribe(string, events.Handler) events.Subscription { return nil }
func (b *c17Bus) SubscribeAll(events.Handler) events.Subscription       { return nil }
func (b *c17Bus) Stats() events.Stats                                   { return events.Stats{} }
func (b *c17Bus) SetDebugTopics([]string)                               {}
func (b *c17Bus) DebugTopics() []string                                 { return nil }
func (b *c17Bus) Close() error                                          { return nil }

// c17Gate wraps the real Registry behind the ExclusivityRegistry interface.  When armed, it runs one
// "interloper" registry operation of another party immediately before the component's j-th registry
// call of the current call-site invocation (0-based) - i.e. the interloper is linearized exactly
// between two registry calls of the call site if the call site makes more than one.  It changes no
// result of the registry.
type c17Gate struct {
	inner  *session.Registry
	armed  bool
	j      int
	calls  int
	fire   func() string
	result string
	inside bool
}

func (g *c17Gate) pre() {
	if g.armed && g.calls == g.j {
		g.armed = false
		g.inside = true
		g.result = g.fire()
	}
	g.calls++
}
func (g *c17Gate) Claim(k session.TupleKey, o session.Owner) *session.Owner {
	g.pre()
	return g.inner.Claim(k, o)
}
func (g *c17Gate) Release(k session.TupleKey, o session.Owner) { g.pre(); g.inner.Release(k, o) }
func (g *c17Gate) IsOwner(k session.TupleKey, o session.Owner) bool {
	g.pre()
	return g.inner.IsOwner(k, o)
}
func (g *c17Gate) Lookup(k session.TupleKey) *session.Owner { g.pre(); return g.inner.Lookup(k) }

// after the call site returned: an interloper that did not fire inside runs now
func (g *c17Gate) finish() string {
	tag := "g"
	if g.armed {
		g.armed = false
		g.result = g.fire()
		tag = "a"
	}
	r := "/" + tag + ":" + g.result
	if g.fire == nil {
		r = ""
	}
	g.fire, g.inside, g.calls = nil, false, 0
	return r
}

func c17Str(tok string) string {
	if tok == "-" {
		return ""
	}
	b, err := hex.DecodeString(tok)
	if err != nil {
		panic("bad hex " + tok)
	}
	return string(b)
}
func c17Hex(s string) string {
	if s == "" {
		return "-"
	}
	return hex.EncodeToString([]byte(s))
}
func c17Key(tok string) session.TupleKey {
	p := strings.Split(tok, ".")
	s, _ := strconv.Atoi(p[0])
	c, _ := strconv.Atoi(p[1])
	m, _ := hex.DecodeString(p[2])
	var k session.TupleKey
	k.SVLAN, k.CVLAN = uint16(s), uint16(c)
	copy(k.MAC[:], m)
	return k
}
func c17ShowKey(k session.TupleKey) string {
	return fmt.Sprintf("%d.%d.%s", k.SVLAN, k.CVLAN, hex.EncodeToString(k.MAC[:]))
}
func c17ShowOwner(o *session.Owner) string {
	if o == nil {
		return "nil"
	}
	return "o:" + c17Hex(string(o.Protocol)) + "/" + c17Hex(o.SessionID) + "/" + c17ShowKey(o.Key)
}

func c17Run(f []string) (out string) {
	defer func() {
		if e := recover(); e != nil {
			out = "panic " + strings.ReplaceAll(fmt.Sprint(e), " ", "_")
		}
	}()
	reg := session.NewRegistry()
	bus := &c17Bus{}
	gate := &c17Gate{inner: reg}
	c := &Component{exclusivity: gate, eventBus: bus,
		sessions: map[string]*SessionState{}, sidIndex: map[uint16]*SessionState{}, sessionIDIndex: map[string]*SessionState{},
		acctSessionIndex: map[string]*SessionState{}, usernameIndex: map[string]*SessionState{},
		ipv4Index: map[string]*SessionState{}, ipv6Index: map[string]*SessionState{}}
	nextSID := uint16(1)
	cz := &Component{eventBus: bus,
		sessions: map[string]*SessionState{}, sidIndex: map[uint16]*SessionState{}, sessionIDIndex: map[string]*SessionState{},
		acctSessionIndex: map[string]*SessionState{}, usernameIndex: map[string]*SessionState{},
		ipv4Index: map[string]*SessionState{}, ipv6Index: map[string]*SessionState{}}
	var res []string
	for p := 1; p < len(f); {
		switch f[p] {
		case "C", "R":
			s, _ := strconv.Atoi(f[p+1])
			cv, _ := strconv.Atoi(f[p+2])
			var mac net.HardwareAddr
			if f[p+3] != "-" {
				mac, _ = hex.DecodeString(f[p+3])
			}
			sess := &SessionState{OuterVLAN: uint16(s), InnerVLAN: uint16(cv), MAC: mac, SessionID: c17Str(f[p+4]), MixedAccess: f[p+5] == "1", PPPoESessionID: nextSID}
			nextSID++
			if f[p] == "C" {
				bus.evs = nil
				gate.calls = 0
				c.addToIndexes(sess)
				res = append(res, "ev["+strings.Join(bus.evs, ",")+"]"+gate.finish())
			} else {
				gate.calls = 0
				c.removeFromIndexes(sess)
				res = append(res, "ok"+gate.finish())
			}
			p += 6
		case "G":
			// G <j> <x|y> <key> <proto> <sid>: arm the gate for the NEXT C / R op
			j, _ := strconv.Atoi(f[p+1])
			kind := f[p+2]
			gk := c17Key(f[p+3])
			gown := session.Owner{Protocol: session.Protocol(c17Str(f[p+4])), SessionID: c17Str(f[p+5]), Key: gk}
			gate.armed, gate.j, gate.calls = true, j, 0
			gate.fire = func() string {
				if kind == "x" {
					return c17ShowOwner(reg.Claim(gk, gown))
				}
				reg.Release(gk, gown)
				return "ok"
			}
			res = append(res, "armed")
			p += 6
		case "Z":
			// the same call on a component built without a registry (exclusivity == nil): nothing may happen
			s, _ := strconv.Atoi(f[p+1])
			cv, _ := strconv.Atoi(f[p+2])
			var mac net.HardwareAddr
			if f[p+3] != "-" {
				mac, _ = hex.DecodeString(f[p+3])
			}
			zsess := &SessionState{OuterVLAN: uint16(s), InnerVLAN: uint16(cv), MAC: mac, SessionID: c17Str(f[p+4]), MixedAccess: f[p+5] == "1"}
			bus.evs = nil
			zsess.PPPoESessionID = 60000
			cz.addToIndexes(zsess)
			cz.removeFromIndexes(zsess)
			res = append(res, "ev["+strings.Join(bus.evs, ",")+"]")
			p += 6
		case "x":
			k := c17Key(f[p+1])
			res = append(res, c17ShowOwner(reg.Claim(k, session.Owner{Protocol: session.Protocol(c17Str(f[p+2])), SessionID: c17Str(f[p+3]), Key: k})))
			p += 4
		case "y":
			k := c17Key(f[p+1])
			reg.Release(k, session.Owner{Protocol: session.Protocol(c17Str(f[p+2])), SessionID: c17Str(f[p+3]), Key: k})
			res = append(res, "ok")
			p += 4
		case "l":
			res = append(res, c17ShowOwner(reg.Lookup(c17Key(f[p+1]))))
			p += 2
		default:
			panic("bad op " + f[p])
		}
	}
	if len(res) == 0 {
		return "empty"
	}
	return strings.Join(res, " ")
}

func TestVerifC17Callers(t *testing.T) {
	in, err := os.Open(os.Getenv("VERIF_CASES"))
	if err != nil {
		t.Fatal(err)
	}
	defer in.Close()
	out, err := os.Create(os.Getenv("VERIF_OUT"))
	if err != nil {
		t.Fatal(err)
	}
	defer out.Close()
	w := bufio.NewWriter(out)
	defer w.Flush()
	sc := bufio.NewScanner(in)
	sc.Buffer(make([]byte, 1<<20), 1<<26)
	for sc.Scan() {
		fmt.Fprintln(w, c17Run(strings.Fields(sc.Text())))
	}
}
