//go:build verif

package l2tp

// C05 correspondence harness for the OTHER owner of the three automata: an internal/l2tp LNS session
// (initSessionPPP, onLCPUp/onLCPDown, onAuthResult, startNCP, onIPCPUp/Down, onIPv6CPUp/Down, checkSessionOpen,
// the OnEchoReq / OnProtocolReject closures).  Same operations and output as kind sess (see Sess.v with lns = true).

import (
	"bufio"
	"encoding/binary"
	"encoding/hex"
	"fmt"
	"net"
	"os"
	"strconv"
	"strings"
	"testing"

	"github.com/veesix-networks/osvbng/pkg/aaa"
	l2tppkt "github.com/veesix-networks/osvbng/pkg/l2tp"
	"github.com/veesix-networks/osvbng/pkg/logger"
	"github.com/veesix-networks/osvbng/pkg/ppp"
)

type vl5H struct {
	c       *Component
	s       *Session
	ev      []string
	lastScr map[string]uint8
	dead    bool
}

func (h *vl5H) onSend(body []byte) {
	if h.dead || len(body) < 6 {
		return
	}
	proto := binary.BigEndian.Uint16(body[0:2])
	p := body[2:]
	code, id := p[0], p[1]
	data := p[4:]
	tag := map[uint16]string{ppp.ProtoLCP: "L", ppp.ProtoIPCP: "I", ppp.ProtoIPv6CP: "V"}[proto]
	switch {
	case proto == ppp.ProtoCHAP:
		h.ev = append(h.ev, fmt.Sprintf("chap.%d", code))
	case tag == "":
	case tag == "L" && code == ppp.EchoRep:
		t := "-"
		if len(data) > 4 {
			t = hex.EncodeToString(data[4:])
		}
		h.ev = append(h.ev, fmt.Sprintf("echoreply.%d.%s", id, t))
	default:
		names := map[uint8]string{ppp.ConfReq: "scr", ppp.ConfAck: "sca", ppp.ConfNak: "scn", ppp.ConfRej: "srj",
			ppp.TermReq: "str", ppp.TermAck: "sta", ppp.CodeRej: "scj", ppp.EchoRep: "ser"}
		n, ok := names[code]
		if !ok {
			n = "send" + strconv.Itoa(int(code))
		}
		if code == ppp.ConfReq {
			h.lastScr[tag] = id
		}
		h.ev = append(h.ev, fmt.Sprintf("%s.%s.%d", tag, n, id))
	}
}

func vl5Case(line string) (res string) {
	defer func() {
		if e := recover(); e != nil {
			res = "panic " + strings.ReplaceAll(fmt.Sprint(e), " ", "_")
			if len(res) > 200 {
				res = res[:200]
			}
		}
	}()
	tk := strings.Fields(line)
	if len(tk) < 2 || tk[0] != "lns" {
		return "badline"
	}
	h := &vl5H{lastScr: map[string]uint8{}}
	defer func() { h.dead = true }()
	h.c = &Component{log: logger.NewTest(), localHostname: "lns"}
	h.c.send = func(localIP, peerIP net.IP, localPort, peerPort uint16, hd l2tppkt.Header, body []byte) error {
		h.onSend(body)
		return nil
	}
	tun := &Tunnel{LocalIP: net.IPv4(192, 0, 2, 1), PeerIP: net.IPv4(192, 0, 2, 2), LocalID: 1, PeerID: 2, LocalPort: 1701, PeerPort: 1701}
	var out []string
	for _, op := range tk[2:] {
		h.ev = h.ev[:0]
		switch {
		case op == "UP":
			h.s = &Session{SessionID: "lns-c05", Tunnel: tun, LocalID: 7, PeerID: 8, Attributes: map[string]string{}}
			h.c.initSessionPPP(h.s) // ends with Phase = Establish; LCP Up; LCP Open
		case h.s == nil:
			return "badcase"
		case op[0] == 'F':
			p := strings.Split(op[1:], ".")
			if len(p) != 5 {
				return "badcase"
			}
			proto, _ := strconv.ParseUint(p[0], 16, 16)
			code, _ := strconv.Atoi(p[1])
			tag := map[uint64]string{0xc021: "L", 0x8021: "I", 0x8057: "V"}[proto]
			var id uint8
			switch p[2] {
			case "c":
				id = h.lastScr[tag]
			case "s":
				id = h.lastScr[tag] + 1
			default:
				n, _ := strconv.Atoi(p[2])
				id = uint8(n)
			}
			var data []byte
			if p[4] != "-" {
				data, _ = hex.DecodeString(p[4])
			}
			frame := []byte{byte(proto >> 8), byte(proto), byte(code), id, byte((4 + len(data)) >> 8), byte(4 + len(data))}
			frame = append(frame, data...)
			_ = h.c.dispatchPPPFrame(h.s, frame)
		case op == "AUTH+" || op == "AUTH-":
			attrs := map[string]interface{}{}
			if tk[1] != "0" {
				attrs[aaa.AttrIPv4Address] = "10.55.0.2" // the session owns an IPv4 address (Framed-IP-Address)
			}
			h.s.mu.Lock()
			h.s.pendingAuthType = "chap"
			h.c.onAuthResult(h.s, op == "AUTH+", attrs)
			h.s.mu.Unlock()
		case op == "TL" || op == "TI" || op == "TV":
			f := map[string]*ppp.FSM{"TL": h.s.LCP.FSM(), "TI": h.s.IPCP.FSM(), "TV": h.s.IPv6CP.FSM()}[op]
			h.s.mu.Lock()
			f.Timeout()
			h.s.mu.Unlock()
		case op == "CLOSE":
			h.s.mu.Lock()
			h.s.LCP.FSM().Close()
			h.s.mu.Unlock()
		default:
			return "badcase"
		}
		s := h.s
		s.mu.Lock()
		b := func(x bool) int {
			if x {
				return 1
			}
			return 0
		}
		ev := "-"
		if len(h.ev) > 0 {
			ev = strings.Join(h.ev, ",")
		}
		st := fmt.Sprintf("%d/%d/%d/%d/%d%d0", s.Phase, s.LCP.FSM().State(), s.IPCP.FSM().State(), s.IPv6CP.FSM().State(),
			b(s.ipcpOpen), b(s.ipv6cpOpen))
		s.mu.Unlock()
		out = append(out, st+":"+ev)
	}
	if h.s != nil {
		h.s.mu.Lock()
		h.c.stopCHAPRetryTimer(h.s)
		h.s.mu.Unlock()
		h.s.LCP.FSM().Kill()
		h.s.IPCP.FSM().Kill()
		h.s.IPv6CP.FSM().Kill()
	}
	if len(out) == 0 {
		return "empty"
	}
	return strings.Join(out, " ")
}

func TestVerifC05L(t *testing.T) {
	in, err := os.Open(os.Getenv("VERIF_CASES"))
	if err != nil {
		t.Fatal(err)
	}
	defer in.Close()
	outf, err := os.Create(os.Getenv("VERIF_OUT"))
	if err != nil {
		t.Fatal(err)
	}
	defer outf.Close()
	w := bufio.NewWriter(outf)
	defer w.Flush()
	sc := bufio.NewScanner(in)
	sc.Buffer(make([]byte, 1<<20), 1<<26)
	for sc.Scan() {
		fmt.Fprintln(w, vl5Case(sc.Text()))
	}
}
