//go:build verif

package ppp

// C05 correspondence harness: drives the real FSM of pkg/ppp/fsm.go (with a mock option handler,
// or inside real LCP / IPCP / IPv6CP instances) through one whole history per case line and prints
// the projected observables after every event.  See /verif/ocaml/C05_run.ml for the line format.
//
// Kind "conc" is the forced-overlap part: after a sequential prefix, event A runs on one goroutine
// with a gate inside one of its callbacks (LayerUp/LayerDown/LayerStarted/LayerFinished/Send); while
// A is parked there, event B is injected from a second goroutine.  Events are atomic (the model's
// [step]) iff B cannot run before A has finished, i.e. iff the recorded stream and the final state
// are those of the sequential history A;B.  Two monitors are evaluated on the recorded stream:
// tlu/tld alternate, and an acknowledged Terminate-Request leaves Opened.

import (
	"bufio"
	"encoding/hex"
	"fmt"
	"net"
	"os"
	"strconv"
	"strings"
	"sync"
	"testing"
	"time"
)

var (
	vf5Req = []Option{{Type: 1, Data: []byte{0x05, 0xd4}}}
	vf5Nak = []Option{{Type: 1, Data: []byte{0x05, 0xdc}}}
	vf5Rej = []Option{{Type: 7, Data: []byte{}}}
)

// mock option handler: stateless; the class of the answer to a Configure-Request is encoded in the
// type of the first option of the request (0x21 nak, 0x22 reject, 0x23 both, anything else good)
type vf5Mock struct{}

func (m *vf5Mock) BuildConfReq() []Option { return vf5Req }
func (m *vf5Mock) ProcessConfReq(opts []Option) (ack, nak, rej []Option) {
	if len(opts) > 0 {
		switch opts[0].Type {
		case 0x21:
			return opts[1:], vf5Nak, nil
		case 0x22:
			return opts[1:], nil, vf5Rej
		case 0x23:
			return opts[1:], vf5Nak, vf5Rej
		}
	}
	return opts, nil, nil
}
func (m *vf5Mock) ProcessConfAck(opts []Option) {}
func (m *vf5Mock) ProcessConfNak(opts []Option) {}
func (m *vf5Mock) ProcessConfRej(opts []Option) {}

func vf5Hex(b []byte) string {
	if len(b) == 0 {
		return "-"
	}
	return hex.EncodeToString(b)
}

// everything the FSM does to the outside, in order
type vf5Stream struct {
	mu    sync.Mutex
	acts  []string
	calls []string
	cls   string // class of the last ProcessConfReq answer
	// gate
	gate    string // "" = none; u d n s a
	parked  chan struct{}
	release chan struct{}
}

func (s *vf5Stream) add(a string, isSend bool) {
	s.mu.Lock()
	s.acts = append(s.acts, a)
	g := s.gate
	hit := false
	switch g {
	case "a":
		hit = true
	case "s":
		hit = isSend
	case "n":
		hit = !isSend
	case "u":
		hit = a == "tlu"
	case "d":
		hit = a == "tld"
	}
	if hit {
		s.gate = ""
	}
	s.mu.Unlock()
	if hit {
		close(s.parked)
		<-s.release
	}
}

// recorder around the handler: logs every call that can change option state
type vf5Rec struct {
	inner OptionHandler
	s     *vf5Stream
}

func (r *vf5Rec) log(k string, opts []Option) {
	r.s.mu.Lock()
	r.s.calls = append(r.s.calls, k+vf5Hex(SerializeOptions(opts)))
	r.s.mu.Unlock()
}
func (r *vf5Rec) BuildConfReq() []Option { return r.inner.BuildConfReq() }
func (r *vf5Rec) ProcessConfReq(opts []Option) (ack, nak, rej []Option) {
	r.log("R", opts)
	ack, nak, rej = r.inner.ProcessConfReq(opts)
	c := "n"
	switch {
	case len(nak) == 0 && len(rej) == 0:
		c = "g"
	case len(nak) > 0 && len(rej) > 0:
		c = "b"
	case len(rej) > 0:
		c = "r"
	}
	r.s.mu.Lock()
	r.s.cls = c
	r.s.mu.Unlock()
	return
}
func (r *vf5Rec) ProcessConfAck(opts []Option) { r.log("A", opts); r.inner.ProcessConfAck(opts) }
func (r *vf5Rec) ProcessConfNak(opts []Option) { r.log("N", opts); r.inner.ProcessConfNak(opts) }
func (r *vf5Rec) ProcessConfRej(opts []Option) { r.log("J", opts); r.inner.ProcessConfRej(opts) }

type vf5Run struct {
	f    *FSM
	mock bool
	s    *vf5Stream
}

func (r *vf5Run) callbacks() Callbacks {
	names := map[uint8]string{ConfReq: "scr", ConfAck: "sca", ConfNak: "scn", ConfRej: "srj", TermReq: "str",
		TermAck: "sta", CodeRej: "scj", EchoRep: "ser"}
	return Callbacks{
		Send: func(code uint8, id uint8, data []byte) {
			n, ok := names[code]
			if !ok {
				n = "send" + strconv.Itoa(int(code))
			}
			tag := vf5Hex(data)
			switch code {
			case ConfAck, ConfNak, ConfRej:
				if !r.mock {
					tag = "*"
				}
			case CodeRej:
				// rejected packet: code-id-declared length, and the declared length must be the real one
				tag = "?" + tag
				if len(data) >= 4 && int(data[2])<<8|int(data[3]) == len(data) {
					tag = fmt.Sprintf("%d-%d-%d", data[0], data[1], len(data)-4)
				}
			}
			r.s.add(fmt.Sprintf("%s.%d.%s", n, id, tag), true)
		},
		LayerUp:       func() { r.s.add("tlu", false) },
		LayerDown:     func() { r.s.add("tld", false) },
		LayerStarted:  func() { r.s.add("tls", false) },
		LayerFinished: func() { r.s.add("tlf", false) },
	}
}

type vf5Op struct {
	kind  string // U D O C T I
	code  uint8
	id    uint8
	cls   string
	data  []byte
	isReq bool
}

// parse an op token; identifiers c/s/p are resolved against lastReqID now
func (r *vf5Run) resolve(op string) (vf5Op, bool) {
	switch op {
	case "U", "D", "O", "C", "T", "R", "K":
		return vf5Op{kind: op}, true
	}
	if len(op) < 2 || op[0] != 'I' {
		return vf5Op{}, false
	}
	p := strings.Split(op[1:], ".")
	if len(p) != 4 && len(p) != 5 {
		return vf5Op{}, false
	}
	code, _ := strconv.Atoi(p[0])
	r.f.mu.Lock()
	last := r.f.lastReqID
	r.f.mu.Unlock()
	var id uint8
	switch p[1] {
	case "c":
		id = last
	case "s":
		id = last + 1
	case "p":
		id = last - 1
	default:
		n, _ := strconv.Atoi(p[1])
		id = uint8(n)
	}
	var data []byte
	if len(p) == 5 {
		data, _ = hex.DecodeString(p[4])
	} else {
		dlen, _ := strconv.Atoi(p[3])
		data = make([]byte, dlen)
		for i := range data {
			data[i] = byte(0xa0 + i)
		}
	}
	return vf5Op{kind: "I", code: uint8(code), id: id, cls: p[2], data: data, isReq: uint8(code) == ConfReq}, true
}

func (r *vf5Run) apply(o vf5Op) {
	f := r.f
	switch o.kind {
	case "U":
		f.Up()
	case "D":
		f.Down()
	case "O":
		f.Open()
	case "C":
		f.Close()
	case "T":
		// the restart timer expires: only a pending timer can; it is consumed and Timeout() runs
		f.mu.Lock()
		pending := f.timer != nil
		f.stopTimer()
		f.mu.Unlock()
		if pending {
			f.Timeout()
		}
	case "R":
		f.Restore()
	case "K":
		f.Kill()
	case "I":
		f.Input(o.code, o.id, o.data)
	}
}

func (r *vf5Run) obs() string {
	f := r.f
	st := f.State()
	f.mu.Lock()
	defer f.mu.Unlock()
	armed := 0
	if f.timer != nil {
		armed = 1
	}
	return fmt.Sprintf("%d/%d/%d/%d/%d/%d", st, f.restartCount, armed, f.lastReqID, f.id, f.failCount)
}

func vf5Join(l []string) string {
	if len(l) == 0 {
		return "-"
	}
	return strings.Join(l, ",")
}

// one sequential event; returns the printed step
func (r *vf5Run) seqStep(op string) (string, bool) {
	o, ok := r.resolve(op)
	if !ok {
		return "", false
	}
	s := r.s
	s.mu.Lock()
	s.acts, s.calls, s.cls = nil, nil, ""
	s.mu.Unlock()
	r.apply(o)
	s.mu.Lock()
	acts, calls, cls := s.acts, s.calls, s.cls
	s.mu.Unlock()
	if o.isReq {
		// the handler's answer class must be the one the case announces (glue self-check)
		if o.cls == "m" && cls != "" {
			acts = append(acts, "CLS!called")
		}
		if o.cls != "m" && cls != o.cls {
			acts = append(acts, "CLS!"+cls)
		}
	}
	return r.obs() + ":" + vf5Join(acts) + ":" + vf5Join(calls), true
}

// Kind "late": a REAL restart timer.  After the prefix the pending timer (if any) is re-armed with
// a short period; event A runs with a gate in its first callback and stays parked until the timer has
// fired, so that the timer's callback is waiting for the FSM mutex while A stops or restarts the
// timer.  The RFC automaton has no timeout event for a stopped timer: the late fire must be ignored;
// a timer that A left pending fires normally.  Printed: prefix steps, then one combined step.
const (
	vf5LatePeriod = 40 * time.Millisecond
	vf5LateWait   = 110 * time.Millisecond
)

func (r *vf5Run) lateCase(prefix []string, gate, opA string) string {
	var out []string
	for _, op := range prefix {
		s, ok := r.seqStep(op)
		if !ok {
			return "badcase"
		}
		out = append(out, s)
	}
	a, ok := r.resolve(opA)
	if !ok {
		return "badcase"
	}
	f, s := r.f, r.s
	f.mu.Lock()
	if f.timer != nil {
		f.restartTime = vf5LatePeriod
		f.startTimer()
		f.restartTime = 10 * time.Hour
	}
	f.mu.Unlock()
	s.mu.Lock()
	s.acts, s.calls, s.cls = nil, nil, ""
	s.gate, s.parked, s.release = gate, make(chan struct{}), make(chan struct{})
	parked, release := s.parked, s.release
	s.mu.Unlock()
	doneA := make(chan struct{})
	go func() { defer close(doneA); r.apply(a) }()
	ov := "ov=0"
	select {
	case <-parked:
		ov = "ov=1"
		time.Sleep(vf5LateWait) // the timer fires; its callback now waits for f.mu
		close(release)
		select {
		case <-doneA:
		case <-time.After(10 * time.Second):
			return "hang"
		}
		time.Sleep(30 * time.Millisecond) // the late callback runs
	case <-doneA:
		s.mu.Lock()
		s.gate = ""
		s.mu.Unlock()
		time.Sleep(vf5LateWait) // a timer that is still pending fires
	case <-time.After(10 * time.Second):
		return "hang"
	}
	s.mu.Lock()
	acts, calls := s.acts, s.calls
	s.mu.Unlock()
	// "armed" here = a timer is really pending: a time.Timer that has fired and was left in f.timer is
	// not (Stop reports whether it stopped a pending timer; the case ends here, so stopping is harmless)
	st := f.State()
	f.mu.Lock()
	armed := 0
	if f.timer != nil && f.timer.Stop() {
		armed = 1
	}
	o := fmt.Sprintf("%d/%d/%d/%d/%d/%d", st, f.restartCount, armed, f.lastReqID, f.id, f.failCount)
	f.mu.Unlock()
	out = append(out, o+":"+vf5Join(acts)+":"+vf5Join(calls), ov)
	return strings.Join(out, " ")
}

func vf5Case(line string) (res string) {
	defer func() {
		if e := recover(); e != nil {
			res = "panic " + strings.ReplaceAll(fmt.Sprint(e), " ", "_")
		}
	}()
	tk := strings.Fields(line)
	if len(tk) < 3 {
		return "badline"
	}
	r := &vf5Run{s: &vf5Stream{}}
	var inner OptionHandler
	switch tk[0] {
	case "fsm", "conc", "late":
		r.mock = true
		inner = &vf5Mock{}
		r.f = NewFSM(ProtoLCP, r.callbacks(), nil)
	case "ncp":
		r.mock = true
		inner = &vf5Mock{}
		r.f = NewFSM(ProtoIPCP, r.callbacks(), nil)
	case "lcp":
		l := NewLCP(r.callbacks())
		l.SetMagic(0x01020304)
		l.SetAuthProto(ProtoCHAP, CHAPMD5)
		inner, r.f = l, l.FSM()
	case "ipcp":
		i := NewIPCP(r.callbacks())
		i.SetAddress(net.IPv4(10, 0, 0, 1))
		i.SetPeerAddress(net.IPv4(10, 0, 0, 2))
		i.SetDNS(net.IPv4(9, 9, 9, 9), net.IPv4(8, 8, 8, 8))
		inner, r.f = i, i.FSM()
	case "ipv6cp":
		i := NewIPv6CP(r.callbacks())
		i.SetInterfaceID([8]byte{2, 0, 0, 0, 0, 0, 0, 1})
		inner, r.f = i, i.FSM()
	default:
		return "badkind"
	}
	f := r.f
	f.handler = &vf5Rec{inner: inner, s: r.s}
	f.restartTime = 10 * time.Hour // the restart timer never fires by itself; "T" fires it
	if tk[1] != "d" {
		f.maxConf, _ = strconv.Atoi(tk[1])
	}
	if tk[2] != "d" {
		f.maxTerm, _ = strconv.Atoi(tk[2])
	}
	defer func() {
		f.mu.Lock()
		f.stopTimer()
		f.mu.Unlock()
	}()
	ops := tk[3:]
	var out []string
	var pair []string
	if tk[0] == "late" {
		k := -1
		for i, o := range ops {
			if o == "/" {
				k = i
			}
		}
		if k < 0 || len(ops)-k != 3 {
			return "badcase"
		}
		return r.lateCase(ops[:k], ops[k+1], ops[k+2])
	}
	if tk[0] == "conc" {
		k := -1
		for i, o := range ops {
			if o == "/" {
				k = i
			}
		}
		if k < 0 || len(ops)-k != 4 {
			return "badcase"
		}
		ops, pair = ops[:k], ops[k+1:]
	}
	var all []string
	for _, op := range ops {
		s, ok := r.seqStep(op)
		if !ok {
			return "badcase"
		}
		r.s.mu.Lock()
		all = append(all, r.s.acts...)
		r.s.mu.Unlock()
		out = append(out, s)
	}
	if pair != nil {
		a, ok1 := r.resolve(pair[1])
		b, ok2 := r.resolve(pair[2]) // both identifiers resolved before A starts
		if !ok1 || !ok2 {
			return "badcase"
		}
		s := r.s
		s.mu.Lock()
		s.acts, s.calls, s.cls = nil, nil, ""
		s.gate, s.parked, s.release = pair[0], make(chan struct{}), make(chan struct{})
		parked, release := s.parked, s.release
		s.mu.Unlock()
		doneA, doneB := make(chan struct{}), make(chan struct{})
		ov := "ov=0"
		go func() { defer close(doneA); r.apply(a) }()
		select {
		case <-parked:
			// A is inside a callback: inject B from a second goroutine
			ov = "ov=1"
			go func() { defer close(doneB); r.apply(b) }()
			select {
			case <-doneB: // B ran to completion inside A's callback
			case <-time.After(3 * time.Millisecond): // B is waiting for A
			}
			close(release)
		case <-doneA:
			s.mu.Lock()
			s.gate = ""
			s.mu.Unlock()
			go func() { defer close(doneB); r.apply(b) }()
		case <-time.After(10 * time.Second):
			return "hang"
		}
		for _, ch := range []chan struct{}{doneA, doneB} {
			select {
			case <-ch:
			case <-time.After(10 * time.Second):
				return "hang"
			}
		}
		s.mu.Lock()
		acts, calls := s.acts, s.calls
		s.mu.Unlock()
		out = append(out, r.obs()+":"+vf5Join(acts)+":"+vf5Join(calls))
		all = append(all, acts...)
		// monitor 1: tlu / tld alternate over the whole recorded stream
		alt, up := "alt=ok", false
		for _, x := range all {
			if x == "tlu" {
				if up {
					alt = "alt=BAD"
				}
				up = true
			}
			if x == "tld" {
				if !up {
					alt = "alt=BAD"
				}
				up = false
			}
		}
		// monitor 2: a Terminate-Request that was acknowledged (sta) and not followed by a new tlu
		// must not leave the automaton in Opened
		term := "term=ok"
		if (a.kind == "I" && a.code == TermReq) || (b.kind == "I" && b.code == TermReq) {
			sta, upAfter := false, false
			for _, x := range acts {
				if strings.HasPrefix(x, "sta.") {
					sta, upAfter = true, false
				}
				if x == "tlu" {
					upAfter = true
				}
			}
			if sta && !upAfter && f.State() == Opened {
				term = "term=BAD"
			}
		}
		out = append(out, ov, alt, term)
	}
	if len(out) == 0 {
		return "empty"
	}
	return strings.Join(out, " ")
}

func vf5Guarded(line string) string {
	ch := make(chan string, 1)
	go func() { ch <- vf5Case(line) }()
	select {
	case res := <-ch:
		return res
	case <-time.After(60 * time.Second):
		return "hang"
	}
}

func TestVerifC05(t *testing.T) {
	in, err := os.Open(os.Getenv("VERIF_CASES"))
	if err != nil {
		t.Fatal(err)
	}
	defer in.Close()
	outf, err := os.Create(os.Getenv("VERIF_OUT"))
	if err != nil {
		t.Fatal(err)
	}
	defer outf.Close()
	w := bufio.NewWriter(outf)
	defer w.Flush()
	sc := bufio.NewScanner(in)
	sc.Buffer(make([]byte, 1<<20), 1<<26)
	var lines []string
	for sc.Scan() {
		lines = append(lines, sc.Text())
	}
	// every case has its own FSM; cases run on a small worker pool (the waiting of the conc / late
	// kinds overlaps), results are written in input order
	res := make([]string, len(lines))
	var wg sync.WaitGroup
	next := make(chan int, len(lines))
	for i := range lines {
		next <- i
	}
	close(next)
	for k := 0; k < 8; k++ {
		wg.Add(1)
		go func() {
			defer wg.Done()
			for i := range next {
				res[i] = vf5Guarded(lines[i])
			}
		}()
	}
	wg.Wait()
	for _, l := range res {
		fmt.Fprintln(w, l)
	}
}
