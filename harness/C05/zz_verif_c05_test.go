//go:build verif

package ppp

// C05 correspondence harness: drives the real FSM of pkg/ppp/fsm.go (with a mock option handler,
// or inside real LCP / IPCP / IPv6CP instances) through one whole history per case line and prints
// the projected observables after every event.  See /verif/ocaml/C05_run.ml for the line format.

import (
	"bufio"
	"bytes"
	"fmt"
	"net"
	"os"
	"strconv"
	"strings"
	"testing"
	"time"
)

var (
	vf5Req  = []Option{{Type: 1, Data: []byte{0x05, 0xd4}}}
	vf5Ack  = []Option{{Type: 1, Data: []byte{0x05, 0xd4}}, {Type: 5, Data: []byte{1, 2, 3, 4}}}
	vf5PAck = []Option{{Type: 5, Data: []byte{1, 2, 3, 4}}}
	vf5Nak  = []Option{{Type: 1, Data: []byte{0x05, 0xdc}}}
	vf5Rej  = []Option{{Type: 7, Data: []byte{}}}
)

// mock option handler: the class of the answer to a Configure-Request is chosen by the case
type vf5Mock struct{ cls string }

func (m *vf5Mock) BuildConfReq() []Option { return vf5Req }
func (m *vf5Mock) ProcessConfReq(opts []Option) (ack, nak, rej []Option) {
	switch m.cls {
	case "g":
		return opts, nil, nil
	case "n":
		return vf5PAck, vf5Nak, nil
	case "r":
		return vf5PAck, nil, vf5Rej
	default: // "b"
		return vf5PAck, vf5Nak, vf5Rej
	}
}
func (m *vf5Mock) ProcessConfAck(opts []Option) {}
func (m *vf5Mock) ProcessConfNak(opts []Option) {}
func (m *vf5Mock) ProcessConfRej(opts []Option) {}

// recorder around a real handler: remembers how the last Configure-Request was classified
type vf5Rec struct {
	inner  OptionHandler
	called bool
	cls    string
}

func (r *vf5Rec) BuildConfReq() []Option { return r.inner.BuildConfReq() }
func (r *vf5Rec) ProcessConfReq(opts []Option) (ack, nak, rej []Option) {
	ack, nak, rej = r.inner.ProcessConfReq(opts)
	r.called = true
	switch {
	case len(nak) == 0 && len(rej) == 0:
		r.cls = "g"
	case len(nak) > 0 && len(rej) > 0:
		r.cls = "b"
	case len(rej) > 0:
		r.cls = "r"
	default:
		r.cls = "n"
	}
	return
}
func (r *vf5Rec) ProcessConfAck(opts []Option) { r.inner.ProcessConfAck(opts) }
func (r *vf5Rec) ProcessConfNak(opts []Option) { r.inner.ProcessConfNak(opts) }
func (r *vf5Rec) ProcessConfRej(opts []Option) { r.inner.ProcessConfRej(opts) }

// Configure-Request payloads with a known classification for the real handlers
func vf5RealReq(kind, cls string) []byte {
	if cls == "m" {
		return []byte{1, 0}
	}
	switch kind {
	case "lcp":
		switch cls {
		case "g":
			return []byte{1, 4, 0x05, 0xd4, 5, 6, 9, 9, 9, 9}
		case "n":
			return []byte{1, 4, 0, 32}
		case "r":
			return []byte{7, 2}
		default:
			return []byte{1, 4, 0, 32, 7, 2}
		}
	case "ipcp":
		switch cls {
		case "g":
			return []byte{3, 6, 10, 0, 0, 2}
		case "n":
			return []byte{3, 6, 10, 0, 0, 9}
		case "r":
			return []byte{2, 6, 0, 0x2d, 15, 1}
		default:
			return []byte{3, 6, 10, 0, 0, 9, 2, 6, 0, 0x2d, 15, 1}
		}
	default: // ipv6cp
		switch cls {
		case "g":
			return []byte{1, 10, 2, 0, 0, 0, 0, 0, 0, 7}
		case "n":
			return []byte{1, 10, 0, 0, 0, 0, 0, 0, 0, 0}
		case "r":
			return []byte{2, 2}
		default:
			return []byte{1, 10, 0, 0, 0, 0, 0, 0, 0, 0, 2, 2}
		}
	}
}

type vf5Run struct {
	f    *FSM
	mock *vf5Mock
	rec  *vf5Rec
	kind string
	acts []string
	// what the current event would justify as payloads
	inCode, inID uint8
	inData       []byte
}

func (r *vf5Run) tag(code uint8, data []byte) string {
	switch code {
	case TermReq, TermAck:
		if len(data) == 0 {
			return "-"
		}
	case CodeRej:
		want := append([]byte{r.inCode, r.inID, byte((4 + len(r.inData)) >> 8), byte(4 + len(r.inData))}, r.inData...)
		if bytes.Equal(data, want) {
			return "P"
		}
	case EchoRep:
		if bytes.Equal(data, r.inData) {
			return "E"
		}
	case ConfReq, ConfAck, ConfNak, ConfRej:
		if r.mock == nil {
			return "*"
		}
		switch {
		case code == ConfReq && bytes.Equal(data, SerializeOptions(vf5Req)):
			return "Q"
		case code == ConfAck && r.mock.cls == "g" && bytes.Equal(data, r.inData):
			return "A"
		case code == ConfNak && bytes.Equal(data, SerializeOptions(vf5Nak)):
			return "N"
		case code == ConfRej && bytes.Equal(data, SerializeOptions(vf5Rej)):
			return "R"
		}
	}
	return "?" + fmt.Sprintf("%x", data)
}

func (r *vf5Run) callbacks() Callbacks {
	names := map[uint8]string{ConfReq: "scr", ConfAck: "sca", ConfNak: "scn", ConfRej: "srj", TermReq: "str",
		TermAck: "sta", CodeRej: "scj", EchoRep: "ser"}
	return Callbacks{
		Send: func(code uint8, id uint8, data []byte) {
			n, ok := names[code]
			if !ok {
				n = "send" + strconv.Itoa(int(code))
			}
			r.acts = append(r.acts, fmt.Sprintf("%s.%d.%s", n, id, r.tag(code, data)))
		},
		LayerUp:       func() { r.acts = append(r.acts, "tlu") },
		LayerDown:     func() { r.acts = append(r.acts, "tld") },
		LayerStarted:  func() { r.acts = append(r.acts, "tls") },
		LayerFinished: func() { r.acts = append(r.acts, "tlf") },
	}
}

func vf5Case(line string) (res string) {
	defer func() {
		if e := recover(); e != nil {
			res = "panic " + strings.ReplaceAll(fmt.Sprint(e), " ", "_")
		}
	}()
	tk := strings.Fields(line)
	if len(tk) < 3 {
		return "badline"
	}
	r := &vf5Run{kind: tk[0]}
	switch tk[0] {
	case "fsm":
		r.mock = &vf5Mock{cls: "g"}
		r.f = NewFSM(ProtoLCP, r.callbacks(), r.mock)
	case "ncp":
		r.mock = &vf5Mock{cls: "g"}
		r.f = NewFSM(ProtoIPCP, r.callbacks(), r.mock)
	case "lcp":
		l := NewLCP(r.callbacks())
		l.SetMagic(0x01020304)
		l.SetAuthProto(ProtoCHAP, CHAPMD5)
		r.rec = &vf5Rec{inner: l}
		r.f = l.FSM()
		r.f.handler = r.rec
	case "ipcp":
		i := NewIPCP(r.callbacks())
		i.SetAddress(net.IPv4(10, 0, 0, 1))
		i.SetPeerAddress(net.IPv4(10, 0, 0, 2))
		i.SetDNS(net.IPv4(9, 9, 9, 9), net.IPv4(8, 8, 8, 8))
		r.rec = &vf5Rec{inner: i}
		r.f = i.FSM()
		r.f.handler = r.rec
	case "ipv6cp":
		i := NewIPv6CP(r.callbacks())
		i.SetInterfaceID([8]byte{2, 0, 0, 0, 0, 0, 0, 1})
		r.rec = &vf5Rec{inner: i}
		r.f = i.FSM()
		r.f.handler = r.rec
	default:
		return "badkind"
	}
	f := r.f
	f.restartTime = 10 * time.Hour // the restart timer never fires by itself; "T" fires it
	if tk[1] != "d" {
		f.maxConf, _ = strconv.Atoi(tk[1])
	}
	if tk[2] != "d" {
		f.maxTerm, _ = strconv.Atoi(tk[2])
	}
	defer func() {
		f.mu.Lock()
		f.stopTimer()
		f.mu.Unlock()
	}()
	var out []string
	for _, op := range tk[3:] {
		r.acts = r.acts[:0]
		switch {
		case op == "U":
			f.Up()
		case op == "D":
			f.Down()
		case op == "O":
			f.Open()
		case op == "C":
			f.Close()
		case op == "T":
			// the pending restart timer fires: it is consumed, and its callback Timeout() runs
			f.mu.Lock()
			f.stopTimer()
			f.mu.Unlock()
			f.Timeout()
		case len(op) > 1 && op[0] == 'I':
			p := strings.Split(op[1:], ".")
			if len(p) != 4 {
				return "badcase"
			}
			code, _ := strconv.Atoi(p[0])
			var id uint8
			f.mu.Lock()
			last := f.lastReqID
			f.mu.Unlock()
			switch p[1] {
			case "c":
				id = last
			case "s":
				id = last + 1
			case "p":
				id = last - 1
			default:
				n, _ := strconv.Atoi(p[1])
				id = uint8(n)
			}
			cls := p[2]
			dlen, _ := strconv.Atoi(p[3])
			var data []byte
			switch uint8(code) {
			case ConfReq:
				if r.mock != nil {
					r.mock.cls = cls
					if cls == "m" {
						data = []byte{1, 0}
					} else {
						data = SerializeOptions(vf5Ack)
					}
				} else {
					data = vf5RealReq(r.kind, cls)
					r.rec.called = false
				}
			case ConfAck, ConfNak, ConfRej:
				if cls == "m" {
					data = []byte{1, 1}
				} else if r.mock != nil {
					data = SerializeOptions(vf5Req)
				}
			default:
				data = make([]byte, dlen)
				for i := range data {
					data[i] = byte(0xa0 + i)
				}
			}
			r.inCode, r.inID, r.inData = uint8(code), id, data
			f.Input(uint8(code), id, data)
			if uint8(code) == ConfReq && r.rec != nil {
				if cls == "m" && r.rec.called {
					r.acts = append(r.acts, "CLS!called")
				}
				if cls != "m" && (!r.rec.called || r.rec.cls != cls) {
					r.acts = append(r.acts, "CLS!"+r.rec.cls)
				}
			}
		default:
			return "badcase"
		}
		st := f.State()
		f.mu.Lock()
		armed := 0
		if f.timer != nil {
			armed = 1
		}
		s := fmt.Sprintf("%d/%d/%d/%d/%d/%d:", st, f.restartCount, armed, f.lastReqID, f.id, f.failCount)
		f.mu.Unlock()
		if len(r.acts) == 0 {
			s += "-"
		} else {
			s += strings.Join(r.acts, ",")
		}
		out = append(out, s)
	}
	if len(out) == 0 {
		return "empty"
	}
	return strings.Join(out, " ")
}

func TestVerifC05(t *testing.T) {
	in, err := os.Open(os.Getenv("VERIF_CASES"))
	if err != nil {
		t.Fatal(err)
	}
	defer in.Close()
	outf, err := os.Create(os.Getenv("VERIF_OUT"))
	if err != nil {
		t.Fatal(err)
	}
	defer outf.Close()
	w := bufio.NewWriter(outf)
	defer w.Flush()
	sc := bufio.NewScanner(in)
	sc.Buffer(make([]byte, 1<<20), 1<<26)
	for sc.Scan() {
		line := sc.Text()
		ch := make(chan string, 1)
		go func() { ch <- vf5Case(line) }()
		select {
		case res := <-ch:
			fmt.Fprintln(w, res)
		case <-time.After(20 * time.Second):
			fmt.Fprintln(w, "hang")
		}
	}
}
