//go:build verif

package ppp

// C05 correspondence harness: drives the real FSM of pkg/ppp/fsm.go (with a mock option handler,
// or inside real LCP / IPCP / IPv6CP instances) through one whole history per case line and prints
// the projected observables after every event.  See /verif/ocaml/C05_run.ml for the line format.
//
// Kind "conc" is the forced-overlap part: after a sequential prefix, event A runs on one goroutine
// with a gate inside one of its callbacks (LayerUp/LayerDown/LayerStarted/LayerFinished/Send); while
// A is parked there, event B is injected from a second goroutine.  Events are atomic (the model's
// [step]) iff B cannot run before A has finished, i.e. iff the recorded stream and the final state
// are those of the sequential history A;B.  Two monitors are evaluated on the recorded stream:
// tlu/tld alternate, and an acknowledged Terminate-Request leaves Opened.

import (
	"bufio"
	"encoding/hex"
	"fmt"
	"net"
	"os"
	"runtime"
	"strconv"
	"strings"
	"sync"
	"sync/atomic"
	"testing"
	"time"
	"unsafe"
)

var (
	vf5Req = []Option{{Type: 1, Data: []byte{0x05, 0xd4}}}
	vf5Nak = []Option{{Type: 1, Data: []byte{0x05, 0xdc}}}
	vf5Rej = []Option{{Type: 7, Data: []byte{}}}
)

// mock option handler: stateless; the class of the answer to a Configure-Request is encoded in the
// type of the first option of the request (0x21 nak, 0x22 reject, 0x23 both, anything else good)
type vf5Mock struct{}

func (m *vf5Mock) BuildConfReq() []Option { return vf5Req }
func (m *vf5Mock) ProcessConfReq(opts []Option) (ack, nak, rej []Option) {
	if len(opts) > 0 {
		switch opts[0].Type {
		case 0x21:
			return opts[1:], vf5Nak, nil
		case 0x22:
			return opts[1:], nil, vf5Rej
		case 0x23:
			return opts[1:], vf5Nak, vf5Rej
		}
	}
	return opts, nil, nil
}
func (m *vf5Mock) ProcessConfAck(opts []Option) {}
func (m *vf5Mock) ProcessConfNak(opts []Option) {}
func (m *vf5Mock) ProcessConfRej(opts []Option) {}

func vf5Hex(b []byte) string {
	if len(b) == 0 {
		return "-"
	}
	return hex.EncodeToString(b)
}

// everything the FSM does to the outside, in order
type vf5Stream struct {
	mu    sync.Mutex
	acts  []string
	calls []string
	cls   string // class of the last ProcessConfReq answer
	// gate
	gate    string // "" = none; u d n s a
	parked  chan struct{}
	release chan struct{}
}

func (s *vf5Stream) add(a string, isSend bool) {
	s.mu.Lock()
	s.acts = append(s.acts, a)
	g := s.gate
	hit := false
	switch g {
	case "a":
		hit = true
	case "s":
		hit = isSend
	case "n":
		hit = !isSend
	case "u":
		hit = a == "tlu"
	case "d":
		hit = a == "tld"
	}
	if hit {
		s.gate = ""
	}
	s.mu.Unlock()
	if hit {
		close(s.parked)
		<-s.release
	}
}

// recorder around the handler: logs every call that can change option state
type vf5Rec struct {
	inner OptionHandler
	s     *vf5Stream
}

func (r *vf5Rec) log(k string, opts []Option) {
	r.s.mu.Lock()
	r.s.calls = append(r.s.calls, k+vf5Hex(SerializeOptions(opts)))
	r.s.mu.Unlock()
}
func (r *vf5Rec) BuildConfReq() []Option { return r.inner.BuildConfReq() }
func (r *vf5Rec) ProcessConfReq(opts []Option) (ack, nak, rej []Option) {
	r.log("R", opts)
	ack, nak, rej = r.inner.ProcessConfReq(opts)
	c := "n"
	switch {
	case len(nak) == 0 && len(rej) == 0:
		c = "g"
	case len(nak) > 0 && len(rej) > 0:
		c = "b"
	case len(rej) > 0:
		c = "r"
	}
	r.s.mu.Lock()
	r.s.cls = c
	r.s.mu.Unlock()
	return
}
func (r *vf5Rec) ProcessConfAck(opts []Option) { r.log("A", opts); r.inner.ProcessConfAck(opts) }
func (r *vf5Rec) ProcessConfNak(opts []Option) { r.log("N", opts); r.inner.ProcessConfNak(opts) }
func (r *vf5Rec) ProcessConfRej(opts []Option) { r.log("J", opts); r.inner.ProcessConfRej(opts) }

type vf5Run struct {
	f    *FSM
	mock bool
	s    *vf5Stream
	last *time.Timer   // f.timer as last seen
	old  []*time.Timer // timer objects the automaton has dropped
}

func (r *vf5Run) callbacks() Callbacks {
	names := map[uint8]string{ConfReq: "scr", ConfAck: "sca", ConfNak: "scn", ConfRej: "srj", TermReq: "str",
		TermAck: "sta", CodeRej: "scj", EchoRep: "ser"}
	return Callbacks{
		Send: func(code uint8, id uint8, data []byte) {
			n, ok := names[code]
			if !ok {
				n = "send" + strconv.Itoa(int(code))
			}
			tag := vf5Hex(data)
			switch code {
			case ConfAck, ConfNak, ConfRej:
				if !r.mock {
					tag = "*"
				}
			case CodeRej:
				// Rejected-Packet: code, id, the Length field the peer sent (must be kept), and how much of the
				// packet is quoted - everything, or (RFC 1661 5.6 truncation to the MRU) at most 1488 octets
				tag = "?" + tag
				if len(data) >= 4 {
					q := len(data)
					if q > 1488 {
						q = 1488
					}
					tag = fmt.Sprintf("%d-%d-%d-%d", data[0], data[1], (int(data[2])<<8|int(data[3]))-4, q)
				}
			}
			r.s.add(fmt.Sprintf("%s.%d.%s", n, id, tag), true)
		},
		LayerUp:       func() { r.s.add("tlu", false) },
		LayerDown:     func() { r.s.add("tld", false) },
		LayerStarted:  func() { r.s.add("tls", false) },
		LayerFinished: func() { r.s.add("tlf", false) },
	}
}

type vf5Op struct {
	kind  string // U D O C T I
	code  uint8
	id    uint8
	cls   string
	data  []byte
	isReq bool
	timer *time.Timer // kind F: the timer that was pending when the op was resolved
}

// ---- goroutine probes (no wall-clock heuristics): is goroutine <id> parked on a mutex?
func vf5GoID() string {
	b := make([]byte, 64)
	b = b[:runtime.Stack(b, false)] // "goroutine 123 [running]:"
	f := strings.Fields(string(b))
	if len(f) < 2 {
		return "?"
	}
	return f[1]
}

func vf5Stacks() []string {
	buf := make([]byte, 4<<20)
	n := runtime.Stack(buf, true)
	return strings.Split(string(buf[:n]), "\n\n")
}

func vf5OnMutex(hdr string) bool {
	return strings.Contains(hdr, "sync.Mutex.Lock") || strings.Contains(hdr, "semacquire")
}

// goroutine id is blocked acquiring a mutex
func vf5Blocked(id string) bool {
	for _, g := range vf5Stacks() {
		if strings.HasPrefix(g, "goroutine "+id+" [") {
			hdr := g
			if i := strings.Index(g, "\n"); i >= 0 {
				hdr = g[:i]
			}
			return vf5OnMutex(hdr)
		}
	}
	return false
}

// Number of goroutines queued on a sync.Mutex: the waiter count kept in the mutex state word
// (state >> mutexWaiterShift, first word of sync.Mutex in the pinned toolchain go1.24; checked against a
// goroutine-dump probe by vf5SelfTest before any case runs).  A goroutine is counted from the moment it
// enters the slow path of Lock until it owns the mutex.
func vf5Waiters(m *sync.Mutex) int {
	return int(atomic.LoadInt32((*int32)(unsafe.Pointer(m))) >> 3)
}

// The restart timer's production callback (the closure given to time.AfterFunc in startTimer) must take
// f.mu.  While the harness (or a parked event) holds f.mu and nothing else is using this automaton, a
// waiter on f.mu is that callback.  No identifier of fsm.go is named.
func vf5CallbackWaiting(f *FSM) bool { return vf5Waiters(&f.mu) > 0 }

// the same fact read from a goroutine dump (used by the self-test only)
func vf5WaitingByDump(m *sync.Mutex) bool {
	needle := fmt.Sprintf("lockSlow(%p", m)
	for _, g := range vf5Stacks() {
		if strings.Contains(g, needle) {
			return true
		}
	}
	return false
}

// the waiter-count probe and the dump probe must agree on a plain mutex, before and after a waiter queues
func vf5SelfTest() string {
	var m sync.Mutex
	m.Lock()
	if vf5Waiters(&m) != 0 || vf5WaitingByDump(&m) {
		return "probe: waiter seen on an uncontended mutex"
	}
	done := make(chan struct{})
	go func() { m.Lock(); m.Unlock(); close(done) }()
	if !vf5Until(func() bool { return vf5WaitingByDump(&m) }, 10*time.Second) {
		return "probe: dump never shows the waiter"
	}
	if !vf5Until(func() bool { return vf5Waiters(&m) == 1 }, 10*time.Second) {
		return "probe: waiter count is not 1"
	}
	m.Unlock()
	<-done
	if atomic.LoadInt32((*int32)(unsafe.Pointer(&m))) != 0 {
		return "probe: mutex state word not back to 0"
	}
	return ""
}

// fireNow makes the real time.Timer t run its production callback now and waits, by handshake, until
// the callback has finished: the harness holds f.mu (so the callback must take the slow path), re-arms t
// with period 0, waits until the callback goroutine is observed in lockSlow(&f.mu), releases the mutex,
// waits until that goroutine has left lockSlow (it owns the mutex now) and then takes the mutex once
// itself (see callbackDone).
func (r *vf5Run) fireNow(t *time.Timer) bool {
	f := r.f
	f.mu.Lock()
	t.Reset(0)
	ok := vf5Until(func() bool { return vf5CallbackWaiting(f) }, 10*time.Second)
	f.mu.Unlock()
	if !ok {
		return false
	}
	return r.callbackDone()
}

// After the holder of f.mu has released it with the callback queued, the mutex state word is non-zero
// (woken / starving flag, then locked by the callback) until the callback has released the mutex again:
// state == 0 means the callback has run to its end.  The harness must not touch f.mu before that (it
// could overtake the woken callback).
func (r *vf5Run) callbackDone() bool {
	m := &r.f.mu
	return vf5Until(func() bool { return atomic.LoadInt32((*int32)(unsafe.Pointer(m))) == 0 }, 10*time.Second)
}

// remember time.Timer objects that the automaton has dropped (stopped, restarted or consumed): their
// closures carry superseded generations
func (r *vf5Run) track() {
	r.f.mu.Lock()
	t := r.f.timer
	r.f.mu.Unlock()
	if t != r.last {
		if r.last != nil {
			r.old = append(r.old, r.last)
		}
		r.last = t
	}
}

// wait (bounded) until cond holds; no fixed sleeps decide the outcome
func vf5Until(cond func() bool, max time.Duration) bool {
	deadline := time.Now().Add(max)
	for !cond() {
		if time.Now().After(deadline) {
			return false
		}
		time.Sleep(100 * time.Microsecond)
	}
	return true
}

// parse an op token; identifiers c/s/p are resolved against lastReqID now
func (r *vf5Run) resolve(op string) (vf5Op, bool) {
	switch op {
	case "U", "D", "O", "C", "T", "R", "K", "X", "Y":
		return vf5Op{kind: op}, true
	case "F":
		r.f.mu.Lock()
		t := r.f.timer
		r.f.mu.Unlock()
		return vf5Op{kind: op, timer: t}, true
	}
	if len(op) < 2 || op[0] != 'I' {
		return vf5Op{}, false
	}
	p := strings.Split(op[1:], ".")
	if len(p) != 4 && len(p) != 5 {
		return vf5Op{}, false
	}
	code, _ := strconv.Atoi(p[0])
	r.f.mu.Lock()
	last := r.f.lastReqID
	r.f.mu.Unlock()
	var id uint8
	switch p[1] {
	case "c":
		id = last
	case "s":
		id = last + 1
	case "p":
		id = last - 1
	default:
		if strings.HasPrefix(p[1], "x") { // lastReqID with exactly the bits of the mask flipped
			k, _ := strconv.Atoi(p[1][1:])
			id = last ^ uint8(k)
		} else {
			n, _ := strconv.Atoi(p[1])
			id = uint8(n)
		}
	}
	var data []byte
	if len(p) == 5 {
		data, _ = hex.DecodeString(p[4])
	} else {
		dlen, _ := strconv.Atoi(p[3])
		data = make([]byte, dlen)
		for i := range data {
			data[i] = byte(0xa0 + i)
		}
	}
	return vf5Op{kind: "I", code: uint8(code), id: id, cls: p[2], data: data, isReq: uint8(code) == ConfReq}, true
}

func (r *vf5Run) apply(o vf5Op) {
	f := r.f
	switch o.kind {
	case "U":
		f.Up()
	case "D":
		f.Down()
	case "O":
		f.Open()
	case "C":
		f.Close()
	case "T":
		// the restart timer expires NOW: the pending real timer (armed for 10 h) is made to fire, i.e.
		// the production callback closure of startTimer runs with the generation it captured.  Without
		// a pending timer there is nothing that could fire.
		f.mu.Lock()
		t := f.timer
		f.mu.Unlock()
		if t != nil && !r.fireNow(t) {
			r.s.add("HANG-timer-callback", false)
		}
	case "X":
		// a superseded timer's late fire: the most recent timer object the automaton has stopped,
		// restarted or consumed is made to fire; its closure carries an old generation
		if n := len(r.old); n > 0 {
			if !r.fireNow(r.old[n-1]) {
				r.s.add("HANG-timer-callback", false)
			}
		}
	case "Y":
		f.Timeout() // the exported entry point (no production caller): unguarded
	case "R":
		f.Restore()
	case "K":
		f.Kill()
	case "I":
		f.Input(o.code, o.id, o.data)
	}
}

func (r *vf5Run) obs() string {
	f := r.f
	st := f.State()
	f.mu.Lock()
	defer f.mu.Unlock()
	armed := 0
	if f.timer != nil {
		armed = 1
	}
	return fmt.Sprintf("%d/%d/%d/%d/%d", st, f.restartCount, armed, f.lastReqID, f.failCount)
}

func vf5Join(l []string) string {
	if len(l) == 0 {
		return "-"
	}
	return strings.Join(l, ",")
}

// one sequential event; returns the printed step
func (r *vf5Run) seqStep(op string) (string, bool) {
	o, ok := r.resolve(op)
	if !ok {
		return "", false
	}
	s := r.s
	s.mu.Lock()
	s.acts, s.calls, s.cls = nil, nil, ""
	s.mu.Unlock()
	r.apply(o)
	r.track()
	s.mu.Lock()
	acts, calls, cls := s.acts, s.calls, s.cls
	s.mu.Unlock()
	if o.isReq {
		// the handler's answer class must be the one the case announces (glue self-check)
		if o.cls == "m" && cls != "" {
			acts = append(acts, "CLS!called")
		}
		if o.cls != "m" && cls != o.cls {
			acts = append(acts, "CLS!"+cls)
		}
	}
	return r.obs() + ":" + vf5Join(acts) + ":" + vf5Join(calls), true
}

func vf5Case(line string) (res string) {
	defer func() {
		if e := recover(); e != nil {
			res = "panic " + strings.ReplaceAll(fmt.Sprint(e), " ", "_")
		}
	}()
	tk := strings.Fields(line)
	if len(tk) < 3 {
		return "badline"
	}
	r := &vf5Run{s: &vf5Stream{}}
	var inner OptionHandler
	switch tk[0] {
	case "fsm", "conc":
		r.mock = true
		inner = &vf5Mock{}
		r.f = NewFSM(ProtoLCP, r.callbacks(), nil)
	case "ncp":
		r.mock = true
		inner = &vf5Mock{}
		r.f = NewFSM(ProtoIPCP, r.callbacks(), nil)
	case "lcp":
		l := NewLCP(r.callbacks())
		l.SetMagic(0x01020304)
		l.SetAuthProto(ProtoCHAP, CHAPMD5)
		inner, r.f = l, l.FSM()
	case "ipcp":
		i := NewIPCP(r.callbacks())
		i.SetAddress(net.IPv4(10, 0, 0, 1))
		i.SetPeerAddress(net.IPv4(10, 0, 0, 2))
		i.SetDNS(net.IPv4(9, 9, 9, 9), net.IPv4(8, 8, 8, 8))
		inner, r.f = i, i.FSM()
	case "ipv6cp":
		i := NewIPv6CP(r.callbacks())
		i.SetInterfaceID([8]byte{2, 0, 0, 0, 0, 0, 0, 1})
		inner, r.f = i, i.FSM()
	default:
		return "badkind"
	}
	f := r.f
	f.handler = &vf5Rec{inner: inner, s: r.s}
	f.restartTime = 10 * time.Hour // the restart timer never fires by itself; "T" fires it
	if tk[1] != "d" {
		f.maxConf, _ = strconv.Atoi(tk[1])
	}
	if tk[2] != "d" {
		f.maxTerm, _ = strconv.Atoi(tk[2])
	}
	defer func() {
		f.mu.Lock()
		f.stopTimer()
		f.mu.Unlock()
	}()
	ops := tk[3:]
	var out []string
	// the Identifier counter f.id is not looked at: which Identifiers are used is the implementation's choice,
	// read by the model from the packets sent
	var pair []string
	if tk[0] == "conc" {
		k := -1
		for i, o := range ops {
			if o == "/" {
				k = i
			}
		}
		if k < 0 || len(ops)-k != 4 {
			return "badcase"
		}
		ops, pair = ops[:k], ops[k+1:]
	}
	var all []string
	for _, op := range ops {
		s, ok := r.seqStep(op)
		if !ok {
			return "badcase"
		}
		r.s.mu.Lock()
		all = append(all, r.s.acts...)
		r.s.mu.Unlock()
		out = append(out, s)
	}
	if pair != nil {
		a, ok1 := r.resolve(pair[1])
		b, ok2 := r.resolve(pair[2]) // both identifiers resolved before A starts
		if !ok1 || !ok2 {
			return "badcase"
		}
		s := r.s
		s.mu.Lock()
		s.acts, s.calls, s.cls = nil, nil, ""
		s.gate, s.parked, s.release = pair[0], make(chan struct{}), make(chan struct{})
		parked, release := s.parked, s.release
		s.mu.Unlock()
		doneA, doneB := make(chan struct{}), make(chan struct{})
		ov := "ov=0"
		lockFree, hung := false, false
		go func() { defer close(doneA); r.apply(a) }()
		select {
		case <-parked:
			// A is inside a callback: inject B from a second goroutine
			ov = "ov=1"
			// direct probe: while A is inside a callback the FSM mutex must be held
			if f.mu.TryLock() {
				f.mu.Unlock()
				lockFree = true
			}
			if b.kind == "F" {
				// B = the timer that was pending before A fires now: its production callback must
				// be seen waiting for the mutex before the gate opens
				if b.timer != nil {
					b.timer.Reset(0)
					if !vf5Until(func() bool { return vf5CallbackWaiting(f) }, 2*time.Second) {
						hung = true
					}
				}
				close(release)
				<-doneA
				if b.timer != nil && !r.callbackDone() {
					hung = true
				}
				close(doneB)
			} else {
				go func() { defer close(doneB); r.apply(b) }()
				// handshake, not a timeout: go on only when B has either run to completion (inside
				// A's callback - events are not atomic) or is queued on the FSM mutex (waiting for A)
				if !vf5Until(func() bool {
					select {
					case <-doneB:
						return true
					default:
					}
					return vf5Waiters(&f.mu) > 0
				}, 10*time.Second) {
					hung = true
				}
				close(release)
			}
		case <-doneA:
			s.mu.Lock()
			s.gate = ""
			s.mu.Unlock()
			go func() {
				defer close(doneB)
				if b.kind == "F" {
					if b.timer != nil && !r.fireNow(b.timer) {
						r.s.add("HANG-timer-callback", false)
					}
					return
				}
				r.apply(b)
			}()
		case <-time.After(10 * time.Second):
			return "hang"
		}
		for _, ch := range []chan struct{}{doneA, doneB} {
			select {
			case <-ch:
			case <-time.After(10 * time.Second):
				return "hang"
			}
		}
		s.mu.Lock()
		acts, calls := s.acts, s.calls
		s.mu.Unlock()
		out = append(out, r.obs()+":"+vf5Join(acts)+":"+vf5Join(calls))
		all = append(all, acts...)
		// monitor 1: tlu / tld alternate over the whole recorded stream
		alt, up := "alt=ok", false
		for _, x := range all {
			if x == "tlu" {
				if up {
					alt = "alt=BAD"
				}
				up = true
			}
			if x == "tld" {
				if !up {
					alt = "alt=BAD"
				}
				up = false
			}
		}
		// monitor 2: a Terminate-Request that was acknowledged (sta) and not followed by a new tlu
		// must not leave the automaton in Opened
		term := "term=ok"
		if (a.kind == "I" && a.code == TermReq) || (b.kind == "I" && b.code == TermReq) {
			sta, upAfter := false, false
			for _, x := range acts {
				if strings.HasPrefix(x, "sta.") {
					sta, upAfter = true, false
				}
				if x == "tlu" {
					upAfter = true
				}
			}
			if sta && !upAfter && f.State() == Opened {
				term = "term=BAD"
			}
		}
		out = append(out, ov, alt, term)
		if lockFree {
			out = append(out, "lock=FREE") // the FSM mutex was not held inside a callback
		}
		if hung {
			out = append(out, "HANG")
		}
		r.track()
	}
	if len(out) == 0 {
		out = append(out, "empty")
	}
	return strings.Join(out, " ")
}

func vf5Guarded(line string) string {
	ch := make(chan string, 1)
	go func() {
		res := vf5Case(line)
		ch <- res
	}()
	select {
	case res := <-ch:
		return res
	case <-time.After(60 * time.Second):
		return "hang"
	}
}

func TestVerifC05(t *testing.T) {
	in, err := os.Open(os.Getenv("VERIF_CASES"))
	if err != nil {
		t.Fatal(err)
	}
	defer in.Close()
	outf, err := os.Create(os.Getenv("VERIF_OUT"))
	if err != nil {
		t.Fatal(err)
	}
	defer outf.Close()
	w := bufio.NewWriter(outf)
	defer w.Flush()
	sc := bufio.NewScanner(in)
	sc.Buffer(make([]byte, 1<<20), 1<<26)
	var lines []string
	for sc.Scan() {
		lines = append(lines, sc.Text())
	}
	if msg := vf5SelfTest(); msg != "" {
		t.Fatal(msg)
	}
	// every case has its own FSM; cases run on a small worker pool (the waiting of the conc / late
	// kinds overlaps), results are written in input order
	res := make([]string, len(lines))
	var wg sync.WaitGroup
	next := make(chan int, len(lines))
	for i := range lines {
		next <- i
	}
	close(next)
	for k := 0; k < 8; k++ {
		wg.Add(1)
		go func() {
			defer wg.Done()
			for i := range next {
				res[i] = vf5Guarded(lines[i])
			}
		}()
	}
	wg.Wait()
	for _, l := range res {
		fmt.Fprintln(w, l)
	}
}
