//go:build verif

package pppoe

// C05 correspondence harness for the session layer above the dispatcher (internal/pppoe/session.go): a real
// SessionState created by a PADR, driven by PPP frames through handlePPP, by the AAA verdict (onAuthResult), by
// FSM().Timeout()/Close() and terminate().  After every operation: phase, the three automaton states, ipcpOpen,
// ipv6cpOpen, linkEnded and everything the session emitted, in order.  See ocaml/C05_run.ml (kind sess) and
// coq/theories/C05/Sess.v.

import (
	"bufio"
	"encoding/binary"
	"encoding/hex"
	"fmt"
	"net"
	"os"
	"strconv"
	"strings"
	"testing"

	"github.com/google/gopacket/layers"
	"github.com/veesix-networks/osvbng/pkg/allocator"
	"github.com/veesix-networks/osvbng/pkg/component"
	"github.com/veesix-networks/osvbng/pkg/config"
	"github.com/veesix-networks/osvbng/pkg/config/ip"
	"github.com/veesix-networks/osvbng/pkg/config/subscriber"
	"github.com/veesix-networks/osvbng/pkg/dataplane"
	"github.com/veesix-networks/osvbng/pkg/events"
	"github.com/veesix-networks/osvbng/pkg/ifmgr"
	"github.com/veesix-networks/osvbng/pkg/logger"
	"github.com/veesix-networks/osvbng/pkg/models"
	"github.com/veesix-networks/osvbng/pkg/ppp"
	pkgpppoe "github.com/veesix-networks/osvbng/pkg/pppoe"
	"github.com/veesix-networks/osvbng/pkg/southbound"
	"github.com/veesix-networks/osvbng/pkg/svcgroup"
)

type vs5Sub struct{}

func (vs5Sub) Unsubscribe() {}

type vs5Bus struct {
	h    *vs5H
	dead bool
}

func (b *vs5Bus) Subscribe(string, events.Handler) events.Subscription { return vs5Sub{} }
func (b *vs5Bus) SubscribeAll(events.Handler) events.Subscription      { return vs5Sub{} }
func (b *vs5Bus) Stats() events.Stats                                  { return events.Stats{} }
func (b *vs5Bus) SetDebugTopics([]string)                              {}
func (b *vs5Bus) DebugTopics() []string                                { return nil }
func (b *vs5Bus) Close() error                                         { return nil }
func (b *vs5Bus) Publish(topic string, ev events.Event) {
	if b.dead {
		return
	}
	switch topic {
	case events.TopicEgress:
		if eg, ok := ev.Data.(*events.EgressEvent); ok {
			b.h.onEgress(eg)
		}
	case events.TopicSessionLifecycle:
		if lc, ok := ev.Data.(*events.SessionLifecycleEvent); ok && lc.State == models.SessionStateActive {
			b.h.ev = append(b.h.ev, "open")
		}
	}
}

type vs5Cfg struct{ cfg *config.Config }

func (f *vs5Cfg) GetRunning() (*config.Config, error) { return f.cfg, nil }
func (f *vs5Cfg) GetStartup() (*config.Config, error) { return f.cfg, nil }
func (f *vs5Cfg) LookupSubscriberGroup(svlan, cvlan uint16) (subscriber.GroupMatch, bool) {
	return subscriber.BuildMatchIndex(f.cfg.SubscriberGroups).Lookup(svlan, cvlan)
}

// southbound fake: the embedded nil interface makes any call the harness does not expect panic (reported)
type vs5SB struct{ southbound.Southbound }

func (s *vs5SB) AddPPPoESessionAsync(sessionID uint16, clientIP net.IP, clientMAC net.HardwareAddr, localMAC net.HardwareAddr, encapIfIndex uint32, outerVLAN uint16, innerVLAN uint16, decapVrfID uint32, pppMTU uint16, policy southbound.MSSClampPolicy, callback func(uint32, error)) {
}
func (s *vs5SB) DeletePPPoESessionAsync(sessionID uint16, clientIP net.IP, clientMAC net.HardwareAddr, callback func(error)) {
}

type vs5H struct {
	c       *Component
	bus     *vs5Bus
	s       *SessionState
	ev      []string
	lastScr map[string]uint8
}

func (h *vs5H) onEgress(eg *events.EgressEvent) {
	raw := eg.Packet.RawData
	if eg.Protocol == models.ProtocolPPPoEDiscovery || len(raw) < 8 {
		return
	}
	p := raw[6:]
	proto := binary.BigEndian.Uint16(p[0:2])
	body := p[2:]
	tag := map[uint16]string{ppp.ProtoLCP: "L", ppp.ProtoIPCP: "I", ppp.ProtoIPv6CP: "V"}[proto]
	if len(body) < 4 {
		return
	}
	code, id := body[0], body[1]
	data := body[4:]
	switch {
	case proto == ppp.ProtoCHAP:
		h.ev = append(h.ev, fmt.Sprintf("chap.%d", code))
	case tag == "":
	case tag == "L" && code == ppp.EchoRep:
		tail := []byte{}
		if len(data) > 4 {
			tail = data[4:]
		}
		t := "-"
		if len(tail) > 0 {
			t = hex.EncodeToString(tail)
		}
		h.ev = append(h.ev, fmt.Sprintf("echoreply.%d.%s", id, t))
	case tag == "L" && code == ppp.ProtoRej:
		pr := 0
		if len(data) >= 2 {
			pr = int(binary.BigEndian.Uint16(data[0:2]))
		}
		h.ev = append(h.ev, fmt.Sprintf("protorejsent.%04x", pr))
	default:
		names := map[uint8]string{ppp.ConfReq: "scr", ppp.ConfAck: "sca", ppp.ConfNak: "scn", ppp.ConfRej: "srj",
			ppp.TermReq: "str", ppp.TermAck: "sta", ppp.CodeRej: "scj", ppp.EchoRep: "ser"}
		n, ok := names[code]
		if !ok {
			n = "send" + strconv.Itoa(int(code))
		}
		if code == ppp.ConfReq {
			h.lastScr[tag] = id
		}
		h.ev = append(h.ev, fmt.Sprintf("%s.%s.%d", tag, n, id))
	}
}

func vs5New(poolSize int) *vs5H {
	v4 := map[string]*ip.IPv4Profile{
		"v4": {Gateway: "10.55.0.1", Pools: []ip.IPv4Pool{{Name: "p", Network: "10.55.0.0/24",
			RangeStart: "10.55.0.2", RangeEnd: "10.55.0." + strconv.Itoa(1+poolSize)}}},
	}
	if poolSize == 0 {
		v4["v4"].Pools[0].RangeStart = "10.55.0.1"
		v4["v4"].Pools[0].RangeEnd = "10.55.0.1" // only the (excluded) gateway: no IPv4 address available
	}
	cfg := &config.Config{
		SubscriberGroups: &subscriber.SubscriberGroupsConfig{
			Groups: map[string]*subscriber.SubscriberGroup{
				"grp": {IPv4Profile: "v4", VLANs: []subscriber.VLANRange{{SVLAN: "100"}}},
			},
		},
		IPv4Profiles: v4,
	}
	ifMgr := ifmgr.New()
	ifMgr.Add(&ifmgr.Interface{SwIfIndex: 10, SupSwIfIndex: 2, Name: "TenGigE0/0.100", Type: ifmgr.IfTypeSub, OuterVlanID: 100})
	ifMgr.Add(&ifmgr.Interface{SwIfIndex: 2, Name: "TenGigE0/0", Type: ifmgr.IfTypeHardware, MAC: []byte{0x52, 0x54, 0x00, 0x11, 0x22, 0x33}})
	h := &vs5H{lastScr: map[string]uint8{}}
	h.bus = &vs5Bus{h: h}
	ck, err := pkgpppoe.NewCookieManager(cookieTTL)
	if err != nil {
		panic(err)
	}
	h.c = &Component{
		Base:             component.NewBase("pppoe-c05"),
		logger:           logger.NewTest(),
		eventBus:         h.bus,
		ifMgr:            ifMgr,
		cfgMgr:           &vs5Cfg{cfg: cfg},
		vpp:              &vs5SB{},
		svcGroupResolver: svcgroup.New(),
		acName:           defaultACName,
		cookieMgr:        ck,
		sessions:         make(map[string]*SessionState),
		sidIndex:         make(map[uint16]*SessionState),
		sessionIDIndex:   make(map[string]*SessionState),
		acctSessionIndex: make(map[string]*SessionState),
		usernameIndex:    make(map[string]*SessionState),
		ipv4Index:        make(map[string]*SessionState),
		ipv6Index:        make(map[string]*SessionState),
		raBuckets:        make(map[int][]string),
		raBucketCount:    16,
		registry:         allocator.InitGlobalRegistry(v4, nil),
		nextSessionID:    1,
	}
	h.c.SetReadyState(component.StateReady)
	return h
}

func vs5Case(line string) (res string) {
	defer func() {
		if e := recover(); e != nil {
			res = "panic " + strings.ReplaceAll(fmt.Sprint(e), " ", "_")
			if len(res) > 200 {
				res = res[:200]
			}
		}
	}()
	tk := strings.Fields(line)
	if len(tk) < 2 || tk[0] != "sess" {
		return "badline"
	}
	pool, _ := strconv.Atoi(tk[1]) // 1 = an IPv4 address is available, 0 = none
	h := vs5New(pool)
	defer func() { h.bus.dead = true }()
	var out []string
	for _, op := range tk[2:] {
		h.ev = h.ev[:0]
		switch {
		case op == "UP":
			// the session is created by a PADR; handlePADR ends with sess.up()
			mac := net.HardwareAddr{0xaa, 0, 0, 0, 0, 1}
			cookie := h.c.cookieMgr.Generate(mac, 100, 0)
			tags := pkgpppoe.NewTagBuilder().AddServiceName("").AddACCookie(cookie).Build()
			pkt := &dataplane.ParsedPacket{
				Protocol: models.ProtocolPPPoEDiscovery, MAC: mac, OuterVLAN: 100, SwIfIndex: 10,
				PPPoE: &layers.PPPoE{Version: 1, Type: 1, Code: layers.PPPoECodePADR, BaseLayer: layers.BaseLayer{Payload: tags}},
			}
			if err := h.c.handlePacket(pkt); err != nil {
				return "openerr"
			}
			h.s = h.c.sessions[h.c.sessionKey(mac, 100, 0)]
			if h.s == nil {
				return "nosession"
			}
		case h.s == nil:
			return "badcase"
		case op[0] == 'F':
			// F<proto>.<code>.<id|c|s>.<cls>.<data hex|->
			p := strings.Split(op[1:], ".")
			if len(p) != 5 {
				return "badcase"
			}
			proto, _ := strconv.ParseUint(p[0], 16, 16)
			code, _ := strconv.Atoi(p[1])
			tag := map[uint64]string{0xc021: "L", 0x8021: "I", 0x8057: "V"}[proto]
			var id uint8
			switch p[2] {
			case "c":
				id = h.lastScr[tag]
			case "s":
				id = h.lastScr[tag] + 1
			default:
				n, _ := strconv.Atoi(p[2])
				id = uint8(n)
			}
			var data []byte
			if p[4] != "-" {
				data, _ = hex.DecodeString(p[4])
			}
			payload := append([]byte{byte(code), id, byte((4 + len(data)) >> 8), byte(4 + len(data))}, data...)
			_ = h.s.handlePPP(&layers.PPP{PPPType: layers.PPPType(proto), BaseLayer: layers.BaseLayer{Payload: payload}})
		case op == "AUTH+" || op == "AUTH-":
			h.s.mu.Lock()
			h.s.pendingAuthType = "chap"
			h.s.onAuthResult(op == "AUTH+", map[string]interface{}{})
			h.s.mu.Unlock()
		case op == "TL" || op == "TI" || op == "TV":
			f := map[string]*ppp.FSM{"TL": h.s.lcp.FSM(), "TI": h.s.ipcp.FSM(), "TV": h.s.ipv6cp.FSM()}[op]
			h.s.mu.Lock()
			f.Timeout()
			h.s.mu.Unlock()
		case op == "CLOSE":
			h.s.mu.Lock()
			h.s.lcp.FSM().Close()
			h.s.mu.Unlock()
		case op == "TERM":
			h.s.terminate()
		default:
			return "badcase"
		}
		s := h.s
		s.mu.Lock()
		b := func(x bool) int {
			if x {
				return 1
			}
			return 0
		}
		st := fmt.Sprintf("%d/%d/%d/%d/%d%d%d", s.Phase, s.lcp.FSM().State(), s.ipcp.FSM().State(), s.ipv6cp.FSM().State(),
			b(s.ipcpOpen), b(s.ipv6cpOpen), b(s.linkEnded))
		s.mu.Unlock()
		ev := "-"
		if len(h.ev) > 0 {
			ev = strings.Join(h.ev, ",")
		}
		out = append(out, st+":"+ev)
	}
	if h.s != nil {
		h.s.mu.Lock()
		h.s.stopCHAPRetryTimer()
		h.s.mu.Unlock()
		h.s.lcp.FSM().Kill()
		h.s.ipcp.FSM().Kill()
		h.s.ipv6cp.FSM().Kill()
	}
	if len(out) == 0 {
		return "empty"
	}
	return strings.Join(out, " ")
}

func TestVerifC05S(t *testing.T) {
	in, err := os.Open(os.Getenv("VERIF_CASES"))
	if err != nil {
		t.Fatal(err)
	}
	defer in.Close()
	outf, err := os.Create(os.Getenv("VERIF_OUT"))
	if err != nil {
		t.Fatal(err)
	}
	defer outf.Close()
	w := bufio.NewWriter(outf)
	defer w.Flush()
	sc := bufio.NewScanner(in)
	sc.Buffer(make([]byte, 1<<20), 1<<26)
	for sc.Scan() {
		fmt.Fprintln(w, vs5Case(sc.Text()))
	}
}
