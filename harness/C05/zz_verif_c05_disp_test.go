//go:build verif

package pppdisp

// C05 correspondence harness for the caller of the three automata: Dispatcher.HandleFrame with a real LCP,
// IPCP and IPv6CP behind it (exported API of pkg/ppp only).  One case = one history of frames and
// administrative calls; after every operation the three states, everything the automata sent or reported
// (tagged L / I / V), every host callback and the returned error are printed.  See ocaml/C05_run.ml.

import (
	"bufio"
	"encoding/hex"
	"fmt"
	"net"
	"os"
	"strconv"
	"strings"
	"testing"

	"github.com/veesix-networks/osvbng/pkg/ppp"
)

type vd5Run struct {
	ev      []string
	lastScr map[string]uint8
	phase   ppp.Phase
	d       *Dispatcher
}

func vd5Hex(b []byte) string {
	if len(b) == 0 {
		return "-"
	}
	return hex.EncodeToString(b)
}

func (r *vd5Run) cb(tag string) ppp.Callbacks {
	names := map[uint8]string{ppp.ConfReq: "scr", ppp.ConfAck: "sca", ppp.ConfNak: "scn", ppp.ConfRej: "srj",
		ppp.TermReq: "str", ppp.TermAck: "sta", ppp.CodeRej: "scj", ppp.EchoRep: "ser"}
	return ppp.Callbacks{
		Send: func(code uint8, id uint8, data []byte) {
			n, ok := names[code]
			if !ok {
				n = "send" + strconv.Itoa(int(code))
			}
			t := vd5Hex(data)
			switch code {
			case ppp.ConfReq:
				r.lastScr[tag] = id
			case ppp.ConfAck, ppp.ConfNak, ppp.ConfRej:
				t = "*"
			case ppp.CodeRej:
				t = "?" + t
				if len(data) >= 4 {
					q := len(data)
					if q > 1488 {
						q = 1488
					}
					t = fmt.Sprintf("%d-%d-%d-%d", data[0], data[1], (int(data[2])<<8|int(data[3]))-4, q)
				}
			}
			r.ev = append(r.ev, fmt.Sprintf("%s.%s.%d.%s", tag, n, id, t))
		},
		LayerUp:       func() { r.ev = append(r.ev, tag+".tlu") },
		LayerDown:     func() { r.ev = append(r.ev, tag+".tld") },
		LayerStarted:  func() { r.ev = append(r.ev, tag+".tls") },
		LayerFinished: func() { r.ev = append(r.ev, tag+".tlf") },
	}
}

func vd5Case(line string) (res string) {
	defer func() {
		if e := recover(); e != nil {
			res = "panic " + strings.ReplaceAll(fmt.Sprint(e), " ", "_")
		}
	}()
	tk := strings.Fields(line)
	if len(tk) < 1 || tk[0] != "disp" {
		return "badline"
	}
	r := &vd5Run{lastScr: map[string]uint8{}}
	lcp := ppp.NewLCP(r.cb("L"))
	lcp.SetMagic(0x01020304)
	lcp.SetAuthProto(ppp.ProtoCHAP, ppp.CHAPMD5)
	ipcp := ppp.NewIPCP(r.cb("I"))
	ipcp.SetAddress(net.IPv4(10, 0, 0, 1))
	ipcp.SetPeerAddress(net.IPv4(10, 0, 0, 2))
	ipcp.SetDNS(net.IPv4(9, 9, 9, 9), net.IPv4(8, 8, 8, 8))
	ip6 := ppp.NewIPv6CP(r.cb("V"))
	ip6.SetInterfaceID([8]byte{2, 0, 0, 0, 0, 0, 0, 1})
	fsms := map[string]*ppp.FSM{"L": lcp.FSM(), "I": ipcp.FSM(), "V": ip6.FSM()}
	defer func() { // stop the (real, 3 s) restart timers
		for _, f := range fsms {
			f.Kill()
		}
	}()
	r.d = &Dispatcher{
		LCP: lcp, IPCP: ipcp, IPv6CP: ip6,
		PhaseFn: func() ppp.Phase { return r.phase },
		HandlePAP: func(code, id uint8, data []byte) error {
			r.ev = append(r.ev, fmt.Sprintf("pap.%d.%d.%s", code, id, vd5Hex(data)))
			return nil
		},
		HandleCHAP: func(code, id uint8, data []byte) error {
			r.ev = append(r.ev, fmt.Sprintf("chap.%d.%d.%s", code, id, vd5Hex(data)))
			return nil
		},
		OnEchoReq:        func(id uint8, data []byte) { r.ev = append(r.ev, fmt.Sprintf("echoreq.%d.%s", id, vd5Hex(data))) },
		OnEchoRep:        func(id uint8, data []byte) { r.ev = append(r.ev, fmt.Sprintf("echorep.%d.%s", id, vd5Hex(data))) },
		OnProtocolReject: func(p uint16) { r.ev = append(r.ev, fmt.Sprintf("protorej.%04x", p)) },
		SendProtocolReject: func(p uint16, payload []byte) {
			r.ev = append(r.ev, fmt.Sprintf("sendprotorej.%04x.%s", p, vd5Hex(payload)))
		},
		HandleIPv6: func(payload []byte) error { r.ev = append(r.ev, "ipv6."+vd5Hex(payload)); return nil },
	}
	var out []string
	for _, op := range tk[1:] {
		r.ev = r.ev[:0]
		errs := "-"
		switch {
		case len(op) == 3 && op[0] == 'A':
			f := fsms[op[1:2]]
			if f == nil {
				return "badcase"
			}
			switch op[2] {
			case 'U':
				f.Up()
			case 'O':
				f.Open()
			case 'D':
				f.Down()
			case 'C':
				f.Close()
			default:
				return "badcase"
			}
		case op[0] == 'F' || op[0] == 'S':
			p := strings.Split(op[1:], ".")
			ph, _ := strconv.Atoi(p[0])
			r.phase = ppp.Phase(ph)
			proto, _ := strconv.ParseUint(p[1], 16, 16)
			var payload []byte
			if op[0] == 'S' {
				if len(p) != 3 {
					return "badcase"
				}
				if p[2] != "-" {
					payload, _ = hex.DecodeString(p[2])
				}
			} else {
				// F<ph>.<proto>.<code>.<id|c|s>.<cls>.<data|->.<declared length|a>.<extra|->
				if len(p) != 8 {
					return "badcase"
				}
				code, _ := strconv.Atoi(p[2])
				tag := map[uint64]string{0xc021: "L", 0x8021: "I", 0x8057: "V"}[proto]
				var id uint8
				switch p[3] {
				case "c":
					id = r.lastScr[tag]
				case "s":
					id = r.lastScr[tag] + 1
				default:
					n, _ := strconv.Atoi(p[3])
					id = uint8(n)
				}
				var data, extra []byte
				if p[5] != "-" {
					data, _ = hex.DecodeString(p[5])
				}
				if p[7] != "-" {
					extra, _ = hex.DecodeString(p[7])
				}
				dl := 4 + len(data)
				if p[6] != "a" {
					dl, _ = strconv.Atoi(p[6])
				}
				payload = append([]byte{byte(code), id, byte(dl >> 8), byte(dl)}, data...)
				payload = append(payload, extra...)
			}
			switch err := r.d.HandleFrame(uint16(proto), payload); err {
			case nil:
			case ErrFrameShort:
				errs = "short"
			case ErrFrameLengthMismatch:
				errs = "len"
			default:
				errs = "other"
			}
		default:
			return "badcase"
		}
		ev := "-"
		if len(r.ev) > 0 {
			ev = strings.Join(r.ev, ",")
		}
		out = append(out, fmt.Sprintf("%d/%d/%d:%s:%s", lcp.FSM().State(), ipcp.FSM().State(), ip6.FSM().State(), ev, errs))
	}
	if len(out) == 0 {
		return "empty"
	}
	return strings.Join(out, " ")
}

func TestVerifC05D(t *testing.T) {
	in, err := os.Open(os.Getenv("VERIF_CASES"))
	if err != nil {
		t.Fatal(err)
	}
	defer in.Close()
	outf, err := os.Create(os.Getenv("VERIF_OUT"))
	if err != nil {
		t.Fatal(err)
	}
	defer outf.Close()
	w := bufio.NewWriter(outf)
	defer w.Flush()
	sc := bufio.NewScanner(in)
	sc.Buffer(make([]byte, 1<<20), 1<<26)
	for sc.Scan() {
		fmt.Fprintln(w, vd5Case(sc.Text()))
	}
}
