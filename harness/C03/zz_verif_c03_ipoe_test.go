//go:build verif

package ipoe

// C03 correspondence harness, stage 2: the IPoE gate (unified session mode, DHCP server mode).
//
// Real: Component.processDHCPPacket -> handleDiscover / handleRequest / handleRelease / handleServerResponse,
// processDHCPv6Packet -> handleDHCPv6Solicit / handleDHCPv6Request / handleDHCPv6Release, handleAAAResponse with
// setupSession / onSessionCreated / forwardPendingDHCPv4 / forwardPendingDHCPv6 / forwardLatePendingPackets,
// handleAck, handleDHCPv6Reply, dhcp.ResolveV4/V6, the real allocator registry, the real local DHCPv4 and DHCPv6
// providers (plugins/dhcp4/local, plugins/dhcp6/local), the real in-memory cache.
// Fake: event bus (captures egress, AAA requests, lifecycle, programmed), southbound (AddIPoESessionAsync is queued
// and completed by the v:ok / v:fail events; the bind/unbind/delete calls are logged and complete at once),
// config manager, ifmgr entries.  One handler at a time; the two goroutines handleAAAResponse starts for the
// pending v4 and v6 packets run concurrently as in production, so outputs are compared as a sorted multiset per step.

import (
	"bufio"
	"context"
	"encoding/binary"
	"fmt"
	"net"
	"os"
	"reflect"
	"sort"
	"strconv"
	"strings"
	"sync"
	"testing"
	"time"
	"unsafe"

	"github.com/google/gopacket"
	"github.com/google/gopacket/layers"
	"github.com/google/uuid"
	"github.com/veesix-networks/osvbng/pkg/allocator"
	"github.com/veesix-networks/osvbng/pkg/cache/memory"
	"github.com/veesix-networks/osvbng/pkg/component"
	"github.com/veesix-networks/osvbng/pkg/config"
	"github.com/veesix-networks/osvbng/pkg/config/ip"
	"github.com/veesix-networks/osvbng/pkg/config/subscriber"
	"github.com/veesix-networks/osvbng/pkg/dataplane"
	"github.com/veesix-networks/osvbng/pkg/dhcp4"
	"github.com/veesix-networks/osvbng/pkg/dhcp6"
	"github.com/veesix-networks/osvbng/pkg/events"
	"github.com/veesix-networks/osvbng/pkg/ifmgr"
	"github.com/veesix-networks/osvbng/pkg/logger"
	"github.com/veesix-networks/osvbng/pkg/models"
	"github.com/veesix-networks/osvbng/pkg/southbound"
	"github.com/veesix-networks/osvbng/pkg/svcgroup"
	local4 "github.com/veesix-networks/osvbng/plugins/dhcp4/local"
	local6 "github.com/veesix-networks/osvbng/plugins/dhcp6/local"
)

type c03iSub struct{}

func (c03iSub) Unsubscribe() {}

type c03iBus struct{ h *c03iHarness }

func (b *c03iBus) Subscribe(string, events.Handler) events.Subscription { return c03iSub{} }
func (b *c03iBus) SubscribeAll(events.Handler) events.Subscription      { return c03iSub{} }
func (b *c03iBus) Stats() events.Stats                                  { return events.Stats{} }
func (b *c03iBus) SetDebugTopics([]string)                              {}
func (b *c03iBus) DebugTopics() []string                                { return nil }
func (b *c03iBus) Close() error                                         { return nil }

func (b *c03iBus) Publish(topic string, ev events.Event) {
	h := b.h
	switch topic {
	case events.TopicEgress:
		eg, ok := ev.Data.(*events.EgressEvent)
		if !ok {
			h.emit("?", "egress?")
			return
		}
		who := h.slotByMAC(eg.Packet.DstMAC)
		raw := eg.Packet.RawData
		if eg.Protocol == models.ProtocolDHCPv4 && len(raw) >= 28+8 {
			who = fmt.Sprintf("x%d", binary.BigEndian.Uint32(raw[28+4:28+8]))
		} else if eg.Protocol == models.ProtocolDHCPv6 && len(raw) >= 52 {
			who = fmt.Sprintf("x%d", uint32(raw[49])<<16|uint32(raw[50])<<8|uint32(raw[51]))
		}
		switch eg.Protocol {
		case models.ProtocolDHCPv4:
			if len(raw) <= 28 {
				h.emit(who, "v4short")
				return
			}
			d := &layers.DHCPv4{}
			if err := d.DecodeFromBytes(raw[28:], gopacket.NilDecodeFeedback); err != nil {
				h.emit(who, "v4undecodable")
				return
			}
			t := "v4?"
			for _, o := range d.Options {
				if o.Type == layers.DHCPOptMessageType && len(o.Data) == 1 {
					switch layers.DHCPMsgType(o.Data[0]) {
					case layers.DHCPMsgTypeOffer:
						t = "OFFER"
					case layers.DHCPMsgTypeAck:
						t = "ACK"
					case layers.DHCPMsgTypeNak:
						t = "NAK"
					default:
						t = "v4type" + strconv.Itoa(int(o.Data[0]))
					}
				}
			}
			h.emit(who, t)
		case models.ProtocolDHCPv6:
			if len(raw) <= 48 {
				h.emit(who, "v6short")
				return
			}
			switch dhcp6.MessageType(raw[48]) {
			case dhcp6.MsgTypeAdvertise:
				h.emit(who, "ADV")
			case dhcp6.MsgTypeReply:
				if m, err := dhcp6.ParseMessage(raw[48:]); err == nil && m.Options.IANA == nil && m.Options.IAPD != nil && m.Options.IAPD.Prefix != nil {
					h.emit(who, "REPLYPD") // no address (IA_NA pool exhausted) but a delegated prefix: service
				} else if err == nil && m.Options.IANA == nil {
					h.emit(who, "RREPLY") // reply to a Release: carries no address
				} else {
					h.emit(who, "REPLY")
				}
			default:
				h.emit(who, "v6type"+strconv.Itoa(int(raw[48])))
			}
		default:
			h.emit(who, "egress:"+string(eg.Protocol))
		}
	case events.TopicAAARequest:
		rq, ok := ev.Data.(*events.AAARequestEvent)
		if ok {
			h.emit(h.slotBySessID(rq.SessionID), "Q")
		}
	case events.TopicSessionLifecycle:
		lc, ok := ev.Data.(*events.SessionLifecycleEvent)
		if !ok {
			return
		}
		st := "?"
		switch lc.State {
		case models.SessionStateActive:
			st = "A"
		case models.SessionStateReleased:
			st = "R"
		}
		h.emit(h.slotBySessID(lc.SessionID), "life"+st)
	case events.TopicSessionProgrammed:
		lc, ok := ev.Data.(*events.SessionLifecycleEvent)
		if ok {
			h.emit(h.slotBySessID(lc.SessionID), "prog")
		}
	default:
		h.emit("?", "topic:"+topic)
	}
}

type c03iCfgMgr struct{ cfg *config.Config }

func (f *c03iCfgMgr) GetRunning() (*config.Config, error) { return f.cfg, nil }
func (f *c03iCfgMgr) GetStartup() (*config.Config, error) { return f.cfg, nil }
func (f *c03iCfgMgr) LookupSubscriberGroup(svlan, cvlan uint16) (subscriber.GroupMatch, bool) {
	return subscriber.BuildMatchIndex(f.cfg.SubscriberGroups).Lookup(svlan, cvlan)
}

type c03iAdd struct {
	mac string
	cb  func(uint32, error)
}

type c03iSB struct {
	southbound.Southbound
	h       *c03iHarness
	pending []c03iAdd
	nextIf  uint32
	ifSlot  map[uint32]string
	// forced overlap: when armed, the next AddIPoESessionAsync signals reached and waits for gate, i.e. the handler
	// that called it (handleAAAResponse -> setupSession) is held in the middle of its work
	armed   bool
	reached chan struct{}
	gate    chan struct{}
}

func (s *c03iSB) AddIPoESessionAsync(clientMAC net.HardwareAddr, localMAC net.HardwareAddr, encapIfIndex uint32, outerVLAN uint16, innerVLAN uint16, decapVrfID uint32, callback func(uint32, error)) {
	i, _ := strconv.Atoi(s.h.slotByMAC(clientMAC.String()))
	who := s.h.curWho(i)
	s.h.emit(who, "sbadd")
	s.h.mu.Lock()
	s.pending = append(s.pending, c03iAdd{who, callback})
	wait := s.armed
	s.armed = false
	s.h.mu.Unlock()
	if wait {
		close(s.reached)
		<-s.gate
	}
}
func (s *c03iSB) DeleteIPoESessionAsync(clientMAC net.HardwareAddr, encapIfIndex uint32, innerVLAN uint16, callback func(error)) {
	i, _ := strconv.Atoi(s.h.slotByMAC(clientMAC.String()))
	s.h.emit(s.h.curWho(i), "sbdel")
	callback(nil)
}
func (s *c03iSB) who(sw uint32) string {
	if w, ok := s.ifSlot[sw]; ok {
		return w
	}
	return "?"
}
func (s *c03iSB) IPoESetSessionIPv4Async(swIfIndex uint32, clientIP net.IP, isAdd bool, callback func(error)) {
	s.h.emit(s.who(swIfIndex), map[bool]string{true: "sb4+", false: "sb4-"}[isAdd])
	callback(nil)
}
func (s *c03iSB) IPoESetSessionIPv6Async(swIfIndex uint32, clientIP net.IP, isAdd bool, callback func(error)) {
	s.h.emit(s.who(swIfIndex), map[bool]string{true: "sb6+", false: "sb6-"}[isAdd])
	callback(nil)
}
func (s *c03iSB) IPoESetDelegatedPrefixAsync(swIfIndex uint32, prefix net.IPNet, nextHop net.IP, isAdd bool, callback func(error)) {
	s.h.emit(s.who(swIfIndex), map[bool]string{true: "sbpd+", false: "sbpd-"}[isAdd])
	callback(nil)
}
func (s *c03iSB) SetUnnumberedAsync(swIfIndex uint32, loopbackName string, callback func(error)) {
	callback(nil)
}

type c03iHarness struct {
	mu    sync.Mutex
	lmu   sync.Mutex
	xwho  map[uint32]string // DHCP transaction id -> attempt the packet was sent for
	sent  []uint32          // transaction ids used by the current step
	sentI int
	c     *Component
	bus   *c03iBus
	sb    *c03iSB
	reg   *allocator.Registry
	out   []string
	macs  []net.HardwareAddr
	ids   [][]string // session ids seen per slot, oldest first
	cur   []*SessionState
	xid   uint32
	monOK  map[string]bool // the property monitor: attempts (slot.generation) whose AAA answer was an accept
	monOut map[string]bool // attempts with a request published and not yet answered
	viol  string
}

func (h *c03iHarness) emit(who, what string) {
	h.mu.Lock()
	h.out = append(h.out, who+what)
	h.mu.Unlock()
}

func (h *c03iHarness) slotByMAC(mac string) string {
	for i, m := range h.macs {
		if m.String() == mac {
			return strconv.Itoa(i)
		}
	}
	return "?"
}

func (h *c03iHarness) slotBySessID(id string) string {
	for pass := 0; pass < 2; pass++ {
		for i, l := range h.ids {
			for g, x := range l {
				if x == id {
					return strconv.Itoa(i) + "." + strconv.Itoa(g+1)
				}
			}
		}
		// a session created during this very handler call: learn it from the component's map
		h.learn()
	}
	return "?"
}

// curWho: the attempt (slot.generation) the slot's latest session id stands for
func (h *c03iHarness) curWho(i int) string {
	h.learn()
	return strconv.Itoa(i) + "." + strconv.Itoa(len(h.ids[i]))
}

// learn records the session currently stored for each slot's key.
func (h *c03iHarness) learn() {
	h.lmu.Lock()
	defer h.lmu.Unlock()
	for i, m := range h.macs {
		key := h.c.makeSessionKeyV4(m, 100, 0)
		if v, ok := h.c.sessions.Load(key); ok {
			s := v.(*SessionState)
			if h.cur[i] != s {
				h.cur[i] = s
				h.ids[i] = append(h.ids[i], s.SessionID)
			}
		}
	}
}

func c03iAvail(reg *allocator.Registry, field string) int {
	f := reflect.ValueOf(reg).Elem().FieldByName(field)
	m := reflect.NewAt(f.Type(), unsafe.Pointer(f.UnsafeAddr())).Elem().Interface().(map[string]*allocator.PoolAllocator)
	n := 0
	for _, a := range m {
		n += a.Available()
	}
	return n
}

// c03iHeld counts the registry leases recorded for a session id.
func c03iHeld(reg *allocator.Registry, field, sessID string) int {
	f := reflect.ValueOf(reg).Elem().FieldByName(field)
	m := reflect.NewAt(f.Type(), unsafe.Pointer(f.UnsafeAddr())).Elem().Interface().(map[string]*allocator.PoolAllocator)
	n := 0
	for _, a := range m {
		lf := reflect.ValueOf(a).Elem().FieldByName("leases")
		it := reflect.NewAt(lf.Type(), unsafe.Pointer(lf.UnsafeAddr())).Elem().MapRange()
		for it.Next() {
			if it.Value().String() == sessID {
				n++
			}
		}
	}
	return n
}

// c03iHeldPD counts the delegated-prefix leases recorded for a session id.
func c03iHeldPD(reg *allocator.Registry, sessID string) int {
	f := reflect.ValueOf(reg).Elem().FieldByName("pdAllocators")
	it := reflect.NewAt(f.Type(), unsafe.Pointer(f.UnsafeAddr())).Elem().MapRange()
	n := 0
	for it.Next() {
		lf := it.Value().Elem().FieldByName("leases")
		lt := reflect.NewAt(lf.Type(), unsafe.Pointer(lf.UnsafeAddr())).Elem().MapRange()
		for lt.Next() {
			if lt.Value().String() == sessID {
				n++
			}
		}
	}
	return n
}

func (s *c03iSB) queued(who string) bool {
	for _, p := range s.pending {
		if p.mac == who {
			return true
		}
	}
	return false
}

func c03iNew(pool4, pool6 int, relay bool) (*c03iHarness, func()) {
	v4 := map[string]*ip.IPv4Profile{
		"v4": {Gateway: "10.66.0.1", Pools: []ip.IPv4Pool{{Name: "p4", Network: "10.66.0.0/24",
			RangeStart: "10.66.0.2", RangeEnd: "10.66.0." + strconv.Itoa(1+pool4)}}},
	}
	if pool4 == 0 {
		v4["v4"].Pools[0].RangeStart, v4["v4"].Pools[0].RangeEnd = "10.66.0.1", "10.66.0.1"
	}
	v6 := map[string]*ip.IPv6Profile{
		"v6": {IANAPools: []ip.IANAPool{{Name: "p6", Network: "2001:db8:66::/64", RangeStart: "2001:db8:66::10",
			RangeEnd: "2001:db8:66::" + strconv.FormatInt(int64(0x10+pool6-1), 16), Gateway: "2001:db8:66::1",
			PreferredTime: 3600, ValidTime: 7200}},
			// IA_PD: /56 out of a /44 (4096 prefixes, never exhausted here); every client v6 message asks for IA_PD too
			PDPools: []ip.PDPool{{Name: "pd", Network: "2001:db8:7000::/44", PrefixLength: 56, PreferredTime: 3600, ValidTime: 7200}}},
	}
	if pool6 == 0 {
		v6["v6"].IANAPools[0].RangeStart, v6["v6"].IANAPools[0].RangeEnd = "2001:db8:66::1", "2001:db8:66::1"
	}
	if relay { // case kind ipoer: the access group's DHCPv4 profile is in relay mode (server replies are forwarded)
		v4["v4"].DHCP = &ip.IPv4DHCPOptions{Mode: "relay"}
	}
	cfg := &config.Config{
		SubscriberGroups: &subscriber.SubscriberGroupsConfig{
			Groups: map[string]*subscriber.SubscriberGroup{
				"grp": {IPv4Profile: "v4", IPv6Profile: "v6", VLANs: []subscriber.VLANRange{{SVLAN: "100"}}},
			},
		},
		IPv4Profiles: v4,
		IPv6Profiles: v6,
	}
	ifMgr := ifmgr.New()
	ifMgr.Add(&ifmgr.Interface{SwIfIndex: 10, SupSwIfIndex: 2, Name: "TenGigE0/0.100", Type: ifmgr.IfTypeSub, OuterVlanID: 100})
	ifMgr.Add(&ifmgr.Interface{SwIfIndex: 2, Name: "TenGigE0/0", Type: ifmgr.IfTypeHardware, MAC: []byte{0x52, 0x54, 0x00, 0x11, 0x22, 0x33}})

	h := &c03iHarness{xid: 0x1000, xwho: map[uint32]string{}, monOK: map[string]bool{}, monOut: map[string]bool{}}
	h.bus = &c03iBus{h: h}
	h.sb = &c03iSB{h: h, nextIf: 2000, ifSlot: map[uint32]string{}}
	p4, err := local4.New(cfg) // also (re)initialises the global allocator registry from cfg
	if err != nil {
		panic(err)
	}
	p6, err := local6.New(cfg)
	if err != nil {
		panic(err)
	}
	h.reg = allocator.GetGlobalRegistry()
	mc := memory.New()
	h.c = &Component{
		Base:             component.NewBase("ipoe-c03"),
		logger:           logger.NewTest(),
		eventBus:         h.bus,
		ifMgr:            ifMgr,
		cfgMgr:           &c03iCfgMgr{cfg: cfg},
		vpp:              h.sb,
		svcGroupResolver: svcgroup.New(),
		cache:            mc,
		dhcp4Providers:   map[string]dhcp4.DHCPProvider{"local": p4, "relay": p4},
		dhcp6Providers:   map[string]dhcp6.DHCPProvider{"local": p6},
		raBuckets:        make(map[int][]string),
	}
	h.c.StartContext(context.Background())
	h.c.SetReadyState(component.StateReady)
	h.macs = []net.HardwareAddr{{0xbb, 0, 0, 0, 0, 1}, {0xbb, 0, 0, 0, 0, 2}, {0xbb, 0, 0, 0, 0, 3}}
	h.ids = make([][]string, len(h.macs))
	h.cur = make([]*SessionState, len(h.macs))
	return h, func() { h.c.StopContext(); mc.Close() }
}

func (h *c03iHarness) v4pkt(i int, mt layers.DHCPMsgType, ciaddr net.IP, yiaddr net.IP, xid uint32) *dataplane.ParsedPacket {
	op := layers.DHCPOpRequest
	if mt == layers.DHCPMsgTypeOffer || mt == layers.DHCPMsgTypeAck || mt == layers.DHCPMsgTypeNak {
		op = layers.DHCPOpReply
	}
	d := &layers.DHCPv4{
		Operation: op, HardwareType: layers.LinkTypeEthernet, HardwareLen: 6, Xid: xid,
		ClientHWAddr: h.macs[i], ClientIP: ciaddr, YourClientIP: yiaddr,
		Options: layers.DHCPOptions{layers.NewDHCPOption(layers.DHCPOptMessageType, []byte{byte(mt)})},
	}
	return &dataplane.ParsedPacket{Protocol: models.ProtocolDHCPv4, MAC: h.macs[i], OuterVLAN: 100, SwIfIndex: 10, DHCPv4: d}
}

func (h *c03iHarness) v6pkt(i int, mt dhcp6.MessageType) *dataplane.ParsedPacket {
	h.xid++
	duid := []byte{0, 3, 0, 1, 0xbb, 0, 0, 0, 0, byte(i + 1)}
	raw := []byte{byte(mt), byte(h.xid >> 16), byte(h.xid >> 8), byte(h.xid)}
	opt := func(code uint16, data []byte) {
		b := make([]byte, 4)
		binary.BigEndian.PutUint16(b[0:2], code)
		binary.BigEndian.PutUint16(b[2:4], uint16(len(data)))
		raw = append(raw, append(b, data...)...)
	}
	opt(1, duid)                                       // client id
	opt(3, []byte{0, 0, 0, byte(i + 1), 0, 0, 0, 0, 0, 0, 0, 0}) // IA_NA iaid, T1, T2
	opt(25, []byte{0, 0, 0, byte(i + 1), 0, 0, 0, 0, 0, 0, 0, 0}) // IA_PD iaid, T1, T2
	opt(8, []byte{0, 0})                               // elapsed time
	d := &layers.DHCPv6{}
	if err := d.DecodeFromBytes(raw, gopacket.NilDecodeFeedback); err != nil {
		panic(err)
	}
	ll := net.ParseIP("fe80::bb00:0:0:" + strconv.Itoa(i+1))
	return &dataplane.ParsedPacket{Protocol: models.ProtocolDHCPv6, MAC: h.macs[i], OuterVLAN: 100, SwIfIndex: 10,
		DHCPv6: d, IPv6: &layers.IPv6{SrcIP: ll}}
}

func (h *c03iHarness) step(ev string) {
	f := strings.Split(ev, ":")
	idx := func(s string) int { n, _ := strconv.Atoi(s); return n }
	xb := h.xid
	defer func() {
		// client packets of this step belong to the attempt that is current for the slot after it was handled
		if len(f) > 1 && (f[0] == "D" || f[0] == "R" || f[0] == "L" || f[0] == "S" || f[0] == "Q" || f[0] == "N" || f[0] == "X") {
			i := idx(f[1])
			for x := xb + 1; x <= h.xid; x++ {
				h.xwho[x&0xffffff] = h.curWho(i)
			}
		}
		h.mu.Lock()
		for k, o := range h.out {
			if strings.HasPrefix(o, "x") {
				j := 1
				for j < len(o) && o[j] >= '0' && o[j] <= '9' {
					j++
				}
				n, _ := strconv.Atoi(o[1:j])
				w, ok := h.xwho[uint32(n)]
				if !ok {
					w = "?"
				}
				h.out[k] = w + o[j:]
			}
		}
		h.mu.Unlock()
	}()
	switch f[0] {
	case "A": // A:<i>:<kind>:<msg> — a packet of ANOTHER subscriber whose identity differs from slot i's in exactly one key
		// component: c = C-VLAN (same MAC, same S-VLAN), m0..m5 = that MAC byte.  msg: d = DISCOVER, r = REQUEST,
		// s = SOLICIT, q = REQUEST6.  It must never find slot i's session: a new, pending session with its own AAA request.
		i := idx(f[1])
		var p *dataplane.ParsedPacket
		h.xid++
		switch f[3] {
		case "d":
			p = h.v4pkt(i, layers.DHCPMsgTypeDiscover, nil, nil, h.xid)
		case "r":
			p = h.v4pkt(i, layers.DHCPMsgTypeRequest, nil, nil, h.xid)
		case "s":
			p = h.v6pkt(i, dhcp6.MsgTypeSolicit)
		default:
			p = h.v6pkt(i, dhcp6.MsgTypeRequest)
		}
		mac := append(net.HardwareAddr(nil), h.macs[i]...)
		if f[2] == "c" {
			p.InnerVLAN = 777
		} else {
			mac[int(f[2][1]-'0')] ^= 0x40
		}
		p.MAC = mac
		if p.DHCPv4 != nil {
			p.DHCPv4.ClientHWAddr = mac
			_ = h.c.processDHCPPacket(p)
		} else {
			_ = h.c.processDHCPv6Packet(p)
		}
	case "D":
		h.xid++
		_ = h.c.processDHCPPacket(h.v4pkt(idx(f[1]), layers.DHCPMsgTypeDiscover, nil, nil, h.xid))
	case "R":
		h.xid++
		_ = h.c.processDHCPPacket(h.v4pkt(idx(f[1]), layers.DHCPMsgTypeRequest, nil, nil, h.xid))
	case "L":
		i := idx(f[1])
		ci := net.IPv4(9, 9, 9, 9)
		if f[2] == "ok" {
			ci = net.IPv4zero
			if s := h.cur[i]; s != nil {
				s.mu.Lock()
				if s.IPv4 != nil {
					ci = s.IPv4
				}
				s.mu.Unlock()
			}
		}
		h.xid++
		_ = h.c.processDHCPPacket(h.v4pkt(i, layers.DHCPMsgTypeRelease, ci, nil, h.xid))
	case "Y": // a DHCP server message arriving from the access side with the session's transaction id
		i := idx(f[1])
		var xid uint32 = 0xdead
		if s := h.cur[i]; s != nil {
			xid = s.XID
		}
		mt := map[string]layers.DHCPMsgType{"offer": layers.DHCPMsgTypeOffer, "ack": layers.DHCPMsgTypeAck, "nak": layers.DHCPMsgTypeNak}[f[2]]
		_ = h.c.processDHCPPacket(h.v4pkt(i, mt, nil, net.IPv4(10, 66, 0, 200), xid))
	case "S":
		_ = h.c.processDHCPv6Packet(h.v6pkt(idx(f[1]), dhcp6.MsgTypeSolicit))
	case "Q":
		_ = h.c.processDHCPv6Packet(h.v6pkt(idx(f[1]), dhcp6.MsgTypeRequest))
	case "N":
		_ = h.c.processDHCPv6Packet(h.v6pkt(idx(f[1]), dhcp6.MsgTypeRenew))
	case "X":
		_ = h.c.processDHCPv6Packet(h.v6pkt(idx(f[1]), dhcp6.MsgTypeRelease))
	case "a":
		i := idx(f[1])
		id := uuid.New().String()
		l := h.ids[i]
		switch f[2] {
		case "cur":
			if len(l) > 0 {
				id = l[len(l)-1]
			}
		case "old":
			if len(l) > 1 {
				id = l[len(l)-2]
			}
		}
		resp := models.AAAResponse{RequestID: uuid.New().String()}
		switch f[3] {
		case "acc":
			resp.Allowed = true
			resp.Attributes = map[string]interface{}{}
		case "rej":
		case "err":
			resp.Error = "all RADIUS servers failed"
		}
		h.c.handleAAAResponse(events.Event{Data: &events.AAAResponseEvent{AccessType: models.AccessTypeIPoE, SessionID: id, Response: resp}})
	case "v":
		if len(h.sb.pending) == 0 {
			return
		}
		p := h.sb.pending[0]
		h.sb.pending = h.sb.pending[1:]
		if f[1] == "ok" {
			h.sb.nextIf++
			h.sb.ifSlot[h.sb.nextIf] = p.mac
			p.cb(h.sb.nextIf, nil)
		} else {
			p.cb(0, fmt.Errorf("vpp: add failed"))
		}
	default:
		h.emit("?", "badev:"+ev)
	}
	h.learn()
}

func c03iB(b bool) string {
	if b {
		return "1"
	}
	return "0"
}

func (h *c03iHarness) status() string {
	var parts []string
	for i, s := range h.cur {
		if s == nil {
			parts = append(parts, "-")
			continue
		}
		inMap := false
		if v, ok := h.c.sessions.Load(h.c.makeSessionKeyV4(h.macs[i], 100, 0)); ok && v.(*SessionState) == s {
			inMap = true
		}
		s.mu.Lock()
		parts = append(parts, "e"+c03iB(inMap)+"a"+c03iB(s.AAAApproved)+"f"+c03iB(s.AAAInFlight)+"c"+c03iB(s.IPoESessionCreated)+
			"x"+c03iB(s.Closing)+"b"+c03iB(s.IPv4 != nil)+c03iB(s.IPv6Bound))
		s.mu.Unlock()
	}
	return strings.Join(parts, ",") + "|" + strconv.Itoa(c03iAvail(h.reg, "allocators")) + "/" + strconv.Itoa(c03iAvail(h.reg, "ianaAllocators"))
}

func c03iService(tok string) bool {
	switch tok {
	case "OFFER", "ACK", "ADV", "REPLY", "sbadd", "sb4+", "sb6+", "sbpd+", "lifeA", "prog":
		return true
	}
	return false
}

// monStep: an answer is addressed to the attempt whose session id it carries; every service output of an attempt
// needs an accept for it; an address may leave a pool only when some accepted attempt exists.
func (h *c03iHarness) monStep(ev string, curBefore [3]string, exBefore [3]bool, a4, a6 int, check bool) {
	f := strings.Split(ev, ":")
	if f[0] == "a" && f[2] == "cur" {
		i, _ := strconv.Atoi(f[1])
		if h.monOut[curBefore[i]] {
			delete(h.monOut, curBefore[i])
			h.monOK[curBefore[i]] = f[3] == "acc"
		}
		// reject-clean: after a reject/error that was applied the attempt holds nothing
		if f[3] != "acc" && exBefore[i] {
			if s := h.cur[i]; s != nil {
				if _, still := h.c.sessionIndex.Load(s.SessionID); !still {
					s.mu.Lock()
					dirty := s.IPoESessionCreated || s.IPv4 != nil || s.IPv6Address != nil || s.PendingIPv4Binding != nil || s.PendingIPv6Binding != nil ||
						(s.AllocCtx != nil && (s.AllocCtx.IPv4Address != nil || s.AllocCtx.IPv6Address != nil))
					id := s.SessionID
					s.mu.Unlock()
					if dirty || c03iHeld(h.reg, "allocators", id)+c03iHeld(h.reg, "ianaAllocators", id)+c03iHeldPD(h.reg, id) > 0 || h.sb.queued(curBefore[i]) {
						h.viol = "VIOLATION"
					}
				}
			}
		}
	}
	if !check {
		return
	}
	bad := ""
	for _, o := range h.out {
		k := strings.IndexFunc(o, func(r rune) bool { return !(r == '.' || (r >= '0' && r <= '9')) })
		if k <= 0 {
			continue
		}
		who, tok := o[:k], o[k:]
		if tok == "Q" {
			h.monOut[who] = true
		}
		if c03iService(tok) && !h.monOK[who] && (bad == "" || who < bad) {
			bad = who
		}
	}
	if c03iAvail(h.reg, "allocators") < a4 || c03iAvail(h.reg, "ianaAllocators") < a6 {
		ok := false
		for _, v := range h.monOK {
			ok = ok || v
		}
		if !ok && bad == "" {
			bad = "pool"
		}
	}
	if bad != "" && h.viol == "" {
		h.viol = "VIOLATION"
	}
}

// case line: ipoe <pool4> <pool6> <ev> ...
func c03iRunCase(line string) string {
	f := strings.Fields(line)
	if len(f) < 3 || (f[0] != "ipoe" && f[0] != "ipoec" && f[0] != "ipoer") {
		return "badcase"
	}
	p4, _ := strconv.Atoi(f[1])
	p6, _ := strconv.Atoi(f[2])
	h, closeFn := c03iNew(p4, p6, f[0] == "ipoer")
	defer closeFn()
	var steps []string
	done := make(chan string, 1)
	go func() {
		defer func() {
			if r := recover(); r != nil {
				msg := fmt.Sprint(r)
				if len(msg) > 60 {
					msg = msg[:60]
				}
				done <- strings.Join(append(steps, "panic:"+strings.ReplaceAll(msg, " ", "_")), " ; ")
			}
		}()
		for _, ev := range f[3:] {
			h.out = h.out[:0]
			var nb [3]string
			var eb [3]bool
			for i := range h.cur {
				nb[i] = strconv.Itoa(i) + "." + strconv.Itoa(len(h.ids[i]))
				if s := h.cur[i]; s != nil {
					if v, ok := h.c.sessions.Load(h.c.makeSessionKeyV4(h.macs[i], 100, 0)); ok && v.(*SessionState) == s {
						eb[i] = true
					}
				}
			}
			a4, a6 := c03iAvail(h.reg, "allocators"), c03iAvail(h.reg, "ianaAllocators")
			if strings.HasPrefix(ev, "P:") {
				// P:<e1>&<e2>: e1 is held inside the dataplane add (if it gets there) until e2 has run completely
				pr := strings.SplitN(ev[2:], "&", 2)
				h.sb.reached, h.sb.gate = make(chan struct{}), make(chan struct{})
				h.mu.Lock()
				h.sb.armed = true
				h.mu.Unlock()
				doneA := make(chan interface{}, 1)
				go func() {
					defer func() { doneA <- recover() }()
					h.step(pr[0])
				}()
				held := false
				var pa interface{}
				finished := false
				select {
				case <-h.sb.reached:
					held = true
				case pa = <-doneA:
					finished = true
				case <-time.After(5 * time.Second):
					panic("overlap: first handler neither reached the dataplane add nor returned")
				}
				// the gate holds at most the first handler: if that one returned without reaching the dataplane add
				// (reject, unknown session) nothing is held and the second event runs after it
				h.mu.Lock()
				h.sb.armed = false
				h.mu.Unlock()
				h.step(pr[1])
				if held {
					close(h.sb.gate)
				}
				if !finished {
					select {
					case pa = <-doneA:
					case <-time.After(5 * time.Second):
						panic("overlap: first handler did not return after the gate was opened")
					}
				}
				if pa != nil {
					panic(pa)
				}
				h.monStep(pr[0], nb, eb, a4, a6, false)
				h.monStep(pr[1], nb, eb, a4, a6, true)
			} else {
				h.step(ev)
				h.monStep(ev, nb, eb, a4, a6, true)
			}
			o := append([]string(nil), h.out...)
			sort.Strings(o)
			// the accept runs the pending v4 and v6 packets in two goroutines: whether the v6 side already sees the
			// v4 binding (and publishes a second Active lifecycle) depends on the schedule - count lifeA once per step
			dd := o[:0]
			for k, t := range o {
				if k > 0 && t == o[k-1] && strings.HasSuffix(t, "lifeA") {
					continue
				}
				dd = append(dd, t)
			}
			o = dd
			steps = append(steps, strings.Join(o, ",")+"|"+h.status())
		}
		mon := "ok"
		if h.viol != "" {
			mon = h.viol
		}
		done <- strings.Join(append(steps, "MON:"+mon), " ; ")
	}()
	select {
	case r := <-done:
		return r
	case <-time.After(10 * time.Second):
		return "hang"
	}
}

func TestVerifC03IPoE(t *testing.T) {
	in, err := os.Open(os.Getenv("VERIF_CASES"))
	if err != nil {
		t.Fatal(err)
	}
	defer in.Close()
	out, err := os.Create(os.Getenv("VERIF_OUT"))
	if err != nil {
		t.Fatal(err)
	}
	defer out.Close()
	w := bufio.NewWriter(out)
	defer w.Flush()
	sc := bufio.NewScanner(in)
	sc.Buffer(make([]byte, 1<<20), 1<<26)
	for sc.Scan() {
		line := sc.Text()
		if strings.TrimSpace(line) == "" {
			continue
		}
		fmt.Fprintln(w, c03iRunCase(line))
	}
}
