//go:build verif

package pppoe

// C03 correspondence harness, stage 1: the PPPoE per-session gate.
//
// Exercised for real: Component.handlePacket -> handleDiscovery/handlePADR/handlePADT,
// handleSession -> SessionState.handlePPP -> internal/ppp Dispatcher.HandleFrame -> pkg/ppp FSMs
// (LCP, IPCP, IPv6CP) with their callbacks into session.go (onLCPUp/onLCPDown/startAuth/
// handlePAPPacket/handleCHAPPacket/publishAAARequest/onAuthResult/startNCP/checkOpen/terminate),
// Component.handleAAAResponse, handleDeadPeer, onVPPSessionCreated, the real allocator registry.
// Faked: event bus (captures egress, AAA requests, lifecycle), southbound (queues the async add,
// logs the delete), config manager, timers (FSM restart timers and the CHAP retry timer are fired
// by the harness through FSM.Timeout()/handleCHAPTimeout(); real ones never fire: every session is
// terminated at the end of its case).

import (
	"bufio"
	"encoding/binary"
	"fmt"
	"net"
	"os"
	"reflect"
	"strconv"
	"strings"
	"sync"
	"testing"
	"time"
	"unsafe"

	"github.com/google/gopacket"
	"github.com/google/gopacket/layers"
	"github.com/google/uuid"
	"github.com/rs/zerolog"
	pkgaaa "github.com/veesix-networks/osvbng/pkg/aaa"
	"github.com/veesix-networks/osvbng/pkg/allocator"
	"github.com/veesix-networks/osvbng/pkg/component"
	"github.com/veesix-networks/osvbng/pkg/config"
	"github.com/veesix-networks/osvbng/pkg/config/ip"
	"github.com/veesix-networks/osvbng/pkg/config/subscriber"
	"github.com/veesix-networks/osvbng/pkg/dataplane"
	"github.com/veesix-networks/osvbng/pkg/dhcp6"
	"github.com/veesix-networks/osvbng/pkg/events"
	"github.com/veesix-networks/osvbng/pkg/ifmgr"
	"github.com/veesix-networks/osvbng/pkg/logger"
	"github.com/veesix-networks/osvbng/pkg/models"
	"github.com/veesix-networks/osvbng/pkg/ppp"
	pkgpppoe "github.com/veesix-networks/osvbng/pkg/pppoe"
	"github.com/veesix-networks/osvbng/pkg/southbound"
	"github.com/veesix-networks/osvbng/pkg/svcgroup"
	local6 "github.com/veesix-networks/osvbng/plugins/dhcp6/local"
)

type c03Sub struct{}

func (c03Sub) Unsubscribe() {}

type c03Bus struct {
	h    *c03Harness
	dead bool
}

func (b *c03Bus) Subscribe(string, events.Handler) events.Subscription { return c03Sub{} }
func (b *c03Bus) SubscribeAll(events.Handler) events.Subscription      { return c03Sub{} }
func (b *c03Bus) Stats() events.Stats                                  { return events.Stats{} }
func (b *c03Bus) SetDebugTopics([]string)                              {}
func (b *c03Bus) DebugTopics() []string                                { return nil }
func (b *c03Bus) Close() error                                         { return nil }

func (b *c03Bus) Publish(topic string, ev events.Event) {
	if b.dead {
		return
	}
	h := b.h
	switch topic {
	case events.TopicEgress:
		eg, ok := ev.Data.(*events.EgressEvent)
		if !ok {
			h.emit("?", "egress?")
			return
		}
		h.onEgress(eg)
	case events.TopicAAARequest:
		rq, ok := ev.Data.(*events.AAARequestEvent)
		if !ok {
			return
		}
		h.reqIDs = append(h.reqIDs, rq.Request.RequestID)
		h.emit(h.sessByUUID(rq.SessionID), "Q"+strconv.Itoa(len(h.reqIDs)))
	case events.TopicSessionLifecycle:
		lc, ok := ev.Data.(*events.SessionLifecycleEvent)
		if !ok {
			return
		}
		st := "?"
		switch lc.State {
		case models.SessionStateActive:
			st = "A"
		case models.SessionStateReleased:
			st = "R"
		}
		h.emit(h.sessByUUID(lc.SessionID), "life"+st)
	case events.TopicSessionProgrammed:
		lc, ok := ev.Data.(*events.SessionLifecycleEvent)
		if ok {
			h.emit(h.sessByUUID(lc.SessionID), "prog")
		}
	default:
		h.emit("?", "topic:"+topic)
	}
}

// c03LogHook sees the component's debug log.  handleAAAResponse logs "Received AAA response" after it has found the
// session by its pending request id and before it takes the session lock: that line tells the harness that the
// answer has been matched and is now waiting for the lock the harness holds (forced overlap, see step "R:").
// With [park] set the goroutine that logs the line is held inside the log call until the harness closes the channel
// (step "S:"): the answer is then matched but has not asked for the session lock yet.
type c03LogHook struct {
	mu      sync.Mutex
	armed   bool
	reached chan struct{}
	park    chan struct{}
}

func (w *c03LogHook) Write(p []byte) (int, error) {
	if strings.Contains(string(p), "Received AAA response") {
		var park chan struct{}
		w.mu.Lock()
		if w.armed {
			w.armed = false
			park = w.park
			close(w.reached)
		}
		w.mu.Unlock()
		if park != nil {
			<-park
		}
	}
	return len(p), nil
}

func c03HookedLogger(w *c03LogHook) *logger.Logger {
	l := logger.NewTest()
	f := reflect.ValueOf(l).Elem().FieldByName("zl")
	reflect.NewAt(f.Type(), unsafe.Pointer(f.UnsafeAddr())).Elem().Set(reflect.ValueOf(zerolog.New(w)))
	logger.SetComponentLevel("test", logger.LogLevelDebug)
	return l
}

type c03CfgMgr struct{ cfg *config.Config }

func (f *c03CfgMgr) GetRunning() (*config.Config, error) { return f.cfg, nil }
func (f *c03CfgMgr) GetStartup() (*config.Config, error) { return f.cfg, nil }
func (f *c03CfgMgr) LookupSubscriberGroup(svlan, cvlan uint16) (subscriber.GroupMatch, bool) {
	var groups *subscriber.SubscriberGroupsConfig
	if f.cfg != nil {
		groups = f.cfg.SubscriberGroups
	}
	return subscriber.BuildMatchIndex(groups).Lookup(svlan, cvlan)
}

type c03PendingAdd struct {
	sid uint16
	cb  func(uint32, error)
}

// c03SB embeds the (nil) interface: any southbound call the harness does not know panics and is
// reported as such for the case.
type c03SB struct {
	southbound.Southbound
	h       *c03Harness
	pending []c03PendingAdd
	nextIf  uint32
}

func (s *c03SB) AddPPPoESessionAsync(sessionID uint16, clientIP net.IP, clientMAC net.HardwareAddr, localMAC net.HardwareAddr, encapIfIndex uint32, outerVLAN uint16, innerVLAN uint16, decapVrfID uint32, pppMTU uint16, policy southbound.MSSClampPolicy, callback func(uint32, error)) {
	s.h.emit(s.h.sessBySID(sessionID), "sbadd")
	s.pending = append(s.pending, c03PendingAdd{sessionID, callback})
}

func (s *c03SB) DeletePPPoESessionAsync(sessionID uint16, clientIP net.IP, clientMAC net.HardwareAddr, callback func(error)) {
	s.h.emit(s.h.sessBySID(sessionID), "sbdel")
	callback(nil)
}

func (s *c03SB) PPPoESetSessionIPv6Async(swIfIndex uint32, clientIP net.IP, isAdd bool, callback func(error)) {
	// the binding is made by the DHCPv6 worker started for the frame the harness is delivering (sessions that are
	// not programmed yet all carry the punt interface index, so the index does not identify the session)
	s.h.emit(strconv.Itoa(s.h.curSlot), map[bool]string{true: "sb6+", false: "sb6-"}[isAdd])
	callback(nil)
}

func (s *c03SB) PPPoESetDelegatedPrefixAsync(swIfIndex uint32, prefix net.IPNet, nextHop net.IP, isAdd bool, callback func(error)) {
	s.h.emit(strconv.Itoa(s.h.curSlot), map[bool]string{true: "sbpd+", false: "sbpd-"}[isAdd])
	callback(nil)
}

type c03Harness struct {
	c     *Component
	bus   *c03Bus
	sb    *c03SB
	reg   *allocator.Registry
	out   []string
	macs  []net.HardwareAddr
	sess  []*SessionState // by harness index; nil until opened (keeps the last incarnation)
	reqIDs []string
	lastReq map[string]uint8 // "<idx>:<proto>" -> id of the last Configure-Request sent
	// the property monitor, evaluated on the implementation's own observable trace
	monCur  [3]int
	monOK   [3]bool
	monViol string
	hook    *c03LogHook
	curSlot int
}

func c03Service(tok string) bool {
	if tok == "RA" || tok == "NA" || tok == "lifeA" || tok == "sbadd" || tok == "ADV6" || tok == "REPLY6" || tok == "sb6+" || tok == "sbpd+" {
		return true
	}
	return len(tok) >= 2 && (tok[0] == 'I' || tok[0] == 'V') && tok[1] >= '0' && tok[1] <= '9'
}

// monStep: ev is the input event, lcpBefore the LCP FSM states before it, outs the step's outputs (who+token).
func (h *c03Harness) monStep(ev string, lcpBefore [3]int, availBefore [3]int, liveBefore [3]*SessionState) {
	inputs := []string{ev}
	if strings.HasPrefix(ev, "R:") {
		inputs = []string{strings.SplitN(ev, "&", 2)[1]}
	} else if strings.HasPrefix(ev, "S:") {
		inputs = strings.SplitN(ev[2:], "&", 2)
	}
	// the slots whose handlers this step runs: the one the event addresses, or the one whose request an answer is for
	addressed := map[int]bool{}
	if strings.HasPrefix(ev, "R:") {
		i, _ := strconv.Atoi(strings.Split(ev[2:], ":")[0])
		addressed[i] = true
	}
	for _, in := range inputs {
		f := strings.Split(in, ":")
		switch f[0] {
		case "o", "x", "d":
			i, _ := strconv.Atoi(f[1])
			if i >= 0 && i < 3 {
				h.monCur[i], h.monOK[i] = 0, false
				addressed[i] = true
			}
		case "f", "t":
			i, _ := strconv.Atoi(f[1])
			addressed[i] = true
		case "a":
			k, _ := strconv.Atoi(f[1])
			for i := 0; i < 3; i++ {
				if h.monCur[i] != 0 && h.monCur[i] == k {
					addressed[i] = true
					if f[2] == "acc" || f[2] == "accip" {
						h.monOK[i] = true
					}
				}
			}
		}
	}
	for i, s := range h.sess {
		if s != nil && lcpBefore[i] == int(ppp.Opened) && s.lcp.FSM().State() != ppp.Opened {
			h.monCur[i], h.monOK[i] = 0, false // LCP left Opened during this step
		}
	}
	stepViol := -1
	viol := func(i int) {
		if stepViol < 0 || i < stepViol {
			stepViol = i
		}
	}
	defer func() {
		if h.monViol == "" && stepViol >= 0 {
			h.monViol = "VIOLATION@" + strconv.Itoa(stepViol)
		}
	}()
	for _, o := range h.out {
		if len(o) < 2 || o[0] < '0' || o[0] > '2' {
			continue
		}
		i := int(o[0] - '0')
		tok := o[1:]
		if tok[0] == 'Q' {
			k, _ := strconv.Atoi(tok[1:])
			h.monCur[i] = k
			continue
		}
		if c03Service(tok) && !h.monOK[i] {
			viol(i)
		}
	}
	// retained state: a session that is in the indexes but not in Network/Open (its link is unauthenticated) must not
	// hold a pool lease — lease and dataplane session belong to an authenticated link
	for i, s := range h.sess {
		if s == nil {
			continue
		}
		h.c.sessionMu.RLock()
		live := h.c.sidIndex[s.PPPoESessionID] == s
		h.c.sessionMu.RUnlock()
		s.mu.Lock()
		held := (s.allocatedPool != "" && s.IPv4Address != nil) || c03HeldV6(h.reg, s.SessionID) > 0
		net := s.Phase == ppp.PhaseNetwork || s.Phase == ppp.PhaseOpen
		s.mu.Unlock()
		if live && !net && held {
			viol(i)
		}
	}
	// an address or prefix leaving a pool is a service output of whoever caused it: the slot the event addressed or,
	// for an AAA response, the slot whose outstanding request it answers (it must then be authorised)
	// teardown: a session that left the indexes during this step holds nothing in the registry any more
	for i, s := range liveBefore {
		if s == nil {
			continue
		}
		h.c.sessionMu.RLock()
		live := h.c.sidIndex[s.PPPoESessionID] == s
		h.c.sessionMu.RUnlock()
		if !live && c03Held(h.reg, s.SessionID) > 0 {
			viol(i)
		}
	}
	if c03Less(c03Avail(h.reg), availBefore) {
		ok := false
		for i := 0; i < 3; i++ {
			if h.monOK[i] && addressed[i] {
				ok = true
			}
		}
		if !ok {
			viol(9)
		}
	}
}

func (h *c03Harness) emit(who, what string) { h.out = append(h.out, who+what) }

func (h *c03Harness) sessByUUID(id string) string {
	for i, s := range h.sess {
		if s != nil && s.SessionID == id {
			return strconv.Itoa(i)
		}
	}
	return "?"
}

func (h *c03Harness) sessBySID(sid uint16) string {
	for i, s := range h.sess {
		if s != nil && s.PPPoESessionID == sid {
			return strconv.Itoa(i)
		}
	}
	return "?"
}

func (h *c03Harness) sessByMAC(mac string) string {
	for i, m := range h.macs {
		if m.String() == mac {
			return strconv.Itoa(i)
		}
	}
	return "?"
}

// onEgress classifies an egress frame with gopacket-independent byte parsing of the PPPoE header.
func (h *c03Harness) onEgress(eg *events.EgressEvent) {
	raw := eg.Packet.RawData
	who := h.sessByMAC(eg.Packet.DstMAC)
	if len(raw) < 6 {
		h.emit(who, "short")
		return
	}
	code := raw[1]
	if eg.Protocol == models.ProtocolPPPoEDiscovery {
		switch layers.PPPoECode(code) {
		case layers.PPPoECodePADO:
			h.emit(who, "PADO")
		case layers.PPPoECodePADS:
			h.emit(who, "PADS")
		case layers.PPPoECodePADT:
			h.emit(who, "PADT")
		default:
			h.emit(who, fmt.Sprintf("disc%02x", code))
		}
		return
	}
	p := raw[6:]
	if len(p) < 2 {
		h.emit(who, "shortppp")
		return
	}
	proto := binary.BigEndian.Uint16(p[0:2])
	body := p[2:]
	tag := ""
	switch proto {
	case ppp.ProtoLCP:
		tag = "L"
	case ppp.ProtoPAP:
		tag = "P"
	case ppp.ProtoCHAP:
		tag = "C"
	case ppp.ProtoIPCP:
		tag = "I"
	case ppp.ProtoIPv6CP:
		tag = "V"
	case ppp.ProtoIPv6:
		pkt := gopacket.NewPacket(body, layers.LayerTypeIPv6, gopacket.Default)
		switch {
		case pkt.Layer(layers.LayerTypeICMPv6RouterAdvertisement) != nil:
			h.emit(who, "RA")
		case pkt.Layer(layers.LayerTypeICMPv6NeighborAdvertisement) != nil:
			h.emit(who, "NA")
		case len(body) > 48 && body[6] == 17 && binary.BigEndian.Uint16(body[42:44]) == 546:
			switch dhcp6.MessageType(body[48]) {
			case dhcp6.MsgTypeAdvertise:
				h.emit(who, "ADV6")
			case dhcp6.MsgTypeReply:
				h.emit(who, "REPLY6")
			default:
				h.emit(who, "dhcp6?")
			}
		default:
			h.emit(who, "ip6")
		}
		return
	default:
		h.emit(who, fmt.Sprintf("ppp%04x", proto))
		return
	}
	if len(body) < 4 {
		h.emit(who, tag+"short")
		return
	}
	if body[0] == ppp.ConfReq && (tag == "L" || tag == "I" || tag == "V") {
		h.lastReq[who+":"+tag] = body[1]
	}
	h.emit(who, tag+strconv.Itoa(int(body[0])))
}

// c03Avail: free IPv4 pool addresses, free IA_NA addresses, free delegated prefixes of the real registry.
func c03Avail(reg *allocator.Registry) [3]int {
	var r [3]int
	for k, field := range []string{"allocators", "ianaAllocators"} {
		f := reflect.ValueOf(reg).Elem().FieldByName(field)
		m := reflect.NewAt(f.Type(), unsafe.Pointer(f.UnsafeAddr())).Elem().Interface().(map[string]*allocator.PoolAllocator)
		for _, a := range m {
			r[k] += a.Available()
		}
	}
	f := reflect.ValueOf(reg).Elem().FieldByName("pdAllocators")
	m := reflect.NewAt(f.Type(), unsafe.Pointer(f.UnsafeAddr())).Elem().Interface().(map[string]*allocator.PrefixAllocator)
	for _, a := range m {
		ff := reflect.ValueOf(a).Elem().FieldByName("free")
		r[2] += ff.Len()
	}
	return r
}

func c03Less(a, b [3]int) bool { return a[0] < b[0] || a[1] < b[1] || a[2] < b[2] }

// c03Held counts the registry leases (IPv4, IA_NA, PD) recorded for a session id.
func c03Held(reg *allocator.Registry, sessID string) int {
	n := 0
	for _, field := range []string{"allocators", "ianaAllocators", "pdAllocators"} {
		f := reflect.ValueOf(reg).Elem().FieldByName(field)
		it := reflect.NewAt(f.Type(), unsafe.Pointer(f.UnsafeAddr())).Elem().MapRange()
		for it.Next() {
			lf := it.Value().Elem().FieldByName("leases")
			lt := reflect.NewAt(lf.Type(), unsafe.Pointer(lf.UnsafeAddr())).Elem().MapRange()
			for lt.Next() {
				if lt.Value().String() == sessID {
					n++
				}
			}
		}
	}
	return n
}

// c03HeldV6: IA_NA and PD leases only.
func c03HeldV6(reg *allocator.Registry, sessID string) int {
	n := 0
	for _, field := range []string{"ianaAllocators", "pdAllocators"} {
		f := reflect.ValueOf(reg).Elem().FieldByName(field)
		it := reflect.NewAt(f.Type(), unsafe.Pointer(f.UnsafeAddr())).Elem().MapRange()
		for it.Next() {
			lf := it.Value().Elem().FieldByName("leases")
			lt := reflect.NewAt(lf.Type(), unsafe.Pointer(lf.UnsafeAddr())).Elem().MapRange()
			for lt.Next() {
				if lt.Value().String() == sessID {
					n++
				}
			}
		}
	}
	return n
}

func c03NewHarness(poolSize, pool6, poolPD int) *c03Harness {
	v4 := map[string]*ip.IPv4Profile{
		"v4": {Gateway: "10.55.0.1", Pools: []ip.IPv4Pool{{Name: "p", Network: "10.55.0.0/24",
			RangeStart: "10.55.0.2", RangeEnd: "10.55.0." + strconv.Itoa(1+poolSize)}}},
	}
	if poolSize == 0 {
		v4["v4"].Pools[0].RangeStart = "10.55.0.1"
		v4["v4"].Pools[0].RangeEnd = "10.55.0.1" // only the (excluded) gateway
	}
	// the IPv6 profile: pool6 IA_NA addresses and poolPD (0 or a power of two) delegated /56 prefixes
	v6 := map[string]*ip.IPv6Profile{
		"v6": {IANAPools: []ip.IANAPool{{Name: "p6", Network: "2001:db8:55::/64", RangeStart: "2001:db8:55::10",
			RangeEnd: "2001:db8:55::" + strconv.FormatInt(int64(0x10+pool6-1), 16), Gateway: "2001:db8:55::1",
			PreferredTime: 3600, ValidTime: 7200}}},
	}
	if pool6 == 0 {
		v6["v6"].IANAPools[0].RangeStart, v6["v6"].IANAPools[0].RangeEnd = "2001:db8:55::1", "2001:db8:55::1"
	}
	if poolPD > 0 {
		bits := 0
		for (1 << bits) < poolPD {
			bits++
		}
		v6["v6"].PDPools = []ip.PDPool{{Name: "pd", Network: "2001:db8:5000::/" + strconv.Itoa(56-bits), PrefixLength: 56,
			PreferredTime: 3600, ValidTime: 7200}}
	}
	cfg := &config.Config{
		SubscriberGroups: &subscriber.SubscriberGroupsConfig{
			Groups: map[string]*subscriber.SubscriberGroup{
				"grp": {IPv4Profile: "v4", IPv6Profile: "v6", VLANs: []subscriber.VLANRange{{SVLAN: "100"}}},
			},
		},
		IPv4Profiles: v4,
		IPv6Profiles: v6,
	}
	ifMgr := ifmgr.New()
	ifMgr.Add(&ifmgr.Interface{SwIfIndex: 10, SupSwIfIndex: 2, Name: "TenGigE0/0.100", Type: ifmgr.IfTypeSub, OuterVlanID: 100})
	ifMgr.Add(&ifmgr.Interface{SwIfIndex: 2, Name: "TenGigE0/0", Type: ifmgr.IfTypeHardware, MAC: []byte{0x52, 0x54, 0x00, 0x11, 0x22, 0x33}})

	h := &c03Harness{lastReq: map[string]uint8{}, hook: &c03LogHook{}}
	h.bus = &c03Bus{h: h}
	h.sb = &c03SB{h: h, nextIf: 1000}
	h.reg = allocator.InitGlobalRegistry(v4, v6)
	p6, err := local6.New(cfg) // the real local DHCPv6 server; forwardDHCPv6 hands it what dhcp.ResolveV6 resolved
	if err != nil {
		panic(err)
	}
	ck, err := pkgpppoe.NewCookieManager(cookieTTL)
	if err != nil {
		panic(err)
	}
	h.c = &Component{
		Base:             component.NewBase("pppoe-c03"),
		logger:           c03HookedLogger(h.hook),
		eventBus:         h.bus,
		ifMgr:            ifMgr,
		cfgMgr:           &c03CfgMgr{cfg: cfg},
		vpp:              h.sb,
		svcGroupResolver: svcgroup.New(),
		acName:           defaultACName,
		cookieMgr:        ck,
		sessions:         make(map[string]*SessionState),
		sidIndex:         make(map[uint16]*SessionState),
		sessionIDIndex:   make(map[string]*SessionState),
		acctSessionIndex: make(map[string]*SessionState),
		usernameIndex:    make(map[string]*SessionState),
		ipv4Index:        make(map[string]*SessionState),
		ipv6Index:        make(map[string]*SessionState),
		raBuckets:        make(map[int][]string),
		raBucketCount:    16,
		dhcp6Providers:   map[string]dhcp6.DHCPProvider{"local": p6},
		dhcp6Sem:         make(chan struct{}, 16),
		registry:         h.reg,
		nextSessionID:    1,
	}
	h.c.SetReadyState(component.StateReady)
	h.macs = []net.HardwareAddr{{0xaa, 0, 0, 0, 0, 1}, {0xaa, 0, 0, 0, 0, 2}, {0xaa, 0, 0, 0, 0, 3}}
	h.sess = make([]*SessionState, len(h.macs))
	return h
}

func (h *c03Harness) open(i int) {
	mac := h.macs[i]
	cookie := h.c.cookieMgr.Generate(mac, 100, 0)
	tags := pkgpppoe.NewTagBuilder().AddServiceName("").AddACCookie(cookie).Build()
	pkt := &dataplane.ParsedPacket{
		Protocol: models.ProtocolPPPoEDiscovery, MAC: mac, OuterVLAN: 100, SwIfIndex: 10,
		PPPoE: &layers.PPPoE{Version: 1, Type: 1, Code: layers.PPPoECodePADR, BaseLayer: layers.BaseLayer{Payload: tags}},
	}
	old := h.c.sessions[h.c.sessionKey(mac, 100, 0)]
	delete(h.lastReq, strconv.Itoa(i)+":L")
	delete(h.lastReq, strconv.Itoa(i)+":I")
	delete(h.lastReq, strconv.Itoa(i)+":V")
	if err := h.c.handlePacket(pkt); err != nil {
		h.emit(strconv.Itoa(i), "openerr")
	}
	if s := h.c.sessions[h.c.sessionKey(mac, 100, 0)]; s != nil && s != old {
		h.sess[i] = s
	}
}

func c03Opt(t uint8, data ...byte) []byte { return append([]byte{t, uint8(2 + len(data))}, data...) }

func c03Ctl(code, id uint8, data []byte) []byte {
	b := make([]byte, 4+len(data))
	b[0], b[1] = code, id
	binary.BigEndian.PutUint16(b[2:4], uint16(4+len(data)))
	copy(b[4:], data)
	return b
}

// frame builds the PPP payload (after the protocol field) for an abstract frame kind.
func (h *c03Harness) frame(i int, proto, kind string) (uint16, []byte, bool) {
	s := h.sess[i]
	who := strconv.Itoa(i)
	okID := func(tag string) uint8 { return h.lastReq[who+":"+tag] }
	ncp := func(tag string, pnum uint16, creqOK, creqNak, creqRej []byte) (uint16, []byte, bool) {
		switch kind {
		case "creq_ok":
			return pnum, c03Ctl(ppp.ConfReq, 7, creqOK), true
		case "creq_nak":
			return pnum, c03Ctl(ppp.ConfReq, 8, creqNak), true
		case "creq_rej":
			return pnum, c03Ctl(ppp.ConfReq, 9, creqRej), true
		case "creq_bad":
			return pnum, c03Ctl(ppp.ConfReq, 10, []byte{1, 1, 0}), true
		case "cack":
			return pnum, c03Ctl(ppp.ConfAck, okID(tag), nil), true
		case "cack_bad":
			return pnum, c03Ctl(ppp.ConfAck, okID(tag)+1, nil), true
		case "cnak":
			return pnum, c03Ctl(ppp.ConfNak, okID(tag), nil), true
		case "cnak_bad":
			return pnum, c03Ctl(ppp.ConfNak, okID(tag)+1, nil), true
		case "crej":
			return pnum, c03Ctl(ppp.ConfRej, okID(tag), nil), true
		case "crej_bad":
			return pnum, c03Ctl(ppp.ConfRej, okID(tag)+1, nil), true
		case "treq":
			return pnum, c03Ctl(ppp.TermReq, 33, nil), true
		case "tack":
			return pnum, c03Ctl(ppp.TermAck, 34, nil), true
		case "cdrej":
			return pnum, c03Ctl(ppp.CodeRej, 35, []byte{1, 2, 0, 4}), true
		case "unkcode":
			return pnum, c03Ctl(0x2a, 36, []byte{1, 2}), true
		}
		return 0, nil, false
	}
	switch proto {
	case "lcp":
		switch kind {
		case "echoreq":
			return ppp.ProtoLCP, c03Ctl(ppp.EchoReq, 40, []byte{0, 0, 0, 0, 9}), true
		case "echorep":
			return ppp.ProtoLCP, c03Ctl(ppp.EchoRep, 41, []byte{0, 0, 0, 0}), true
		case "discreq":
			return ppp.ProtoLCP, c03Ctl(ppp.DiscReq, 42, []byte{0, 0, 0, 0}), true
		case "prej_ipcp":
			return ppp.ProtoLCP, c03Ctl(ppp.ProtoRej, 43, []byte{0x80, 0x21, 1, 1, 0, 4}), true
		case "prej_ip6cp":
			return ppp.ProtoLCP, c03Ctl(ppp.ProtoRej, 44, []byte{0x80, 0x57, 1, 1, 0, 4}), true
		case "prej_other":
			return ppp.ProtoLCP, c03Ctl(ppp.ProtoRej, 45, []byte{0x80, 0xfd}), true
		case "crej_auth": // the client refuses the Authentication-Protocol option
			return ppp.ProtoLCP, c03Ctl(ppp.ConfRej, okID("L"), c03Opt(ppp.LCPOptAuthProto, 0xc2, 0x23, 5)), true
		case "cnak_pap": // the client asks for PAP instead of CHAP
			return ppp.ProtoLCP, c03Ctl(ppp.ConfNak, okID("L"), c03Opt(ppp.LCPOptAuthProto, 0xc0, 0x23)), true
		case "cnak_zero": // boundary: the peer suggests Authentication-Protocol 0x0000
			return ppp.ProtoLCP, c03Ctl(ppp.ConfNak, okID("L"), c03Opt(ppp.LCPOptAuthProto, 0, 0)), true
		case "cnak_eap": // a protocol the BNG does not implement (EAP, 0xc227)
			return ppp.ProtoLCP, c03Ctl(ppp.ConfNak, okID("L"), c03Opt(ppp.LCPOptAuthProto, 0xc2, 0x27)), true
		case "cnak_short": // Authentication-Protocol option with a one-byte value (ignored by ProcessConfNak)
			return ppp.ProtoLCP, c03Ctl(ppp.ConfNak, okID("L"), c03Opt(ppp.LCPOptAuthProto, 0)), true
		case "crej_all": // the peer rejects MRU, magic and the authentication option together
			return ppp.ProtoLCP, c03Ctl(ppp.ConfRej, okID("L"), append(append(c03Opt(ppp.LCPOptMRU, 5, 0xd4), c03Opt(ppp.LCPOptMagic, 0, 0, 0, 0)...), c03Opt(ppp.LCPOptAuthProto, 0xc2, 0x23, 5)...)), true
		case "cnak_chap":
			return ppp.ProtoLCP, c03Ctl(ppp.ConfNak, okID("L"), c03Opt(ppp.LCPOptAuthProto, 0xc2, 0x23, 5)), true
		}
		return ncp("L", ppp.ProtoLCP, nil, c03Opt(ppp.LCPOptMRU, 0, 10), c03Opt(ppp.LCPOptPFC))
	case "ipcp":
		addr := net.IPv4(10, 9, 9, 9).To4()
		if s != nil && s.ipcp != nil {
			if pa := s.ipcp.PeerConfig().PeerAddress; pa != nil && pa.To4() != nil {
				addr = pa.To4()
			}
		}
		return ncp("I", ppp.ProtoIPCP, c03Opt(ppp.IPCPOptAddress, addr...), c03Opt(ppp.IPCPOptAddress, 0, 0, 0, 0), c03Opt(ppp.IPCPOptCompression, 0, 0x2d))
	case "ip6cp":
		return ncp("V", ppp.ProtoIPv6CP, c03Opt(ppp.IPv6CPOptInterfaceID, 1, 2, 3, 4, 5, 6, 7, 8), c03Opt(ppp.IPv6CPOptInterfaceID, 0, 0, 0, 0, 0, 0, 0, 0), c03Opt(9, 1))
	case "pap":
		switch kind {
		case "req":
			return ppp.ProtoPAP, c03Ctl(ppp.PAPAuthReq, 50, []byte{1, 'u', 1, 'p'}), true
		case "req_bad":
			return ppp.ProtoPAP, c03Ctl(ppp.PAPAuthReq, 51, []byte{9, 'u'}), true
		case "other":
			return ppp.ProtoPAP, c03Ctl(ppp.PAPAuthAck, 52, []byte{0}), true
		}
	case "chap":
		switch kind {
		case "resp":
			return ppp.ProtoCHAP, c03Ctl(ppp.CHAPResponse, 60, append(append([]byte{16}, make([]byte, 16)...), 'u')), true
		case "resp_bad":
			return ppp.ProtoCHAP, c03Ctl(ppp.CHAPResponse, 61, []byte{16, 1, 2}), true
		case "other":
			return ppp.ProtoCHAP, c03Ctl(ppp.CHAPSuccess, 62, []byte{'x'}), true
		}
	case "ip6":
		cli := net.ParseIP("fe80::1111")
		switch kind {
		case "rs":
			return ppp.ProtoIPv6, c03ICMP6(cli, net.ParseIP("ff02::2"), layers.ICMPv6TypeRouterSolicitation, []byte{0, 0, 0, 0}), true
		case "ns":
			bng := net.ParseIP("fe80::5054:ff:fe11:2233")
			body := append([]byte{0, 0, 0, 0}, bng.To16()...)
			return ppp.ProtoIPv6, c03ICMP6(cli, bng, layers.ICMPv6TypeNeighborSolicitation, body), true
		case "junk":
			return ppp.ProtoIPv6, []byte{0x60, 0, 0}, true
		case "dh_sol", "dh_req":
			mt := byte(dhcp6.MsgTypeSolicit)
			if kind == "dh_req" {
				mt = byte(dhcp6.MsgTypeRequest)
			}
			d := []byte{mt, 0, 0, byte(i + 1), 0, 1, 0, 10, 0, 3, 0, 1, 0xaa, 0, 0, 0, 0, byte(i + 1),
				0, 3, 0, 12, 0, 0, 0, 1, 0, 0, 0, 0, 0, 0, 0, 0,
				0, 25, 0, 12, 0, 0, 0, 2, 0, 0, 0, 0, 0, 0, 0, 0} // client id, IA_NA, IA_PD
			return ppp.ProtoIPv6, c03UDP6(cli, net.ParseIP("ff02::1:2"), 546, 547, d), true
		}
	case "unk":
		switch kind {
		case "ip4":
			return ppp.ProtoIP, []byte{0x45, 0, 0, 20, 0, 0, 0, 0, 64, 17, 0, 0, 10, 0, 0, 1, 10, 0, 0, 2}, true
		case "ccp":
			return 0x80fd, c03Ctl(ppp.ConfReq, 70, nil), true
		case "short":
			return 0x80fd, []byte{1}, true
		}
	}
	return 0, nil, false
}

func c03UDP6(src, dst net.IP, sport, dport uint16, payload []byte) []byte {
	ip6 := &layers.IPv6{Version: 6, NextHeader: layers.IPProtocolUDP, HopLimit: 64, SrcIP: src, DstIP: dst}
	udp := &layers.UDP{SrcPort: layers.UDPPort(sport), DstPort: layers.UDPPort(dport)}
	udp.SetNetworkLayerForChecksum(ip6)
	buf := gopacket.NewSerializeBuffer()
	if err := gopacket.SerializeLayers(buf, gopacket.SerializeOptions{FixLengths: true, ComputeChecksums: true}, ip6, udp, gopacket.Payload(payload)); err != nil {
		panic(err)
	}
	return buf.Bytes()
}

func c03ICMP6(src, dst net.IP, typ uint8, body []byte) []byte {
	ip6 := &layers.IPv6{Version: 6, NextHeader: layers.IPProtocolICMPv6, HopLimit: 255, SrcIP: src, DstIP: dst}
	icmp := &layers.ICMPv6{TypeCode: layers.CreateICMPv6TypeCode(typ, 0)}
	icmp.SetNetworkLayerForChecksum(ip6)
	buf := gopacket.NewSerializeBuffer()
	if err := gopacket.SerializeLayers(buf, gopacket.SerializeOptions{FixLengths: true, ComputeChecksums: true}, ip6, icmp, gopacket.Payload(body)); err != nil {
		panic(err)
	}
	return buf.Bytes()
}

func (h *c03Harness) sendFrame(i int, proto, kind string) {
	s := h.sess[i]
	if s == nil {
		return
	}
	pnum, payload, ok := h.frame(i, proto, kind)
	if !ok {
		h.emit(strconv.Itoa(i), "badframe:"+proto+":"+kind)
		return
	}
	h.curSlot = i
	pkt := &dataplane.ParsedPacket{
		Protocol: models.ProtocolPPPoESession, MAC: h.macs[i], OuterVLAN: 100, SwIfIndex: 10,
		PPPoE: &layers.PPPoE{Version: 1, Type: 1, Code: layers.PPPoECodeSession, SessionId: s.PPPoESessionID},
		PPP:   &layers.PPP{PPPType: layers.PPPType(pnum), BaseLayer: layers.BaseLayer{Payload: payload}},
	}
	_ = h.c.handlePacket(pkt) // errors (short frame etc.) are only logged by the real receive loop
	h.waitWorkers()
}

// waitWorkers: DHCPv6 over PPP is answered by a worker started with Base.Go off the session lock; the harness starts
// nothing else with Base.Go, so waiting for the component's wait group is waiting for exactly that worker.
func (h *c03Harness) waitWorkers() {
	f := reflect.ValueOf(h.c.Base).Elem().FieldByName("wg")
	(*sync.WaitGroup)(unsafe.Pointer(f.UnsafeAddr())).Wait()
}

// raced: the frame is processed by the receive path (which owns the session lock, as handlePPP does) while the AAA
// answer has already been matched to the session by its pending request id and waits for that lock.
func (h *c03Harness) raced(i int, proto, kind string, k int, akind string) {
	s := h.sess[i]
	if s == nil {
		h.aaa(k, akind)
		return
	}
	pnum, payload, ok := h.frame(i, proto, kind)
	if !ok {
		h.emit(strconv.Itoa(i), "badframe:"+proto+":"+kind)
		return
	}
	h.curSlot = i
	h.c.sessionMu.RLock()
	live := h.c.sidIndex[s.PPPoESessionID] == s
	h.c.sessionMu.RUnlock()
	s.mu.Lock() // handlePPP: s.mu.Lock(); defer s.mu.Unlock(); dispatcher.HandleFrame
	h.hook.mu.Lock()
	h.hook.armed, h.hook.reached, h.hook.park = true, make(chan struct{}), nil
	reached := h.hook.reached
	h.hook.mu.Unlock()
	done := make(chan interface{}, 1)
	go func() {
		defer func() { done <- recover() }()
		h.aaa(k, akind)
	}()
	finished := false
	var pa interface{}
	select {
	case <-reached: // matched, now blocked on s.mu
	case pa = <-done: // no session matched: the answer was dropped before touching the session
		finished = true
	case <-time.After(2 * time.Second):
		h.emit("?", "nohook") // the log line the hook keys on is gone: make it visible instead of silently serialising
	}
	h.hook.mu.Lock()
	h.hook.armed = false
	h.hook.mu.Unlock()
	if live {
		_ = s.dispatcher.HandleFrame(pnum, payload)
	}
	ended := false
	if f := reflect.ValueOf(s).Elem().FieldByName("linkEnded"); f.IsValid() {
		p := (*bool)(unsafe.Pointer(f.UnsafeAddr()))
		ended, *p = *p, false
	}
	s.mu.Unlock()
	if ended { // what handleSession does after handlePPP returned
		h.c.handleDeadPeer(s.PPPoESessionID)
	}
	if !finished {
		select {
		case pa = <-done:
		case <-time.After(5 * time.Second):
			panic("raced: handleAAAResponse did not return")
		}
	}
	if pa != nil {
		panic(pa)
	}
	h.waitWorkers()
}

// parked: the AAA answer has been matched to its session by the pending request id (handleAAAResponse has left the
// component lock and logged the match) and is held there, before it asks for the session lock, while another event
// — PADT, dead peer, a timer, a frame, a new PADR — is handled completely through the normal entry points.
func (h *c03Harness) parked(ev string, k int, akind string) {
	h.hook.mu.Lock()
	h.hook.armed, h.hook.reached, h.hook.park = true, make(chan struct{}), make(chan struct{})
	reached, park := h.hook.reached, h.hook.park
	h.hook.mu.Unlock()
	done := make(chan interface{}, 1)
	go func() {
		defer func() { done <- recover() }()
		h.aaa(k, akind)
	}()
	finished := false
	var pa interface{}
	select {
	case <-reached:
	case pa = <-done: // no session matched: the answer was dropped before touching any session
		finished = true
	case <-time.After(2 * time.Second):
		h.emit("?", "nohook") // the log line the hook keys on is gone: make it visible instead of silently serialising
	}
	h.hook.mu.Lock()
	h.hook.armed, h.hook.park = false, nil
	h.hook.mu.Unlock()
	h.step(ev)
	close(park)
	if !finished {
		select {
		case pa = <-done:
		case <-time.After(5 * time.Second):
			panic("parked: handleAAAResponse did not return")
		}
	}
	if pa != nil {
		panic(pa)
	}
	h.waitWorkers()
}

func (h *c03Harness) aaa(k int, kind string) {
	id := ""
	switch {
	case k == 0:
		id = ""
	case k >= 1 && k <= len(h.reqIDs):
		id = h.reqIDs[k-1]
	default:
		id = uuid.New().String()
	}
	resp := models.AAAResponse{RequestID: id}
	switch kind {
	case "acc":
		resp.Allowed = true
		resp.Attributes = map[string]interface{}{}
	case "accip":
		resp.Allowed = true
		resp.Attributes = map[string]interface{}{pkgaaa.AttrIPv4Address: "10.77.0.9"}
	case "rej":
		resp.Allowed = false
	case "err":
		resp.Allowed = false
		resp.Error = "all RADIUS servers failed"
	}
	h.c.handleAAAResponse(events.Event{Data: &events.AAAResponseEvent{AccessType: models.AccessTypePPPoE, SessionID: "ignored", Response: resp}})
}

func c03PhaseName(p ppp.Phase) string {
	switch p {
	case ppp.PhaseDead:
		return "D"
	case ppp.PhaseEstablish:
		return "E"
	case ppp.PhaseAuthenticate:
		return "A"
	case ppp.PhaseNetwork:
		return "N"
	case ppp.PhaseOpen:
		return "O"
	case ppp.PhaseTerminate:
		return "T"
	}
	return "X" + strconv.Itoa(int(p))
}

func (h *c03Harness) status() string {
	var parts []string
	for i, s := range h.sess {
		if s == nil {
			parts = append(parts, "-")
			continue
		}
		s.mu.Lock()
		live := h.c.sidIndex[s.PPPoESessionID] == s
		pend := "n"
		if s.pendingAuthRequestID != "" {
			pend = "?"
			for k, id := range h.reqIDs {
				if id == s.pendingAuthRequestID {
					pend = strconv.Itoa(k + 1)
				}
			}
		}
		l := "d"
		if live {
			l = "l"
		}
		parts = append(parts, fmt.Sprintf("%s%s%d.%d.%d.%s", l, c03PhaseName(s.Phase), s.lcp.FSM().State(), s.ipcp.FSM().State(), s.ipv6cp.FSM().State(), pend))
		s.mu.Unlock()
		_ = i
	}
	a := c03Avail(h.reg)
	return strings.Join(parts, ",") + "|" + strconv.Itoa(a[0]) + "/" + strconv.Itoa(a[1]) + "/" + strconv.Itoa(a[2])
}

func (h *c03Harness) step(ev string) {
	f := strings.Split(ev, ":")
	idx := func(s string) int { n, _ := strconv.Atoi(s); return n }
	switch f[0] {
	case "o":
		h.open(idx(f[1]))
	case "f":
		h.sendFrame(idx(f[1]), f[2], f[3])
	case "a":
		h.aaa(idx(f[1]), f[2])
	case "R": // R:<i>:<proto>:<kind>&a:<k>:<akind>
		ab := strings.SplitN(ev[2:], "&", 2)
		fa := strings.Split(ab[0], ":")
		fb := strings.Split(ab[1], ":")
		h.raced(idx(fa[0]), fa[1], fa[2], idx(fb[1]), fb[2])
	case "g", "y": // g:<i>:<kind>:<proto>:<frame> / y:<i>:<kind> — a session frame / a PADT that carries slot i's PPPoE
		// session id but comes from another subscriber: identity differing in exactly one component (c = C-VLAN,
		// s = S-VLAN, m0..m5 = that MAC byte).  RFC 2516: not this session's peer - it must change nothing.
		i := idx(f[1])
		s := h.sess[i]
		if s == nil {
			return
		}
		mac := append(net.HardwareAddr(nil), h.macs[i]...)
		var sv, cv uint16 = 100, 0
		switch {
		case f[2] == "c":
			cv = 777
		case f[2] == "s":
			sv = 101
		default:
			mac[int(f[2][1]-'0')] ^= 0x40
		}
		h.curSlot = i
		if f[0] == "y" {
			_ = h.c.handlePacket(&dataplane.ParsedPacket{
				Protocol: models.ProtocolPPPoEDiscovery, MAC: mac, OuterVLAN: sv, InnerVLAN: cv, SwIfIndex: 10,
				PPPoE: &layers.PPPoE{Version: 1, Type: 1, Code: layers.PPPoECodePADT, SessionId: s.PPPoESessionID},
			})
			return
		}
		pnum, payload, ok := h.frame(i, f[3], f[4])
		if !ok {
			h.emit(strconv.Itoa(i), "badframe:"+f[3]+":"+f[4])
			return
		}
		_ = h.c.handlePacket(&dataplane.ParsedPacket{
			Protocol: models.ProtocolPPPoESession, MAC: mac, OuterVLAN: sv, InnerVLAN: cv, SwIfIndex: 10,
			PPPoE: &layers.PPPoE{Version: 1, Type: 1, Code: layers.PPPoECodeSession, SessionId: s.PPPoESessionID},
			PPP:   &layers.PPP{PPPType: layers.PPPType(pnum), BaseLayer: layers.BaseLayer{Payload: payload}},
		})
		h.waitWorkers()
	case "S": // S:<event>&a:<k>:<akind>
		ab := strings.SplitN(ev[2:], "&", 2)
		fb := strings.Split(ab[1], ":")
		h.parked(ab[0], idx(fb[1]), fb[2])
	case "t":
		s := h.sess[idx(f[1])]
		if s == nil {
			return
		}
		switch f[2] {
		case "lcp":
			s.lcp.FSM().Timeout()
		case "ipcp":
			s.ipcp.FSM().Timeout()
		case "ip6cp":
			s.ipv6cp.FSM().Timeout()
		case "chap":
			s.mu.Lock()
			s.handleCHAPTimeout()
			s.mu.Unlock()
		}
	case "x":
		s := h.sess[idx(f[1])]
		if s == nil {
			return
		}
		pkt := &dataplane.ParsedPacket{
			Protocol: models.ProtocolPPPoEDiscovery, MAC: h.macs[idx(f[1])], OuterVLAN: 100, SwIfIndex: 10,
			PPPoE: &layers.PPPoE{Version: 1, Type: 1, Code: layers.PPPoECodePADT, SessionId: s.PPPoESessionID},
		}
		_ = h.c.handlePacket(pkt)
	case "d":
		s := h.sess[idx(f[1])]
		if s == nil {
			return
		}
		h.c.handleDeadPeer(s.PPPoESessionID)
	case "v":
		if len(h.sb.pending) == 0 {
			return
		}
		p := h.sb.pending[0]
		h.sb.pending = h.sb.pending[1:]
		if f[1] == "ok" {
			h.sb.nextIf++
			p.cb(h.sb.nextIf, nil)
		} else {
			p.cb(0, fmt.Errorf("vpp: add failed"))
		}
	default:
		h.emit("?", "badev:"+ev)
	}
}

func (h *c03Harness) close() {
	h.bus.dead = true
	seen := map[*SessionState]bool{}
	var all []*SessionState
	for _, s := range h.c.sidIndex {
		if !seen[s] {
			seen[s] = true
			all = append(all, s)
		}
	}
	for _, s := range h.sess {
		if s != nil && !seen[s] {
			seen[s] = true
			all = append(all, s)
		}
	}
	for _, s := range all {
		s.terminate() // kills the FSM restart timers and the CHAP retry timer
		s.ipcp.FSM().Kill()
		s.ipv6cp.FSM().Kill()
	}
}

// case line: pppoe <poolsize> <ev> <ev> ...
func c03RunCase(line string) (res string) {
	f := strings.Fields(line)
	if len(f) < 2 || f[0] != "pppoe" {
		return "badcase"
	}
	// pool sizes: <ipv4> or <ipv4>/<ia_na>/<pd>
	pf := strings.Split(f[1], "/")
	ps, _ := strconv.Atoi(pf[0])
	p6n, ppd := 16, 16
	if len(pf) == 3 {
		p6n, _ = strconv.Atoi(pf[1])
		ppd, _ = strconv.Atoi(pf[2])
	}
	h := c03NewHarness(ps, p6n, ppd)
	defer h.close()
	var steps []string
	done := make(chan string, 1)
	go func() {
		defer func() {
			if r := recover(); r != nil {
				msg := fmt.Sprint(r)
				if len(msg) > 60 {
					msg = msg[:60]
				}
				done <- strings.Join(append(steps, "panic:"+strings.ReplaceAll(msg, " ", "_")), " ; ")
			}
		}()
		for _, ev := range f[2:] {
			h.out = h.out[:0]
			var lb [3]int
			for i, s := range h.sess {
				if s != nil {
					lb[i] = int(s.lcp.FSM().State())
				}
			}
			ab := c03Avail(h.reg)
			var lv [3]*SessionState
			h.c.sessionMu.RLock()
			for i, s := range h.sess {
				if s != nil && h.c.sidIndex[s.PPPoESessionID] == s {
					lv[i] = s
				}
			}
			h.c.sessionMu.RUnlock()
			h.step(ev)
			h.monStep(ev, lb, ab, lv)
			o := append([]string(nil), h.out...)
			steps = append(steps, strings.Join(o, ",")+"|"+h.status())
		}
		mon := "ok"
		if h.monViol != "" {
			mon = h.monViol
		}
		done <- strings.Join(append(steps, "MON:"+mon), " ; ")
	}()
	select {
	case r := <-done:
		return r
	case <-time.After(10 * time.Second):
		return "hang"
	}
}

// c03FSMFlavour reports which RFC 1661 table pkg/ppp/fsm.go implements in the cells that differ between the
// code as first checked ("cur") and the RFC ("rfc"); the gate property does not depend on them.
func c03FSMFlavour() string {
	probe := func(code uint8) ppp.State {
		l := ppp.NewLCP(ppp.Callbacks{})
		f := l.FSM()
		f.Up()
		f.Open()
		f.Input(ppp.ConfReq, 1, nil) // Ack-Sent
		f.Input(code, 0, nil)        // id 0 = lastReqID? no: lastReqID is 1; Nak with id 1 below
		st := f.State()
		f.Kill()
		return st
	}
	rta := probe(ppp.TermAck) // today Req-Sent, RFC Ack-Sent
	rtr := probe(ppp.TermReq) // today Ack-Sent, RFC Req-Sent
	l := ppp.NewLCP(ppp.Callbacks{})
	f := l.FSM()
	f.Up()
	f.Open()
	f.Input(ppp.ConfReq, 1, nil)
	f.Input(ppp.ConfNak, 1, nil) // RCN in Ack-Sent: today Req-Sent, RFC Ack-Sent
	rcn := f.State()
	f.Kill()
	switch {
	case rta == ppp.ReqSent && rtr == ppp.AckSent && rcn == ppp.ReqSent:
		return "cur"
	case rta == ppp.AckSent && rtr == ppp.ReqSent && rcn == ppp.AckSent:
		return "rfc"
	}
	return fmt.Sprintf("mixed%d%d%d", rta, rtr, rcn)
}

func TestVerifC03PPPoE(t *testing.T) {
	flav := c03FSMFlavour()
	in, err := os.Open(os.Getenv("VERIF_CASES"))
	if err != nil {
		t.Fatal(err)
	}
	defer in.Close()
	out, err := os.Create(os.Getenv("VERIF_OUT"))
	if err != nil {
		t.Fatal(err)
	}
	defer out.Close()
	w := bufio.NewWriter(out)
	defer w.Flush()
	sc := bufio.NewScanner(in)
	sc.Buffer(make([]byte, 1<<20), 1<<26)
	for sc.Scan() {
		line := sc.Text()
		if strings.TrimSpace(line) == "" {
			continue
		}
		fmt.Fprintln(w, "fsm="+flav+" ; "+c03RunCase(line))
	}
}
