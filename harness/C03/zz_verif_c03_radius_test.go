//go:build verif

package radius

// C03 correspondence harness, stage 3: the username-fallback gate and the AAA verdict mapping.
//
// Real: Provider.Authenticate (request building, failover loop, transport with reply verification) behind the real
// internal/aaa Component.handleAAARequest/publishResponse (reached through the handler it subscribes on the bus).
// Fake: a RADIUS server on 127.0.0.1 answering Accept / Reject / another code / nothing with correct authenticators,
// and the event bus.  Case: radius <fallback 0|1> <accept|reject|other|none> <ipoe|pppoe|l2tp>  ->  <topic> <allowed> <err 0|1>

import (
	"bufio"
	"context"
	"fmt"
	"net"
	"os"
	"strings"
	"sync"
	"testing"
	"time"

	internalaaa "github.com/veesix-networks/osvbng/internal/aaa"
	"github.com/veesix-networks/osvbng/pkg/component"
	"github.com/veesix-networks/osvbng/pkg/events"
	"github.com/veesix-networks/osvbng/pkg/logger"
	"github.com/veesix-networks/osvbng/pkg/models"
	"github.com/veesix-networks/osvbng/pkg/netbind"
	lradius "layeh.com/radius"
)

type c03rSub struct{}

func (c03rSub) Unsubscribe() {}

type c03rBus struct {
	mu       sync.Mutex
	handlers map[string]events.Handler
	last     string
}

func (b *c03rBus) Subscribe(topic string, h events.Handler) events.Subscription {
	b.mu.Lock()
	b.handlers[topic] = h
	b.mu.Unlock()
	return c03rSub{}
}
func (b *c03rBus) SubscribeAll(events.Handler) events.Subscription { return c03rSub{} }
func (b *c03rBus) Stats() events.Stats                             { return events.Stats{} }
func (b *c03rBus) SetDebugTopics([]string)                         {}
func (b *c03rBus) DebugTopics() []string                           { return nil }
func (b *c03rBus) Close() error                                    { return nil }
func (b *c03rBus) Publish(topic string, ev events.Event) {
	if r, ok := ev.Data.(*events.AAAResponseEvent); ok {
		e := "0"
		if r.Response.Error != "" {
			e = "1"
		}
		a := "deny"
		if r.Response.Allowed {
			a = "allow"
		}
		b.mu.Lock()
		b.last = topic + " " + a + " " + e + " req=" + r.Response.RequestID + " sess=" + r.SessionID
		b.mu.Unlock()
	}
}

// c03rServer answers every Access-Request according to mode.
func c03rServer(t *testing.T, secret []byte, mode *string, seen *int) (int, func()) {
	pc, err := net.ListenUDP("udp4", &net.UDPAddr{IP: net.IPv4(127, 0, 0, 1)})
	if err != nil {
		t.Fatal(err)
	}
	go func() {
		buf := make([]byte, 4096)
		for {
			n, addr, err := pc.ReadFromUDP(buf)
			if err != nil {
				return
			}
			req, err := lradius.Parse(append([]byte(nil), buf[:n]...), secret)
			if err != nil {
				continue
			}
			*seen++
			var code lradius.Code
			switch *mode {
			case "accept":
				code = lradius.CodeAccessAccept
			case "reject":
				code = lradius.CodeAccessReject
			case "other":
				code = lradius.CodeAccessChallenge
			default:
				continue // no answer
			}
			resp := req.Response(code)
			raw, err := resp.Encode()
			if err != nil {
				continue
			}
			_, _ = pc.WriteToUDP(raw, addr)
		}
	}()
	return pc.LocalAddr().(*net.UDPAddr).Port, func() { pc.Close() }
}

func TestVerifC03Radius(t *testing.T) {
	in, err := os.Open(os.Getenv("VERIF_CASES"))
	if err != nil {
		t.Fatal(err)
	}
	defer in.Close()
	out, err := os.Create(os.Getenv("VERIF_OUT"))
	if err != nil {
		t.Fatal(err)
	}
	defer out.Close()
	w := bufio.NewWriter(out)
	defer w.Flush()

	secret := []byte("c03secret")
	mode := "accept"
	seen := 0
	port, closeSrv := c03rServer(t, secret, &mode, &seen)
	defer closeSrv()

	cfg := &Config{Retries: 1, Timeout: 150 * time.Millisecond, DeadTime: time.Hour, DeadThreshold: 1000, NASIdentifier: "c03"}
	p := &Provider{
		cfg:         cfg,
		logger:      logger.NewTest(),
		authConns:   []*radiusConn{newRadiusConn("127.0.0.1", port, secret, cfg.Timeout, netbind.Binding{})},
		tier2Index:  buildTier2Index(0),
		radiusStats: internalaaa.NewRADIUSStats(),
	}
	defer p.Close()
	bus := &c03rBus{handlers: map[string]events.Handler{}}
	comp, err := internalaaa.New(component.Dependencies{EventBus: bus}, p)
	if err != nil {
		t.Fatal(err)
	}
	ctx, cancel := context.WithCancel(context.Background())
	if err := comp.Start(ctx); err != nil {
		t.Fatal(err)
	}
	defer func() { cancel(); _ = comp.Stop(context.Background()) }()
	handle := bus.handlers[events.TopicAAARequest]
	if handle == nil {
		t.Fatal("AAA component did not subscribe to the request topic")
	}

	sc := bufio.NewScanner(in)
	n := 0
	for sc.Scan() {
		f := strings.Fields(sc.Text())
		if len(f) == 0 {
			continue
		}
		if len(f) != 4 || f[0] != "radius" {
			fmt.Fprintln(w, "badcase")
			continue
		}
		n++
		mode = f[2]
		at := map[string]models.AccessType{"ipoe": models.AccessTypeIPoE, "pppoe": models.AccessTypePPPoE, "l2tp": models.AccessTypeL2TP}[f[3]]
		before := seen
		bus.mu.Lock()
		bus.last = "nothing-published"
		bus.mu.Unlock()
		reqID := fmt.Sprintf("rq%d", n)
		func() {
			defer func() {
				if r := recover(); r != nil {
					bus.mu.Lock()
					bus.last = "panic"
					bus.mu.Unlock()
				}
			}()
			handle(events.Event{Data: &events.AAARequestEvent{AccessType: at, SessionID: "sess-" + reqID,
				Request: models.AAARequest{RequestID: reqID, Username: "aa:bb:cc:00:00:01", MAC: "aa:bb:cc:00:00:01", SVLAN: 100,
					UsernameFallback: f[1] == "1", PolicyName: "p", Attributes: map[string]string{}}}})
		}()
		bus.mu.Lock()
		res := bus.last
		bus.mu.Unlock()
		// the verdict must be addressed to the request and session it answers
		res = strings.Replace(res, " req="+reqID+" sess=sess-"+reqID, " ids=ok", 1)
		asked := "asked0"
		if seen > before {
			asked = "asked1"
		}
		fmt.Fprintln(w, res+" "+asked)
	}
}
