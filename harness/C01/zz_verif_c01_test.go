//go:build verif

package allocator

// Correspondence harness for property C01 (see /verif/notes/C01.md for the case syntax).
// One case per input line, one output line per case.

import (
	"bufio"
	"bytes"
	"errors"
	"fmt"
	"math/big"
	"net"
	"net/netip"
	"os"
	"os/exec"
	"runtime"
	"sort"
	"strconv"
	"strings"
	"testing"
	"time"

	"github.com/veesix-networks/osvbng/pkg/config/ip"
)

// address tokens: 4:<dec> (4-byte slice), 6:<dec> (16-byte slice), nil, bad (5-byte slice)
func vf01IP(tok string) net.IP {
	switch {
	case tok == "nil":
		return nil
	case tok == "bad":
		return net.IP{1, 2, 3, 4, 5}
	case strings.HasPrefix(tok, "4:"):
		n, _ := strconv.ParseUint(tok[2:], 10, 64)
		return net.IP{byte(n >> 24), byte(n >> 16), byte(n >> 8), byte(n)}
	case strings.HasPrefix(tok, "6:"):
		b, _ := new(big.Int).SetString(tok[2:], 10)
		out := make(net.IP, 16)
		b.FillBytes(out)
		return out
	}
	panic("bad address token " + tok)
}

func vf01Addr(tok string) netip.Addr {
	a, ok := netip.AddrFromSlice(vf01IP(tok))
	if !ok {
		panic("not an address: " + tok)
	}
	return a
}

func vf01ShowIP(b net.IP) string {
	switch len(b) {
	case 4:
		return "4:" + strconv.FormatUint(uint64(b[0])<<24|uint64(b[1])<<16|uint64(b[2])<<8|uint64(b[3]), 10)
	case 16:
		return "6:" + new(big.Int).SetBytes(b).String()
	case 0:
		return "nil"
	}
	return "bad"
}

// prefix tokens: nil | <addr>/<ones>:<bits> | <addr>/mnil | <addr>/mbad
func vf01Pfx(tok string) *net.IPNet {
	if tok == "nil" {
		return nil
	}
	i := strings.LastIndex(tok, "/")
	ipt, mt := tok[:i], tok[i+1:]
	n := &net.IPNet{IP: vf01IP(ipt)}
	switch mt {
	case "mnil":
	case "mbad":
		n.Mask = net.IPMask{0xff, 0x0f, 0xff, 0, 0, 0, 0, 0, 0, 0, 0, 0, 0, 0, 0, 0}
	default:
		p := strings.Split(mt, ":")
		ones, _ := strconv.Atoi(p[0])
		bits, _ := strconv.Atoi(p[1])
		n.Mask = net.CIDRMask(ones, bits)
	}
	return n
}

func vf01ShowPfx(p *net.IPNet) string {
	if p == nil {
		return "pnil"
	}
	ones, bits := p.Mask.Size()
	ipt := vf01ShowIP(p.IP)
	if len(p.IP) != 16 {
		return "p?" + ipt
	}
	return fmt.Sprintf("p%s/%d:%d", ipt[2:], ones, bits)
}

func vf01Err(err error) string {
	switch {
	case err == nil:
		return "ok"
	case errors.Is(err, ErrAlreadyReserved):
		return "res"
	case errors.Is(err, ErrPoolExhausted):
		return "x"
	case strings.Contains(err.Error(), "overlaps delegation pool"):
		return "ovl" // ReservePD*: no delegation of any pool, but overlaps a pool network
	}
	return "err?"
}

func vf01Pool(f []string) string {
	// pool <lo> <hi> <E> e1..eE ; ops
	lo, hi := vf01Addr(f[1]), vf01Addr(f[2])
	ne, _ := strconv.Atoi(f[3])
	var excl []netip.Addr
	for i := 0; i < ne; i++ {
		excl = append(excl, vf01Addr(f[4+i]))
	}
	p := NewPoolAllocator(lo, hi, excl)
	var res []string
	for _, op := range f[5+ne:] {
		arg := op[1:]
		switch op[0] {
		case 'A':
			got, err := p.Allocate(vf01Nm('s', arg))
			if err != nil {
				res = append(res, vf01Err(err))
			} else {
				res = append(res, "a"+vf01ShowIP(got))
			}
		case 'R':
			q := strings.SplitN(arg, ",", 2)
			res = append(res, vf01Err(p.Reserve(vf01IP(q[1]), vf01Nm('s', q[0]))))
		case 'L':
			res = append(res, vf01Err(p.Release(vf01IP(arg))))
		case 'C':
			res = append(res, map[bool]string{true: "t", false: "f"}[p.Contains(vf01IP(arg))])
		case 'D':
			p.SetDirection(arg == "1")
			res = append(res, "ok")
		case 'V':
			res = append(res, "n"+strconv.Itoa(p.Available()))
		default:
			res = append(res, "badop")
		}
	}
	return strings.Join(res, " ")
}

// PrefixAllocator has no Available(): the number of free prefixes is observed through the package's own
// functions only - allocate to a probe session until the pool is exhausted, then release every prefix again.
// (The set of free prefixes and every lease are as before; only the order inside the free list may differ,
// which the model does not constrain.)  Nothing here depends on how or when the allocator builds its free list.
func vf01PDFree(a *PrefixAllocator) int {
	var got []*net.IPNet
	for {
		p, err := a.Allocate(vf01ProbeSid)
		if err != nil {
			break
		}
		got = append(got, p)
		if len(got) > 1<<20 {
			break
		}
	}
	for _, p := range got {
		a.Release(p)
	}
	return len(got)
}

func vf01PD(f []string) string {
	// pd <net dec> <nbits> <plen> ; ops
	nb, _ := strconv.Atoi(f[2])
	pl, _ := strconv.Atoi(f[3])
	nt := f[1] // <dec> (IPv6) or 4:<dec> / 6:<dec>
	if !strings.Contains(nt, ":") {
		nt = "6:" + nt
	}
	network := netip.PrefixFrom(vf01Addr(nt), nb)
	p := NewPrefixAllocator(network, pl)
	if p == nil {
		return "nilalloc"
	}
	var res []string
	for _, op := range f[5:] {
		arg := op[1:]
		switch op[0] {
		case 'A':
			got, err := p.Allocate(vf01Nm('s', arg))
			if err != nil {
				res = append(res, vf01Err(err))
			} else {
				res = append(res, vf01ShowPfx(got))
			}
		case 'R':
			q := strings.SplitN(arg, ",", 2)
			res = append(res, vf01Err(p.Reserve(vf01Pfx(q[1]), vf01Nm('s', q[0]))))
		case 'L':
			p.Release(vf01Pfx(arg))
			res = append(res, "ok")
		case 'C':
			res = append(res, map[bool]string{true: "t", false: "f"}[p.Contains(vf01Pfx(arg))])
		case 'D':
			p.SetDirection(arg == "1")
			res = append(res, "ok")
		case 'V':
			res = append(res, "n"+strconv.Itoa(vf01PDFree(p)))
		default:
			res = append(res, "badop")
		}
	}
	return strings.Join(res, " ")
}

// Names from tokens.  Most tokens n give "<kind>n"; a few give names that differ from another one only in
// case, by being its prefix / extension, or by being empty - so that a comparison that folds case, looks at a
// prefix only or treats "" specially is visible.  (s: session ids, v: VRFs, p: profiles, n: pools.)
var vf01Alias = map[string]string{"s5": "S1", "s6": "s11", "s7": "", "s8": "s", "v3": "V1", "v4": "v11", "p7": "P1", "n7": "N1"}

func vf01Nm(kind byte, tok string) string {
	if a, ok := vf01Alias[string(kind)+tok]; ok {
		return a
	}
	return string(kind) + tok
}

func vf01UnNm(kind byte, name string) string {
	for k, a := range vf01Alias {
		if k[0] == kind && a == name {
			return k[1:]
		}
	}
	if len(name) < 2 {
		return "?" + name
	}
	return name[1:]
}

func vf01Name(pfx, tok string) string {
	if tok == "0" {
		return ""
	}
	return vf01Nm(pfx[0], tok)
}

func vf01AddrStr(tok string) string {
	if tok == "-" {
		return ""
	}
	if tok == "junk" {
		return "not-an-address"
	}
	return vf01Addr(tok).String()
}

// ---- registry: all three families ----------------------------------------------------------
// reg <P> { <pf> <fam 4|n|d> <profile gw> <K> { <pool> <prio> <vrf> <net> <lo|plen> <hi> <gw> <E> {<a> <b>} } } ; ops

func vf01BuildProfiles(f []string) (map[string]*ip.IPv4Profile, map[string]*ip.IPv6Profile, int) {
	np, _ := strconv.Atoi(f[1])
	p := 2
	v4p := map[string]*ip.IPv4Profile{}
	v6p := map[string]*ip.IPv6Profile{}
	for i := 0; i < np; i++ {
		pfname := vf01Nm('p', f[p])
		fam := f[p+1]
		pgw := vf01AddrStr(f[p+2])
		nk, _ := strconv.Atoi(f[p+3])
		p += 4
		if fam == "4" {
			if v4p[pfname] == nil {
				v4p[pfname] = &ip.IPv4Profile{Gateway: pgw}
			}
		} else if v6p[pfname] == nil {
			v6p[pfname] = &ip.IPv6Profile{}
		}
		for j := 0; j < nk; j++ {
			name := vf01Nm('n', f[p])
			prio, _ := strconv.Atoi(f[p+1])
			vrf := vf01Name("v", f[p+2])
			network := f[p+3]
			if network == "bad" {
				network = "not-a-prefix"
			} else {
				q := strings.Split(network, "/")
				network = vf01Addr(q[0]).String() + "/" + q[1]
			}
			ne, _ := strconv.Atoi(f[p+7])
			switch fam {
			case "d":
				pl, _ := strconv.Atoi(f[p+4])
				v6p[pfname].PDPools = append(v6p[pfname].PDPools, ip.PDPool{Name: name, Network: network, PrefixLength: uint8(pl), VRF: vrf})
			default:
				lo, hi, gw := vf01AddrStr(f[p+4]), vf01AddrStr(f[p+5]), vf01AddrStr(f[p+6])
				var excl []string
				for e := 0; e < ne; e++ {
					a, b := f[p+8+2*e], f[p+9+2*e]
					if b == "-" {
						excl = append(excl, " "+vf01AddrStr(a)+" ")
					} else {
						excl = append(excl, vf01AddrStr(a)+" - "+vf01AddrStr(b))
					}
				}
				if fam == "4" {
					v4p[pfname].Pools = append(v4p[pfname].Pools, ip.IPv4Pool{Name: name, Network: network, RangeStart: lo,
						RangeEnd: hi, Gateway: gw, VRF: vrf, Priority: prio, Exclude: excl})
				} else {
					v6p[pfname].IANAPools = append(v6p[pfname].IANAPools, ip.IANAPool{Name: name, Network: network,
						RangeStart: lo, RangeEnd: hi, Gateway: gw, VRF: vrf})
				}
			}
			p += 8 + 2*ne
		}
	}
	return v4p, v6p, p
}

// which allocator did a containment walk stop at?  (Go map order: the implementation's choice)
// Who holds a value in one allocator, observed through the allocator's exported methods only:
// 0 = nobody, 1 = session sid, 2 = another session.  Reserve by a probe session succeeds iff nobody holds
// the value (and is undone by Release: the set of free values and every other lease are as before, only the
// order inside the free list may differ, which the model does not constrain); if somebody holds it,
// Reserve(sid) succeeds iff that somebody is sid (re-reserving one's own value changes nothing).
const vf01ProbeSid = "\x00probe"

func vf01HolderIP(a *PoolAllocator, ipb net.IP, sid string) int {
	if a.Reserve(ipb, vf01ProbeSid) == nil {
		a.Release(ipb)
		return 0
	}
	if a.Reserve(ipb, sid) == nil {
		return 1
	}
	return 2
}

func vf01HolderPfx(a *PrefixAllocator, p *net.IPNet, sid string) int {
	if a.Reserve(p, vf01ProbeSid) == nil {
		a.Release(p)
		return 0
	}
	if a.Reserve(p, sid) == nil {
		return 1
	}
	return 2
}

// holder state of the value in every allocator of the family that Contains it
func vf01Snapshot(r *Registry, fam byte, arg, sid string) map[string]int {
	out := map[string]int{}
	if fam == 'd' {
		pfx := vf01Pfx(arg)
		for k, a := range r.pdAllocators {
			if a.Contains(pfx) {
				out[k] = vf01HolderPfx(a, pfx, sid)
			}
		}
		return out
	}
	allocs := r.allocators
	if fam == 'n' {
		allocs = r.ianaAllocators
	}
	ipb := vf01IP(arg)
	for k, a := range allocs {
		if a.Contains(ipb) {
			out[k] = vf01HolderIP(a, ipb, sid)
		}
	}
	return out
}

// which allocator did a containment walk (Go map order: the implementation's choice) stop at?
// release=false: Reserve walk by sid; release=true: Release walk
func vf01Which(before, after map[string]int, err error, release bool) string {
	keys := make([]string, 0, len(before))
	for k := range before {
		keys = append(keys, k)
	}
	sort.Strings(keys)
	for _, k := range keys {
		if before[k] != after[k] {
			return k
		}
	}
	for _, k := range keys {
		b := before[k]
		switch {
		case release && b == 0: // releasing what nobody holds changes nothing
			return k
		case !release && err == nil && b == 1: // already ours
			return k
		case !release && err != nil && b == 2: // conflict
			return k
		}
	}
	if len(keys) == 0 {
		return "-"
	}
	return "?"
}

func vf01Key(t string) string { // <pf>/<pool>
	q := strings.Split(t, "/")
	return vf01Nm('p', q[0]) + "/" + vf01Nm('n', q[1])
}

func vf01Unkey(k string) string {
	if k == "-" || k == "?" || k == "" {
		return k
	}
	q := strings.Split(k, "/")
	if len(q) != 2 {
		return "?" + k
	}
	return vf01UnNm('p', q[0]) + "/" + vf01UnNm('n', q[1])
}

func vf01Reg(f []string) string {
	v4p, v6p, p := vf01BuildProfiles(f)
	r := newRegistry(v4p, v6p)
	has := func(fam byte, k string) bool {
		switch fam {
		case '4':
			_, ok := r.allocators[k]
			return ok
		case 'n':
			_, ok := r.ianaAllocators[k]
			return ok
		}
		_, ok := r.pdAllocators[k]
		return ok
	}
	var res []string
	for _, op := range f[p+1:] {
		if op[0] == 'D' {
			r.SetAllocDirection(op[1:] == "1")
			res = append(res, "ok")
			continue
		}
		fam := op[1]
		q := strings.Split(op[2:], ",")
		switch op[0] {
		case 'A': // A<f><sid>,<profile>,<override>,<vrf>
			pf, ov, vrf, sid := vf01Nm('p', q[1]), vf01Name("n", q[2]), vf01Name("v", q[3]), vf01Nm('s', q[0])
			var shown, pool string
			var err error
			switch fam {
			case '4':
				var got net.IP
				got, pool, err = r.AllocateFromProfile(pf, ov, vrf, sid)
				shown = vf01ShowIP(got)
			case 'n':
				var got net.IP
				got, pool, err = r.AllocateIANAFromProfile(pf, ov, vrf, sid)
				shown = vf01ShowIP(got)
			default:
				var got *net.IPNet
				got, pool, err = r.AllocatePDFromProfile(pf, ov, vrf, sid)
				shown = vf01ShowPfx(got)
			}
			if err != nil {
				res = append(res, vf01Err(err))
			} else {
				res = append(res, "a"+vf01Unkey(pool)+"="+shown)
			}
		case 'L': // L<f><key>,<arg>
			switch fam {
			case '4':
				r.Release(vf01Key(q[0]), vf01IP(q[1]))
			case 'n':
				r.ReleaseIANA(vf01Key(q[0]), vf01IP(q[1]))
			default:
				r.ReleasePD(vf01Key(q[0]), vf01Pfx(q[1]))
			}
			res = append(res, "ok")
		case 'P', 'R': // P<f><sid>,<key>,<arg>   R<f><sid>,<arg>
			var err error
			arg := q[len(q)-1]
			sid := vf01Nm('s', q[0])
			before := vf01Snapshot(r, fam, arg, sid)
			direct := false
			if op[0] == 'P' {
				k := vf01Key(q[1])
				direct = has(fam, k)
				switch fam {
				case '4':
					err = r.ReserveIPInPool(k, vf01IP(arg), sid)
				case 'n':
					err = r.ReserveIANAInPool(k, vf01IP(arg), sid)
				default:
					err = r.ReservePDInPool(k, vf01Pfx(arg), sid)
				}
			} else {
				switch fam {
				case '4':
					err = r.ReserveIP(vf01IP(arg), sid)
				case 'n':
					err = r.ReserveIANA(vf01IP(arg), sid)
				default:
					err = r.ReservePD(vf01Pfx(arg), sid)
				}
			}
			if direct {
				res = append(res, vf01Err(err))
			} else {
				after := vf01Snapshot(r, fam, arg, sid)
				res = append(res, vf01Err(err)+"@"+vf01Unkey(vf01Which(before, after, err, false)))
			}
		case 'Q', 'I': // Q<f><key>,<arg> (Release*InPool)   I<f><arg> (ReleaseIP / ReleaseIANAByIP / ReleasePDByPrefix)
			arg := q[len(q)-1]
			before := vf01Snapshot(r, fam, arg, "")
			walk := false
			if op[0] == 'Q' {
				k := vf01Key(q[0])
				walk = !has(fam, k)
				switch fam {
				case '4':
					r.ReleaseIPInPool(k, vf01IP(arg))
				case 'n':
					r.ReleaseIANAInPool(k, vf01IP(arg))
				default:
					r.ReleasePDInPool(k, vf01Pfx(arg))
				}
			} else {
				switch fam {
				case '4':
					r.ReleaseIP(vf01IP(arg))
				case 'n':
					r.ReleaseIANAByIP(vf01IP(arg))
				default:
					walk = true
					r.ReleasePDByPrefix(vf01Pfx(arg))
				}
			}
			if walk {
				after := vf01Snapshot(r, fam, arg, "")
				res = append(res, "ok@"+vf01Unkey(vf01Which(before, after, nil, true)))
			} else {
				res = append(res, "ok")
			}
		case 'V':
			k := vf01Key(q[0])
			switch {
			case !has(fam, k):
				res = append(res, "nopool")
			case fam == '4':
				res = append(res, "n"+strconv.Itoa(r.allocators[k].Available()))
			case fam == 'n':
				res = append(res, "n"+strconv.Itoa(r.ianaAllocators[k].Available()))
			default:
				res = append(res, "n"+strconv.Itoa(vf01PDFree(r.pdAllocators[k])))
			}
		case 'O':
			var l []string
			switch fam {
			case '4':
				l = r.GetProfilePools(vf01Nm('p', q[0]))
			case 'n':
				l = r.profileIANAPools[vf01Nm('p', q[0])]
			default:
				l = r.profilePDPools[vf01Nm('p', q[0])]
			}
			s := "o"
			for _, k := range l {
				s += ":" + vf01Unkey(k)
			}
			res = append(res, s)
		default:
			res = append(res, "badop")
		}
	}
	// final: free count of every allocator, sorted
	var fin []string
	for k, a := range r.allocators {
		fin = append(fin, "4:"+vf01Unkey(k)+"="+strconv.Itoa(a.Available()))
	}
	for k, a := range r.ianaAllocators {
		fin = append(fin, "n:"+vf01Unkey(k)+"="+strconv.Itoa(a.Available()))
	}
	for k, a := range r.pdAllocators {
		fin = append(fin, "d:"+vf01Unkey(k)+"="+strconv.Itoa(vf01PDFree(a)))
	}
	sort.Strings(fin)
	res = append(res, "|")
	res = append(res, fin...)
	return strings.Join(res, " ")
}

// Cases whose first token starts with "x" (xpool, xpd, xreg) may not terminate or may exhaust memory
// (that is what they probe): they run in a child process of the same test binary, which gives up
// when its heap passes 192 MiB (the detector: a range loop that does not stop allocates without bound) or,
// as a backstop, after 20 s, and reports "hang".
func vf01Probe(line string) string {
	cmd := exec.Command(os.Args[0], "-test.run", "^TestVerifC01Child$", "-test.count=1")
	cmd.Env = append(os.Environ(), "VERIF_C01_CHILD="+line)
	var buf bytes.Buffer
	cmd.Stdout = &buf
	if err := cmd.Start(); err != nil {
		return "probe-error"
	}
	done := make(chan error, 1)
	go func() { done <- cmd.Wait() }()
	select {
	case <-done:
	case <-time.After(45 * time.Second):
		cmd.Process.Kill()
		<-done
		return "hang"
	}
	for _, l := range strings.Split(buf.String(), "\n") {
		if strings.HasPrefix(l, "VERIF-RESULT ") {
			return strings.TrimPrefix(l, "VERIF-RESULT ")
		}
	}
	return "probe-died"
}

func TestVerifC01Child(t *testing.T) {
	line := os.Getenv("VERIF_C01_CHILD")
	if line == "" {
		t.Skip("child only")
	}
	start := time.Now()
	go func() {
		var m runtime.MemStats
		for {
			time.Sleep(2 * time.Millisecond)
			runtime.ReadMemStats(&m)
			if m.HeapAlloc > 192<<20 || time.Since(start) > 20*time.Second {
				fmt.Println("VERIF-RESULT hang")
				os.Exit(0)
			}
		}
	}()
	fmt.Println("VERIF-RESULT " + vf01Case(line[1:]))
	os.Exit(0)
}

func vf01Case(line string) (out string) {
	if strings.HasPrefix(line, "x") {
		return vf01Probe(line)
	}
	done := make(chan string, 1)
	go func() {
		defer func() {
			if r := recover(); r != nil {
				done <- fmt.Sprintf("panic %.60s", strings.ReplaceAll(fmt.Sprint(r), "\n", " "))
			}
		}()
		f := strings.Fields(line)
		switch f[0] {
		case "pool":
			done <- vf01Pool(f)
		case "pd":
			done <- vf01PD(f)
		case "reg":
			done <- vf01Reg(f)
		default:
			done <- "badline"
		}
	}()
	select {
	case s := <-done:
		return s
	case <-time.After(20 * time.Second):
		return "hang"
	}
}

func TestVerifC01(t *testing.T) {
	in, err := os.Open(os.Getenv("VERIF_CASES"))
	if err != nil {
		t.Fatal(err)
	}
	defer in.Close()
	out, err := os.Create(os.Getenv("VERIF_OUT"))
	if err != nil {
		t.Fatal(err)
	}
	defer out.Close()
	w := bufio.NewWriter(out)
	defer w.Flush()
	sc := bufio.NewScanner(in)
	sc.Buffer(make([]byte, 1<<20), 1<<26)
	for sc.Scan() {
		if strings.TrimSpace(sc.Text()) == "" {
			continue
		}
		fmt.Fprintln(w, vf01Case(sc.Text()))
	}
}
