//go:build verif

package allocator

// Correspondence harness for property C01 (see /verif/notes/C01.md for the case syntax).
// One case per input line, one output line per case.

import (
	"bufio"
	"errors"
	"fmt"
	"math/big"
	"net"
	"net/netip"
	"os"
	"sort"
	"strconv"
	"strings"
	"testing"
	"time"

	"github.com/veesix-networks/osvbng/pkg/config/ip"
)

// address tokens: 4:<dec> (4-byte slice), 6:<dec> (16-byte slice), nil, bad (5-byte slice)
func vf01IP(tok string) net.IP {
	switch {
	case tok == "nil":
		return nil
	case tok == "bad":
		return net.IP{1, 2, 3, 4, 5}
	case strings.HasPrefix(tok, "4:"):
		n, _ := strconv.ParseUint(tok[2:], 10, 64)
		return net.IP{byte(n >> 24), byte(n >> 16), byte(n >> 8), byte(n)}
	case strings.HasPrefix(tok, "6:"):
		b, _ := new(big.Int).SetString(tok[2:], 10)
		out := make(net.IP, 16)
		b.FillBytes(out)
		return out
	}
	panic("bad address token " + tok)
}

func vf01Addr(tok string) netip.Addr {
	a, ok := netip.AddrFromSlice(vf01IP(tok))
	if !ok {
		panic("not an address: " + tok)
	}
	return a
}

func vf01ShowIP(b net.IP) string {
	switch len(b) {
	case 4:
		return "4:" + strconv.FormatUint(uint64(b[0])<<24|uint64(b[1])<<16|uint64(b[2])<<8|uint64(b[3]), 10)
	case 16:
		return "6:" + new(big.Int).SetBytes(b).String()
	case 0:
		return "nil"
	}
	return "bad"
}

// prefix tokens: nil | <addr>/<ones>:<bits> | <addr>/mnil | <addr>/mbad
func vf01Pfx(tok string) *net.IPNet {
	if tok == "nil" {
		return nil
	}
	i := strings.LastIndex(tok, "/")
	ipt, mt := tok[:i], tok[i+1:]
	n := &net.IPNet{IP: vf01IP(ipt)}
	switch mt {
	case "mnil":
	case "mbad":
		n.Mask = net.IPMask{0xff, 0x0f, 0xff, 0, 0, 0, 0, 0, 0, 0, 0, 0, 0, 0, 0, 0}
	default:
		p := strings.Split(mt, ":")
		ones, _ := strconv.Atoi(p[0])
		bits, _ := strconv.Atoi(p[1])
		n.Mask = net.CIDRMask(ones, bits)
	}
	return n
}

func vf01ShowPfx(p *net.IPNet) string {
	if p == nil {
		return "pnil"
	}
	ones, bits := p.Mask.Size()
	ipt := vf01ShowIP(p.IP)
	if len(p.IP) != 16 {
		return "p?" + ipt
	}
	return fmt.Sprintf("p%s/%d:%d", ipt[2:], ones, bits)
}

func vf01Err(err error) string {
	switch {
	case err == nil:
		return "ok"
	case errors.Is(err, ErrAlreadyReserved):
		return "res"
	case errors.Is(err, ErrPoolExhausted):
		return "x"
	}
	return "err?"
}

func vf01Pool(f []string) string {
	// pool <lo> <hi> <E> e1..eE ; ops
	lo, hi := vf01Addr(f[1]), vf01Addr(f[2])
	ne, _ := strconv.Atoi(f[3])
	var excl []netip.Addr
	for i := 0; i < ne; i++ {
		excl = append(excl, vf01Addr(f[4+i]))
	}
	p := NewPoolAllocator(lo, hi, excl)
	var res []string
	for _, op := range f[5+ne:] {
		arg := op[1:]
		switch op[0] {
		case 'A':
			got, err := p.Allocate("s" + arg)
			if err != nil {
				res = append(res, vf01Err(err))
			} else {
				res = append(res, "a"+vf01ShowIP(got))
			}
		case 'R':
			q := strings.SplitN(arg, ",", 2)
			res = append(res, vf01Err(p.Reserve(vf01IP(q[1]), "s"+q[0])))
		case 'L':
			res = append(res, vf01Err(p.Release(vf01IP(arg))))
		case 'C':
			res = append(res, map[bool]string{true: "t", false: "f"}[p.Contains(vf01IP(arg))])
		case 'D':
			p.SetDirection(arg == "1")
			res = append(res, "ok")
		case 'V':
			res = append(res, "n"+strconv.Itoa(p.Available()))
		default:
			res = append(res, "badop")
		}
	}
	return strings.Join(res, " ")
}

func vf01PD(f []string) string {
	// pd <net dec> <nbits> <plen> ; ops
	nb, _ := strconv.Atoi(f[2])
	pl, _ := strconv.Atoi(f[3])
	network := netip.PrefixFrom(vf01Addr("6:"+f[1]), nb)
	p := NewPrefixAllocator(network, pl)
	if p == nil {
		return "nilalloc"
	}
	var res []string
	for _, op := range f[5:] {
		arg := op[1:]
		switch op[0] {
		case 'A':
			got, err := p.Allocate("s" + arg)
			if err != nil {
				res = append(res, vf01Err(err))
			} else {
				res = append(res, vf01ShowPfx(got))
			}
		case 'R':
			q := strings.SplitN(arg, ",", 2)
			res = append(res, vf01Err(p.Reserve(vf01Pfx(q[1]), "s"+q[0])))
		case 'L':
			p.Release(vf01Pfx(arg))
			res = append(res, "ok")
		case 'C':
			res = append(res, map[bool]string{true: "t", false: "f"}[p.Contains(vf01Pfx(arg))])
		case 'D':
			p.SetDirection(arg == "1")
			res = append(res, "ok")
		case 'V':
			p.mu.Lock()
			n := len(p.free)
			p.mu.Unlock()
			res = append(res, "n"+strconv.Itoa(n))
		default:
			res = append(res, "badop")
		}
	}
	return strings.Join(res, " ")
}

func vf01Name(pfx, tok string) string {
	if tok == "0" {
		return ""
	}
	return pfx + tok
}

func vf01AddrStr(tok string) string {
	if tok == "-" {
		return ""
	}
	if tok == "junk" {
		return "not-an-address"
	}
	return vf01Addr(tok).String()
}

// which allocator did a containment walk stop at?  (Go map order: the implementation's choice)
type vf01Snap struct {
	held bool
	sid  string
	n    int
}

func vf01Snapshot(allocs map[string]*PoolAllocator, ipb net.IP) map[string]vf01Snap {
	out := map[string]vf01Snap{}
	addr, ok := netip.AddrFromSlice(ipb)
	if !ok {
		return out
	}
	addr = addr.Unmap()
	for k, a := range allocs {
		if !a.Contains(ipb) {
			continue
		}
		a.mu.Lock()
		s, held := a.leases[addr]
		out[k] = vf01Snap{held, s, len(a.leases)}
		a.mu.Unlock()
	}
	return out
}

func vf01Which(before, after map[string]vf01Snap, sid string, err error) string {
	keys := make([]string, 0, len(before))
	for k := range before {
		keys = append(keys, k)
	}
	sort.Strings(keys)
	for _, k := range keys {
		if before[k] != after[k] {
			return k
		}
	}
	for _, k := range keys {
		b := before[k]
		if err == nil && b.held && b.sid == sid {
			return k
		}
		if err != nil && b.held && b.sid != sid {
			return k
		}
	}
	if len(keys) == 0 {
		return "-"
	}
	return "?"
}

func vf01Reg(f []string) string {
	// reg4|reg6 <P> { <pf> <gw> <K> { <pool> <prio> <vrf> <net> <lo> <hi> <gw> <E> {<a> <b>} } } ; ops
	v6 := f[0] == "reg6"
	np, _ := strconv.Atoi(f[1])
	p := 2
	v4p := map[string]*ip.IPv4Profile{}
	v6p := map[string]*ip.IPv6Profile{}
	for i := 0; i < np; i++ {
		pfname := "p" + f[p]
		pgw := vf01AddrStr(f[p+1])
		nk, _ := strconv.Atoi(f[p+2])
		p += 3
		pr4 := &ip.IPv4Profile{Gateway: pgw}
		pr6 := &ip.IPv6Profile{}
		for j := 0; j < nk; j++ {
			name := "n" + f[p]
			prio, _ := strconv.Atoi(f[p+1])
			vrf := vf01Name("v", f[p+2])
			network := f[p+3]
			if network == "bad" {
				network = "not-a-prefix"
			} else {
				q := strings.Split(network, "/")
				network = vf01Addr(q[0]).String() + "/" + q[1]
			}
			lo, hi, gw := vf01AddrStr(f[p+4]), vf01AddrStr(f[p+5]), vf01AddrStr(f[p+6])
			ne, _ := strconv.Atoi(f[p+7])
			p += 8
			var excl []string
			for e := 0; e < ne; e++ {
				a, b := f[p], f[p+1]
				p += 2
				if b == "-" {
					excl = append(excl, " "+vf01AddrStr(a)+" ")
				} else {
					excl = append(excl, vf01AddrStr(a)+" - "+vf01AddrStr(b))
				}
			}
			pr4.Pools = append(pr4.Pools, ip.IPv4Pool{Name: name, Network: network, RangeStart: lo, RangeEnd: hi,
				Gateway: gw, VRF: vrf, Priority: prio, Exclude: excl})
			pr6.IANAPools = append(pr6.IANAPools, ip.IANAPool{Name: name, Network: network, RangeStart: lo,
				RangeEnd: hi, Gateway: gw, VRF: vrf})
		}
		if v6 {
			v6p[pfname] = pr6
		} else {
			v4p[pfname] = pr4
		}
	}
	var r *Registry
	if v6 {
		r = newRegistry(nil, v6p)
	} else {
		r = newRegistry(v4p, nil)
	}
	allocs := r.allocators
	if v6 {
		allocs = r.ianaAllocators
	}
	key := func(t string) string { // <pf>/<pool>
		q := strings.Split(t, "/")
		return "p" + q[0] + "/n" + q[1]
	}
	unkey := func(k string) string {
		if k == "-" || k == "?" {
			return k
		}
		q := strings.Split(k, "/")
		return q[0][1:] + "/" + q[1][1:]
	}
	var res []string
	for _, op := range f[p+1:] {
		arg := op[1:]
		q := strings.Split(arg, ",")
		switch op[0] {
		case 'A': // A<sid>,<profile>,<override>,<vrf>
			var got net.IP
			var pool string
			var err error
			if v6 {
				got, pool, err = r.AllocateIANAFromProfile("p"+q[1], vf01Name("n", q[2]), vf01Name("v", q[3]), "s"+q[0])
			} else {
				got, pool, err = r.AllocateFromProfile("p"+q[1], vf01Name("n", q[2]), vf01Name("v", q[3]), "s"+q[0])
			}
			if err != nil {
				res = append(res, vf01Err(err))
			} else {
				res = append(res, "a"+unkey(pool)+"="+vf01ShowIP(got))
			}
		case 'L': // L<pf>/<pool>,<addr>
			if v6 {
				r.ReleaseIANA(key(q[0]), vf01IP(q[1]))
			} else {
				r.Release(key(q[0]), vf01IP(q[1]))
			}
			res = append(res, "ok")
		case 'P', 'R': // P<sid>,<pf>/<pool>,<addr>   R<sid>,<addr>
			var err error
			var ipb net.IP
			if op[0] == 'P' {
				ipb = vf01IP(q[2])
			} else {
				ipb = vf01IP(q[1])
			}
			before := vf01Snapshot(allocs, ipb)
			direct := false
			if op[0] == 'P' {
				_, direct = allocs[key(q[1])]
				if v6 {
					err = r.ReserveIANAInPool(key(q[1]), ipb, "s"+q[0])
				} else {
					err = r.ReserveIPInPool(key(q[1]), ipb, "s"+q[0])
				}
			} else if v6 {
				err = r.ReserveIANA(ipb, "s"+q[0])
			} else {
				err = r.ReserveIP(ipb, "s"+q[0])
			}
			if direct {
				res = append(res, vf01Err(err))
			} else {
				after := vf01Snapshot(allocs, ipb)
				res = append(res, vf01Err(err)+"@"+unkey(vf01Which(before, after, "s"+q[0], err)))
			}
		case 'I':
			if v6 {
				r.ReleaseIANAByIP(vf01IP(arg))
			} else {
				r.ReleaseIP(vf01IP(arg))
			}
			res = append(res, "ok")
		case 'D':
			r.SetAllocDirection(arg == "1")
			res = append(res, "ok")
		case 'V':
			if a, ok := allocs[key(arg)]; ok {
				res = append(res, "n"+strconv.Itoa(a.Available()))
			} else {
				res = append(res, "nopool")
			}
		case 'O': // O<profile>: GetProfilePools (v4) / profileIANAPools
			var l []string
			if v6 {
				l = r.profileIANAPools["p"+arg]
			} else {
				l = r.GetProfilePools("p" + arg)
			}
			s := "o"
			for _, k := range l {
				s += ":" + unkey(k)
			}
			res = append(res, s)
		default:
			res = append(res, "badop")
		}
	}
	// final: Available of every allocator, sorted by key
	keys := make([]string, 0, len(allocs))
	for k := range allocs {
		keys = append(keys, unkey(k))
	}
	sort.Strings(keys)
	res = append(res, "|")
	for _, k := range keys {
		res = append(res, k+"="+strconv.Itoa(allocs[key(k)].Available()))
	}
	return strings.Join(res, " ")
}

func vf01Case(line string) (out string) {
	done := make(chan string, 1)
	go func() {
		defer func() {
			if r := recover(); r != nil {
				done <- fmt.Sprintf("panic %.60s", strings.ReplaceAll(fmt.Sprint(r), "\n", " "))
			}
		}()
		f := strings.Fields(line)
		switch f[0] {
		case "pool":
			done <- vf01Pool(f)
		case "pd":
			done <- vf01PD(f)
		case "reg4", "reg6":
			done <- vf01Reg(f)
		default:
			done <- "badline"
		}
	}()
	select {
	case s := <-done:
		return s
	case <-time.After(20 * time.Second):
		return "hang"
	}
}

func TestVerifC01(t *testing.T) {
	in, err := os.Open(os.Getenv("VERIF_CASES"))
	if err != nil {
		t.Fatal(err)
	}
	defer in.Close()
	out, err := os.Create(os.Getenv("VERIF_OUT"))
	if err != nil {
		t.Fatal(err)
	}
	defer out.Close()
	w := bufio.NewWriter(out)
	defer w.Flush()
	sc := bufio.NewScanner(in)
	sc.Buffer(make([]byte, 1<<20), 1<<26)
	for sc.Scan() {
		if strings.TrimSpace(sc.Text()) == "" {
			continue
		}
		fmt.Fprintln(w, vf01Case(sc.Text()))
	}
}
