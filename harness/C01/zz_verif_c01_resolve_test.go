//go:build verif

package dhcp

// Correspondence harness for property C01, ResolveV4 / ResolveV6 part (exported API of pkg/allocator only).
// Case: res <profiles as for reg> ; ops   (see /verif/notes/C01.md)

import (
	"bufio"
	"errors"
	"fmt"
	"math/big"
	"net"
	"net/netip"
	"os"
	"strconv"
	"strings"
	"testing"
	"time"

	"github.com/veesix-networks/osvbng/pkg/allocator"
	"github.com/veesix-networks/osvbng/pkg/config/ip"
)

func vr01IP(tok string) net.IP {
	switch {
	case tok == "nil":
		return nil
	case tok == "bad":
		return net.IP{1, 2, 3, 4, 5}
	case strings.HasPrefix(tok, "4:"):
		n, _ := strconv.ParseUint(tok[2:], 10, 64)
		return net.IP{byte(n >> 24), byte(n >> 16), byte(n >> 8), byte(n)}
	case strings.HasPrefix(tok, "6:"):
		b, _ := new(big.Int).SetString(tok[2:], 10)
		out := make(net.IP, 16)
		b.FillBytes(out)
		return out
	}
	panic("bad address token " + tok)
}

func vr01Addr(tok string) netip.Addr {
	a, ok := netip.AddrFromSlice(vr01IP(tok))
	if !ok {
		panic("not an address: " + tok)
	}
	return a
}

func vr01ShowIP(b net.IP) string {
	switch len(b) {
	case 4:
		return "4:" + strconv.FormatUint(uint64(b[0])<<24|uint64(b[1])<<16|uint64(b[2])<<8|uint64(b[3]), 10)
	case 16:
		return "6:" + new(big.Int).SetBytes(b).String()
	case 0:
		return "nil"
	}
	return "bad"
}

func vr01Pfx(tok string) *net.IPNet {
	if tok == "nil" {
		return nil
	}
	i := strings.LastIndex(tok, "/")
	ipt, mt := tok[:i], tok[i+1:]
	n := &net.IPNet{IP: vr01IP(ipt)}
	switch mt {
	case "mnil":
	case "mbad":
		n.Mask = net.IPMask{0xff, 0x0f, 0xff, 0, 0, 0, 0, 0, 0, 0, 0, 0, 0, 0, 0, 0}
	default:
		p := strings.Split(mt, ":")
		ones, _ := strconv.Atoi(p[0])
		bits, _ := strconv.Atoi(p[1])
		n.Mask = net.CIDRMask(ones, bits)
	}
	return n
}

func vr01ShowPfx(p *net.IPNet) string {
	if p == nil {
		return "pnil"
	}
	ones, bits := p.Mask.Size()
	ipt := vr01ShowIP(p.IP)
	if len(p.IP) != 16 {
		return "p?" + ipt
	}
	return fmt.Sprintf("p%s/%d:%d", ipt[2:], ones, bits)
}

// Names from tokens.  Most tokens n give "<kind>n"; a few give names that differ from another one only in
// case, by being its prefix / extension, or by being empty - so that a comparison that folds case, looks at a
// prefix only or treats "" specially is visible.  (s: session ids, v: VRFs, p: profiles, n: pools.)
var vr01Alias = map[string]string{"s5": "S1", "s6": "s11", "s7": "", "s8": "s", "v3": "V1", "v4": "v11", "p7": "P1", "n7": "N1"}

func vr01Nm(kind byte, tok string) string {
	if a, ok := vr01Alias[string(kind)+tok]; ok {
		return a
	}
	return string(kind) + tok
}

func vr01UnNm(kind byte, name string) string {
	for k, a := range vr01Alias {
		if k[0] == kind && a == name {
			return k[1:]
		}
	}
	if len(name) < 2 {
		return "?" + name
	}
	return name[1:]
}

func vr01Name(pfx, tok string) string {
	if tok == "0" {
		return ""
	}
	return vr01Nm(pfx[0], tok)
}

func vr01AddrStr(tok string) string {
	if tok == "-" {
		return ""
	}
	if tok == "junk" {
		return "not-an-address"
	}
	return vr01Addr(tok).String()
}

func vr01BuildProfiles(f []string) (map[string]*ip.IPv4Profile, map[string]*ip.IPv6Profile, int) {
	np, _ := strconv.Atoi(f[1])
	p := 2
	v4p := map[string]*ip.IPv4Profile{}
	v6p := map[string]*ip.IPv6Profile{}
	for i := 0; i < np; i++ {
		pfname := vr01Nm('p', f[p])
		fam := f[p+1]
		pgw := vr01AddrStr(f[p+2])
		nk, _ := strconv.Atoi(f[p+3])
		p += 4
		if fam == "4" {
			if v4p[pfname] == nil {
				v4p[pfname] = &ip.IPv4Profile{Gateway: pgw}
			}
		} else if v6p[pfname] == nil {
			v6p[pfname] = &ip.IPv6Profile{}
		}
		for j := 0; j < nk; j++ {
			name := vr01Nm('n', f[p])
			prio, _ := strconv.Atoi(f[p+1])
			vrf := vr01Name("v", f[p+2])
			network := f[p+3]
			if network == "bad" {
				network = "not-a-prefix"
			} else {
				q := strings.Split(network, "/")
				network = vr01Addr(q[0]).String() + "/" + q[1]
			}
			ne, _ := strconv.Atoi(f[p+7])
			switch fam {
			case "d":
				pl, _ := strconv.Atoi(f[p+4])
				v6p[pfname].PDPools = append(v6p[pfname].PDPools, ip.PDPool{Name: name, Network: network, PrefixLength: uint8(pl), VRF: vrf})
			default:
				lo, hi, gw := vr01AddrStr(f[p+4]), vr01AddrStr(f[p+5]), vr01AddrStr(f[p+6])
				var excl []string
				for e := 0; e < ne; e++ {
					a, b := f[p+8+2*e], f[p+9+2*e]
					if b == "-" {
						excl = append(excl, " "+vr01AddrStr(a)+" ")
					} else {
						excl = append(excl, vr01AddrStr(a)+" - "+vr01AddrStr(b))
					}
				}
				if fam == "4" {
					v4p[pfname].Pools = append(v4p[pfname].Pools, ip.IPv4Pool{Name: name, Network: network, RangeStart: lo,
						RangeEnd: hi, Gateway: gw, VRF: vrf, Priority: prio, Exclude: excl})
				} else {
					v6p[pfname].IANAPools = append(v6p[pfname].IANAPools, ip.IANAPool{Name: name, Network: network,
						RangeStart: lo, RangeEnd: hi, Gateway: gw, VRF: vrf})
				}
			}
			p += 8 + 2*ne
		}
	}
	return v4p, v6p, p
}

func vr01Key(t string) string { // <pf>/<pool>
	q := strings.Split(t, "/")
	return vr01Nm('p', q[0]) + "/" + vr01Nm('n', q[1])
}

func vr01Unkey(k string) string {
	if k == "-" || k == "?" || k == "" {
		return k
	}
	q := strings.Split(k, "/")
	if len(q) != 2 {
		return "?" + k
	}
	return vr01UnNm('p', q[0]) + "/" + vr01UnNm('n', q[1])
}

func vr01Err(err error) string {
	switch {
	case err == nil:
		return "ok"
	case errors.Is(err, allocator.ErrAlreadyReserved):
		return "res"
	case errors.Is(err, allocator.ErrPoolExhausted):
		return "x"
	}
	return "err?"
}

// an AAA attribute from its token: "-" absent, "!" present but not a string, "junk" a string that is no
// address, <addr> / <addr>/<len> the textual address / CIDR; name=true: a pool name token (0 = "")
func vr01Attr(m map[string]interface{}, key, tok string, name bool) {
	switch {
	case tok == "-":
	case tok == "!":
		m[key] = 7
	case tok == "junk":
		m[key] = "not-an-address"
	case name:
		m[key] = vr01Name("n", tok)
	case strings.Contains(tok, "/"):
		i := strings.LastIndex(tok, "/")
		m[key] = vr01Addr(tok[:i]).String() + "/" + tok[i+1:]
	default:
		m[key] = vr01Addr(tok).String()
	}
}

func vr01Dash(s string) string {
	if s == "" {
		return "-"
	}
	return vr01Unkey(s)
}

func vr01Res(f []string) string {
	v4p, v6p, p := vr01BuildProfiles(f)
	var r *allocator.Registry
	if f[0] == "resn" {
		// no registry at all: GetGlobalRegistry() is nil, the registry ops go to a nil *Registry
		allocator.ResetGlobalRegistry()
	} else {
		r = allocator.InitGlobalRegistry(v4p, v6p)
		defer allocator.ResetGlobalRegistry()
	}
	var res []string
	// contexts persist per session within a case: Y/Z start a fresh one, y/z re-enter with the kept one
	c4 := map[string]*allocator.Context{}
	c6 := map[string]*allocator.Context{}
	for _, op := range f[p+1:] {
		switch op[0] {
		case 'n': // n<sid>: the protocol code drops the IPv4 address from the context, everything else stays
			if ctx := c4[op[1:]]; ctx != nil {
				ctx.IPv4Address = nil
				res = append(res, "ok")
			} else {
				res = append(res, "noctx")
			}
		case 'm': // m<sid>: same for the IPv6 address and prefix
			if ctx := c6[op[1:]]; ctx != nil {
				ctx.IPv6Address, ctx.IPv6Prefix = nil, nil
				res = append(res, "ok")
			} else {
				res = append(res, "noctx")
			}
		case 'Y', 'y', 'X': // Y<sid>,<pf>,<override>,<vrf>,<addr|->   y<sid>: ResolveV4 again with the kept context
			// X<sid>,<pf|0>,<vrf>,<ipv4_address attr>,<pool attr>: context built by allocator.NewContext from AAA attributes
			var ctx *allocator.Context
			if op[0] == 'X' {
				q := strings.Split(op[1:], ",")
				attrs := map[string]interface{}{}
				vr01Attr(attrs, "ipv4_address", q[3], false)
				vr01Attr(attrs, "pool", q[4], true)
				ctx = allocator.NewContext(vr01Nm('s', q[0]), nil, 0, 0, vr01Name("v", q[2]), "", vr01Name("p", q[1]), "", attrs)
				c4[q[0]] = ctx
			} else if op[0] == 'y' {
				if ctx = c4[op[1:]]; ctx == nil {
					res = append(res, "noctx")
					continue
				}
			} else {
				q := strings.Split(op[1:], ",")
				ctx = &allocator.Context{SessionID: vr01Nm('s', q[0]), ProfileName: vr01Nm('p', q[1]), PoolOverride: vr01Name("n", q[2]), VRF: vr01Name("v", q[3])}
				if q[4] != "-" {
					ctx.IPv4Address = vr01IP(q[4])
				}
				c4[q[0]] = ctx
			}
			prof := v4p[ctx.ProfileName]
			if prof == nil {
				prof = &ip.IPv4Profile{}
			}
			got := ResolveV4(ctx, prof)
			if got == nil {
				res = append(res, "nil")
			} else {
				res = append(res, "r"+vr01ShowIP(got.YourIP)+"@"+vr01Dash(got.PoolName))
			}
		case 'Z', 'z', 'W': // Z<sid>,<pf>,<iana override>,<pd override>,<vrf>,<addr|->,<pfx|->   z<sid>: again, kept context
			// W<sid>,<pf6|0>,<vrf>,<ipv6_address attr>,<ipv6_prefix attr>,<iana_pool attr>,<pd_pool attr>: NewContext
			var ctx *allocator.Context
			if op[0] == 'W' {
				q := strings.Split(op[1:], ",")
				attrs := map[string]interface{}{}
				vr01Attr(attrs, "ipv6_address", q[3], false)
				vr01Attr(attrs, "ipv6_prefix", q[4], false)
				vr01Attr(attrs, "iana_pool", q[5], true)
				vr01Attr(attrs, "pd_pool", q[6], true)
				ctx = allocator.NewContext(vr01Nm('s', q[0]), nil, 0, 0, vr01Name("v", q[2]), "", "", vr01Name("p", q[1]), attrs)
				c6[q[0]] = ctx
			} else if op[0] == 'z' {
				if ctx = c6[op[1:]]; ctx == nil {
					res = append(res, "noctx")
					continue
				}
			} else {
				q := strings.Split(op[1:], ",")
				ctx = &allocator.Context{SessionID: vr01Nm('s', q[0]), IPv6ProfileName: vr01Nm('p', q[1]), IANAPoolOverride: vr01Name("n", q[2]),
					PDPoolOverride: vr01Name("n", q[3]), VRF: vr01Name("v", q[4])}
				if q[5] != "-" {
					ctx.IPv6Address = vr01IP(q[5])
				}
				if q[6] != "-" {
					ctx.IPv6Prefix = vr01Pfx(q[6])
				}
				c6[q[0]] = ctx
			}
			given := ctx.IPv6Prefix != nil
			prof := v6p[ctx.IPv6ProfileName]
			if prof == nil {
				prof = &ip.IPv6Profile{}
			}
			got := ResolveV6(ctx, prof)
			s := "ok"
			if got == nil {
				s = "nil"
			}
			na, pd := "-", "-"
			if ctx.IPv6Address != nil {
				na = vr01ShowIP(ctx.IPv6Address)
			}
			if !given && ctx.IPv6Prefix != nil {
				pd = vr01ShowPfx(ctx.IPv6Prefix)
			}
			rna, rpd := "-", "-"
			if got != nil {
				// the result must carry the address / prefix the context carries
				if (got.IANAAddress == nil) != (ctx.IPv6Address == nil) || (got.PDPrefix == nil) != (ctx.IPv6Prefix == nil) {
					s = "INCONSISTENT"
				}
				rna, rpd = vr01Dash(got.IANAPoolName), vr01Dash(got.PDPoolName)
			}
			cpd := "-" // the prefix the context carries after the call, brought or allocated
			if ctx.IPv6Prefix != nil {
				cpd = vr01ShowPfx(ctx.IPv6Prefix)
			}
			res = append(res, fmt.Sprintf("%s;na=%s;napool=%s;pd=%s;pdpool=%s;rna=%s;rpd=%s;cpd=%s", s, na, vr01Dash(ctx.AllocatedIANAPool), pd, vr01Dash(ctx.AllocatedPDPool), rna, rpd, cpd))
		case 'A':
			fam := op[1]
			q := strings.Split(op[2:], ",")
			pf, ov, vrf, sid := vr01Nm('p', q[1]), vr01Name("n", q[2]), vr01Name("v", q[3]), vr01Nm('s', q[0])
			var shown, pool string
			var err error
			switch fam {
			case '4':
				var got net.IP
				got, pool, err = r.AllocateFromProfile(pf, ov, vrf, sid)
				shown = vr01ShowIP(got)
			case 'n':
				var got net.IP
				got, pool, err = r.AllocateIANAFromProfile(pf, ov, vrf, sid)
				shown = vr01ShowIP(got)
			default:
				var got *net.IPNet
				got, pool, err = r.AllocatePDFromProfile(pf, ov, vrf, sid)
				shown = vr01ShowPfx(got)
			}
			if err != nil {
				res = append(res, vr01Err(err))
			} else {
				res = append(res, "a"+vr01Unkey(pool)+"="+shown)
			}
		case 'L':
			fam := op[1]
			q := strings.Split(op[2:], ",")
			switch fam {
			case '4':
				r.Release(vr01Key(q[0]), vr01IP(q[1]))
			case 'n':
				r.ReleaseIANA(vr01Key(q[0]), vr01IP(q[1]))
			default:
				r.ReleasePD(vr01Key(q[0]), vr01Pfx(q[1]))
			}
			res = append(res, "ok")
		case 'I':
			fam := op[1]
			switch fam {
			case '4':
				r.ReleaseIP(vr01IP(op[2:]))
			case 'n':
				r.ReleaseIANAByIP(vr01IP(op[2:]))
			default:
				r.ReleasePDByPrefix(vr01Pfx(op[2:]))
			}
			res = append(res, "ok")
		default:
			res = append(res, "badop")
		}
	}
	return strings.Join(res, " ")
}

var _ = netip.Addr{}
var _ = big.NewInt

func TestVerifC01Resolve(t *testing.T) {
	in, err := os.Open(os.Getenv("VERIF_CASES"))
	if err != nil {
		t.Fatal(err)
	}
	defer in.Close()
	out, err := os.Create(os.Getenv("VERIF_OUT"))
	if err != nil {
		t.Fatal(err)
	}
	defer out.Close()
	w := bufio.NewWriter(out)
	defer w.Flush()
	sc := bufio.NewScanner(in)
	sc.Buffer(make([]byte, 1<<20), 1<<26)
	for sc.Scan() {
		line := sc.Text()
		if strings.TrimSpace(line) == "" {
			continue
		}
		done := make(chan string, 1)
		go func() {
			defer func() {
				if r := recover(); r != nil {
					done <- fmt.Sprintf("panic %.60s", strings.ReplaceAll(fmt.Sprint(r), "\n", " "))
				}
			}()
			done <- vr01Res(strings.Fields(line))
		}()
		select {
		case s := <-done:
			fmt.Fprintln(w, s)
		case <-time.After(20 * time.Second):
			fmt.Fprintln(w, "hang")
		}
	}
}
