//go:build verif

package configmgr

// C13 harness: drives the real ConfigManager (Create/Set/Close/Commit/Rollback/Delete, idle expiry)
// with recording handlers registered on real path patterns, failure injection at every point of
// Commit (k-th Apply, routing-daemon test, reload, startup-file write, version write) and prints a
// projection of every datastore after every operation.  See /verif/notes/C13.md for the format.

import (
	"bufio"
	"context"
	"crypto/md5"
	"encoding/hex"
	"fmt"
	"math/rand"
	"os"
	"path/filepath"
	"reflect"
	"sort"
	"strconv"
	"strings"
	"sync"
	"testing"
	"time"

	"github.com/veesix-networks/osvbng/pkg/config"
	"github.com/veesix-networks/osvbng/pkg/config/interfaces"
	"github.com/veesix-networks/osvbng/pkg/config/ip"
	"github.com/veesix-networks/osvbng/pkg/config/protocols"
	"github.com/veesix-networks/osvbng/pkg/config/subscriber"
	conf "github.com/veesix-networks/osvbng/pkg/handlers/conf"
	"github.com/veesix-networks/osvbng/pkg/handlers/conf/paths"
	pathspkg "github.com/veesix-networks/osvbng/pkg/paths"
	"gopkg.in/yaml.v3"
)

// a plugin namespace registered the way real plugins do it; LoadYAML then stores a typed *c13PluginConfig
const c13PluginNS = "verif.c13"

type c13PluginConfig struct {
	Enabled bool   `json:"enabled,omitempty" yaml:"enabled,omitempty"`
	Message string `json:"message,omitempty" yaml:"message,omitempty"`
	Note    string `json:"note,omitempty" yaml:"note,omitempty"`
	Limit   int    `json:"limit,omitempty" yaml:"limit,omitempty"`
}

func init() { RegisterPluginConfig(c13PluginNS, c13PluginConfig{}) }

type c13Env struct {
	mu         sync.Mutex
	trace      []string
	applyN     int // Apply calls seen in the current commit
	applyFail  int // fail the k-th Apply (0 = never)
	rbN        int // Rollback calls seen in the current commit
	rbFail     int // the k-th Rollback call returns an error (0 = never)
	recordEmit bool
	conc       bool // concurrent mode: an Apply of the value "FAIL" fails, every Rollback takes a while
	valFail    bool
	frrLog     string
	frrCtl     string
}

type c13Handler struct {
	env  *c13Env
	pat  paths.Path
	deps []paths.Path
	frr  bool
}

func c13Val(v interface{}) string {
	switch x := v.(type) {
	case int:
		return "i" + strconv.Itoa(x)
	case uint32:
		return "u" + strconv.FormatUint(uint64(x), 10)
	case string:
		if x == "" {
			return "s-"
		}
		return "s" + hex.EncodeToString([]byte(x))
	case bool:
		if x {
			return "b1"
		}
		return "b0"
	case *protocols.BGPNetwork:
		if x != nil && *x == (protocols.BGPNetwork{}) {
			return "p"
		}
		return "p?"
	case *interfaces.InterfaceConfig, *ip.VRFSConfig, *interfaces.IPv6Config:
		return c13ObjToken(reflect.ValueOf(v))
	case []string:
		if len(x) == 0 {
			return "l-"
		}
		var hs []string
		for _, e := range x {
			hs = append(hs, hex.EncodeToString([]byte(e)))
		}
		return "l" + strings.Join(hs, ":")
	}
	return "?"
}

// a pointer to a struct as a value token: "o" + the non-zero scalar fields by json tag, sorted
func c13ObjToken(v reflect.Value) string {
	if v.Kind() != reflect.Ptr || v.IsNil() {
		return "o?"
	}
	e := v.Elem()
	var fs []string
	for i := 0; i < e.NumField(); i++ {
		tag := strings.Split(e.Type().Field(i).Tag.Get("json"), ",")[0]
		if tag == "" || tag == "-" {
			continue // not serialised: not part of the value token
		}
		f := e.Field(i)
		switch f.Kind() {
		case reflect.String:
			if f.String() != "" {
				fs = append(fs, tag+"=s"+hex.EncodeToString([]byte(f.String())))
			}
		case reflect.Bool:
			if f.Bool() {
				fs = append(fs, tag+"=b1")
			}
		case reflect.Int, reflect.Int64:
			if f.Int() != 0 {
				fs = append(fs, tag+"=i"+strconv.FormatInt(f.Int(), 10))
			}
		case reflect.Uint32:
			if f.Uint() != 0 {
				fs = append(fs, tag+"=i"+strconv.FormatUint(f.Uint(), 10))
			}
		default:
			if !f.IsZero() {
				fs = append(fs, tag+"=?") // a nested object: outside what the value token can say
			}
		}
	}
	sort.Strings(fs)
	if len(fs) == 0 {
		return "o-"
	}
	return "o" + strings.Join(fs, ";")
}

// build the struct a path pattern expects from an "o..." token
func c13ObjValue(path string, tok string) (interface{}, bool) {
	t, err := leafTypeOf(reflect.TypeOf(&config.Config{}), strings.Split(path, "."))
	if err != nil || t == nil || t.Kind() != reflect.Ptr || t.Elem().Kind() != reflect.Struct {
		// the path does not take a struct: hand over an interface config anyway (wrong type for the leaf)
		t = reflect.TypeOf(&interfaces.InterfaceConfig{})
	}
	obj := reflect.New(t.Elem())
	if tok != "o-" {
		for _, kv := range strings.Split(tok[1:], ";") {
			i := strings.Index(kv, "=")
			if i < 0 {
				return nil, false
			}
			val, ok := c13ParseVal(kv[i+1:])
			if !ok {
				return nil, false
			}
			found := false
			for j := 0; j < t.Elem().NumField(); j++ {
				if strings.Split(t.Elem().Field(j).Tag.Get("json"), ",")[0] == kv[:i] {
					f := obj.Elem().Field(j)
					rv := reflect.ValueOf(val)
					if !rv.Type().ConvertibleTo(f.Type()) {
						return nil, false
					}
					f.Set(rv.Convert(f.Type()))
					found = true
				}
			}
			if !found {
				return nil, false
			}
		}
	}
	return obj.Interface(), true
}

func (h *c13Handler) Validate(ctx context.Context, hctx *conf.HandlerContext) error {
	if hctx.Config != nil && h.env.recordEmit {
		// LoadConfig validates the changes the walker emitted, in emission order (a Set validates before
		// the change gets its Config)
		h.env.trace = append(h.env.trace, "E:"+hctx.Path+"="+c13Val(hctx.NewValue))
	}
	if h.env.valFail {
		return fmt.Errorf("injected validation failure")
	}
	return nil
}
func (h *c13Handler) Apply(ctx context.Context, hctx *conf.HandlerContext) error {
	h.env.mu.Lock()
	defer h.env.mu.Unlock()
	h.env.applyN++
	if (h.env.applyFail != 0 && h.env.applyN == h.env.applyFail) || (h.env.conc && c13Val(hctx.NewValue) == c13Poison) {
		h.env.trace = append(h.env.trace, "A!"+hctx.Path+"="+c13Val(hctx.NewValue))
		return fmt.Errorf("injected apply failure")
	}
	if h.frr {
		hctx.MarkFRRReloadNeeded()
	}
	h.env.trace = append(h.env.trace, "A:"+hctx.Path+"="+c13Val(hctx.NewValue))
	return nil
}

// the value whose Apply fails in concurrent scenarios (independent of the interleaving, unlike a call counter)
var c13Poison = "s" + hex.EncodeToString([]byte("FAIL"))

func (h *c13Handler) Rollback(ctx context.Context, hctx *conf.HandlerContext) error {
	if h.env.conc {
		time.Sleep(300 * time.Microsecond) // undoing takes time: whoever could run meanwhile, will
	}
	h.env.mu.Lock()
	defer h.env.mu.Unlock()
	h.env.rbN++
	if h.env.rbFail != 0 && h.env.rbN == h.env.rbFail {
		h.env.trace = append(h.env.trace, "R!"+hctx.Path+"="+c13Val(hctx.NewValue))
		return fmt.Errorf("injected rollback failure")
	}
	h.env.trace = append(h.env.trace, "R:"+hctx.Path+"="+c13Val(hctx.NewValue))
	return nil
}
func (h *c13Handler) PathPattern() paths.Path    { return h.pat }
func (h *c13Handler) Dependencies() []paths.Path { return h.deps }
func (h *c13Handler) Callbacks() *conf.Callbacks { return nil }

// ---- projection of a configuration: sorted list of containers "p/" (non-empty maps, map entries,
// non-nil pointers to structs) and non-zero scalar leaves "p=v"; paths use the json tag names ----
func c13Walk(prefix string, v reflect.Value, out map[string]bool) {
	switch v.Kind() {
	case reflect.Ptr, reflect.Interface:
		if v.IsNil() {
			return
		}
		if v.Elem().Kind() == reflect.Struct || v.Elem().Kind() == reflect.Map {
			if prefix != "" && v.Elem().Kind() == reflect.Struct {
				out[prefix+"/"] = true
			}
		}
		c13Walk(prefix, v.Elem(), out)
	case reflect.Struct:
		t := v.Type()
		for i := 0; i < t.NumField(); i++ {
			tag := strings.Split(t.Field(i).Tag.Get("json"), ",")[0]
			if !t.Field(i).IsExported() {
				continue
			}
			if tag == "" || tag == "-" {
				// not serialised (json:"-": LCP, SubscriberAccess, MSSClamp, PWTransport) or untagged:
				// still part of the configuration object; shown as "~<field name>"
				tag = "~" + strings.ToLower(t.Field(i).Name)
			}
			p := tag
			if prefix != "" {
				p = prefix + "." + tag
			}
			c13Walk(p, v.Field(i), out)
		}
	case reflect.Map:
		if v.Len() == 0 {
			return
		}
		if prefix != "" {
			out[prefix+"/"] = true
		}
		for _, k := range v.MapKeys() {
			e := v.MapIndex(k)
			key := fmt.Sprint(k.Interface())
			if enc, err := pathspkg.EncodeIP(key); err == nil {
				key = enc // <*:ip> wildcards: the path carries the key hex-encoded
			} else if strings.Contains(key, "/") {
				key = hex.EncodeToString([]byte(key)) // <*:prefix> wildcards
			}
			p := prefix + "." + key
			u := e
			for u.Kind() == reflect.Interface || u.Kind() == reflect.Ptr {
				if u.IsNil() {
					break
				}
				u = u.Elem()
			}
			if u.Kind() == reflect.Struct || u.Kind() == reflect.Map {
				out[p+"/"] = true // a map entry that is itself an object exists even when it is empty
			}
			c13Walk(p, e, out)
		}
	case reflect.Slice, reflect.Array:
		if v.Type().Elem().Kind() == reflect.String {
			if v.Len() > 0 {
				var hs []string
				for i := 0; i < v.Len(); i++ {
					hs = append(hs, hex.EncodeToString([]byte(v.Index(i).String())))
				}
				out[prefix+"=l"+strings.Join(hs, ":")] = true
			}
			return
		}
		for i := 0; i < v.Len(); i++ {
			p := prefix + "." + strconv.Itoa(i)
			u := v.Index(i)
			for u.Kind() == reflect.Interface || u.Kind() == reflect.Ptr {
				if u.IsNil() {
					break
				}
				u = u.Elem()
			}
			if u.Kind() == reflect.Struct || u.Kind() == reflect.Map {
				out[p+"/"] = true
			}
			c13Walk(p, v.Index(i), out)
		}
	case reflect.String:
		if v.String() != "" {
			out[prefix+"=s"+hex.EncodeToString([]byte(v.String()))] = true
		}
	case reflect.Bool:
		if v.Bool() {
			out[prefix+"=b1"] = true
		}
	case reflect.Int, reflect.Int8, reflect.Int16, reflect.Int32, reflect.Int64:
		if v.Int() != 0 {
			out[prefix+"=i"+strconv.FormatInt(v.Int(), 10)] = true
		}
	case reflect.Uint, reflect.Uint8, reflect.Uint16, reflect.Uint32, reflect.Uint64:
		if v.Uint() != 0 {
			out[prefix+"=i"+strconv.FormatUint(v.Uint(), 10)] = true
		}
	case reflect.Float32, reflect.Float64:
		if v.Float() != 0 {
			if v.Float() == float64(int64(v.Float())) {
				out[prefix+"=i"+strconv.FormatInt(int64(v.Float()), 10)] = true // JSON round trip of an int
			} else {
				out[prefix+"=f"+strconv.FormatFloat(v.Float(), 'g', -1, 64)] = true
			}
		}
	}
}

func c13Project(cfg *config.Config) string {
	if cfg == nil {
		return "nil"
	}
	m := map[string]bool{}
	c13Walk("", reflect.ValueOf(cfg).Elem(), m)
	var l []string
	for k := range m {
		if k == "plugins/" {
			continue
		}
		// plugin namespaces are addressed without the "plugins." prefix
		l = append(l, strings.TrimPrefix(k, "plugins."))
	}
	sort.Strings(l)
	if len(l) == 0 {
		return "-"
	}
	return strings.Join(l, ",")
}

// c13Shared walks two configurations in parallel and returns the paths at which both hold the SAME pointer,
// map or slice (a write through one would be visible through the other); "ALL" when they are one object.
func c13Shared(a, b *config.Config) string {
	if a == nil || b == nil {
		return "-"
	}
	if a == b {
		return "ALL"
	}
	var out []string
	var walk func(prefix string, x, y reflect.Value)
	walk = func(prefix string, x, y reflect.Value) {
		if !x.IsValid() || !y.IsValid() || x.Type() != y.Type() {
			return
		}
		switch x.Kind() {
		case reflect.Interface:
			if !x.IsNil() && !y.IsNil() {
				walk(prefix, x.Elem(), y.Elem())
			}
		case reflect.Ptr:
			if x.IsNil() || y.IsNil() {
				return
			}
			if x.Pointer() == y.Pointer() {
				out = append(out, prefix)
				return
			}
			walk(prefix, x.Elem(), y.Elem())
		case reflect.Struct:
			t := x.Type()
			for i := 0; i < t.NumField(); i++ {
				if !t.Field(i).IsExported() {
					continue
				}
				tag := strings.Split(t.Field(i).Tag.Get("json"), ",")[0]
				if tag == "" || tag == "-" {
					tag = "~" + strings.ToLower(t.Field(i).Name)
				}
				p := tag
				if prefix != "" {
					p = prefix + "." + tag
				}
				walk(p, x.Field(i), y.Field(i))
			}
		case reflect.Map:
			if x.IsNil() || y.IsNil() || x.Len() == 0 {
				return
			}
			if x.Pointer() == y.Pointer() {
				out = append(out, prefix)
				return
			}
			for _, k := range x.MapKeys() {
				if yv := y.MapIndex(k); yv.IsValid() {
					walk(prefix+"."+fmt.Sprint(k.Interface()), x.MapIndex(k), yv)
				}
			}
		case reflect.Slice:
			if x.IsNil() || y.IsNil() || x.Len() == 0 || y.Len() == 0 {
				return
			}
			if x.Pointer() == y.Pointer() {
				out = append(out, prefix)
				return
			}
			for i := 0; i < x.Len() && i < y.Len(); i++ {
				walk(prefix+"."+strconv.Itoa(i), x.Index(i), y.Index(i))
			}
		}
	}
	walk("", reflect.ValueOf(a).Elem(), reflect.ValueOf(b).Elem())
	sort.Strings(out)
	if len(out) == 0 {
		return "-"
	}
	return strings.Join(out, ",")
}

func c13ProjectFile(path string) string {
	data, err := os.ReadFile(path)
	if err != nil {
		return "nofile"
	}
	var cfg config.Config
	if err := yaml.Unmarshal(data, &cfg); err != nil {
		return "CORRUPT"
	}
	return c13Project(&cfg)
}

func c13Versions(vs []ConfigVersion) string {
	if len(vs) == 0 {
		return "-"
	}
	var l []string
	for _, v := range vs {
		var cs []string
		for _, c := range v.Changes {
			cs = append(cs, c.Type+":"+c.Path)
		}
		l = append(l, strconv.Itoa(v.Version)+"["+strings.Join(cs, ",")+"]")
	}
	return strings.Join(l, ";")
}

func c13VersionFiles(dir string) string {
	ents, err := os.ReadDir(dir)
	if err != nil {
		return "-"
	}
	var vs []ConfigVersion
	for _, e := range ents {
		data, err := os.ReadFile(filepath.Join(dir, e.Name()))
		if err != nil {
			continue
		}
		var v ConfigVersion
		if err := yaml.Unmarshal(data, &v); err != nil {
			vs = append(vs, ConfigVersion{Version: -1})
			continue
		}
		if e.Name() != fmt.Sprintf("version-%05d.yaml", v.Version) {
			v.Version = -2
		}
		vs = append(vs, v)
	}
	sort.Slice(vs, func(i, j int) bool { return vs[i].Version < vs[j].Version })
	return c13Versions(vs)
}

func c13ParseVal(tok string) (interface{}, bool) {
	if len(tok) < 1 {
		return nil, false
	}
	switch tok[0] {
	case 'i':
		n, err := strconv.Atoi(tok[1:])
		return n, err == nil
	case 'u':
		n, err := strconv.ParseUint(tok[1:], 10, 32)
		return uint32(n), err == nil
	case 's':
		if tok == "s-" {
			return "", true
		}
		b, err := hex.DecodeString(tok[1:])
		return string(b), err == nil
	case 'b':
		return tok == "b1", tok == "b1" || tok == "b0"
	case 'p':
		return &protocols.BGPNetwork{}, tok == "p"
	case 'l':
		l := []string{}
		if tok == "l-" {
			return l, true
		}
		for _, h := range strings.Split(tok[1:], ":") {
			b, err := hex.DecodeString(h)
			if err != nil {
				return nil, false
			}
			l = append(l, string(b))
		}
		return l, true
	}
	return nil, false
}

func c13Err(err error) string {
	if err == nil {
		return "ok"
	}
	m := err.Error()
	for _, pre := range []string{"failed to commit: ", "failed to create session: "} {
		m = strings.TrimPrefix(m, pre)
	}
	switch {
	case strings.HasPrefix(m, "failed to save startup version"):
		return "bootversion"
	case strings.HasPrefix(m, "failed to process") || strings.HasPrefix(m, "failed to load config"):
		return "booterr"
	case strings.Contains(m, "configuration is locked"):
		return "locked"
	case strings.HasPrefix(m, "session ") && strings.HasSuffix(m, "not found"):
		return "nosession"
	case strings.HasPrefix(m, "no handler for path"):
		return "nohandler"
	case strings.HasPrefix(m, "validation failed"):
		return "invalid"
	case strings.HasPrefix(m, "failed to set value"):
		return "setfail"
	case strings.Contains(m, "circular dependency"):
		return "cycle"
	case strings.Contains(m, "to be configured first"):
		return "depmissing"
	case strings.HasPrefix(m, "failed to resolve dependencies"):
		return "deperr"
	case strings.HasPrefix(m, "no changes to commit"):
		return "nochanges"
	case strings.HasPrefix(m, "pre-commit validation failed"):
		return "precommit"
	case strings.HasPrefix(m, "failed to apply change"):
		return "applyfail"
	case strings.HasPrefix(m, "FRR config validation failed"):
		return "frrtest"
	case strings.HasPrefix(m, "FRR reload failed") && strings.Contains(m, "restoring the running configuration failed too"):
		return "frrreloadU"
	case strings.HasPrefix(m, "failed to save startup config") && strings.Contains(m, "restoring the running configuration failed too"):
		return "startupsaveU"
	case strings.HasPrefix(m, "FRR reload failed") || strings.HasPrefix(m, "frr-reload failed"):
		return "frrreload"
	case strings.HasPrefix(m, "failed to write config file"):
		return "savefail"
	case strings.HasPrefix(m, "failed to save startup config"):
		return "startupsave"
	case strings.HasPrefix(m, "failed to save version"):
		return "versionsave"
	case strings.HasPrefix(m, "invalid version"):
		return "badversion"
	case strings.HasPrefix(m, "invalid config type in version"):
		return "badvertype"
	case strings.HasSuffix(m, "not yet implemented"):
		return "notimpl"
	}
	return "othererr"
}

type c13State struct{ comps [10]string }

func (cd *ConfigManager) c13Snapshot(goodStartup, goodVerDir string) [10]string {
	var s [10]string
	r, _ := cd.GetRunning()
	st, _ := cd.GetStartup()
	s[0] = c13Project(r)
	s[1] = c13Project(st)
	s[2] = c13ProjectFile(goodStartup)
	var ids []string
	for id := range cd.sessions {
		ids = append(ids, string(id))
	}
	sort.Strings(ids)
	var cs []string
	for _, id := range ids {
		sess := cd.sessions[conf.SessionID(id)]
		n := 0
		if sess != nil {
			n = len(sess.changes)
		}
		cs = append(cs, id+"#"+strconv.Itoa(n)+"{"+c13Project(sess.config)+"}")
	}
	s[3] = strings.Join(cs, "+")
	if s[3] == "" {
		s[3] = "-"
	}
	s[4] = string(cd.lockOwner)
	if s[4] == "" {
		s[4] = "-"
	}
	vs, _ := cd.ListVersions()
	s[5] = c13Versions(vs)
	s[6] = c13VersionFiles(goodVerDir)
	s[7] = strconv.FormatUint(cd.nextSessionID, 10)
	// H: disjointness — what each candidate shares with running (and running with startup)
	var hs []string
	for _, id := range ids {
		if sess := cd.sessions[conf.SessionID(id)]; sess != nil {
			hs = append(hs, "c:"+c13Shared(sess.config, r))
		}
	}
	hs = append(hs, "s:"+c13Shared(st, r))
	s[9] = strings.Join(hs, "+")
	// D: what the routing daemon runs — nothing loaded yet / the rendering of the running config / something else
	s[8] = "none"
	if data, err := os.ReadFile(filepath.Join(filepath.Dir(goodStartup), "frr.applied")); err == nil {
		s[8] = "other"
		if txt, err := cd.frrConfig.GenerateConfig(r); err == nil && txt == string(data) {
			s[8] = "run"
		}
	}
	return s
}

var c13Names = [10]string{"R", "S", "F", "C", "L", "V", "W", "N", "D", "H"}

func c13RunCase(line string, root string, idx int, templates string) (res string) {
	defer func() {
		if r := recover(); r != nil {
			res = "panic " + strings.ReplaceAll(fmt.Sprint(r), " ", "_")
		}
	}()
	f := strings.Fields(line)
	conc := false
	if len(f) > 0 && f[0] == "conc" {
		conc = true
		f = f[1:]
	}
	if len(f) < 2 || f[0] != "reg" {
		return "badline"
	}
	dir := filepath.Join(root, fmt.Sprintf("case%d", idx))
	if err := os.MkdirAll(dir, 0755); err != nil {
		return "harness-error mkdir"
	}
	defer os.RemoveAll(dir)
	env := &c13Env{frrLog: filepath.Join(dir, "frr.log"), frrCtl: filepath.Join(dir, "frr.ctl")}
	script := filepath.Join(dir, "frr-reload.sh")
	// The routing daemon: a script that records the mode it was called with.  A line "--test" / "--reload" in
	// the control file makes that call fail once (the line is consumed); "--reload-partial" makes the reload
	// fail AFTER the daemon has taken the candidate (frr-reload.py applies its diff line by line).  A reload
	// that takes effect copies the rendered candidate to frr.applied = the configuration the daemon runs.
	applied := filepath.Join(dir, "frr.applied")
	// every --reload call consumes the FIRST remaining "--reload*" line of the control file:
	//   --reload-ok succeed, --reload fail without touching the daemon, --reload-partial take the candidate, then fail
	body := "#!/bin/sh\nCTL=" + env.frrCtl + "\necho \"$1\" >> " + env.frrLog + "\n" +
		"first() { grep -m1 -- \"^$1\" $CTL 2>/dev/null; }\n" +
		"consume() { awk -v m=\"$1\" 'BEGIN{d=0} { if(!d && $0==m){d=1;next} print }' $CTL > $CTL.tmp; mv $CTL.tmp $CTL; }\n" +
		"if [ \"$1\" = \"--test\" ]; then if grep -q -x -- --test $CTL 2>/dev/null; then consume --test; exit 1; fi; exit 0; fi\n" +
		"L=$(first --reload)\nif [ -n \"$L\" ]; then consume \"$L\"; fi\n" +
		"case \"$L\" in\n  --reload) exit 1;;\n  --reload-partial) cp \"$2\" " + applied + "; exit 1;;\nesac\n" +
		"cp \"$2\" " + applied + "\nexit 0\n"
	if err := os.WriteFile(script, []byte(body), 0755); err != nil {
		return "harness-error script"
	}
	// rendering: every scalar of every protocols.* section, so that two configurations render equal iff
	// their protocols subtrees are equal (the real templates skip sections that are not enabled)
	templates = filepath.Join(dir, "tmpl")
	os.MkdirAll(filepath.Join(templates, "frr"), 0755)
	os.WriteFile(filepath.Join(templates, "frr", "none.tmpl"), []byte("{{define \"none\"}}{{end}}"), 0644)
	os.WriteFile(filepath.Join(templates, "frr.conf.tmpl"), []byte(
		"{{with .Protocols.BGP}}bgp {{.ASN}} {{printf \"%q\" .RouterID}}{{range $k, $v := .Neighbors}} n:{{$k}}:{{printf \"%q %q %d %v\" $v.Description $v.Peer $v.RemoteAS $v.BFD}}{{end}}{{with .IPv4Unicast}} v4{{range $k, $v := .Networks}} net:{{$k}}:{{printf \"%q\" $v.RoutePolicy}}{{end}}{{end}}\n{{end}}{{with .Protocols.OSPF}}ospf {{printf \"%+v\" .}}\n{{end}}"+
			"{{with .Protocols.OSPF6}}ospf6 {{printf \"%+v\" .}}\n{{end}}{{with .Protocols.ISIS}}isis {{printf \"%+v\" .}}\n{{end}}"+
			"{{with .Protocols.Static}}static {{printf \"%+v\" .}}\n{{end}}{{with .Protocols.MPLS}}mpls {{printf \"%+v\" .}}\n{{end}}"+
			"{{with .Protocols.LDP}}ldp {{printf \"%+v\" .}}\n{{end}}"), 0644)
	cd := NewConfigManager()
	cd.frrConfig.ReloadCmd = script
	cd.frrConfig.TemplateDir = templates
	goodStartup := filepath.Join(dir, "startup-config.yaml")
	goodVerDir := filepath.Join(dir, "versions")
	blocker := filepath.Join(dir, "blocker")
	os.WriteFile(blocker, []byte("x"), 0644)
	badStartup := filepath.Join(blocker, "startup-config.yaml") // parent is a regular file: every write fails
	badVerDir := filepath.Join(blocker, "versions")
	cd.startupConfigPath = goodStartup
	cd.versionDir = goodVerDir

	n, _ := strconv.Atoi(f[1])
	p := 2
	pats := make([]string, n)
	hs := make([]*c13Handler, n)
	depIdx := make([][]int, n)
	for i := 0; i < n; i++ {
		// <pattern> <kind> <conts> <deps> <frr>
		pats[i] = f[p]
		hs[i] = &c13Handler{env: env, pat: paths.Path(f[p]), frr: f[p+4] == "1"}
		if f[p+3] != "-" {
			for _, d := range strings.Split(f[p+3], ",") {
				k, _ := strconv.Atoi(d)
				depIdx[i] = append(depIdx[i], k)
			}
		}
		p += 5
	}
	for i := 0; i < n; i++ {
		for _, k := range depIdx[i] {
			hs[i].deps = append(hs[i].deps, paths.Path(pats[k]))
		}
		if err := cd.registry.Register(hs[i]); err != nil {
			return "harness-error duplicate-pattern"
		}
	}
	// optional guard: a subscriber group in the initial running configuration that makes the
	// pre-commit validation depend on interfaces.<name>.mtu   ("guard <ifname> <mru>")
	if p < len(f) && f[p] == "guard" {
		ifn := f[p+1]
		mru, _ := strconv.Atoi(f[p+2])
		p += 3
		cd.runningConfig = c13GuardConfig(ifn, uint16(mru))
		cd.startupConfig = cd.deepCopyConfig(cd.runningConfig)
		cd.refreshMixedAccessSet()
		cd.refreshSGSnapshot()
	}
	// optional: a running configuration with everything deepCopyConfig special-cases and the validators read:
	// hidden (json:"-") flags on an interface and its subinterfaces, an autoconfig-derived subinterface
	// (SubscriberAccess), an MSS clamp spec, and two subscriber groups that do ("deep 1") or do not ("deep 0")
	// claim the same (S-VLAN, C-VLAN)
	if p < len(f) && f[p] == "deep" {
		cd.runningConfig = c13DeepConfig(f[p+1] == "1")
		cd.startupConfig = cd.deepCopyConfig(cd.runningConfig)
		cd.refreshMixedAccessSet()
		cd.refreshSGSnapshot()
		p += 2
	}
	// optional: bring the manager up from a startup file carrying a registered plugin namespace
	//   "plugin typed|prod <message> <limit>"   typed: running is what LoadYAML returned (typed pointer in
	//   cfg.Plugins); prod: running is cd.startupConfig, as ApplyLoadedConfig does it
	if p < len(f) && f[p] == "plugin" {
		mode := f[p+1]
		msg, _ := c13ParseVal(f[p+2])
		lim, _ := strconv.Atoi(f[p+3])
		p += 4
		y := fmt.Sprintf("plugins:\n  %s:\n    message: %q\n    limit: %d\n", c13PluginNS, msg.(string), lim)
		boot := filepath.Join(dir, "boot.yaml")
		os.WriteFile(boot, []byte(y), 0644)
		cfg, err := cd.LoadStartupConfig(boot)
		if err != nil {
			return "harness-error boot " + strings.ReplaceAll(err.Error(), " ", "_")
		}
		if _, ok := cfg.Plugins[c13PluginNS].(*c13PluginConfig); !ok {
			return "harness-error plugin-not-typed"
		}
		if mode == "typed" {
			cd.runningConfig = cfg
		} else {
			cd.runningConfig = cd.startupConfig
		}
		cd.refreshMixedAccessSet()
		cd.refreshSGSnapshot()
	}
	if p+1 < len(f) && f[p] == "init" { // the model's initial store; the harness builds it from the recipe
		p += 2
	}
	if conc {
		env.conc = true
		c13Envs.Store(cd, env)
		defer c13Envs.Delete(cd)
		seed, _ := strconv.ParseInt(os.Getenv("VERIF_SEED"), 10, 64)
		return c13RunConc(cd, f[p:], goodStartup, goodVerDir, seed*1000003+int64(idx))
	}
	if p >= len(f) || f[p] != "ops" {
		return "badline"
	}
	p++
	prev := cd.c13Snapshot(goodStartup, goodVerDir)
	var out []string
	// "@" names the session holding the lock (or, when nobody does, the last id issued)
	sid := func(tok string) conf.SessionID {
		if tok == "@" {
			if cd.lockOwner != "" {
				return cd.lockOwner
			}
			return conf.SessionID("session-" + strconv.FormatUint(cd.nextSessionID, 10))
		}
		return conf.SessionID("session-" + tok)
	}
	for p < len(f) {
		op := f[p]
		var r string
		env.trace = nil
		switch op {
		case "c":
			p++
			id, err := cd.CreateCandidateSession()
			if err != nil {
				r = c13Err(err)
			} else {
				r = string(id)
			}
		case "x":
			r = c13Err(cd.CloseCandidateSession(sid(f[p+1])))
			p += 2
		case "d":
			r = c13Err(cd.Delete(sid(f[p+1]), "interfaces.eth0"))
			p += 2
		case "s":
			v, ok := c13ParseVal(f[p+3])
			if strings.HasPrefix(f[p+3], "o") {
				v, ok = c13ObjValue(f[p+2], f[p+3])
			}
			if !ok {
				return "badline"
			}
			env.valFail = f[p+4] == "1"
			r = c13Err(cd.Set(sid(f[p+1]), f[p+2], v))
			env.valFail = false
			p += 5
		case "t":
			mins, _ := strconv.Atoi(f[p+1])
			for _, s := range cd.sessions {
				s.lastActivity = s.lastActivity.Add(-time.Duration(mins) * time.Minute)
			}
			r = "ok"
			p += 2
		case "b":
			v, _ := strconv.Atoi(f[p+1])
			r = c13Err(cd.Rollback(v))
			p += 2
		case "S": // SaveStartup(), optionally with an unwritable startup file
			if f[p+1] == "1" {
				cd.startupConfigPath = badStartup
			}
			r = c13Err(cd.SaveStartup())
			cd.startupConfigPath = goodStartup
			p += 2
		case "Z": // ResetForRecovery()
			cd.ResetForRecovery()
			r = "ok"
			p++
		case "F": // ReloadFRR() with the first reload outcome: - ok, r fails, R takes the config and fails
			ctl := "--reload-ok\n"
			if f[p+1] == "r" {
				ctl = "--reload\n"
			} else if f[p+1] == "R" {
				ctl = "--reload-partial\n"
			}
			os.WriteFile(env.frrCtl, []byte(ctl), 0644)
			os.Remove(env.frrLog)
			r = c13Err(cd.ReloadFRR())
			os.WriteFile(env.frrCtl, nil, 0644)
			if data, e := os.ReadFile(env.frrLog); e == nil {
				for _, l := range strings.Fields(string(data)) {
					env.trace = append(env.trace, "F:"+strings.TrimPrefix(l, "--"))
				}
			}
			p += 2
		case "l":
			// LoadConfig(session, a copy of the candidate [with other subscriber groups])
			id := sid(f[p+1])
			base := cd.runningConfig
			if sess := cd.sessions[id]; sess != nil {
				base = sess.config
			}
			cfg := cd.deepCopyConfig(base)
			switch f[p+2] {
			case "c":
				cfg.SubscriberGroups = c13DeepConfig(true).SubscriberGroups
			case "n":
				cfg.SubscriberGroups = c13DeepConfig(false).SubscriberGroups
			case "m": // both groups carry the same OUT-OF-RANGE S-VLAN: GetSVLANs fails, ValidateMatchIndex rejects (461c9d7)
				cfg.SubscriberGroups = c13DeepConfig(true).SubscriberGroups
				for _, g := range cfg.SubscriberGroups.Groups {
					for i := range g.VLANs {
						g.VLANs[i].SVLAN = "5000"
					}
				}
			}
			env.recordEmit = true
			r = c13Err(cd.LoadConfig(id, cfg))
			env.recordEmit = false
			p += 4
		case "m", "B":
			fault := f[p+2]
			if op == "B" {
				fault = f[p+1]
			}
			k := 0
			flags := ""
			if i := strings.Index(fault, ":"); i >= 0 {
				k, _ = strconv.Atoi(fault[:i])
				flags = fault[i+1:]
			}
			env.applyN, env.applyFail = 0, k
			env.rbN, env.rbFail = 0, 0
			if i := strings.Index(flags, "q"); i >= 0 && i+1 < len(flags) {
				env.rbFail = int(flags[i+1] - '0')
			}
			ctl := ""
			if strings.Contains(flags, "t") {
				ctl += "--test\n"
			}
			switch {
			case strings.Contains(flags, "R"):
				ctl += "--reload-partial\n"
			case strings.Contains(flags, "r"):
				ctl += "--reload\n"
			default:
				ctl += "--reload-ok\n"
			}
			if strings.Contains(flags, "u") { // the restoring reload fails too (the daemon is down)
				ctl += "--reload\n"
			}
			os.WriteFile(env.frrCtl, []byte(ctl), 0644)
			os.Remove(env.frrLog)
			if strings.Contains(flags, "s") {
				cd.startupConfigPath = badStartup
			}
			if strings.Contains(flags, "v") {
				cd.versionDir = badVerDir
			}
			var err error
			if op == "B" {
				// the start-up path: LoadStartupConfig + ApplyLoadedConfig of a configuration with a CGNAT pool
				boot := filepath.Join(dir, "boot-cgnat.yaml")
				y := "interfaces:\n  eth1:\n    name: eth1\n    enabled: true\n    mtu: 1500\n    description: wan\n" +
					"cgnat:\n  pools:\n    p1:\n      outside_interfaces: [eth1]\n      outside-addresses: [\"203.0.113.0/24\"]\n"
				if strings.Contains(flags, "G") { // a start-up file whose subscriber groups claim the same (S-VLAN, C-VLAN)
					vr := "        - svlan: \"100\"\n          cvlan: any\n          access-types: [ipoe]\n          parent-interface: eth1\n"
					y += "subscriber-groups:\n  groups:\n    a:\n      vlans:\n" + vr + "    b:\n      vlans:\n" + vr
				}
				os.WriteFile(boot, []byte(y), 0644)
				if _, err = cd.LoadStartupConfig(boot); err == nil {
					env.recordEmit = true
					err = cd.ApplyLoadedConfig()
					env.recordEmit = false
				}
			} else {
				err = cd.Commit(sid(f[p+1]))
			}
			cd.startupConfigPath = goodStartup
			cd.versionDir = goodVerDir
			env.applyFail, env.rbFail = 0, 0
			os.WriteFile(env.frrCtl, nil, 0644)
			r = c13Err(err)
			// merge the routing-daemon calls into the trace: they happen after all Apply calls and
			// before any Rollback call of the same commit, unless they come from a later restore
			frr := []string{}
			if data, e := os.ReadFile(env.frrLog); e == nil {
				for _, l := range strings.Fields(string(data)) {
					frr = append(frr, "F:"+strings.TrimPrefix(l, "--"))
				}
			}
			var tr []string
			i := 0
			for ; i < len(env.trace) && !strings.HasPrefix(env.trace[i], "R:") && !strings.HasPrefix(env.trace[i], "R!"); i++ {
				tr = append(tr, env.trace[i])
			}
			tr = append(tr, frr...)
			tr = append(tr, env.trace[i:]...)
			env.trace = tr
			if op == "B" {
				p += 4
			} else {
				p += 3
			}
		default:
			return "badline"
		}
		cur := cd.c13Snapshot(goodStartup, goodVerDir)
		var parts []string
		for i := range cur {
			if cur[i] != prev[i] {
				parts = append(parts, c13Names[i]+"="+cur[i])
			}
		}
		prev = cur
		tr := "-"
		if len(env.trace) > 0 {
			tr = strings.Join(env.trace, ",")
		}
		st := "~"
		if len(parts) > 0 {
			st = strings.Join(parts, " ")
		}
		out = append(out, r+" "+tr+" "+st)
	}
	if len(out) == 0 {
		return "empty"
	}
	return strings.Join(out, " ; ")
}

// concurrent mode: "threads <T> <ops of thread 0> | <ops of thread 1> | ..." where an op is one token:
// c | x | d | m | s:<path>:<value>.  Every thread addresses the session it created itself.
func c13RunConc(cd *ConfigManager, f []string, goodStartup, goodVerDir string, seed int64) string {
	if len(f) < 2 || f[0] != "threads" {
		return "badline"
	}
	nt, _ := strconv.Atoi(f[1])
	scripts := make([][]string, nt)
	t := 0
	for _, tok := range f[2:] {
		if tok == "|" {
			t++
			continue
		}
		if t >= nt {
			return "badline"
		}
		scripts[t] = append(scripts[t], tok)
	}
	results := make([][]string, nt)
	start := make(chan struct{})
	var wg sync.WaitGroup
	for i := 0; i < nt; i++ {
		wg.Add(1)
		go func(i int) {
			defer wg.Done()
			defer func() {
				if r := recover(); r != nil {
					results[i] = append(results[i], "panic")
				}
			}()
			my := conf.SessionID("session-0")
			rnd := rand.New(rand.NewSource(seed + int64(i)*7919))
			<-start
			for _, op := range scripts[i] {
				// spread the operations of the threads over a few hundred microseconds so that they overlap
				time.Sleep(time.Duration(rnd.Intn(300)) * time.Microsecond)
				var r string
				// a digit after the op letter addresses that session id explicitly (shared sessions)
				tgt := my
				if len(op) >= 2 && op[1] >= '0' && op[1] <= '9' && (op[0] == 's' || op[0] == 'm' || op[0] == 'x') {
					tgt = conf.SessionID("session-" + string(op[1]))
					op = op[:1] + op[2:]
				}
				switch {
				case op == "c":
					id, err := cd.CreateCandidateSession()
					if err != nil {
						r = c13Err(err)
					} else {
						r = string(id)
						my = id
					}
				case op == "x":
					r = c13Err(cd.CloseCandidateSession(tgt))
				case op == "d":
					r = c13Err(cd.Delete(my, "interfaces.eth0"))
				case op == "m":
					r = c13Err(cd.Commit(tgt))
				case strings.HasPrefix(op, "s:"):
					parts := strings.SplitN(op, ":", 3)
					v, ok := c13ParseVal(parts[2])
					if !ok {
						r = "badvalue"
					} else {
						r = c13Err(cd.Set(tgt, parts[1], v))
					}
				case op == "g":
					// a reader: running must always be a configuration some commit published
					cfg, _ := cd.GetRunning()
					r = fmt.Sprintf("g:%x", md5.Sum([]byte(c13Project(cfg))))
				default:
					r = "badop"
				}
				results[i] = append(results[i], r)
			}
		}(i)
	}
	close(start)
	wg.Wait()
	var parts []string
	for i := 0; i < nt; i++ {
		parts = append(parts, "T"+strconv.Itoa(i)+":"+strings.Join(results[i], ","))
	}
	snap := cd.c13Snapshot(goodStartup, goodVerDir)
	var st []string
	for i := range snap {
		st = append(st, c13Names[i]+"="+snap[i])
	}
	tr := "-"
	if len(cd.c13env().trace) > 0 {
		tr = strings.Join(cd.c13env().trace, ",")
	}
	return strings.Join(parts, " ") + " | " + strings.Join(st, " ") + " A=" + tr
}

var c13Envs sync.Map

func (cd *ConfigManager) c13env() *c13Env {
	v, _ := c13Envs.Load(cd)
	return v.(*c13Env)
}

func c13DeepConfig(collide bool) *config.Config {
	sv := "101"
	if collide {
		sv = "100"
	}
	y := fmt.Sprintf(`
subscriber-groups:
  groups:
    a:
      vlans:
        - svlan: "100"
          cvlan: any
    b:
      vlans:
        - svlan: "%s"
          cvlan: any
`, sv)
	cfg := &config.Config{}
	if err := yaml.Unmarshal([]byte(y), cfg); err != nil {
		panic("deep config: " + err.Error())
	}
	cfg.Interfaces = map[string]*interfaces.InterfaceConfig{
		"eth1": {Name: "eth1", Enabled: true, LCP: true, Subinterfaces: interfaces.SubinterfaceMap{
			"100": {ID: 100, VLAN: 100, Enabled: true, LCP: true, SubscriberAccess: true,
				MSSClamp: &interfaces.MSSClampSpec{Enabled: true, IPv4MSS: 1400, IPv6MSS: 1380}},
			"200": {ID: 200, VLAN: 200, Description: "op", LCP: true},
		}},
		// a second parent: the same child names with DIFFERENT hidden state (the sidecar of deepCopyConfig is keyed
		// by parent AND child), and hidden state of its own
		"eth2": {Name: "eth2", Enabled: true, Subinterfaces: interfaces.SubinterfaceMap{
			"100": {ID: 100, VLAN: 100, Description: "op2"},
			"200": {ID: 200, VLAN: 200, SubscriberAccess: true, MSSClamp: &interfaces.MSSClampSpec{Enabled: true, IPv4MSS: 1300}},
			"300": {ID: 300, VLAN: 300, LCP: true},
		}},
		"eth3": {Name: "eth3", LCP: true},
	}
	return cfg
}

func c13GuardConfig(ifn string, mru uint16) *config.Config {
	y := fmt.Sprintf(`
subscriber-groups:
  groups:
    g1:
      access-type: pppoe
      pppoe:
        mru: %d
      vlans:
        - svlan: "100"
          cvlan: any
          access-types: [pppoe]
          parent-interface: %s
`, mru, ifn)
	cfg := &config.Config{}
	if err := yaml.Unmarshal([]byte(y), cfg); err != nil {
		panic("guard config: " + err.Error())
	}
	_ = subscriber.AccessTypePPPoE
	return cfg
}

func TestVerifC13(t *testing.T) {
	in, err := os.Open(os.Getenv("VERIF_CASES"))
	if err != nil {
		t.Fatal(err)
	}
	defer in.Close()
	outf, err := os.Create(os.Getenv("VERIF_OUT"))
	if err != nil {
		t.Fatal(err)
	}
	defer outf.Close()
	w := bufio.NewWriter(outf)
	defer w.Flush()
	wd, _ := os.Getwd()
	templates := filepath.Join(wd, "..", "..", "templates")
	root := t.TempDir()
	sc := bufio.NewScanner(in)
	sc.Buffer(make([]byte, 1<<20), 1<<26)
	idx := 0
	for sc.Scan() {
		line := sc.Text()
		idx++
		done := make(chan string, 1)
		go func(idx int) {
			if strings.HasPrefix(line, "conc ") {
				// a concurrent scenario is run several times with different jitter; every run is checked
				var rs []string
				for rep := 0; rep < 8; rep++ {
					rs = append(rs, c13RunCase(line, root, idx*100+rep, templates))
				}
				done <- strings.Join(rs, " || ")
				return
			}
			done <- c13RunCase(line, root, idx, templates)
		}(idx)
		select {
		case r := <-done:
			fmt.Fprintln(w, r)
		case <-time.After(180 * time.Second):
			fmt.Fprintln(w, "hang")
		}
	}
}
