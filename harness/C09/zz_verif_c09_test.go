//go:build verif

package aaa

// C09 correspondence harness: drives the real AAA component (handleSessionLifecycle,
// handleSessionRestored, ProcessAccountingBucket, loadAcctSessions, pruneOrphanedAcctEntries)
// with a recording auth provider, an in-memory opdb and a scripted stats snapshot.
//
// case line:   S <k> {<id>:<bucket>:<type>}  <op> <op> ...
//   A,<i>,<ifx>            lifecycle event, state active, session i
//   R,<i>,<ifx>            restored event
//   X,<i>,<snap>           lifecycle event, state released
//   T,<bucket>,<failmask>,<snap>   ProcessAccountingBucket(bucket); sessions in failmask get an error from UpdateAccounting
//   B                      restart: new component over the same opdb, loadAcctSessions
//   P,<0|1>                pruneOrphanedAcctEntries(now [+10 min])
//   snap: "-" snapshot unavailable, "e" empty, else idx:rxb:txb:rxp:txp joined by "+"
// output line: one [...] group per op listing the provider calls it caused (sorted by session), then "; " and a
// dump of cache / bucket / opdb state per session.

import (
	"bufio"
	"context"
	"encoding/json"
	"errors"
	"fmt"
	"net"
	"os"
	"runtime"
	"sort"
	"strconv"
	"strings"
	"sync"
	"testing"
	"time"

	"github.com/veesix-networks/osvbng/pkg/auth"
	"github.com/veesix-networks/osvbng/pkg/component"
	"github.com/veesix-networks/osvbng/pkg/events"
	"github.com/veesix-networks/osvbng/pkg/handlers/show/paths"
	"github.com/veesix-networks/osvbng/pkg/logger"
	"github.com/veesix-networks/osvbng/pkg/models"
	"github.com/veesix-networks/osvbng/pkg/opdb"
	"github.com/veesix-networks/osvbng/pkg/provider"
	"github.com/veesix-networks/osvbng/pkg/southbound"
)

type vf09Call struct {
	kind           byte
	sid            string
	rx, tx, rp, tp uint64
	ok             bool
	seq            int
}

type vf09Provider struct {
	mu    sync.Mutex
	calls []vf09Call
	fail  map[string]bool
}

func (*vf09Provider) Info() provider.Info { return provider.Info{} }
func (*vf09Provider) Authenticate(context.Context, *auth.AuthRequest) (*auth.AuthResponse, error) {
	return &auth.AuthResponse{}, nil
}
func (p *vf09Provider) rec(kind byte, s *auth.Session, ok bool) {
	p.mu.Lock()
	defer p.mu.Unlock()
	p.calls = append(p.calls, vf09Call{kind, s.SessionID, s.RxBytes, s.TxBytes, s.RxPackets, s.TxPackets, ok, len(p.calls)})
}
func (p *vf09Provider) StartAccounting(_ context.Context, s *auth.Session) error {
	p.rec('S', s, true)
	return nil
}
func (p *vf09Provider) UpdateAccounting(_ context.Context, s *auth.Session) error {
	p.mu.Lock()
	f := p.fail[s.SessionID]
	p.mu.Unlock()
	p.rec('I', s, !f)
	if f {
		return errors.New("accounting transport timeout")
	}
	return nil
}
func (p *vf09Provider) StopAccounting(_ context.Context, s *auth.Session) error {
	p.rec('E', s, true)
	return nil
}

type vf09Store struct {
	mu sync.Mutex
	m  map[string]map[string][]byte
}

func (s *vf09Store) Put(_ context.Context, ns, key string, value []byte) error {
	s.mu.Lock()
	defer s.mu.Unlock()
	if s.m[ns] == nil {
		s.m[ns] = map[string][]byte{}
	}
	s.m[ns][key] = append([]byte(nil), value...)
	return nil
}
func (s *vf09Store) Delete(_ context.Context, ns, key string) error {
	s.mu.Lock()
	defer s.mu.Unlock()
	delete(s.m[ns], key)
	return nil
}
func (s *vf09Store) Load(_ context.Context, ns string, fn opdb.LoadFunc) error {
	s.mu.Lock()
	keys := []string{}
	for k := range s.m[ns] {
		keys = append(keys, k)
	}
	sort.Strings(keys)
	vals := [][]byte{}
	for _, k := range keys {
		vals = append(vals, s.m[ns][k])
	}
	s.mu.Unlock()
	for i, k := range keys {
		if err := fn(k, vals[i]); err != nil {
			return err
		}
	}
	return nil
}
func (s *vf09Store) Count(_ context.Context, ns string) (int, error) {
	s.mu.Lock()
	defer s.mu.Unlock()
	return len(s.m[ns]), nil
}
func (s *vf09Store) Clear(_ context.Context, ns string) error {
	s.mu.Lock()
	defer s.mu.Unlock()
	delete(s.m, ns)
	return nil
}
func (s *vf09Store) Stats() opdb.Stats { return opdb.Stats{} }
func (s *vf09Store) Close() error      { return nil }

type vf09Show struct {
	mu     sync.Mutex
	result []southbound.InterfaceStats
	err    error
}

func (s *vf09Show) Snapshot(_ context.Context, path string) (any, error) {
	s.mu.Lock()
	defer s.mu.Unlock()
	if path != paths.SystemDataplaneInterfaces.String() {
		return nil, errors.New("unexpected path")
	}
	if s.err != nil {
		return nil, s.err
	}
	return append([]southbound.InterfaceStats(nil), s.result...), nil
}

func (s *vf09Show) set(tok string) error {
	s.mu.Lock()
	defer s.mu.Unlock()
	s.result, s.err = nil, nil
	switch tok {
	case "-":
		s.err = errors.New("stats segment unavailable")
		return nil
	case "e":
		s.result = []southbound.InterfaceStats{}
		return nil
	}
	for _, it := range strings.Split(tok, "+") {
		f := strings.Split(it, ":")
		if len(f) != 5 {
			return fmt.Errorf("bad snapshot item %q", it)
		}
		var v [5]uint64
		for i := range f {
			x, err := strconv.ParseUint(f[i], 10, 64)
			if err != nil {
				return err
			}
			v[i] = x
		}
		s.result = append(s.result, southbound.InterfaceStats{Index: uint32(v[0]), RxBytes: v[1], TxBytes: v[2], Rx: v[3], Tx: v[4]})
	}
	return nil
}

type vf09Sess struct {
	id     string
	bucket int
	typ    models.AccessType
	mac    net.HardwareAddr
}

// vf09Mon is the property evaluated directly on the calls seen by the provider, per session:
//
//	brk  at most one Start per bracket (no Start after a Start until a Stop)
//	stp  Stops only answer a Released notification, at most one, and only if the session was announced
//	     (Active/Restored) since the previous Stop/Released
//	mono every Interim and the Stop carry values >= the last acknowledged Interim of the bracket
type vf09Mon struct {
	inside, armed  bool
	prev           [4]uint64
	brk, stp, mono bool
}

func (m *vf09Mon) event(kind byte, calls []vf09Call) {
	nstops := 0
	for _, c := range calls {
		v := [4]uint64{c.rx, c.tx, c.rp, c.tp}
		ge := v[0] >= m.prev[0] && v[1] >= m.prev[1] && v[2] >= m.prev[2] && v[3] >= m.prev[3]
		switch c.kind {
		case 'S':
			if m.inside {
				m.brk = false
			}
			m.inside = true
			m.prev = [4]uint64{}
		case 'I':
			if !ge {
				m.mono = false
			}
			if c.ok {
				m.prev = v
			}
		case 'E':
			nstops++
			if !ge {
				m.mono = false
			}
			m.inside = false
			m.prev = [4]uint64{}
		}
	}
	switch kind {
	case 'X':
		if (m.armed && nstops > 1) || (!m.armed && nstops > 0) {
			m.stp = false
		}
		m.armed = false
	case 'A', 'R':
		if nstops > 0 {
			m.stp = false
		}
		m.armed = true
	default:
		if nstops > 0 {
			m.stp = false
		}
	}
}

type vf09World struct {
	ap    *vf09Provider
	db    *vf09Store
	ss    *vf09Show
	c     *Component
	sess  []vf09Sess
	bases []*component.Base
}

func (w *vf09World) newComponent() {
	base := component.NewBase("aaa-verif")
	base.StartContext(context.Background())
	w.bases = append(w.bases, base)
	w.c = &Component{
		Base:         base,
		logger:       logger.NewTest(),
		authProvider: w.ap,
		showSource:   w.ss,
		opdb:         w.db,
		buckets:      make(map[int][]string),
		acctCache:    make(map[string]*AccountingSession),
	}
}

func (w *vf09World) payload(i int, ifx uint32, st models.SessionState) models.SubscriberSession {
	s := w.sess[i]
	if s.typ == models.AccessTypePPPoE {
		return &models.PPPSession{SessionID: s.id, State: st, MAC: s.mac, IfIndex: ifx, Username: "u" + s.id,
			AAASessionID: "acct-" + s.id, OuterVLAN: 100, InnerVLAN: 7, AccessIfIndex: 3, IPv4Address: net.IPv4(10, 0, 0, byte(i+1))}
	}
	return &models.IPoESession{SessionID: s.id, State: st, MAC: s.mac, IfIndex: ifx, Username: "u" + s.id,
		AAASessionID: "acct-" + s.id, OuterVLAN: 100, InnerVLAN: 7, AccessIfIndex: 3, IPv4Address: net.IPv4(10, 0, 0, byte(i+1))}
}

// quiesce waits until every goroutine spawned by the last operation has finished.
func vf09Quiesce(g0 int) bool {
	deadline := time.Now().Add(5 * time.Second)
	for n := 0; ; n++ {
		if runtime.NumGoroutine() <= g0 {
			return true
		}
		if n < 200 {
			runtime.Gosched()
		} else {
			time.Sleep(50 * time.Microsecond)
		}
		if time.Now().After(deadline) {
			return false
		}
	}
}

func vf09C4(a, b, c, d uint64) string { return fmt.Sprintf("%d:%d:%d:%d", a, b, c, d) }

func (w *vf09World) dump() string {
	var parts []string
	for i, s := range w.sess {
		w.c.acctCacheMu.RLock()
		e, ok := w.c.acctCache[s.id]
		w.c.acctCacheMu.RUnlock()
		nb := 0
		wrong := 0
		w.c.bucketMu.RLock()
		for bid, l := range w.c.buckets {
			for _, x := range l {
				if x == s.id {
					nb++
					if bid != s.bucket {
						wrong++
					}
				}
			}
		}
		w.c.bucketMu.RUnlock()
		p := fmt.Sprintf("s%d=b%d", i, nb)
		if wrong > 0 {
			p += ",WRONGBUCKET"
		}
		if ok {
			e.mu.Lock()
			pend := 0
			if e.pendingSessionConfirm {
				pend = 1
			}
			p += fmt.Sprintf(",c1,p%d,x%d,L%s,P%s,B%s", pend, e.swIfIndex,
				vf09C4(e.lastReportedInOctets, e.lastReportedOutOctets, e.lastReportedInPackets, e.lastReportedOutPackets),
				vf09C4(e.priorDeltaInBytes, e.priorDeltaOutBytes, e.priorDeltaInPackets, e.priorDeltaOutPackets),
				vf09C4(e.currentBaselineInBytes, e.currentBaselineOutBytes, e.currentBaselineInPackets, e.currentBaselineOutPackets))
			e.mu.Unlock()
		} else {
			p += ",c0"
		}
		w.db.mu.Lock()
		raw, have := w.db.m[opdb.NamespaceAcctSessions][s.id]
		w.db.mu.Unlock()
		if have {
			var cp AccountingCheckpoint
			if err := json.Unmarshal(raw, &cp); err != nil {
				p += ",dBAD"
			} else {
				p += fmt.Sprintf(",d1,x%d,L%s,P%s,B%s", cp.SwIfIndex,
					vf09C4(cp.LastReportedInOctets, cp.LastReportedOutOctets, cp.LastReportedInPackets, cp.LastReportedOutPackets),
					vf09C4(cp.PriorDeltaInBytes, cp.PriorDeltaOutBytes, cp.PriorDeltaInPackets, cp.PriorDeltaOutPackets),
					vf09C4(cp.CurrentBaselineInBytes, cp.CurrentBaselineOutBytes, cp.CurrentBaselineInPackets, cp.CurrentBaselineOutPackets))
			}
		} else {
			p += ",d0"
		}
		parts = append(parts, p)
	}
	return strings.Join(parts, " ")
}

// vf09RunCase runs one history.  g0 is the number of goroutines that exist while the case goroutine runs and
// nothing spawned by the component is alive (measured once by the caller, after the previous case goroutine
// has exited: measuring it per operation races with that exit and can end the wait early).
func vf09RunCase(line string, g0 int) (res string) {
	var w *vf09World
	defer func() {
		if r := recover(); r != nil {
			res = fmt.Sprintf("panic %v", r)
			res = strings.ReplaceAll(strings.ReplaceAll(res, "\n", " "), "\r", " ")
			if len(res) > 120 {
				res = res[:120]
			}
		}
		if w != nil {
			for _, b := range w.bases {
				b.StopContext()
			}
		}
	}()
	f := strings.Fields(line)
	if len(f) < 2 || f[0] != "S" {
		return "badline"
	}
	k, err := strconv.Atoi(f[1])
	if err != nil || len(f) < 2+k {
		return "badline"
	}
	w = &vf09World{ap: &vf09Provider{fail: map[string]bool{}}, db: &vf09Store{m: map[string]map[string][]byte{}}, ss: &vf09Show{}}
	idx := map[string]int{}
	for i := 0; i < k; i++ {
		p := strings.Split(f[2+i], ":")
		if len(p) != 3 {
			return "badline"
		}
		b, _ := strconv.Atoi(p[1])
		typ := models.AccessTypeIPoE
		if p[2] == "p" {
			typ = models.AccessTypePPPoE
		}
		if bucketForSession(p[0]) != b {
			return fmt.Sprintf("BADBUCKET %s impl=%d declared=%d", p[0], bucketForSession(p[0]), b)
		}
		w.sess = append(w.sess, vf09Sess{id: p[0], bucket: b, typ: typ, mac: net.HardwareAddr{2, 0, 0, 0, 0, byte(i + 1)}})
		idx[p[0]] = i
	}
	w.newComponent()
	var groups []string
	mons := make([]vf09Mon, k)
	for i := range mons {
		mons[i] = vf09Mon{brk: true, stp: true, mono: true}
	}
	for _, op := range f[2+k:] {
		a := strings.Split(op, ",")
		w.ap.mu.Lock()
		mark := len(w.ap.calls)
		w.ap.fail = map[string]bool{}
		w.ap.mu.Unlock()
		bad := false
		geti := func(s string) int {
			v, err := strconv.ParseUint(s, 10, 32)
			if err != nil {
				bad = true
			}
			return int(v)
		}
		switch a[0] {
		case "A", "R", "X":
			if len(a) != 3 {
				return "badline"
			}
			i := geti(a[1])
			if bad || i >= k {
				return "badline"
			}
			switch a[0] {
			case "A":
				ifx := geti(a[2])
				sess := w.payload(i, uint32(ifx), models.SessionStateActive)
				w.c.handleSessionLifecycle(events.Event{Timestamp: time.Now(), Data: &events.SessionLifecycleEvent{
					AccessType: w.sess[i].typ, Protocol: sess.GetProtocol(), SessionID: w.sess[i].id, State: models.SessionStateActive, Session: sess}})
			case "R":
				ifx := geti(a[2])
				sess := w.payload(i, uint32(ifx), models.SessionStateActive)
				w.c.handleSessionRestored(events.Event{Timestamp: time.Now(), Data: &events.SessionRestoredEvent{
					AccessType: w.sess[i].typ, Protocol: sess.GetProtocol(), SessionID: w.sess[i].id, Session: sess,
					RestoreCause: events.RestoreCauseOsvbngdRestart}})
			case "X":
				if err := w.ss.set(a[2]); err != nil {
					return "badline"
				}
				sess := w.payload(i, 0, models.SessionStateReleased)
				w.c.handleSessionLifecycle(events.Event{Timestamp: time.Now(), Data: &events.SessionLifecycleEvent{
					AccessType: w.sess[i].typ, Protocol: sess.GetProtocol(), SessionID: w.sess[i].id, State: models.SessionStateReleased, Session: sess}})
			}
		case "T":
			if len(a) != 4 {
				return "badline"
			}
			b, mask := geti(a[1]), geti(a[2])
			if bad || w.ss.set(a[3]) != nil {
				return "badline"
			}
			w.ap.mu.Lock()
			for i := range w.sess {
				if mask&(1<<uint(i)) != 0 {
					w.ap.fail[w.sess[i].id] = true
				}
			}
			w.ap.mu.Unlock()
			w.c.ProcessAccountingBucket(b)
		case "B":
			old := w.c
			w.newComponent()
			old.StopContext()
			if _, err := w.c.loadAcctSessions(w.c.Ctx); err != nil {
				return "loaderr"
			}
		case "P":
			if len(a) != 2 {
				return "badline"
			}
			now := time.Now()
			if a[1] == "1" {
				now = now.Add(2 * pruneAcctOrphansAfter)
			}
			w.c.pruneOrphanedAcctEntries(now)
		default:
			return "badline"
		}
		if bad {
			return "badline"
		}
		if !vf09Quiesce(g0) {
			return "hang after " + op
		}
		w.ap.mu.Lock()
		cs := append([]vf09Call(nil), w.ap.calls[mark:]...)
		w.ap.mu.Unlock()
		sort.SliceStable(cs, func(x, y int) bool { return idx[cs[x].sid] < idx[cs[y].sid] })
		var toks []string
		for _, c := range cs {
			i, known := idx[c.sid]
			if !known {
				toks = append(toks, "UNKNOWNSID")
				continue
			}
			t := fmt.Sprintf("%c%d:%s", c.kind, i, vf09C4(c.rx, c.tx, c.rp, c.tp))
			if c.kind == 'I' {
				if c.ok {
					t += ":k"
				} else {
					t += ":f"
				}
			}
			toks = append(toks, t)
		}
		groups = append(groups, "["+strings.Join(toks, " ")+"]")
		for j := range mons {
			var mine []vf09Call
			for _, c := range cs {
				if idx[c.sid] == j {
					mine = append(mine, c)
				}
			}
			kind := byte('o')
			if (a[0] == "A" || a[0] == "R" || a[0] == "X") && geti(a[1]) == j {
				kind = a[0][0]
			}
			mons[j].event(kind, mine)
		}
	}
	var vs []string
	bit := func(b bool) string {
		if b {
			return "1"
		}
		return "0"
	}
	for j := range mons {
		vs = append(vs, fmt.Sprintf("v%d=%s%s%s", j, bit(mons[j].brk), bit(mons[j].stp), bit(mons[j].mono)))
	}
	return strings.Join(groups, " ") + " ; " + w.dump() + " ; " + strings.Join(vs, " ")
}

func TestVerifC09(t *testing.T) {
	in, err := os.Open(os.Getenv("VERIF_CASES"))
	if err != nil {
		t.Fatal(err)
	}
	defer in.Close()
	out, err := os.Create(os.Getenv("VERIF_OUT"))
	if err != nil {
		t.Fatal(err)
	}
	defer out.Close()
	wr := bufio.NewWriter(out)
	defer wr.Flush()
	sc := bufio.NewScanner(in)
	sc.Buffer(make([]byte, 1<<20), 1<<26)
	base := runtime.NumGoroutine()
	for sc.Scan() {
		line := sc.Text()
		// the previous case goroutine (and anything it leaked) must be gone before the baseline is used
		if !vf09Quiesce(base) {
			base = runtime.NumGoroutine()
		}
		done := make(chan string, 1)
		go func() { done <- vf09RunCase(line, base+1) }()
		select {
		case r := <-done:
			fmt.Fprintln(wr, r)
		case <-time.After(60 * time.Second):
			fmt.Fprintln(wr, "hang")
		}
	}
}
