//go:build verif

package aaa

// C09 correspondence harness: drives the real AAA component (handleSessionLifecycle,
// handleSessionRestored, ProcessAccountingBucket, loadAcctSessions, pruneOrphanedAcctEntries)
// with a recording auth provider, an in-memory opdb and a scripted stats snapshot.
//
// case line:   S|Sr <k> {<class>:<type>}  <op> <op> ...        (Sr = routed to the -race build of this harness)
//   class: sessions with the same class number share an interim bucket, different classes do not; which bucket that
//   is (and which session ids hash there) is left to the implementation - the harness asks bucketForSession
//   A,<i>,<ifx>            lifecycle event, state active, session i
//   R,<i>,<ifx>            restored event
//   X,<i>,<snap>           lifecycle event, state released
//   T,<class|z>,<failmask>,<snap>  ProcessAccountingBucket(bucket of that class; z = a bucket holding no session of the
//                          case); sessions in failmask get an error from UpdateAccounting
//   H,S / H,I / H,SI / H,- from now on StartAccounting calls are delayed inside the provider fake (S: do not reach the
//                          backend) and/or UpdateAccounting calls reach the backend but get no response (I: recorded
//                          with flag h, the caller stays blocked) / nothing is held;  U  lets the delayed Starts through
//                          and delivers the outstanding responses (K<i> acknowledged, F<i> failed), oldest first
//   H,W / H,IW             checkpoint writes (opdb Put) are held back before they reach the store;  UW lets them through
//   B                      restart: new component over the same opdb, loadAcctSessions
//   P,<0|1>                pruneOrphanedAcctEntries(now [+10 min])
//   C/<snap>/<m>/<m>...    the notifications m (A,i,ifx  R,i,ifx  X,i  T,bucket,mask) are delivered CONCURRENTLY, one
//                          goroutine each, sharing one snapshot; the stats source blocks every handler that reads it
//                          until all handlers of the group have reached it or returned (forced overlap).  A group of
//                          X and at most one T has a schedule-independent outcome (compared exactly, calls sorted);
//                          a group that also has A / R must be the last op and is judged by what every interleaving
//                          must satisfy ({ok} / {BAD ...}).  Histories with a group are run 5 times and must agree.
//   snap: "-" snapshot unavailable, "e" empty, else idx:rxb:txb:rxp:txp joined by "+"; optionally followed by
//         "|" and the l2gw stats segment: "-" unavailable (default), "e" empty, else idx:bytes:packets joined by "+"
//   session type i = IPoE, p = PPPoE, g = l2gw (A/R then carry a 4th field: the handoff entry index)
// output line: one [...] group per op listing the provider calls it caused (sorted by session), then "; " and a
// dump of cache / bucket / opdb state per session.

import (
	"bufio"
	"context"
	"encoding/json"
	"errors"
	"fmt"
	"net"
	"os"
	"runtime"
	"sort"
	"strconv"
	"strings"
	"sync"
	"testing"
	"time"

	"github.com/veesix-networks/osvbng/pkg/auth"
	"github.com/veesix-networks/osvbng/pkg/component"
	"github.com/veesix-networks/osvbng/pkg/events"
	"github.com/veesix-networks/osvbng/pkg/handlers/show/paths"
	"github.com/veesix-networks/osvbng/pkg/logger"
	"github.com/veesix-networks/osvbng/pkg/models"
	"github.com/veesix-networks/osvbng/pkg/opdb"
	"github.com/veesix-networks/osvbng/pkg/provider"
	"github.com/veesix-networks/osvbng/pkg/southbound"
)

type vf09Call struct {
	kind           byte
	sid            string
	rx, tx, rp, tp uint64
	ok             bool
	seq            int
	badID          bool // the call does not carry the session's own Acct-Session-Id / User-Name
	held           bool // Interim whose response is still outstanding
	resp           byte // pseudo call: 'K' / 'F' = a held response was delivered (acknowledged / failed)
}

type vf09Held struct {
	sid     string
	kind    byte // 'S': a Start that has not reached the backend yet; 'I': an Interim that has, its response is outstanding
	fail    bool // 'I': the response will be an error
	release chan struct{}
}

type vf09Provider struct {
	mu    sync.Mutex
	calls []vf09Call
	fail  map[string]bool
	// asynchronous delivery: while holdStart is set a StartAccounting call does not reach the backend (is not
	// recorded) until the harness lets it through - the goroutine that carries it is simply slow
	holdStart bool
	// holdInterim: an UpdateAccounting call reaches the backend (is recorded, flag 'h' = no response yet) but does not
	// return until the harness delivers its response - a slow or lost Accounting-Response
	holdInterim bool
	anyHeldInt  bool
	held        []*vf09Held
	startHeld   map[string]bool // sessions one of whose Starts was held back
}

func (p *vf09Provider) nHeld() int {
	p.mu.Lock()
	defer p.mu.Unlock()
	return len(p.held)
}

func (*vf09Provider) Info() provider.Info { return provider.Info{} }
func (*vf09Provider) Authenticate(context.Context, *auth.AuthRequest) (*auth.AuthResponse, error) {
	return &auth.AuthResponse{}, nil
}

// vf09BadID: the full key of a call is (SessionID, Acct-Session-Id, User-Name): the backend files the record under the latter two
func vf09BadID(s *auth.Session) bool {
	return s.AcctSessionID != "acct-"+s.SessionID || s.Username != "u"+s.SessionID
}

func (p *vf09Provider) rec(kind byte, s *auth.Session, ok bool) {
	p.mu.Lock()
	defer p.mu.Unlock()
	p.calls = append(p.calls, vf09Call{kind: kind, sid: s.SessionID, rx: s.RxBytes, tx: s.TxBytes, rp: s.RxPackets, tp: s.TxPackets, ok: ok,
		seq: len(p.calls), badID: vf09BadID(s)})
}
func (p *vf09Provider) StartAccounting(_ context.Context, s *auth.Session) error {
	p.mu.Lock()
	if p.holdStart {
		h := &vf09Held{sid: s.SessionID, kind: 'S', release: make(chan struct{})}
		p.held = append(p.held, h)
		if p.startHeld == nil {
			p.startHeld = map[string]bool{}
		}
		p.startHeld[s.SessionID] = true
		p.mu.Unlock()
		<-h.release
	} else {
		p.mu.Unlock()
	}
	p.rec('S', s, true)
	return nil
}
func (p *vf09Provider) UpdateAccounting(_ context.Context, s *auth.Session) error {
	p.mu.Lock()
	f := p.fail[s.SessionID]
	if p.holdInterim {
		h := &vf09Held{sid: s.SessionID, kind: 'I', fail: f, release: make(chan struct{})}
		p.held = append(p.held, h)
		p.anyHeldInt = true
		p.calls = append(p.calls, vf09Call{kind: 'I', sid: s.SessionID, rx: s.RxBytes, tx: s.TxBytes, rp: s.RxPackets, tp: s.TxPackets,
			seq: len(p.calls), held: true, badID: vf09BadID(s)})
		p.mu.Unlock()
		<-h.release
		if f {
			return errors.New("accounting transport timeout")
		}
		return nil
	}
	p.mu.Unlock()
	p.rec('I', s, !f)
	if f {
		return errors.New("accounting transport timeout")
	}
	return nil
}
func (p *vf09Provider) StopAccounting(_ context.Context, s *auth.Session) error {
	p.rec('E', s, true)
	return nil
}

type vf09Store struct {
	mu sync.Mutex
	m  map[string]map[string][]byte
	// H,W: checkpoint writes are held back before they reach the store; UW lets them through
	holdPut  bool
	heldPuts []chan struct{}
	heldKeys []string
}

func (s *vf09Store) nHeld() int {
	s.mu.Lock()
	defer s.mu.Unlock()
	return len(s.heldPuts)
}

func (s *vf09Store) Put(_ context.Context, ns, key string, value []byte) error {
	s.mu.Lock()
	if s.holdPut {
		// the checkpoint write is on its way (marshalled, goroutine started) but has not reached the store yet
		ch := make(chan struct{})
		s.heldPuts = append(s.heldPuts, ch)
		s.heldKeys = append(s.heldKeys, key)
		s.mu.Unlock()
		<-ch
		s.mu.Lock()
	}
	defer s.mu.Unlock()
	if s.m[ns] == nil {
		s.m[ns] = map[string][]byte{}
	}
	s.m[ns][key] = append([]byte(nil), value...)
	return nil
}
func (s *vf09Store) Delete(_ context.Context, ns, key string) error {
	s.mu.Lock()
	defer s.mu.Unlock()
	delete(s.m[ns], key)
	return nil
}
func (s *vf09Store) Load(_ context.Context, ns string, fn opdb.LoadFunc) error {
	s.mu.Lock()
	keys := []string{}
	for k := range s.m[ns] {
		keys = append(keys, k)
	}
	sort.Strings(keys)
	vals := [][]byte{}
	for _, k := range keys {
		vals = append(vals, s.m[ns][k])
	}
	s.mu.Unlock()
	for i, k := range keys {
		if err := fn(k, vals[i]); err != nil {
			return err
		}
	}
	return nil
}
func (s *vf09Store) Count(_ context.Context, ns string) (int, error) {
	s.mu.Lock()
	defer s.mu.Unlock()
	return len(s.m[ns]), nil
}
func (s *vf09Store) Clear(_ context.Context, ns string) error {
	s.mu.Lock()
	defer s.mu.Unlock()
	delete(s.m, ns)
	return nil
}
func (s *vf09Store) Stats() opdb.Stats { return opdb.Stats{} }
func (s *vf09Store) Close() error      { return nil }

type vf09Show struct {
	mu     sync.Mutex
	result []southbound.InterfaceStats
	err    error
	gate   *vf09Gate
}

// vf09Gate forces the overlap of concurrently delivered notifications: every handler that reads the stats
// snapshot blocks there until each of the n handlers of the group has either reached the snapshot too or has
// returned.  Nothing is left to the scheduler: a handler that decides (looks the session up) before the snapshot
// and acts (deletes it) after it is guaranteed to overlap with its duplicates.
type vf09Gate struct {
	mu       sync.Mutex
	n, seen  int
	open     chan struct{}
	opened   bool
	timedOut bool
}

func (g *vf09Gate) step() {
	g.mu.Lock()
	g.seen++
	if g.seen >= g.n && !g.opened {
		g.opened = true
		close(g.open)
	}
	g.mu.Unlock()
}

func (g *vf09Gate) arrive() {
	g.step()
	select {
	case <-g.open:
	case <-time.After(3 * time.Second):
		g.mu.Lock()
		g.timedOut = true
		g.mu.Unlock()
	}
}

func (s *vf09Show) Snapshot(_ context.Context, path string) (any, error) {
	s.mu.Lock()
	g := s.gate
	s.mu.Unlock()
	if g != nil {
		g.arrive()
	}
	s.mu.Lock()
	defer s.mu.Unlock()
	if path != paths.SystemDataplaneInterfaces.String() {
		return nil, errors.New("unexpected path")
	}
	if s.err != nil {
		return nil, s.err
	}
	return append([]southbound.InterfaceStats(nil), s.result...), nil
}

// setSnap installs what the dataplane shows: "<interface table>" or "<interface table>|<l2gw segment>".
func (w *vf09World) setSnap(tok string) error {
	p := strings.Split(tok, "|")
	if len(p) > 2 {
		return errors.New("bad snapshot")
	}
	if err := w.ss.set(p[0]); err != nil {
		return err
	}
	if len(p) == 2 {
		return w.vpp.set(p[1])
	}
	return w.vpp.set("-")
}

func (s *vf09Show) set(tok string) error {
	s.mu.Lock()
	defer s.mu.Unlock()
	s.result, s.err = nil, nil
	switch tok {
	case "-":
		s.err = errors.New("stats segment unavailable")
		return nil
	case "e":
		s.result = []southbound.InterfaceStats{}
		return nil
	}
	for _, it := range strings.Split(tok, "+") {
		f := strings.Split(it, ":")
		if len(f) != 5 {
			return fmt.Errorf("bad snapshot item %q", it)
		}
		var v [5]uint64
		for i := range f {
			x, err := strconv.ParseUint(f[i], 10, 64)
			if err != nil {
				return err
			}
			v[i] = x
		}
		s.result = append(s.result, southbound.InterfaceStats{Index: uint32(v[0]), RxBytes: v[1], TxBytes: v[2], Rx: v[3], Tx: v[4]})
	}
	return nil
}

// vf09VPP is the southbound as far as AAA uses it: the l2gw stats segment.
type vf09VPP struct {
	southbound.Southbound // nil: any other call would panic (and be reported)
	mu                    sync.Mutex
	stats                 map[uint32]southbound.L2GWEntryStats
	err                   error
}

func (v *vf09VPP) GetL2GWStats() (map[uint32]southbound.L2GWEntryStats, error) {
	v.mu.Lock()
	defer v.mu.Unlock()
	if v.err != nil {
		return nil, v.err
	}
	m := make(map[uint32]southbound.L2GWEntryStats, len(v.stats))
	for k, x := range v.stats {
		m[k] = x
	}
	return m, nil
}

func (v *vf09VPP) set(tok string) error {
	v.mu.Lock()
	defer v.mu.Unlock()
	v.stats, v.err = map[uint32]southbound.L2GWEntryStats{}, nil
	switch tok {
	case "-":
		v.err = errors.New("l2gw stats unavailable")
		return nil
	case "e":
		return nil
	}
	for _, it := range strings.Split(tok, "+") {
		f := strings.Split(it, ":")
		if len(f) != 3 {
			return fmt.Errorf("bad l2gw item %q", it)
		}
		var x [3]uint64
		for i := range f {
			n, err := strconv.ParseUint(f[i], 10, 64)
			if err != nil {
				return err
			}
			x[i] = n
		}
		v.stats[uint32(x[0])] = southbound.L2GWEntryStats{Bytes: x[1], Packets: x[2]}
	}
	return nil
}

// vf09Assign picks session ids "s<n>" such that sessions with equal class share an interim bucket and sessions
// with different classes do not, asking the implementation (bucketForSession) for every id; it also returns a bucket
// that holds none of the sessions.
func vf09Assign(classes []int) (ids []string, classBucket map[int]int, free int, ok bool) {
	ids = make([]string, len(classes))
	classBucket = map[int]int{}
	used := map[int]bool{}
	n := 0
	for i, c := range classes {
		found := false
		for tries := 0; tries < 20000 && !found; tries++ {
			id := "s" + strconv.Itoa(n)
			n++
			b := bucketForSession(id)
			if bucketForSession(id) != b {
				return nil, nil, 0, false
			}
			if want, have := classBucket[c]; have {
				found = b == want
			} else if !used[b] {
				classBucket[c], used[b], found = b, true, true
			}
			if found {
				ids[i] = id
			}
		}
		if !found {
			return nil, nil, 0, false
		}
	}
	for b := 0; b < 4096; b++ {
		if !used[b] {
			return ids, classBucket, b, true
		}
	}
	return nil, nil, 0, false
}

type vf09Sess struct {
	id     string
	bucket int
	typ    models.AccessType
	mac    net.HardwareAddr
}

// vf09Mon is the property evaluated directly on the calls seen by the provider, per session:
//
//	brk  at most one Start per bracket (no Start after a Start until a Stop)
//	stp  Stops only answer a Released notification, at most one, and only if the session was announced
//	     (Active/Restored) since the previous Stop/Released
//	mono every Interim and the Stop carry values >= the last acknowledged Interim of the bracket
type vf09Mon struct {
	inside, armed  bool
	prev           [4]uint64
	brk, stp, mono bool
	// snt: every Interim / Stop >= the last value SENT in the bracket (acknowledged or not)
	// ord: the arrival stream is a prefix of (Start Interim* Stop)*  (meaningful for a never-restored session)
	prevSent [4]uint64
	sntq     [4]bool // snt per counter: in-octets, out-octets, in-packets, out-packets
	snt, ord bool
	// ord: the bracket WITH restore - 0 closed, 1 quiet (restored, nothing sent yet), 2 open
	bst int
	// excuses named in the verdict: the accounting was dropped by an orphan prune / a Start was held back
	pruned, delayed bool
	// G: a held Accounting-Response was delivered for this session after it had been released
	ghost bool
}

func (m *vf09Mon) event(kind byte, calls []vf09Call) {
	nstops := 0
	if kind == 'R' && m.bst == 0 {
		m.bst = 1
	}
	for _, c := range calls {
		if c.resp != 0 {
			continue
		}
		v := [4]uint64{c.rx, c.tx, c.rp, c.tp}
		ge := v[0] >= m.prev[0] && v[1] >= m.prev[1] && v[2] >= m.prev[2] && v[3] >= m.prev[3]
		geS := v[0] >= m.prevSent[0] && v[1] >= m.prevSent[1] && v[2] >= m.prevSent[2] && v[3] >= m.prevSent[3]
		switch c.kind {
		case 'S':
			if m.inside {
				m.brk = false
			}
			if m.bst == 2 {
				m.ord = false
			}
			m.bst = 2
			m.inside = true
			m.prev = [4]uint64{}
			m.prevSent = [4]uint64{}
		case 'I':
			if !ge {
				m.mono = false
			}
			if !geS {
				m.snt = false
			}
			for q := 0; q < 4; q++ {
				if v[q] < m.prevSent[q] {
					m.sntq[q] = false
				}
			}
			if m.bst == 0 {
				m.ord = false
			}
			m.bst = 2
			m.prevSent = v
			if c.ok {
				m.prev = v
			}
		case 'E':
			nstops++
			if !ge {
				m.mono = false
			}
			if !geS {
				m.snt = false
			}
			for q := 0; q < 4; q++ {
				if v[q] < m.prevSent[q] {
					m.sntq[q] = false
				}
			}
			if m.bst == 0 {
				m.ord = false
			}
			m.bst = 0
			m.inside = false
			m.prev = [4]uint64{}
			m.prevSent = [4]uint64{}
		}
	}
	switch kind {
	case 'X':
		if (m.armed && nstops > 1) || (!m.armed && nstops > 0) {
			m.stp = false
		}
		m.armed = false
	case 'A', 'R':
		if nstops > 0 {
			m.stp = false
		}
		m.armed = true
	case 'P':
		// a Stop may close a pruned orphan (at most one, only if the session was announced or restored from a
		// checkpoint... i.e. armed); it disarms
		if (m.armed && nstops > 1) || (!m.armed && nstops > 0) {
			m.stp = false
		}
		if nstops > 0 {
			m.armed = false
		}
	default:
		if nstops > 0 {
			m.stp = false
		}
	}
}

type vf09World struct {
	ap    *vf09Provider
	db    *vf09Store
	ss    *vf09Show
	vpp   *vf09VPP
	c     *Component
	sess  []vf09Sess
	bases []*component.Base
	idx   map[string]int
	g0    int
	// interim bucket of each co-location class of the case, and a bucket holding none of its sessions
	classBucket map[int]int
	freeBucket  int
	// sessions released while one of their Interims was unanswered / for which such a response was then delivered
	relWhileHeld map[string]bool
	relWhilePut  map[string]bool // ... released while a checkpoint write of theirs was held
	lateSeen     map[string]bool
	forgot       map[string]bool // sessions with an unanswered Interim at a restart
}

func (w *vf09World) newComponent() {
	base := component.NewBase("aaa-verif")
	base.StartContext(context.Background())
	w.bases = append(w.bases, base)
	w.c = &Component{
		Base:         base,
		logger:       logger.NewTest(),
		authProvider: w.ap,
		showSource:   w.ss,
		vpp:          w.vpp,
		opdb:         w.db,
		buckets:      make(map[int][]string),
		acctCache:    make(map[string]*AccountingSession),
	}
}

func (w *vf09World) payload(i int, ifx, hfx uint32, st models.SessionState) models.SubscriberSession {
	s := w.sess[i]
	if s.typ == models.AccessTypeL2TP {
		// what internal/l2tp (LNS) publishes for a PPP-over-L2TP session
		return &models.PPPoL2TPSession{SessionID: s.id, State: st, AccessType: string(models.AccessTypeL2TP), IfIndex: ifx,
			Username: "u" + s.id, AAASessionID: "acct-" + s.id, IPv4Address: net.IPv4(10, 0, 0, byte(i+1))}
	}
	if s.typ == models.AccessTypeL2GW {
		return &models.L2GWSession{SessionID: s.id, State: st, MAC: s.mac, AccessEntryIndex: ifx, HandoffEntryIndex: hfx,
			Username: "u" + s.id, AAASessionID: "acct-" + s.id, OuterVLAN: 100, InnerVLAN: 7, AccessIfIndex: 3}
	}
	if s.typ == models.AccessTypePPPoE {
		return &models.PPPSession{SessionID: s.id, State: st, MAC: s.mac, IfIndex: ifx, Username: "u" + s.id,
			AAASessionID: "acct-" + s.id, OuterVLAN: 100, InnerVLAN: 7, AccessIfIndex: 3, IPv4Address: net.IPv4(10, 0, 0, byte(i+1))}
	}
	return &models.IPoESession{SessionID: s.id, State: st, MAC: s.mac, IfIndex: ifx, Username: "u" + s.id,
		AAASessionID: "acct-" + s.id, OuterVLAN: 100, InnerVLAN: 7, AccessIfIndex: 3, IPv4Address: net.IPv4(10, 0, 0, byte(i+1))}
}

// quiesce waits until every goroutine spawned by the last operation has finished.
func vf09Quiesce(g0 int) bool { return vf09QuiesceF(func() int { return g0 }) }

// vf09QuiesceF: the target may move while waiting (a delayed call registers itself in the provider fake)
func vf09QuiesceF(target func() int) bool {
	deadline := time.Now().Add(20 * time.Second)
	for n := 0; ; n++ {
		if runtime.NumGoroutine() <= target() {
			return true
		}
		if n < 200 {
			runtime.Gosched()
		} else {
			time.Sleep(50 * time.Microsecond)
		}
		if time.Now().After(deadline) {
			return false
		}
	}
}

func vf09C4(a, b, c, d uint64) string { return fmt.Sprintf("%d:%d:%d:%d", a, b, c, d) }

func (w *vf09World) dump() string {
	var parts []string
	for i, s := range w.sess {
		w.c.acctCacheMu.RLock()
		e, ok := w.c.acctCache[s.id]
		w.c.acctCacheMu.RUnlock()
		nb := 0
		wrong := 0
		w.c.bucketMu.RLock()
		for bid, l := range w.c.buckets {
			for _, x := range l {
				if x == s.id {
					nb++
					if bid != s.bucket {
						wrong++
					}
				}
			}
		}
		w.c.bucketMu.RUnlock()
		p := fmt.Sprintf("s%d=b%d", i, nb)
		if wrong > 0 {
			p += ",WRONGBUCKET"
		}
		if ok {
			e.mu.Lock()
			pend := 0
			if e.pendingSessionConfirm {
				pend = 1
			}
			p += fmt.Sprintf(",c1,p%d,x%d,h%d,L%s,P%s,B%s", pend, e.swIfIndex, e.l2gwHandoffIndex,
				vf09C4(e.lastReportedInOctets, e.lastReportedOutOctets, e.lastReportedInPackets, e.lastReportedOutPackets),
				vf09C4(e.priorDeltaInBytes, e.priorDeltaOutBytes, e.priorDeltaInPackets, e.priorDeltaOutPackets),
				vf09C4(e.currentBaselineInBytes, e.currentBaselineOutBytes, e.currentBaselineInPackets, e.currentBaselineOutPackets))
			e.mu.Unlock()
		} else {
			p += ",c0"
		}
		w.db.mu.Lock()
		raw, have := w.db.m[opdb.NamespaceAcctSessions][s.id]
		w.db.mu.Unlock()
		if have {
			var cp AccountingCheckpoint
			if err := json.Unmarshal(raw, &cp); err != nil {
				p += ",dBAD"
			} else {
				p += fmt.Sprintf(",d1,x%d,L%s,P%s,B%s", cp.SwIfIndex,
					vf09C4(cp.LastReportedInOctets, cp.LastReportedOutOctets, cp.LastReportedInPackets, cp.LastReportedOutPackets),
					vf09C4(cp.PriorDeltaInBytes, cp.PriorDeltaOutBytes, cp.PriorDeltaInPackets, cp.PriorDeltaOutPackets),
					vf09C4(cp.CurrentBaselineInBytes, cp.CurrentBaselineOutBytes, cp.CurrentBaselineInPackets, cp.CurrentBaselineOutPackets))
			}
		} else {
			p += ",d0"
		}
		parts = append(parts, p)
	}
	return strings.Join(parts, " ")
}

// vf09RunCase runs one history.  g0 is the number of goroutines that exist while the case goroutine runs and
// nothing spawned by the component is alive (measured once by the caller, after the previous case goroutine
// has exited: measuring it per operation races with that exit and can end the wait early).
func vf09RunCase(line string, g0 int) (res string) {
	var w *vf09World
	defer func() {
		if r := recover(); r != nil {
			res = fmt.Sprintf("panic %v", r)
			res = strings.ReplaceAll(strings.ReplaceAll(res, "\n", " "), "\r", " ")
			if len(res) > 120 {
				res = res[:120]
			}
		}
		if w != nil {
			w.ap.mu.Lock()
			for _, h := range w.ap.held {
				close(h.release)
			}
			w.ap.held, w.ap.holdStart = nil, false
			w.ap.mu.Unlock()
			w.db.mu.Lock()
			for _, ch := range w.db.heldPuts {
				close(ch)
			}
			w.db.heldPuts, w.db.heldKeys, w.db.holdPut = nil, nil, false
			w.db.mu.Unlock()
			vf09Quiesce(g0)
			for _, b := range w.bases {
				b.StopContext()
			}
		}
	}()
	f := strings.Fields(line)
	if len(f) < 2 || (f[0] != "S" && f[0] != "Sr") { // "Sr": same history, routed to the -race build
		return "badline"
	}
	k, err := strconv.Atoi(f[1])
	if err != nil || len(f) < 2+k {
		return "badline"
	}
	w = &vf09World{ap: &vf09Provider{fail: map[string]bool{}}, db: &vf09Store{m: map[string]map[string][]byte{}}, ss: &vf09Show{},
		vpp: &vf09VPP{err: errors.New("l2gw stats unavailable")}}
	idx := map[string]int{}
	// The case names the sessions by CO-LOCATION CLASS, not by id or bucket number: which interim bucket an id hashes to
	// is the implementation's free choice.  Ids are picked through the package's own bucketForSession so that sessions
	// of one class share a bucket and different classes do not.
	classes := make([]int, k)
	typs := make([]models.AccessType, k)
	for i := 0; i < k; i++ {
		p := strings.Split(f[2+i], ":")
		if len(p) != 2 {
			return "badline"
		}
		c, err := strconv.Atoi(p[0])
		if err != nil || c < 0 || c > 8 {
			return "badline"
		}
		classes[i] = c
		typs[i] = models.AccessTypeIPoE
		if p[1] == "p" {
			typs[i] = models.AccessTypePPPoE
		} else if p[1] == "g" {
			typs[i] = models.AccessTypeL2GW
		} else if p[1] == "t" {
			typs[i] = models.AccessTypeL2TP
		}
	}
	ids, classBucket, free, ok := vf09Assign(classes)
	if !ok {
		return "NOBUCKETS bucketForSession did not yield the co-location the case asks for"
	}
	for i := 0; i < k; i++ {
		w.sess = append(w.sess, vf09Sess{id: ids[i], bucket: classBucket[classes[i]], typ: typs[i], mac: net.HardwareAddr{2, 0, 0, 0, 0, byte(i + 1)}})
		idx[ids[i]] = i
	}
	w.classBucket, w.freeBucket = classBucket, free
	w.idx, w.g0 = idx, g0
	w.newComponent()
	var groups []string
	mons := make([]vf09Mon, k)
	for i := range mons {
		mons[i] = vf09Mon{brk: true, stp: true, mono: true, snt: true, ord: true, sntq: [4]bool{true, true, true, true}}
	}
	ops := f[2+k:]
	racy := false
	for oi, op := range ops {
		w.ap.mu.Lock()
		mark := len(w.ap.calls)
		w.ap.fail = map[string]bool{}
		w.ap.mu.Unlock()
		var members [][]string // the notifications of this op (one, or the members of a concurrent group)
		concurrent := strings.HasPrefix(op, "C/")
		if concurrent {
			p := strings.Split(op, "/")
			if len(p) < 4 || w.setSnap(p[1]) != nil {
				return "badline"
			}
			nt := 0
			for _, m := range p[2:] {
				a := strings.Split(m, ",")
				switch a[0] {
				case "X":
					a = append(a, "") // snapshot already set
				case "T":
					a = append(a, "")
					nt++
				case "A", "R":
					racy = true
				default:
					return "badline"
				}
				members = append(members, a)
			}
			if nt > 1 || (racy && (oi != len(ops)-1 || nt > 0)) {
				return "badline"
			}
		} else {
			members = [][]string{strings.Split(op, ",")}
		}
		for _, a := range members {
			if !w.valid(a) {
				return "badline"
			}
		}
		openBefore := make([]bool, k)
		for j := range w.sess {
			w.c.acctCacheMu.RLock()
			_, openBefore[j] = w.c.acctCache[w.sess[j].id]
			w.c.acctCacheMu.RUnlock()
		}
		if concurrent {
			g := &vf09Gate{n: len(members), open: make(chan struct{})}
			w.ss.mu.Lock()
			w.ss.gate = g
			w.ss.mu.Unlock()
			var wg sync.WaitGroup
			errs := make([]string, len(members))
			for mi := range members {
				wg.Add(1)
				go func(mi int) {
					defer wg.Done()
					defer g.step() // a handler that returned counts as "cannot overlap any further"
					defer func() {
						if r := recover(); r != nil {
							errs[mi] = fmt.Sprintf("panic %v", r)
						}
					}()
					errs[mi] = w.exec(members[mi])
				}(mi)
			}
			wg.Wait()
			w.ss.mu.Lock()
			w.ss.gate = nil
			w.ss.mu.Unlock()
			for _, e := range errs {
				if e != "" {
					return e
				}
			}
			if g.timedOut {
				return "gate timed out in " + op
			}
		} else if e := w.exec(members[0]); e != "" {
			return e
		}
		if !vf09QuiesceF(func() int { return g0 + w.ap.nHeld() + w.db.nHeld() }) {
			return "hang after " + op
		}
		// Everything the component spawned has finished, but the race detector only knows that through a
		// synchronisation edge: the spawned goroutines end in the provider (ap.mu) or the store (db.mu), so
		// touching both here orders them before the next notification.  Races *inside* a concurrent group
		// stay visible.
		w.db.mu.Lock()
		w.db.mu.Unlock() //nolint
		w.ap.mu.Lock()
		cs := append([]vf09Call(nil), w.ap.calls[mark:]...)
		w.ap.mu.Unlock()
		var toks []string
		tokOf := map[int]string{}
		for ci, c := range cs {
			i, known := idx[c.sid]
			if !known {
				tokOf[ci] = "UNKNOWNSID"
				continue
			}
			t := fmt.Sprintf("%c%d:%s", c.kind, i, vf09C4(c.rx, c.tx, c.rp, c.tp))
			if c.resp != 0 {
				t = fmt.Sprintf("%c%d", c.resp, i)
			} else if c.kind == 'I' {
				if c.held {
					t += ":h"
				} else if c.ok {
					t += ":k"
				} else {
					t += ":f"
				}
			}
			if c.badID && c.resp == 0 {
				t += "!" // the record would be filed under another (or no) Acct-Session-Id / User-Name
			}
			tokOf[ci] = t
		}
		order := make([]int, len(cs))
		for i := range order {
			order[i] = i
		}
		// sequential op: by session, arrival order within a session; concurrent group: by session, then token text
		sort.SliceStable(order, func(x, y int) bool {
			cx, cy := cs[order[x]], cs[order[y]]
			if idx[cx.sid] != idx[cy.sid] {
				return idx[cx.sid] < idx[cy.sid]
			}
			return concurrent && tokOf[order[x]] < tokOf[order[y]]
		})
		for _, ci := range order {
			toks = append(toks, tokOf[ci])
		}
		if racy {
			// outcome depends on the interleaving; what every interleaving of the handlers must satisfy:
			// each Stop consumes one accounting entry (the one open before, or one created by an Active/Restored
			// of the group) and answers one Released; each Start opens an entry that did not exist
			var bad []string
			for j := range w.sess {
				na, nr, nx, nS, nE := 0, 0, 0, 0, 0
				for _, a := range members {
					if v, _ := strconv.Atoi(a[1]); v == j {
						switch a[0] {
						case "A":
							na++
						case "R":
							nr++
						case "X":
							nx++
						}
					}
				}
				for _, c := range cs {
					if idx[c.sid] == j {
						switch c.kind {
						case 'S':
							nS++
						case 'E':
							nE++
						}
					}
				}
				ob := 0
				if openBefore[j] {
					ob = 1
				}
				maxE, maxS := ob+na+nr, 1-ob+nx
				if nx < maxE {
					maxE = nx
				}
				if na < maxS {
					maxS = na
				}
				nb := 0
				w.c.bucketMu.RLock()
				for _, l := range w.c.buckets {
					for _, x := range l {
						if x == w.sess[j].id {
							nb++
						}
					}
				}
				w.c.bucketMu.RUnlock()
				if nS > maxS || nE > maxE || nb > 1 {
					bad = append(bad, fmt.Sprintf("s%d:starts=%d/%d,stops=%d/%d,buckets=%d", j, nS, maxS, nE, maxE, nb))
				}
			}
			if len(bad) == 0 {
				groups = append(groups, "{ok}")
			} else {
				groups = append(groups, "{BAD "+strings.Join(bad, " ")+"}")
			}
			break
		}
		groups = append(groups, "["+strings.Join(toks, " ")+"]")
		for j := range mons {
			var mine []vf09Call
			for _, ci := range order {
				if idx[cs[ci].sid] == j {
					mine = append(mine, cs[ci])
				}
			}
			// the notification kinds addressed to j by this op, Released first
			fed := false
			for _, a := range members {
				if a[0] == "X" {
					if v, _ := strconv.Atoi(a[1]); v == j {
						mons[j].event('X', mine)
						mine, fed = nil, true
					}
				}
			}
			for _, a := range members {
				if a[0] == "A" || a[0] == "R" {
					if v, _ := strconv.Atoi(a[1]); v == j {
						mons[j].event(a[0][0], mine)
						mine, fed = nil, true
					}
				}
			}
			if !fed || len(mine) > 0 {
				k := byte('o')
				if members[0][0] == "P" {
					k = 'P'
				}
				mons[j].event(k, mine)
			}
			if members[0][0] == "P" && members[0][1] == "1" {
				w.c.acctCacheMu.RLock()
				_, still := w.c.acctCache[w.sess[j].id]
				w.c.acctCacheMu.RUnlock()
				if openBefore[j] && !still {
					mons[j].pruned = true
				}
			}
		}
	}
	var vs []string
	bit := func(b bool) string {
		if b {
			return "1"
		}
		return "0"
	}
	for j := range mons {
		w.ap.mu.Lock()
		if w.ap.startHeld[w.sess[j].id] {
			mons[j].delayed = true
		}
		w.ap.mu.Unlock()
		x := ""
		if mons[j].pruned {
			x += "P"
		}
		if mons[j].delayed {
			x += "D"
		}
		if w.lateSeen[w.sess[j].id] {
			x += "G"
		}
		if w.forgot[w.sess[j].id] {
			x += "Q"
		}
		vs = append(vs, fmt.Sprintf("v%d=%s%s%s%s%s%s%s%s%s", j, bit(mons[j].brk), bit(mons[j].stp), bit(mons[j].mono),
			bit(mons[j].sntq[0]), bit(mons[j].sntq[1]), bit(mons[j].sntq[2]), bit(mons[j].sntq[3]), bit(mons[j].ord), x))
	}
	d := "racy"
	if !racy {
		d = w.dump()
		w.ap.mu.Lock()
		for _, h := range w.ap.held {
			if h.kind == 'I' {
				// a response is still outstanding: where its checkpoint lands is decided after the history ends
				d = "held"
			}
		}
		w.db.mu.Lock()
		if w.db.holdPut {
			d = "held"
		}
		w.db.mu.Unlock()
		w.ap.mu.Unlock()
	}
	return strings.Join(groups, " ") + " ; " + d + " ; " + strings.Join(vs, " ")
}

// valid checks the shape of one notification: A,i,ifx  R,i,ifx  X,i,snap  T,bucket,mask,snap  B  P,0|1
func (w *vf09World) valid(a []string) bool {
	num := func(s string) (int, bool) {
		v, err := strconv.ParseUint(s, 10, 32)
		return int(v), err == nil
	}
	switch a[0] {
	case "A", "R", "X":
		if len(a) != 3 && !(a[0] != "X" && len(a) == 4) {
			return false
		}
		i, ok := num(a[1])
		if !ok || i >= len(w.sess) {
			return false
		}
		if a[0] != "X" {
			_, ok = num(a[2])
			if ok && len(a) == 4 {
				_, ok = num(a[3])
			}
		}
		return ok
	case "T":
		if len(a) != 4 {
			return false
		}
		_, ok1 := num(a[1])
		_, ok2 := num(a[2])
		return (ok1 || a[1] == "z") && ok2
	case "B", "U":
		return len(a) == 1
	case "P":
		return len(a) == 2
	case "H":
		return len(a) == 2 && (a[1] == "S" || a[1] == "I" || a[1] == "SI" || a[1] == "-" || a[1] == "W" || a[1] == "IW")
	case "UW":
		return len(a) == 1
	}
	return false
}

// exec delivers one notification to the real component; "" = done.  An empty snapshot field means "keep the
// snapshot that is set" (members of a concurrent group share one).
func (w *vf09World) exec(a []string) string {
	num := func(s string) int {
		v, _ := strconv.ParseUint(s, 10, 32)
		return int(v)
	}
	hfx := func(a []string) uint32 {
		if len(a) > 3 {
			return uint32(num(a[3]))
		}
		return 0
	}
	switch a[0] {
	case "A":
		i := num(a[1])
		sess := w.payload(i, uint32(num(a[2])), hfx(a), models.SessionStateActive)
		w.c.handleSessionLifecycle(events.Event{Timestamp: time.Now(), Data: &events.SessionLifecycleEvent{
			AccessType: w.sess[i].typ, Protocol: sess.GetProtocol(), SessionID: w.sess[i].id, State: models.SessionStateActive, Session: sess}})
	case "R":
		i := num(a[1])
		sess := w.payload(i, uint32(num(a[2])), hfx(a), models.SessionStateActive)
		w.c.handleSessionRestored(events.Event{Timestamp: time.Now(), Data: &events.SessionRestoredEvent{
			AccessType: w.sess[i].typ, Protocol: sess.GetProtocol(), SessionID: w.sess[i].id, Session: sess,
			RestoreCause: events.RestoreCauseOsvbngdRestart}})
	case "X":
		i := num(a[1])
		if a[2] != "" && w.setSnap(a[2]) != nil {
			return "badline"
		}
		sess := w.payload(i, 0, 0, models.SessionStateReleased)
		w.c.handleSessionLifecycle(events.Event{Timestamp: time.Now(), Data: &events.SessionLifecycleEvent{
			AccessType: w.sess[i].typ, Protocol: sess.GetProtocol(), SessionID: w.sess[i].id, State: models.SessionStateReleased, Session: sess}})
		// only a release that really removed the accounting entry detaches it from an outstanding response / write
		w.c.acctCacheMu.RLock()
		_, still := w.c.acctCache[w.sess[i].id]
		w.c.acctCacheMu.RUnlock()
		if !still {
			w.db.mu.Lock()
			for _, k := range w.db.heldKeys {
				if k == w.sess[i].id {
					if w.relWhilePut == nil {
						w.relWhilePut = map[string]bool{}
					}
					w.relWhilePut[k] = true
				}
			}
			w.db.mu.Unlock()
			w.ap.mu.Lock()
			for _, h := range w.ap.held {
				if h.kind == 'I' && h.sid == w.sess[i].id {
					if w.relWhileHeld == nil {
						w.relWhileHeld = map[string]bool{}
					}
					w.relWhileHeld[h.sid] = true
				}
			}
			w.ap.mu.Unlock()
		}

	case "T":
		b, mask := w.freeBucket, num(a[2])
		if c, err := strconv.Atoi(a[1]); err == nil {
			if cb, ok := w.classBucket[c]; ok {
				b = cb
			}
		}
		if a[3] != "" && w.setSnap(a[3]) != nil {
			return "badline"
		}
		w.ap.mu.Lock()
		for i := range w.sess {
			if mask&(1<<uint(i)) != 0 {
				w.ap.fail[w.sess[i].id] = true
			}
		}
		w.ap.mu.Unlock()
		w.c.ProcessAccountingBucket(b)
	case "B":
		// Q: the process restarts while an Interim of the session is unanswered
		w.ap.mu.Lock()
		for _, h := range w.ap.held {
			if h.kind == 'I' {
				if w.forgot == nil {
					w.forgot = map[string]bool{}
				}
				w.forgot[h.sid] = true
			}
		}
		w.ap.mu.Unlock()
		w.relWhileHeld = nil
		old := w.c
		w.newComponent()
		old.StopContext()
		if _, err := w.c.loadAcctSessions(w.c.Ctx); err != nil {
			return "loaderr"
		}
	case "P":
		now := time.Now()
		if a[1] == "1" {
			now = now.Add(2 * pruneAcctOrphansAfter)
		}
		w.c.pruneOrphanedAcctEntries(now)
	case "H":
		w.ap.mu.Lock()
		w.ap.holdStart = strings.Contains(a[1], "S")
		w.ap.holdInterim = strings.Contains(a[1], "I")
		w.ap.mu.Unlock()
		w.db.mu.Lock()
		w.db.holdPut = strings.Contains(a[1], "W")
		w.db.mu.Unlock()
	case "UW":
		// the held checkpoint writes reach the store, oldest first
		w.db.mu.Lock()
		chs, keys := w.db.heldPuts, w.db.heldKeys
		w.db.heldPuts, w.db.heldKeys, w.db.holdPut = nil, nil, false
		w.db.mu.Unlock()
		for i, ch := range chs {
			if w.relWhilePut[keys[i]] {
				if w.lateSeen == nil {
					w.lateSeen = map[string]bool{}
				}
				w.lateSeen[keys[i]] = true
			}
			close(ch)
			if !vf09Quiesce(w.g0 + w.ap.nHeld() + len(chs) - 1 - i) {
				return "hang releasing a held checkpoint write"
			}
		}
		w.relWhilePut = nil
	case "U":
		// let the delayed calls through, session by session, oldest first, one at a time
		w.ap.mu.Lock()
		hs := w.ap.held
		w.ap.held = nil
		w.ap.mu.Unlock()
		defer func() { w.relWhileHeld = nil }()
		// per session: the delayed Starts first, then the outstanding responses, each oldest first
		sort.SliceStable(hs, func(x, y int) bool {
			if w.idx[hs[x].sid] != w.idx[hs[y].sid] {
				return w.idx[hs[x].sid] < w.idx[hs[y].sid]
			}
			return hs[x].kind == 'S' && hs[y].kind == 'I'
		})
		for i, h := range hs {
			if h.kind == 'I' {
				if w.relWhileHeld[h.sid] {
					if w.lateSeen == nil {
						w.lateSeen = map[string]bool{}
					}
					w.lateSeen[h.sid] = true
				}
				r := byte('K')
				if h.fail {
					r = 'F'
				}
				w.ap.mu.Lock()
				w.ap.calls = append(w.ap.calls, vf09Call{kind: 'I', sid: h.sid, resp: r, seq: len(w.ap.calls)})
				w.ap.mu.Unlock()
			}
			close(h.release)
			if !vf09QuiesceF(func() int { return w.g0 + len(hs) - 1 - i + w.db.nHeld() }) {
				return "hang releasing a delayed call"
			}
		}
	}
	return ""
}

func TestVerifC09(t *testing.T) {
	in, err := os.Open(os.Getenv("VERIF_CASES"))
	if err != nil {
		t.Fatal(err)
	}
	defer in.Close()
	out, err := os.Create(os.Getenv("VERIF_OUT"))
	if err != nil {
		t.Fatal(err)
	}
	defer out.Close()
	wr := bufio.NewWriter(out)
	defer wr.Flush()
	sc := bufio.NewScanner(in)
	sc.Buffer(make([]byte, 1<<20), 1<<26)
	base := runtime.NumGoroutine()
	for sc.Scan() {
		line := sc.Text()
		// the previous case goroutine (and anything it leaked) must be gone before the baseline is used
		if !vf09Quiesce(base) {
			base = runtime.NumGoroutine()
		}
		// a history with a concurrent group is run several times: the verdict must not depend on the scheduler
		reps := 1
		if strings.Contains(line, " C/") {
			reps = 5
		}
		done := make(chan string, 1)
		go func() {
			first := ""
			for r := 0; r < reps; r++ {
				if r > 0 && !vf09Quiesce(base+1) {
					done <- "hang between repetitions"
					return
				}
				res := vf09RunCase(line, base+1)
				if r == 0 {
					first = res
				} else if res != first {
					done <- "NONDETERMINISTIC run0=" + first + " run" + strconv.Itoa(r) + "=" + res
					return
				}
			}
			done <- first
		}()
		select {
		case r := <-done:
			fmt.Fprintln(wr, r)
		case <-time.After(90 * time.Second):
			fmt.Fprintln(wr, "hang")
		}
	}
}
