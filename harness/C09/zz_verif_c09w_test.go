//go:build verif

package radius

// C09, wire part: the real Provider's StartAccounting / UpdateAccounting / StopAccounting (real radiusConn
// transport) against a loopback UDP accounting server that decodes every Accounting-Request.
//
// case line:   W <rec> <rec> ...      rec = <S|I|E>,<in-octets>,<out-octets>,<in-packets>,<out-packets>
// output:      per record  <status 40>:<42>:<43>:<52, 0 when absent>:<53, 0 when absent>:<47>:<48>   then " ; mono=<0|1>": the
//              monotone monitor run on the 64-bit values the server reconstructs (Gigawords<<32 | Octets).

import (
	"bufio"
	"context"
	"encoding/binary"
	"fmt"
	"net"
	"os"
	"strconv"
	"strings"
	"sync"
	"testing"
	"time"

	internalaaa "github.com/veesix-networks/osvbng/internal/aaa"
	"github.com/veesix-networks/osvbng/pkg/auth"
	"github.com/veesix-networks/osvbng/pkg/logger"
	"github.com/veesix-networks/osvbng/pkg/netbind"
	"layeh.com/radius"
)

type vf09wRec struct {
	have [256]bool
	val  [256]uint32
}

type vf09wServer struct {
	mu   sync.Mutex
	seen []vf09wRec
}

func vf09wRun(p *Provider, srv *vf09wServer, line string) (res string) {
	defer func() {
		if r := recover(); r != nil {
			res = strings.ReplaceAll(fmt.Sprintf("panic %v", r), "\n", " ")
			if len(res) > 120 {
				res = res[:120]
			}
		}
	}()
	f := strings.Fields(line)
	if len(f) < 2 || f[0] != "W" {
		return "badline"
	}
	srv.mu.Lock()
	srv.seen = nil
	srv.mu.Unlock()
	ctx := context.Background()
	for _, r := range f[1:] {
		a := strings.Split(r, ",")
		if len(a) != 5 {
			return "badline"
		}
		var v [4]uint64
		for i := 0; i < 4; i++ {
			x, err := strconv.ParseUint(a[i+1], 10, 64)
			if err != nil {
				return "badline"
			}
			v[i] = x
		}
		s := &auth.Session{SessionID: "s1", AcctSessionID: "acct-1", Username: "alice", MAC: "02:00:00:00:00:01",
			AccessType: "ipoe", RxBytes: v[0], TxBytes: v[1], RxPackets: v[2], TxPackets: v[3], Attributes: map[string]string{}}
		var err error
		switch a[0] {
		case "S":
			err = p.StartAccounting(ctx, s)
		case "I":
			err = p.UpdateAccounting(ctx, s)
		case "E":
			err = p.StopAccounting(ctx, s)
		default:
			return "badline"
		}
		if err != nil {
			return "ERR provider: " + strings.ReplaceAll(err.Error(), "\n", " ")
		}
	}
	srv.mu.Lock()
	seen := append([]vf09wRec(nil), srv.seen...)
	srv.mu.Unlock()
	if len(seen) != len(f)-1 {
		return fmt.Sprintf("ERR server saw %d requests for %d calls", len(seen), len(f)-1)
	}
	var toks []string
	mono := true
	var prev [4]uint64
	opt := func(r *vf09wRec, t int) string {
		if !r.have[t] {
			return "-"
		}
		return strconv.FormatUint(uint64(r.val[t]), 10)
	}
	for i := range seen {
		r := &seen[i]
		// Gigawords: an absent attribute and a present one with value 0 mean the same to an accounting server (RFC 2869);
		// which of the two the encoder chooses is not constrained by the property
		giga := func(t int) string { return strconv.FormatUint(uint64(r.val[t]), 10) }
		toks = append(toks, strings.Join([]string{opt(r, 40), opt(r, 42), opt(r, 43), giga(52), giga(53), opt(r, 47), opt(r, 48)}, ":"))
		// what a RADIUS accounting server reconstructs (RFC 2869)
		dec := [4]uint64{uint64(r.val[52])<<32 | uint64(r.val[42]), uint64(r.val[53])<<32 | uint64(r.val[43]), uint64(r.val[47]), uint64(r.val[48])}
		ge := dec[0] >= prev[0] && dec[1] >= prev[1] && dec[2] >= prev[2] && dec[3] >= prev[3]
		switch r.val[40] {
		case 1:
			prev = [4]uint64{}
		case 3:
			if !ge {
				mono = false
			}
			prev = dec
		case 2:
			if !ge {
				mono = false
			}
			prev = [4]uint64{}
		default:
			toks[len(toks)-1] += "BADSTATUS"
		}
	}
	m := "1"
	if !mono {
		m = "0"
	}
	return strings.Join(toks, " ") + " ; mono=" + m
}

func TestVerifC09W(t *testing.T) {
	in, err := os.Open(os.Getenv("VERIF_CASES"))
	if err != nil {
		t.Fatal(err)
	}
	defer in.Close()
	out, err := os.Create(os.Getenv("VERIF_OUT"))
	if err != nil {
		t.Fatal(err)
	}
	defer out.Close()
	wr := bufio.NewWriter(out)
	defer wr.Flush()

	secret := []byte("s3cret")
	sock, err := net.ListenUDP("udp4", &net.UDPAddr{IP: net.IPv4(127, 0, 0, 1)})
	if err != nil {
		t.Fatal(err)
	}
	defer sock.Close()
	srv := &vf09wServer{}
	go func() {
		buf := make([]byte, 8192)
		for {
			n, from, err := sock.ReadFromUDP(buf)
			if err != nil {
				return
			}
			req, err := radius.Parse(append([]byte(nil), buf[:n]...), secret)
			if err != nil || req.Code != radius.CodeAccountingRequest {
				continue
			}
			var rec vf09wRec
			for _, t := range []int{40, 42, 43, 47, 48, 52, 53} {
				if a, ok := req.Lookup(radius.Type(t)); ok && len(a) == 4 {
					rec.have[t] = true
					rec.val[t] = binary.BigEndian.Uint32(a)
				}
			}
			srv.mu.Lock()
			srv.seen = append(srv.seen, rec)
			srv.mu.Unlock()
			if raw, err := req.Response(radius.CodeAccountingResponse).Encode(); err == nil {
				sock.WriteToUDP(raw, from)
			}
		}
	}()
	port := sock.LocalAddr().(*net.UDPAddr).Port
	rc := newRadiusConn("127.0.0.1", port, secret, 3*time.Second, netbind.Binding{})
	defer rc.close()
	p := &Provider{cfg: &Config{Retries: 1, DeadTime: time.Minute, DeadThreshold: 1000, NASIdentifier: "bng"},
		logger: logger.NewTest(), acctConns: []*radiusConn{rc}, radiusStats: internalaaa.NewRADIUSStats()}

	sc := bufio.NewScanner(in)
	sc.Buffer(make([]byte, 1<<20), 1<<26)
	for sc.Scan() {
		line := sc.Text()
		done := make(chan string, 1)
		go func() { done <- vf09wRun(p, srv, line) }()
		select {
		case r := <-done:
			fmt.Fprintln(wr, r)
		case <-time.After(30 * time.Second):
			fmt.Fprintln(wr, "hang")
		}
	}
}
