//go:build verif

package cgnat

// C15 correspondence harness.  One case per input line:
//
//	pool|comp bs=N ratio=N range=A-B|def max=N pooling=0|1|2 out=ip[/len],... excl=ip,...|- | op op ...
//
// pool ops (PoolManager API):   a:k  g:k  r:k  R:k:ip:s:e  I:k:ip:s:e  d
// comp ops (real Component):    A:sid:k:dpok  S:sid:k:mk:ip:s:e[:dpok]  X:sid:k[:pattern]  P:sid:mk:ip:s:e[:bulk]
//                               D:sid:mk:ip:s:e  C  d  w:lo:hi
// Fault dimension of the southbound fake: dpok = outcome of the dataplane add; pattern = one letter per dataplane
// delete issued by the release (o ok, f failed, O ok but completing later, F failed and completing later; missing
// letters = o); bulk = 0 ok, 1 per-mapping error, 2 transport error of the bulk reprogram; C fires the delete
// callbacks that are still pending, newest first.
//
// IPv4 addresses are decimal uint32.  Subscriber k is InsideVRF k>>32, InsideIP = the four bytes of k&0xffffffff; the
// sessions of subscriber k >= 2^32 carry VRF name "vrf<k>>32>", which the harness' vrf manager resolves to table
// id k>>32.
//
//	mp <cfg tokens of p1> || <cfg tokens of p2> | v a:P:k g:P:k r:P:k R:P:k:ip:s:e I:P:k:ip:s:e d
//
// two pools on one PoolManager (P = 1 or 2); v = cgnat.Config.Validate of the two-pool configuration.  When it
// rejects the configuration the case ends there (the loader would refuse it).
// ev cases: the same Component, but events go through the subscribed entry points (handleSessionLifecycle /
// handleSessionProgrammed / handleSessionRestored) and the restore-window queue, which is open until Z (drainQueue):
//	eL:<a|r|o>:<i|p|o>:sid:k[:pattern]  lifecycle event (state active / released / other; access IPoE / PPPoE / other)
//	eP:<i|p|o>:sid:k:dpok   programmed event      eR:<i|p|o>:sid:k:dpok   restored event      eB   foreign payload
//	F:n   n lifecycle-active events in a row      Z   drainQueue      plus P D d w of comp cases
// Late dataplane adds:  L:sid:k activates with the add left in flight, K:sid:ok runs its callback.
import (
	"reflect"
	"unsafe"

	"bufio"
	"context"
	"encoding/json"
	"fmt"
	"net"
	"os"
	"sort"
	"strconv"
	"strings"
	"testing"
	"time"

	"github.com/veesix-networks/osvbng/pkg/component"
	"github.com/veesix-networks/osvbng/pkg/config"
	cgnatcfg "github.com/veesix-networks/osvbng/pkg/config/cgnat"
	"github.com/veesix-networks/osvbng/pkg/config/subscriber"
	"github.com/veesix-networks/osvbng/pkg/events"
	"github.com/veesix-networks/osvbng/pkg/logger"
	"github.com/veesix-networks/osvbng/pkg/models"
	"github.com/veesix-networks/osvbng/pkg/opdb"
	"github.com/veesix-networks/osvbng/pkg/southbound"
	"github.com/veesix-networks/osvbng/pkg/vrfmgr"
)

// a vrfmgr.Manager that resolves vrf1..vrf7 to table ids 1..7 without touching netlink: its private map is filled
// through reflection
func vf15VRFManager() *vrfmgr.Manager {
	m := vrfmgr.New(nil)
	f := reflect.ValueOf(m).Elem().FieldByName("vrfs")
	if !f.IsValid() {
		return m
	}
	f = reflect.NewAt(f.Type(), unsafe.Pointer(f.UnsafeAddr())).Elem()
	mp := reflect.MakeMap(f.Type())
	for i := 1; i <= 7; i++ {
		e := reflect.New(f.Type().Elem().Elem())
		set := func(name string, v interface{}) {
			fl := e.Elem().FieldByName(name)
			if fl.IsValid() {
				reflect.NewAt(fl.Type(), unsafe.Pointer(fl.UnsafeAddr())).Elem().Set(reflect.ValueOf(v))
			}
		}
		set("Name", fmt.Sprintf("vrf%d", i))
		set("TableID", uint32(i))
		set("IPv4", true)
		mp.SetMapIndex(reflect.ValueOf(fmt.Sprintf("vrf%d", i)), e)
	}
	f.Set(mp)
	return m
}
func vf15VRFName(k uint64) string {
	if k>>32 == 0 {
		return ""
	}
	return fmt.Sprintf("vrf%d", k>>32)
}

// ---- fakes ----
type vf15Bus struct{ events.Bus }

func (vf15Bus) Publish(topic string, event events.Event) {}

type vf15DP struct {
	southbound.CGNATDataplane
	asyncOK    bool
	addCalls   []string
	delPattern string
	delCount   int
	deferred   []func()
	bulk       int
	lateSid    string
	lateAdds   map[string]func(error)
	okByKey    map[uint64]bool // ev cases: outcome of the add for a subscriber, fixed when its event is delivered
}

func (d *vf15DP) CGNATAddDelSubscriberMappingAsync(poolID, swIfIndex uint32, insideIP net.IP, insideVRFID uint32,
	outsideIP net.IP, portStart, portEnd uint16, enableFeature, isAdd bool, callback func(error)) {
	if isAdd {
		d.addCalls = append(d.addCalls, fmt.Sprintf("dp %d %d %d", vf15IPNum(outsideIP), portStart, portEnd))
		if d.lateSid != "" {
			d.lateAdds[d.lateSid] = callback
			return
		}
		ok := d.asyncOK
		if v, found := d.okByKey[vf15Key(insideVRFID, insideIP)]; found {
			ok = v
		}
		if ok {
			callback(nil)
		} else {
			callback(fmt.Errorf("injected dataplane failure"))
		}
		return
	}
	ch := byte('o')
	if d.delCount < len(d.delPattern) {
		ch = d.delPattern[d.delCount]
	}
	d.delCount++
	switch ch {
	case 'f':
		callback(fmt.Errorf("injected dataplane delete failure"))
	case 'O':
		d.deferred = append(d.deferred, func() { callback(nil) })
	case 'F':
		d.deferred = append(d.deferred, func() { callback(fmt.Errorf("injected late dataplane delete failure")) })
	default:
		callback(nil)
	}
}
func (d *vf15DP) CGNATAddSubscriberMappingBulk(poolID uint32, mappings []southbound.CGNATMapping) ([]error, error) {
	res := make([]error, len(mappings))
	switch d.bulk {
	case 1:
		for i := range res {
			res[i] = fmt.Errorf("injected per-mapping failure")
		}
	case 2:
		return nil, fmt.Errorf("injected transport failure")
	}
	return res, nil
}
func (d *vf15DP) CGNATEnableOnSession(poolID, swIfIndex uint32, isEnable bool) error { return nil }
func (d *vf15DP) CGNATAddDelBypass(prefix net.IPNet, vrfID uint32, isAdd bool) error  { return nil }

type vf15Store struct{ ns map[string]map[string][]byte }

func (f *vf15Store) Put(ctx context.Context, namespace, key string, value []byte) error {
	if f.ns[namespace] == nil {
		f.ns[namespace] = map[string][]byte{}
	}
	f.ns[namespace][key] = append([]byte(nil), value...)
	return nil
}
func (f *vf15Store) Delete(ctx context.Context, namespace, key string) error {
	delete(f.ns[namespace], key)
	return nil
}
func (f *vf15Store) Load(ctx context.Context, namespace string, fn opdb.LoadFunc) error {
	keys := []string{}
	for k := range f.ns[namespace] {
		keys = append(keys, k)
	}
	sort.Strings(keys)
	for _, k := range keys {
		if err := fn(k, f.ns[namespace][k]); err != nil {
			return err
		}
	}
	return nil
}
func (f *vf15Store) Count(ctx context.Context, namespace string) (int, error) {
	return len(f.ns[namespace]), nil
}
func (f *vf15Store) Clear(ctx context.Context, namespace string) error { delete(f.ns, namespace); return nil }
func (f *vf15Store) Stats() opdb.Stats                                 { return opdb.Stats{} }
func (f *vf15Store) Close() error                                      { return nil }

type vf15Provider struct{ sessions map[string]models.SubscriberSession }

func (p *vf15Provider) SessionSnapshot(_ context.Context, id string) (models.SubscriberSession, bool) {
	s, ok := p.sessions[id]
	return s, ok
}
func (p *vf15Provider) GetSessions(_ context.Context, _, _ string, _ uint32) ([]models.SubscriberSession, error) {
	out := []models.SubscriberSession{}
	for _, s := range p.sessions {
		out = append(out, s)
	}
	return out, nil
}

type vf15Cfg struct{ cfg *config.Config }

func (f *vf15Cfg) GetRunning() (*config.Config, error) { return f.cfg, nil }
func (f *vf15Cfg) GetStartup() (*config.Config, error) { return f.cfg, nil }
func (f *vf15Cfg) LookupSubscriberGroup(svlan, cvlan uint16) (subscriber.GroupMatch, bool) {
	return subscriber.GroupMatch{}, false
}

var errVF15Invalid = fmt.Errorf("invalid")

// ---- helpers ----
func vf15IPNum(ip net.IP) uint32 {
	ip4 := ip.To4()
	if ip4 == nil {
		return 0
	}
	return uint32(ip4[0])<<24 | uint32(ip4[1])<<16 | uint32(ip4[2])<<8 | uint32(ip4[3])
}
func vf15IP(n uint64) net.IP { return net.IPv4(byte(n>>24), byte(n>>16), byte(n>>8), byte(n)).To4() }
// A subscriber number k is inside VRF k>>32 and the inside IPv4 address given by ALL four bytes of k's low 32 bits;
// the projection back prints the full key.
func vf15SubIP(k uint64) net.IP {
	return net.IPv4(byte(k>>24), byte(k>>16), byte(k>>8), byte(k)).To4()
}
func vf15SubVRF(k uint64) uint32 { return uint32(k >> 32) }
func vf15Key(vrf uint32, ip net.IP) uint64 {
	ip4 := ip.To4()
	if ip4 == nil {
		return 1 << 60
	}
	return uint64(vrf)<<32 | uint64(ip4[0])<<24 | uint64(ip4[1])<<16 | uint64(ip4[2])<<8 | uint64(ip4[3])
}
func vf15Num(s string) uint64 { n, _ := strconv.ParseUint(s, 10, 64); return n }

type vf15Env struct {
	name   string
	raw    *cgnatcfg.Pool
	pm     *PoolManager
	c      *Component
	dp     *vf15DP
	store  *vf15Store
	sp     *vf15Provider
	bs     int
	pstart int
	pend   int
	max    int
	paired bool
}

func vf15ErrKind(err error) string {
	m := err.Error()
	switch {
	case strings.Contains(m, "max blocks"):
		return "err limit"
	case strings.Contains(m, "no free blocks"):
		return "err nofree"
	case strings.Contains(m, "block allocation failed"):
		return "err allocfail"
	}
	return "err other"
}

type vf15M struct {
	k          uint64
	ip         uint32
	start, end int
}

func (e *vf15Env) all() []vf15M {
	var l []vf15M
	for _, m := range e.pm.GetAllMappings() {
		if m.PoolName != e.name {
			continue
		}
		l = append(l, vf15M{vf15Key(m.InsideVRFID, m.InsideIP), vf15IPNum(m.OutsideIP), int(m.PortBlockStart), int(m.PortBlockEnd)})
	}
	return l
}

func (e *vf15Env) dump(comp bool) string {
	ps := e.pm.pools[e.name]
	// subscribers in key order, blocks in list order
	keys := []uint64{}
	byk := map[uint64]string{}
	for key, sub := range ps.Subscribers {
		k := vf15Key(key.InsideVRF, net.IP(key.InsideIP[:]))
		keys = append(keys, k)
		parts := []string{}
		for _, b := range sub.Blocks {
			parts = append(parts, fmt.Sprintf("%d/%d-%d", vf15IPNum(b.OutsideIP), b.PortBlockStart, b.PortBlockEnd))
		}
		byk[k] = fmt.Sprintf("%d:%s", k, strings.Join(parts, ","))
	}
	sort.Slice(keys, func(i, j int) bool { return keys[i] < keys[j] })
	subs := []string{}
	for _, k := range keys {
		subs = append(subs, byk[k])
	}
	if len(subs) == 0 {
		subs = []string{"-"}
	}
	bits := []string{}
	for _, a := range ps.OutsideAddresses {
		// the set of taken block indices, as bitmap words with trailing zero words dropped: a bitmap that is nil,
		// shorter or longer than ceil(TotalBlocks/64) but has the same bits set prints the same
		ws := []string{}
		last := -1
		for i, w := range a.AllocatedBits {
			if w != 0 {
				last = i
			}
		}
		for _, w := range a.AllocatedBits[:last+1] {
			ws = append(ws, fmt.Sprintf("%x", w))
		}
		if len(ws) == 0 {
			ws = []string{"0"}
		}
		x := ""
		if a.Excluded {
			x = "x"
		}
		bits = append(bits, fmt.Sprintf("%d%s:%s", vf15IPNum(a.IP), x, strings.Join(ws, ".")))
	}
	if len(bits) == 0 {
		bits = []string{"-"}
	}
	st := e.pm.GetPoolStats(e.name)
	// the property evaluated on the externally visible mappings
	all := e.all()
	flags := []string{}
	overlap, rng, limit, span := false, false, false, false
	count := map[uint64]int{}
	first := map[uint64]uint32{}
	total := 0
	if e.bs > 0 && e.pend >= e.pstart {
		total = (e.pend - e.pstart + 1) / e.bs
	}
	for i, x := range all {
		count[x.k]++
		for _, y := range all[i+1:] {
			if x.k != y.k && x.ip == y.ip && x.start <= y.end && y.start <= x.end {
				overlap = true
			}
			if x.k == y.k && x.ip != y.ip && e.paired {
				span = true
			}
		}
		_ = first
		okAddr := false
		for _, a := range ps.OutsideAddresses {
			if vf15IPNum(a.IP) == x.ip && !a.Excluded {
				okAddr = true
			}
		}
		if !okAddr || x.start < e.pstart || (x.start-e.pstart)%e.bs != 0 || (x.start-e.pstart)/e.bs >= total ||
			x.end != x.start+e.bs-1 || x.end > e.pend {
			rng = true
		}
	}
	for _, n := range count {
		if n > e.max {
			limit = true
		}
	}
	if overlap {
		flags = append(flags, "OVERLAP")
	}
	if rng {
		flags = append(flags, "RANGE")
	}
	if limit {
		flags = append(flags, "LIMIT")
	}
	if span {
		flags = append(flags, "SPAN")
	}
	if len(flags) == 0 {
		flags = []string{"none"}
	}
	s := fmt.Sprintf("subs=%s bits=%s stats=%d/%d/%d/%d/%d/%d flags=%s", strings.Join(subs, ";"), strings.Join(bits, ","),
		st.TotalAddresses, st.AllocatedAddresses, st.FreeBlocks, st.TotalBlocks, st.ExcludedAddresses, st.SubscriberCount,
		strings.Join(flags, ","))
	if comp {
		sids := []string{}
		for sid := range e.c.sessionPoolMap {
			sids = append(sids, sid)
		}
		sort.Slice(sids, func(i, j int) bool { return vf15Num(sids[i]) < vf15Num(sids[j]) })
		if len(sids) == 0 {
			sids = []string{"-"}
		}
		nip := 0
		for _, l := range e.c.reverse.byIP {
			nip += len(l)
		}
		s += fmt.Sprintf(" sess=%s rev=%d/%d", strings.Join(sids, ","), len(e.c.reverse.byBlock), nip)
	}
	return s
}

// reverse sweep: every pool address plus one foreign address, ports lo..hi
func (e *vf15Env) sweep(lo, hi int) string {
	ps := e.pm.pools["p1"]
	ips := []uint32{}
	seen := map[uint32]bool{}
	for _, a := range ps.OutsideAddresses {
		n := vf15IPNum(a.IP)
		if !seen[n] {
			seen[n] = true
			ips = append(ips, n)
		}
	}
	ips = append(ips, 1)
	all := e.all()
	runs := []string{}
	bad := ""
	for _, ip := range ips {
		cur, curLo := "", 0
		flush := func(p int) {
			if cur != "" {
				runs = append(runs, fmt.Sprintf("%d:%d-%d=%s", ip, curLo, p-1, cur))
			}
		}
		for p := lo; p <= hi; p++ {
			m := e.c.reverse.Lookup(vf15IP(uint64(ip)), uint16(p))
			r := ""
			covered := false
			for _, x := range all {
				if x.ip == ip && x.start <= p && p <= x.end {
					covered = true
				}
			}
			if m != nil {
				k := vf15Key(m.InsideVRFID, m.InsideIP)
				r = fmt.Sprintf("%d/%d-%d", k, m.PortBlockStart, m.PortBlockEnd)
				owned := false
				for _, x := range all {
					if x.k == k && x.ip == vf15IPNum(m.OutsideIP) && x.start == int(m.PortBlockStart) && x.end == int(m.PortBlockEnd) {
						owned = true
					}
				}
				if (!owned || vf15IPNum(m.OutsideIP) != ip || p < int(m.PortBlockStart) || p > int(m.PortBlockEnd)) && bad == "" {
					bad = fmt.Sprintf("BAD@%d:%d", ip, p)
				}
			} else if covered && bad == "" {
				bad = fmt.Sprintf("BAD@%d:%d", ip, p)
			}
			if r != cur {
				flush(p)
				cur, curLo = r, p
			}
		}
		flush(hi + 1)
	}
	if len(runs) == 0 {
		runs = []string{"-"}
	}
	if bad == "" {
		bad = "ok"
	}
	return "sw " + strings.Join(runs, ",") + " trace=" + bad
}

func vf15Mapping(k uint64, ip uint64, s, en uint64, vrfFromK bool) *models.CGNATMapping {
	vrf := uint32(0)
	if vrfFromK {
		vrf = vf15SubVRF(k)
	}
	return &models.CGNATMapping{PoolName: "p1", PoolID: 1, InsideIP: vf15SubIP(k), InsideVRFID: vrf,
		OutsideIP: vf15IP(ip), PortBlockStart: uint16(s), PortBlockEnd: uint16(en), SwIfIndex: 7}
}

func vf15ParseRaw(f []string) (*cgnatcfg.Pool, error) {
	raw := &cgnatcfg.Pool{Mode: "pba", OutsideInterfaces: []string{"eth0"},
		InsidePrefixes: []cgnatcfg.InsidePrefix{{Prefix: "0.0.0.0/0"}}}
	for _, t := range f {
		kv := strings.SplitN(t, "=", 2)
		if len(kv) != 2 {
			return nil, fmt.Errorf("bad cfg token %q", t)
		}
		switch kv[0] {
		case "bs":
			raw.BlockSize = uint16(vf15Num(kv[1]))
		case "ratio":
			raw.SubscriberRatio = uint16(vf15Num(kv[1]))
		case "range":
			if kv[1] != "def" {
				raw.PortRange = kv[1]
			}
		case "max":
			raw.MaxBlocksPerSubscriber = uint8(vf15Num(kv[1]))
		case "pooling":
			switch kv[1] {
			case "1":
				raw.AddressPooling = "paired"
			case "2":
				raw.AddressPooling = "arbitrary"
			}
		case "out":
			for _, o := range strings.Split(kv[1], ",") {
				p := strings.SplitN(o, "/", 2)
				s := vf15IP(vf15Num(p[0])).String()
				if len(p) == 2 {
					s += "/" + p[1]
				}
				raw.OutsideAddresses = append(raw.OutsideAddresses, s)
			}
		case "excl":
			if kv[1] != "-" {
				for _, o := range strings.Split(kv[1], ",") {
					raw.ExcludedAddresses = append(raw.ExcludedAddresses, vf15IP(vf15Num(o)).String())
				}
			}
		}
	}
	return raw, nil
}

func (e *vf15Env) geometry() {
	e.bs = int(e.raw.GetBlockSize())
	e.pstart = int(e.raw.GetPortRangeStart())
	e.pend = int(e.raw.GetPortRangeEnd())
	e.max = int(e.raw.GetMaxBlocksPerSubscriber())
	e.paired = e.raw.GetAddressPooling() == "paired"
}

func vf15Setup(kind string, f []string) (*vf15Env, error) {
	raw, err := vf15ParseRaw(f)
	if err != nil {
		return nil, err
	}
	// the loader validates the configuration before any component sees it
	if err := (&cgnatcfg.Config{Pools: map[string]*cgnatcfg.Pool{"p1": raw}}).Validate(); err != nil {
		return nil, errVF15Invalid
	}
	e := &vf15Env{name: "p1", raw: raw, pm: NewPoolManager()}
	if err := e.pm.ConfigurePool("p1", 1, raw); err != nil {
		return nil, err
	}
	e.geometry()
	e.dp = &vf15DP{asyncOK: true, lateAdds: map[string]func(error){}, okByKey: map[uint64]bool{}}
	e.store = &vf15Store{ns: map[string]map[string][]byte{}}
	e.sp = &vf15Provider{sessions: map[string]models.SubscriberSession{}}
	e.newComponent()
	return e, nil
}

// a Component over the environment's pool manager, store, dataplane and provider
func (e *vf15Env) newComponent() {
	cfg := &config.Config{CGNAT: &cgnatcfg.Config{Pools: map[string]*cgnatcfg.Pool{"p1": e.raw}}}
	e.c = &Component{
		Base:            component.NewBase("cgnat"),
		logger:          logger.NewTest(),
		eventBus:        vf15Bus{},
		dataplane:       e.dp,
		opdb:            e.store,
		cfgMgr:          &vf15Cfg{cfg: cfg},
		vrfMgr:          vf15VRFManager(),
		pools:           e.pm,
		reverse:         NewReverseIndex(),
		bypass:          NewBypassManager(),
		blacklist:       NewBlacklistManager(),
		poolIDMap:       map[string]uint32{"p1": 1},
		sessionPoolMap:  map[string]string{},
		sessionProvider: e.sp,
		activations:     map[string]struct{}{},
	}
}

// process restart: fresh pool manager and component over the same opdb; every persisted session is present in the
// subscriber cache and the bulk reprogram succeeds
func (e *vf15Env) restart() string {
	e.pm = NewPoolManager()
	if err := e.pm.ConfigurePool("p1", 1, e.raw); err != nil {
		return "cfgerr"
	}
	e.dp.lateAdds = map[string]func(error){}
	e.dp.deferred = nil
	e.newComponent()
	sessions := map[string]models.SubscriberSession{}
	for sid, data := range e.store.ns[opdbNamespace] {
		var m models.CGNATMapping
		if err := json.Unmarshal(data, &m); err != nil {
			continue
		}
		vrf := ""
		if m.InsideVRFID != 0 {
			vrf = fmt.Sprintf("vrf%d", m.InsideVRFID)
		}
		sessions[sid] = &models.IPoESession{SessionID: sid, AccessType: string(models.AccessTypeIPoE), IfIndex: 9,
			IPv4Address: m.InsideIP, VRF: vrf}
	}
	e.sp.sessions = sessions
	err := e.c.restoreFromOpDB(context.Background())
	e.sp.sessions = map[string]models.SubscriberSession{}
	if err != nil {
		return "err"
	}
	return e.dpResult()
}

// the persisted records, decoded: sid=subscriber/ip/start-end
func (e *vf15Env) dbDump() string {
	type rec struct {
		sid uint64
		txt string
	}
	var recs []rec
	for sid, data := range e.store.ns[opdbNamespace] {
		var m models.CGNATMapping
		if err := json.Unmarshal(data, &m); err != nil {
			recs = append(recs, rec{vf15Num(sid), sid + "=UNDECODABLE"})
			continue
		}
		recs = append(recs, rec{vf15Num(sid), fmt.Sprintf("%s=%d/%d/%d-%d", sid, vf15Key(m.InsideVRFID, m.InsideIP),
			vf15IPNum(m.OutsideIP), m.PortBlockStart, m.PortBlockEnd)})
	}
	sort.Slice(recs, func(i, j int) bool { return recs[i].sid < recs[j].sid })
	out := []string{}
	for _, r := range recs {
		out = append(out, r.txt)
	}
	if len(out) == 0 {
		return "db -"
	}
	return "db " + strings.Join(out, ",")
}

func (e *vf15Env) lifecycle(sid string, k uint64, state models.SessionState) *events.SessionLifecycleEvent {
	return &events.SessionLifecycleEvent{AccessType: models.AccessTypeIPoE, SessionID: sid, State: state,
		Session: &models.IPoESession{SessionID: sid, AccessType: string(models.AccessTypeIPoE), IfIndex: 7,
			IPv4Address: vf15SubIP(k), VRF: vf15VRFName(k)}}
}

func (e *vf15Env) session(acc string, sid string, k uint64) (models.AccessType, any) {
	switch acc {
	case "p":
		return models.AccessTypePPPoE, &models.PPPSession{SessionID: sid, AccessType: string(models.AccessTypePPPoE), IfIndex: 7,
			IPv4Address: vf15SubIP(k), VRF: vf15VRFName(k)}
	case "o":
		return models.AccessTypeL2TP, &models.IPoESession{SessionID: sid, AccessType: string(models.AccessTypeL2TP), IfIndex: 7,
			IPv4Address: vf15SubIP(k), VRF: vf15VRFName(k)}
	}
	return models.AccessTypeIPoE, &models.IPoESession{SessionID: sid, AccessType: string(models.AccessTypeIPoE), IfIndex: 7,
		IPv4Address: vf15SubIP(k), VRF: vf15VRFName(k)}
}

func (e *vf15Env) queueState() string {
	return fmt.Sprintf(" q=%d/%d", len(e.c.pendingEvents), e.c.queueDropped)
}

func (e *vf15Env) dpResult() string {
	if len(e.dp.addCalls) == 0 {
		return "nodp"
	}
	return strings.Join(e.dp.addCalls, "+")
}

func (e *vf15Env) op(kind string, tok string) string {
	a := strings.Split(tok, ":")
	n := func(i int) uint64 { return vf15Num(a[i]) }
	ctx := context.Background()
	if kind == "pool" {
		return e.poolOp(a)
	}
	e.dp.addCalls = nil
	e.dp.asyncOK = true
	e.dp.delPattern = ""
	e.dp.delCount = 0
	e.dp.bulk = 0
	e.dp.lateSid = ""
	switch a[0] {
	case "B":
		return e.restart()
	case "b":
		return e.dbDump()
	case "eL":
		st := map[string]models.SessionState{"a": models.SessionStateActive, "r": models.SessionStateReleased}[a[1]]
		if st == "" {
			st = models.SessionState("expired")
		}
		if len(a) > 5 {
			e.dp.delPattern = a[5]
		}
		at, sess := e.session(a[2], a[3], n(4))
		e.c.handleSessionLifecycle(events.Event{Data: &events.SessionLifecycleEvent{AccessType: at, SessionID: a[3], State: st, Session: sess}})
		return e.dpResult() + e.queueState()
	case "eP":
		e.dp.okByKey[n(3)] = a[4] == "1"
		at, sess := e.session(a[1], a[2], n(3))
		e.c.handleSessionProgrammed(events.Event{Data: &events.SessionLifecycleEvent{AccessType: at, SessionID: a[2], State: models.SessionStateActive, Session: sess}})
		return e.dpResult() + e.queueState()
	case "eR":
		e.dp.okByKey[n(3)] = a[4] == "1"
		at, sess := e.session(a[1], a[2], n(3))
		ss, _ := sess.(models.SubscriberSession)
		e.c.handleSessionRestored(events.Event{Data: &events.SessionRestoredEvent{AccessType: at, SessionID: a[2], Session: ss}})
		return e.dpResult() + e.queueState()
	case "eB":
		e.c.handleSessionLifecycle(events.Event{Data: "foreign payload"})
		e.c.handleSessionProgrammed(events.Event{Data: 7})
		e.c.handleSessionRestored(events.Event{Data: &events.SessionLifecycleEvent{}})
		return e.dpResult() + e.queueState()
	case "F":
		at, sess := e.session("i", "0", 0)
		for i := uint64(0); i < n(1); i++ {
			e.c.handleSessionLifecycle(events.Event{Data: &events.SessionLifecycleEvent{AccessType: at, SessionID: "0", State: models.SessionStateActive, Session: sess}})
		}
		return "ok" + e.queueState()
	case "Z":
		e.c.drainQueue()
		return e.dpResult() + e.queueState()
	case "L":
		e.dp.lateSid = a[1]
		e.c.handleSessionActivate(e.lifecycle(a[1], n(2), models.SessionStateActive))
		e.dp.lateSid = ""
		return e.dpResult()
	case "K":
		cb, ok := e.dp.lateAdds[a[1]]
		if !ok {
			return "ok"
		}
		delete(e.dp.lateAdds, a[1])
		if a[2] == "1" {
			cb(nil)
		} else {
			cb(fmt.Errorf("injected late dataplane add failure"))
		}
		return "ok"
	case "A":
		e.dp.asyncOK = a[3] == "1"
		e.c.handleSessionActivate(e.lifecycle(a[1], n(2), models.SessionStateActive))
		return e.dpResult()
	case "S":
		m := vf15Mapping(n(3), n(4), n(5), n(6), true)
		m.SessionID = a[1]
		if len(a) > 7 {
			e.dp.asyncOK = a[7] == "1"
		}
		data, _ := json.Marshal(m)
		e.store.Put(ctx, opdb.NamespaceHASyncedCGNAT, a[1], data)
		e.c.handleSessionActivate(e.lifecycle(a[1], n(2), models.SessionStateActive))
		e.store.Clear(ctx, opdb.NamespaceHASyncedCGNAT)
		return e.dpResult()
	case "C":
		for i := len(e.dp.deferred) - 1; i >= 0; i-- {
			e.dp.deferred[i]()
		}
		e.dp.deferred = nil
		return "ok"
	case "X":
		if len(a) > 3 {
			e.dp.delPattern = a[3]
		}
		e.c.handleSessionRelease(e.lifecycle(a[1], n(2), models.SessionStateReleased))
		return "ok"
	case "P", "D":
		m := vf15Mapping(n(2), n(3), n(4), n(5), true)
		m.SessionID = a[1]
		if len(a) > 6 {
			e.dp.bulk = int(n(6))
		}
		data, _ := json.Marshal(m)
		// restoreFromOpDB sees exactly this one persisted mapping
		saved := e.store.ns[opdbNamespace]
		e.store.ns[opdbNamespace] = map[string][]byte{a[1]: data}
		e.store.Clear(ctx, opdb.NamespaceIPoESessions)
		e.sp.sessions = map[string]models.SubscriberSession{}
		if a[0] == "P" {
			e.sp.sessions[a[1]] = &models.IPoESession{SessionID: a[1], AccessType: string(models.AccessTypeIPoE), IfIndex: 9,
				IPv4Address: vf15SubIP(n(2)), VRF: vf15VRFName(n(2))}
		} else {
			e.store.Put(ctx, opdb.NamespaceIPoESessions, a[1], []byte("{}"))
		}
		err := e.c.restoreFromOpDB(ctx)
		e.sp.sessions = map[string]models.SubscriberSession{}
		e.store.Clear(ctx, opdb.NamespaceIPoESessions)
		if saved == nil {
			saved = map[string][]byte{}
		}
		if v, ok := e.store.ns[opdbNamespace][a[1]]; ok {
			saved[a[1]] = v
		}
		e.store.ns[opdbNamespace] = saved
		if err != nil {
			return "err"
		}
		return e.dpResult()
	case "d":
		return e.dump(true)
	case "w":
		return e.sweep(int(n(1)), int(n(2)))
	}
	return "badop"
}

func (e *vf15Env) poolOp(a []string) string {
	n := func(i int) uint64 { return vf15Num(a[i]) }
	switch a[0] {
	case "a":
		m, err := e.pm.AllocateBlock(e.name, vf15SubIP(n(1)), vf15SubVRF(n(1)), 7)
		if err != nil {
			return vf15ErrKind(err)
		}
		return fmt.Sprintf("ok new %d %d %d", vf15IPNum(m.OutsideIP), m.PortBlockStart, m.PortBlockEnd)
	case "g":
		m, isNew, err := e.pm.GetOrAllocate(e.name, vf15SubIP(n(1)), vf15SubVRF(n(1)), 7)
		if err != nil {
			return vf15ErrKind(err)
		}
		w := "old"
		if isNew {
			w = "new"
		}
		return fmt.Sprintf("ok %s %d %d %d", w, vf15IPNum(m.OutsideIP), m.PortBlockStart, m.PortBlockEnd)
	case "r":
		if err := e.pm.ReleaseBlocks(e.name, vf15SubIP(n(1)), vf15SubVRF(n(1))); err != nil {
			return "err"
		}
		return "ok"
	case "R", "I":
		m := vf15Mapping(n(1), n(2), n(3), n(4), true)
		m.PoolName = e.name
		var err error
		if a[0] == "R" {
			err = e.pm.RestoreMapping(m)
		} else {
			err = e.pm.RestoreMappingIfAbsent(m)
		}
		if err != nil {
			return "err"
		}
		return "ok"
	case "d":
		return e.dump(false)
	}
	return "badop"
}

// two pools on one PoolManager
func vf15MP(head string, ops []string) []string {
	halves := strings.SplitN(head, " || ", 2)
	if len(halves) != 2 {
		return []string{"badline"}
	}
	raw1, err1 := vf15ParseRaw(strings.Fields(halves[0])[1:])
	raw2, err2 := vf15ParseRaw(strings.Fields(halves[1]))
	if err1 != nil || err2 != nil {
		return []string{"cfgerr"}
	}
	pm := NewPoolManager()
	envs := map[string]*vf15Env{"1": {name: "p1", raw: raw1, pm: pm}, "2": {name: "p2", raw: raw2, pm: pm}}
	var outs []string
	configured := false
	for _, tok := range ops {
		a := strings.Split(tok, ":")
		if a[0] == "v" {
			cfg := &cgnatcfg.Config{Pools: map[string]*cgnatcfg.Pool{"p1": raw1, "p2": raw2}}
			if err := cfg.Validate(); err != nil {
				outs = append(outs, "invalid")
				return outs
			}
			outs = append(outs, "valid")
			continue
		}
		if !configured {
			msg := func() (msg string) {
				defer func() {
					if r := recover(); r != nil {
						m := fmt.Sprint(r)
						if len(m) > 60 {
							m = m[:60]
						}
						msg = "panic " + strings.ReplaceAll(m, " ", "_")
					}
				}()
				if err := pm.ConfigurePool("p1", 1, raw1); err != nil {
					return "cfgerr"
				}
				if err := pm.ConfigurePool("p2", 2, raw2); err != nil {
					return "cfgerr"
				}
				return ""
			}()
			if msg != "" {
				return append(outs, msg)
			}
			envs["1"].geometry()
			envs["2"].geometry()
			configured = true
		}
		if a[0] == "d" {
			// the property across pools, on the externally visible mappings
			x := "none"
			all := pm.GetAllMappings()
			for i, m := range all {
				for _, o := range all[i+1:] {
					same := m.PoolName == o.PoolName && vf15Key(m.InsideVRFID, m.InsideIP) == vf15Key(o.InsideVRFID, o.InsideIP)
					if !same && m.OutsideIP.Equal(o.OutsideIP) && m.PortBlockStart <= o.PortBlockEnd && o.PortBlockStart <= m.PortBlockEnd {
						x = "XOVERLAP"
					}
				}
			}
			outs = append(outs, "P1{"+envs["1"].dump(false)+"} P2{"+envs["2"].dump(false)+"} flags="+x)
			continue
		}
		e, ok := envs[a[1]]
		if !ok || len(a) < 3 {
			outs = append(outs, "badop")
			continue
		}
		outs = append(outs, e.poolOp(append([]string{a[0]}, a[2:]...)))
	}
	return outs
}

func vf15Case(line string) (res string) {
	parts := strings.SplitN(line, " | ", 2)
	f := strings.Fields(parts[0])
	if len(f) == 0 {
		return "badline"
	}
	kind := f[0]
	var outs []string
	done := make(chan struct{})
	go func() {
		defer close(done)
		defer func() {
			if r := recover(); r != nil {
				msg := fmt.Sprint(r)
				if len(msg) > 60 {
					msg = msg[:60]
				}
				outs = append(outs, "panic "+strings.ReplaceAll(msg, " ", "_"))
			}
		}()
		if kind == "mp" {
			var ops []string
			if len(parts) == 2 {
				ops = strings.Fields(parts[1])
			}
			outs = append(outs, vf15MP(parts[0], ops)...)
			return
		}
		e, err := vf15Setup(kind, f[1:])
		if err == errVF15Invalid {
			outs = append(outs, "invalid")
			return
		}
		if err != nil {
			outs = append(outs, "cfgerr")
			return
		}
		if len(parts) == 2 {
			for _, tok := range strings.Fields(parts[1]) {
				outs = append(outs, e.op(kind, tok))
			}
		}
	}()
	select {
	case <-done:
	case <-time.After(20 * time.Second):
		return "hang"
	}
	if len(outs) == 0 {
		return "empty"
	}
	return strings.Join(outs, " ; ")
}

func TestVerifC15(t *testing.T) {
	in, err := os.Open(os.Getenv("VERIF_CASES"))
	if err != nil {
		t.Fatal(err)
	}
	defer in.Close()
	out, err := os.Create(os.Getenv("VERIF_OUT"))
	if err != nil {
		t.Fatal(err)
	}
	defer out.Close()
	w := bufio.NewWriter(out)
	defer w.Flush()
	sc := bufio.NewScanner(in)
	sc.Buffer(make([]byte, 1<<20), 1<<26)
	for sc.Scan() {
		fmt.Fprintln(w, vf15Case(sc.Text()))
	}
}
