//go:build verif

package pppoe

// C06 correspondence harness (internal/pppoe part): a real SessionState (initPPP, extractIPFromAttributes,
// startNCP, onIPCPUp/onIPCPDown through the FSM callbacks) fed with the subscriber's IPCP packets; the
// packets the BNG emits are taken from the egress events it publishes.

import (
	"bufio"
	"encoding/binary"
	"encoding/hex"
	"fmt"
	"net"
	"os"
	"strconv"
	"strings"
	"testing"
	"time"

	"net/netip"

	"github.com/veesix-networks/osvbng/pkg/aaa"
	"github.com/veesix-networks/osvbng/pkg/allocator"
	"github.com/veesix-networks/osvbng/pkg/component"
	"github.com/veesix-networks/osvbng/pkg/config"
	"github.com/veesix-networks/osvbng/pkg/config/subscriber"
	"github.com/veesix-networks/osvbng/pkg/events"
	"github.com/veesix-networks/osvbng/pkg/ifmgr"
	"github.com/veesix-networks/osvbng/pkg/logger"
	"github.com/veesix-networks/osvbng/pkg/ppp"
)

type c06Pkt struct {
	code, id uint8
	data     []byte
}

type c06Bus struct {
	ipcp, v6, lcp []c06Pkt
	probe         string // result of the LCP own-magic probe of THIS case (no package-level state)
}

func (b *c06Bus) Publish(topic string, ev events.Event) {
	if topic != events.TopicEgress {
		return
	}
	eg, ok := ev.Data.(*events.EgressEvent)
	if !ok {
		return
	}
	raw := eg.Packet.RawData
	// PPPoE header (6) + PPP protocol (2) + code, id, length(2)
	if len(raw) < 12 {
		return
	}
	proto := uint16(raw[6])<<8 | uint16(raw[7])
	if proto != ppp.ProtoIPCP && proto != ppp.ProtoIPv6CP && proto != ppp.ProtoLCP {
		return
	}
	l := int(raw[10])<<8 | int(raw[11])
	pkt := c06Pkt{code: 255}
	if l >= 4 && 8+l <= len(raw) {
		pkt = c06Pkt{code: raw[8], id: raw[9], data: append([]byte(nil), raw[12:8+l]...)}
	}
	switch proto {
	case ppp.ProtoIPCP:
		b.ipcp = append(b.ipcp, pkt)
	case ppp.ProtoIPv6CP:
		b.v6 = append(b.v6, pkt)
	default:
		b.lcp = append(b.lcp, pkt)
	}
}
func (b *c06Bus) Subscribe(string, events.Handler) events.Subscription { return c06Sub{} }
func (b *c06Bus) SubscribeAll(events.Handler) events.Subscription      { return c06Sub{} }
func (b *c06Bus) Stats() events.Stats                                  { return events.Stats{} }
func (b *c06Bus) SetDebugTopics([]string)                              {}
func (b *c06Bus) DebugTopics() []string                                { return nil }
func (b *c06Bus) Close() error                                         { return nil }

type c06Sub struct{}

type c06CfgMgr struct{ cfg *config.Config }

func (f *c06CfgMgr) GetRunning() (*config.Config, error) { return f.cfg, nil }
func (f *c06CfgMgr) GetStartup() (*config.Config, error) { return f.cfg, nil }
func (f *c06CfgMgr) LookupSubscriberGroup(svlan, cvlan uint16) (subscriber.GroupMatch, bool) {
	return subscriber.GroupMatch{}, false
}

// "<aaa>[/<alloc>[/<reserve>]]"
func c06Split3(tok string) (string, string, string) {
	p := strings.Split(tok, "/")
	a, al, rs := p[0], "none", "ok"
	if len(p) > 1 {
		al = p[1]
	}
	if len(p) > 2 {
		rs = p[2]
	}
	return a, al, rs
}

// Puts the REAL allocator registry into the state that makes the next startNCP see the outcome named by
// the case: a one-address pool that is free / held by another session.
func c06Registry(s *SessionState, alloc, reserve string) {
	one := func(ip net.IP, held bool) *allocator.Registry {
		a, ok := netip.AddrFromSlice(ip.To4())
		if !ok {
			panic("registry address")
		}
		r := allocator.NewTestRegistry(a, a)
		if held {
			if err := r.ReserveIP(ip, "another-session"); err != nil {
				panic("pre-reservation failed")
			}
		}
		return r
	}
	s.component.registry = nil
	s.AllocCtx = nil
	if s.IPv4Address == nil {
		switch alloc {
		case "none":
		case "full":
			s.component.registry = one(net.IPv4(10, 9, 9, 9), true)
			s.AllocCtx = &allocator.Context{ProfileName: "test"}
		default:
			s.component.registry = one(net.IP(c06Bytes(alloc)), false)
			s.AllocCtx = &allocator.Context{ProfileName: "test"}
		}
		return
	}
	if v4 := s.IPv4Address.To4(); v4 != nil {
		s.component.registry = one(v4, reserve == "cf")
	}
}

func (c06Sub) Unsubscribe() {}

func c06Hex(b []byte) string {
	if len(b) == 0 {
		return ""
	}
	return hex.EncodeToString(b)
}

func c06Bytes(tok string) []byte {
	if tok == "-" || tok == "" {
		return []byte{}
	}
	b, err := hex.DecodeString(tok)
	if err != nil {
		panic("bad hex " + tok)
	}
	return b
}

func c06ShowWire(data []byte) string {
	var parts []string
	i := 0
	for i < len(data) {
		if i+2 > len(data) {
			return "raw" + c06Hex(data)
		}
		l := int(data[i+1])
		if l < 2 || i+l > len(data) {
			return "raw" + c06Hex(data)
		}
		parts = append(parts, strconv.Itoa(int(data[i]))+"."+c06Hex(data[i+2:i+l]))
		i += l
	}
	if len(parts) == 0 {
		return "-"
	}
	return strings.Join(parts, ",")
}

// the session address as the rest of the BNG uses it: 4-byte form when it is an IPv4 address
// the negotiated peer address the IPCP object remembers; while IPCP has never been started (FSM Initial)
// nothing is sent and nothing adopted, what the handler notes for itself is not an observable of the property
func c06PeerNeg(i *ppp.IPCP) string {
	if i.FSM().State() == ppp.Initial {
		return "-"
	}
	return c06ShowAddr(i.PeerConfig().Address)
}

func c06ShowAddr(ip net.IP) string {
	if ip == nil {
		return "nil"
	}
	if v4 := ip.To4(); v4 != nil {
		return "h" + c06Hex(v4)
	}
	return "h" + c06Hex(ip)
}

// Brings the session's real LCP to Opened by packets, from a fresh object (s.up) or from Opened (the
// subscriber renegotiates: the real This-Layer-Down callback onLCPDown runs, which sends Down to the NCPs),
// and lets the real onLCPUp start authentication.  Returns false when LCP did not reach Opened.
func c06LCPOpened(s *SessionState, bus *c06Bus, first bool) bool {
	lastReq := func() *c06Pkt {
		for i := len(bus.lcp) - 1; i >= 0; i-- {
			if bus.lcp[i].code == ppp.ConfReq {
				return &bus.lcp[i]
			}
		}
		return nil
	}
	peerReq := []byte{5, 6, 0x0a, 0x0b, 0x0c, 0x0d}
	if first {
		bus.lcp = nil
		s.up()
		r := lastReq()
		if r == nil {
			return false
		}
		// LCP's own identity on the wire: the magic number our Configure-Request announces must be the one
		// ProcessConfReq compares with; a subscriber looping it back must get a Configure-Nak carrying it
		bus.probe = "no-magic-announced"
		for i := 0; i+1 < len(r.data) && int(r.data[i+1]) >= 2 && i+int(r.data[i+1]) <= len(r.data); i += int(r.data[i+1]) {
			if r.data[i] == 5 && r.data[i+1] == 6 {
				m := r.data[i : i+6]
				before := len(bus.lcp)
				s.lcp.FSM().Input(ppp.ConfReq, 9, append([]byte(nil), m...))
				bus.probe = "no-answer"
				for _, p := range bus.lcp[before:] {
					switch {
					case p.code == ppp.ConfNak && len(p.data) == 6 && p.data[0] == 5 && p.data[1] == 6 &&
						binary.BigEndian.Uint32(p.data[2:]) != 0:
						// which number the Nak suggests is the implementation's choice
						bus.probe = "ok"
					case p.code == ppp.ConfAck:
						bus.probe = "ACKED-OWN-MAGIC"
					default:
						bus.probe = fmt.Sprintf("answer-%d", p.code)
					}
				}
				if binary.BigEndian.Uint32(m[2:]) != s.lcp.LocalConfig().Magic {
					bus.probe = fmt.Sprintf("ANNOUNCED-MAGIC-IS-NOT-LOCAL:%08x/%08x", binary.BigEndian.Uint32(m[2:]), s.lcp.LocalConfig().Magic)
				}
			}
		}
		s.lcp.FSM().Input(ppp.ConfAck, r.id, r.data)
		s.lcp.FSM().Input(ppp.ConfReq, 1, peerReq)
	} else {
		bus.lcp = nil
		// NCPs have been started, so production is in the Network (or Open) phase when the renegotiation arrives
		s.Phase = ppp.PhaseNetwork
		s.lcp.FSM().Input(ppp.ConfReq, 2, peerReq) // Opened: tld (onLCPDown), scr, sca -> Ack-Sent
		if s.linkEnded {
			// e9950ea: handleSession now tears the session down; nothing else reaches it
			bus.lcp = nil
			return true
		}
		s.Phase = ppp.PhaseAuthenticate
		r := lastReq()
		if r == nil {
			return false
		}
		s.lcp.FSM().Input(ppp.ConfAck, r.id, r.data) // tlu: onLCPUp -> authentication starts again
	}
	bus.lcp = nil
	return s.lcp.FSM().State() == ppp.Opened
}

func c06Sess(f []string) string {
	ifMgr := ifmgr.New()
	ifMgr.Add(&ifmgr.Interface{SwIfIndex: 10, SupSwIfIndex: 2, Name: "TenGigE0/0.100", Type: ifmgr.IfTypeSub, OuterVlanID: 100})
	ifMgr.Add(&ifmgr.Interface{SwIfIndex: 2, Name: "TenGigE0/0", Type: ifmgr.IfTypeHardware, MAC: []byte{0x52, 0x54, 0x00, 0x11, 0x22, 0x33}})
	bus := &c06Bus{}
	c := &Component{
		Base:     component.NewBase("pppoe-verif"),
		logger:   logger.NewTest(),
		eventBus: bus,
		ifMgr:    ifMgr,
		cfgMgr:   &c06CfgMgr{cfg: &config.Config{}},
	}
	s := &SessionState{
		component:      c,
		SessionID:      "s1",
		PPPoESessionID: 7,
		MAC:            net.HardwareAddr{0xaa, 0x42, 0xa1, 0x0a, 0x54, 0x97},
		OuterVLAN:      100,
		EncapIfIndex:   10,
		Username:       "u",
		Attributes:     map[string]string{},
	}
	a0, al0, rs0 := c06Split3(f[0])
	if strings.HasPrefix(a0, "restore:") {
		// a checkpointed session in PhaseOpen comes back after a restart: the real installInMemoryState
		c.sessions = map[string]*SessionState{}
		c.sidIndex = map[uint16]*SessionState{}
		c.sessionIDIndex = map[string]*SessionState{}
		c.acctSessionIndex = map[string]*SessionState{}
		c.usernameIndex = map[string]*SessionState{}
		c.ipv4Index = map[string]*SessionState{}
		c.ipv6Index = map[string]*SessionState{}
		s.component = nil
		s.IPv4Address = net.IP(c06Bytes(a0[len("restore:"):]))
		s.Phase = ppp.PhaseOpen
		s.LCPMagic = 0x01020304
		c.installInMemoryState(s)
	} else {
		s.initPPP()
		if !c06LCPOpened(s, bus, true) {
			return "lcp-not-opened"
		}
		if a0 != "none" {
			s.Attributes[aaa.AttrIPv4Address] = net.IP(c06Bytes(a0)).String()
		}
		if p := strings.Split(f[0], "/"); len(p) > 3 {
			// DNS servers delivered by AAA
			d := strings.Split(p[3], ",")
			if d[0] != "n" {
				s.Attributes[aaa.AttrDNSPrimary] = net.IP(c06Bytes(d[0])).String()
			}
			if len(d) > 1 && d[1] != "n" {
				s.Attributes[aaa.AttrDNSSecondary] = net.IP(c06Bytes(d[1])).String()
			}
		}
		s.extractIPFromAttributes()
		c06Registry(s, al0, rs0)
		// the authentication phase is over but the network phase is not entered: checkOpen then only logs
		s.Phase = ppp.PhaseAuthenticate
		s.startNCP()
	}
	defer func() {
		s.stopCHAPRetryTimer()
		s.ipcp.FSM().Kill()
		s.ipv6cp.FSM().Kill()
		s.lcp.FSM().Kill()
	}()
	var parts []string
	var lastReq *c06Pkt
	drain := func() string {
		var acts []string
		for i := range bus.ipcp {
			p := bus.ipcp[i]
			switch p.code {
			case ppp.ConfReq:
				lastReq = &bus.ipcp[i]
				acts = append(acts, "scr:"+c06ShowWire(p.data))
			case ppp.ConfAck:
				acts = append(acts, fmt.Sprintf("sca:%d:%s", p.id, c06ShowWire(p.data)))
			case ppp.ConfNak:
				acts = append(acts, fmt.Sprintf("scn:%d:%s", p.id, c06ShowWire(p.data)))
			case ppp.ConfRej:
				acts = append(acts, fmt.Sprintf("scj:%d:%s", p.id, c06ShowWire(p.data)))
			case ppp.TermAck:
				acts = append(acts, "sta") // the identifier echoes a harness-chosen one
			default:
				acts = append(acts, fmt.Sprintf("x%d", p.code))
			}
		}
		bus.ipcp = nil
		if len(acts) == 0 {
			return "-"
		}
		return strings.Join(acts, " ")
	}
	first := drain() // "scr:..." when startNCP started IPCP, "-" when it did not
	if !strings.HasPrefix(a0, "restore:") {
		first = "lcp=" + bus.probe + " " + first
	}
	parts = append(parts, first+" a="+c06ShowAddr(s.IPv4Address)+" pa="+c06ShowAddr(s.ipcp.PeerConfig().PeerAddress))
	for _, ev := range f[1:] {
		if s.linkEnded {
			parts = append(parts, "ended")
			continue
		}
		switch {
		case ev == "k":
			if lastReq == nil {
				// IPCP never sent a request: identifier 0 is what the FSM would accept
				s.ipcp.FSM().Input(ppp.ConfAck, 0, nil)
			} else {
				s.ipcp.FSM().Input(ppp.ConfAck, lastReq.id, lastReq.data)
			}
		case ev[0] == 'a' || ev[0] == 'n' || ev[0] == 'j':
			// answer to our last Configure-Request with arbitrary contents
			code := map[byte]uint8{'a': ppp.ConfAck, 'n': ppp.ConfNak, 'j': ppp.ConfRej}[ev[0]]
			var rid uint8
			if lastReq != nil {
				rid = lastReq.id
			}
			s.ipcp.FSM().Input(code, rid, c06Bytes(ev[1:]))
		case ev[0] == 'R':
			// LCP renegotiated and authentication repeated: the AAA answer is evaluated again and
			// startNCP runs a second time on the same session (and the same IPCP object)
			ra, ral, rrs := c06Split3(ev[1:])
			if ra == "none" {
				delete(s.Attributes, aaa.AttrIPv4Address)
			} else {
				s.Attributes[aaa.AttrIPv4Address] = net.IP(c06Bytes(ra)).String()
			}
			// the production path: LCP renegotiated (real onLCPDown), LCP up again, authentication repeated,
			// then the AAA answer is evaluated and startNCP runs
			if !c06LCPOpened(s, bus, false) {
				return "lcp-not-reopened"
			}
			if !s.linkEnded {
				s.extractIPFromAttributes()
				c06Registry(s, ral, rrs)
				s.Phase = ppp.PhaseAuthenticate
				s.startNCP()
			}
		case ev == "D":
			if !c06LCPOpened(s, bus, false) {
				return "lcp-not-reopened"
			}
		case ev[0] == 'S':
			// answer to our request with an identifier that is not our last one
			var sid uint8 = 200
			if lastReq != nil {
				sid = lastReq.id + 1
			}
			code := map[byte]uint8{'a': ppp.ConfAck, 'n': ppp.ConfNak, 'j': ppp.ConfRej}[ev[1]]
			s.ipcp.FSM().Input(code, sid, c06Bytes(ev[2:]))
		case ev[0] == 't':
			tid, _ := strconv.Atoi(ev[1:])
			s.ipcp.FSM().Input(ppp.TermReq, uint8(tid), nil)
		case ev == "X":
			// the restart timer keeps expiring until Max-Configure is exhausted (TO+ ... then TO-); how many
			// retransmissions that takes is the automaton's business (C05): only the last one is shown
			for n := 0; n < 12; n++ {
				st := s.ipcp.FSM().State()
				if st != ppp.ReqSent && st != ppp.AckRcvd && st != ppp.AckSent {
					break
				}
				s.ipcp.FSM().Timeout()
			}
			var keep []c06Pkt
			for i := range bus.ipcp {
				if bus.ipcp[i].code != ppp.ConfReq {
					keep = append(keep, bus.ipcp[i])
				}
			}
			for i := len(bus.ipcp) - 1; i >= 0; i-- {
				if bus.ipcp[i].code == ppp.ConfReq {
					keep = append([]c06Pkt{bus.ipcp[i]}, keep...)
					break
				}
			}
			bus.ipcp = keep
		case ev == "T":
			// the restart timer expires while negotiating (the generator keeps the number of time-outs per
			// case below Max-Configure, so the restart counter is positive: retransmission)
			if st := s.ipcp.FSM().State(); st == ppp.ReqSent || st == ppp.AckRcvd || st == ppp.AckSent {
				s.ipcp.FSM().Timeout()
			}
		case ev == "o":
			// the restart timer expires while Stopping (after the subscriber's Terminate-Request)
			if s.ipcp.FSM().State() == ppp.Stopping {
				s.ipcp.FSM().Timeout()
			}
		case ev[0] == 'q':
			i := strings.IndexByte(ev, '.')
			id, _ := strconv.Atoi(ev[1:i])
			s.ipcp.FSM().Input(ppp.ConfReq, uint8(id), c06Bytes(ev[i+1:]))
		default:
			return "badevent"
		}
		up := 0
		if s.ipcpOpen {
			up = 1
		}
		parts = append(parts, fmt.Sprintf("%s up=%d a=%s pa=%s pn=%s", drain(), up, c06ShowAddr(s.IPv4Address),
			c06ShowAddr(s.ipcp.PeerConfig().PeerAddress), c06PeerNeg(s.ipcp)))
	}
	return strings.Join(parts, " | ")
}

// IPv6CP inside a real PPPoE session: startNCP (SetInterfaceID from the BNG MAC, Up, Open), then the
// subscriber's packets; "e<id>" proposes exactly the identifier the BNG's last Configure-Request carried.
func c06Sess6(f []string) string {
	mac := c06Bytes(f[0])
	ifMgr := ifmgr.New()
	ifMgr.Add(&ifmgr.Interface{SwIfIndex: 10, SupSwIfIndex: 2, Name: "TenGigE0/0.100", Type: ifmgr.IfTypeSub, OuterVlanID: 100})
	ifMgr.Add(&ifmgr.Interface{SwIfIndex: 2, Name: "TenGigE0/0", Type: ifmgr.IfTypeHardware, MAC: mac})
	bus := &c06Bus{}
	c := &Component{
		Base:     component.NewBase("pppoe-verif"),
		logger:   logger.NewTest(),
		eventBus: bus,
		ifMgr:    ifMgr,
		cfgMgr:   &c06CfgMgr{cfg: &config.Config{}},
	}
	s := &SessionState{
		component:      c,
		SessionID:      "s1",
		PPPoESessionID: 7,
		MAC:            net.HardwareAddr{0xaa, 0x42, 0xa1, 0x0a, 0x54, 0x97},
		OuterVLAN:      100,
		EncapIfIndex:   10,
		Username:       "u",
		Attributes:     map[string]string{aaa.AttrIPv4Address: "10.0.0.5"},
	}
	s.initPPP()
	defer func() {
		s.ipcp.FSM().Kill()
		s.ipv6cp.FSM().Kill()
		s.lcp.FSM().Kill()
	}()
	if !c06LCPOpened(s, bus, true) {
		return "lcp-not-opened"
	}
	defer s.stopCHAPRetryTimer()
	s.extractIPFromAttributes()
	s.Phase = ppp.PhaseAuthenticate
	s.startNCP()
	var lastReq *c06Pkt
	show := func() string {
		local := s.ipv6cp.LocalConfig().InterfaceID
		var acts []string
		for i := range bus.v6 {
			p := bus.v6[i]
			switch p.code {
			case ppp.ConfReq:
				lastReq = &bus.v6[i]
				acts = append(acts, "scr:"+c06ShowWire(p.data))
			case ppp.ConfAck:
				acts = append(acts, fmt.Sprintf("sca:%d:%s", p.id, c06ShowWire(p.data)))
			case ppp.ConfNak:
				// the suggested identifier is random: projected when it is 8 bytes, non-zero, not the local one
				d := p.data
				if len(d)%10 == 0 && len(d) > 0 {
					var parts []string
					ok := true
					for j := 0; j < len(d); j += 10 {
						id := d[j+2 : j+10]
						if d[j] != 1 || d[j+1] != 10 || string(id) == string(local[:]) || string(id) == string(make([]byte, 8)) {
							ok = false
						}
						parts = append(parts, "1.S")
					}
					if ok {
						acts = append(acts, fmt.Sprintf("scn:%d:%s", p.id, strings.Join(parts, ",")))
						continue
					}
				}
				acts = append(acts, fmt.Sprintf("scn:%d:%s", p.id, c06ShowWire(p.data)))
			case ppp.ConfRej:
				acts = append(acts, fmt.Sprintf("scj:%d:%s", p.id, c06ShowWire(p.data)))
			case ppp.TermAck:
				acts = append(acts, "sta") // the identifier echoes a harness-chosen one
			default:
				acts = append(acts, fmt.Sprintf("x%d", p.code))
			}
		}
		bus.v6 = nil
		a := "-"
		if len(acts) > 0 {
			a = strings.Join(acts, " ")
		}
		up := 0
		if s.ipv6cpOpen {
			up = 1
		}
		return fmt.Sprintf("%s up=%d lid=%s", a, up, c06Hex(local[:]))
	}
	parts := []string{show()}
	for _, ev := range f[1:] {
		if s.linkEnded {
			parts = append(parts, "ended")
			continue
		}
		var rid uint8
		var rdata []byte
		if lastReq != nil {
			rid, rdata = lastReq.id, lastReq.data
		}
		switch ev[0] {
		case 'q':
			i := strings.IndexByte(ev, '.')
			id, _ := strconv.Atoi(ev[1:i])
			s.ipv6cp.FSM().Input(ppp.ConfReq, uint8(id), c06Bytes(ev[i+1:]))
		case 'e':
			id, _ := strconv.Atoi(ev[1:])
			s.ipv6cp.FSM().Input(ppp.ConfReq, uint8(id), rdata)
		case 'k':
			s.ipv6cp.FSM().Input(ppp.ConfAck, rid, rdata)
		case 'n':
			s.ipv6cp.FSM().Input(ppp.ConfNak, rid, c06Bytes(ev[1:]))
		case 'j':
			s.ipv6cp.FSM().Input(ppp.ConfRej, rid, c06Bytes(ev[1:]))
		case 'R':
			if !c06LCPOpened(s, bus, false) {
				return "lcp-not-reopened"
			}
			if !s.linkEnded {
				s.Phase = ppp.PhaseAuthenticate
				s.startNCP()
			}
		case 'D':
			if !c06LCPOpened(s, bus, false) {
				return "lcp-not-reopened"
			}
		case 'T':
			if st := s.ipv6cp.FSM().State(); st == ppp.ReqSent || st == ppp.AckRcvd || st == ppp.AckSent {
				s.ipv6cp.FSM().Timeout()
			}
		default:
			return "badevent"
		}
		parts = append(parts, show())
	}
	return strings.Join(parts, " | ")
}

// LCP inside a real PPPoE session: initPPP + up() (fresh) or installInMemoryState (restored); "e<id>" = the
// subscriber proposes exactly the Magic-Number option our last Configure-Request carried.
func c06SessL(f []string) string {
	ifMgr := ifmgr.New()
	ifMgr.Add(&ifmgr.Interface{SwIfIndex: 10, SupSwIfIndex: 2, Name: "TenGigE0/0.100", Type: ifmgr.IfTypeSub, OuterVlanID: 100})
	ifMgr.Add(&ifmgr.Interface{SwIfIndex: 2, Name: "TenGigE0/0", Type: ifmgr.IfTypeHardware, MAC: []byte{0x52, 0x54, 0x00, 0x11, 0x22, 0x33}})
	bus := &c06Bus{}
	c := &Component{
		Base:     component.NewBase("pppoe-verif"),
		logger:   logger.NewTest(),
		eventBus: bus,
		ifMgr:    ifMgr,
		cfgMgr:   &c06CfgMgr{cfg: &config.Config{}},
	}
	s := &SessionState{
		component:      c,
		SessionID:      "s1",
		PPPoESessionID: 7,
		MAC:            net.HardwareAddr{0xaa, 0x42, 0xa1, 0x0a, 0x54, 0x97},
		OuterVLAN:      100,
		EncapIfIndex:   10,
		Username:       "u",
		Attributes:     map[string]string{},
	}
	if strings.HasPrefix(f[0], "restore:") {
		c.sessions = map[string]*SessionState{}
		c.sidIndex = map[uint16]*SessionState{}
		c.sessionIDIndex = map[string]*SessionState{}
		c.acctSessionIndex = map[string]*SessionState{}
		c.usernameIndex = map[string]*SessionState{}
		c.ipv4Index = map[string]*SessionState{}
		c.ipv6Index = map[string]*SessionState{}
		s.component = nil
		s.IPv4Address = net.IPv4(10, 0, 0, 5)
		s.Phase = ppp.PhaseOpen
		s.LCPMagic = binary.BigEndian.Uint32(c06Bytes(f[0][len("restore:"):]))
		c.installInMemoryState(s)
	} else {
		s.initPPP()
		s.up()
	}
	defer func() {
		s.stopCHAPRetryTimer()
		s.ipcp.FSM().Kill()
		s.ipv6cp.FSM().Kill()
		s.lcp.FSM().Kill()
	}()
	var lastReq *c06Pkt
	show := func() string {
		var acts []string
		for i := range bus.lcp {
			p := bus.lcp[i]
			switch p.code {
			case ppp.ConfReq:
				lastReq = &bus.lcp[i]
				acts = append(acts, "scr:"+c06ShowWire(p.data))
			case ppp.ConfAck:
				acts = append(acts, fmt.Sprintf("sca:%d:%s", p.id, c06ShowWire(p.data)))
			case ppp.ConfNak:
				// suggested values are the implementation's choice: projected when admissible
				var parts []string
				ok := len(p.data) > 0
				d := p.data
				for j := 0; ok && j < len(d); {
					if j+2 > len(d) || int(d[j+1]) < 2 || j+int(d[j+1]) > len(d) {
						ok = false
						break
					}
					v := d[j+2 : j+int(d[j+1])]
					switch {
					case d[j] == 5 && len(v) == 4 && binary.BigEndian.Uint32(v) != 0:
					case d[j] == 1 && len(v) == 2 && binary.BigEndian.Uint16(v) >= 64:
					case d[j] == 3 && (string(v) == "\xc0\x23" || string(v) == "\xc2\x23\x05"):
					default:
						ok = false
					}
					parts = append(parts, strconv.Itoa(int(d[j]))+".S")
					j += int(d[j+1])
				}
				if ok {
					acts = append(acts, fmt.Sprintf("scn:%d:%s", p.id, strings.Join(parts, ",")))
				} else {
					acts = append(acts, fmt.Sprintf("scn:%d:%s", p.id, c06ShowWire(p.data)))
				}
			case ppp.ConfRej:
				acts = append(acts, fmt.Sprintf("scj:%d:%s", p.id, c06ShowWire(p.data)))
			case ppp.TermAck:
				acts = append(acts, "sta") // the identifier echoes a harness-chosen one
			default:
				// Echo, CHAP etc. are not LCP configure traffic
			}
		}
		bus.lcp = nil
		a := "-"
		if len(acts) > 0 {
			a = strings.Join(acts, " ")
		}
		up := 0
		if s.lcp.FSM().State() == ppp.Opened {
			up = 1
		}
		return fmt.Sprintf("%s up=%d lm=%08x", a, up, s.lcp.LocalConfig().Magic)
	}
	parts := []string{show()}
	for _, ev := range f[1:] {
		if s.linkEnded {
			parts = append(parts, "ended")
			continue
		}
		var rid uint8
		var rdata []byte
		if lastReq != nil {
			rid, rdata = lastReq.id, lastReq.data
		}
		switch ev[0] {
		case 'q':
			i := strings.IndexByte(ev, '.')
			id, _ := strconv.Atoi(ev[1:i])
			s.lcp.FSM().Input(ppp.ConfReq, uint8(id), c06Bytes(ev[i+1:]))
		case 'e':
			id, _ := strconv.Atoi(ev[1:])
			var m []byte
			for j := 0; j+1 < len(rdata) && int(rdata[j+1]) >= 2 && j+int(rdata[j+1]) <= len(rdata); j += int(rdata[j+1]) {
				if rdata[j] == 5 {
					m = append(m, rdata[j:j+int(rdata[j+1])]...)
				}
			}
			s.lcp.FSM().Input(ppp.ConfReq, uint8(id), m)
		case 'k':
			s.lcp.FSM().Input(ppp.ConfAck, rid, rdata)
		case 'n':
			s.lcp.FSM().Input(ppp.ConfNak, rid, c06Bytes(ev[1:]))
		case 'j':
			s.lcp.FSM().Input(ppp.ConfRej, rid, c06Bytes(ev[1:]))
		case 'T':
			if st := s.lcp.FSM().State(); st == ppp.ReqSent || st == ppp.AckRcvd || st == ppp.AckSent {
				s.lcp.FSM().Timeout()
			}
		default:
			return "badevent"
		}
		parts = append(parts, show())
	}
	return strings.Join(parts, " | ")
}

// Authentication gates the NCPs: a real session with LCP Opened and CHAP pending; IPCP / IPv6CP frames arrive
// through the real dispatcher; the AAA verdict is the real onAuthResult(false) or, for an accept, what
// onAuthSuccess does (extractIPFromAttributes + startNCP).
func c06Auth(f []string) string {
	ifMgr := ifmgr.New()
	ifMgr.Add(&ifmgr.Interface{SwIfIndex: 10, SupSwIfIndex: 2, Name: "TenGigE0/0.100", Type: ifmgr.IfTypeSub, OuterVlanID: 100})
	ifMgr.Add(&ifmgr.Interface{SwIfIndex: 2, Name: "TenGigE0/0", Type: ifmgr.IfTypeHardware, MAC: []byte{0x52, 0x54, 0x00, 0x11, 0x22, 0x33}})
	bus := &c06Bus{}
	c := &Component{
		Base:     component.NewBase("pppoe-verif"),
		logger:   logger.NewTest(),
		eventBus: bus,
		ifMgr:    ifMgr,
		cfgMgr:   &c06CfgMgr{cfg: &config.Config{}},
	}
	s := &SessionState{
		component:      c,
		SessionID:      "s1",
		PPPoESessionID: 7,
		MAC:            net.HardwareAddr{0xaa, 0x42, 0xa1, 0x0a, 0x54, 0x97},
		OuterVLAN:      100,
		EncapIfIndex:   10,
		Username:       "u",
		Attributes:     map[string]string{},
	}
	s.initPPP()
	if !c06LCPOpened(s, bus, true) {
		return "lcp-not-opened"
	}
	defer func() {
		s.stopCHAPRetryTimer()
		s.ipcp.FSM().Kill()
		s.ipv6cp.FSM().Kill()
		s.lcp.FSM().Kill()
	}()
	s.pendingAuthType = "chap"
	s.pendingCHAPID = s.chapID
	bus.ipcp, bus.v6, bus.lcp = nil, nil, nil
	started := false
	var lastReq *c06Pkt
	ncp := func() string {
		var acts []string
		for i := range bus.ipcp {
			p := bus.ipcp[i]
			switch p.code {
			case ppp.ConfReq:
				lastReq = &bus.ipcp[i]
				acts = append(acts, "scr:"+c06ShowWire(p.data))
			case ppp.ConfAck:
				acts = append(acts, fmt.Sprintf("sca:%d:%s", p.id, c06ShowWire(p.data)))
			case ppp.ConfNak:
				acts = append(acts, fmt.Sprintf("scn:%d:%s", p.id, c06ShowWire(p.data)))
			case ppp.ConfRej:
				acts = append(acts, fmt.Sprintf("scj:%d:%s", p.id, c06ShowWire(p.data)))
			default:
				acts = append(acts, fmt.Sprintf("x%d", p.code))
			}
		}
		for _, p := range bus.v6 {
			if !started || p.code != ppp.ConfReq {
				acts = append(acts, fmt.Sprintf("v6x%d", p.code)) // nothing for IPv6CP may leave before the accept
			}
		}
		bus.ipcp, bus.v6 = nil, nil
		if len(acts) == 0 {
			return "-"
		}
		return strings.Join(acts, " ")
	}
	frame := func(code, id uint8, data []byte) []byte {
		l := 4 + len(data)
		return append([]byte{code, id, byte(l >> 8), byte(l)}, data...)
	}
	var parts []string
	for _, ev := range f {
		tr := 0
		switch ev[0] {
		case 'i', '6', 'q':
			i := strings.IndexByte(ev, '.')
			id, _ := strconv.Atoi(ev[1:i])
			data := c06Bytes(ev[i+1:])
			if started && ev[0] != '6' {
				s.ipcp.FSM().Input(ppp.ConfReq, uint8(id), data)
			} else if !started {
				proto := ppp.ProtoIPCP
				if ev[0] == '6' {
					proto = ppp.ProtoIPv6CP
				}
				_ = s.dispatcher.HandleFrame(proto, frame(ppp.ConfReq, uint8(id), data))
			}
		case 'F':
			if !started {
				s.onAuthResult(false, nil)
			}
		case 'S':
			if !started && s.lcp.FSM().State() == ppp.Opened {
				if ev[1:] != "none" {
					s.Attributes[aaa.AttrIPv4Address] = net.IP(c06Bytes(ev[1:])).String()
				}
				s.extractIPFromAttributes()
				s.startNCP()
				started = true
			}
		case 'T':
			if !started {
				s.lcp.FSM().Timeout()
			}
		case 'k':
			if started {
				if lastReq == nil {
					s.ipcp.FSM().Input(ppp.ConfAck, 0, nil)
				} else {
					s.ipcp.FSM().Input(ppp.ConfAck, lastReq.id, lastReq.data)
				}
			}
		default:
			return "badevent"
		}
		for _, p := range bus.lcp {
			if p.code == ppp.TermReq {
				tr++
			}
		}
		bus.lcp = nil
		a := ncp()
		switch {
		case started:
			up := 0
			if s.ipcpOpen {
				up = 1
			}
			parts = append(parts, fmt.Sprintf("%s up=%d a=%s pa=%s", a, up, c06ShowAddr(s.IPv4Address),
				c06ShowAddr(s.ipcp.PeerConfig().PeerAddress)))
		case s.lcp.FSM().State() == ppp.Opened:
			parts = append(parts, a+" pre")
		case s.lcp.FSM().State() == ppp.Closing:
			parts = append(parts, fmt.Sprintf("%s closing tr=%d", a, tr))
		case s.lcp.FSM().State() == ppp.Closed:
			parts = append(parts, a+" closed")
		default:
			parts = append(parts, fmt.Sprintf("%s lcp=%d", a, s.lcp.FSM().State()))
		}
	}
	return strings.Join(parts, " | ")
}

func c06Case(line string) (out string) {
	defer func() {
		if r := recover(); r != nil {
			out = fmt.Sprintf("panic %v", r)
			if len(out) > 120 {
				out = out[:120]
			}
			out = strings.ReplaceAll(out, "\n", " ")
		}
	}()
	f := strings.Fields(line)
	if len(f) >= 2 && f[0] == "s6" {
		return c06Sess6(f[1:])
	}
	if len(f) >= 2 && f[0] == "pa" {
		return c06Auth(f[1:])
	}
	if len(f) >= 2 && f[0] == "sl" {
		return c06SessL(f[1:])
	}
	if len(f) < 2 || f[0] != "sess" {
		return "badline"
	}
	return c06Sess(f[1:])
}

func TestVerifC06Sess(t *testing.T) {
	in, err := os.Open(os.Getenv("VERIF_CASES"))
	if err != nil {
		t.Fatal(err)
	}
	defer in.Close()
	outf, err := os.Create(os.Getenv("VERIF_OUT"))
	if err != nil {
		t.Fatal(err)
	}
	defer outf.Close()
	w := bufio.NewWriter(outf)
	defer w.Flush()
	sc := bufio.NewScanner(in)
	sc.Buffer(make([]byte, 1<<20), 1<<26)
	lines := make(chan string)
	res := make(chan string)
	worker := func() {
		for l := range lines {
			res <- c06Case(l)
		}
	}
	go worker()
	timer := time.NewTimer(time.Hour)
	for sc.Scan() {
		lines <- sc.Text()
		if !timer.Stop() {
			select {
			case <-timer.C:
			default:
			}
		}
		timer.Reset(20 * time.Second)
		select {
		case r := <-res:
			fmt.Fprintln(w, r)
		case <-timer.C:
			fmt.Fprintln(w, "hang")
			go worker()
		}
	}
}
