//go:build verif

package ppp

// C06 correspondence harness (pkg/ppp part): drives the real IPCP / LCP / IPv6CP option handlers and the
// real FSM with the handlers attached, and prints projected observables, one line per case.

import (
	"bufio"
	"encoding/binary"
	"encoding/hex"
	"fmt"
	"net"
	"os"
	"strconv"
	"strings"
	"testing"
	"time"
)

func c06Hex(b []byte) string {
	if len(b) == 0 {
		return ""
	}
	return hex.EncodeToString(b)
}

func c06Bytes(tok string) []byte {
	if tok == "-" || tok == "" {
		return []byte{}
	}
	b, err := hex.DecodeString(tok)
	if err != nil {
		panic("bad hex " + tok)
	}
	return b
}

// "n" = nil, otherwise hex
func c06IP(tok string) net.IP {
	if tok == "n" {
		return nil
	}
	return net.IP(c06Bytes(tok))
}

func c06ShowIP(ip net.IP) string {
	if ip == nil {
		return "n"
	}
	return "h" + c06Hex(ip)
}

// option list: "-" (empty) or T.HEX,T.HEX,...
func c06Opts(tok string) []Option {
	if tok == "-" {
		return nil
	}
	var out []Option
	for _, p := range strings.Split(tok, ",") {
		i := strings.IndexByte(p, '.')
		t, err := strconv.Atoi(p[:i])
		if err != nil {
			panic("bad option " + p)
		}
		out = append(out, Option{Type: uint8(t), Data: c06Bytes(p[i+1:])})
	}
	return out
}

func c06ShowOpts(os []Option, sugg func(Option) bool) string {
	if len(os) == 0 {
		return "-"
	}
	parts := make([]string, 0, len(os))
	for _, o := range os {
		if sugg != nil && sugg(o) {
			parts = append(parts, strconv.Itoa(int(o.Type))+".S")
		} else {
			parts = append(parts, strconv.Itoa(int(o.Type))+"."+c06Hex(o.Data))
		}
	}
	return strings.Join(parts, ",")
}

// independent decoder for the option area of an emitted packet
func c06Decode(data []byte) ([]Option, bool) {
	var out []Option
	i := 0
	for i < len(data) {
		if i+2 > len(data) {
			return nil, false
		}
		l := int(data[i+1])
		if l < 2 || i+l > len(data) {
			return nil, false
		}
		out = append(out, Option{Type: data[i], Data: data[i+2 : i+l]})
		i += l
	}
	return out, true
}

type c06Handler interface {
	OptionHandler
	FSM() *FSM
}

type c06Inst struct {
	h     c06Handler
	sugg  func(Option) bool // projection of random Nak suggestions (IPv6CP only)
	local *[8]byte          // IPv6CP: the local identifier the projection compares with
	peer  func() string
	nArgs int
}

// builds a protocol instance from configuration tokens; returns the number of tokens consumed
func c06Build(proto string, f []string, cb Callbacks) c06Inst {
	switch proto {
	case "i":
		i := NewIPCP(cb)
		if f[0] != "n" {
			i.SetPeerAddress(c06IP(f[0]))
		}
		if f[1] != "d" {
			i.SetDNS(c06IP(f[1]), c06IP(f[2]))
		}
		return c06Inst{h: i, nArgs: 3, peer: func() string {
			p := i.PeerConfig()
			return c06ShowIP(p.Address) + " " + c06ShowIP(p.PrimaryDNS) + " " + c06ShowIP(p.SecondaryDNS)
		}}
	case "l":
		l := NewLCP(cb)
		m, err := strconv.ParseUint(f[0], 10, 32)
		if err != nil {
			panic("bad magic")
		}
		l.SetMagic(uint32(m))
		return c06Inst{h: l, nArgs: 1,
			// the values LCP suggests in a Configure-Nak are its own choice: projected when admissible
			// (a non-zero 4-byte magic, an MRU it would accept itself, an authentication protocol it supports)
			sugg: func(o Option) bool {
				switch o.Type {
				case LCPOptMagic:
					return len(o.Data) == 4 && binary.BigEndian.Uint32(o.Data) != 0
				case LCPOptMRU:
					return len(o.Data) == 2 && binary.BigEndian.Uint16(o.Data) >= 64
				case LCPOptAuthProto:
					return string(o.Data) == "\xc0\x23" || string(o.Data) == "\xc2\x23\x05"
				}
				return false
			},
			peer: func() string {
			p := l.PeerConfig()
			return fmt.Sprintf("%d %d %d %d", p.MRU, p.Magic, p.AuthProto, p.AuthAlgo)
		}}
	case "6":
		v := NewIPv6CP(cb)
		id := new([8]byte)
		copy(id[:], c06Bytes(f[0]))
		v.SetInterfaceID(*id)
		return c06Inst{h: v, nArgs: 1, local: id,
			sugg: func(o Option) bool {
				return o.Type == IPv6CPOptInterfaceID && len(o.Data) == 8 && string(o.Data) != string(id[:]) &&
					string(o.Data) != string(make([]byte, 8))
			},
			peer: func() string {
				p := v.PeerConfig()
				return c06Hex(p.InterfaceID[:])
			}}
	}
	panic("bad proto " + proto)
}

func c06Direct(proto string, f []string) string {
	inst := c06Build(proto, f, Callbacks{})
	var parts []string
	for _, rq := range f[inst.nArgs:] {
		ack, nak, rej := inst.h.ProcessConfReq(c06Opts(rq))
		parts = append(parts, "A="+c06ShowOpts(ack, nil)+" N="+c06ShowOpts(nak, inst.sugg)+" R="+c06ShowOpts(rej, nil))
	}
	return strings.Join(parts, " | ") + " ; P=" + inst.peer()
}

// a history on ONE protocol object: requests interleaved with the subscriber's answers to our own request
// and with configuration changes; after every non-request step the object's BuildConfReq is printed
func c06Hist(proto string, f []string) string {
	inst := c06Build(proto, f, Callbacks{})
	var parts []string
	for _, op := range f[inst.nArgs:] {
		arg := op[1:]
		switch op[0] {
		case 'q':
			ack, nak, rej := inst.h.ProcessConfReq(c06Opts(arg))
			parts = append(parts, "A="+c06ShowOpts(ack, nil)+" N="+c06ShowOpts(nak, inst.sugg)+" R="+c06ShowOpts(rej, nil))
			continue
		case 'a':
			inst.h.ProcessConfAck(c06Opts(arg))
		case 'n':
			inst.h.ProcessConfNak(c06Opts(arg))
		case 'j':
			inst.h.ProcessConfRej(c06Opts(arg))
		case 'P':
			inst.h.(*IPCP).SetPeerAddress(c06IP(arg))
		case 'L':
			inst.h.(*IPCP).SetAddress(c06IP(arg))
		case 'D':
			d := strings.Split(arg, "/")
			inst.h.(*IPCP).SetDNS(c06IP(d[0]), c06IP(d[1]))
		case 'M':
			m, _ := strconv.ParseUint(arg, 10, 32)
			inst.h.(*LCP).SetMagic(uint32(m))
		case 'U':
			m, _ := strconv.ParseUint(arg, 10, 16)
			inst.h.(*LCP).SetMRU(uint16(m))
		case 'T':
			d := strings.Split(arg, "/")
			pr, _ := strconv.ParseUint(d[0], 10, 16)
			al, _ := strconv.ParseUint(d[1], 10, 8)
			inst.h.(*LCP).SetAuthProto(uint16(pr), uint8(al))
		case 'I':
			var id [8]byte
			copy(id[:], c06Bytes(arg))
			inst.h.(*IPv6CP).SetInterfaceID(id)
			*inst.local = id
		default:
			return "badop"
		}
		if proto == "6" {
			*inst.local = inst.h.(*IPv6CP).LocalConfig().InterfaceID
		}
		parts = append(parts, "B="+c06ShowOpts(inst.h.BuildConfReq(), nil))
	}
	return strings.Join(parts, " | ") + " ; P=" + inst.peer()
}

// two objects of the same protocol alive at the same time, with different configurations; every op is prefixed
// with the index (0/1) of the object it goes to.  "hh <proto> <cfg0> | <cfg1> | <ops>"
func c06Hist2(f []string) string {
	proto := f[0]
	rest := strings.Join(f[1:], " ")
	secs := strings.Split(rest, " | ")
	if len(secs) != 3 {
		return "badline"
	}
	insts := []c06Inst{c06Build(proto, strings.Fields(secs[0]), Callbacks{}), c06Build(proto, strings.Fields(secs[1]), Callbacks{})}
	var parts []string
	for _, op := range strings.Fields(secs[2]) {
		inst := insts[op[0]-'0']
		arg := op[2:]
		switch op[1] {
		case 'q':
			ack, nak, rej := inst.h.ProcessConfReq(c06Opts(arg))
			parts = append(parts, "A="+c06ShowOpts(ack, nil)+" N="+c06ShowOpts(nak, inst.sugg)+" R="+c06ShowOpts(rej, nil))
			continue
		case 'a':
			inst.h.ProcessConfAck(c06Opts(arg))
		case 'n':
			inst.h.ProcessConfNak(c06Opts(arg))
		case 'j':
			inst.h.ProcessConfRej(c06Opts(arg))
		case 'P':
			inst.h.(*IPCP).SetPeerAddress(c06IP(arg))
		case 'D':
			d := strings.Split(arg, "/")
			inst.h.(*IPCP).SetDNS(c06IP(d[0]), c06IP(d[1]))
		case 'M':
			m, _ := strconv.ParseUint(arg, 10, 32)
			inst.h.(*LCP).SetMagic(uint32(m))
		default:
			return "badop"
		}
		if proto == "6" {
			*inst.local = inst.h.(*IPv6CP).LocalConfig().InterfaceID
		}
		parts = append(parts, "B="+c06ShowOpts(inst.h.BuildConfReq(), nil))
	}
	return strings.Join(parts, " | ") + " ; P=" + insts[0].peer() + " ; P=" + insts[1].peer()
}

func c06Fsm(f []string) string {
	var acts []string
	var inst c06Inst
	cb := Callbacks{
		Send: func(code uint8, id uint8, data []byte) {
			name := ""
			switch code {
			case ConfReq:
				acts = append(acts, "scr")
				return
			case ConfAck:
				name = "sca"
			case ConfNak:
				name = "scn"
			case ConfRej:
				name = "scj"
			case TermAck:
				acts = append(acts, fmt.Sprintf("sta:%d", id))
				return
			default:
				acts = append(acts, fmt.Sprintf("x%d:%d:%s", code, id, c06Hex(data)))
				return
			}
			os, ok := c06Decode(data)
			if !ok {
				acts = append(acts, fmt.Sprintf("%s:%d:raw%s", name, id, c06Hex(data)))
				return
			}
			var sg func(Option) bool
			if code == ConfNak {
				sg = inst.sugg
			}
			acts = append(acts, fmt.Sprintf("%s:%d:%s", name, id, c06ShowOpts(os, sg)))
		},
		LayerUp:       func() { acts = append(acts, "tlu") },
		LayerDown:     func() { acts = append(acts, "tld") },
		LayerStarted:  func() { acts = append(acts, "tls") },
		LayerFinished: func() { acts = append(acts, "tlf") },
	}
	inst = c06Build(f[0], f[1:], cb)
	rest := f[1+inst.nArgs:]
	st, _ := strconv.Atoi(rest[0])
	id, _ := strconv.Atoi(rest[1])
	fsm := inst.h.FSM()
	fsm.restartTime = time.Hour
	fsm.state = State(st)
	fsm.Input(ConfReq, uint8(id), c06Bytes(rest[2]))
	final := fsm.State()
	fsm.Kill()
	a := "-"
	if len(acts) > 0 {
		a = strings.Join(acts, " ")
	}
	// the handler's verdict on the same request, from a twin object with the same configuration: visible also
	// in the states in which the FSM sends nothing
	verdict := "unparsed"
	if opts, err := ParseOptions(c06Bytes(rest[2])); err == nil {
		twin := c06Build(f[0], f[1:], Callbacks{})
		ack, nak, rej := twin.h.ProcessConfReq(opts)
		verdict = "A=" + c06ShowOpts(ack, nil) + " N=" + c06ShowOpts(nak, twin.sugg) + " R=" + c06ShowOpts(rej, nil)
	}
	return fmt.Sprintf("%s ; st=%d ; P=%s ; V %s", a, final, inst.peer(), verdict)
}

func c06Case(line string) (out string) {
	defer func() {
		if r := recover(); r != nil {
			out = fmt.Sprintf("panic %v", r)
			if len(out) > 120 {
				out = out[:120]
			}
			out = strings.ReplaceAll(out, "\n", " ")
		}
	}()
	f := strings.Fields(line)
	if len(f) == 0 {
		return "badline"
	}
	switch f[0] {
	case "ipcp":
		return c06Direct("i", f[1:])
	case "lcp":
		return c06Direct("l", f[1:])
	case "v6":
		return c06Direct("6", f[1:])
	case "hi":
		return c06Hist("i", f[1:])
	case "hl":
		return c06Hist("l", f[1:])
	case "h6":
		return c06Hist("6", f[1:])
	case "hh":
		return c06Hist2(f[1:])
	case "fsm":
		return c06Fsm(f[1:])
	}
	return "badline"
}

func TestVerifC06(t *testing.T) {
	in, err := os.Open(os.Getenv("VERIF_CASES"))
	if err != nil {
		t.Fatal(err)
	}
	defer in.Close()
	outf, err := os.Create(os.Getenv("VERIF_OUT"))
	if err != nil {
		t.Fatal(err)
	}
	defer outf.Close()
	w := bufio.NewWriter(outf)
	defer w.Flush()
	sc := bufio.NewScanner(in)
	sc.Buffer(make([]byte, 1<<20), 1<<26)
	lines := make(chan string)
	res := make(chan string)
	worker := func() {
		for l := range lines {
			res <- c06Case(l)
		}
	}
	go worker()
	timer := time.NewTimer(time.Hour)
	for sc.Scan() {
		lines <- sc.Text()
		if !timer.Stop() {
			select {
			case <-timer.C:
			default:
			}
		}
		timer.Reset(20 * time.Second)
		select {
		case r := <-res:
			fmt.Fprintln(w, r)
		case <-timer.C:
			fmt.Fprintln(w, "hang")
			go worker()
		}
	}
}
