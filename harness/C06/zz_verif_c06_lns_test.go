//go:build verif

package l2tp

// C06 correspondence harness (internal/l2tp part, the LNS owner of the same ppp.IPCP object): a real Session
// with the real initSessionPPP, extractIPFromAttributes, startNCP and the FSM callbacks onIPCPUp / onIPCPDown;
// emitted packets are taken from the SendControlFn the component is given.

import (
	"bufio"
	"encoding/hex"
	"fmt"
	"net"
	"net/netip"
	"os"
	"strconv"
	"strings"
	"testing"
	"time"

	"github.com/veesix-networks/osvbng/pkg/aaa"
	"github.com/veesix-networks/osvbng/pkg/allocator"
	l2tppkt "github.com/veesix-networks/osvbng/pkg/l2tp"
	"github.com/veesix-networks/osvbng/pkg/logger"
	"github.com/veesix-networks/osvbng/pkg/ppp"
)

type c06Pkt struct {
	code, id uint8
	data     []byte
}

func c06Hex(b []byte) string {
	if len(b) == 0 {
		return ""
	}
	return hex.EncodeToString(b)
}

func c06Bytes(tok string) []byte {
	if tok == "-" || tok == "" {
		return []byte{}
	}
	b, err := hex.DecodeString(tok)
	if err != nil {
		panic("bad hex " + tok)
	}
	return b
}

func c06ShowWire(data []byte) string {
	var parts []string
	i := 0
	for i < len(data) {
		if i+2 > len(data) {
			return "raw" + c06Hex(data)
		}
		l := int(data[i+1])
		if l < 2 || i+l > len(data) {
			return "raw" + c06Hex(data)
		}
		parts = append(parts, strconv.Itoa(int(data[i]))+"."+c06Hex(data[i+2:i+l]))
		i += l
	}
	if len(parts) == 0 {
		return "-"
	}
	return strings.Join(parts, ",")
}

// the negotiated peer address the IPCP object remembers; while IPCP has never been started (FSM Initial)
// nothing is sent and nothing adopted, what the handler notes for itself is not an observable of the property
func c06PeerNeg(i *ppp.IPCP) string {
	if i.FSM().State() == ppp.Initial {
		return "-"
	}
	return c06ShowAddr(i.PeerConfig().Address)
}

func c06ShowAddr(ip net.IP) string {
	if ip == nil {
		return "nil"
	}
	if v4 := ip.To4(); v4 != nil {
		return "h" + c06Hex(v4)
	}
	return "h" + c06Hex(ip)
}

func c06Split3(tok string) (string, string, string) {
	p := strings.Split(tok, "/")
	a, al, rs := p[0], "none", "ok"
	if len(p) > 1 {
		al = p[1]
	}
	if len(p) > 2 {
		rs = p[2]
	}
	return a, al, rs
}

func c06Registry(c *Component, s *Session, alloc string) {
	one := func(ip net.IP, held bool) *allocator.Registry {
		a, ok := netip.AddrFromSlice(ip.To4())
		if !ok {
			panic("registry address")
		}
		r := allocator.NewTestRegistry(a, a)
		if held {
			if err := r.ReserveIP(ip, "another-session"); err != nil {
				panic("pre-reservation failed")
			}
		}
		return r
	}
	c.registry = nil
	s.AllocCtx = nil
	if s.IPv4Address != nil {
		return
	}
	switch alloc {
	case "none":
	case "full":
		c.registry = one(net.IPv4(10, 9, 9, 9), true)
		s.AllocCtx = &allocator.Context{ProfileName: "test"}
	default:
		c.registry = one(net.IP(c06Bytes(alloc)), false)
		s.AllocCtx = &allocator.Context{ProfileName: "test"}
	}
}

func c06Lns(f []string) string {
	var sent []c06Pkt
	c := New(logger.NewTest())
	c.SetSendControlFn(func(localIP, peerIP net.IP, localPort, peerPort uint16, header l2tppkt.Header, body []byte) error {
		// body = PPP protocol (2) + code, id, length (2), data
		if len(body) < 6 || uint16(body[0])<<8|uint16(body[1]) != ppp.ProtoIPCP {
			return nil
		}
		l := int(body[4])<<8 | int(body[5])
		if l < 4 || 2+l > len(body) {
			sent = append(sent, c06Pkt{code: 255})
			return nil
		}
		sent = append(sent, c06Pkt{code: body[2], id: body[3], data: append([]byte(nil), body[6:2+l]...)})
		return nil
	})
	s := &Session{
		SessionID:  "s1",
		Tunnel:     &Tunnel{LocalIP: net.IPv4(192, 0, 2, 1), PeerIP: net.IPv4(192, 0, 2, 2), LocalID: 1, PeerID: 2, LocalPort: 1701, PeerPort: 1701},
		LocalID:    3,
		PeerID:     4,
		Attributes: map[string]string{},
	}
	c.initSessionPPP(s)
	defer func() {
		s.IPCP.FSM().Kill()
		s.IPv6CP.FSM().Kill()
		s.LCP.FSM().Kill()
	}()
	a0, al0, _ := c06Split3(f[0])
	if a0 != "none" {
		s.Attributes[aaa.AttrIPv4Address] = net.IP(c06Bytes(a0)).String()
	}
	c.extractIPFromAttributes(s)
	c06Registry(c, s, al0)
	// not the Network phase: checkSessionOpen then returns before programming the dataplane
	s.Phase = ppp.PhaseAuthenticate
	c.startNCP(s)
	var parts []string
	var lastReq *c06Pkt
	drain := func() string {
		var acts []string
		for i := range sent {
			p := sent[i]
			switch p.code {
			case ppp.ConfReq:
				lastReq = &sent[i]
				acts = append(acts, "scr:"+c06ShowWire(p.data))
			case ppp.ConfAck:
				acts = append(acts, fmt.Sprintf("sca:%d:%s", p.id, c06ShowWire(p.data)))
			case ppp.ConfNak:
				acts = append(acts, fmt.Sprintf("scn:%d:%s", p.id, c06ShowWire(p.data)))
			case ppp.ConfRej:
				acts = append(acts, fmt.Sprintf("scj:%d:%s", p.id, c06ShowWire(p.data)))
			case ppp.TermAck:
				acts = append(acts, "sta") // the identifier echoes a harness-chosen one
			default:
				acts = append(acts, fmt.Sprintf("x%d", p.code))
			}
		}
		sent = nil
		if len(acts) == 0 {
			return "-"
		}
		return strings.Join(acts, " ")
	}
	parts = append(parts, drain()+" a="+c06ShowAddr(s.IPv4Address)+" pa="+c06ShowAddr(s.IPCP.PeerConfig().PeerAddress))
	for _, ev := range f[1:] {
		var rid uint8
		var rdata []byte
		if lastReq != nil {
			rid, rdata = lastReq.id, lastReq.data
		}
		switch {
		case ev == "k":
			s.IPCP.FSM().Input(ppp.ConfAck, rid, rdata)
		case ev[0] == 'a' || ev[0] == 'n' || ev[0] == 'j':
			code := map[byte]uint8{'a': ppp.ConfAck, 'n': ppp.ConfNak, 'j': ppp.ConfRej}[ev[0]]
			s.IPCP.FSM().Input(code, rid, c06Bytes(ev[1:]))
		case ev[0] == 'R':
			ra, ral, _ := c06Split3(ev[1:])
			if ra == "none" {
				delete(s.Attributes, aaa.AttrIPv4Address)
			} else {
				s.Attributes[aaa.AttrIPv4Address] = net.IP(c06Bytes(ra)).String()
			}
			// the production path: LCP renegotiated (the real onLCPDown takes the NCPs down), authentication
			// repeated, then the AAA answer is evaluated and startNCP runs again on the same session
			c.onLCPDown(s)
			s.Phase = ppp.PhaseAuthenticate
			c.extractIPFromAttributes(s)
			c06Registry(c, s, ral)
			c.startNCP(s)
		case ev[0] == 'S':
			// answer to our request with an identifier that is not our last one
			var sid uint8 = 200
			if lastReq != nil {
				sid = lastReq.id + 1
			}
			code := map[byte]uint8{'a': ppp.ConfAck, 'n': ppp.ConfNak, 'j': ppp.ConfRej}[ev[1]]
			s.IPCP.FSM().Input(code, sid, c06Bytes(ev[2:]))
		case ev == "X":
			// time-outs until Max-Configure is exhausted; only the last retransmission is shown
			for n := 0; n < 12; n++ {
				st := s.IPCP.FSM().State()
				if st != ppp.ReqSent && st != ppp.AckRcvd && st != ppp.AckSent {
					break
				}
				s.IPCP.FSM().Timeout()
			}
			var keep []c06Pkt
			for i := range sent {
				if sent[i].code != ppp.ConfReq {
					keep = append(keep, sent[i])
				}
			}
			for i := len(sent) - 1; i >= 0; i-- {
				if sent[i].code == ppp.ConfReq {
					keep = append([]c06Pkt{sent[i]}, keep...)
					break
				}
			}
			sent = keep
		case ev == "T":
			if st := s.IPCP.FSM().State(); st == ppp.ReqSent || st == ppp.AckRcvd || st == ppp.AckSent {
				s.IPCP.FSM().Timeout()
			}
		case ev[0] == 't':
			tid, _ := strconv.Atoi(ev[1:])
			s.IPCP.FSM().Input(ppp.TermReq, uint8(tid), nil)
		case ev == "o":
			// the restart timer expires while Stopping (after the subscriber's Terminate-Request)
			if s.IPCP.FSM().State() == ppp.Stopping {
				s.IPCP.FSM().Timeout()
			}
		case ev == "D":
			// LCP renegotiation: the LNS owner's onLCPDown only changes the phase, the NCPs are left alone
			c.onLCPDown(s)
			s.Phase = ppp.PhaseAuthenticate
		case ev[0] == 'q':
			i := strings.IndexByte(ev, '.')
			id, _ := strconv.Atoi(ev[1:i])
			s.IPCP.FSM().Input(ppp.ConfReq, uint8(id), c06Bytes(ev[i+1:]))
		default:
			return "badevent"
		}
		up := 0
		if s.ipcpOpen {
			up = 1
		}
		parts = append(parts, fmt.Sprintf("%s up=%d a=%s pa=%s pn=%s", drain(), up, c06ShowAddr(s.IPv4Address),
			c06ShowAddr(s.IPCP.PeerConfig().PeerAddress), c06PeerNeg(s.IPCP)))
	}
	return strings.Join(parts, " | ")
}

// IPv6CP inside a real LNS session (startNCP opens it with the default identifier of NewIPv6CP)
func c06Lns6(f []string) string {
	var sent []c06Pkt
	c := New(logger.NewTest())
	c.SetSendControlFn(func(localIP, peerIP net.IP, localPort, peerPort uint16, header l2tppkt.Header, body []byte) error {
		if len(body) < 6 || uint16(body[0])<<8|uint16(body[1]) != ppp.ProtoIPv6CP {
			return nil
		}
		l := int(body[4])<<8 | int(body[5])
		if l < 4 || 2+l > len(body) {
			sent = append(sent, c06Pkt{code: 255})
			return nil
		}
		sent = append(sent, c06Pkt{code: body[2], id: body[3], data: append([]byte(nil), body[6:2+l]...)})
		return nil
	})
	s := &Session{
		SessionID:  "s1",
		Tunnel:     &Tunnel{LocalIP: net.IPv4(192, 0, 2, 1), PeerIP: net.IPv4(192, 0, 2, 2), LocalID: 1, PeerID: 2, LocalPort: 1701, PeerPort: 1701},
		LocalID:    3,
		PeerID:     4,
		Attributes: map[string]string{aaa.AttrIPv4Address: "10.0.0.5"},
	}
	c.initSessionPPP(s)
	defer func() {
		s.IPCP.FSM().Kill()
		s.IPv6CP.FSM().Kill()
		s.LCP.FSM().Kill()
	}()
	c.extractIPFromAttributes(s)
	s.Phase = ppp.PhaseAuthenticate
	c.startNCP(s)
	var lastReq *c06Pkt
	show := func() string {
		local := s.IPv6CP.LocalConfig().InterfaceID
		var acts []string
		for i := range sent {
			p := sent[i]
			switch p.code {
			case ppp.ConfReq:
				lastReq = &sent[i]
				acts = append(acts, "scr:"+c06ShowWire(p.data))
			case ppp.ConfAck:
				acts = append(acts, fmt.Sprintf("sca:%d:%s", p.id, c06ShowWire(p.data)))
			case ppp.ConfNak:
				d := p.data
				if len(d)%10 == 0 && len(d) > 0 {
					var parts []string
					ok := true
					for j := 0; j < len(d); j += 10 {
						id := d[j+2 : j+10]
						if d[j] != 1 || d[j+1] != 10 || string(id) == string(local[:]) || string(id) == string(make([]byte, 8)) {
							ok = false
						}
						parts = append(parts, "1.S")
					}
					if ok {
						acts = append(acts, fmt.Sprintf("scn:%d:%s", p.id, strings.Join(parts, ",")))
						continue
					}
				}
				acts = append(acts, fmt.Sprintf("scn:%d:%s", p.id, c06ShowWire(p.data)))
			case ppp.ConfRej:
				acts = append(acts, fmt.Sprintf("scj:%d:%s", p.id, c06ShowWire(p.data)))
			case ppp.TermAck:
				acts = append(acts, "sta") // the identifier echoes a harness-chosen one
			default:
				acts = append(acts, fmt.Sprintf("x%d", p.code))
			}
		}
		sent = nil
		a := "-"
		if len(acts) > 0 {
			a = strings.Join(acts, " ")
		}
		up := 0
		if s.ipv6cpOpen {
			up = 1
		}
		return fmt.Sprintf("%s up=%d lid=%s", a, up, c06Hex(local[:]))
	}
	parts := []string{show()}
	for _, ev := range f[1:] {
		var rid uint8
		var rdata []byte
		if lastReq != nil {
			rid, rdata = lastReq.id, lastReq.data
		}
		switch ev[0] {
		case 'q':
			i := strings.IndexByte(ev, '.')
			id, _ := strconv.Atoi(ev[1:i])
			s.IPv6CP.FSM().Input(ppp.ConfReq, uint8(id), c06Bytes(ev[i+1:]))
		case 'e':
			id, _ := strconv.Atoi(ev[1:])
			s.IPv6CP.FSM().Input(ppp.ConfReq, uint8(id), rdata)
		case 'k':
			s.IPv6CP.FSM().Input(ppp.ConfAck, rid, rdata)
		case 'n':
			s.IPv6CP.FSM().Input(ppp.ConfNak, rid, c06Bytes(ev[1:]))
		case 'j':
			s.IPv6CP.FSM().Input(ppp.ConfRej, rid, c06Bytes(ev[1:]))
		case 'T':
			if st := s.IPv6CP.FSM().State(); st == ppp.ReqSent || st == ppp.AckRcvd || st == ppp.AckSent {
				s.IPv6CP.FSM().Timeout()
			}
		default:
			return "badevent"
		}
		parts = append(parts, show())
	}
	return strings.Join(parts, " | ")
}

// LCP inside a real LNS session: initSessionPPP creates LCP (random magic, CHAP-MD5 wanted) and opens it
func c06LnsL(f []string) string {
	var sent []c06Pkt
	c := New(logger.NewTest())
	c.SetSendControlFn(func(localIP, peerIP net.IP, localPort, peerPort uint16, header l2tppkt.Header, body []byte) error {
		if len(body) < 6 || uint16(body[0])<<8|uint16(body[1]) != ppp.ProtoLCP {
			return nil
		}
		l := int(body[4])<<8 | int(body[5])
		if l < 4 || 2+l > len(body) {
			sent = append(sent, c06Pkt{code: 255})
			return nil
		}
		sent = append(sent, c06Pkt{code: body[2], id: body[3], data: append([]byte(nil), body[6:2+l]...)})
		return nil
	})
	s := &Session{
		SessionID:  "s1",
		Tunnel:     &Tunnel{LocalIP: net.IPv4(192, 0, 2, 1), PeerIP: net.IPv4(192, 0, 2, 2), LocalID: 1, PeerID: 2, LocalPort: 1701, PeerPort: 1701},
		LocalID:    3,
		PeerID:     4,
		Attributes: map[string]string{},
	}
	c.initSessionPPP(s)
	defer func() {
		c.stopCHAPRetryTimer(s)
		s.IPCP.FSM().Kill()
		s.IPv6CP.FSM().Kill()
		s.LCP.FSM().Kill()
	}()
	var lastReq *c06Pkt
	show := func() string {
		var acts []string
		for i := range sent {
			p := sent[i]
			switch p.code {
			case ppp.ConfReq:
				lastReq = &sent[i]
				acts = append(acts, "scr:"+c06ShowWire(p.data))
			case ppp.ConfAck:
				acts = append(acts, fmt.Sprintf("sca:%d:%s", p.id, c06ShowWire(p.data)))
			case ppp.ConfNak:
				var parts []string
				d := p.data
				ok := len(d) > 0
				for j := 0; ok && j < len(d); {
					if j+2 > len(d) || int(d[j+1]) < 2 || j+int(d[j+1]) > len(d) {
						ok = false
						break
					}
					v := d[j+2 : j+int(d[j+1])]
					switch {
					case d[j] == 5 && len(v) == 4 && (uint32(v[0])<<24|uint32(v[1])<<16|uint32(v[2])<<8|uint32(v[3])) != 0:
					case d[j] == 1 && len(v) == 2 && (uint16(v[0])<<8|uint16(v[1])) >= 64:
					case d[j] == 3 && (string(v) == "\xc0\x23" || string(v) == "\xc2\x23\x05"):
					default:
						ok = false
					}
					parts = append(parts, strconv.Itoa(int(d[j]))+".S")
					j += int(d[j+1])
				}
				if ok {
					acts = append(acts, fmt.Sprintf("scn:%d:%s", p.id, strings.Join(parts, ",")))
				} else {
					acts = append(acts, fmt.Sprintf("scn:%d:%s", p.id, c06ShowWire(p.data)))
				}
			case ppp.ConfRej:
				acts = append(acts, fmt.Sprintf("scj:%d:%s", p.id, c06ShowWire(p.data)))
			case ppp.TermAck:
				acts = append(acts, "sta") // the identifier echoes a harness-chosen one
			default:
			}
		}
		sent = nil
		a := "-"
		if len(acts) > 0 {
			a = strings.Join(acts, " ")
		}
		up := 0
		if s.LCP.FSM().State() == ppp.Opened {
			up = 1
		}
		return fmt.Sprintf("%s up=%d lm=%08x", a, up, s.LCP.LocalConfig().Magic)
	}
	parts := []string{show()}
	for _, ev := range f[1:] {
		var rid uint8
		var rdata []byte
		if lastReq != nil {
			rid, rdata = lastReq.id, lastReq.data
		}
		switch ev[0] {
		case 'q':
			i := strings.IndexByte(ev, '.')
			id, _ := strconv.Atoi(ev[1:i])
			s.LCP.FSM().Input(ppp.ConfReq, uint8(id), c06Bytes(ev[i+1:]))
		case 'e':
			id, _ := strconv.Atoi(ev[1:])
			var m []byte
			for j := 0; j+1 < len(rdata) && int(rdata[j+1]) >= 2 && j+int(rdata[j+1]) <= len(rdata); j += int(rdata[j+1]) {
				if rdata[j] == 5 {
					m = append(m, rdata[j:j+int(rdata[j+1])]...)
				}
			}
			s.LCP.FSM().Input(ppp.ConfReq, uint8(id), m)
		case 'k':
			s.LCP.FSM().Input(ppp.ConfAck, rid, rdata)
		case 'n':
			s.LCP.FSM().Input(ppp.ConfNak, rid, c06Bytes(ev[1:]))
		case 'j':
			s.LCP.FSM().Input(ppp.ConfRej, rid, c06Bytes(ev[1:]))
		case 'T':
			if st := s.LCP.FSM().State(); st == ppp.ReqSent || st == ppp.AckRcvd || st == ppp.AckSent {
				s.LCP.FSM().Timeout()
			}
		default:
			return "badevent"
		}
		parts = append(parts, show())
	}
	return strings.Join(parts, " | ")
}

func c06Case(line string) (out string) {
	defer func() {
		if r := recover(); r != nil {
			out = fmt.Sprintf("panic %v", r)
			if len(out) > 120 {
				out = out[:120]
			}
			out = strings.ReplaceAll(out, "\n", " ")
		}
	}()
	f := strings.Fields(line)
	if len(f) >= 2 && f[0] == "l6" {
		return c06Lns6(f[1:])
	}
	if len(f) >= 2 && f[0] == "ll" {
		return c06LnsL(f[1:])
	}
	if len(f) < 2 || f[0] != "lns" {
		return "badline"
	}
	return c06Lns(f[1:])
}

func TestVerifC06Lns(t *testing.T) {
	in, err := os.Open(os.Getenv("VERIF_CASES"))
	if err != nil {
		t.Fatal(err)
	}
	defer in.Close()
	outf, err := os.Create(os.Getenv("VERIF_OUT"))
	if err != nil {
		t.Fatal(err)
	}
	defer outf.Close()
	w := bufio.NewWriter(outf)
	defer w.Flush()
	sc := bufio.NewScanner(in)
	sc.Buffer(make([]byte, 1<<20), 1<<26)
	lines := make(chan string)
	res := make(chan string)
	worker := func() {
		for l := range lines {
			res <- c06Case(l)
		}
	}
	go worker()
	timer := time.NewTimer(time.Hour)
	for sc.Scan() {
		lines <- sc.Text()
		if !timer.Stop() {
			select {
			case <-timer.C:
			default:
			}
		}
		timer.Reset(20 * time.Second)
		select {
		case r := <-res:
			fmt.Fprintln(w, r)
		case <-timer.C:
			fmt.Fprintln(w, "hang")
			go worker()
		}
	}
}
