//go:build verif

package l2tp

// C16 glue harness: the real Component.Dispatch in front of a real ControlChannel.
// Inbound control messages are built on the wire (header.go AppendTo) and pushed through
// Dispatch; "handed to the protocol machine" is observed as Dispatch reaching its
// message-type switch (a Set-Link-Info message, which the switch does not handle, makes
// it return ErrUnsupportedMessageType; a message discarded by the channel returns nil).

import (
	"bufio"
	"errors"
	"fmt"
	"net"
	"os"
	"strconv"
	"strings"
	"sync"
	"testing"
	"time"

	"github.com/google/gopacket/layers"
	"github.com/veesix-networks/osvbng/pkg/dataplane"
	l2tppkt "github.com/veesix-networks/osvbng/pkg/l2tp"
	"github.com/veesix-networks/osvbng/pkg/logger"
	"github.com/veesix-networks/osvbng/pkg/models"
)

func vfDispCase(f []string) string {
	n := func(s string) int { v, _ := strconv.Atoi(s); return v }
	c := New(logger.Get("l2tp"))
	peer := net.IPv4(10, 0, 0, 2).To4()
	local := net.IPv4(10, 0, 0, 1).To4()
	var sent []string
	ch := l2tppkt.NewControlChannel(l2tppkt.Config{PeerRWS: n(f[0])},
		func(body []byte, sessionID, ns, nr uint16) error {
			b := string(body)
			if len(body) == 0 {
				b = "z"
			}
			sent = append(sent, fmt.Sprintf("%s.%d.%d.%d", b, sessionID, ns, nr))
			return nil
		}, func() {})
	t := &Tunnel{LocalIP: local, PeerIP: peer, LocalID: 7, PeerID: 9, Channel: ch}
	if err := c.registerTunnel(t); err != nil {
		return "register-failed"
	}
	var out []string
	for _, op := range f[1:] {
		a := strings.Split(op, ":")
		before := len(sent)
		var obs string
		switch {
		case a[0] == "i" && len(a) == 4:
			var body []byte
			if a[1] == "m" {
				body = l2tppkt.AppendAVP(nil, true, false, l2tppkt.VendorIETF, l2tppkt.AVPMessageType, []byte{0, byte(l2tppkt.MsgTypeSLI)})
			}
			h := l2tppkt.NewControl(7, 0, uint16(n(a[2])), uint16(n(a[3])))
			wire := h.AppendTo(nil, len(body))
			wire = append(wire, body...)
			pkt := &dataplane.ParsedPacket{
				Protocol: models.ProtocolL2TP,
				IPv4:     &layers.IPv4{SrcIP: peer, DstIP: local},
				UDP:      &layers.UDP{SrcPort: 1701, DstPort: 1701},
			}
			pkt.UDP.Payload = wire
			err := c.Dispatch(pkt)
			switch {
			case err == nil:
				obs = "D0"
			case errors.Is(err, ErrUnsupportedMessageType):
				obs = "D1"
			default:
				obs = "Derr"
			}
			obs += a[1] + "[" + strings.Join(sent[before:], ",") + "]"
		case a[0] == "s" && len(a) == 3:
			_ = ch.SendSession([]byte(a[1]), uint16(n(a[2])), time.Now())
			obs = "S[" + strings.Join(sent[before:], ",") + "]"
		default:
			obs = "-"
		}
		out = append(out, fmt.Sprintf("%s/%d,%d,%d,%d", obs, ch.Ns(), ch.Nr(), ch.Cwnd(), ch.Ssthresh()))
	}
	out = append(out, "|")
	return strings.Join(out, " ")
}

// sccrq <ns> <nr>: the LNS path of Dispatch (dispatch.go:139-169): a fresh tunnel and channel are
// created by HandleSCCRQ/startTunnelRunner (PeerRWS 16), the SCCRQ's Ns/Nr are registered with Recv and
// the SCCRP is sent through the channel.  Observed: the SCCRP's header and the channel afterwards.
func vfSccrqCase(f []string) string {
	n := func(s string) int { v, _ := strconv.Atoi(s); return v }
	c := New(logger.Get("l2tp"))
	peer := net.IPv4(10, 0, 0, 2).To4()
	local := net.IPv4(10, 0, 0, 1).To4()
	var mu sync.Mutex
	var sent []string
	c.SetSendControlFn(func(localIP, peerIP net.IP, lp, pp uint16, h l2tppkt.Header, body []byte) error {
		b := "1"
		if len(body) == 0 {
			b = "z"
		}
		mu.Lock()
		sent = append(sent, fmt.Sprintf("%s.%d.%d.%d", b, h.SessionID, h.Ns, h.Nr))
		mu.Unlock()
		return nil
	})
	c.SetLNSConfigResolver(func(string) (LNSConfig, bool) {
		return LNSConfig{LocalHostname: "lns", ReceiveWindowSize: 4, HelloInterval: time.Hour}, true
	})
	body := l2tppkt.BuildSCCRQ(l2tppkt.SCCRQParams{HostName: "lac", LocalTunnelID: 99, ReceiveWindowSize: 4, FramingCaps: 3})
	h := l2tppkt.NewControl(0, 0, uint16(n(f[0])), uint16(n(f[1])))
	wire := append(h.AppendTo(nil, len(body)), body...)
	pkt := &dataplane.ParsedPacket{
		Protocol: models.ProtocolL2TP,
		IPv4:     &layers.IPv4{SrcIP: peer, DstIP: local},
		UDP:      &layers.UDP{SrcPort: 1701, DstPort: 1701},
	}
	pkt.UDP.Payload = wire
	err := c.Dispatch(pkt)
	var t *Tunnel
	c.mu.RLock()
	for _, x := range c.tunnels {
		t = x
	}
	c.mu.RUnlock()
	if err != nil || t == nil || t.Channel == nil {
		return fmt.Sprintf("no-tunnel err=%v", err != nil)
	}
	c.stopTunnelRunner(t.PeerIP, t.LocalID)
	mu.Lock()
	defer mu.Unlock()
	return fmt.Sprintf("S[%s]/%d,%d,%d,%d |", strings.Join(sent, ","), t.Channel.Ns(), t.Channel.Nr(), t.Channel.Cwnd(), t.Channel.Ssthresh())
}

func vfDispGuard(line string) string {
	done := make(chan string, 1)
	go func() {
		defer func() {
			if r := recover(); r != nil {
				done <- "panic " + strings.ReplaceAll(fmt.Sprint(r), " ", "_")
			}
		}()
		f := strings.Fields(line)
		if len(f) >= 2 && f[0] == "disp" {
			done <- vfDispCase(f[1:])
		} else if len(f) == 3 && f[0] == "sccrq" {
			done <- vfSccrqCase(f[1:])
		} else {
			done <- "badline"
		}
	}()
	select {
	case r := <-done:
		return r
	case <-time.After(20 * time.Second):
		return "hang"
	}
}

func TestVerifC16Dispatch(t *testing.T) {
	in, err := os.Open(os.Getenv("VERIF_CASES"))
	if err != nil {
		t.Fatal(err)
	}
	defer in.Close()
	out, err := os.Create(os.Getenv("VERIF_OUT"))
	if err != nil {
		t.Fatal(err)
	}
	defer out.Close()
	w := bufio.NewWriter(out)
	defer w.Flush()
	sc := bufio.NewScanner(in)
	sc.Buffer(make([]byte, 1<<20), 1<<26)
	for sc.Scan() {
		if strings.TrimSpace(sc.Text()) == "" {
			continue
		}
		fmt.Fprintln(w, vfDispGuard(sc.Text()))
	}
}
