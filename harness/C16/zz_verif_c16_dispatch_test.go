//go:build verif

package l2tp

// C16 glue harness: the real Component.Dispatch in front of a real ControlChannel.
// Inbound control messages are built on the wire (header.go AppendTo) and pushed through
// Dispatch; "handed to the protocol machine" is observed as Dispatch reaching its
// message-type switch (a Set-Link-Info message, which the switch does not handle, makes
// it return ErrUnsupportedMessageType; a message discarded by the channel returns nil).

import (
	"bufio"
	"errors"
	"fmt"
	"net"
	"os"
	"sort"
	"strconv"
	"strings"
	"sync"
	"sync/atomic"
	"testing"
	"time"

	"github.com/google/gopacket/layers"
	"github.com/veesix-networks/osvbng/pkg/dataplane"
	l2tppkt "github.com/veesix-networks/osvbng/pkg/l2tp"
	"github.com/veesix-networks/osvbng/pkg/logger"
	"github.com/veesix-networks/osvbng/pkg/models"
)

func vfDispCase(f []string) string {
	n := func(s string) int { v, _ := strconv.Atoi(s); return v }
	c := New(logger.Get("l2tp"))
	peer := net.IPv4(10, 0, 0, 2).To4()
	local := net.IPv4(10, 0, 0, 1).To4()
	var sent []string
	ch := l2tppkt.NewControlChannel(l2tppkt.Config{PeerRWS: n(f[0])},
		func(body []byte, sessionID, ns, nr uint16) error {
			b := string(body)
			if len(body) == 0 {
				b = "z"
			}
			sent = append(sent, fmt.Sprintf("%s.%d.%d.%d", b, sessionID, ns, nr))
			return nil
		}, func() {})
	t := &Tunnel{LocalIP: local, PeerIP: peer, LocalID: 7, PeerID: 9, Channel: ch}
	if err := c.registerTunnel(t); err != nil {
		return "register-failed"
	}
	var out []string
	for _, op := range f[1:] {
		a := strings.Split(op, ":")
		before := len(sent)
		var obs string
		switch {
		case a[0] == "i" && len(a) == 4:
			var body []byte
			if a[1] == "m" {
				body = l2tppkt.AppendAVP(nil, true, false, l2tppkt.VendorIETF, l2tppkt.AVPMessageType, []byte{0, byte(l2tppkt.MsgTypeSLI)})
			}
			h := l2tppkt.NewControl(7, 0, uint16(n(a[2])), uint16(n(a[3])))
			wire := h.AppendTo(nil, len(body))
			wire = append(wire, body...)
			pkt := &dataplane.ParsedPacket{
				Protocol: models.ProtocolL2TP,
				IPv4:     &layers.IPv4{SrcIP: peer, DstIP: local},
				UDP:      &layers.UDP{SrcPort: 1701, DstPort: 1701},
			}
			pkt.UDP.Payload = wire
			err := c.Dispatch(pkt)
			switch {
			case err == nil:
				obs = "D0"
			case errors.Is(err, ErrUnsupportedMessageType):
				obs = "D1"
			default:
				obs = "Derr"
			}
			obs += a[1] + "[" + strings.Join(sent[before:], ",") + "]"
		case a[0] == "s" && len(a) == 3:
			_ = ch.SendSession([]byte(a[1]), uint16(n(a[2])), time.Now())
			obs = "S[" + strings.Join(sent[before:], ",") + "]"
		default:
			obs = "-"
		}
		out = append(out, fmt.Sprintf("%s/%d,%d,%d,%d", obs, ch.Ns(), ch.Nr(), ch.Cwnd(), ch.Ssthresh()))
	}
	out = append(out, "|")
	return strings.Join(out, " ")
}

// sccrq <ns> <nr>: the LNS path of Dispatch (dispatch.go:139-169): a fresh tunnel and channel are
// created by HandleSCCRQ/startTunnelRunner (PeerRWS 16), the SCCRQ's Ns/Nr are registered with Recv and
// the SCCRP is sent through the channel.  Observed: the SCCRP's header and the channel afterwards.
func vfSccrqCase(f []string) string {
	n := func(s string) int { v, _ := strconv.Atoi(s); return v }
	c := New(logger.Get("l2tp"))
	peer := net.IPv4(10, 0, 0, 2).To4()
	local := net.IPv4(10, 0, 0, 1).To4()
	var mu sync.Mutex
	var sent []string
	c.SetSendControlFn(func(localIP, peerIP net.IP, lp, pp uint16, h l2tppkt.Header, body []byte) error {
		b := "1"
		if len(body) == 0 {
			b = "z"
		}
		mu.Lock()
		sent = append(sent, fmt.Sprintf("%s.%d.%d.%d", b, h.SessionID, h.Ns, h.Nr))
		mu.Unlock()
		return nil
	})
	c.SetLNSConfigResolver(func(string) (LNSConfig, bool) {
		return LNSConfig{LocalHostname: "lns", ReceiveWindowSize: 4, HelloInterval: time.Hour}, true
	})
	body := l2tppkt.BuildSCCRQ(l2tppkt.SCCRQParams{HostName: "lac", LocalTunnelID: 99, ReceiveWindowSize: 4, FramingCaps: 3})
	h := l2tppkt.NewControl(0, 0, uint16(n(f[0])), uint16(n(f[1])))
	wire := append(h.AppendTo(nil, len(body)), body...)
	pkt := &dataplane.ParsedPacket{
		Protocol: models.ProtocolL2TP,
		IPv4:     &layers.IPv4{SrcIP: peer, DstIP: local},
		UDP:      &layers.UDP{SrcPort: 1701, DstPort: 1701},
	}
	pkt.UDP.Payload = wire
	err := c.Dispatch(pkt)
	var t *Tunnel
	c.mu.RLock()
	for _, x := range c.tunnels {
		t = x
	}
	c.mu.RUnlock()
	if err != nil || t == nil || t.Channel == nil {
		return fmt.Sprintf("no-tunnel err=%v", err != nil)
	}
	c.stopTunnelRunner(t.PeerIP, t.LocalID)
	mu.Lock()
	defer mu.Unlock()
	return fmt.Sprintf("S[%s]/%d,%d,%d,%d |", strings.Join(sent, ","), t.Channel.Ns(), t.Channel.Nr(), t.Channel.Cwnd(), t.Channel.Ssthresh())
}

// full <lns|lac> <op>...: a real Component with one registered tunnel (local id 7) holding one session
// (local id 5) and a real ControlChannel (ZLB delay 1 h, RTO 2 h, so the wall clock does not matter).
//   op = <type>:<tid>:<sid>:<ns>:<a|nr>    type in sccrq sccrp scccn stop hello icrq icrp iccn cdn unk zlb
// Every message is built on the wire and pushed through Dispatch, then the channel is ticked 90 min
// ahead: an owed acknowledgement shows up as a ZLB.  Printed per op:
//   K<tunnel registered before>:N<Nr after>:A<1 = the message was acknowledged (a packet carrying the
//   current Nr left during Dispatch, or the ZLB fired), * for ZLBs / foreign tunnels / SCCRQ>
func vfFullCase(f []string) string {
	n := func(s string) int { v, _ := strconv.Atoi(s); return v }
	c := New(logger.Get("l2tp"))
	peer := net.IPv4(10, 0, 0, 2).To4()
	local := net.IPv4(10, 0, 0, 1).To4()
	type spkt struct {
		zlb bool
		nr  uint16
	}
	var sent []spkt
	ch := l2tppkt.NewControlChannel(l2tppkt.Config{PeerRWS: 16, ZLBDelay: time.Hour, RTOInitial: 2 * time.Hour, RTOMax: 4 * time.Hour},
		func(body []byte, sessionID, ns, nr uint16) error {
			sent = append(sent, spkt{len(body) == 0, nr})
			return nil
		}, func() {})
	trole, srole := l2tppkt.RoleResponder, l2tppkt.SessionRoleLNS
	if f[0] == "lac" {
		trole, srole = l2tppkt.RoleInitiator, l2tppkt.SessionRoleLAC
	}
	t := &Tunnel{LocalIP: local, PeerIP: peer, LocalID: 7, PeerID: 9, Channel: ch, Role: trole, FSM: l2tppkt.NewTunnelFSM(trole)}
	if err := c.registerTunnel(t); err != nil {
		return "register-failed"
	}
	t.addSession(&Session{SessionID: makeSessionID(peer, 7, 5), Tunnel: t, LocalID: 5, PeerID: 50, Role: srole,
		FSM: l2tppkt.NewSessionFSM(srole), Attributes: map[string]string{}})
	mt := func(ty uint16) []byte {
		return l2tppkt.AppendAVP(nil, true, false, l2tppkt.VendorIETF, l2tppkt.AVPMessageType, []byte{byte(ty >> 8), byte(ty)})
	}
	var out []string
	for _, op := range f[1:] {
		a := strings.Split(op, ":")
		if len(a) != 5 {
			out = append(out, "badop")
			continue
		}
		var body []byte
		switch a[0] {
		case "sccrq":
			body = l2tppkt.BuildSCCRQ(l2tppkt.SCCRQParams{HostName: "lac", LocalTunnelID: 99, ReceiveWindowSize: 4, FramingCaps: 3})
		case "sccrp":
			body = l2tppkt.BuildSCCRP(l2tppkt.SCCRPParams{LocalTunnelID: 9, ReceiveWindowSize: 4, HostName: "lns", FramingCaps: 3})
		case "scccn":
			body = l2tppkt.BuildSCCCN(nil)
		case "stop":
			body = l2tppkt.BuildStopCCN(9, 1, 0, "")
		case "hello":
			body = l2tppkt.BuildHello()
		case "icrq":
			body = l2tppkt.BuildICRQ(l2tppkt.ICRQParams{LocalSessionID: 77, CallSerialNumber: 1})
		case "icrp":
			body = l2tppkt.BuildICRP(l2tppkt.ICRPParams{LocalSessionID: 50})
		case "iccn":
			body = l2tppkt.BuildICCN(l2tppkt.ICCNParams{TxConnectSpeed: 1000, Framing: 1})
		case "cdn":
			body = l2tppkt.BuildCDN(50, 1, 0, "")
		case "unk":
			body = mt(99)
		case "zlb":
			body = nil
		default:
			out = append(out, "badop")
			continue
		}
		known := c.LookupTunnel(peer, 7) != nil
		nr := uint16(n(a[4]))
		if a[4] == "a" {
			nr = ch.Ns()
		}
		h := l2tppkt.NewControl(uint16(n(a[1])), uint16(n(a[2])), uint16(n(a[3])), nr)
		wire := append(h.AppendTo(nil, len(body)), body...)
		pkt := &dataplane.ParsedPacket{
			Protocol: models.ProtocolL2TP,
			IPv4:     &layers.IPv4{SrcIP: peer, DstIP: local},
			UDP:      &layers.UDP{SrcPort: 1701, DstPort: 1701},
		}
		pkt.UDP.Payload = wire
		before := len(sent)
		_ = c.Dispatch(pkt)
		mid := len(sent)
		// the harness plays the runner — which is stopped together with the tunnel: an unregistered tunnel is
		// never ticked again, what it owes must have left during Dispatch
		if c.LookupTunnel(peer, 7) != nil {
			ch.Tick(time.Now().Add(90 * time.Minute))
		}
		nrAfter := ch.Nr()
		acked := false
		for _, p := range sent[before:mid] {
			if p.nr == nrAfter {
				acked = true
			}
		}
		for _, p := range sent[mid:] {
			if p.zlb && p.nr == nrAfter {
				acked = true
			}
		}
		A := "0"
		if acked {
			A = "1"
		}
		if !known || a[1] != "7" || a[0] == "zlb" || a[0] == "sccrq" {
			A = "*"
		}
		k := "0"
		if known {
			k = "1"
		}
		out = append(out, fmt.Sprintf("K%s:N%d:A%s", k, nrAfter, A))
	}
	out = append(out, "|")
	return strings.Join(out, " ")
}

// rws <lns|lac> <w|-> <k> <a>: the peer ADVERTISES a Receive Window Size of w in its SCCRQ (we are the LNS) or
// SCCRP (we are the LAC; "-" = no RWS AVP, RFC 2661 4.4.3: assume 4) through the real establishment path
// (Dispatch -> HandleSCCRQ / StartLACSession + handleSCCRP -> startTunnelRunner).  The peer then never
// acknowledges anything beyond our first message, except: LNS: SCCCN, then k ICRQs, each answered with an ICRP;
// the j-th ICRQ acknowledges min(j, a) ICRPs (so the congestion window opens a times).
// LAC: the SCCRP handler itself sends SCCCN and ICRQ.  Observed: the distinct Ns of the non-ZLB messages that
// left, how many of them are unacknowledged (in flight), and the channel's cwnd / ssthresh.
func vfRwsCase(f []string) string {
	n := func(s string) int { v, _ := strconv.Atoi(s); return v }
	c := New(logger.Get("l2tp"))
	peer := net.IPv4(10, 0, 0, 2).To4()
	local := net.IPv4(10, 0, 0, 1).To4()
	var mu sync.Mutex
	var nss []uint16
	c.SetSendControlFn(func(localIP, peerIP net.IP, lp, pp uint16, h l2tppkt.Header, body []byte) error {
		if len(body) == 0 {
			return nil
		}
		mu.Lock()
		defer mu.Unlock()
		for _, x := range nss {
			if x == h.Ns {
				return nil
			}
		}
		nss = append(nss, h.Ns)
		return nil
	})
	c.SetLNSConfigResolver(func(string) (LNSConfig, bool) {
		return LNSConfig{LocalHostname: "lns", ReceiveWindowSize: 16, HelloInterval: time.Hour}, true
	})
	u16 := func(v int) []byte { return []byte{byte(v >> 8), byte(v)} }
	avp := func(dst []byte, ty uint16, val []byte) []byte {
		return l2tppkt.AppendAVP(dst, true, false, l2tppkt.VendorIETF, ty, val)
	}
	dispatch := func(tid, sid, ns, nr uint16, body []byte) error {
		h := l2tppkt.NewControl(tid, sid, ns, nr)
		wire := append(h.AppendTo(nil, len(body)), body...)
		pkt := &dataplane.ParsedPacket{
			Protocol: models.ProtocolL2TP,
			IPv4:     &layers.IPv4{SrcIP: peer, DstIP: local},
			UDP:      &layers.UDP{SrcPort: 1701, DstPort: 1701},
		}
		pkt.UDP.Payload = wire
		return c.Dispatch(pkt)
	}
	var t *Tunnel
	lastNr := uint16(1)
	switch f[0] {
	case "lns":
		body := avp(nil, l2tppkt.AVPMessageType, u16(int(l2tppkt.MsgTypeSCCRQ)))
		body = avp(body, l2tppkt.AVPHostName, []byte("lac"))
		body = avp(body, l2tppkt.AVPAssignedTunnelID, u16(99))
		if f[1] != "-" {
			body = avp(body, l2tppkt.AVPReceiveWindowSize, u16(n(f[1])))
		}
		if err := dispatch(0, 0, 0, 0, body); err != nil {
			return "sccrq-failed"
		}
		c.mu.RLock()
		for _, x := range c.tunnels {
			t = x
		}
		c.mu.RUnlock()
		if t == nil || t.Channel == nil {
			return "no-tunnel"
		}
		_ = dispatch(t.LocalID, 0, 1, 1, l2tppkt.BuildSCCCN(nil))
		for j := 0; j < n(f[2]); j++ {
			acks := j
			if acks > n(f[3]) {
				acks = n(f[3])
			}
			lastNr = uint16(1 + acks)
			_ = dispatch(t.LocalID, 0, uint16(2+j), lastNr, l2tppkt.BuildICRQ(l2tppkt.ICRQParams{LocalSessionID: uint16(100 + j), CallSerialNumber: uint32(j)}))
		}
	case "lac":
		if err := c.StartLACSession(LACBringUpRequest{PPPoESessionID: 7, LocalIP: local,
			TunnelSpecs: []TunnelSpec{{ServerIP: peer}}}); err != nil {
			return "lac-start-failed"
		}
		t = c.LookupTunnel(peer, 1)
		if t == nil || t.Channel == nil {
			return "no-tunnel"
		}
		body := avp(nil, l2tppkt.AVPMessageType, u16(int(l2tppkt.MsgTypeSCCRP)))
		body = avp(body, l2tppkt.AVPHostName, []byte("lns"))
		body = avp(body, l2tppkt.AVPAssignedTunnelID, u16(99))
		if f[1] != "-" {
			body = avp(body, l2tppkt.AVPReceiveWindowSize, u16(n(f[1])))
		}
		_ = dispatch(1, 0, 0, 1, body)
	default:
		return "badline"
	}
	c.stopTunnelRunner(t.PeerIP, t.LocalID)
	mu.Lock()
	defer mu.Unlock()
	var l []string
	infl := 0
	for _, x := range nss {
		l = append(l, strconv.Itoa(int(x)))
		if x >= lastNr {
			infl++
		}
	}
	return fmt.Sprintf("ns=%s infl=%d cw=%d ss=%d", strings.Join(l, "."), infl, t.Channel.Cwnd(), t.Channel.Ssthresh())
}

// overlap: are the production goroutines serialised on one ControlChannel?  A tunnel is established through
// Dispatch; its real runner goroutine (runner.go loop) calls Tick, which emits the owed ZLB through the send
// callback.  The harness holds that callback (so Tick is provably in the middle of a channel operation) and
// meanwhile pushes a Hello through Dispatch -> Recv from the punt side.  If Dispatch returns while Tick is
// still inside the channel, two goroutines were inside one ControlChannel at once ("recv=returned");
// with mutual exclusion Dispatch has to wait until the callback is released ("recv=blocked").
func vfOverlapCase(op string) string {
	c := New(logger.Get("l2tp"))
	peer := net.IPv4(10, 0, 0, 2).To4()
	local := net.IPv4(10, 0, 0, 1).To4()
	var armed atomic.Bool
	entered := make(chan struct{}, 1)
	release := make(chan struct{})
	c.SetSendControlFn(func(localIP, peerIP net.IP, lp, pp uint16, h l2tppkt.Header, body []byte) error {
		if armed.CompareAndSwap(true, false) {
			entered <- struct{}{}
			<-release
		}
		return nil
	})
	c.SetLNSConfigResolver(func(string) (LNSConfig, bool) {
		return LNSConfig{LocalHostname: "lns", ReceiveWindowSize: 16, HelloInterval: time.Hour}, true
	})
	dispatch := func(tid, ns, nr uint16, body []byte) error {
		h := l2tppkt.NewControl(tid, 0, ns, nr)
		wire := append(h.AppendTo(nil, len(body)), body...)
		pkt := &dataplane.ParsedPacket{
			Protocol: models.ProtocolL2TP,
			IPv4:     &layers.IPv4{SrcIP: peer, DstIP: local},
			UDP:      &layers.UDP{SrcPort: 1701, DstPort: 1701},
		}
		pkt.UDP.Payload = wire
		return c.Dispatch(pkt)
	}
	body := l2tppkt.BuildSCCRQ(l2tppkt.SCCRQParams{HostName: "lac", LocalTunnelID: 99, ReceiveWindowSize: 16, FramingCaps: 3})
	if err := dispatch(0, 0, 0, body); err != nil {
		return "sccrq-failed"
	}
	var t *Tunnel
	c.mu.RLock()
	for _, x := range c.tunnels {
		t = x
	}
	c.mu.RUnlock()
	if t == nil {
		return "no-tunnel"
	}
	armed.Store(true)
	_ = dispatch(t.LocalID, 1, 1, l2tppkt.BuildSCCCN(nil)) // acknowledges SCCRP, arms the ZLB timer
	res := "no-tick"
	select {
	case <-entered: // the runner goroutine is now inside Tick -> send callback
		done := make(chan struct{})
		go func() {
			// a second goroutine enters the same channel through another exported entry point
			switch op {
			case "zlb":
				_ = dispatch(t.LocalID, 2, 1, nil) // Dispatch -> RecvZLB
			case "send":
				_ = t.Channel.Send(l2tppkt.BuildHello(), time.Now()) // what the Hello scheduler does
			case "setwin":
				t.Channel.SetPeerWindow(8)
			case "flush":
				t.Channel.FlushAck()
			case "nr":
				_ = t.Channel.Nr()
			default:
				_ = dispatch(t.LocalID, 2, 1, l2tppkt.BuildHello()) // Dispatch -> Recv
			}
			close(done)
		}()
		select {
		case <-done:
			res = "recv=returned"
		case <-time.After(400 * time.Millisecond):
			res = "recv=blocked"
		}
		close(release)
		<-done
	case <-time.After(5 * time.Second):
		armed.Store(false)
		close(release)
	}
	c.stopTunnelRunner(t.PeerIP, t.LocalID)
	return "tick-in-send " + op + " " + res
}

// stopccn: a tunnel established through Dispatch with its real runner receives SCCCN and then StopCCN
// (accepted, Ns in order).  Is the StopCCN ever acknowledged?  The harness does not tick the channel itself:
// only what production goroutines send within 700 ms (3.5 x zlbDelay) counts.
func vfStopCCNCase() string {
	c := New(logger.Get("l2tp"))
	peer := net.IPv4(10, 0, 0, 2).To4()
	local := net.IPv4(10, 0, 0, 1).To4()
	acked := make(chan struct{}, 8)
	c.SetSendControlFn(func(localIP, peerIP net.IP, lp, pp uint16, h l2tppkt.Header, body []byte) error {
		if h.Nr == 3 {
			select {
			case acked <- struct{}{}:
			default:
			}
		}
		return nil
	})
	c.SetLNSConfigResolver(func(string) (LNSConfig, bool) {
		return LNSConfig{LocalHostname: "lns", ReceiveWindowSize: 16, HelloInterval: time.Hour}, true
	})
	dispatch := func(tid, ns, nr uint16, body []byte) error {
		h := l2tppkt.NewControl(tid, 0, ns, nr)
		wire := append(h.AppendTo(nil, len(body)), body...)
		pkt := &dataplane.ParsedPacket{
			Protocol: models.ProtocolL2TP,
			IPv4:     &layers.IPv4{SrcIP: peer, DstIP: local},
			UDP:      &layers.UDP{SrcPort: 1701, DstPort: 1701},
		}
		pkt.UDP.Payload = wire
		return c.Dispatch(pkt)
	}
	body := l2tppkt.BuildSCCRQ(l2tppkt.SCCRQParams{HostName: "lac", LocalTunnelID: 99, ReceiveWindowSize: 16, FramingCaps: 3})
	if err := dispatch(0, 0, 0, body); err != nil {
		return "sccrq-failed"
	}
	var t *Tunnel
	c.mu.RLock()
	for _, x := range c.tunnels {
		t = x
	}
	c.mu.RUnlock()
	if t == nil {
		return "no-tunnel"
	}
	_ = dispatch(t.LocalID, 1, 1, l2tppkt.BuildSCCCN(nil))
	_ = dispatch(t.LocalID, 2, 1, l2tppkt.BuildStopCCN(99, 1, 0, ""))
	// the acknowledgement has to leave during the Dispatch that tears the tunnel down (FlushAck); only a tree
	// without it makes us wait
	res := "acked=0"
	select {
	case <-acked:
		res = "acked=1"
	default:
		select {
		case <-acked:
			res = "acked=late"
		case <-time.After(700 * time.Millisecond):
		}
	}
	c.stopTunnelRunner(t.PeerIP, t.LocalID)
	return fmt.Sprintf("stopccn nr=%d %s", t.Channel.Nr(), res)
}

// sccrqdup: the same SCCRQ (same peer, same Assigned Tunnel ID, Ns 0) arrives twice, as it does when the
// SCCRP is lost and the peer retransmits.  Printed: number of tunnels the LNS holds afterwards and the
// number of SCCRP transmissions it made.
func vfSccrqDupCase() string {
	c := New(logger.Get("l2tp"))
	peer := net.IPv4(10, 0, 0, 2).To4()
	local := net.IPv4(10, 0, 0, 1).To4()
	var mu sync.Mutex
	sccrps := 0
	c.SetSendControlFn(func(localIP, peerIP net.IP, lp, pp uint16, h l2tppkt.Header, body []byte) error {
		if len(body) > 0 {
			mu.Lock()
			sccrps++
			mu.Unlock()
		}
		return nil
	})
	c.SetLNSConfigResolver(func(string) (LNSConfig, bool) {
		return LNSConfig{LocalHostname: "lns", ReceiveWindowSize: 16, HelloInterval: time.Hour}, true
	})
	body := l2tppkt.BuildSCCRQ(l2tppkt.SCCRQParams{HostName: "lac", LocalTunnelID: 99, ReceiveWindowSize: 16, FramingCaps: 3})
	for i := 0; i < 2; i++ {
		h := l2tppkt.NewControl(0, 0, 0, 0)
		wire := append(h.AppendTo(nil, len(body)), body...)
		pkt := &dataplane.ParsedPacket{
			Protocol: models.ProtocolL2TP,
			IPv4:     &layers.IPv4{SrcIP: peer, DstIP: local},
			UDP:      &layers.UDP{SrcPort: 1701, DstPort: 1701},
		}
		pkt.UDP.Payload = wire
		_ = c.Dispatch(pkt)
	}
	c.mu.RLock()
	var ts []*Tunnel
	for _, x := range c.tunnels {
		ts = append(ts, x)
	}
	c.mu.RUnlock()
	for _, t := range ts {
		c.stopTunnelRunner(t.PeerIP, t.LocalID)
	}
	mu.Lock()
	defer mu.Unlock()
	return fmt.Sprintf("sccrqdup tunnels=%d sccrp=%d", len(ts), sccrps)
}

// idle <gap>: the REAL runner loop with its real timers.  A tunnel is established through Dispatch (SCCRQ,
// SCCCN); then the link is silent for <gap> ms, long enough for the runner to send the owed ZLB and find the
// channel idle.  Then a Hello arrives — a message we answer with nothing of our own.  Is a packet carrying
// Nr = 3 sent within zlbDelay (200 ms) + the idle poll (500 ms) + slack?  Only production goroutines send.
func vfIdleCase(f []string) string {
	gap, _ := strconv.Atoi(f[0])
	c := New(logger.Get("l2tp"))
	peer := net.IPv4(10, 0, 0, 2).To4()
	local := net.IPv4(10, 0, 0, 1).To4()
	acked := make(chan struct{}, 8)
	c.SetSendControlFn(func(localIP, peerIP net.IP, lp, pp uint16, h l2tppkt.Header, body []byte) error {
		if h.Nr == 3 {
			select {
			case acked <- struct{}{}:
			default:
			}
		}
		return nil
	})
	c.SetLNSConfigResolver(func(string) (LNSConfig, bool) {
		return LNSConfig{LocalHostname: "lns", ReceiveWindowSize: 16, HelloInterval: time.Hour}, true
	})
	dispatch := func(tid, ns, nr uint16, body []byte) error {
		h := l2tppkt.NewControl(tid, 0, ns, nr)
		wire := append(h.AppendTo(nil, len(body)), body...)
		pkt := &dataplane.ParsedPacket{
			Protocol: models.ProtocolL2TP,
			IPv4:     &layers.IPv4{SrcIP: peer, DstIP: local},
			UDP:      &layers.UDP{SrcPort: 1701, DstPort: 1701},
		}
		pkt.UDP.Payload = wire
		return c.Dispatch(pkt)
	}
	body := l2tppkt.BuildSCCRQ(l2tppkt.SCCRQParams{HostName: "lac", LocalTunnelID: 99, ReceiveWindowSize: 16, FramingCaps: 3})
	if err := dispatch(0, 0, 0, body); err != nil {
		return "sccrq-failed"
	}
	var t *Tunnel
	c.mu.RLock()
	for _, x := range c.tunnels {
		t = x
	}
	c.mu.RUnlock()
	if t == nil {
		return "no-tunnel"
	}
	_ = dispatch(t.LocalID, 1, 1, l2tppkt.BuildSCCCN(nil))
	time.Sleep(time.Duration(gap) * time.Millisecond)
	_ = dispatch(t.LocalID, 2, 1, l2tppkt.BuildHello())
	res := "acked=0"
	select {
	case <-acked:
		res = "acked=1"
	case <-time.After(1500 * time.Millisecond):
	}
	c.stopTunnelRunner(t.PeerIP, t.LocalID)
	return "idle " + res
}

// runner <watch_ms> <at_ms>:<ev>...: the REAL runner loop with its real timers against a scripted peer.
// At 0 the peer's SCCRQ is dispatched (tunnel, channel, runner goroutine; SCCRP sent).  Each event is
// dispatched at its offset: scccn (Ns in order, acknowledges the SCCRP), hello (in order, acknowledges nothing
// new), icrq (in order; we answer with an ICRP), ack (ZLB acknowledging everything we have sent).  Every
// packet the tunnel writes is recorded with its time: "<d|z><ns>.<nr>@<ms>".  The model driver replays the
// script against runner_next and accepts the observed times within a tolerance (MODEL_NEEDS_IMPL).
// All runner cases of a run are started together (they only sleep), see TestVerifC16Dispatch.
func vfRunnerCase(f []string) string {
	n := func(s string) int { v, _ := strconv.Atoi(s); return v }
	watch := n(f[0])
	c := New(logger.Get("l2tp"))
	peer := net.IPv4(10, 0, 0, 2).To4()
	local := net.IPv4(10, 0, 0, 1).To4()
	var mu sync.Mutex
	var log []string
	var lastNs uint16
	var start time.Time
	c.SetSendControlFn(func(localIP, peerIP net.IP, lp, pp uint16, h l2tppkt.Header, body []byte) error {
		ms := time.Since(start).Milliseconds()
		k := "d"
		if len(body) == 0 {
			k = "z"
		}
		mu.Lock()
		log = append(log, fmt.Sprintf("%s%d.%d@%d", k, h.Ns, h.Nr, ms))
		if len(body) > 0 && h.Ns+1 > lastNs {
			lastNs = h.Ns + 1
		}
		mu.Unlock()
		return nil
	})
	c.SetLNSConfigResolver(func(string) (LNSConfig, bool) {
		return LNSConfig{LocalHostname: "lns", ReceiveWindowSize: 16, HelloInterval: time.Hour}, true
	})
	dispatch := func(tid, ns, nr uint16, body []byte) error {
		h := l2tppkt.NewControl(tid, 0, ns, nr)
		wire := append(h.AppendTo(nil, len(body)), body...)
		pkt := &dataplane.ParsedPacket{
			Protocol: models.ProtocolL2TP,
			IPv4:     &layers.IPv4{SrcIP: peer, DstIP: local},
			UDP:      &layers.UDP{SrcPort: 1701, DstPort: 1701},
		}
		pkt.UDP.Payload = wire
		return c.Dispatch(pkt)
	}
	body := l2tppkt.BuildSCCRQ(l2tppkt.SCCRQParams{HostName: "lac", LocalTunnelID: 99, ReceiveWindowSize: 16, FramingCaps: 3})
	start = time.Now()
	if err := dispatch(0, 0, 0, body); err != nil {
		return "sccrq-failed"
	}
	var t *Tunnel
	c.mu.RLock()
	for _, x := range c.tunnels {
		t = x
	}
	c.mu.RUnlock()
	if t == nil {
		return "no-tunnel"
	}
	peerNs, acked := uint16(1), uint16(1) // peer's next Ns; Nr the peer tells us
	for _, ev := range f[1:] {
		a := strings.SplitN(ev, ":", 2)
		if len(a) != 2 {
			continue
		}
		time.Sleep(time.Until(start.Add(time.Duration(n(a[0])) * time.Millisecond)))
		switch a[1] {
		case "scccn":
			_ = dispatch(t.LocalID, peerNs, acked, l2tppkt.BuildSCCCN(nil))
			peerNs++
		case "hello":
			_ = dispatch(t.LocalID, peerNs, acked, l2tppkt.BuildHello())
			peerNs++
		case "icrq":
			_ = dispatch(t.LocalID, peerNs, acked, l2tppkt.BuildICRQ(l2tppkt.ICRQParams{LocalSessionID: 77 + peerNs, CallSerialNumber: 1}))
			peerNs++
		case "ack":
			mu.Lock()
			acked = lastNs
			mu.Unlock()
			_ = dispatch(t.LocalID, peerNs, acked, nil)
		}
	}
	time.Sleep(time.Until(start.Add(time.Duration(watch) * time.Millisecond)))
	c.stopTunnelRunner(t.PeerIP, t.LocalID)
	mu.Lock()
	defer mu.Unlock()
	return "runner " + strings.Join(log, " ")
}

// estab <lns|lac> <step>...: a complete control connection through the real Dispatch and the real handlers, with
// LATE COPIES.  Steps (peer -> us, Ns taken in order, Nr = everything we have sent so far):
//   lns: sccrq scccn icrq iccn hello cdn stop        lac: sccrp icrp hello cdn stop   (lac starts with StartLACSession)
//   r<k>: the wire bytes of the k-th peer message of this case once more (a duplicate the network delayed)
// After every step: T<tunnels registered> S<sessions in them> D<distinct non-ZLB messages we have written>.
// Exactly-once delivery to the protocol machine = a late copy changes none of the three.
func vfEstabCase(f []string) string {
	c := New(logger.Get("l2tp"))
	peer := net.IPv4(10, 0, 0, 2).To4()
	local := net.IPv4(10, 0, 0, 1).To4()
	var mu sync.Mutex
	seen := map[string]bool{}
	var lastNs uint16
	c.SetSendControlFn(func(localIP, peerIP net.IP, lp, pp uint16, h l2tppkt.Header, body []byte) error {
		if len(body) == 0 || !h.IsControl { // ZLBs and PPP data frames (LCP started by ICCN) are not counted
			return nil
		}
		mu.Lock()
		seen[fmt.Sprintf("%d/%x", h.Ns, body)] = true
		if h.Ns+1 > lastNs {
			lastNs = h.Ns + 1
		}
		mu.Unlock()
		return nil
	})
	c.SetLNSConfigResolver(func(string) (LNSConfig, bool) {
		return LNSConfig{LocalHostname: "lns", ReceiveWindowSize: 16, HelloInterval: time.Hour}, true
	})
	defer func() {
		c.mu.RLock()
		var ts []*Tunnel
		for _, x := range c.tunnels {
			ts = append(ts, x)
		}
		var rs []*tunnelRunner
		for _, r := range c.runners {
			rs = append(rs, r)
		}
		c.mu.RUnlock()
		for _, r := range rs {
			r.Stop()
		}
		_ = ts
	}()
	var wires [][]byte
	send := func(wire []byte) {
		pkt := &dataplane.ParsedPacket{
			Protocol: models.ProtocolL2TP,
			IPv4:     &layers.IPv4{SrcIP: peer, DstIP: local},
			UDP:      &layers.UDP{SrcPort: 1701, DstPort: 1701},
		}
		pkt.UDP.Payload = wire
		_ = c.Dispatch(pkt)
	}
	ourTunnel := func() uint16 { // the local id of the (first) tunnel of this control connection
		c.mu.RLock()
		defer c.mu.RUnlock()
		id := uint16(0)
		for _, x := range c.tunnels {
			if id == 0 || x.LocalID < id {
				id = x.LocalID
			}
		}
		return id
	}
	state := func() string {
		c.mu.RLock()
		nt, ns := len(c.tunnels), 0
		var ts []*Tunnel
		for _, x := range c.tunnels {
			ts = append(ts, x)
		}
		c.mu.RUnlock()
		for _, x := range ts {
			x.mu.Lock()
			ns += len(x.Sessions)
			x.mu.Unlock()
		}
		mu.Lock()
		nd := len(seen)
		mu.Unlock()
		return fmt.Sprintf("T%dS%dD%d", nt, ns, nd)
	}
	var out []string
	peerNs := uint16(0)
	tid := uint16(0)
	if f[0] == "lac" {
		if err := c.StartLACSession(LACBringUpRequest{PPPoESessionID: 7, LocalIP: local,
			TunnelSpecs: []TunnelSpec{{ServerIP: peer}}}); err != nil {
			return "lac-start-failed"
		}
		tid = ourTunnel()
		out = append(out, state())
	}
	for _, st := range f[1:] {
		if len(st) > 1 && st[0] == 'r' {
			k, _ := strconv.Atoi(st[1:])
			if k < len(wires) {
				send(wires[k])
			}
			out = append(out, state())
			continue
		}
		var body []byte
		sid := uint16(0)
		switch st {
		case "sccrq":
			body = l2tppkt.BuildSCCRQ(l2tppkt.SCCRQParams{HostName: "lac", LocalTunnelID: 99, ReceiveWindowSize: 16, FramingCaps: 3})
		case "sccrp":
			body = l2tppkt.BuildSCCRP(l2tppkt.SCCRPParams{LocalTunnelID: 99, ReceiveWindowSize: 16, HostName: "lns", FramingCaps: 3})
		case "scccn":
			body = l2tppkt.BuildSCCCN(nil)
		case "icrq":
			body = l2tppkt.BuildICRQ(l2tppkt.ICRQParams{LocalSessionID: 70 + peerNs, CallSerialNumber: uint32(peerNs)})
		case "icrp":
			body = l2tppkt.BuildICRP(l2tppkt.ICRPParams{LocalSessionID: 50})
			sid = 1
		case "iccn":
			body = l2tppkt.BuildICCN(l2tppkt.ICCNParams{TxConnectSpeed: 1000, Framing: 1})
			sid = 1
		case "cdn":
			body = l2tppkt.BuildCDN(50, 1, 0, "")
			sid = 1
		case "hello":
			body = l2tppkt.BuildHello()
		case "stop":
			body = l2tppkt.BuildStopCCN(99, 1, 0, "")
		default:
			out = append(out, "badstep")
			continue
		}
		mu.Lock()
		nr := lastNs
		mu.Unlock()
		hdrTid := tid
		if st == "sccrq" {
			hdrTid = 0
		}
		h := l2tppkt.NewControl(hdrTid, sid, peerNs, nr)
		wire := append(h.AppendTo(nil, len(body)), body...)
		wires = append(wires, wire)
		peerNs++
		send(wire)
		if tid == 0 {
			tid = ourTunnel()
		}
		out = append(out, state())
	}
	return "estab " + strings.Join(out, " ")
}

// e2e <fault>...: TWO real Components — a LAC (StartLACSession) and an LNS — joined by a harness network carrying the
// real wire bytes both ways through both real Dispatch functions, real runners, real timers.  Faults address the
// k-th control packet (ZLBs and retransmissions count) of a direction (a = LAC->LNS, b = LNS->LAC):
//   x<dir><k> drop it, u<dir><k> deliver it twice, l<dir><k> deliver it 300 ms late (reordering),
//   v<dir><k> deliver it now AND a copy 300 ms late (duplicate + delay), X<dir><k> lose every packet from the k-th on
//   (the retransmissions run out: the dead callback of startTunnelRunner must unregister the tunnel).
//   f<dir><k>: the k-th WRITE ATTEMPT of that side's transport returns an error (runner.sendBody -> channel); k counts
//   attempts, the other kinds count the writes that succeeded.
// The bring-up is SCCRQ / SCCRP / SCCCN+ICRQ / ICRP / ICCN.  Result after the exchange has settled (both sessions
// established and 700 ms of quiet, or 7 s): tunnels and sessions on each side and whether both sessions reached
// Established — exactly-once delivery means exactly one tunnel and one session per side whatever the network did.
func vfE2ECase(f []string) string {
	waitMs := 7000
	if len(f) > 0 && strings.HasPrefix(f[0], "w") { // w<ms>: how long this case waits for both sessions
		if v, err := strconv.Atoi(f[0][1:]); err == nil {
			waitMs = v
		}
		f = f[1:]
	}
	lacIP := net.IPv4(10, 0, 0, 1).To4()
	lnsIP := net.IPv4(10, 0, 0, 2).To4()
	type fault struct{ drop, dup, late, lateDup, fail bool }
	faults := map[string]fault{}
	dropFrom := map[string]int{} // X<dir><k>: every packet of that direction from the k-th on is lost (the link is cut)
	for _, t := range f {
		if len(t) >= 3 && t[0] == 'X' {
			if v, err := strconv.Atoi(t[2:]); err == nil {
				dropFrom[t[1:2]] = v
			}
			continue
		}
		if len(t) < 3 {
			continue
		}
		key := t[1:]
		fl := faults[key]
		switch t[0] {
		case 'x':
			fl.drop = true
		case 'u':
			fl.dup = true
		case 'l':
			fl.late = true
		case 'v':
			fl.lateDup = true
		case 'f':
			ff := faults["F"+key]
			ff.fail = true
			faults["F"+key] = ff
			continue
		}
		faults[key] = fl
	}
	lac := New(logger.Get("l2tp"))
	lns := New(logger.Get("l2tp"))
	stop := make(chan struct{})
	link := func(dir string, from, to net.IP, dst *Component) (SendControlFn, chan []byte) {
		ch := make(chan []byte, 256)
		var mu sync.Mutex
		count, tries := 0, 0
		deliver := func(wire []byte) {
			pkt := &dataplane.ParsedPacket{
				Protocol: models.ProtocolL2TP,
				IPv4:     &layers.IPv4{SrcIP: from, DstIP: to},
				UDP:      &layers.UDP{SrcPort: 1701, DstPort: 1701},
			}
			pkt.UDP.Payload = wire
			_ = dst.Dispatch(pkt)
		}
		go func() { // one consumer per direction, like the punt consumer: in-order unless a fault says otherwise
			for {
				select {
				case <-stop:
					return
				case w := <-ch:
					deliver(w)
				}
			}
		}()
		fn := func(localIP, peerIP net.IP, lp, pp uint16, h l2tppkt.Header, body []byte) error {
			if !h.IsControl {
				return nil // PPP data frames are not part of the control connection
			}
			wire := append(h.AppendTo(nil, len(body)), body...)
			mu.Lock()
			a := tries
			tries++
			if faults[fmt.Sprintf("%s%d", "F"+dir, a)].fail {
				mu.Unlock()
				return errors.New("verif: transport write failed")
			}
			k := count
			count++
			mu.Unlock()
			fl := faults[fmt.Sprintf("%s%d", dir, k)]
			if from, ok := dropFrom[dir]; ok && k >= from {
				fl = fault{drop: true}
			}
			if fl.lateDup && !fl.drop {
				cp := append([]byte(nil), wire...)
				go func() {
					select {
					case <-stop:
					case <-time.After(300 * time.Millisecond):
						select {
						case ch <- cp:
						case <-stop:
						}
					}
				}()
			}
			switch {
			case fl.drop:
			case fl.late:
				go func() {
					select {
					case <-stop:
					case <-time.After(300 * time.Millisecond):
						select {
						case ch <- wire:
						case <-stop:
						}
					}
				}()
			default:
				select {
				case ch <- wire:
				default:
				}
				if fl.dup {
					select {
					case ch <- append([]byte(nil), wire...):
					default:
					}
				}
			}
			return nil
		}
		return fn, ch
	}
	toLNS, _ := link("a", lacIP, lnsIP, lns)
	toLAC, _ := link("b", lnsIP, lacIP, lac)
	lac.SetSendControlFn(toLNS)
	lns.SetSendControlFn(toLAC)
	lns.SetLNSConfigResolver(func(string) (LNSConfig, bool) {
		return LNSConfig{LocalHostname: "lns", ReceiveWindowSize: 4, HelloInterval: time.Hour}, true
	})
	count := func(c *Component) (int, int, bool) {
		c.mu.RLock()
		var ts []*Tunnel
		for _, x := range c.tunnels {
			ts = append(ts, x)
		}
		c.mu.RUnlock()
		ns, est := 0, false
		for _, x := range ts {
			x.mu.Lock()
			for _, s := range x.Sessions {
				ns++
				if s.FSM != nil && s.FSM.State() == l2tppkt.SessionEstablished {
					est = true
				}
			}
			x.mu.Unlock()
		}
		return len(ts), ns, est
	}
	if err := lac.StartLACSession(LACBringUpRequest{PPPoESessionID: 7, LocalIP: lacIP,
		TunnelSpecs: []TunnelSpec{{ServerIP: lnsIP}}}); err != nil {
		// the LAC gave up at once (its SCCRQ could not be written): report the state like any other outcome
		_ = err
	}
	deadline := time.Now().Add(time.Duration(waitMs) * time.Millisecond)
	settledAt := time.Time{}
	for time.Now().Before(deadline) {
		_, _, e1 := count(lac)
		_, _, e2 := count(lns)
		if e1 && e2 {
			if settledAt.IsZero() {
				settledAt = time.Now()
			}
			if time.Since(settledAt) > 700*time.Millisecond {
				break
			}
		}
		time.Sleep(20 * time.Millisecond)
	}
	t1, s1, e1 := count(lac)
	t2, s2, e2 := count(lns)
	close(stop)
	for _, c := range []*Component{lac, lns} {
		c.mu.RLock()
		var rs []*tunnelRunner
		for _, r := range c.runners {
			rs = append(rs, r)
		}
		c.mu.RUnlock()
		for _, r := range rs {
			r.Stop()
		}
	}
	b := func(x bool) int {
		if x {
			return 1
		}
		return 0
	}
	seq := func(c *Component) string { // Ns/Nr of the (first) tunnel's channel: how many messages went each way
		c.mu.RLock()
		defer c.mu.RUnlock()
		for _, x := range c.tunnels {
			if x.Channel != nil {
				return fmt.Sprintf("%d/%d", x.Channel.Ns(), x.Channel.Nr())
			}
		}
		return "-"
	}
	q1, q2 := seq(lac), seq(lns)
	return fmt.Sprintf("e2e lac=T%dS%d,%s lns=T%dS%d,%s est=%d%d", t1, s1, q1, t2, s2, q2, b(e1), b(e2))
}

// watchdog budget of a case: 20 s, plus the wait a real-time e2e case asks for
func vfBudget(line string) time.Duration {
	f := strings.Fields(line)
	if len(f) >= 2 && f[0] == "e2e" && strings.HasPrefix(f[1], "w") {
		if v, err := strconv.Atoi(f[1][1:]); err == nil {
			return time.Duration(v)*time.Millisecond + 20*time.Second
		}
	}
	return 20 * time.Second
}

// multi <op>...: SEVERAL control connections in one LNS Component, with keys that differ in exactly one component:
// peers A=10.0.0.2 B=10.0.0.3 C=10.0.1.2 D=10.1.0.2 E=11.0.0.2, peer-assigned tunnel ids 99, 355 (same low byte), 25443.
// (Our local tunnel ids are allocated per peer, so tunnels of different peers share local ids.)
//   q:<peer>:<aid>        SCCRQ (first or a copy: Ns 0) from that peer with that Assigned Tunnel ID
//   h:<peer>:<aid>        the next in-order Hello of that control connection (header: our local id, source: that peer)
//   i:<peer>:<aid>        the next in-order ICRQ (opens a session);   c:<peer>:<aid>:<sid>  CDN for our session <sid>
//   s:<peer>:<aid>        the next in-order StopCCN
//   w:<peer>:<aid>:<src>  the next Hello of that connection but arriving from source <src> (must not reach it)
// After every op: every registered tunnel as peerIP/peerTunnelID/localID:Nr{session ids}, sorted.
func vfMultiCase(f []string) string {
	c := New(logger.Get("l2tp"))
	local := net.IPv4(10, 0, 0, 1).To4()
	peers := map[string]net.IP{"A": net.IPv4(10, 0, 0, 2).To4(), "B": net.IPv4(10, 0, 0, 3).To4(), "C": net.IPv4(10, 0, 1, 2).To4(),
		"D": net.IPv4(10, 1, 0, 2).To4(), "E": net.IPv4(11, 0, 0, 2).To4()}
	c.SetSendControlFn(func(localIP, peerIP net.IP, lp, pp uint16, h l2tppkt.Header, body []byte) error { return nil })
	c.SetLNSConfigResolver(func(string) (LNSConfig, bool) {
		return LNSConfig{LocalHostname: "lns", ReceiveWindowSize: 16, HelloInterval: time.Hour}, true
	})
	defer func() {
		c.mu.RLock()
		var rs []*tunnelRunner
		for _, r := range c.runners {
			rs = append(rs, r)
		}
		c.mu.RUnlock()
		for _, r := range rs {
			r.Stop()
		}
	}()
	send := func(src net.IP, tid, sid, ns uint16, body []byte) {
		h := l2tppkt.NewControl(tid, sid, ns, 0)
		wire := append(h.AppendTo(nil, len(body)), body...)
		pkt := &dataplane.ParsedPacket{
			Protocol: models.ProtocolL2TP,
			IPv4:     &layers.IPv4{SrcIP: src, DstIP: local},
			UDP:      &layers.UDP{SrcPort: 1701, DstPort: 1701},
		}
		pkt.UDP.Payload = wire
		_ = c.Dispatch(pkt)
	}
	find := func(peer net.IP, aid uint16) *Tunnel {
		c.mu.RLock()
		defer c.mu.RUnlock()
		for _, t := range c.tunnels {
			if t.PeerID == aid && t.PeerIP.Equal(peer) {
				return t
			}
		}
		return nil
	}
	state := func() string {
		c.mu.RLock()
		var ts []*Tunnel
		for _, t := range c.tunnels {
			ts = append(ts, t)
		}
		c.mu.RUnlock()
		var l []string
		for _, t := range ts {
			t.mu.Lock()
			var ids []int
			for id := range t.Sessions {
				ids = append(ids, int(id))
			}
			t.mu.Unlock()
			sort.Ints(ids)
			var is []string
			for _, x := range ids {
				is = append(is, strconv.Itoa(x))
			}
			nr := -1
			if t.Channel != nil {
				nr = int(t.Channel.Nr())
			}
			l = append(l, fmt.Sprintf("%s/%d/%d:%d{%s}", t.PeerIP.String(), t.PeerID, t.LocalID, nr, strings.Join(is, ",")))
		}
		sort.Strings(l)
		if len(l) == 0 {
			return "-"
		}
		return strings.Join(l, ";")
	}
	next := map[string]uint16{} // the peer's next Ns per control connection
	var out []string
	for _, op := range f {
		a := strings.Split(op, ":")
		if len(a) < 3 || peers[a[1]] == nil {
			out = append(out, "badop")
			continue
		}
		peer := peers[a[1]]
		aidv, _ := strconv.Atoi(a[2])
		aid := uint16(aidv)
		key := a[1] + ":" + a[2]
		t := find(peer, aid)
		tid := uint16(0)
		if t != nil {
			tid = t.LocalID
		}
		switch a[0] {
		case "q":
			send(peer, 0, 0, 0, l2tppkt.BuildSCCRQ(l2tppkt.SCCRQParams{HostName: "lac", LocalTunnelID: aid, ReceiveWindowSize: 16, FramingCaps: 3}))
			if next[key] == 0 {
				next[key] = 1
			}
		case "h", "i", "s", "c", "w":
			if t == nil {
				out = append(out, state())
				continue
			}
			src := peer
			var body []byte
			sid := uint16(0)
			switch a[0] {
			case "h", "w":
				body = l2tppkt.BuildHello()
				if a[0] == "w" && len(a) == 4 && peers[a[3]] != nil {
					src = peers[a[3]]
				}
			case "i":
				body = l2tppkt.BuildICRQ(l2tppkt.ICRQParams{LocalSessionID: 70 + next[key], CallSerialNumber: 1})
			case "s":
				body = l2tppkt.BuildStopCCN(aid, 1, 0, "")
			case "c":
				if len(a) == 4 {
					v, _ := strconv.Atoi(a[3])
					sid = uint16(v)
				}
				body = l2tppkt.BuildCDN(50, 1, 0, "")
			}
			send(src, tid, sid, next[key], body)
			if a[0] != "w" {
				next[key]++
			}
		default:
			out = append(out, "badop")
			continue
		}
		out = append(out, state())
	}
	return "multi " + strings.Join(out, " ")
}

func vfDispGuard(line string) string {
	done := make(chan string, 1)
	go func() {
		defer func() {
			if r := recover(); r != nil {
				done <- "panic " + strings.ReplaceAll(fmt.Sprint(r), " ", "_")
			}
		}()
		f := strings.Fields(line)
		if len(f) >= 2 && f[0] == "disp" {
			done <- vfDispCase(f[1:])
		} else if len(f) >= 2 && f[0] == "multi" {
			done <- vfMultiCase(f[1:])
		} else if len(f) >= 1 && f[0] == "e2e" {
			done <- vfE2ECase(f[1:])
		} else if len(f) >= 2 && f[0] == "estab" {
			done <- vfEstabCase(f[1:])
		} else if len(f) >= 2 && f[0] == "runner" {
			done <- vfRunnerCase(f[1:])
		} else if len(f) == 2 && f[0] == "idle" {
			done <- vfIdleCase(f[1:])
		} else if len(f) == 1 && f[0] == "sccrqdup" {
			done <- vfSccrqDupCase()
		} else if len(f) == 1 && f[0] == "stopccn" {
			done <- vfStopCCNCase()
		} else if len(f) == 2 && f[0] == "overlap" {
			done <- vfOverlapCase(f[1])
		} else if len(f) == 5 && f[0] == "rws" {
			done <- vfRwsCase(f[1:])
		} else if len(f) >= 3 && f[0] == "full" {
			done <- vfFullCase(f[1:])
		} else if len(f) == 3 && f[0] == "sccrq" {
			done <- vfSccrqCase(f[1:])
		} else {
			done <- "badline"
		}
	}()
	select {
	case r := <-done:
		return r
	case <-time.After(vfBudget(line)):
		return "hang"
	}
}

func TestVerifC16Dispatch(t *testing.T) {
	in, err := os.Open(os.Getenv("VERIF_CASES"))
	if err != nil {
		t.Fatal(err)
	}
	defer in.Close()
	out, err := os.Create(os.Getenv("VERIF_OUT"))
	if err != nil {
		t.Fatal(err)
	}
	defer out.Close()
	w := bufio.NewWriter(out)
	defer w.Flush()
	sc := bufio.NewScanner(in)
	sc.Buffer(make([]byte, 1<<20), 1<<26)
	var lines []string
	for sc.Scan() {
		if strings.TrimSpace(sc.Text()) != "" {
			lines = append(lines, sc.Text())
		}
	}
	// the real-time runner cases only sleep: run them all at once, before the CPU-bound cases
	pre := map[int]chan string{}
	for i, l := range lines {
		if strings.HasPrefix(l, "runner ") || strings.HasPrefix(l, "overlap ") || strings.HasPrefix(l, "e2e") {
			ch := make(chan string, 1)
			pre[i] = ch
			go func(l string) { ch <- vfDispGuard(l) }(l)
		}
	}
	res := map[int]string{}
	for i, ch := range pre {
		res[i] = <-ch
	}
	for i, l := range lines {
		if r, ok := res[i]; ok {
			fmt.Fprintln(w, r)
		} else {
			fmt.Fprintln(w, vfDispGuard(l))
		}
	}
}
