//go:build verif

package l2tp

// C16 harness: two real ControlChannels joined by a harness network.  Every packet a
// channel passes to its send callback is logged; the case decides which logged packets
// reach the other side, when, and how often.  Inbound packets are fed to the channel by
// the rule of internal/l2tp/dispatch.go (replicated in vfDispatch; the internal/l2tp
// harness checks the real Dispatch against the same model).

import (
	"bufio"
	"fmt"
	"os"
	"strconv"
	"strings"
	"testing"
	"time"
)

type vfPkt struct {
	fail bool // the send callback returned an error for this write
	zlb  bool
	body string
	sid  uint16
	ns   uint16
	nr   uint16
}

type vfEnd struct {
	ch    *ControlChannel
	sent  []vfPkt        // writes that succeeded (what the network can carry)
	tried []vfPkt        // every write of the current operation, failed ones included
	wr    int            // writes issued during the current operation
	fail  map[int]bool   // which of them fail
	nsub  int
	del   []string
	acked []int
	dead  int
}

var vfBase = time.Unix(1000000, 0)

var errVfWrite = fmt.Errorf("verif: transport write failed")

func vfAt(ms int64) time.Time { return vfBase.Add(time.Duration(ms) * time.Millisecond) }

func vfNew(f []string, ns0, nr0 int) *vfEnd {
	e := &vfEnd{}
	n := func(s string) int64 { v, _ := strconv.ParseInt(s, 10, 64); return v }
	cfg := Config{
		RTOInitial: time.Duration(n(f[0])) * time.Millisecond,
		RTOMax:     time.Duration(n(f[1])) * time.Millisecond,
		MaxRetries: int(n(f[2])),
		ZLBDelay:   time.Duration(n(f[3])) * time.Millisecond,
		PeerRWS:    int(n(f[4])),
	}
	e.ch = NewControlChannel(cfg, func(body []byte, sessionID, ns, nr uint16) error {
		p := vfPkt{zlb: len(body) == 0, body: string(body), sid: sessionID, ns: ns, nr: nr}
		idx := e.wr
		e.wr++
		if e.fail[idx] {
			p.fail = true
			e.tried = append(e.tried, p)
			return errVfWrite
		}
		e.tried = append(e.tried, p)
		e.sent = append(e.sent, p)
		return nil
	}, func() { e.dead++ })
	e.ch.ns = uint16(ns0)
	e.ch.nr = uint16(nr0)
	return e
}

func vfPkts(l []vfPkt) string {
	var s []string
	for _, p := range l {
		b := p.body
		if p.zlb {
			b = "z"
		}
		if p.fail {
			b = "!" + b
		}
		s = append(s, fmt.Sprintf("%s.%d.%d.%d", b, p.sid, p.ns, p.nr))
	}
	return "[" + strings.Join(s, ",") + "]"
}

func (e *vfEnd) state() string {
	infl := 0
	for i := range e.ch.queue {
		if e.ch.queue[i].attempts > 0 {
			infl++
		}
	}
	z := "z"
	if !e.ch.zlbDeadline.IsZero() {
		z = strconv.FormatInt(e.ch.zlbDeadline.Sub(vfBase).Milliseconds(), 10)
	}
	return fmt.Sprintf("%d,%d,%d,%d,%d,%d,%s", e.ch.ns, e.ch.nr, e.ch.cwnd, e.ch.ssthresh, len(e.ch.queue), infl, z)
}

// the dispatch rule of internal/l2tp/dispatch.go: a ZLB (no AVPs) only acknowledges (RecvZLB), every other
// message goes through Recv and is handed to the protocol machine iff accepted.  (The type assertion keeps
// the harness compiling against trees that predate RecvZLB; there a ZLB went through Recv.)
func vfDispatch(e *vfEnd, p vfPkt, now time.Time) (handed bool) {
	before := len(e.ch.queue)
	defer func() {
		after := len(e.ch.queue)
		for i := 0; i < before-after; i++ {
			e.acked = append(e.acked, e.nsub-before+i)
		}
	}()
	if p.zlb {
		if a, ok := interface{}(e.ch).(interface {
			RecvZLB(nr uint16, now time.Time)
		}); ok {
			a.RecvZLB(p.nr, now)
			return false
		}
		_, _ = e.ch.Recv(p.ns, p.nr, now)
		return false
	}
	accept, err := e.ch.Recv(p.ns, p.nr, now)
	if err != nil || !accept {
		return false
	}
	e.del = append(e.del, p.body)
	return true
}

func vfRunPair(f []string) string {
	n := func(s string) int { v, _ := strconv.Atoi(s); return v }
	oa, ob := n(f[0]), n(f[1])
	ends := map[byte]*vfEnd{'A': vfNew(f[2:7], oa, ob), 'B': vfNew(f[7:12], ob, oa)}
	transit := map[byte][]int{'A': nil, 'B': nil} // towards X: indices into the peer's sent log
	other := func(x byte) byte {
		if x == 'A' {
			return 'B'
		}
		return 'A'
	}
	var out []string
	for _, op := range f[12:] {
		a := strings.Split(op, ":")
		if len(op) < 2 {
			out = append(out, "badop")
			continue
		}
		kind, x := op[0], op[1]
		e := ends[x]
		if e == nil {
			out = append(out, "badop")
			continue
		}
		before := len(e.sent)
		// optional trailing fault token f<i>[.<k>...]: which writes of this operation fail
		e.fail, e.wr, e.tried = map[int]bool{}, 0, nil
		if last := a[len(a)-1]; len(last) > 1 && last[0] == 'f' && kind != 'x' {
			for _, x := range strings.Split(last[1:], ".") {
				e.fail[n(x)] = true
			}
			a = a[:len(a)-1]
		}
		var obs string
		switch {
		case kind == 's' && len(a) == 4:
			sid := n(a[2])
			ns0, q0 := e.ch.ns, len(e.ch.queue)
			err := e.ch.SendSession([]byte(a[1]), uint16(sid), vfAt(int64(n(a[3]))))
			if err != nil && e.dead > 0 && e.ch.ns == ns0 && len(e.ch.queue) == q0 && len(e.tried) == 0 {
				// refused by a channel that has declared dead: not accepted for sending
				obs = "R"
			} else {
				e.nsub++
				obs = "S" + vfPkts(e.tried)
			}
		case (kind == 'd' || kind == 'u') && len(a) == 3:
			l := transit[x]
			if len(l) == 0 {
				out = append(out, "-")
				continue
			}
			k := n(a[1]) % len(l)
			idx := l[k]
			if kind == 'd' {
				transit[x] = append(append([]int{}, l[:k]...), l[k+1:]...)
			}
			p := ends[other(x)].sent[idx]
			h := vfDispatch(e, p, vfAt(int64(n(a[2]))))
			obs = "D" + map[bool]string{true: "1", false: "0"}[h] + map[bool]string{true: "z", false: "m"}[p.zlb] + vfPkts(e.tried)
		case kind == 'x' && len(a) == 2:
			l := transit[x]
			if len(l) == 0 {
				out = append(out, "-")
				continue
			}
			k := n(a[1]) % len(l)
			transit[x] = append(append([]int{}, l[:k]...), l[k+1:]...)
			out = append(out, "X")
			continue
		case kind == 'j' && len(a) == 6:
			p := vfPkt{zlb: a[1] == "z", body: a[1], sid: uint16(n(a[2])), ns: uint16(n(a[3])), nr: uint16(n(a[4]))}
			h := vfDispatch(e, p, vfAt(int64(n(a[5]))))
			obs = "D" + map[bool]string{true: "1", false: "0"}[h] + map[bool]string{true: "z", false: "m"}[p.zlb] + vfPkts(e.tried)
		case kind == 't' && len(a) == 2:
			d0 := e.dead
			ret := e.ch.Tick(vfAt(int64(n(a[1]))))
			r := "z"
			if !ret.IsZero() {
				r = strconv.FormatInt(ret.Sub(vfBase).Milliseconds(), 10)
			}
			dd := "."
			if e.dead != d0 {
				dd = "!"
			}
			obs = "T" + r + vfPkts(e.tried) + dd
		case kind == 'w' && len(a) == 2:
			e.ch.SetPeerWindow(n(a[1]))
			obs = "W"
		default:
			out = append(out, "badop")
			continue
		}
		for i := before; i < len(e.sent); i++ {
			transit[other(x)] = append(transit[other(x)], i)
		}
		out = append(out, obs+"/"+e.state())
	}
	ints := func(l []int) string {
		var s []string
		for _, v := range l {
			s = append(s, strconv.Itoa(v))
		}
		return strings.Join(s, ".")
	}
	A, B := ends['A'], ends['B']
	out = append(out, fmt.Sprintf("| delA=%s delB=%s ackA=%s ackB=%s deadA=%d deadB=%d",
		strings.Join(A.del, "."), strings.Join(B.del, "."), ints(A.acked), ints(B.acked), A.dead, B.dead))
	return strings.Join(out, " ")
}

func vfCase(line string) (res string) {
	done := make(chan string, 1)
	go func() {
		defer func() {
			if r := recover(); r != nil {
				done <- "panic " + strings.ReplaceAll(fmt.Sprint(r), " ", "_")
			}
		}()
		f := strings.Fields(line)
		switch {
		case len(f) >= 13 && f[0] == "pair":
			done <- vfRunPair(f[1:])
		case len(f) == 3 && f[0] == "seqless":
			a, _ := strconv.Atoi(f[1])
			b, _ := strconv.Atoi(f[2])
			if seqLess(uint16(a), uint16(b)) {
				done <- "1"
			} else {
				done <- "0"
			}
		default:
			done <- "badline"
		}
	}()
	select {
	case r := <-done:
		return r
	case <-time.After(20 * time.Second):
		return "hang"
	}
}

func TestVerifC16(t *testing.T) {
	in, err := os.Open(os.Getenv("VERIF_CASES"))
	if err != nil {
		t.Fatal(err)
	}
	defer in.Close()
	out, err := os.Create(os.Getenv("VERIF_OUT"))
	if err != nil {
		t.Fatal(err)
	}
	defer out.Close()
	w := bufio.NewWriter(out)
	defer w.Flush()
	sc := bufio.NewScanner(in)
	sc.Buffer(make([]byte, 1<<20), 1<<26)
	for sc.Scan() {
		if strings.TrimSpace(sc.Text()) == "" {
			continue
		}
		fmt.Fprintln(w, vfCase(sc.Text()))
	}
}
