//go:build verif

package l2gw

// C14, consumer side: the l2gw trigger path classifies a frame through ConfigManager.LookupSubscriberGroup and
// authenticates it with "the" AAA policy of that classification.  The harness drives the real handleTrigger /
// publishAAARequest with a configuration manager whose snapshot is the real subscriber.BuildMatchIndex, captures
// the AAA request published on the event bus and prints the group name and policy name the request carries.

import (
	"bufio"
	"fmt"
	"net"
	"os"
	"strconv"
	"strings"
	"testing"

	"github.com/veesix-networks/osvbng/pkg/component"
	"github.com/veesix-networks/osvbng/pkg/config"
	"github.com/veesix-networks/osvbng/pkg/config/subscriber"
	"github.com/veesix-networks/osvbng/pkg/dataplane"
	"github.com/veesix-networks/osvbng/pkg/events"
	"github.com/veesix-networks/osvbng/pkg/logger"
	"github.com/veesix-networks/osvbng/pkg/models"
)

func vlDecode(tok string) string {
	if tok == "e" {
		return ""
	}
	var sb strings.Builder
	for _, p := range strings.Split(tok, ".") {
		n, _ := strconv.Atoi(p)
		sb.WriteRune(rune(n))
	}
	return sb.String()
}

func vlEncode(s string) string {
	if s == "" {
		return "e"
	}
	parts := []string{}
	for _, r := range s {
		parts = append(parts, strconv.Itoa(int(r)))
	}
	return strings.Join(parts, ".")
}

// configuration manager as the component sees it: running config + the match-index snapshot built from it
type vlCfgMgr struct {
	cfg *config.Config
	idx *subscriber.MatchIndex
}

func (m *vlCfgMgr) GetRunning() (*config.Config, error) { return m.cfg, nil }
func (m *vlCfgMgr) GetStartup() (*config.Config, error) { return m.cfg, nil }
func (m *vlCfgMgr) LookupSubscriberGroup(s, c uint16) (subscriber.GroupMatch, bool) {
	return m.idx.Lookup(s, c)
}

type vlBus struct {
	events.Bus
	reqs []*events.AAARequestEvent
}

func (b *vlBus) Publish(topic string, ev events.Event) {
	if topic != events.TopicAAARequest {
		return
	}
	if d, ok := ev.Data.(*events.AAARequestEvent); ok {
		b.reqs = append(b.reqs, d)
	}
}

// access-types of a range: l = [l2gw], i = [ipoe], p = [pppoe], ip = [ipoe pppoe]
func vlAccess(tok string) []subscriber.AccessType {
	switch tok {
	case "l":
		return []subscriber.AccessType{subscriber.AccessTypeL2GW}
	case "i":
		return []subscriber.AccessType{subscriber.AccessTypeIPoE}
	case "p":
		return []subscriber.AccessType{subscriber.AccessTypePPPoE}
	case "ip":
		return []subscriber.AccessType{subscriber.AccessTypeIPoE, subscriber.AccessTypePPPoE}
	}
	return nil
}

// l2gw G {name gpol gacc R {sv cv rpol acc}}   gacc = l: group-level access-types [l2gw], - : none Q {s c}
func vlCase(f []string) (res string) {
	defer func() {
		if r := recover(); r != nil {
			res = strings.Join(strings.Fields(fmt.Sprintf("panic %.60v", r)), "_")
		}
	}()
	if f[0] != "l2gw" {
		return "badline"
	}
	ng, _ := strconv.Atoi(f[1])
	p := 2
	sg := &subscriber.SubscriberGroupsConfig{Groups: map[string]*subscriber.SubscriberGroup{}}
	for i := 0; i < ng; i++ {
		name := vlDecode(f[p])
		g := &subscriber.SubscriberGroup{AAAPolicy: vlDecode(f[p+1])}
		if f[p+2] == "l" {
			g.AccessTypes = []subscriber.AccessType{subscriber.AccessTypeL2GW}
		}
		nr, _ := strconv.Atoi(f[p+3])
		p += 4
		for j := 0; j < nr; j++ {
			vr := subscriber.VLANRange{SVLAN: vlDecode(f[p]), CVLAN: vlDecode(f[p+1]), AccessTypes: vlAccess(f[p+3])}
			if pol := vlDecode(f[p+2]); pol != "" {
				vr.AAA = &subscriber.VLANAAAs{Enabled: true, Policy: pol}
			}
			g.VLANs = append(g.VLANs, vr)
			p += 4
		}
		sg.Groups[name] = g
	}
	cfg := &config.Config{SubscriberGroups: sg}
	mgr := &vlCfgMgr{cfg: cfg, idx: subscriber.BuildMatchIndex(sg)}
	nq, _ := strconv.Atoi(f[p])
	p++
	var out []string
	for q := 0; q < nq; q++ {
		s, _ := strconv.Atoi(f[p])
		c, _ := strconv.Atoi(f[p+1])
		p += 2
		bus := &vlBus{}
		comp := &Component{Base: component.NewBase("l2gw"), logger: logger.Get(logger.L2GW), eventBus: bus, cfgMgr: mgr,
			allocators: map[string]*vlanAllocator{}, armedPorts: map[uint32]bool{}}
		pkt := &dataplane.ParsedPacket{Protocol: models.ProtocolL2, MAC: net.HardwareAddr{2, 0, 0, 0, 0, 1},
			OuterVLAN: uint16(s), InnerVLAN: uint16(c), SwIfIndex: 7}
		_ = comp.handleTrigger(pkt)
		switch len(bus.reqs) {
		case 0:
			out = append(out, "none")
		case 1:
			r := bus.reqs[0].Request
			// without a format policy the user name is "<group>.<svlan>.<cvlan>": the classification as the AAA server sees it
			want := fmt.Sprintf(".%d.%d", s, c)
			if !strings.HasSuffix(r.Username, want) || int(r.SVLAN) != s || int(r.CVLAN) != c {
				out = append(out, "BADREQUEST")
				continue
			}
			out = append(out, vlEncode(strings.TrimSuffix(r.Username, want))+":"+vlEncode(r.PolicyName))
		default:
			out = append(out, "MANYREQUESTS")
		}
	}
	return strings.Join(out, " ")
}

func TestVerifC14L2GW(t *testing.T) {
	in, err := os.Open(os.Getenv("VERIF_CASES"))
	if err != nil {
		t.Fatal(err)
	}
	defer in.Close()
	out, err := os.Create(os.Getenv("VERIF_OUT"))
	if err != nil {
		t.Fatal(err)
	}
	defer out.Close()
	w := bufio.NewWriter(out)
	defer w.Flush()
	sc := bufio.NewScanner(in)
	sc.Buffer(make([]byte, 1<<20), 1<<26)
	for sc.Scan() {
		f := strings.Fields(sc.Text())
		if len(f) == 0 {
			continue
		}
		fmt.Fprintln(w, vlCase(f))
	}
}
