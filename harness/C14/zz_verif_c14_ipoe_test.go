//go:build verif

package ipoe

// C14, consumer side: the ipoe component hands a DHCP frame to the l2gw component when the frame's classification is
// wholesale-switched (forwardToL2GW).  The harness calls the real forwardToL2GW with a configuration manager whose
// snapshot is the real subscriber.BuildMatchIndex and prints, per (S-VLAN, C-VLAN), whether the frame was handed over.

import (
	"bufio"
	"fmt"
	"net"
	"os"
	"strconv"
	"strings"
	"testing"

	"github.com/veesix-networks/osvbng/pkg/config"
	"github.com/veesix-networks/osvbng/pkg/config/subscriber"
	"github.com/veesix-networks/osvbng/pkg/dataplane"
)

func viDecode(tok string) string {
	if tok == "e" {
		return ""
	}
	var sb strings.Builder
	for _, p := range strings.Split(tok, ".") {
		n, _ := strconv.Atoi(p)
		sb.WriteRune(rune(n))
	}
	return sb.String()
}

type viCfgMgr struct {
	cfg *config.Config
	idx *subscriber.MatchIndex
}

func (m *viCfgMgr) GetRunning() (*config.Config, error) { return m.cfg, nil }
func (m *viCfgMgr) GetStartup() (*config.Config, error) { return m.cfg, nil }
func (m *viCfgMgr) LookupSubscriberGroup(s, c uint16) (subscriber.GroupMatch, bool) {
	return m.idx.Lookup(s, c)
}

func viAccess(tok string) []subscriber.AccessType {
	switch tok {
	case "l":
		return []subscriber.AccessType{subscriber.AccessTypeL2GW}
	case "i":
		return []subscriber.AccessType{subscriber.AccessTypeIPoE}
	case "p":
		return []subscriber.AccessType{subscriber.AccessTypePPPoE}
	case "ip":
		return []subscriber.AccessType{subscriber.AccessTypeIPoE, subscriber.AccessTypePPPoE}
	}
	return nil
}

// l2fw G {name gpol gacc R {sv cv rpol acc}}   gacc = l: group-level access-types [l2gw], - : none Q {s c}
func viCase(f []string) (res string) {
	defer func() {
		if r := recover(); r != nil {
			res = strings.Join(strings.Fields(fmt.Sprintf("panic %.60v", r)), "_")
		}
	}()
	if f[0] != "l2fw" {
		return "badline"
	}
	ng, _ := strconv.Atoi(f[1])
	p := 2
	sg := &subscriber.SubscriberGroupsConfig{Groups: map[string]*subscriber.SubscriberGroup{}}
	for i := 0; i < ng; i++ {
		name := viDecode(f[p])
		g := &subscriber.SubscriberGroup{AAAPolicy: viDecode(f[p+1])}
		if f[p+2] == "l" {
			g.AccessTypes = []subscriber.AccessType{subscriber.AccessTypeL2GW}
		}
		nr, _ := strconv.Atoi(f[p+3])
		p += 4
		for j := 0; j < nr; j++ {
			g.VLANs = append(g.VLANs, subscriber.VLANRange{SVLAN: viDecode(f[p]), CVLAN: viDecode(f[p+1]),
				AccessTypes: viAccess(f[p+3])})
			p += 4
		}
		sg.Groups[name] = g
	}
	mgr := &viCfgMgr{cfg: &config.Config{SubscriberGroups: sg}, idx: subscriber.BuildMatchIndex(sg)}
	nq, _ := strconv.Atoi(f[p])
	p++
	var out []string
	for q := 0; q < nq; q++ {
		s, _ := strconv.Atoi(f[p])
		c, _ := strconv.Atoi(f[p+1])
		p += 2
		ch := make(chan *dataplane.ParsedPacket, 4)
		comp := &Component{cfgMgr: mgr, l2gwChan: ch}
		pkt := &dataplane.ParsedPacket{MAC: net.HardwareAddr{2, 0, 0, 0, 0, 1}, OuterVLAN: uint16(s), InnerVLAN: uint16(c)}
		fwd := comp.forwardToL2GW(pkt)
		switch {
		case fwd && len(ch) == 1:
			out = append(out, "fwd")
		case !fwd && len(ch) == 0:
			out = append(out, "no")
		default:
			out = append(out, "INCONSISTENT")
		}
	}
	return strings.Join(out, " ")
}

func TestVerifC14IPoE(t *testing.T) {
	in, err := os.Open(os.Getenv("VERIF_CASES"))
	if err != nil {
		t.Fatal(err)
	}
	defer in.Close()
	out, err := os.Create(os.Getenv("VERIF_OUT"))
	if err != nil {
		t.Fatal(err)
	}
	defer out.Close()
	w := bufio.NewWriter(out)
	defer w.Flush()
	sc := bufio.NewScanner(in)
	sc.Buffer(make([]byte, 1<<20), 1<<26)
	for sc.Scan() {
		f := strings.Fields(sc.Text())
		if len(f) == 0 {
			continue
		}
		fmt.Fprintln(w, viCase(f))
	}
}
