//go:build verif

package configmgr

// C14 end to end through the configuration manager: a sequence of candidates is committed (the first one optionally
// through the start-up path LoadStartupConfig + ApplyLoadedConfig) while reader goroutines call the lock-free
// LookupSubscriberGroup.  Printed (deterministic): per candidate the verdict (nil-ness of the error), whether any handler
// was applied / rolled back for it, and the answers after the commit returned.
// Checked inside (run with -race): every concurrent answer is, as a whole GroupMatch (name, group pointer, range
// pointer), the answer of ONE accepted generation that was current at some moment of the call; per reader the
// generations never go backwards.

import (
	"bufio"
	"context"
	"fmt"
	"os"
	"path/filepath"
	"strconv"
	"strings"
	"sync"
	"sync/atomic"
	"testing"

	"github.com/veesix-networks/osvbng/pkg/config"
	"github.com/veesix-networks/osvbng/pkg/config/interfaces"
	"github.com/veesix-networks/osvbng/pkg/config/subscriber"
	conf "github.com/veesix-networks/osvbng/pkg/handlers/conf"
	"github.com/veesix-networks/osvbng/pkg/handlers/conf/paths"
)

// the handler records every call: a candidate that is rejected must not have reached any handler ("rejected BEFORE
// commit": Apply is what touches the data plane and the routing daemon)
type vcHandler struct {
	path      paths.Path
	applies   atomic.Int64
	rollbacks atomic.Int64
	failNext  atomic.Bool // fault plan: the next Apply fails
}

func (h *vcHandler) Validate(ctx context.Context, hctx *conf.HandlerContext) error { return nil }
func (h *vcHandler) Apply(ctx context.Context, hctx *conf.HandlerContext) error {
	h.applies.Add(1)
	if h.failNext.CompareAndSwap(true, false) {
		return fmt.Errorf("injected apply failure")
	}
	return nil
}
func (h *vcHandler) Rollback(ctx context.Context, hctx *conf.HandlerContext) error {
	h.rollbacks.Add(1)
	return nil
}
func (h *vcHandler) PathPattern() paths.Path    { return h.path }
func (h *vcHandler) Dependencies() []paths.Path { return nil }
func (h *vcHandler) Callbacks() *conf.Callbacks { return nil }

// handler calls since the last call of this function: "h0" none, "h+" applied and not rolled back,
// "hA<n>R<m>" anything else
func (h *vcHandler) delta(lastA, lastR *int64) string {
	a, r := h.applies.Load()-*lastA, h.rollbacks.Load()-*lastR
	*lastA, *lastR = h.applies.Load(), h.rollbacks.Load()
	switch {
	case a == 0 && r == 0:
		return "h0"
	case a > 0 && r == 0:
		return "h+"
	}
	return fmt.Sprintf("hA%dR%d", a, r)
}

func vcDecode(tok string) string {
	if tok == "e" {
		return ""
	}
	var sb strings.Builder
	for _, p := range strings.Split(tok, ".") {
		n, _ := strconv.Atoi(p)
		sb.WriteRune(rune(n))
	}
	return sb.String()
}

func vcEncode(s string) string {
	if s == "" {
		return "e"
	}
	parts := []string{}
	for _, r := range s {
		parts = append(parts, strconv.Itoa(int(r)))
	}
	return strings.Join(parts, ".")
}

type vcGroupSpec struct {
	name   string
	ranges [][2]string
}

func vcToken(sg *subscriber.SubscriberGroupsConfig, m subscriber.GroupMatch, ok bool) string {
	if !ok {
		return "none"
	}
	if sg == nil || sg.Groups[m.Name] != m.Group || m.Group == nil {
		return "FOREIGNGROUP"
	}
	for i := range m.Group.VLANs {
		if &m.Group.VLANs[i] == m.VR {
			return vcEncode(m.Name) + "#" + strconv.Itoa(i)
		}
	}
	return "FOREIGNRANGE"
}

type vcExpect struct {
	m  subscriber.GroupMatch
	ok bool
}

// cm <mode> <faults> <K> { <G> {<name> <R> {<sv> <cv>}} } <Q> {<s> <c>}      mode = commit | boot
// faults: one letter per candidate: - none, A the handler's Apply fails, S the startup file cannot be written (both AFTER
// the pre-commit validation: the commit fails, nothing is published).  The candidate session is kept after a commit that did
// not succeed and re-used for the next candidate (LoadConfig replaces its content), as an operator's session would be.
func vcCase(f []string, dir string) (res string) {
	defer func() {
		if r := recover(); r != nil {
			res = strings.Join(strings.Fields(fmt.Sprintf("panic %.80v", r)), "_")
		}
	}()
	if f[0] != "cm" {
		return "badline"
	}
	mode := f[1]
	faults := f[2]
	k, _ := strconv.Atoi(f[3])
	p := 4
	specs := make([][]vcGroupSpec, k)
	for g := 0; g < k; g++ {
		ng, _ := strconv.Atoi(f[p])
		p++
		for i := 0; i < ng; i++ {
			sp := vcGroupSpec{name: vcDecode(f[p])}
			nr, _ := strconv.Atoi(f[p+1])
			p += 2
			for j := 0; j < nr; j++ {
				sp.ranges = append(sp.ranges, [2]string{vcDecode(f[p]), vcDecode(f[p+1])})
				p += 2
			}
			specs[g] = append(specs[g], sp)
		}
	}
	nq, _ := strconv.Atoi(f[p])
	p++
	type pair struct{ s, c uint16 }
	var qs []pair
	for q := 0; q < nq; q++ {
		s, _ := strconv.Atoi(f[p])
		c, _ := strconv.Atoi(f[p+1])
		p += 2
		qs = append(qs, pair{uint16(s), uint16(c)})
	}

	cd := NewConfigManager()
	hnd := &vcHandler{path: "interfaces.<*>"}
	cd.registry.MustRegister(hnd)
	var lastA, lastR int64
	cd.startupConfigPath = filepath.Join(dir, "startup-config.yaml")
	cd.versionDir = filepath.Join(dir, "versions")
	cd.disableVersions = true

	// the candidates; generation 0 of mode boot comes from a YAML file, so its objects exist only after loading
	cfgs := make([]*config.Config, k)
	build := func(g int) *config.Config {
		sg := &subscriber.SubscriberGroupsConfig{Groups: map[string]*subscriber.SubscriberGroup{}}
		for _, sp := range specs[g] {
			grp := &subscriber.SubscriberGroup{}
			for _, r := range sp.ranges {
				grp.VLANs = append(grp.VLANs, subscriber.VLANRange{SVLAN: r[0], CVLAN: r[1],
					AccessTypes: []subscriber.AccessType{subscriber.AccessTypeIPoE}, ParentInterface: "eth1"})
			}
			sg.Groups[sp.name] = grp
		}
		return &config.Config{
			Interfaces:       map[string]*interfaces.InterfaceConfig{"eth1": {Name: "eth1", Enabled: true, MTU: 1500, Description: "gen" + strconv.Itoa(g)}},
			SubscriberGroups: sg,
		}
	}
	first := 0
	bootLeak := ""
	var out []string
	quiescent := func() string {
		run, _ := cd.GetRunning()
		var sg *subscriber.SubscriberGroupsConfig
		if run != nil {
			sg = run.SubscriberGroups
		}
		var a []string
		for _, q := range qs {
			m, ok := cd.LookupSubscriberGroup(q.s, q.c)
			a = append(a, vcToken(sg, m, ok))
		}
		return strings.Join(a, ",")
	}
	if mode == "boot" {
		// the start-up path, from a file: LoadStartupConfig (Config.Validate) + ApplyLoadedConfig (validateCandidate,
		// publication, commit of the loaded configuration)
		var y strings.Builder
		y.WriteString("interfaces:\n  eth1:\n    name: eth1\n    enabled: true\n    mtu: 1500\n    description: gen0\n")
		if len(specs[0]) > 0 {
			y.WriteString("subscriber-groups:\n  groups:\n")
			for _, sp := range specs[0] {
				fmt.Fprintf(&y, "    %s:\n      vlans:\n", strconv.Quote(sp.name))
				for _, r := range sp.ranges {
					fmt.Fprintf(&y, "        - svlan: %s\n          cvlan: %s\n          access-types: [ipoe]\n          parent-interface: eth1\n",
						strconv.Quote(r[0]), strconv.Quote(r[1]))
				}
			}
		}
		boot := filepath.Join(dir, "boot.yaml")
		os.WriteFile(boot, []byte(y.String()), 0644)
		// readers during start-up: whatever they see has to be either "nothing" (the empty initial configuration) or
		// the answer of the start-up configuration once it is accepted; a rejected start-up file must never answer
		seen := make([]map[string]bool, 3)
		var bootDone atomic.Bool
		var bwg sync.WaitGroup
		for r := 0; r < 3; r++ {
			seen[r] = map[string]bool{}
			bwg.Add(1)
			go func(r int) {
				defer bwg.Done()
				defer func() {
					if x := recover(); x != nil {
						seen[r][fmt.Sprintf("reader-panic:%.40v", x)] = true
					}
				}()
				for n := 0; !bootDone.Load() || n < len(qs); n++ {
					i := n % len(qs)
					m, ok := cd.LookupSubscriberGroup(qs[i].s, qs[i].c)
					t := "none"
					if ok {
						t = "FOREIGNRANGE"
						if m.Group != nil {
							for j := range m.Group.VLANs {
								if &m.Group.VLANs[j] == m.VR {
									t = vcEncode(m.Name) + "#" + strconv.Itoa(j)
								}
							}
						}
					}
					seen[r][strconv.Itoa(i)+"="+t] = true
				}
			}(r)
		}
		_, err := cd.LoadStartupConfig(boot)
		stage := "load"
		if err == nil {
			stage = "apply"
			err = cd.ApplyLoadedConfig()
		}
		bootDone.Store(true)
		bwg.Wait()
		final := strings.Split(quiescent(), ",")
		for r := range seen {
			for o := range seen[r] {
				kv := strings.SplitN(o, "=", 2)
				i, _ := strconv.Atoi(kv[0])
				if len(kv) != 2 || (kv[1] != "none" && (err != nil || kv[1] != final[i])) {
					bootLeak = "BOOT-PUBLISHED-BEFORE-VALIDATED:" + o
				}
			}
		}
		// verdict by nil-ness only (no error text): an error at either stage is a rejection; a configuration that the
		// validator itself accepts must not fail to start
		v := "valid"
		if err != nil {
			v = "rejected"
			if stage == "apply" {
				if st, _ := cd.GetStartup(); st != nil && subscriber.ValidateMatchIndex(st.SubscriberGroups) == nil {
					v = "ERROR:start-up-failed-on-a-configuration-ValidateMatchIndex-accepts"
				}
			}
		}
		v += ":" + hnd.delta(&lastA, &lastR)
		out = append(out, v+":"+quiescent())
		cfgs[0], _ = cd.GetRunning()
		first = 1
	}
	for g := first; g < k; g++ {
		cfgs[g] = build(g)
	}
	// what each generation answers, from an index the harness builds itself over the same configuration objects
	acc := make([]bool, k) // will be published: the validator accepts it and no fault is planned for it
	val := make([]bool, k) // the validator accepts it
	exp := make([][]vcExpect, k)
	for g := first; g < k; g++ {
		val[g] = subscriber.ValidateMatchIndex(cfgs[g].SubscriberGroups) == nil
		acc[g] = val[g] && (g >= len(faults) || faults[g] == '-')
		ix := subscriber.BuildMatchIndex(cfgs[g].SubscriberGroups)
		for _, q := range qs {
			m, ok := ix.Lookup(q.s, q.c)
			exp[g] = append(exp[g], vcExpect{m, ok})
		}
	}
	// generation "base": what is running before the first commit of the loop
	base := make([]vcExpect, len(qs))
	for i, q := range qs {
		m, ok := cd.LookupSubscriberGroup(q.s, q.c)
		base[i] = vcExpect{m, ok}
	}
	expOf := func(g, i int) vcExpect {
		if g < first {
			return base[i]
		}
		return exp[g][i]
	}
	prevAccepted := func(g int) int { // latest accepted generation <= g, first-1 = base
		for ; g >= first; g-- {
			if acc[g] {
				return g
			}
		}
		return first - 1
	}

	var started, done atomic.Int64
	started.Store(int64(first - 1))
	done.Store(int64(first - 1))
	var stop atomic.Bool
	var wg sync.WaitGroup
	var mu sync.Mutex
	concErr := ""
	fail := func(s string) {
		mu.Lock()
		if concErr == "" {
			concErr = s
		}
		mu.Unlock()
	}
	for r := 0; r < 3; r++ {
		wg.Add(1)
		go func(r int) {
			defer wg.Done()
			defer func() {
				if x := recover(); x != nil {
					fail(fmt.Sprintf("reader-panic:%.40v", x))
				}
			}()
			floor := first - 1
			for n := 0; !stop.Load() || n < len(qs); n++ {
				i := n % len(qs)
				lo := int(done.Load())
				m, ok := cd.LookupSubscriberGroup(qs[i].s, qs[i].c)
				hi := int(started.Load())
				got := vcExpect{m, ok}
				minC, maxC := 1<<30, -1<<30
				for g := prevAccepted(lo); g <= hi; g++ {
					if g >= first && !acc[g] {
						continue
					}
					if expOf(g, i) == got {
						if g < minC {
							minC = g
						}
						if g > maxC {
							maxC = g
						}
					}
				}
				if maxC < first-1 {
					fail(fmt.Sprintf("MIXTURE:reader%d:pair%d:%d:window%d-%d:got=%s/%v", r, qs[i].s, qs[i].c, lo, hi, vcEncode(m.Name), ok))
					return
				}
				if maxC < floor {
					fail(fmt.Sprintf("BACKWARDS:reader%d:pair%d:%d:gen<=%d-after-gen>=%d", r, qs[i].s, qs[i].c, maxC, floor))
					return
				}
				if minC > floor {
					floor = minC
				}
			}
		}(r)
	}
	blocker := filepath.Join(dir, "blocker")
	os.WriteFile(blocker, []byte("x"), 0644)
	goodStartup := cd.startupConfigPath
	var sid conf.SessionID
	haveSession := false
	for g := first; g < k; g++ {
		started.Store(int64(g))
		fault := byte('-')
		if g < len(faults) {
			fault = faults[g]
		}
		var err error
		if !haveSession {
			sid, err = cd.CreateCandidateSession()
			haveSession = err == nil
		}
		v := ""
		if err == nil {
			switch fault {
			case 'A':
				hnd.failNext.Store(true)
			case 'S':
				cd.startupConfigPath = filepath.Join(blocker, "startup-config.yaml") // parent is a regular file
			}
			if err = cd.LoadConfig(sid, cfgs[g]); err == nil {
				err = cd.Commit(sid)
			}
			hnd.failNext.Store(false)
			cd.startupConfigPath = goodStartup
			if err == nil {
				haveSession = false // a successful commit consumes the session
			}
		}
		// verdict by nil-ness only (no error text), cross-checked with the validator's own nil-ness and the fault plan
		switch {
		case err == nil:
			v = "valid"
		case !val[g]:
			v = "rejected"
		case fault != '-':
			v = "failed"
		default:
			v = "ERROR:commit-failed-on-a-configuration-ValidateMatchIndex-accepts"
		}
		if err == nil && !acc[g] {
			v += "!COMMITTED-ALTHOUGH-REJECTED-OR-FAULTED"
		}
		if v == "failed" {
			hnd.delta(&lastA, &lastR)
			v += ":h*" // handlers ran and were (partly) rolled back: C13's business
		} else {
			v += ":" + hnd.delta(&lastA, &lastR)
		}
		done.Store(int64(g))
		out = append(out, v+":"+quiescent())
	}
	stop.Store(true)
	wg.Wait()
	if concErr == "" {
		concErr = bootLeak
	}
	if concErr == "" {
		concErr = "ok"
	}
	out = append(out, "conc="+strings.Join(strings.Fields(concErr), "_"))
	return strings.Join(out, " | ")
}

func TestVerifC14CM(t *testing.T) {
	in, err := os.Open(os.Getenv("VERIF_CASES"))
	if err != nil {
		t.Fatal(err)
	}
	defer in.Close()
	out, err := os.Create(os.Getenv("VERIF_OUT"))
	if err != nil {
		t.Fatal(err)
	}
	defer out.Close()
	w := bufio.NewWriter(out)
	defer w.Flush()
	sc := bufio.NewScanner(in)
	sc.Buffer(make([]byte, 1<<20), 1<<26)
	n := 0
	for sc.Scan() {
		f := strings.Fields(sc.Text())
		if len(f) == 0 {
			continue
		}
		n++
		dir := filepath.Join(t.TempDir(), fmt.Sprintf("c%d", n))
		os.MkdirAll(dir, 0755)
		fmt.Fprintln(w, vcCase(f, dir))
		os.RemoveAll(dir)
	}
}
