//go:build verif

package subscriber

import (
	"bufio"
	"fmt"
	"os"
	"strconv"
	"strings"
	"testing"

	"github.com/veesix-networks/osvbng/pkg/config/vlan"
)

// strings are dot-separated decimal code points, "e" = empty
func vfDecode(tok string) string {
	if tok == "e" {
		return ""
	}
	var sb strings.Builder
	for _, p := range strings.Split(tok, ".") {
		n, _ := strconv.Atoi(p)
		sb.WriteRune(rune(n))
	}
	return sb.String()
}

func vfEncode(s string) string {
	if s == "" {
		return "e"
	}
	parts := []string{}
	for _, r := range s {
		parts = append(parts, strconv.Itoa(int(r)))
	}
	return strings.Join(parts, ".")
}

func vfMatch(g *SubscriberGroupsConfig, m GroupMatch, ok bool) string {
	if !ok {
		return "none"
	}
	grp := g.Groups[m.Name]
	idx := -1
	for i := range grp.VLANs {
		if &grp.VLANs[i] == m.VR {
			idx = i
		}
	}
	if m.Group != grp {
		return "WRONGGROUPPTR"
	}
	return vfEncode(m.Name) + "#" + strconv.Itoa(idx)
}

func TestVerifC14(t *testing.T) {
	in, err := os.Open(os.Getenv("VERIF_CASES"))
	if err != nil {
		t.Fatal(err)
	}
	defer in.Close()
	out, err := os.Create(os.Getenv("VERIF_OUT"))
	if err != nil {
		t.Fatal(err)
	}
	defer out.Close()
	w := bufio.NewWriter(out)
	defer w.Flush()
	sc := bufio.NewScanner(in)
	sc.Buffer(make([]byte, 1<<20), 1<<26)
	for sc.Scan() {
		f := strings.Fields(sc.Text())
		if len(f) == 0 {
			continue
		}
		switch f[0] {
		case "parse":
			l, err := vlan.ParseVLANRange(vfDecode(f[1]))
			if err != nil {
				fmt.Fprintln(w, "err")
			} else {
				fmt.Fprintf(w, "ok %d %d %d\n", l[0], l[len(l)-1], len(l))
			}
		case "cvlan":
			isAny, c, err := vlan.ParseCVLAN(vfDecode(f[1]))
			switch {
			case err != nil:
				fmt.Fprintln(w, "err")
			case isAny:
				fmt.Fprintln(w, "any")
			default:
				fmt.Fprintf(w, "exact %d\n", c)
			}
		case "cfg":
			ng, _ := strconv.Atoi(f[1])
			p := 2
			cfg := &SubscriberGroupsConfig{Groups: map[string]*SubscriberGroup{}}
			for i := 0; i < ng; i++ {
				name := vfDecode(f[p])
				nr, _ := strconv.Atoi(f[p+1])
				p += 2
				g := &SubscriberGroup{}
				for j := 0; j < nr; j++ {
					g.VLANs = append(g.VLANs, VLANRange{SVLAN: vfDecode(f[p]), CVLAN: vfDecode(f[p+1])})
					p += 2
				}
				cfg.Groups[name] = g
			}
			nq, _ := strconv.Atoi(f[p])
			p++
			var res []string
			verr := ValidateMatchIndex(cfg)
			if verr == nil {
				res = append(res, "valid")
			} else {
				var s, c int
				var prev, name string
				msg := verr.Error()
				if strings.Contains(msg, "cvlan any") {
					fmt.Sscanf(msg, "subscriber-group VLAN collision on svlan %d cvlan any: claimed by both %q and %q", &s, &prev, &name)
					res = append(res, fmt.Sprintf("collision %d any %s %s", s, vfEncode(prev), vfEncode(name)))
				} else {
					fmt.Sscanf(msg, "subscriber-group VLAN collision on svlan %d cvlan %d: claimed by both %q and %q", &s, &c, &prev, &name)
					res = append(res, fmt.Sprintf("collision %d c%d %s %s", s, c, vfEncode(prev), vfEncode(name)))
				}
			}
			res = append(res, ";")
			// several rebuilds: Go map iteration order differs between them
			idxs := []*MatchIndex{BuildMatchIndex(cfg), BuildMatchIndex(cfg), BuildMatchIndex(cfg)}
			for q := 0; q < nq; q++ {
				s, _ := strconv.Atoi(f[p])
				c, _ := strconv.Atoi(f[p+1])
				p += 2
				m, ok := idxs[0].Lookup(uint16(s), uint16(c))
				r := vfMatch(cfg, m, ok)
				for _, ix := range idxs[1:] {
					m2, ok2 := ix.Lookup(uint16(s), uint16(c))
					if vfMatch(cfg, m2, ok2) != r {
						r = "NONDETERMINISTIC"
					}
				}
				m3, ok3 := idxs[0].Lookup(uint16(s), uint16(c))
				if vfMatch(cfg, m3, ok3) != r && r != "NONDETERMINISTIC" {
					r = "UNSTABLE"
				}
				res = append(res, r)
			}
			fmt.Fprintln(w, strings.Join(res, " "))
		default:
			fmt.Fprintln(w, "badline")
		}
	}
}
