//go:build verif

package subscriber

import (
	"bufio"
	"crypto/md5"
	"fmt"
	"os"
	"runtime"
	"sort"
	"strconv"
	"strings"
	"sync"
	"testing"

	"github.com/veesix-networks/osvbng/pkg/config/vlan"
)

// strings are dot-separated decimal code points, "e" = empty
func vfDecode(tok string) string {
	if tok == "e" {
		return ""
	}
	var sb strings.Builder
	for _, p := range strings.Split(tok, ".") {
		n, _ := strconv.Atoi(p)
		sb.WriteRune(rune(n))
	}
	return sb.String()
}

func vfEncode(s string) string {
	if s == "" {
		return "e"
	}
	parts := []string{}
	for _, r := range s {
		parts = append(parts, strconv.Itoa(int(r)))
	}
	return strings.Join(parts, ".")
}

func vfMatch(g *SubscriberGroupsConfig, m GroupMatch, ok bool) string {
	if !ok {
		return "none"
	}
	if g == nil {
		return "MATCHONNILCONFIG"
	}
	grp := g.Groups[m.Name]
	if grp == nil {
		return "NILGROUPMATCHED"
	}
	idx := -1
	for i := range grp.VLANs {
		if &grp.VLANs[i] == m.VR {
			idx = i
		}
	}
	if m.Group != grp {
		return "WRONGGROUPPTR"
	}
	return vfEncode(m.Name) + "#" + strconv.Itoa(idx)
}

func vfParse(s string) string {
	l, err := vlan.ParseVLANRange(s)
	if err != nil {
		return "err"
	}
	if len(l) == 0 {
		return "ok EMPTYLIST"
	}
	r := fmt.Sprintf("ok %d %d %d", l[0], l[len(l)-1], len(l))
	for i := range l {
		if int(l[i]) != int(l[0])+i {
			return r + " NONCONSECUTIVE"
		}
	}
	return r
}

func vfCVLAN(s string) string {
	isAny, c, err := vlan.ParseCVLAN(s)
	switch {
	case err != nil:
		return "err"
	case isAny:
		if c != 0 {
			return "any NONZERO"
		}
		return "any"
	default:
		return fmt.Sprintf("exact %d", c)
	}
}

// ValidateMatchIndex is the exported entry point the commit path (pkg/configmgr) calls with the candidate's
// SubscriberGroups before anything is applied.  The property constrains only WHETHER a configuration is rejected;
// which defect is reported, how many, and the wording are free, so the error is projected to its class.
func vfValidate(cfg *SubscriberGroupsConfig) string {
	if verr := ValidateMatchIndex(cfg); verr != nil {
		return "rejected"
	}
	return "valid"
}

// tokens f[p:] = G {name R {sv cv}}; R = -1 is a nil *SubscriberGroup entry in the map
func vfReadConfig(f []string, p int) (*SubscriberGroupsConfig, int) {
	ng, _ := strconv.Atoi(f[p])
	p++
	cfg := &SubscriberGroupsConfig{Groups: map[string]*SubscriberGroup{}}
	for i := 0; i < ng; i++ {
		name := vfDecode(f[p])
		nr, _ := strconv.Atoi(f[p+1])
		p += 2
		if nr < 0 {
			cfg.Groups[name] = nil
			continue
		}
		g := &SubscriberGroup{}
		for j := 0; j < nr; j++ {
			g.VLANs = append(g.VLANs, VLANRange{SVLAN: vfDecode(f[p]), CVLAN: vfDecode(f[p+1])})
			p += 2
		}
		cfg.Groups[name] = g
	}
	return cfg, p
}

func vfQueries(cfg *SubscriberGroupsConfig, f []string, p int) []string {
	nq, _ := strconv.Atoi(f[p])
	p++
	var res []string
	// several rebuilds: Go map iteration order differs between them
	idxs := []*MatchIndex{BuildMatchIndex(cfg), BuildMatchIndex(cfg), BuildMatchIndex(cfg)}
	for q := 0; q < nq; q++ {
		s, _ := strconv.Atoi(f[p])
		c, _ := strconv.Atoi(f[p+1])
		p += 2
		m, ok := idxs[0].Lookup(uint16(s), uint16(c))
		r := vfMatch(cfg, m, ok)
		for _, ix := range idxs[1:] {
			m2, ok2 := ix.Lookup(uint16(s), uint16(c))
			if vfMatch(cfg, m2, ok2) != r {
				r = "NONDETERMINISTIC"
			}
		}
		m3, ok3 := idxs[0].Lookup(uint16(s), uint16(c))
		if vfMatch(cfg, m3, ok3) != r && r != "NONDETERMINISTIC" {
			r = "UNSTABLE"
		}
		res = append(res, r)
	}
	return res
}

// ---- exhaustive sweep: every (S-VLAN, C-VLAN) in 0..4095 x 0..4095 --------------------------
// The reference is the quadratic scan of the property statement, written here from the parsed
// ranges only (names in byte order, ranges in declaration order, exact selector first, wildcard
// second); it does not use BuildMatchIndex or any of its data structures.
type vfRefRange struct {
	member [4096]bool
	any    bool
	cv     uint16
	tok    int
}

type vfSweepCtx struct {
	toks    []string // token id -> text; 0 = "none"
	tokName []string
	tokGrp  []*SubscriberGroup
	byVR    map[*VLANRange]int
	ref     []*vfRefRange
}

func vfSweepPrepare(cfg *SubscriberGroupsConfig) *vfSweepCtx {
	ctx := &vfSweepCtx{toks: []string{"none"}, tokName: []string{""}, tokGrp: []*SubscriberGroup{nil},
		byVR: map[*VLANRange]int{}}
	names := []string{}
	for n, g := range cfg.Groups {
		if g != nil {
			names = append(names, n)
		}
	}
	sort.Slice(names, func(i, j int) bool { // byte-wise, spelled out
		a, b := []byte(names[i]), []byte(names[j])
		for k := 0; k < len(a) && k < len(b); k++ {
			if a[k] != b[k] {
				return a[k] < b[k]
			}
		}
		return len(a) < len(b)
	})
	for _, n := range names {
		g := cfg.Groups[n]
		for i := range g.VLANs {
			vr := &g.VLANs[i]
			id := len(ctx.toks)
			ctx.toks = append(ctx.toks, vfEncode(n)+"#"+strconv.Itoa(i))
			ctx.tokName = append(ctx.tokName, n)
			ctx.tokGrp = append(ctx.tokGrp, g)
			ctx.byVR[vr] = id
			l, err := vlan.ParseVLANRange(vr.SVLAN)
			if err != nil {
				continue
			}
			isAny, cv, err := vlan.ParseCVLAN(vr.CVLAN)
			if err != nil {
				continue
			}
			rr := &vfRefRange{any: isAny, cv: cv, tok: id}
			for _, s := range l {
				if s < 4096 {
					rr.member[s] = true
				}
			}
			ctx.ref = append(ctx.ref, rr)
		}
	}
	return ctx
}

func (ctx *vfSweepCtx) tokenOf(m GroupMatch, ok bool) int {
	if !ok {
		return 0
	}
	id, found := ctx.byVR[m.VR]
	if !found || ctx.tokName[id] != m.Name || ctx.tokGrp[id] != m.Group {
		return -1
	}
	return id
}

func vfSweep(cfg *SubscriberGroupsConfig) string {
	ctx := vfSweepPrepare(cfg)
	idx := BuildMatchIndex(cfg)
	idx2 := BuildMatchIndex(cfg)
	rows := make([]string, 4096)
	hits := make([]int, 4096)
	type diff struct {
		s, c   int
		im, rf int
	}
	first := make([]*diff, 4096)
	nw := runtime.NumCPU()
	if nw > 8 {
		nw = 8
	}
	var wg sync.WaitGroup
	for w := 0; w < nw; w++ {
		wg.Add(1)
		go func(w int) {
			defer wg.Done()
			defer func() {
				if r := recover(); r != nil {
					rows[w] = fmt.Sprintf("PANIC:%v", r)
				}
			}()
			for s := w; s < 4096; s += nw {
				var cover []*vfRefRange
				for _, rr := range ctx.ref {
					if rr.member[s] {
						cover = append(cover, rr)
					}
				}
				var sb strings.Builder
				run, cur := 0, -2
				for c := 0; c < 4096; c++ {
					m, ok := idx.Lookup(uint16(s), uint16(c))
					im := ctx.tokenOf(m, ok)
					m2, ok2 := idx2.Lookup(uint16(s), uint16(c))
					if ctx.tokenOf(m2, ok2) != im {
						im = -3 // two rebuilds disagree
					}
					rf := 0
					for _, rr := range cover {
						if !rr.any && rr.cv == uint16(c) {
							rf = rr.tok
							break
						}
					}
					if rf == 0 {
						for _, rr := range cover {
							if rr.any {
								rf = rr.tok
								break
							}
						}
					}
					if im != rf && first[s] == nil {
						first[s] = &diff{s, c, im, rf}
					}
					if im > 0 {
						hits[s]++
					}
					if im != cur {
						if run > 0 {
							fmt.Fprintf(&sb, "%dx%s,", run, ctx.name(cur))
						}
						cur, run = im, 0
					}
					run++
				}
				fmt.Fprintf(&sb, "%dx%s", run, ctx.name(cur))
				rows[s] = sb.String()
			}
		}(w)
	}
	wg.Wait()
	var tb strings.Builder
	nruns, total := 0, 0
	for s := 0; s < 4096; {
		e := s
		for e < 4096 && rows[e] == rows[s] {
			e++
		}
		if nruns > 0 {
			tb.WriteString(";")
		}
		fmt.Fprintf(&tb, "%d*[%s]", e-s, rows[s])
		nruns++
		s = e
	}
	d := "none"
	for s := 0; s < 4096; s++ {
		total += hits[s]
		if first[s] != nil && d == "none" {
			f := first[s]
			d = fmt.Sprintf("%d:%d:lookup=%s:harnessref=%s", f.s, f.c, ctx.name(f.im), ctx.name(f.rf))
		}
	}
	// Lookup takes uint16.  An S-VLAN above 4095 names no VLAN and must miss; a C-VLAN above 4095 is named by no exact
	// selector, so it is answered like the untagged pair (wildcard of that S-VLAN or nothing).  A key that drops or masks
	// bits 12-15 of either component would alias these onto 0..4095.
	high := "ok"
	cset := []uint16{0, 1, 100, 4094}
	for _, rr := range ctx.ref {
		if !rr.any && len(cset) < 14 {
			cset = append(cset, rr.cv)
		}
	}
	for s := 0; s < 4096 && high == "ok"; s++ {
		m0, ok0 := idx.Lookup(uint16(s), 0)
		t0 := ctx.tokenOf(m0, ok0)
		for _, k := range []int{1, 2, 7, 15} {
			for _, c := range cset {
				if _, ok := idx.Lookup(uint16(s+4096*k), c); ok {
					high = fmt.Sprintf("%d:%d:matched", s+4096*k, c)
				}
				if _, ok := idx.Lookup(uint16(s+4096*k), uint16(int(c)+4096*(16-k))); ok {
					high = fmt.Sprintf("%d:%d:matched", s+4096*k, int(c)+4096*(16-k))
				}
				if m, ok := idx.Lookup(uint16(s), uint16(int(c)+4096*k)); ctx.tokenOf(m, ok) != t0 {
					high = fmt.Sprintf("%d:%d:not-the-untagged-answer", s, int(c)+4096*k)
				}
			}
		}
	}
	return fmt.Sprintf("md5=%x hits=%d rowruns=%d diff=%s high=%s", md5.Sum([]byte(tb.String())), total, nruns, d, high)
}

func (ctx *vfSweepCtx) name(id int) string {
	switch {
	case id == -1:
		return "FOREIGNMATCH"
	case id == -3:
		return "NONDETERMINISTIC"
	case id < 0 || id >= len(ctx.toks):
		return "BADTOKEN"
	}
	return ctx.toks[id]
}

// ---- every rune through the parsers ---------------------------------------------------------
func vfRunes(kind string, lo, hi int) string {
	var sb strings.Builder
	prev, start, last := "err", 0, 0
	flush := func() {
		if prev != "err" {
			if sb.Len() > 0 {
				sb.WriteString(",")
			}
			fmt.Fprintf(&sb, "%d-%d=%s", start, last, strings.ReplaceAll(prev, " ", "_"))
		}
	}
	for r := lo; r <= hi; r++ {
		if r >= 0xD800 && r <= 0xDFFF {
			continue
		}
		u := string(rune(r))
		var o string
		switch kind {
		case "pl":
			o = vfParse(u + "7")
		case "pt":
			o = vfParse("7" + u)
		case "pd":
			o = vfParse("7" + u + "-" + u + "9")
		case "pa":
			o = vfParse(u)
		case "pm":
			o = vfParse("1" + u + "2")
		case "cl":
			o = vfCVLAN(u + "aNy")
		case "ct":
			o = vfCVLAN("5" + u)
		case "ca":
			o = vfCVLAN(u)
		case "cy":
			o = vfCVLAN("a" + u + "y")
		default:
			o = "badkind"
		}
		if o != prev || r != last+1 {
			flush()
			prev, start = o, r
		}
		last = r
	}
	flush()
	if sb.Len() == 0 {
		return "nothing"
	}
	return sb.String()
}

func vfCase(f []string) (res string) {
	defer func() {
		if r := recover(); r != nil {
			res = fmt.Sprintf("panic %.60v", r)
			res = strings.Join(strings.Fields(res), "_")
		}
	}()
	switch f[0] {
	case "parse":
		return vfParse(vfDecode(f[1]))
	case "cvlan":
		return vfCVLAN(vfDecode(f[1]))
	case "cfg":
		cfg, p := vfReadConfig(f, 1)
		res := []string{vfValidate(cfg), ";"}
		res = append(res, vfQueries(cfg, f, p)...)
		return strings.Join(res, " ")
	case "cfgnil":
		// what Commit passes when the candidate has no subscriber-groups section, and a nil index
		res := []string{vfValidate(nil), ";"}
		res = append(res, vfQueries(nil, f, 1)...)
		var nilIdx *MatchIndex
		if _, ok := nilIdx.Lookup(10, 100); ok {
			res = append(res, "NILINDEXMATCH")
		}
		if _, ok := (&MatchIndex{}).Lookup(10, 100); ok {
			res = append(res, "ZEROINDEXMATCH")
		}
		return strings.Join(res, " ")
	case "sweep":
		cfg, _ := vfReadConfig(f, 1)
		return vfValidate(cfg) + " ; " + vfSweep(cfg)
	case "gpn":
		// group.go's S-VLAN-only helpers, called: SubscriberGroup.GetPolicyName / FindVLANConfig / VLANRange.MatchesSVLAN
		// gpn <G> {<name> <gpol> <gacc> <R> {<sv> <cv> <rpol> <acc>}} <Q> {<s> <c>}: per query, per group in case order
		ng, _ := strconv.Atoi(f[1])
		p := 2
		var grps []*SubscriberGroup
		for i := 0; i < ng; i++ {
			g := &SubscriberGroup{AAAPolicy: vfDecode(f[p+1])}
			nr, _ := strconv.Atoi(f[p+3])
			p += 4
			for j := 0; j < nr; j++ {
				vr := VLANRange{SVLAN: vfDecode(f[p]), CVLAN: vfDecode(f[p+1])}
				if pol := vfDecode(f[p+2]); pol != "" {
					vr.AAA = &VLANAAAs{Policy: pol}
				}
				g.VLANs = append(g.VLANs, vr)
				p += 4
			}
			grps = append(grps, g)
		}
		nq, _ := strconv.Atoi(f[p])
		p++
		var out []string
		for q := 0; q < nq; q++ {
			sv, _ := strconv.Atoi(f[p])
			p += 2
			for _, g := range grps {
				pol := g.GetPolicyName(uint16(sv))
				vr := g.FindVLANConfig(uint16(sv))
				idx, first := -1, -1
				for i := range g.VLANs {
					if vr == &g.VLANs[i] {
						idx = i
					}
					if first == -1 && g.VLANs[i].MatchesSVLAN(uint16(sv)) {
						first = i
					}
				}
				if first != idx {
					idx = -2 // FindVLANConfig is not the first range MatchesSVLAN accepts
				}
				out = append(out, vfEncode(pol)+"@"+strconv.Itoa(idx))
			}
		}
		return strings.Join(out, " ")
	case "runes":
		lo, _ := strconv.Atoi(f[2])
		hi, _ := strconv.Atoi(f[3])
		return vfRunes(f[1], lo, hi)
	}
	return "badline"
}

func TestVerifC14(t *testing.T) {
	in, err := os.Open(os.Getenv("VERIF_CASES"))
	if err != nil {
		t.Fatal(err)
	}
	defer in.Close()
	out, err := os.Create(os.Getenv("VERIF_OUT"))
	if err != nil {
		t.Fatal(err)
	}
	defer out.Close()
	w := bufio.NewWriter(out)
	defer w.Flush()
	sc := bufio.NewScanner(in)
	sc.Buffer(make([]byte, 1<<20), 1<<26)
	for sc.Scan() {
		f := strings.Fields(sc.Text())
		if len(f) == 0 {
			continue
		}
		fmt.Fprintln(w, vfCase(f))
	}
}
