//go:build verif

package pppoe

// C04 harness for pkg/pppoe: CookieManager as a black box (the AC-Cookie is an opaque token: no byte layout is
// assumed, no cookie is forged here) and ParseTags.
//
//   sq <ttl_ns> <step>...   a history on ONE CookieManager
//        G/<mac>/<sv>/<cv>                 Generate (the real one), remembered as g<i> (i = 0,1,..)     -> c:<hex>
//        V/g<i>/<mut>/<mac>/<sv>/<cv>      Validate cookie g<i> after mutation <mut> for that tuple      -> 1 | 0
//                                          mut = id | x<i>.<mask> (xor byte i, no-op beyond the end) | t<n> | a<hex>
//        N                                 switch to a NEW cookie manager (fresh secret)                  -> -
//        V/z<hex>/...                      Validate raw bytes nobody issued
//        L/<ttl_ns>                        change the manager's lifetime (in-package seam)               -> -
//        W/<k>                             wait until the k-th second after the first one               -> -
//     -> now=<first second> <one token per step>
//   tags <hex payload>
//     -> err | ok n=<raw tags> ck=<hex> hu=<hex> mp=<n>

import (
	"bufio"
	"encoding/hex"
	"fmt"
	"net"
	"os"
	"strconv"
	"strings"
	"testing"
	"time"
)

func vc04Hex(s string) []byte {
	if s == "-" {
		return []byte{}
	}
	b, err := hex.DecodeString(s)
	if err != nil {
		panic("bad hex " + s)
	}
	return b
}

func vc04Show(b []byte) string {
	if len(b) == 0 {
		return "-"
	}
	return hex.EncodeToString(b)
}

func vc04Mutate(c []byte, mut string) []byte {
	c = append([]byte{}, c...)
	switch {
	case mut == "id":
	case mut[0] == 'x':
		p := strings.Split(mut[1:], ".")
		i, _ := strconv.Atoi(p[0])
		m, _ := strconv.Atoi(p[1])
		if i < len(c) {
			c[i] ^= byte(m)
		}
	case mut[0] == 't':
		n, _ := strconv.Atoi(mut[1:])
		if n < len(c) {
			c = c[:n]
		}
	case mut[0] == 'a':
		c = append(c, vc04Hex(mut[1:])...)
	}
	return c
}

func vc04U16(s string) uint16 { n, _ := strconv.Atoi(s); return uint16(n) }

// vc04WaitUntil sleeps until the wall clock is inside second `sec` (at least 100 ms into it).
func vc04WaitUntil(sec int64) bool {
	for {
		t := time.Now()
		if t.Unix() > sec {
			return false
		}
		if t.Unix() == sec && t.Nanosecond() >= 100000000 {
			return t.Nanosecond() < 900000000
		}
		d := time.Unix(sec, 100000000).Sub(t)
		if d < time.Millisecond {
			d = time.Millisecond
		}
		time.Sleep(d)
	}
}

func vc04Seq(f []string) string {
	ttl, _ := strconv.ParseInt(f[1], 10, 64)
	for attempt := 0; attempt < 6; attempt++ {
		t0 := time.Now()
		if ns := t0.Nanosecond(); ns < 1000 || ns > 800000000 {
			time.Sleep(time.Duration(1000001000-ns) * time.Nanosecond)
			continue
		}
		base := t0.Unix()
		cur := base
		cm, err := NewCookieManager(time.Second)
		if err != nil {
			return "nomanager"
		}
		cm.ttl = time.Duration(ttl)
		var gens [][]byte
		outs := []string{fmt.Sprintf("now=%d", base)}
		ok := true
		for _, st := range f[2:] {
			p := strings.Split(st, "/")
			switch p[0] {
			case "G":
				c := cm.Generate(net.HardwareAddr(vc04Hex(p[1])), vc04U16(p[2]), vc04U16(p[3]))
				gens = append(gens, c)
				outs = append(outs, "c:"+vc04Show(c))
			case "V":
				var c []byte
				if p[1][0] == 'z' { // raw bytes that no manager issued
					c = vc04Hex(p[1][1:])
				} else if i, e := strconv.Atoi(p[1][1:]); e == nil && i < len(gens) {
					c = gens[i]
				}
				c = vc04Mutate(c, p[2])
				if cm.Validate(c, net.HardwareAddr(vc04Hex(p[3])), vc04U16(p[4]), vc04U16(p[5])) {
					outs = append(outs, "1")
				} else {
					outs = append(outs, "0")
				}
			case "N":
				// another cookie manager (another BNG / a restart: fresh secret), same lifetime; g<i> keep naming the
				// cookies issued so far, none of which THIS manager has issued
				old := cm.ttl
				cm, err = NewCookieManager(time.Second)
				if err != nil {
					return "nomanager"
				}
				cm.ttl = old
				outs = append(outs, "-")
			case "L":
				n, _ := strconv.ParseInt(p[1], 10, 64)
				cm.ttl = time.Duration(n)
				outs = append(outs, "-")
			case "W":
				k, _ := strconv.ParseInt(p[1], 10, 64)
				if time.Now().Unix() != cur || !vc04WaitUntil(base+k) {
					ok = false
				}
				cur = base + k
				outs = append(outs, "-")
			default:
				outs = append(outs, "badstep")
			}
			if !ok {
				break
			}
		}
		if !ok || time.Now().Unix() != cur {
			continue
		}
		return strings.Join(outs, " ")
	}
	return "clock-unstable"
}

func vc04Tags(f []string) string {
	tg, err := ParseTags(vc04Hex(f[1]))
	if err != nil {
		return "err"
	}
	return fmt.Sprintf("ok n=%d ck=%s hu=%s mp=%d", len(tg.Raw), vc04Show(tg.ACCookie), vc04Show(tg.HostUniq), tg.PPPMaxPayload)
}

func vc04One(line string) (res string) {
	defer func() {
		if r := recover(); r != nil {
			res = "panic " + strings.ReplaceAll(fmt.Sprint(r), " ", "_")
		}
	}()
	f := strings.Fields(line)
	if len(f) == 0 {
		return ""
	}
	switch f[0] {
	case "tags":
		return vc04Tags(f)
	case "sq":
		return vc04Seq(f)
	}
	return "badline"
}

func TestVerifC04Pkg(t *testing.T) {
	in, err := os.Open(os.Getenv("VERIF_CASES"))
	if err != nil {
		t.Fatal(err)
	}
	defer in.Close()
	out, err := os.Create(os.Getenv("VERIF_OUT"))
	if err != nil {
		t.Fatal(err)
	}
	defer out.Close()
	w := bufio.NewWriter(out)
	defer w.Flush()
	sc := bufio.NewScanner(in)
	sc.Buffer(make([]byte, 1<<20), 1<<26)
	for sc.Scan() {
		done := make(chan string, 1)
		line := sc.Text()
		go func() { done <- vc04One(line) }()
		select {
		case r := <-done:
			fmt.Fprintln(w, r)
		case <-time.After(60 * time.Second):
			fmt.Fprintln(w, "hang")
		}
	}
}
