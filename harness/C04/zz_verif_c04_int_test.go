//go:build verif

package pppoe

// C04 harness for internal/pppoe: handlePADI / handlePADR / handlePADT / handleSession /
// handleDeadPeer / installInMemoryState driven with crafted ParsedPackets on a Component whose
// collaborators are fakes (event bus recorder, range-based subscriber-group matcher).
//
//   tb <ttl_s> G=<lo>-<hi> occ=<a-b,c-d|-> next=<n|-> ; <op> ...
//   (the AC-Cookie is opaque: cookies are obtained from the real cookie manager, never forged; every cookie the
//    harness had generated for an op is reported after the op's token as |<hex>;<hex>)
//     I/<mac>/<sv>/<cv>                    PADI
//     R/<mac>/<sv>/<cv>/<tagspec>          PADR; tagspec = comma list of
//                                            s | h<hex> | e | m<hex> | r<hex> | c<cookiespec>
//                                          cookiespec = P:<mut> (cookie of the last PADO seen)
//                                                     | g:<mac>:<sv>:<cv>:<mut> (cookieMgr.Generate for that tuple, now)
//     T/<mac>/<sv>/<cv>/<sid>              PADT
//     S/<mac>/<sv>/<cv>/<sid>/<kind>       session-stage frame; kind: see vc04Frame (LCP codes, PAP, CHAP, IPCP, IPv6CP, IPv6, unknown)
//     D/<sid>                              dead peer reported by the echo generator
//     X/<sid>/<mac>/<sv>/<cv>              restore of a persisted session (installInMemoryState)
//     H/<sid>/<mac>/<sv>/<cv>[/<userhex>]  run-time HA restore (restoreFromHASync) of one checkpoint synced from the peer
//     F/-<k>                               dataplane add failure (onVPPSessionCreated(err)) for the k-th newest session object
//     A/-<k>                               AAA reject (handleAAAResponse) for the outstanding request of that session object
//     K/<mac>/<sv.cv>,<sv.cv>,...          equivalence classes of c.sessionKey over these tuples
//     W/<k>                                wait until the k-th second after the first second of the case
//     L/<ttl_s>                            change the cookie manager's lifetime (unsafe seam)
//     C/<n>/<sv>                           n concurrent PADRs (distinct MACs) with valid cookies
//   -> now=<unix> <one token per op> ; n=<|sidIndex|>/<|sessions|> bulk=<in sidIndex>/<in sessions> u<uid>:<sid>:<inSid><inTup>...

import (
	"bufio"
	"bytes"
	"context"
	"runtime"
	"encoding/hex"
	"fmt"
	"net"
	"os"
	"reflect"
	"sort"
	"strconv"
	"strings"
	"sync"
	"testing"
	"time"
	"unsafe"

	"github.com/google/gopacket/layers"
	hapb "github.com/veesix-networks/osvbng/api/proto/ha"
	"github.com/veesix-networks/osvbng/pkg/opdb"
	"github.com/veesix-networks/osvbng/pkg/southbound"
	"google.golang.org/protobuf/proto"
	"github.com/veesix-networks/osvbng/pkg/component"
	"github.com/veesix-networks/osvbng/pkg/config"
	"github.com/veesix-networks/osvbng/pkg/config/subscriber"
	"github.com/veesix-networks/osvbng/pkg/dataplane"
	"github.com/veesix-networks/osvbng/pkg/events"
	"github.com/veesix-networks/osvbng/pkg/ifmgr"
	"github.com/veesix-networks/osvbng/pkg/logger"
	"github.com/veesix-networks/osvbng/pkg/models"
	"github.com/veesix-networks/osvbng/pkg/ppp"
	"github.com/veesix-networks/osvbng/pkg/pppoe"
)

type vc04Egress struct {
	proto          models.Protocol
	dst            string
	sv, cv         uint16
	code           byte
	sid            uint16
	payload        []byte
}

type vc04Bus struct {
	mu       sync.Mutex
	egress   []vc04Egress
	released []string
}

func (b *vc04Bus) Publish(topic string, ev events.Event) {
	b.mu.Lock()
	defer b.mu.Unlock()
	switch topic {
	case events.TopicEgress:
		if e, ok := ev.Data.(*events.EgressEvent); ok && len(e.Packet.RawData) >= 6 {
			r := e.Packet.RawData
			b.egress = append(b.egress, vc04Egress{proto: e.Protocol, dst: e.Packet.DstMAC, sv: e.Packet.OuterVLAN,
				cv: e.Packet.InnerVLAN, code: r[1], sid: uint16(r[2])<<8 | uint16(r[3]), payload: append([]byte{}, r[6:]...)})
		}
	case events.TopicSessionLifecycle:
		if e, ok := ev.Data.(*events.SessionLifecycleEvent); ok && e.State == models.SessionStateReleased {
			b.released = append(b.released, e.SessionID)
		}
	}
}
func (b *vc04Bus) Subscribe(string, events.Handler) events.Subscription { return vc04Sub{} }
func (b *vc04Bus) SubscribeAll(events.Handler) events.Subscription      { return vc04Sub{} }
func (b *vc04Bus) Stats() events.Stats                                  { return events.Stats{} }
func (b *vc04Bus) SetDebugTopics([]string)                              {}
func (b *vc04Bus) DebugTopics() []string                                { return nil }
func (b *vc04Bus) Close() error                                         { return nil }
func (b *vc04Bus) take() ([]vc04Egress, []string) {
	b.mu.Lock()
	defer b.mu.Unlock()
	e, r := b.egress, b.released
	b.egress, b.released = nil, nil
	return e, r
}

type vc04Sub struct{}

func (vc04Sub) Unsubscribe() {}

// vc04Gate is the subscriber.AccessResolver of the component.  handlePADR calls IsMixedAccessSVLAN after
// allocateSessionID and before addToIndexes.  When armed, every call records whether c.sidMu is held at that
// moment (TryLock probe) and blocks until the supervisor opens the gate.  The supervisor opens it by a handshake
// on the actual state of the handlers, not by a delay: every one of the `want` handlers is either inside the
// gate, or blocked in sync.(*Mutex).Lock below handlePADR (seen in the goroutine dump), or has returned.
type vc04Gate struct {
	mu       sync.Mutex
	armed    bool
	want     int
	inside   int
	locked   int // entries during which sidMu was held
	waiting  int // handlers blocked in the gate right now
	finished int
	timeout  bool
	release  chan struct{}
	sidMu    *sync.Mutex
}

func (g *vc04Gate) IsMixedAccessSVLAN(svlan uint16) bool {
	g.mu.Lock()
	if !g.armed {
		g.mu.Unlock()
		return false
	}
	g.inside++
	if g.sidMu.TryLock() {
		g.sidMu.Unlock()
	} else {
		g.locked++
	}
	ch := g.release
	g.waiting++
	g.mu.Unlock()
	<-ch
	g.mu.Lock()
	g.waiting--
	g.mu.Unlock()
	return false
}

// vc04PADRStates classifies the goroutines that are inside handlePADR by what they are blocked in:
// w = sessionMu.Lock (about to index), r = sessionMu.RLock (inside the allocator's scan), m = a plain Mutex (sidMu)
func vc04PADRStates() (w, r, m int) {
	buf := make([]byte, 1<<20)
	buf = buf[:runtime.Stack(buf, true)]
	for _, gr := range strings.Split(string(buf), "\n\n") {
		if !strings.Contains(gr, "handlePADR") {
			continue
		}
		switch {
		case strings.Contains(gr, "sync.(*RWMutex).Lock"):
			w++
		case strings.Contains(gr, "sync.(*RWMutex).RLock"):
			r++
		case strings.Contains(gr, "sync.(*Mutex).Lock"):
			m++
		}
	}
	return
}

// probe: the harness holds sessionMu as a READER, so a handler that has allocated its id and wants to index blocks in
// sessionMu.Lock().  Once every handler is blocked somewhere (or has returned) the state is inspected: allocation and
// indexing form one critical section iff, while one handler waits to index, NO other handler is inside the allocator
// and sidMu is held.  This does not depend on where any hook call sits in handlePADR.
func (w *vc04World) probeReservation(n int) string {
	deadline := time.Now().Add(3 * time.Second)
	for {
		w.gate.mu.Lock()
		fin, waiting := w.gate.finished, w.gate.waiting
		w.gate.mu.Unlock()
		if fin >= n {
			return "none"
		}
		bw, br, bm := vc04PADRStates()
		if bw >= 1 && bw+br+bm+fin+waiting >= n {
			// settled: look again to be sure nobody moved
			bw2, br2, bm2 := vc04PADRStates()
			if bw2 == bw && br2 == br && bm2 == bm {
				if br > 0 || bw > 1 {
					return "free"
				}
				if w.c.sidMu.TryLock() {
					w.c.sidMu.Unlock()
					return "free"
				}
				return "held"
			}
		}
		if time.Now().After(deadline) {
			return "timeout"
		}
		time.Sleep(200 * time.Microsecond)
	}
}

func vc04BlockedPADR() int {
	buf := make([]byte, 1<<20)
	buf = buf[:runtime.Stack(buf, true)]
	n := 0
	for _, gr := range strings.Split(string(buf), "\n\n") {
		if strings.Contains(gr, "handlePADR") && strings.Contains(gr, "sync.(*Mutex).Lock") {
			n++
		}
	}
	return n
}

func (g *vc04Gate) supervise() {
	deadline := time.Now().Add(5 * time.Second)
	for {
		g.mu.Lock()
		in, fin := g.inside, g.finished
		g.mu.Unlock()
		if in+fin >= g.want || in+fin+vc04BlockedPADR() >= g.want {
			// re-read: a handler counted as blocked may have entered meanwhile, which is fine
			close(g.release)
			return
		}
		if time.Now().After(deadline) {
			g.mu.Lock()
			g.timeout = true
			g.mu.Unlock()
			close(g.release)
			return
		}
		runtime.Gosched()
		time.Sleep(200 * time.Microsecond)
	}
}

// fakes for the HA restore path
type vc04DB struct {
	mu sync.Mutex
	m  map[string]map[string][]byte
}

func (d *vc04DB) Put(_ context.Context, ns, key string, v []byte) error {
	d.mu.Lock()
	defer d.mu.Unlock()
	if d.m[ns] == nil {
		d.m[ns] = map[string][]byte{}
	}
	d.m[ns][key] = append([]byte{}, v...)
	return nil
}
func (d *vc04DB) Delete(_ context.Context, ns, key string) error {
	d.mu.Lock()
	defer d.mu.Unlock()
	delete(d.m[ns], key)
	return nil
}
func (d *vc04DB) Load(_ context.Context, ns string, fn opdb.LoadFunc) error {
	d.mu.Lock()
	cp := map[string][]byte{}
	for k, v := range d.m[ns] {
		cp[k] = v
	}
	d.mu.Unlock()
	for k, v := range cp {
		if err := fn(k, v); err != nil {
			return err
		}
	}
	return nil
}
func (d *vc04DB) Count(_ context.Context, ns string) (int, error) { return len(d.m[ns]), nil }
func (d *vc04DB) Clear(_ context.Context, ns string) error        { return nil }
func (d *vc04DB) Stats() opdb.Stats                               { return opdb.Stats{} }
func (d *vc04DB) Close() error                                    { return nil }

type vc04SB struct{ southbound.Southbound }

func (vc04SB) AddPPPoESession(sid uint16, _ net.IP, _ net.HardwareAddr, _ net.HardwareAddr, _ uint32, _ uint16, _ uint16, _ uint32, _ uint16, _ southbound.MSSClampPolicy) (uint32, error) {
	return 1000 + uint32(sid), nil
}
func (vc04SB) DeletePPPoESessionAsync(_ uint16, _ net.IP, _ net.HardwareAddr, cb func(error)) { cb(nil) }
func (vc04SB) GetInterfaceIndex(string) (int, error)                                        { return 0, nil }

type vc04Cache struct{}

func (vc04Cache) Set(context.Context, string, []byte, time.Duration) error { return nil }
func (vc04Cache) Get(context.Context, string) ([]byte, error)             { return nil, nil }
func (vc04Cache) GetAll(context.Context, string) (map[string][]byte, error) {
	return nil, nil
}
func (vc04Cache) Delete(context.Context, string) error { return nil }
func (vc04Cache) Scan(context.Context, uint64, string, int64) ([]string, uint64, error) {
	return nil, 0, nil
}
func (vc04Cache) Incr(context.Context, string) (int64, error)         { return 0, nil }
func (vc04Cache) Decr(context.Context, string) (int64, error)         { return 0, nil }
func (vc04Cache) Expire(context.Context, string, time.Duration) error { return nil }
func (vc04Cache) Close() error                                        { return nil }

type vc04Cfg struct{ lo, hi uint16 }

func (f *vc04Cfg) GetRunning() (*config.Config, error) {
	return &config.Config{HA: config.HAConfig{SRGs: map[string]*config.SRGConfig{
		"srg1": {Interfaces: []string{"TenGigE0/0.100"}}}}}, nil
}
func (f *vc04Cfg) GetStartup() (*config.Config, error) { return &config.Config{}, nil }
func (f *vc04Cfg) LookupSubscriberGroup(svlan, cvlan uint16) (subscriber.GroupMatch, bool) {
	if svlan >= f.lo && svlan <= f.hi {
		return subscriber.GroupMatch{Name: "g", Group: &subscriber.SubscriberGroup{}}, true
	}
	return subscriber.GroupMatch{}, false
}

func vc04Hex(s string) []byte {
	if s == "-" {
		return []byte{}
	}
	b, err := hex.DecodeString(s)
	if err != nil {
		panic("bad hex " + s)
	}
	return b
}

func vc04Show(b []byte) string {
	if len(b) == 0 {
		return "-"
	}
	return hex.EncodeToString(b)
}

func vc04U16(s string) uint16 { n, _ := strconv.Atoi(s); return uint16(n) }

func vc04Mutate(c []byte, mut string) []byte {
	c = append([]byte{}, c...)
	switch {
	case mut == "id":
	case mut[0] == 'x':
		p := strings.Split(mut[1:], ".")
		i, _ := strconv.Atoi(p[0])
		m, _ := strconv.Atoi(p[1])
		if i < len(c) {
			c[i] ^= byte(m)
		}
	case mut[0] == 't':
		n, _ := strconv.Atoi(mut[1:])
		if n < len(c) {
			c = c[:n]
		}
	case mut[0] == 'a':
		c = append(c, vc04Hex(mut[1:])...)
	}
	return c
}

func vc04Tag(ty uint16, v []byte) []byte {
	return append([]byte{byte(ty >> 8), byte(ty), byte(len(v) >> 8), byte(len(v))}, v...)
}

// independent extraction of the AC-Cookie from a PADO payload
func vc04FindCookie(p []byte) []byte {
	for len(p) >= 4 {
		ty := uint16(p[0])<<8 | uint16(p[1])
		ln := int(p[2])<<8 | int(p[3])
		p = p[4:]
		if ln > len(p) {
			return nil
		}
		if ty == 0x0104 {
			return append([]byte{}, p[:ln]...)
		}
		p = p[ln:]
	}
	return nil
}

// session-stage packet kinds: PPP protocol and PPP payload
func vc04Frame(kind string) (uint16, []byte) {
	switch kind {
	case "cr": // LCP Configure-Request
		return 0xc021, []byte{1, 1, 0, 4}
	case "ca": // LCP Configure-Ack
		return 0xc021, []byte{2, 1, 0, 4}
	case "cn": // LCP Configure-Nak
		return 0xc021, []byte{3, 1, 0, 4}
	case "tr": // LCP Terminate-Request
		return 0xc021, []byte{5, 1, 0, 4}
	case "ta": // LCP Terminate-Ack
		return 0xc021, []byte{6, 1, 0, 4}
	case "cj": // LCP Code-Reject
		return 0xc021, []byte{7, 1, 0, 8, 99, 1, 0, 4}
	case "pj": // LCP Protocol-Reject (IPCP)
		return 0xc021, []byte{8, 1, 0, 6, 0x80, 0x21}
	case "er": // LCP Echo-Request
		return 0xc021, []byte{9, 1, 0, 8, 0, 0, 0, 0}
	case "ep": // LCP Echo-Reply
		return 0xc021, []byte{10, 1, 0, 8, 0, 0, 0, 0}
	case "pap": // PAP Authenticate-Ack (a PAP frame that reaches the session without renaming it; the renaming
		// path is exercised by the name: kind, which the model follows)
		return 0xc023, []byte{2, 1, 0, 5, 0}
	case "chap": // CHAP Response
		return 0xc223, []byte{2, 1, 0, 7, 1, 0xaa, 'u'}
	case "ip": // IPCP Configure-Request
		return 0x8021, []byte{1, 1, 0, 4}
	case "i6": // IPv6CP Configure-Request
		return 0x8057, []byte{1, 1, 0, 4}
	case "v6": // IPv6 datagram (truncated header)
		return 0x0057, []byte{0x60, 0, 0, 0, 0, 0, 59, 1}
	case "unk": // unknown protocol
		return 0x1234, []byte{1, 1, 0, 4}
	}
	return 0xc021, []byte{1, 1, 0, 4}
}

// vc04WaitUntil sleeps until the wall clock is inside second `sec` (at least 100 ms into it).
func vc04WaitUntil(sec int64) bool {
	for {
		t := time.Now()
		if t.Unix() > sec {
			return false
		}
		if t.Unix() == sec && t.Nanosecond() >= 100000000 {
			return t.Nanosecond() < 900000000
		}
		d := time.Unix(sec, 100000000).Sub(t)
		if d < time.Millisecond {
			d = time.Millisecond
		}
		time.Sleep(d)
	}
}

type vc04World struct {
	c        *Component
	bus      *vc04Bus
	gate     *vc04Gate
	made     []string // cookies generated for the current op (hex)
	now      int64 // first second of the case: forged cookies are dated relative to it
	cur      int64 // second the clock is in now (after W ops)
	unstable bool
	uid      map[*SessionState]int
	byName   map[string]*SessionState
	order    []*SessionState // non-bulk sessions in uid order
	nbulk    int
	bulk     []*SessionState
	lastPado []byte
	hcount   int
}

func (w *vc04World) register(s *SessionState, bulk bool) int {
	if u, ok := w.uid[s]; ok {
		return u
	}
	u := len(w.uid)
	w.uid[s] = u
	w.byName[s.SessionID] = s
	if bulk {
		w.bulk = append(w.bulk, s)
	} else {
		w.order = append(w.order, s)
	}
	return u
}

func vc04Build(f []string) *vc04World {
	ttl, _ := strconv.Atoi(f[1])
	cm, err := pppoe.NewCookieManager(time.Second)
	if err != nil {
		panic(err)
	}
	vc04SetTTL(cm, int64(ttl))
	g := strings.Split(strings.TrimPrefix(f[2], "G="), "-")
	ifMgr := ifmgr.New()
	ifMgr.Add(&ifmgr.Interface{SwIfIndex: 10, SupSwIfIndex: 2, Name: "TenGigE0/0.100", Type: ifmgr.IfTypeSub, OuterVlanID: 100})
	ifMgr.Add(&ifmgr.Interface{SwIfIndex: 2, Name: "TenGigE0/0", Type: ifmgr.IfTypeHardware, MAC: []byte{0x52, 0x54, 0x00, 0x11, 0x22, 0x33}})
	bus := &vc04Bus{}
	gate := &vc04Gate{}
	c := &Component{
		Base:             component.NewBase("pppoe-c04"),
		logger:           logger.NewTest(),
		eventBus:         bus,
		ifMgr:            ifMgr,
		cfgMgr:           &vc04Cfg{lo: vc04U16(g[0]), hi: vc04U16(g[1])},
		accessResolver:   gate,
		opdb:             &vc04DB{m: map[string]map[string][]byte{}},
		cache:            vc04Cache{},
		acName:           defaultACName,
		cookieMgr:        cm,
		sessions:         make(map[string]*SessionState),
		sidIndex:         make(map[uint16]*SessionState),
		sessionIDIndex:   make(map[string]*SessionState),
		acctSessionIndex: make(map[string]*SessionState),
		usernameIndex:    make(map[string]*SessionState),
		ipv4Index:        make(map[string]*SessionState),
		ipv6Index:        make(map[string]*SessionState),
		raBuckets:        make(map[int][]string),
		nextSessionID:    1,
	}
	c.SetReadyState(component.StateReady)
	c.StartContext(context.Background())
	gate.sidMu = &c.sidMu
	w := &vc04World{c: c, bus: bus, gate: gate, uid: map[*SessionState]int{}, byName: map[string]*SessionState{}}
	if occ := strings.TrimPrefix(f[3], "occ="); occ != "-" {
		for _, r := range strings.Split(occ, ",") {
			ab := strings.Split(r, "-")
			a, _ := strconv.Atoi(ab[0])
			b, _ := strconv.Atoi(ab[1])
			for i := a; i <= b; i++ {
				w.restore(uint16(i), net.HardwareAddr{2, 0, 0, 0, byte(i >> 8), byte(i)}, 3000, 0, true, "")
			}
		}
	}
	w.nbulk = len(w.bulk)
	if nx := strings.TrimPrefix(f[4], "next="); nx != "-" {
		c.nextSessionID = vc04U16(nx)
	}
	return w
}

func (w *vc04World) restore(sid uint16, mac net.HardwareAddr, sv, cv uint16, bulk bool, user string) int {
	s := &SessionState{SessionID: fmt.Sprintf("r%d", len(w.uid)), PPPoESessionID: sid, MAC: mac, OuterVLAN: sv, InnerVLAN: cv,
		SwIfIndex: 0, EncapIfIndex: 10, Attributes: map[string]string{}, Username: user}
	w.c.installInMemoryState(s)
	return w.register(s, bulk)
}

func (w *vc04World) pkt(mac []byte, sv, cv uint16, code layers.PPPoECode, sid uint16, payload []byte) *dataplane.ParsedPacket {
	pe := &layers.PPPoE{Version: 1, Type: 1, Code: code, SessionId: sid, Length: uint16(len(payload))}
	pe.Payload = payload
	return &dataplane.ParsedPacket{Protocol: models.ProtocolPPPoEDiscovery, MAC: net.HardwareAddr(mac), OuterVLAN: sv, InnerVLAN: cv,
		SwIfIndex: 10, PPPoE: pe}
}

func (w *vc04World) cookie(spec string, mac []byte, sv, cv uint16) []byte {
	p := strings.Split(spec, ":")
	if p[0] == "P" {
		return vc04Mutate(w.lastPado, p[1])
	}
	if p[0] == "r" { // raw bytes nobody issued
		return vc04Hex(p[1])
	}
	return vc04Mutate(w.gen(vc04Hex(p[1]), vc04U16(p[2]), vc04U16(p[3])), p[4])
}

// gen obtains a cookie from the component's own cookie manager and reports it with the op
func (w *vc04World) gen(mac []byte, sv, cv uint16) []byte {
	ck := w.c.cookieMgr.Generate(net.HardwareAddr(mac), sv, cv)
	w.made = append(w.made, vc04Show(ck))
	return ck
}

func vc04SetTTL(cm *pppoe.CookieManager, seconds int64) {
	tv := reflect.ValueOf(cm).Elem().FieldByName("ttl")
	reflect.NewAt(tv.Type(), unsafe.Pointer(tv.UnsafeAddr())).Elem().SetInt(seconds * int64(time.Second))
}

func (w *vc04World) tags(spec string, mac []byte, sv, cv uint16) []byte {
	var out []byte
	if spec == "-" {
		return out
	}
	for _, it := range strings.Split(spec, ",") {
		switch it[0] {
		case 's':
			out = append(out, vc04Tag(0x0101, nil)...)
		case 'h':
			out = append(out, vc04Tag(0x0103, vc04Hex(it[1:]))...)
		case 'e':
			out = append(out, vc04Tag(0x0000, nil)...)
		case 'm':
			out = append(out, vc04Tag(0x0120, vc04Hex(it[1:]))...)
		case 'r':
			out = append(out, vc04Hex(it[1:])...)
		case 'n':
			out = append(out, vc04Tag(0x0101, vc04Hex(it[1:]))...)
		case 'a':
			out = append(out, vc04Tag(0x0102, vc04Hex(it[1:]))...)
		case 'y':
			out = append(out, vc04Tag(0x0110, vc04Hex(it[1:]))...)
		case 'v':
			out = append(out, vc04Tag(0x0105, vc04Hex(it[1:]))...)
		case 'c':
			out = append(out, vc04Tag(0x0104, w.cookie(it[1:], mac, sv, cv))...)
		}
	}
	return out
}

func (w *vc04World) key(mac []byte, sv, cv uint16) string {
	return w.c.sessionKey(net.HardwareAddr(mac), sv, cv)
}

func (w *vc04World) uids(names []string) string {
	var us []int
	for _, n := range names {
		if s, ok := w.byName[n]; ok {
			us = append(us, w.uid[s])
		} else {
			us = append(us, -1)
		}
	}
	sort.Ints(us)
	var sb []string
	for _, u := range us {
		sb = append(sb, "u"+strconv.Itoa(u))
	}
	return strings.Join(sb, "+")
}

func (w *vc04World) op(tok string) string {
	w.made = nil
	r := w.op1(tok)
	if len(w.made) > 0 {
		r += "|" + strings.Join(w.made, ";")
	}
	return r
}

func (w *vc04World) op1(tok string) string {
	p := strings.Split(tok, "/")
	c := w.c
	w.bus.take()
	switch p[0] {
	case "I":
		mac, sv, cv := vc04Hex(p[1]), vc04U16(p[2]), vc04U16(p[3])
		pl := vc04Tag(0x0101, nil)
		if len(p) > 4 {
			pl = w.tags(p[4], mac, sv, cv)
		}
		c.handlePADI(w.pkt(mac, sv, cv, layers.PPPoECodePADI, 0, pl))
		eg, _ := w.bus.take()
		for _, e := range eg {
			if e.code == byte(layers.PPPoECodePADO) {
				if e.dst != net.HardwareAddr(mac).String() || e.sv != sv || e.cv != cv || e.sid != 0 {
					return "BADPADO"
				}
				w.lastPado = vc04FindCookie(e.payload)
				return "pado:" + vc04Show(w.lastPado)
			}
		}
		return "none"
	case "R":
		mac, sv, cv := vc04Hex(p[1]), vc04U16(p[2]), vc04U16(p[3])
		before := c.sessions[w.key(mac, sv, cv)]
		nb := len(c.sidIndex)
		c.handlePADR(w.pkt(mac, sv, cv, layers.PPPoECodePADR, 0, w.tags(p[4], mac, sv, cv)))
		after := c.sessions[w.key(mac, sv, cv)]
		eg, _ := w.bus.take()
		pads := -1
		for _, e := range eg {
			if e.code == byte(layers.PPPoECodePADS) {
				if e.dst != net.HardwareAddr(mac).String() || e.sv != sv || e.cv != cv {
					return "BADPADS"
				}
				pads = int(e.sid)
			}
		}
		if after == before || after == nil {
			if pads >= 0 {
				return "PADS-WITHOUT-SESSION"
			}
			if len(c.sidIndex) != nb {
				return "SIDINDEX-CHANGED"
			}
			return "none"
		}
		u := w.register(after, false)
		if pads != int(after.PPPoESessionID) {
			return fmt.Sprintf("created:%d:u%d:pads=%d", after.PPPoESessionID, u, pads)
		}
		if !bytes.Equal(mac, after.MAC) || after.OuterVLAN != sv || after.InnerVLAN != cv {
			return "WRONGTUPLE"
		}
		return fmt.Sprintf("pads:%d:u%d", pads, u)
	case "T":
		mac, sv, cv, sid := vc04Hex(p[1]), vc04U16(p[2]), vc04U16(p[3]), vc04U16(p[4])
		c.handlePADT(w.pkt(mac, sv, cv, layers.PPPoECodePADT, sid, nil))
		_, rel := w.bus.take()
		if len(rel) == 0 {
			return "none"
		}
		return "term:" + w.uids(rel)
	case "D":
		c.handleDeadPeer(vc04U16(p[1]))
		_, rel := w.bus.take()
		if len(rel) == 0 {
			return "none"
		}
		return "term:" + w.uids(rel)
	case "S":
		mac, sv, cv, sid := vc04Hex(p[1]), vc04U16(p[2]), vc04U16(p[3]), vc04U16(p[4])
		watch := append([]*SessionState{}, w.order...)
		if s := c.sidIndex[sid]; s != nil {
			watch = append(watch, s)
		}
		for _, s := range watch {
			s.LastSeen = time.Time{}
		}
		proto, frame := vc04Frame(p[5])
		if strings.HasPrefix(p[5], "name:") {
			// CHAP Response carrying the peer name <hex>; the target is put into the Authenticate phase first
			// (white-box: the LCP handshake itself is C05's subject)
			if s := c.sidIndex[sid]; s != nil {
				s.Phase = ppp.PhaseAuthenticate
			}
			name := vc04Hex(p[5][5:])
			frame = append([]byte{2, 1, 0, byte(4 + 2 + len(name)), 1, 0xaa}, name...)
			proto = 0xc223
		}
		pk := w.pkt(mac, sv, cv, layers.PPPoECodeSession, sid, nil)
		pk.Protocol = models.ProtocolPPPoESession
		pk.PPP = &layers.PPP{PPPType: layers.PPPType(proto)}
		pk.PPP.Payload = frame
		c.handleSession(pk)
		eg, _ := w.bus.take()
		hit := map[int]bool{}
		for _, s := range watch {
			if !s.LastSeen.IsZero() {
				hit[w.uid[s]] = true
			}
		}
		for _, e := range eg {
			if e.code == 0 {
				found := false
				for s, u := range w.uid {
					live := c.sidIndex[s.PPPoESessionID] == s || c.sessions[w.key(s.MAC, s.OuterVLAN, s.InnerVLAN)] == s
					if live && s.PPPoESessionID == e.sid && s.MAC.String() == e.dst && s.OuterVLAN == e.sv && s.InnerVLAN == e.cv {
						hit[u] = true
						found = true
					}
				}
				if !found {
					hit[-1] = true
				}
			}
		}
		if len(hit) == 0 {
			return "none"
		}
		var us []int
		for u := range hit {
			us = append(us, u)
		}
		sort.Ints(us)
		var sb []string
		for _, u := range us {
			sb = append(sb, "u"+strconv.Itoa(u))
		}
		return "reach:" + strings.Join(sb, "+")
	case "F", "A":
		// F/-<k>: the queued dataplane add of the k-th most recently created (non-bulk) session object fails:
		//         sess.onVPPSessionCreated(0, err) -> tearDownSessionAfterVPPFailure, unless already torn down
		// A/-<k>: AAA answers the outstanding request of that session object with a reject:
		//         handleAAAResponse(Allowed=false) -> handleDeadPeer(sid)
		k, _ := strconv.Atoi(strings.TrimPrefix(p[1], "-"))
		if k < 1 || k > len(w.order) {
			return "nosess"
		}
		s := w.order[len(w.order)-k]
		if p[0] == "F" {
			s.onVPPSessionCreated(0, fmt.Errorf("dataplane add failed"))
		} else {
			s.mu.Lock()
			req := s.pendingAuthRequestID
			s.mu.Unlock()
			if req == "" {
				return "none"
			}
			c.handleAAAResponse(events.Event{Data: &events.AAAResponseEvent{Response: models.AAAResponse{RequestID: req, Allowed: false}}})
		}
		_, rel := w.bus.take()
		seen := map[string]bool{}
		var uniq []string
		for _, r := range rel {
			if !seen[r] {
				seen[r] = true
				uniq = append(uniq, r)
			}
		}
		if len(uniq) == 0 {
			return "none"
		}
		return "term:" + w.uids(uniq)
	case "H":
		// H/<sid>/<mac>/<sv>/<cv>[/<userhex>]: one checkpoint synced from the HA peer, then restoreFromHASync("srg1")
		sid, mac, sv, cv := vc04U16(p[1]), vc04Hex(p[2]), vc04U16(p[3]), vc04U16(p[4])
		user := ""
		if len(p) > 5 {
			user = string(vc04Hex(p[5]))
		}
		name := fmt.Sprintf("h%d", len(w.uid)+w.hcount)
		w.hcount++
		cp := &hapb.SessionCheckpoint{SessionId: name, SrgName: "srg1", Mac: mac, OuterVlan: uint32(sv), InnerVlan: uint32(cv),
			Username: user, AaaSessionId: "a" + name, PppoeSessionId: uint32(sid)}
		raw, _ := proto.Marshal(cp)
		c.opdb.Put(context.Background(), opdb.NamespaceHASyncedPPPoE, name, raw)
		c.vpp = vc04SB{}
		c.restoreFromHASync("srg1")
		c.vpp = nil
		c.opdb.Delete(context.Background(), opdb.NamespaceHASyncedPPPoE, name)
		c.sessionMu.RLock()
		s := c.sessionIDIndex[name]
		c.sessionMu.RUnlock()
		if s == nil {
			return "none"
		}
		return "synced:u" + strconv.Itoa(w.register(s, false))
	case "J":
		// J/<sid>/<mac>/<sv>/<cv>/<rmac>: the HA restore of one checkpoint concurrently with one PADR of <rmac> (same VLANs);
		// the id is chosen by the generator so that both orders give the same result.  Run under -race by hand.
		sid, mac, sv, cv, rmac := vc04U16(p[1]), vc04Hex(p[2]), vc04U16(p[3]), vc04U16(p[4]), vc04Hex(p[5])
		name := fmt.Sprintf("h%d", len(w.uid)+w.hcount)
		w.hcount++
		cp := &hapb.SessionCheckpoint{SessionId: name, SrgName: "srg1", Mac: mac, OuterVlan: uint32(sv), InnerVlan: uint32(cv),
			AaaSessionId: "a" + name, PppoeSessionId: uint32(sid)}
		raw, _ := proto.Marshal(cp)
		c.opdb.Put(context.Background(), opdb.NamespaceHASyncedPPPoE, name, raw)
		c.vpp = vc04SB{}
		pk := w.pkt(rmac, sv, cv, layers.PPPoECodePADR, 0, vc04Tag(0x0104, w.gen(rmac, sv, cv)))
		var wg sync.WaitGroup
		wg.Add(2)
		go func() { defer wg.Done(); c.restoreFromHASync("srg1") }()
		go func() { defer wg.Done(); c.handlePADR(pk) }()
		wg.Wait()
		c.vpp = nil
		c.opdb.Delete(context.Background(), opdb.NamespaceHASyncedPPPoE, name)
		eg, _ := w.bus.take()
		pads := "none"
		for _, e := range eg {
			if e.code == byte(layers.PPPoECodePADS) {
				pads = strconv.Itoa(int(e.sid))
			}
		}
		res := "none"
		c.sessionMu.RLock()
		hs := c.sessionIDIndex[name]
		rs := c.sessions[w.key(rmac, sv, cv)]
		c.sessionMu.RUnlock()
		if hs != nil {
			res = "u" + strconv.Itoa(w.register(hs, false))
		}
		if rs != nil && pads != "none" {
			pads += ":u" + strconv.Itoa(w.register(rs, false))
		}
		return "join:" + res + ":" + pads
	case "K":
		// K/<mac>/<sv.cv>,<sv.cv>,...: which of these tuples does sessionKey render identically (class ids)
		var keys []string
		for _, q := range strings.Split(p[2], ",") {
			ab := strings.Split(q, ".")
			keys = append(keys, c.sessionKey(net.HardwareAddr(vc04Hex(p[1])), vc04U16(ab[0]), vc04U16(ab[1])))
		}
		var cls []string
		for i := range keys {
			id := i
			for j := 0; j < i; j++ {
				if keys[j] == keys[i] {
					id = j
					break
				}
			}
			cls = append(cls, strconv.Itoa(id))
		}
		return "kcls:" + strings.Join(cls, ".")
	case "W":
		k, _ := strconv.ParseInt(p[1], 10, 64)
		if time.Now().Unix() != w.cur || !vc04WaitUntil(w.now+k) {
			w.unstable = true
		}
		w.cur = w.now + k
		return "-"
	case "L":
		n, _ := strconv.ParseInt(p[1], 10, 64)
		vc04SetTTL(c.cookieMgr, n)
		return "-"
	case "X":
		sid, mac, sv, cv := vc04U16(p[1]), vc04Hex(p[2]), vc04U16(p[3]), vc04U16(p[4])
		user := ""
		if len(p) > 5 {
			user = string(vc04Hex(p[5]))
		}
		return "restored:u" + strconv.Itoa(w.restore(sid, net.HardwareAddr(mac), sv, cv, false, user))
	case "P":
		// n PADRs (distinct MACs, valid cookies) forced to overlap between allocateSessionID and addToIndexes
		n, _ := strconv.Atoi(p[1])
		sv := vc04U16(p[2])
		w.gate.mu.Lock()
		w.gate.armed, w.gate.want, w.gate.inside, w.gate.locked, w.gate.finished, w.gate.timeout, w.gate.release =
			true, n, 0, 0, 0, false, make(chan struct{})
		w.gate.waiting = 0
		w.gate.mu.Unlock()
		c.sessionMu.RLock() // harness reader: see probeReservation
		var wg sync.WaitGroup
		for i := 0; i < n; i++ {
			mac := []byte{0x0a, 0, 0, 0, byte(i >> 8), byte(i)}
			pl := vc04Tag(0x0104, w.gen(mac, sv, 0))
			pk := w.pkt(mac, sv, 0, layers.PPPoECodePADR, 0, pl)
			wg.Add(1)
			go func() {
				defer wg.Done()
				defer func() { w.gate.mu.Lock(); w.gate.finished++; w.gate.mu.Unlock() }()
				c.handlePADR(pk)
			}()
		}
		go w.gate.supervise()
		probe := w.probeReservation(n)
		c.sessionMu.RUnlock()
		wg.Wait()
		w.gate.mu.Lock()
		w.gate.armed = false
		gateInfo := fmt.Sprintf("/g%d.%d/p%s", w.gate.locked, w.gate.inside, probe)
		if w.gate.timeout {
			gateInfo += ".TIMEOUT"
		}
		w.gate.mu.Unlock()
		eg, _ := w.bus.take()
		var sids []int
		for _, e := range eg {
			if e.code == byte(layers.PPPoECodePADS) {
				sids = append(sids, int(e.sid))
			}
		}
		sort.Ints(sids)
		var sb []string
		for i := 0; i < n; i++ {
			mac := []byte{0x0a, 0, 0, 0, byte(i >> 8), byte(i)}
			if s := c.sessions[w.key(mac, sv, 0)]; s != nil {
				w.register(s, true)
			}
		}
		for _, s := range sids {
			sb = append(sb, strconv.Itoa(s))
		}
		return "ovl:" + strings.Join(sb, "+") + gateInfo
	case "C":
		n, _ := strconv.Atoi(p[1])
		sv := vc04U16(p[2])
		var wg sync.WaitGroup
		for i := 0; i < n; i++ {
			mac := []byte{6, 0, 0, 0, byte(i >> 8), byte(i)}
			pl := vc04Tag(0x0104, w.gen(mac, sv, 0))
			pk := w.pkt(mac, sv, 0, layers.PPPoECodePADR, 0, pl)
			wg.Add(1)
			go func() { defer wg.Done(); c.handlePADR(pk) }()
		}
		wg.Wait()
		eg, _ := w.bus.take()
		var sids []int
		for _, e := range eg {
			if e.code == byte(layers.PPPoECodePADS) {
				sids = append(sids, int(e.sid))
			}
		}
		sort.Ints(sids)
		var sb []string
		for i := 0; i < n; i++ {
			mac := []byte{6, 0, 0, 0, byte(i >> 8), byte(i)}
			if s := c.sessions[w.key(mac, sv, 0)]; s != nil {
				w.register(s, true)
			}
		}
		for _, s := range sids {
			sb = append(sb, strconv.Itoa(s))
		}
		return "conc:" + strings.Join(sb, "+")
	}
	return "badop"
}

func (w *vc04World) dump() string {
	c := w.c
	bs, bt := 0, 0
	for _, s := range w.bulk {
		if c.sidIndex[s.PPPoESessionID] == s {
			bs++
		}
		if c.sessions[w.key(s.MAC, s.OuterVLAN, s.InnerVLAN)] == s {
			bt++
		}
	}
	parts := []string{fmt.Sprintf("n=%d/%d bulk=%d/%d", len(c.sidIndex), len(c.sessions), bs, bt)}
	for _, s := range w.order {
		a, b := 0, 0
		if c.sidIndex[s.PPPoESessionID] == s {
			a = 1
		}
		if c.sessions[w.key(s.MAC, s.OuterVLAN, s.InnerVLAN)] == s {
			b = 1
		}
		d, e := 0, 0
		if c.sessionIDIndex[s.SessionID] == s {
			d = 1
		}
		if s.Username != "" && c.usernameIndex[s.Username] == s {
			e = 1
		}
		parts = append(parts, fmt.Sprintf("u%d:%d:%d%d%d%d", w.uid[s], s.PPPoESessionID, a, b, d, e))
	}
	return strings.Join(parts, " ")
}

func (w *vc04World) shutdown() {
	for s := range w.uid {
		if s.chapRetryTimer != nil {
			s.chapRetryTimer.Stop()
		}
		if s.lcp != nil {
			s.lcp.FSM().Kill()
		}
		if s.ipcp != nil {
			s.ipcp.FSM().Kill()
		}
		if s.ipv6cp != nil {
			s.ipv6cp.FSM().Kill()
		}
	}
}

func vc04Case(line string) (res string) {
	defer func() {
		if r := recover(); r != nil {
			res = "panic " + strings.ReplaceAll(fmt.Sprint(r), " ", "_")
		}
	}()
	f := strings.Fields(line)
	if len(f) < 6 || f[0] != "tb" || f[5] != ";" {
		return "badline"
	}
	for attempt := 0; attempt < 10; attempt++ {
		w := vc04Build(f)
		t0 := time.Now()
		if ns := t0.Nanosecond(); ns < 1000 || ns > 800000000 {
			time.Sleep(time.Duration(1000001000-ns) * time.Nanosecond)
			t0 = time.Now()
		}
		w.now = t0.Unix()
		w.cur = w.now
		outs := []string{fmt.Sprintf("now=%d", w.now)}
		for _, tok := range f[6:] {
			outs = append(outs, w.op(tok))
		}
		outs = append(outs, ";", w.dump())
		w.shutdown()
		if w.unstable || time.Now().Unix() != w.cur {
			continue
		}
		return strings.Join(outs, " ")
	}
	return "clock-unstable"
}

func TestVerifC04Int(t *testing.T) {
	in, err := os.Open(os.Getenv("VERIF_CASES"))
	if err != nil {
		t.Fatal(err)
	}
	defer in.Close()
	out, err := os.Create(os.Getenv("VERIF_OUT"))
	if err != nil {
		t.Fatal(err)
	}
	defer out.Close()
	wr := bufio.NewWriter(out)
	defer wr.Flush()
	sc := bufio.NewScanner(in)
	sc.Buffer(make([]byte, 1<<20), 1<<26)
	for sc.Scan() {
		done := make(chan string, 1)
		line := sc.Text()
		go func() { done <- vc04Case(line) }()
		select {
		case r := <-done:
			fmt.Fprintln(wr, r)
		case <-time.After(120 * time.Second):
			fmt.Fprintln(wr, "hang")
		}
	}
}
