//go:build verif

// Read-only accessors for the C11 correspondence harness (injected with -overlay; not part of the product).
package allocator

import (
	"net/netip"
	"sort"
)

type VerifC11Lease struct {
	Fam  int // 4, 6 (IANA), 7 (PD)
	Pool string
	Addr netip.Addr // for PD: the delegated prefix's network address
	Sid  string
}

func (r *Registry) VerifC11Leases() []VerifC11Lease {
	r.mu.RLock()
	defer r.mu.RUnlock()
	var out []VerifC11Lease
	for name, a := range r.allocators {
		a.mu.Lock()
		for addr, sid := range a.leases {
			out = append(out, VerifC11Lease{4, name, addr, sid})
		}
		a.mu.Unlock()
	}
	for name, a := range r.ianaAllocators {
		a.mu.Lock()
		for addr, sid := range a.leases {
			out = append(out, VerifC11Lease{6, name, addr, sid})
		}
		a.mu.Unlock()
	}
	for name, a := range r.pdAllocators {
		a.mu.Lock()
		for idx, sid := range a.leases {
			n := a.indexToIPNet(idx)
			addr, _ := netip.AddrFromSlice(n.IP)
			out = append(out, VerifC11Lease{7, name, addr, sid})
		}
		a.mu.Unlock()
	}
	return out
}

// VerifC11Avail returns "fam/pool" -> len(free)
func (r *Registry) VerifC11Avail() map[string]int {
	r.mu.RLock()
	defer r.mu.RUnlock()
	out := map[string]int{}
	for name, a := range r.allocators {
		out["4/"+name] = a.Available()
	}
	for name, a := range r.ianaAllocators {
		out["6/"+name] = a.Available()
	}
	for name, a := range r.pdAllocators {
		a.mu.Lock()
		out["7/"+name] = len(a.free)
		a.mu.Unlock()
	}
	return out
}

// VerifC11Free returns "fam/pool" -> the free list in its order (what Allocate pops from the end of)
func (r *Registry) VerifC11Free() map[string][]netip.Addr {
	r.mu.RLock()
	defer r.mu.RUnlock()
	out := map[string][]netip.Addr{}
	for name, a := range r.allocators {
		a.mu.Lock()
		out["4/"+name] = append([]netip.Addr(nil), a.free...)
		a.mu.Unlock()
	}
	for name, a := range r.ianaAllocators {
		a.mu.Lock()
		out["6/"+name] = append([]netip.Addr(nil), a.free...)
		a.mu.Unlock()
	}
	for name, a := range r.pdAllocators {
		a.mu.Lock()
		l := make([]netip.Addr, 0, len(a.free))
		for _, idx := range a.free {
			addr, _ := netip.AddrFromSlice(a.indexToIPNet(idx).IP)
			l = append(l, addr)
		}
		out["7/"+name] = l
		a.mu.Unlock()
	}
	return out
}

func VerifC11SortedKeys(m map[string]int) []string {
	ks := make([]string, 0, len(m))
	for k := range m {
		ks = append(ks, k)
	}
	sort.Strings(ks)
	return ks
}
