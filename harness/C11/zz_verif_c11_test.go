//go:build verif

package ha

// C11 correspondence harness: real SyncBacklog, SyncSender.HandleEvent, SyncReceiver, HAPeerServer.BulkSync and a
// real allocator.Registry; an in-memory opdb.Store.  One output line per case line (see props/C11.py).

import (
	"bufio"
	"context"
	"fmt"
	"math/big"
	"net"
	"net/netip"
	"os"
	"sort"
	"strconv"
	"strings"
	"sync"
	"testing"
	"time"

	hapb "github.com/veesix-networks/osvbng/api/proto/ha"
	"github.com/veesix-networks/osvbng/pkg/allocator"
	"github.com/veesix-networks/osvbng/pkg/config"
	ipcfg "github.com/veesix-networks/osvbng/pkg/config/ip"
	"github.com/veesix-networks/osvbng/pkg/events"
	"github.com/veesix-networks/osvbng/pkg/logger"
	"github.com/veesix-networks/osvbng/pkg/models"
	"github.com/veesix-networks/osvbng/pkg/opdb"
	"google.golang.org/grpc"
	"google.golang.org/protobuf/proto"
)

// ---------- in-memory opdb.Store ----------
type vc11Store struct {
	mu       sync.Mutex
	data     map[string]map[string][]byte
	failNext bool // the next Put/Delete returns an error (once)
}

func (m *vc11Store) Put(_ context.Context, ns, key string, value []byte) error {
	m.mu.Lock()
	defer m.mu.Unlock()
	if m.failNext {
		m.failNext = false
		return fmt.Errorf("injected store failure")
	}
	if m.data[ns] == nil {
		m.data[ns] = map[string][]byte{}
	}
	m.data[ns][key] = append([]byte(nil), value...)
	return nil
}
func (m *vc11Store) Delete(_ context.Context, ns, key string) error {
	m.mu.Lock()
	defer m.mu.Unlock()
	if m.failNext {
		m.failNext = false
		return fmt.Errorf("injected store failure")
	}
	delete(m.data[ns], key)
	return nil
}
func (m *vc11Store) Load(_ context.Context, ns string, fn opdb.LoadFunc) error {
	m.mu.Lock()
	defer m.mu.Unlock()
	for k, v := range m.data[ns] {
		if err := fn(k, v); err != nil {
			return err
		}
	}
	return nil
}
func (m *vc11Store) Count(_ context.Context, ns string) (int, error) {
	m.mu.Lock()
	defer m.mu.Unlock()
	return len(m.data[ns]), nil
}
func (m *vc11Store) Clear(_ context.Context, ns string) error {
	m.mu.Lock()
	defer m.mu.Unlock()
	delete(m.data, ns)
	return nil
}
func (m *vc11Store) Stats() opdb.Stats { return opdb.Stats{} }
func (m *vc11Store) Close() error      { return nil }

// ---------- fake server stream for BulkSync ----------
type vc11Stream struct {
	grpc.ServerStream
	pages  [][]byte // serialized when sent, as gRPC does
	onSend func(*hapb.BulkSyncResponse)
}

func (s *vc11Stream) Send(r *hapb.BulkSyncResponse) error {
	data, err := proto.Marshal(r)
	if err != nil {
		return err
	}
	s.pages = append(s.pages, data)
	if s.onSend != nil {
		s.onSend(r)
	}
	return nil
}
func (s *vc11Stream) Context() context.Context { return context.Background() }

// ---------- the active node's session tables, as the components expose them to the HA manager ----------
// order: keys in the order the sessions became live (a released and re-created session moves to the end), the
// order the model's snapshot uses; production iterates Go maps, i.e. in no particular order
// part/parts: this iterator walks the part-th of parts contiguous chunks of that order (production registers one iterator
// per access component; bulkSyncFromIterators only sees a list of iterators and must carry its page across them)
type vc11Iter struct {
	live        map[string]*vc11Sess
	order       *[]string
	part, parts int
}

func (it *vc11Iter) ForEachSession(fn func(models.SubscriberSession) bool) {
	all := append([]string(nil), (*it.order)...)
	keys := all[len(all)*it.part/it.parts : len(all)*(it.part+1)/it.parts]
	snap := make([]models.SubscriberSession, 0, len(keys))
	for _, k := range keys {
		s := *it.live[k]
		s.rel = false
		snap = append(snap, s.build())
	}
	for _, sess := range snap {
		if !fn(sess) {
			return
		}
	}
}

// ---------- number helpers ----------
func vc11Big(s string) *big.Int {
	b, ok := new(big.Int).SetString(s, 10)
	if !ok {
		panic("bad number " + s)
	}
	return b
}
func vc11U64(s string) uint64 {
	b := vc11Big(s)
	m := new(big.Int).Lsh(big.NewInt(1), 64)
	b.Mod(b, m)
	return b.Uint64()
}
func vc11Int(s string) int { n, _ := strconv.Atoi(s); return n }
func vc11Bytes(b *big.Int, n int) []byte {
	out := make([]byte, n)
	b.FillBytes(out)
	return out
}
func vc11Hex(b []byte) string {
	if len(b) == 0 {
		return "-"
	}
	return fmt.Sprintf("%x", b)
}
func vc11Idx(s, prefix string) int {
	if s == "" {
		return 0
	}
	if !strings.HasPrefix(s, prefix) {
		return -1
	}
	n, err := strconv.Atoi(s[len(prefix):])
	if err != nil {
		return -1
	}
	return n
}
func vc11Name(i int, prefix string) string {
	if i == 0 {
		return ""
	}
	return prefix + strconv.Itoa(i)
}
func vc11OptBytes(tok, prefix string) []byte {
	if tok == "-" {
		return nil
	}
	return []byte(prefix + tok)
}
func vc11OptIdx(b []byte, prefix string) string {
	if len(b) == 0 {
		return "-"
	}
	return strconv.Itoa(vc11Idx(string(b), prefix))
}

// ---------- rng cases ----------
func vc11Rng(f []string) string {
	capacity := vc11Int(f[2]) // f[1] is the input class
	b := NewSyncBacklog(capacity)
	p := 3
	nseg := vc11Int(f[p])
	p++
	for i := 0; i < nseg; i++ {
		parts := strings.Split(f[p], "+")
		p++
		first := vc11U64(parts[0])
		n := vc11Int(parts[1])
		for j := 0; j < n; j++ {
			b.Push(&hapb.SyncSessionRequest{Sequence: first + uint64(j)})
		}
	}
	res := []string{fmt.Sprintf("size=%d old=%d new=%d", b.Size(), b.OldestSeq(), b.NewestSeq())}
	nq := vc11Int(f[p])
	p++
	// every answer is kept by the caller and read again while the ring goes on being pushed to (token A:<n>):
	// it must still be what it was when Range returned
	held := make([][]*hapb.SyncSessionRequest, nq)
	first := make([]string, nq)
	for i := 0; i < nq; i++ {
		from, to := vc11U64(f[p]), vc11U64(f[p+1])
		p += 2
		first[i], held[i] = vc11RangeHeld(b, from, to)
	}
	after := 0
	if p < len(f) && strings.HasPrefix(f[p], "A:") {
		after = vc11Int(f[p][2:])
	}
	changed := make([]string, nq)
	next := b.NewestSeq() + 1
	for k := 1; k <= after; k++ {
		b.Push(&hapb.SyncSessionRequest{Sequence: next})
		next++
		if capacity > 64 && k != after {
			continue
		}
		for i := range held {
			if changed[i] == "" && first[i] != "panic" {
				if now := vc11SeqList(held[i]); now != first[i] {
					changed[i] = fmt.Sprintf("~>%s@%d", now, k)
				}
			}
		}
	}
	for i := range first {
		res = append(res, first[i]+changed[i])
	}
	return strings.Join(res, " ; ")
}

func vc11SeqList(l []*hapb.SyncSessionRequest) string {
	if len(l) == 0 {
		return "nil"
	}
	var s []string
	for _, e := range l {
		if e == nil {
			s = append(s, "x")
		} else {
			s = append(s, strconv.FormatUint(e.Sequence, 10))
		}
	}
	return strings.Join(s, ",")
}

func vc11RangeHeld(b *SyncBacklog, from, to uint64) (out string, l []*hapb.SyncSessionRequest) {
	defer func() {
		if r := recover(); r != nil {
			out, l = "panic", nil
		}
	}()
	l = b.Range(from, to)
	return vc11SeqList(l), l
}

// ---------- conc cases: HandleEvent run by concurrent handlers, as the event bus does (go h(event)) ----------
// A handler is stopped inside sessionToCheckpoint (the first getter it calls on the session blocks on a gate): on /repo
// HEAD that is after the sequence number has been taken and before the push; with number+push+enqueue under one lock
// (and the checkpoint built before) it is before the number is taken.  No sleeps: every step is a handshake.
type vc11GateSess struct {
	*models.IPoESession
	reached chan struct{}
	release chan struct{}
	once    sync.Once
}

func (g *vc11GateSess) GetSessionID() string {
	g.once.Do(func() {
		close(g.reached)
		<-g.release
	})
	return g.IPoESession.SessionID
}

func vc11Conc(f []string) string {
	capacity := vc11Int(f[2]) // f[1] is the input class
	log := logger.NewTest()
	ss := NewSyncSender(nil, capacity, []string{"srg1"}, log)
	ss.SetActive(true)
	type handler struct {
		sess *vc11GateSess
		done chan struct{}
	}
	hs := map[string]*handler{}
	start := func(id string, sid int, gated, mutation bool) *handler {
		gs := &vc11GateSess{IPoESession: &models.IPoESession{SessionID: vc11Name(sid, "s"), SRGName: "srg1",
			State: models.SessionStateActive, MAC: net.HardwareAddr{2, 0, 0, 0, 0, byte(sid)}},
			reached: make(chan struct{}), release: make(chan struct{})}
		if !gated {
			close(gs.release)
		}
		h := &handler{sess: gs, done: make(chan struct{})}
		go func() {
			defer close(h.done)
			defer func() { recover() }()
			if mutation {
				ss.HandleMutationResult(events.Event{Data: &events.SubscriberMutationResultEvent{
					SessionID: gs.IPoESession.SessionID, Ok: true, Session: gs}})
				return
			}
			ss.HandleEvent(events.Event{Data: &events.SessionLifecycleEvent{SessionID: gs.IPoESession.SessionID,
				State: models.SessionStateActive, Session: gs}})
		}()
		select {
		case <-gs.reached:
		case <-h.done:
		case <-time.After(10 * time.Second):
			panic("handler did not reach the gate")
		}
		return h
	}
	finish := func(h *handler) {
		select {
		case <-h.sess.release:
		default:
			close(h.sess.release)
		}
		select {
		case <-h.done:
		case <-time.After(10 * time.Second):
			panic("handler did not finish")
		}
	}
	for _, o := range f[3:] {
		t := strings.Split(o, ":")
		switch t[0] {
		case "H":
			hs[t[1]] = start(t[1], vc11Int(t[2]), true, false)
		case "G": // like H, through HandleMutationResult
			hs[t[1]] = start(t[1], vc11Int(t[2]), true, true)
		case "F":
			if h := hs[t[1]]; h != nil {
				finish(h)
				delete(hs, t[1])
			}
		case "E":
			finish(start("", vc11Int(t[1]), false, false))
		case "A": // role transition: Manager.driveSync -> SetActive
			ss.SetActive(t[1] == "1")
		}
	}
	for _, h := range hs { // never leave a goroutine behind
		finish(h)
	}
	b := ss.GetBacklog("srg1")
	var ring, stream []string
	var retained []uint64
	b.mu.Lock()
	for j := 0; j < b.size; j++ {
		e := b.entries[(b.head-b.size+b.capacity+j)%b.capacity]
		ring = append(ring, strconv.FormatUint(e.Sequence, 10))
		retained = append(retained, e.Sequence)
	}
	b.mu.Unlock()
	var streamSeq []uint64
drain:
	for {
		select {
		case q := <-ss.sendCh:
			stream = append(stream, strconv.FormatUint(q.Sequence, 10))
			streamSeq = append(streamSeq, q.Sequence)
		default:
			break drain
		}
	}
	consec := func(l []uint64) string {
		for i := 1; i < len(l); i++ {
			if l[i] != l[i-1]+1 {
				return "bad"
			}
		}
		return "ok"
	}
	// Range must return precisely the retained entries of the range, in sequence order
	n := uint64(len(streamSeq))
	exact := "ok"
	var answers []string
	for from := uint64(0); from <= n+1; from++ {
		for to := uint64(0); to <= n+1; to++ {
			got, _ := vc11RangeHeld(b, from, to)
			answers = append(answers, got)
			var want []uint64
			for _, s := range retained {
				if from <= s && s <= to {
					want = append(want, s)
				}
			}
			sort.Slice(want, func(i, j int) bool { return want[i] < want[j] })
			ws := "nil"
			if len(want) > 0 {
				p := make([]string, len(want))
				for i, s := range want {
					p[i] = strconv.FormatUint(s, 10)
				}
				ws = strings.Join(p, ",")
			}
			if got != ws {
				exact = "bad"
			}
		}
	}
	j := func(l []string) string {
		if len(l) == 0 {
			return "-"
		}
		return strings.Join(l, ",")
	}
	return fmt.Sprintf("seq=%d ring=%s stream=%s answers=%s ringconsec=%s streamorder=%s rangeexact=%s", ss.GetSeq("srg1"),
		j(ring), j(stream), strings.Join(answers, "|"), consec(retained), consec(streamSeq), exact)
}

// ---------- storm cases: many handlers at once, no gate (every point between the counter and the pushes is a preemption
// point for the scheduler).  All handlers of a round are released together by a barrier; the monitors are the same as for
// conc cases.  The output does not depend on the schedule when number, push and enqueue are one step.
func vc11Storm(f []string) string {
	capacity, workers, rounds := vc11Int(f[2]), vc11Int(f[3]), vc11Int(f[4])
	log := logger.NewTest()
	ss := NewSyncSender(nil, capacity, []string{"srg1"}, log)
	ss.SetActive(true)
	b := ss.GetBacklog("srg1")
	ringBad, streamBad, exactBad := 0, 0, 0
	var last uint64
	for r := 0; r < rounds; r++ {
		start := make(chan struct{})
		var wg sync.WaitGroup
		for w := 0; w < workers; w++ {
			wg.Add(1)
			sess := &models.IPoESession{SessionID: vc11Name(w+1, "s"), SRGName: "srg1", State: models.SessionStateActive,
				MAC: net.HardwareAddr{2, 0, 0, 0, byte(w >> 8), byte(w)}}
			mutation := w%3 == 2
			go func() {
				defer wg.Done()
				<-start
				if mutation {
					ss.HandleMutationResult(events.Event{Data: &events.SubscriberMutationResultEvent{SessionID: sess.SessionID, Ok: true, Session: sess}})
				} else {
					ss.HandleEvent(events.Event{Data: &events.SessionLifecycleEvent{SessionID: sess.SessionID, State: models.SessionStateActive, Session: sess}})
				}
			}()
		}
		close(start)
		wg.Wait()
		// stream order = sequence order
		prev := last
	drain:
		for {
			select {
			case q := <-ss.sendCh:
				if q.Sequence != prev+1 {
					streamBad++
				}
				prev = q.Sequence
			default:
				break drain
			}
		}
		last = prev
		// ring consecutive, and Range exact on the newest entries
		b.mu.Lock()
		var retained []uint64
		for j := 0; j < b.size; j++ {
			retained = append(retained, b.entries[(b.head-b.size+b.capacity+j)%b.capacity].Sequence)
		}
		b.mu.Unlock()
		for i := 1; i < len(retained); i++ {
			if retained[i] != retained[i-1]+1 {
				ringBad++
				break
			}
		}
		if n := len(retained); n > 0 {
			lo := retained[0]
			for _, s := range retained {
				if s < lo {
					lo = s
				}
			}
			got, _ := vc11RangeHeld(b, lo, lo+uint64(n)-1)
			sorted := append([]uint64(nil), retained...)
			sort.Slice(sorted, func(i, j int) bool { return sorted[i] < sorted[j] })
			p := make([]string, n)
			for i, s := range sorted {
				p[i] = strconv.FormatUint(s, 10)
			}
			if got != strings.Join(p, ",") {
				exactBad++
			}
		}
	}
	okbad := func(n int) string {
		if n == 0 {
			return "ok"
		}
		return "bad"
	}
	return fmt.Sprintf("seq=%d ringconsec=%s streamorder=%s rangeexact=%s", ss.GetSeq("srg1"), okbad(ringBad), okbad(streamBad), okbad(exactBad))
}

// ---------- hist cases ----------
type vc11Pool struct {
	fam     int
	name    int
	a, b, c *big.Int // 4/6: start, end, gateway(0 none); 7: network, netbits, plen
}

type vc11Sess struct {
	kind                          string
	sid, srg                      int
	rel                           bool
	mac                           *big.Int
	ov, iv, user                  int
	v4, v6, pd                    *big.Int // nil when absent
	v4pool, napool, pdpool, pdlen int
	vrf, ppp                      int
	circ, rem                     string
	misc                          uint32
}

func vc11ParseSess(tok string) *vc11Sess {
	t := strings.Split(tok, ":")
	s := &vc11Sess{kind: t[1], sid: vc11Int(t[2]), srg: vc11Int(t[3]), rel: t[4] == "1", mac: vc11Big(t[5]),
		ov: vc11Int(t[6]), iv: vc11Int(t[7]), user: vc11Int(t[8]), v4pool: vc11Int(t[10]), napool: vc11Int(t[12]),
		pdlen: vc11Int(t[14]), pdpool: vc11Int(t[15]), vrf: vc11Int(t[16]), circ: t[17], rem: t[18], ppp: vc11Int(t[19])}
	if t[9] != "-" {
		s.v4 = vc11Big(t[9])
	}
	if t[11] != "-" {
		s.v6 = vc11Big(t[11])
	}
	if t[13] != "-" {
		s.pd = vc11Big(t[13])
	}
	m, _ := strconv.ParseUint(t[20], 10, 32)
	s.misc = uint32(m)
	return s
}

func vc11SrgName(i int) string {
	switch i {
	case 0:
		return ""
	case 3:
		return "ghost"
	}
	return "srg" + strconv.Itoa(i)
}
func vc11SrgIdx(s string) int {
	switch s {
	case "":
		return 0
	case "ghost":
		return 3
	}
	return vc11Idx(s, "srg")
}
func vc11PoolKey(i int) string {
	if i == 0 {
		return ""
	}
	return "p/n" + strconv.Itoa(i)
}

// every checkpoint field the model does not carry gets a distinct non-zero value derived from the session id; the
// expected rendering (per access type, independent of sessionToCheckpoint) is compared with the decoded stored checkpoint
func (s *vc11Sess) extras() string {
	n := s.sid
	attrs := fmt.Sprintf("a%d=x%d,b%d=y%d", n, n, n, n)
	switch s.kind {
	case "I":
		return fmt.Sprintf("aaa=aaa-%d sg=sg-%d v6lt=%d cid=cid-%d host=host-%d duid=duid-%d attrs=%s bound=%d", n, n, 7000+n, n, n, n, attrs, 1700000000000000000+int64(n))
	case "P":
		return fmt.Sprintf("aaa=aaa-%d sg=sg-%d lcp=lcp-%d ipcp=ipcp-%d v6cp=v6cp-%d duid=duid-%d v6lt=%d attrs=%s mtu=%d mss4=%d mss6=%d bound=%d",
			n, n, n, n, n, n, 7000+n, attrs, 1400+n, 1300+n, 1200+n, 1700000000000000000+int64(n))
	default:
		return fmt.Sprintf("aaa=aaa-%d sg= aif=aif-%d atpid=%d hg=hg-%d hif=hif-%d hcvlan=%d htpid=%d transp=%v attrs=%s bound=%d",
			n, n, 0x8100+n, n, n, 300+n, 0x88a8+n, n%2 == 1, attrs, 1700000000000000000+int64(n))
	}
}

func vc11Extras(cp *hapb.SessionCheckpoint) string {
	keys := make([]string, 0, len(cp.AaaAttributes))
	for k := range cp.AaaAttributes {
		keys = append(keys, k)
	}
	sort.Strings(keys)
	var kv []string
	for _, k := range keys {
		kv = append(kv, k+"="+cp.AaaAttributes[k])
	}
	attrs := strings.Join(kv, ",")
	switch cp.AccessType {
	case "ipoe":
		return fmt.Sprintf("aaa=%s sg=%s v6lt=%d cid=%s host=%s duid=%s attrs=%s bound=%d", cp.AaaSessionId, cp.ServiceGroup,
			cp.Ipv6LeaseTime, cp.ClientId, cp.Hostname, cp.Dhcpv6Duid, attrs, cp.BoundAtNs)
	case "pppoe":
		return fmt.Sprintf("aaa=%s sg=%s lcp=%s ipcp=%s v6cp=%s duid=%s v6lt=%d attrs=%s mtu=%d mss4=%d mss6=%d bound=%d", cp.AaaSessionId,
			cp.ServiceGroup, cp.LcpState, cp.IpcpState, cp.Ipv6CpState, cp.Dhcpv6Duid, cp.Ipv6LeaseTime, attrs, cp.NegotiatedPppMtu,
			cp.Ipv4Mss, cp.Ipv6Mss, cp.BoundAtNs)
	default:
		return fmt.Sprintf("aaa=%s sg=%s aif=%s atpid=%d hg=%s hif=%s hcvlan=%d htpid=%d transp=%v attrs=%s bound=%d", cp.AaaSessionId,
			cp.ServiceGroup, cp.AccessInterface, cp.AccessTpid, cp.HandoffGroup, cp.HandoffInterface, cp.HandoffCvlan, cp.HandoffTpid,
			cp.Transparent, attrs, cp.BoundAtNs)
	}
}

func (s *vc11Sess) build() models.SubscriberSession {
	n := s.sid
	attrs := map[string]string{fmt.Sprintf("a%d", n): fmt.Sprintf("x%d", n), fmt.Sprintf("b%d", n): fmt.Sprintf("y%d", n)}
	bound := time.Unix(0, 1700000000000000000+int64(n))
	st := models.SessionStateActive
	if s.rel {
		st = models.SessionStateReleased
	}
	mac := net.HardwareAddr(vc11Bytes(s.mac, 6))
	var v4, v6 net.IP
	if s.v4 != nil {
		b := vc11Bytes(s.v4, 4)
		v4 = net.IPv4(b[0], b[1], b[2], b[3])
	}
	if s.v6 != nil {
		v6 = net.IP(vc11Bytes(s.v6, 16))
	}
	pfx := ""
	if s.pd != nil {
		a := netip.AddrFrom16([16]byte(vc11Bytes(s.pd, 16)))
		pfx = fmt.Sprintf("%s/%d", a.String(), s.pdlen)
	}
	relay := map[uint8][]byte{}
	if s.circ != "-" {
		relay[1] = []byte("c" + s.circ)
	}
	if s.rem != "-" {
		relay[2] = []byte("r" + s.rem)
	}
	switch s.kind {
	case "I":
		return &models.IPoESession{SessionID: vc11Name(s.sid, "s"), State: st, MAC: mac, OuterVLAN: uint16(s.ov),
			InnerVLAN: uint16(s.iv), VRF: vc11Name(s.vrf, "vrf"), SRGName: vc11SrgName(s.srg), IPv4Address: v4,
			LeaseTime: s.misc, RelayInfo: relay, IPv6Address: v6, IPv6Prefix: pfx, Username: vc11Name(s.user, "u"),
			IPv4Pool: vc11PoolKey(s.v4pool), IANAPool: vc11PoolKey(s.napool), PDPool: vc11PoolKey(s.pdpool),
			AAASessionID: fmt.Sprintf("aaa-%d", n), ServiceGroup: fmt.Sprintf("sg-%d", n), IPv6LeaseTime: uint32(7000 + n),
			ClientID: []byte(fmt.Sprintf("cid-%d", n)), Hostname: fmt.Sprintf("host-%d", n), DUID: []byte(fmt.Sprintf("duid-%d", n)),
			Attributes: attrs, ActivatedAt: bound}
	case "P":
		return &models.PPPSession{SessionID: vc11Name(s.sid, "s"), State: st, MAC: mac, OuterVLAN: uint16(s.ov),
			InnerVLAN: uint16(s.iv), VRF: vc11Name(s.vrf, "vrf"), SRGName: vc11SrgName(s.srg), IPv4Address: v4,
			LCPMagic: s.misc, IPv6Address: v6, IPv6Prefix: pfx, Username: vc11Name(s.user, "u"),
			IPv4Pool: vc11PoolKey(s.v4pool), IANAPool: vc11PoolKey(s.napool), PPPSessionID: uint16(s.ppp),
			AAASessionID: fmt.Sprintf("aaa-%d", n), ServiceGroup: fmt.Sprintf("sg-%d", n), LCPState: fmt.Sprintf("lcp-%d", n),
			IPCPState: fmt.Sprintf("ipcp-%d", n), IPv6CPState: fmt.Sprintf("v6cp-%d", n), DUID: []byte(fmt.Sprintf("duid-%d", n)),
			IPv6LeaseTime: uint32(7000 + n), Attributes: attrs, NegotiatedPPPMTU: uint16(1400 + n), IPv4MSS: uint16(1300 + n),
			IPv6MSS: uint16(1200 + n), ActivatedAt: bound}
	default:
		return &models.L2GWSession{SessionID: vc11Name(s.sid, "s"), State: st, MAC: mac, OuterVLAN: uint16(s.ov),
			InnerVLAN: uint16(s.iv), SRGName: vc11SrgName(s.srg), Username: vc11Name(s.user, "u"),
			HandoffSVLAN: uint16(s.misc), AAASessionID: fmt.Sprintf("aaa-%d", n), AccessInterface: fmt.Sprintf("aif-%d", n),
			AccessTPID: uint16(0x8100 + n), HandoffGroup: fmt.Sprintf("hg-%d", n), HandoffInterface: fmt.Sprintf("hif-%d", n),
			HandoffCVLAN: uint16(300 + n), HandoffTPID: uint16(0x88a8 + n), Transparent: n%2 == 1, Attributes: attrs,
			ActivatedAt: bound}
	}
}

var vc11Two128 = new(big.Int).Lsh(big.NewInt(1), 128)

// the prefix the standby is expected to hold for this session: network address of addr/len (nil: none)
func (s *vc11Sess) expectPD() *big.Int {
	if s.pd == nil || s.pdlen > 128 || s.kind == "L" {
		return nil
	}
	sh := uint(128 - s.pdlen)
	x := new(big.Int).Rsh(s.pd, sh)
	return x.Lsh(x, sh)
}

func vc11KindNs(k string) int {
	switch k {
	case "P":
		return 2
	case "L":
		return 3
	}
	return 1
}

// the checkpoint text the standby is expected to hold for a live session (independent of sessionToCheckpoint)
func (s *vc11Sess) expectCP() string {
	hx := func(b *big.Int, n int) string {
		if b == nil {
			return "-"
		}
		return fmt.Sprintf("%x", vc11Bytes(b, n))
	}
	ns := vc11KindNs(s.kind)
	v4, v6, pd := s.v4, s.v6, s.expectPD()
	v4p, nap, pdp, vrf, circ, rem, ppp := s.v4pool, s.napool, s.pdpool, s.vrf, s.circ, s.rem, 0
	pdl := s.pdlen
	misc := s.misc
	switch s.kind {
	case "P":
		pdp, circ, rem, ppp = 0, "-", "-", s.ppp&0xffff
	case "L":
		v4, v6, pd = nil, nil, nil
		v4p, nap, pdp, vrf, circ, rem = 0, 0, 0, 0, "-", "-"
		misc = s.misc & 0xffff
	}
	if pd == nil {
		pdl = 0
	}
	return fmt.Sprintf("%d/%d:%d,%d,%x,%d,%d,%d,%s,%s,%s/%d,%d,%d,%d,%d,%s,%s,%d,%d", ns, s.sid, ns, s.srg,
		vc11Bytes(s.mac, 6), s.ov&0xffff, s.iv&0xffff, s.user, hx(v4, 4), hx(v6, 16), hx(pd, 16), pdl,
		v4p, nap, pdp, vrf, circ, rem, ppp, misc)
}

func vc11CPString(ns string, cp *hapb.SessionCheckpoint) string {
	nsi := map[string]int{opdb.NamespaceHASyncedIPoE: 1, opdb.NamespaceHASyncedPPPoE: 2, opdb.NamespaceHASyncedL2GW: 3}[ns]
	at := map[string]int{"ipoe": 1, "pppoe": 2, "l2gw": 3}[cp.AccessType]
	misc := cp.Ipv4LeaseTime
	switch at {
	case 2:
		misc = cp.LcpMagic
	case 3:
		misc = cp.HandoffSvlan
	}
	return fmt.Sprintf("%d/%d:%d,%d,%s,%d,%d,%d,%s,%s,%s/%d,%d,%d,%d,%d,%s,%s,%d,%d", nsi, vc11Idx(cp.SessionId, "s"),
		at, vc11SrgIdx(cp.SrgName), vc11Hex(cp.Mac), cp.OuterVlan, cp.InnerVlan, vc11Idx(cp.Username, "u"),
		vc11Hex(cp.Ipv4Address), vc11Hex(cp.Ipv6Address), vc11Hex(cp.Ipv6Prefix), cp.Ipv6PrefixLen,
		vc11Idx(cp.Ipv4Pool, "p/n"), vc11Idx(cp.IanaPool, "p/n"), vc11Idx(cp.PdPool, "p/n"), vc11Idx(cp.Vrf, "vrf"),
		vc11OptIdx(cp.CircuitId, "c"), vc11OptIdx(cp.RemoteId, "r"), cp.PppoeSessionId, misc)
}

func vc11SortKeyed(l []string) {
	key := func(s string) (int, int) {
		h := s[:strings.Index(s, ":")]
		p := strings.Split(h, "/")
		return vc11Int(p[0]), vc11Int(p[1])
	}
	sort.Slice(l, func(i, j int) bool {
		a1, a2 := key(l[i])
		b1, b2 := key(l[j])
		if a1 != b1 {
			return a1 < b1
		}
		return a2 < b2
	})
}

func vc11Clone(req *hapb.SyncSessionRequest) *hapb.SyncSessionRequest {
	data, err := proto.Marshal(req)
	if err != nil {
		panic(err)
	}
	out := &hapb.SyncSessionRequest{}
	if err := proto.Unmarshal(data, out); err != nil {
		panic(err)
	}
	if out.Session == nil {
		out.Session = &hapb.SessionCheckpoint{}
	}
	return out
}

func vc11Hist(f []string) string {
	capacity := vc11Int(f[2]) // f[1] is the generator mode
	pageSize := vc11Int(f[3])
	var pools []vc11Pool
	var ops []string
	for _, tok := range f[4:] {
		if tok[0] >= '0' && tok[0] <= '9' {
			t := strings.Split(tok, ":")
			pools = append(pools, vc11Pool{vc11Int(t[0]), vc11Int(t[1]), vc11Big(t[2]), vc11Big(t[3]), vc11Big(t[4])})
		} else {
			ops = append(ops, tok)
		}
	}
	// registry through the production constructor
	v4p := &ipcfg.IPv4Profile{}
	v6p := &ipcfg.IPv6Profile{}
	addr := func(b *big.Int, n int) string {
		if n == 4 {
			return netip.AddrFrom4([4]byte(vc11Bytes(b, 4))).String()
		}
		return netip.AddrFrom16([16]byte(vc11Bytes(b, 16))).String()
	}
	for _, p := range pools {
		switch p.fam {
		case 4:
			gw := ""
			if p.c.Sign() != 0 {
				gw = addr(p.c, 4)
			}
			v4p.Pools = append(v4p.Pools, ipcfg.IPv4Pool{Name: "n" + strconv.Itoa(p.name), Network: "0.0.0.0/0",
				RangeStart: addr(p.a, 4), RangeEnd: addr(p.b, 4), Gateway: gw})
		case 6:
			gw := ""
			if p.c.Sign() != 0 {
				gw = addr(p.c, 16)
			}
			v6p.IANAPools = append(v6p.IANAPools, ipcfg.IANAPool{Name: "n" + strconv.Itoa(p.name), Network: "::/0",
				RangeStart: addr(p.a, 16), RangeEnd: addr(p.b, 16), Gateway: gw})
		case 7:
			v6p.PDPools = append(v6p.PDPools, ipcfg.PDPool{Name: "n" + strconv.Itoa(p.name),
				Network: fmt.Sprintf("%s/%d", addr(p.a, 16), p.b.Int64()), PrefixLength: uint8(p.c.Int64())})
		}
	}
	reg := allocator.InitGlobalRegistry(map[string]*ipcfg.IPv4Profile{"p": v4p}, map[string]*ipcfg.IPv6Profile{"p": v6p})
	allocator.ResetGlobalRegistry()

	log := logger.NewTest()
	store := &vc11Store{data: map[string]map[string][]byte{}}
	ss := NewSyncSender(nil, capacity, []string{"srg1", "srg2"}, log)
	ss.SetActive(true)
	rc := NewSyncReceiver(store, reg, log)
	mgr := &Manager{cfg: &config.HAConfig{Sync: config.HASyncConfig{PageSize: pageSize}}, syncSender: ss,
		srgs: map[string]*SRGStateMachine{}, bulkSyncCounts: nil, logger: log}
	srv := NewHAPeerServer(mgr, log)
	ctx := context.Background()

	sent := map[int][]*hapb.SyncSessionRequest{}
	next := map[int]int{}
	live := map[string]*vc11Sess{} // "ns/sid" -> last non-released session
	var liveOrder []string
	mgr.sessionIterators = []SessionIterator{&vc11Iter{live: live, order: &liveOrder, part: 0, parts: 3},
		&vc11Iter{live: live, order: &liveOrder, part: 1, parts: 3}, &vc11Iter{live: live, order: &liveOrder, part: 2, parts: 3}}
	panics := 0
	guard := func(fn func()) {
		defer func() {
			if r := recover(); r != nil {
				panics++
			}
		}()
		fn()
	}
	fire := func(s *vc11Sess) {
		// every state other than "released" is replicated as an update
		st := []models.SessionState{models.SessionStateActive, models.SessionStateUnknown, models.SessionStateDiscovering,
			models.SessionStateOffered, models.SessionStateRequesting, models.SessionStateTunneled}[(s.user+s.ov+s.iv)%6]
		if s.rel {
			st = models.SessionStateReleased
		}
		guard(func() {
			ss.HandleEvent(events.Event{Data: &events.SessionLifecycleEvent{SessionID: vc11Name(s.sid, "s"),
				State: st, Session: s.build()}})
		})
		emitted := false
	drain:
		for {
			select {
			case q := <-ss.sendCh:
				sent[vc11SrgIdx(q.SrgName)] = append(sent[vc11SrgIdx(q.SrgName)], q)
				emitted = true
			default:
				break drain
			}
		}
		if emitted { // the active node's live set (specification side)
			k := fmt.Sprintf("%d/%d", vc11KindNs(s.kind), s.sid)
			if _, had := live[k]; had && s.rel {
				for i, x := range liveOrder {
					if x == k {
						liveOrder = append(liveOrder[:i:i], liveOrder[i+1:]...)
						break
					}
				}
			} else if !had && !s.rel {
				liveOrder = append(liveOrder, k)
			}
			if s.rel {
				delete(live, k)
			} else {
				live[k] = s
			}
		}
	}
	fireMutation := func(s *vc11Sess, ok bool) {
		guard(func() {
			ss.HandleMutationResult(events.Event{Data: &events.SubscriberMutationResultEvent{SessionID: vc11Name(s.sid, "s"),
				Ok: ok, Session: s.build()}})
		})
		emitted := false
	drainM:
		for {
			select {
			case q := <-ss.sendCh:
				sent[vc11SrgIdx(q.SrgName)] = append(sent[vc11SrgIdx(q.SrgName)], q)
				emitted = true
			default:
				break drainM
			}
		}
		if emitted { // replicated as an update: the session is live on the active node
			k := fmt.Sprintf("%d/%d", vc11KindNs(s.kind), s.sid)
			if _, had := live[k]; !had {
				liveOrder = append(liveOrder, k)
			}
			c := *s
			c.rel = false
			live[k] = &c
		}
	}
	bulk := func(g int, churn func()) {
		guard(func() {
			b := ss.GetBacklog(vc11SrgName(g))
			if b == nil {
				return
			}
			newest := b.NewestSeq()
			replay := b.OldestSeq() != 0 && newest != 0
			st := &vc11Stream{onSend: func(r *hapb.BulkSyncResponse) {
				if churn != nil && (len(r.Sessions) > 0 || r.Sequence > 0) {
					churn()
				}
			}}
			// the standby asks for everything after the last sequence number it has
			req := &hapb.BulkSyncRequest{SrgNames: []string{vc11SrgName(g)}, FromSequence: rc.GetLastSeq(vc11SrgName(g))}
			if err := srv.BulkSync(req, st); err != nil {
				panic(err)
			}
			for _, data := range st.pages {
				cp := &hapb.BulkSyncResponse{}
				if err := proto.Unmarshal(data, cp); err != nil {
					panic(err)
				}
				if err := rc.HandleBulkSyncPage(ctx, cp); err != nil {
					panic(err)
				}
			}
			// the in-order stream resumes behind the sequence the bulk sync ended with
			if replay && int(newest) > next[g] {
				next[g] = int(newest)
			}
		})
	}
	for _, o := range ops {
		t := strings.Split(o, ":")
		store.failNext = false
		switch t[0] {
		case "E":
			fire(vc11ParseSess(o))
		case "M": // M:<ok>:<event fields>: result of a subscriber mutation (HandleMutationResult)
			fireMutation(vc11ParseSess("E:"+strings.Join(t[2:], ":")), t[1] == "1")
		case "D", "DF":
			store.failNext = t[0] == "DF"
			g := vc11Int(t[1])
			if next[g] < len(sent[g]) {
				q := sent[g][next[g]]
				next[g]++
				guard(func() { rc.HandleSyncSession(ctx, vc11Clone(q)) })
			}
		case "R", "RF":
			store.failNext = t[0] == "RF"
			g := vc11Int(t[1])
			seq := vc11U64(t[2])
			for _, q := range sent[g] {
				if q.Sequence == seq {
					guard(func() { rc.HandleSyncSession(ctx, vc11Clone(q)) })
					break
				}
			}
		case "P":
			store.failNext = false
			g := vc11Int(t[1])
			guard(func() {
				b := ss.GetBacklog(vc11SrgName(g))
				if b == nil {
					return
				}
				for _, q := range b.Range(vc11U64(t[2]), vc11U64(t[3])) {
					if q == nil {
						panic("nil entry")
					}
					rc.HandleSyncSession(ctx, vc11Clone(q))
				}
			})
		case "B":
			bulk(vc11Int(t[1]), nil)
		case "C": // C:<srg>:<k>:<event fields>: k more events after every page sent
			k := vc11Int(t[2])
			ev := vc11ParseSess("E:" + strings.Join(t[3:], ":"))
			bulk(vc11Int(t[1]), func() {
				for i := 0; i < k; i++ {
					fire(ev)
				}
			})
		}
	}

	var out []string
	b1, b2 := ss.GetBacklog("srg1"), ss.GetBacklog("srg2")
	out = append(out, fmt.Sprintf("seq=%d,%d last=%d,%d ring=%d/%d/%d,%d/%d/%d panics=%d", ss.GetSeq("srg1"), ss.GetSeq("srg2"),
		rc.GetLastSeq("srg1"), rc.GetLastSeq("srg2"), b1.OldestSeq(), b1.NewestSeq(), b1.Size(),
		b2.OldestSeq(), b2.NewestSeq(), b2.Size(), panics))
	// standby store
	var st []string
	var fieldsBad []string
	for ns, m := range store.data {
		for _, v := range m {
			cp := &hapb.SessionCheckpoint{}
			if err := proto.Unmarshal(v, cp); err != nil {
				st = append(st, "0/0:undecodable")
				continue
			}
			st = append(st, vc11CPString(ns, cp))
			// the fields the model does not carry, for sessions that are live on the active node
			nsi := map[string]int{opdb.NamespaceHASyncedIPoE: 1, opdb.NamespaceHASyncedPPPoE: 2, opdb.NamespaceHASyncedL2GW: 3}[ns]
			if ls := live[fmt.Sprintf("%d/%d", nsi, vc11Idx(cp.SessionId, "s"))]; ls != nil && vc11Extras(cp) != ls.extras() {
				fieldsBad = append(fieldsBad, fmt.Sprintf("%s:%s!=%s", cp.SessionId, vc11Extras(cp), ls.extras()))
			}
		}
	}
	vc11SortKeyed(st)
	out = append(out, "store=["+strings.Join(st, ";")+"]")
	// standby pools
	var ls []string
	for _, l := range reg.VerifC11Leases() {
		a := l.Addr.AsSlice()
		ls = append(ls, fmt.Sprintf("%d/%d/%x=%d", l.Fam, vc11Idx(l.Pool, "p/n"), a, vc11Idx(l.Sid, "s")))
	}
	sort.Slice(ls, func(i, j int) bool { return vc11LeaseLess(ls[i], ls[j]) })
	out = append(out, "leases=["+strings.Join(ls, ";")+"]")
	av := reg.VerifC11Avail()
	var avs []string
	for _, k := range allocator.VerifC11SortedKeys(av) {
		p := strings.SplitN(k, "/", 2)
		avs = append(avs, fmt.Sprintf("%s/%d/=%d", p[0], vc11Idx(p[1], "p/n"), av[k]))
	}
	sort.Slice(avs, func(i, j int) bool { return vc11LeaseLess(avs[i], avs[j]) })
	out = append(out, "avail=["+strings.Join(avs, ";")+"]")
	// the contents of the free lists (last 3 bytes of each address are enough inside a pool)
	fr := reg.VerifC11Free()
	var frs []string
	for _, k := range allocator.VerifC11SortedKeys(av) {
		p := strings.SplitN(k, "/", 2)
		var l []string
		for _, a := range fr[k] {
			b := a.AsSlice()
			if p[0] == "7" {
				b = b[:8] // delegated prefixes are at most /64
			}
			l = append(l, fmt.Sprintf("%x", b[len(b)-3:]))
		}
		sort.Strings(l) // as a set: the order only decides which address Allocate hands out next
		frs = append(frs, fmt.Sprintf("%s/%d/=%s", p[0], vc11Idx(p[1], "p/n"), strings.Join(l, ",")))
	}
	sort.Slice(frs, func(i, j int) bool { return vc11LeaseLess(frs[i], frs[j]) })
	out = append(out, "free=["+strings.Join(frs, ";")+"]")

	// property-level monitors: standby store == live set; standby leases == addresses of the live set
	var exp []string
	for _, s := range live {
		exp = append(exp, s.expectCP())
	}
	vc11SortKeyed(exp)
	conv := "ok"
	if strings.Join(exp, ";") != strings.Join(st, ";") {
		conv = "bad"
	}
	var el []string
	for _, s := range live {
		el = append(el, vc11ExpectLeases(pools, s)...)
	}
	sort.Slice(el, func(i, j int) bool { return vc11LeaseLess(el[i], el[j]) })
	pl := "ok"
	if strings.Join(el, ";") != strings.Join(ls, ";") {
		pl = "bad"
	}
	fl := "ok"
	if len(fieldsBad) > 0 {
		sort.Strings(fieldsBad)
		fl = "bad(" + strings.ReplaceAll(fieldsBad[0], " ", "_") + ")"
	}
	out = append(out, "fields="+fl, "conv="+conv, "pools="+pl)
	return strings.Join(out, " ")
}

func vc11LeaseLess(a, b string) bool {
	pa, pb := strings.SplitN(a, "/", 3), strings.SplitN(b, "/", 3)
	if pa[0] != pb[0] {
		return pa[0] < pb[0]
	}
	if pa[1] != pb[1] {
		return vc11Int(pa[1]) < vc11Int(pb[1])
	}
	return pa[2] < pb[2]
}

// which pool the standby is expected to hold a session's address in: the named pool when configured, else the
// (unique) pool whose range contains it
func vc11ExpectLeases(pools []vc11Pool, s *vc11Sess) []string {
	if s.kind == "L" {
		return nil
	}
	var out []string
	rangePool := func(fam, name int, a *big.Int) int {
		for _, p := range pools {
			if p.fam == fam && p.name == name && name != 0 {
				return name
			}
		}
		for _, p := range pools {
			if p.fam == fam && a.Cmp(p.a) >= 0 && a.Cmp(p.b) <= 0 {
				return p.name
			}
		}
		return 0
	}
	if s.v4 != nil {
		if n := rangePool(4, s.v4pool, s.v4); n != 0 {
			out = append(out, fmt.Sprintf("4/%d/%x=%d", n, vc11Bytes(s.v4, 4), s.sid))
		}
	}
	if s.v6 != nil {
		if n := rangePool(6, s.napool, s.v6); n != 0 {
			out = append(out, fmt.Sprintf("6/%d/%x=%d", n, vc11Bytes(s.v6, 16), s.sid))
		}
	}
	if pd := s.expectPD(); pd != nil && s.pdlen > 0 {
		inside := func(p vc11Pool) bool {
			if int(p.c.Int64()) != s.pdlen {
				return false
			}
			nb := uint(128 - p.b.Int64())
			base := new(big.Int).Rsh(p.a, nb)
			base.Lsh(base, nb)
			end := new(big.Int).Add(base, new(big.Int).Lsh(big.NewInt(1), nb))
			return pd.Cmp(base) >= 0 && pd.Cmp(end) < 0
		}
		name := s.pdpool
		if s.kind == "P" {
			name = 0 // a PPP checkpoint carries no PD pool name
		}
		target := 0
		named := false
		for _, p := range pools {
			if p.fam == 7 && p.name == name && name != 0 {
				named = true
				if inside(p) {
					target = name
				}
			}
		}
		if !named {
			for _, p := range pools {
				if p.fam == 7 && inside(p) {
					target = p.name
					break
				}
			}
		}
		if target != 0 {
			out = append(out, fmt.Sprintf("7/%d/%x=%d", target, vc11Bytes(pd, 16), s.sid))
		}
	}
	return out
}

func TestVerifC11(t *testing.T) {
	in, err := os.Open(os.Getenv("VERIF_CASES"))
	if err != nil {
		t.Fatal(err)
	}
	defer in.Close()
	outf, err := os.Create(os.Getenv("VERIF_OUT"))
	if err != nil {
		t.Fatal(err)
	}
	defer outf.Close()
	w := bufio.NewWriter(outf)
	defer w.Flush()
	sc := bufio.NewScanner(in)
	sc.Buffer(make([]byte, 1<<20), 1<<26)
	for sc.Scan() {
		f := strings.Fields(sc.Text())
		if len(f) == 0 {
			continue
		}
		done := make(chan string, 1)
		go func() {
			defer func() {
				if r := recover(); r != nil {
					done <- fmt.Sprintf("panic harness %v", r)
				}
			}()
			switch f[0] {
			case "rng":
				done <- vc11Rng(f)
			case "hist":
				done <- vc11Hist(f)
			case "conc":
				done <- vc11Conc(f)
			case "storm":
				done <- vc11Storm(f)
			default:
				done <- "badline"
			}
		}()
		select {
		case l := <-done:
			fmt.Fprintln(w, l)
		case <-time.After(30 * time.Second):
			fmt.Fprintln(w, "hang")
		}
	}
}
