//go:build verif

package ha

// C10 correspondence harness: two real Managers (one SRG "srg1" each) wired together by an
// in-harness network.  Every piece of the anchored code is reached through its real entry point:
//   sd  HeartbeatLoop.sendHeartbeat -> buildHeartbeatMessage -> PeerClient.SendHeartbeat (fake stream)
//   dl  request: HAPeerServer.Heartbeat (fake server stream: Recv msg, EOF; Send captures the reply)
//       reply:   PeerClient.RecvHeartbeat + Manager.handlePeerHeartbeat (body of ReceiveLoop)
//   pl  Manager.handlePeerLost          pt  HeartbeatLoop.checkPeerTimeout with a stale LastHeartbeat
//   dn/up/de  Manager.handleInterfaceEvent
//   sw  Manager.RequestSwitchover, peer RPC fails     SW  ... peer RPC reaches HAPeerServer.RequestSwitchover
//   rs  HAPeerServer.RequestSwitchover
//   st  the sm.Start()/publishTransition loop of Manager.Start (Start itself opens gRPC sockets)

import (
	"bufio"
	"context"
	"errors"
	"fmt"
	"io"
	"os"
	"strconv"
	"strings"
	"testing"
	"time"

	hapb "github.com/veesix-networks/osvbng/api/proto/ha"
	"github.com/veesix-networks/osvbng/pkg/config"
	"github.com/veesix-networks/osvbng/pkg/events"
	"github.com/veesix-networks/osvbng/pkg/logger"
	"google.golang.org/grpc"
)

const c10SRG = "srg1"

type c10Sub struct{}

func (c10Sub) Unsubscribe() {}

// synchronous event bus that records the published HA state changes
type c10Bus struct {
	who  string
	sink *[]string
}

func (b *c10Bus) Publish(topic string, ev events.Event) {
	if topic != events.TopicHAStateChange {
		return
	}
	d, ok := ev.Data.(events.HAStateChangeEvent)
	if !ok {
		*b.sink = append(*b.sink, b.who+":BADEVENT")
		return
	}
	*b.sink = append(*b.sink, b.who+":"+c10St(d.OldState)+">"+c10St(d.NewState))
}
func (b *c10Bus) Subscribe(string, events.Handler) events.Subscription { return c10Sub{} }
func (b *c10Bus) SubscribeAll(events.Handler) events.Subscription      { return c10Sub{} }
func (b *c10Bus) Stats() events.Stats                                  { return events.Stats{} }
func (b *c10Bus) SetDebugTopics([]string)                              {}
func (b *c10Bus) DebugTopics() []string                                { return nil }
func (b *c10Bus) Close() error                                         { return nil }

func c10St(s string) string {
	switch SRGState(s) {
	case SRGStateInit:
		return "I"
	case SRGStateWaiting:
		return "W"
	case SRGStateReady:
		return "R"
	case SRGStateActive:
		return "A"
	case SRGStateStandby:
		return "S"
	case SRGStateActiveSolo:
		return "AS"
	case SRGStateStandbyAlone:
		return "SA"
	case "":
		return "-"
	}
	return "?" + s
}

type c10Msg struct {
	m   *hapb.HeartbeatMessage
	req bool
}

// client side of the heartbeat stream of one node
type c10ClientStream struct {
	grpc.ClientStream
	sent []*hapb.HeartbeatMessage
	next *hapb.HeartbeatMessage
}

func (s *c10ClientStream) Send(m *hapb.HeartbeatMessage) error {
	s.sent = append(s.sent, m)
	return nil
}
func (s *c10ClientStream) Recv() (*hapb.HeartbeatMessage, error) {
	if s.next == nil {
		return nil, io.EOF
	}
	m := s.next
	s.next = nil
	return m, nil
}
func (s *c10ClientStream) CloseSend() error { return nil }

// server side: delivers exactly one request, captures the reply
type c10ServerStream struct {
	grpc.ServerStream
	in    *hapb.HeartbeatMessage
	reply []*hapb.HeartbeatMessage
}

func (s *c10ServerStream) Recv() (*hapb.HeartbeatMessage, error) {
	if s.in == nil {
		return nil, io.EOF
	}
	m := s.in
	s.in = nil
	return m, nil
}
func (s *c10ServerStream) Send(m *hapb.HeartbeatMessage) error {
	s.reply = append(s.reply, m)
	return nil
}
func (s *c10ServerStream) Context() context.Context { return context.Background() }

// unary client: the switchover RPC either fails or reaches the other node's server
type c10Client struct {
	hapb.HAPeerServiceClient
	remote *HAPeerServer
	up     bool
}

func (c *c10Client) RequestSwitchover(ctx context.Context, in *hapb.SwitchoverRequest, _ ...grpc.CallOption) (*hapb.SwitchoverResponse, error) {
	if !c.up {
		return nil, errors.New("unreachable")
	}
	return c.remote.RequestSwitchover(ctx, in)
}

type c10Node struct {
	m      *Manager
	srv    *HAPeerServer
	hb     *HeartbeatLoop
	stream *c10ClientStream
	client *c10Client
	inbox  []c10Msg
}

func c10NewNode(who string, id, prio int, preempt bool, dec, nifs int, sink *[]string) (*c10Node, error) {
	ifs := []string{}
	for k := 0; k < nifs; k++ {
		ifs = append(ifs, fmt.Sprintf("if%d", k))
	}
	cfg := &config.HAConfig{
		Enabled: true,
		NodeID:  fmt.Sprintf("node-%05d", id),
		SRGs: map[string]*config.SRGConfig{
			c10SRG: {
				VirtualMAC:             "02:ab:cd:00:00:01",
				Priority:               uint32(prio),
				Preempt:                preempt,
				SubscriberGroups:       []string{"default"},
				Interfaces:             ifs,
				TrackPriorityDecrement: uint32(dec),
			},
		},
	}
	m, err := NewManager(cfg, &c10Bus{who: who, sink: sink},
		WithInterfaceResolver(func(name string) (uint32, error) {
			var k uint32
			if _, err := fmt.Sscanf(name, "if%d", &k); err != nil {
				return 0, err
			}
			return k, nil
		}))
	if err != nil {
		return nil, err
	}
	m.StartContext(context.Background())
	m.buildInterfaceMap()
	n := &c10Node{m: m}
	n.srv = NewHAPeerServer(m, m.logger)
	n.stream = &c10ClientStream{}
	n.client = &c10Client{}
	m.peer = &PeerClient{logger: m.logger, stream: n.stream, client: n.client}
	n.hb = NewHeartbeatLoop(m, m.logger, time.Second, 3*time.Second)
	return n, nil
}

func (n *c10Node) show() string {
	sm := n.m.srgs[c10SRG]
	pk := "0"
	n.m.mu.RLock()
	if n.m.peerNodeID != "" {
		pk = "1"
	}
	n.m.mu.RUnlock()
	act := "0"
	if sm.IsActive() {
		act = "1"
	}
	if n.m.IsActive(c10SRG) != sm.IsActive() {
		act = "X"
	}
	sm.mu.RLock()
	pp, ps := sm.peerPriority, sm.peerState
	sm.mu.RUnlock()
	return fmt.Sprintf("%s,%d,%d,%s,%s,%d,%s", c10St(string(sm.State())), sm.Priority(), pp, c10St(string(ps)), pk,
		n.m.GetInterfaceDownCounts()[c10SRG], act)
}

func c10Arg(tok string) int {
	i := strings.IndexByte(tok, ':')
	if i < 0 {
		return 0
	}
	v, _ := strconv.Atoi(tok[i+1:])
	return v
}

func c10RunCase(f []string) (res string) {
	defer func() {
		if r := recover(); r != nil {
			res = "panic " + strings.ReplaceAll(fmt.Sprint(r), " ", "_")
		}
	}()
	if len(f) < 10 {
		return "badline"
	}
	iv := make([]int, 10)
	for i := 0; i < 10; i++ {
		v, err := strconv.Atoi(f[i])
		if err != nil {
			return "badcase"
		}
		iv[i] = v
	}
	var sink []string
	a, err := c10NewNode("a", iv[0], iv[1], iv[2] == 1, iv[3], iv[4], &sink)
	if err != nil {
		return "badcfg"
	}
	defer a.m.StopContext()
	b, err := c10NewNode("b", iv[5], iv[6], iv[7] == 1, iv[8], iv[9], &sink)
	if err != nil {
		return "badcfg"
	}
	defer b.m.StopContext()
	nodes := [2]*c10Node{a, b}
	a.client.remote, b.client.remote = b.srv, a.srv
	ctx := context.Background()
	out := []string{}
	emit := func() {
		t := "-"
		if len(sink) > 0 {
			t = strings.Join(sink, ";")
		}
		out = append(out, a.show()+"|"+b.show()+"|"+t)
		sink = sink[:0]
	}
	emit()
	for _, tok := range f[10:] {
		if len(tok) < 3 || (tok[2] != '0' && tok[2] != '1') {
			return "badcase bad_op_" + tok
		}
		w := int(tok[2] - '0')
		n, o := nodes[w], nodes[1-w]
		switch tok[:2] {
		case "st":
			// Manager.Start: for _, sm := range m.srgs { if t := sm.Start(); t != nil { m.publishTransition(t) } }
			for _, sm := range n.m.srgs {
				if t := sm.Start(); t != nil {
					n.m.publishTransition(t)
				}
			}
		case "sd":
			n.stream.sent = nil
			n.hb.sendHeartbeat()
			for _, m := range n.stream.sent {
				o.inbox = append(o.inbox, c10Msg{m: m, req: true})
			}
			n.stream.sent = nil
		case "dl":
			if len(n.inbox) == 0 {
				break
			}
			i := c10Arg(tok) % len(n.inbox)
			msg := n.inbox[i]
			n.inbox = append(append([]c10Msg{}, n.inbox[:i]...), n.inbox[i+1:]...)
			if msg.req {
				ss := &c10ServerStream{in: msg.m}
				if err := n.srv.Heartbeat(ss); err != nil {
					return "badcase heartbeat_handler_error"
				}
				for _, r := range ss.reply {
					o.inbox = append(o.inbox, c10Msg{m: r, req: false})
				}
			} else {
				// HeartbeatLoop.ReceiveLoop: msg, err := peer.RecvHeartbeat(); ...; manager.handlePeerHeartbeat(msg)
				n.stream.next = msg.m
				m, err := n.m.peer.RecvHeartbeat()
				if err != nil {
					return "badcase recv_error"
				}
				n.m.handlePeerHeartbeat(m)
			}
		case "dr":
			if len(n.inbox) == 0 {
				break
			}
			i := c10Arg(tok) % len(n.inbox)
			n.inbox = append(append([]c10Msg{}, n.inbox[:i]...), n.inbox[i+1:]...)
		case "pl":
			n.m.handlePeerLost()
		case "pt":
			n.m.peer.mu.Lock()
			n.m.peer.state.Connected = true
			n.m.peer.state.ClockSkew = 0
			n.m.peer.state.LastHeartbeat = time.Now().Add(-time.Hour)
			n.m.peer.mu.Unlock()
			n.hb.checkPeerTimeout()
		case "dn", "up", "de":
			k := c10Arg(tok)
			ev := events.InterfaceStateEvent{SwIfIndex: uint32(k), Name: fmt.Sprintf("if%d", k), AdminUp: true}
			switch tok[:2] {
			case "up":
				ev.LinkUp = true
			case "de":
				ev.LinkUp = true
				ev.Deleted = true
			}
			n.m.handleInterfaceEvent(events.Event{Data: ev})
		case "sw":
			n.client.up = false
			_ = n.m.RequestSwitchover(ctx, []string{c10SRG}, c10Arg(tok) == 1)
		case "SW":
			n.client.up = true
			if err := n.m.RequestSwitchover(ctx, []string{c10SRG}, c10Arg(tok) == 1); err != nil {
				return "badcase switchover_error"
			}
		case "rs":
			resp, err := n.srv.RequestSwitchover(ctx, &hapb.SwitchoverRequest{SrgNames: []string{c10SRG}, Graceful: true})
			if err != nil || !resp.Success {
				return "badcase remote_switchover_error"
			}
		default:
			return "badcase bad_op_" + tok
		}
		emit()
	}
	return strings.Join(out, " ")
}

func TestVerifC10(t *testing.T) {
	logger.Configure("console", logger.LogLevelError, nil)
	in, err := os.Open(os.Getenv("VERIF_CASES"))
	if err != nil {
		t.Fatal(err)
	}
	defer in.Close()
	outf, err := os.Create(os.Getenv("VERIF_OUT"))
	if err != nil {
		t.Fatal(err)
	}
	defer outf.Close()
	w := bufio.NewWriter(outf)
	defer w.Flush()
	sc := bufio.NewScanner(in)
	sc.Buffer(make([]byte, 1<<20), 1<<26)
	for sc.Scan() {
		f := strings.Fields(sc.Text())
		done := make(chan string, 1)
		go func() { done <- c10RunCase(f) }()
		select {
		case r := <-done:
			fmt.Fprintln(w, r)
		case <-time.After(20 * time.Second):
			fmt.Fprintln(w, "hang")
		}
	}
}
