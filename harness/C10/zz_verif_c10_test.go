//go:build verif

package ha

// C10 correspondence harness: two real Managers (one SRG "srg1" each) wired together by an
// in-harness network.  Every piece of the anchored code is reached through its real entry point:
//   sd  HeartbeatLoop.sendHeartbeat -> buildHeartbeatMessage -> PeerClient.SendHeartbeat (fake stream)
//   dl  request: HAPeerServer.Heartbeat (fake server stream: Recv msg, EOF; Send captures the reply)
//       reply:   PeerClient.RecvHeartbeat + Manager.handlePeerHeartbeat (body of ReceiveLoop)
//   pl  Manager.handlePeerLost          pt  HeartbeatLoop.checkPeerTimeout with a stale LastHeartbeat
//   tk  HeartbeatLoop.checkPeerTimeout with any combination of connected / start-up timeout expired / heartbeat
//       too old / clock skew refused (all its branches, hasWaitingSRGs included)
//   dn/up/de  Manager.handleInterfaceEvent
//   sw  Manager.RequestSwitchover, peer RPC fails     SW  ... peer RPC reaches HAPeerServer.RequestSwitchover
//   rs  HAPeerServer.RequestSwitchover
//   st  the sm.Start()/publishTransition loop of Manager.Start (Start itself opens gRPC sockets)
// Forced overlap (cases containing pD/pL/pS ops, run under -race): one Manager call per node can be parked
// inside the event bus's Publish (publishTransition is called with no lock held) while other calls run:
//   pD  heartbeat handler parked between PeerDiscovered (-> READY published) and the sm.State() == READY test
//   pS  handlePeerLost parked between sm.PeerLost (transition published) and the ifDownCount read
//   pL  handlePeerLost parked between its m.mu section (peerNodeID = "") and sm.PeerLost of "srg1": the manager
//       gets a second group "srg0" (forced ACTIVE) whose PeerLost transition is the parking place; when the map
//       iteration visits srg1 first (detected without timers: srg1's lock is read-held, a pending writer makes
//       TryRLock fail) the attempt is discarded and the whole case is run again
//   xa/xu  interface down/up with a lock probe: is m.mu still held when sm.AdjustPriority is entered?
//   rl  release the parked call and wait for it

import (
	"bufio"
	"context"
	"errors"
	"fmt"
	"io"
	"os"
	"runtime"
	"strconv"
	"strings"
	"testing"
	"time"

	hapb "github.com/veesix-networks/osvbng/api/proto/ha"
	"github.com/veesix-networks/osvbng/pkg/config"
	"github.com/veesix-networks/osvbng/pkg/events"
	"github.com/veesix-networks/osvbng/pkg/logger"
	"google.golang.org/grpc"
)

const c10SRG = "srg1"
const c10GateSRG = "srg0"
// second redundancy group of the two-group cases (head token G2:...); its name varies per case (9th field):
// names that have "srg1" as a prefix, are a prefix of it, or differ in case only
var c10SRG2 = "srg2"
var c10SRG2Names = []string{"srg2", "srg10", "srg", "SRG1", "srg1 "}

// sw_if_index of logical interface k (head token IX:<n>): indices that cross byte boundaries, are huge, or alias
// each other modulo 2^8 / 2^16 (also across the two groups)
var c10IdxBase, c10IdxStride uint32 = 0, 1
var c10IdxMaps = [][2]uint32{{0, 1}, {255, 1}, {65535, 1}, {4294967200, 1}, {7, 256}, {5, 65536}, {1000000, 3}}

func c10Idx(k int) uint32 { return c10IdxBase + uint32(k)*c10IdxStride }

// configuration of the second group: priority, preempt, decrement, #interfaces (sw_if_index 100+k) per node
type c10G2 struct{ prio, pre, dec, nifs [2]int }

// parking place inside Publish
type c10Gate struct {
	kind    string // "" = not armed; "D", "S", "L"
	parked  chan struct{}
	release chan struct{}
}

type c10Sub struct{}

func (c10Sub) Unsubscribe() {}

// synchronous event bus that records the published HA state changes
type c10Bus struct {
	who   string
	sink  *[]string
	sink2 *[]string // transitions of srg2
	gate  *c10Gate
}

func (b *c10Bus) Publish(topic string, ev events.Event) {
	if topic != events.TopicHAStateChange {
		return
	}
	d, ok := ev.Data.(events.HAStateChangeEvent)
	if !ok {
		*b.sink = append(*b.sink, b.who+":BADEVENT")
		return
	}
	if d.SRGName == c10SRG {
		*b.sink = append(*b.sink, b.who+":"+c10St(d.OldState)+">"+c10St(d.NewState))
	}
	if d.SRGName == c10SRG2 {
		*b.sink2 = append(*b.sink2, b.who+":"+c10St(d.OldState)+">"+c10St(d.NewState))
	}
	g := b.gate
	hit := false
	switch g.kind {
	case "D":
		hit = d.SRGName == c10SRG && d.NewState == string(SRGStateReady)
	case "S":
		hit = d.SRGName == c10SRG
	case "L":
		hit = d.SRGName == c10GateSRG
	}
	if hit {
		g.kind = ""
		g.parked <- struct{}{}
		<-g.release
	}
}
func (b *c10Bus) Subscribe(string, events.Handler) events.Subscription { return c10Sub{} }
func (b *c10Bus) SubscribeAll(events.Handler) events.Subscription      { return c10Sub{} }
func (b *c10Bus) Stats() events.Stats                                  { return events.Stats{} }
func (b *c10Bus) SetDebugTopics([]string)                              {}
func (b *c10Bus) DebugTopics() []string                                { return nil }
func (b *c10Bus) Close() error                                         { return nil }

func c10St(s string) string {
	switch SRGState(s) {
	case SRGStateInit:
		return "I"
	case SRGStateWaiting:
		return "W"
	case SRGStateReady:
		return "R"
	case SRGStateActive:
		return "A"
	case SRGStateStandby:
		return "S"
	case SRGStateActiveSolo:
		return "AS"
	case SRGStateStandbyAlone:
		return "SA"
	case "":
		return "-"
	}
	return "?" + s
}

type c10Msg struct {
	m   *hapb.HeartbeatMessage
	req bool
}

// client side of the heartbeat stream of one node
type c10ClientStream struct {
	grpc.ClientStream
	sent []*hapb.HeartbeatMessage
	next *hapb.HeartbeatMessage
}

func (s *c10ClientStream) Send(m *hapb.HeartbeatMessage) error {
	s.sent = append(s.sent, m)
	return nil
}
func (s *c10ClientStream) Recv() (*hapb.HeartbeatMessage, error) {
	if s.next == nil {
		return nil, io.EOF
	}
	m := s.next
	s.next = nil
	return m, nil
}
func (s *c10ClientStream) CloseSend() error { return nil }

// server side: delivers exactly one request, captures the reply
type c10ServerStream struct {
	grpc.ServerStream
	in    *hapb.HeartbeatMessage
	reply []*hapb.HeartbeatMessage
}

func (s *c10ServerStream) Recv() (*hapb.HeartbeatMessage, error) {
	if s.in == nil {
		return nil, io.EOF
	}
	m := s.in
	s.in = nil
	return m, nil
}
func (s *c10ServerStream) Send(m *hapb.HeartbeatMessage) error {
	s.reply = append(s.reply, m)
	return nil
}
func (s *c10ServerStream) Context() context.Context { return context.Background() }

// unary client: the switchover RPC either fails or reaches the other node's server
type c10Client struct {
	hapb.HAPeerServiceClient
	remote *HAPeerServer
	up     bool
}

func (c *c10Client) RequestSwitchover(ctx context.Context, in *hapb.SwitchoverRequest, _ ...grpc.CallOption) (*hapb.SwitchoverResponse, error) {
	if !c.up {
		return nil, errors.New("unreachable")
	}
	return c.remote.RequestSwitchover(ctx, in)
}

type c10Node struct {
	m      *Manager
	srv    *HAPeerServer
	hb     *HeartbeatLoop
	stream *c10ClientStream
	client *c10Client
	inbox  []c10Msg
	gate   *c10Gate
	done   chan []c10Msg // non-nil while a call is parked: receives the replies the call produced
	stamp  func([]c10Msg) []c10Msg
}

// node id token: <n> = "node-%05d", s:<dotted bytes> = the bytes, s:e = ""
func c10ID(tok string) (string, bool) {
	if strings.HasPrefix(tok, "s:") {
		t := tok[2:]
		if t == "e" {
			return "", true
		}
		var b []byte
		for _, p := range strings.Split(t, ".") {
			v, err := strconv.Atoi(p)
			if err != nil || v < 0 || v > 255 {
				return "", false
			}
			b = append(b, byte(v))
		}
		return string(b), true
	}
	v, err := strconv.Atoi(tok)
	if err != nil {
		return "", false
	}
	return fmt.Sprintf("node-%05d", v), true
}

func c10NewNode(who string, id string, prio int, preempt bool, dec, nifs int, sink *[]string, twoSRG bool) (*c10Node, error) {
	var sink2 []string
	return c10NewNode2(who, 0, id, prio, preempt, dec, nifs, sink, &sink2, twoSRG, nil)
}

func c10NewNode2(who string, wi int, id string, prio int, preempt bool, dec, nifs int, sink, sink2 *[]string, twoSRG bool, g2 *c10G2) (*c10Node, error) {
	ifs := []string{}
	for k := 0; k < nifs; k++ {
		ifs = append(ifs, fmt.Sprintf("if%d", k))
	}
	cfg := &config.HAConfig{
		Enabled: true,
		NodeID:  id,
		SRGs: map[string]*config.SRGConfig{
			c10SRG: {
				VirtualMAC:             "02:ab:cd:00:00:01",
				Priority:               uint32(prio),
				Preempt:                preempt,
				SubscriberGroups:       []string{"default"},
				Interfaces:             ifs,
				TrackPriorityDecrement: uint32(dec),
			},
		},
	}
	if twoSRG {
		cfg.SRGs[c10GateSRG] = &config.SRGConfig{VirtualMAC: "02:ab:cd:00:00:02", Priority: 100, SubscriberGroups: []string{"gate"}}
	}
	if g2 != nil {
		ifs2 := []string{}
		for k := 0; k < g2.nifs[wi]; k++ {
			ifs2 = append(ifs2, fmt.Sprintf("if%d", 100+k))
		}
		cfg.SRGs[c10SRG2] = &config.SRGConfig{VirtualMAC: "02:ab:cd:00:00:03", Priority: uint32(g2.prio[wi]),
			Preempt: g2.pre[wi] == 1, SubscriberGroups: []string{"second"}, Interfaces: ifs2,
			TrackPriorityDecrement: uint32(g2.dec[wi])}
	}
	gate := &c10Gate{parked: make(chan struct{}), release: make(chan struct{})}
	m, err := NewManager(cfg, &c10Bus{who: who, sink: sink, sink2: sink2, gate: gate},
		WithInterfaceResolver(func(name string) (uint32, error) {
			var k uint32
			if _, err := fmt.Sscanf(name, "if%d", &k); err != nil {
				return 0, err
			}
			return c10Idx(int(k)), nil
		}))
	if err != nil {
		return nil, err
	}
	m.StartContext(context.Background())
	m.buildInterfaceMap()
	n := &c10Node{m: m, gate: gate}
	n.srv = NewHAPeerServer(m, m.logger)
	n.stream = &c10ClientStream{}
	n.client = &c10Client{}
	m.peer = &PeerClient{logger: m.logger, stream: n.stream, client: n.client}
	n.hb = NewHeartbeatLoop(m, m.logger, time.Second, 3*time.Second)
	return n, nil
}

func (n *c10Node) show() string { return n.showSRG(c10SRG) }

func (n *c10Node) who() string { return n.m.eventBus.(*c10Bus).who }

func (n *c10Node) showSRG(name string) string {
	sm := n.m.srgs[name]
	pk := "0"
	n.m.mu.RLock()
	if n.m.peerNodeID != "" {
		pk = "1"
	}
	n.m.mu.RUnlock()
	act := "0"
	if sm.IsActive() {
		act = "1"
	}
	if n.m.IsActive(name) != sm.IsActive() {
		act = "X"
	}
	sm.mu.RLock()
	pp, ps := sm.peerPriority, sm.peerState
	sm.mu.RUnlock()
	return fmt.Sprintf("%s,%d,%d,%s,%s,%d,%s", c10St(string(sm.State())), sm.Priority(), pp, c10St(string(ps)), pk,
		n.m.GetInterfaceDownCounts()[name], act)
}

// heartbeat carrying only the status of one group
func c10Only(m *hapb.HeartbeatMessage, name string) *hapb.HeartbeatMessage {
	r := &hapb.HeartbeatMessage{NodeId: m.NodeId, TimestampNs: m.TimestampNs, Sequence: m.Sequence}
	for _, s := range m.SrgStatuses {
		if s.SrgName == name {
			r.SrgStatuses = append(r.SrgStatuses, s)
		}
	}
	return r
}

// queued on m.mu behind a pending writer; reports what it sees when it is admitted
func c10GapReader(m *Manager, sm *SRGStateMachine, name string, seen chan string) {
	m.mu.RLock()
	// both values are read while m.mu is read-held: the interface call cannot enter another critical section now
	cnt, prio := m.ifDownCount[name], sm.Priority()
	m.mu.RUnlock()
	seen <- fmt.Sprintf("%d,%d", cnt, prio)
}

// spins until some goroutine running fn is blocked in (*RWMutex).RLock
func c10WaitBlockedInRLock(fn string) {
	buf := make([]byte, 1<<20)
	for {
		n := runtime.Stack(buf, true)
		for _, g := range strings.Split(string(buf[:n]), "\n\n") {
			if strings.Contains(g, fn) && strings.Contains(g, "RWMutex).RLock") {
				return
			}
		}
		runtime.Gosched()
	}
}

func c10Arg(tok string) int {
	i := strings.IndexByte(tok, ':')
	if i < 0 {
		return 0
	}
	v, _ := strconv.Atoi(tok[i+1:])
	return v
}

const c10Retry = "RETRY"

func c10RunCase(f []string) string {
	for try := 0; try < 200; try++ {
		if r := c10RunCaseOnce(f); r != c10Retry {
			return r
		}
	}
	return "badcase could_not_force_the_overlap"
}

// start a Manager call in its own goroutine; returns true when it parked, false when it ran to its end
func (n *c10Node) start(o *c10Node, call func() []c10Msg) bool {
	done := make(chan []c10Msg, 1)
	go func() {
		defer func() {
			if r := recover(); r != nil {
				done <- []c10Msg{{m: nil}}
			}
		}()
		done <- call()
	}()
	select {
	case <-n.gate.parked:
		n.done = done
		return true
	case r := <-done:
		n.gate.kind = ""
		o.inbox = append(o.inbox, n.stamp(r)...)
		return false
	}
}

func (n *c10Node) releaseParked(o *c10Node) {
	if n.done == nil {
		return
	}
	n.gate.release <- struct{}{}
	o.inbox = append(o.inbox, n.stamp(<-n.done)...)
	n.done = nil
}

func c10RunCaseOnce(f []string) (res string) {
	defer func() {
		if r := recover(); r != nil {
			res = "panic " + strings.ReplaceAll(fmt.Sprint(r), " ", "_")
		}
	}()
	if len(f) < 10 {
		return "badline"
	}
	iv := make([]int, 10)
	for i := 0; i < 10; i++ {
		if i == 0 || i == 5 {
			continue
		}
		v, err := strconv.Atoi(f[i])
		if err != nil {
			return "badcase"
		}
		iv[i] = v
	}
	ida, oka := c10ID(f[0])
	idb, okb := c10ID(f[5])
	if !oka || !okb {
		return "badcase"
	}
	twoSRG := false
	for _, tok := range f[10:] {
		if strings.HasPrefix(tok, "pL") {
			twoSRG = true
		}
	}
	var g2 *c10G2
	ops := f[10:]
	c10IdxBase, c10IdxStride, c10SRG2 = 0, 1, "srg2"
	if len(ops) > 0 && strings.HasPrefix(ops[0], "IX:") {
		v, err := strconv.Atoi(ops[0][3:])
		if err != nil || v < 0 || v >= len(c10IdxMaps) {
			return "badcase"
		}
		c10IdxBase, c10IdxStride = c10IdxMaps[v][0], c10IdxMaps[v][1]
		ops = ops[1:]
	}
	if len(ops) > 0 && strings.HasPrefix(ops[0], "G2:") {
		p := strings.Split(ops[0][3:], ",")
		if len(p) == 9 {
			v, err := strconv.Atoi(p[8])
			if err != nil || v < 0 || v >= len(c10SRG2Names) {
				return "badcase"
			}
			c10SRG2 = c10SRG2Names[v]
			p = p[:8]
		}
		if len(p) != 8 || twoSRG {
			return "badcase"
		}
		g2 = &c10G2{}
		for i := 0; i < 8; i++ {
			v, err := strconv.Atoi(p[i])
			if err != nil {
				return "badcase"
			}
			switch i % 4 {
			case 0:
				g2.prio[i/4] = v
			case 1:
				g2.pre[i/4] = v
			case 2:
				g2.dec[i/4] = v
			case 3:
				g2.nifs[i/4] = v
			}
		}
		ops = ops[1:]
	}
	var sink, sink2 []string
	a, err := c10NewNode2("a", 0, ida, iv[1], iv[2] == 1, iv[3], iv[4], &sink, &sink2, twoSRG, g2)
	if err != nil {
		return "badcfg"
	}
	defer a.m.StopContext()
	b, err := c10NewNode2("b", 1, idb, iv[6], iv[7] == 1, iv[8], iv[9], &sink, &sink2, twoSRG, g2)
	if err != nil {
		return "badcfg"
	}
	defer b.m.StopContext()
	defer func() { a.releaseParked(b); b.releaseParked(a) }()
	nodes := [2]*c10Node{a, b}
	a.client.remote, b.client.remote = b.srv, a.srv
	ctx := context.Background()
	out := []string{}
	emit := func() {
		t := "-"
		if len(sink) > 0 {
			t = strings.Join(sink, ";")
		}
		line := a.show() + "|" + b.show() + "|" + t
		if g2 != nil {
			t2 := "-"
			if len(sink2) > 0 {
				t2 = strings.Join(sink2, ";")
			}
			line += "#" + a.showSRG(c10SRG2) + "|" + b.showSRG(c10SRG2) + "|" + t2
			sink2 = sink2[:0]
		}
		out = append(out, line)
		sink = sink[:0]
	}
	// every heartbeat gets a build time that is strictly increasing in build order (time.Now() may repeat):
	// the model's staleness bookkeeping (Stale.v) orders messages by build time
	var clock int64
	stamp := func(ms []c10Msg) []c10Msg {
		for _, m := range ms {
			if m.m != nil {
				clock++
				m.m.TimestampNs = clock
			}
		}
		return ms
	}
	a.stamp, b.stamp = stamp, stamp
	both := []string{c10SRG}
	if g2 != nil {
		both = []string{c10SRG, c10SRG2}
	}
	emit()
	for _, tok := range ops {
		if len(tok) < 3 || (tok[2] != '0' && tok[2] != '1') {
			return "badcase bad_op_" + tok
		}
		w := int(tok[2] - '0')
		n, o := nodes[w], nodes[1-w]
		op := tok[:2]
		only := ""
		ghost := false
		if op == "dg" { // heartbeat that also carries statuses of groups this node does not have
			op, ghost = "dl", true
		}
		if g2 != nil {
			switch op {
			case "d1":
				op, only = "dl", c10SRG
			case "d2":
				op, only = "dl", c10SRG2
			case "pD", "pL", "pS", "rl":
				return "badcase overlap_ops_not_supported_with_two_groups"
			}
		}
		switch op {
		case "st":
			// Manager.Start: for _, sm := range m.srgs { if t := sm.Start(); t != nil { m.publishTransition(t) } }
			for _, sm := range n.m.srgs {
				if t := sm.Start(); t != nil {
					n.m.publishTransition(t)
				}
			}
		case "sd":
			n.stream.sent = nil
			n.hb.sendHeartbeat()
			for _, m := range n.stream.sent {
				o.inbox = append(o.inbox, stamp([]c10Msg{{m: m, req: true}})...)
			}
			n.stream.sent = nil
		case "dl":
			if len(n.inbox) == 0 {
				break
			}
			i := c10Arg(tok) % len(n.inbox)
			msg := n.inbox[i]
			n.inbox = append(append([]c10Msg{}, n.inbox[:i]...), n.inbox[i+1:]...)
			if only != "" {
				msg.m = c10Only(msg.m, only)
			}
			if ghost {
				g := &hapb.HeartbeatMessage{NodeId: msg.m.NodeId, TimestampNs: msg.m.TimestampNs, Sequence: msg.m.Sequence}
				g.SrgStatuses = append(g.SrgStatuses, &hapb.SRGStatus{SrgName: "sr", State: "ACTIVE", Priority: 4000000000})
				g.SrgStatuses = append(g.SrgStatuses, msg.m.SrgStatuses...)
				g.SrgStatuses = append(g.SrgStatuses, &hapb.SRGStatus{SrgName: c10SRG + "1", State: "STANDBY", Priority: 0},
					&hapb.SRGStatus{SrgName: "", State: "BOGUS", Priority: 1})
				msg.m = g
			}
			if msg.req {
				ss := &c10ServerStream{in: msg.m}
				if err := n.srv.Heartbeat(ss); err != nil {
					return "badcase heartbeat_handler_error"
				}
				for _, r := range ss.reply {
					o.inbox = append(o.inbox, stamp([]c10Msg{{m: r, req: false}})...)
				}
			} else {
				// HeartbeatLoop.ReceiveLoop: msg, err := peer.RecvHeartbeat(); ...; manager.handlePeerHeartbeat(msg)
				n.stream.next = msg.m
				m, err := n.m.peer.RecvHeartbeat()
				if err != nil {
					return "badcase recv_error"
				}
				n.m.handlePeerHeartbeat(m)
			}
		case "dr":
			if len(n.inbox) == 0 {
				break
			}
			i := c10Arg(tok) % len(n.inbox)
			n.inbox = append(append([]c10Msg{}, n.inbox[:i]...), n.inbox[i+1:]...)
		case "pl":
			n.m.handlePeerLost()
		case "tk":
			// HeartbeatLoop.checkPeerTimeout with every combination of what it reads: bit 0 peer connected,
			// bit 1 start-up timeout expired, bit 2 last heartbeat older than the timeout, bit 3 clock skew above
			// the refuse threshold
			bits := c10Arg(tok)
			now := time.Now()
			n.m.peer.mu.Lock()
			n.m.peer.state.Connected = bits&1 != 0
			n.m.peer.state.LastHeartbeat = now
			if bits&4 != 0 {
				n.m.peer.state.LastHeartbeat = now.Add(-time.Hour)
			}
			n.m.peer.state.ClockSkew = 0
			if bits&8 != 0 {
				n.m.peer.state.ClockSkew = -2 * clockSkewRefuseThreshold
			}
			n.m.peer.mu.Unlock()
			n.hb.startedAt = now
			if bits&2 != 0 {
				n.hb.startedAt = now.Add(-time.Hour)
			}
			n.hb.checkPeerTimeout()
		case "pt":
			n.m.peer.mu.Lock()
			n.m.peer.state.Connected = true
			n.m.peer.state.ClockSkew = 0
			n.m.peer.state.LastHeartbeat = time.Now().Add(-time.Hour)
			n.m.peer.mu.Unlock()
			n.hb.checkPeerTimeout()
		case "dn", "up", "de":
			k := c10Arg(tok)
			ev := events.InterfaceStateEvent{SwIfIndex: c10Idx(k), Name: fmt.Sprintf("if%d", k), AdminUp: k%2 == 0}
			switch op {
			case "up":
				ev.LinkUp = true
			case "de":
				ev.LinkUp = true
				ev.Deleted = true
			}
			n.m.handleInterfaceEvent(events.Event{Data: ev})
		case "sw":
			n.client.up = false
			_ = n.m.RequestSwitchover(ctx, both, c10Arg(tok) == 1)
		case "SW":
			n.client.up = true
			if err := n.m.RequestSwitchover(ctx, both, c10Arg(tok) == 1); err != nil {
				return "badcase switchover_error"
			}
		case "SU":
			// complete switchover whose name list contains a group the nodes do not have, at position arg/2:
			// Manager.RequestSwitchover skips it, HAPeerServer.RequestSwitchover stops at it
			n.client.up = true
			pos := c10Arg(tok) / 2
			names := []string{}
			for i, g := range both {
				if i == pos {
					names = append(names, "no-such-group")
				}
				names = append(names, g)
			}
			if pos >= len(both) {
				names = append(names, "no-such-group")
			}
			_ = n.m.RequestSwitchover(ctx, names, c10Arg(tok)%2 == 1)
		case "S1", "S2":
			n.client.up = true
			name := c10SRG
			if op == "S2" {
				name = c10SRG2
			}
			if err := n.m.RequestSwitchover(ctx, []string{name}, c10Arg(tok) == 1); err != nil {
				return "badcase switchover_error"
			}
		case "rs":
			resp, err := n.srv.RequestSwitchover(ctx, &hapb.SwitchoverRequest{SrgNames: both, Graceful: true})
			if err != nil || !resp.Success {
				return "badcase remote_switchover_error"
			}
		case "pD":
			if n.done != nil {
				return "badcase two_parked_calls"
			}
			if len(n.inbox) == 0 {
				break
			}
			i := c10Arg(tok) % len(n.inbox)
			msg := n.inbox[i]
			n.inbox = append(append([]c10Msg{}, n.inbox[:i]...), n.inbox[i+1:]...)
			n.gate.kind = "D"
			n.start(o, func() []c10Msg {
				if msg.req {
					ss := &c10ServerStream{in: msg.m}
					if err := n.srv.Heartbeat(ss); err != nil {
						panic("heartbeat handler error")
					}
					var out []c10Msg
					for _, r := range ss.reply {
						out = append(out, c10Msg{m: r, req: false})
					}
					return out
				}
				n.stream.next = msg.m
				m, err := n.m.peer.RecvHeartbeat()
				if err != nil {
					panic("recv error")
				}
				n.m.handlePeerHeartbeat(m)
				return nil
			})
		case "pS":
			if n.done != nil {
				return "badcase two_parked_calls"
			}
			n.gate.kind = "S"
			n.start(o, func() []c10Msg { n.m.handlePeerLost(); return nil })
		case "pL":
			if n.done != nil {
				return "badcase two_parked_calls"
			}
			g := n.m.srgs[c10GateSRG]
			g.mu.Lock()
			g.state = SRGStateActive
			g.mu.Unlock()
			// Which group does the map iteration of handlePeerLost visit first?  srg1's lock is read-held while the
			// call starts.  Either the call parks in the publication of srg0's transition (srg1 not touched yet), or
			// it blocks in srg1.PeerLost: a pending writer makes TryRLock fail, a definite signal (no timer).
			s1 := n.m.srgs[c10SRG]
			s1.mu.RLock()
			n.gate.kind = "L"
			done := make(chan []c10Msg, 1)
			go func() { n.m.handlePeerLost(); done <- nil }()
			for parked := false; !parked; {
				select {
				case <-n.gate.parked:
					s1.mu.RUnlock()
					n.done = done
					parked = true
				default:
					if !s1.mu.TryRLock() {
						s1.mu.RUnlock() // srg1 was visited first: let the call go on and run the case again
						select {
						case <-n.gate.parked:
							n.done = done
						case <-done:
							n.gate.kind = ""
						}
						return c10Retry
					}
					s1.mu.RUnlock()
					runtime.Gosched()
				}
			}
		case "xg", "xh":
			// interface down/up with a GAP READER: is the down-count update and the priority adjustment ONE m.mu
			// critical section?  1. the harness read-holds m.mu; 2. the call is started and blocks in its m.mu.Lock()
			// (pending writer: TryRLock fails); 3. a reader goroutine calls m.mu.RLock() and is therefore queued
			// behind the pending writer (seen blocked in the goroutine dump); 4. the harness releases its read lock.
			// sync.RWMutex admits the queued reader at the call's FIRST Unlock, before the call can lock again: the
			// reader sees the state between the call's first and any second critical section and reports
			// (down count, effective priority) -- they must already agree.
			k := c10Arg(tok)
			ev := events.InterfaceStateEvent{SwIfIndex: c10Idx(k), Name: fmt.Sprintf("if%d", k), AdminUp: true, LinkUp: op == "xh"}
			name, tracked := n.m.ifToSRG[c10Idx(k)]
			if !tracked {
				n.m.handleInterfaceEvent(events.Event{Data: ev})
				break
			}
			sm := n.m.srgs[name]
			n.m.mu.RLock()
			fin := make(chan struct{})
			go func() { n.m.handleInterfaceEvent(events.Event{Data: ev}); close(fin) }()
			for n.m.mu.TryRLock() { // until the call's m.mu.Lock() is pending
				n.m.mu.RUnlock()
				runtime.Gosched()
			}
			seen := make(chan string, 1)
			go c10GapReader(n.m, sm, name, seen)
			c10WaitBlockedInRLock("c10GapReader")
			n.m.mu.RUnlock()
			g := <-seen
			<-fin // the call may publish a promotion meanwhile: the probe token goes first, as in the model
			sink = append([]string{n.who() + ":gap=" + g}, sink...)
		case "xa", "xu":
			// interface notification with a lock probe: the group's lock is read-held, so the call blocks when it
			// enters sm.AdjustPriority (pending writer => TryRLock fails: definite handshake); at that moment m.mu
			// must still be held by the call (AdjustPriority inside the ifDownCount critical section)
			k := c10Arg(tok)
			ev := events.InterfaceStateEvent{SwIfIndex: c10Idx(k), Name: fmt.Sprintf("if%d", k), AdminUp: true, LinkUp: op == "xu"}
			name, tracked := n.m.ifToSRG[c10Idx(k)]
			if !tracked {
				n.m.handleInterfaceEvent(events.Event{Data: ev})
				break
			}
			sm := n.m.srgs[name]
			sm.mu.RLock()
			fin := make(chan struct{})
			go func() { n.m.handleInterfaceEvent(events.Event{Data: ev}); close(fin) }()
			entered := false
			for !entered {
				select {
				case <-fin:
					// the call returned without entering AdjustPriority (a notification that does not change the
					// down count may be coalesced): nothing to probe
					fin = nil
				default:
				}
				if fin == nil {
					break
				}
				if !sm.mu.TryRLock() {
					entered = true
					break
				}
				sm.mu.RUnlock()
				runtime.Gosched()
			}
			if entered {
				if n.m.mu.TryLock() {
					n.m.mu.Unlock()
					sink = append(sink, n.who()+":mu=free")
				} else {
					sink = append(sink, n.who()+":mu=held")
				}
			}
			sm.mu.RUnlock()
			if fin != nil {
				<-fin
			}
		case "rl":
			n.releaseParked(o)
		default:
			return "badcase bad_op_" + tok
		}
		emit()
	}
	return strings.Join(out, " ")
}

func TestVerifC10(t *testing.T) {
	logger.Configure("console", logger.LogLevelError, nil)
	in, err := os.Open(os.Getenv("VERIF_CASES"))
	if err != nil {
		t.Fatal(err)
	}
	defer in.Close()
	outf, err := os.Create(os.Getenv("VERIF_OUT"))
	if err != nil {
		t.Fatal(err)
	}
	defer outf.Close()
	w := bufio.NewWriter(outf)
	defer w.Flush()
	sc := bufio.NewScanner(in)
	sc.Buffer(make([]byte, 1<<20), 1<<26)
	for sc.Scan() {
		f := strings.Fields(sc.Text())
		done := make(chan string, 1)
		go func() { done <- c10RunCase(f) }()
		select {
		case r := <-done:
			fmt.Fprintln(w, r)
		case <-time.After(20 * time.Second):
			fmt.Fprintln(w, "hang")
		}
	}
}
