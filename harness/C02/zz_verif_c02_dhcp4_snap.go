//go:build verif

package local

// C02 verification accessor (injected with -overlay): lease-table snapshot and lease ageing.

import (
	"sort"
	"strings"
	"time"
)

// VerifC02Leases: "M[mac>ip/sid/pool,...]I[ip>mac,...]" sorted.
func (p *Provider) VerifC02Leases() string {
	p.mu.RLock()
	defer p.mu.RUnlock()
	var ms, is []string
	for mac, l := range p.leases {
		ms = append(ms, mac+">"+l.IP.String()+"/"+l.SessionID+"/"+l.PoolName)
	}
	for ip, l := range p.leasesByIP {
		is = append(is, ip+">"+l.MAC)
	}
	sort.Strings(ms)
	sort.Strings(is)
	return "M[" + strings.Join(ms, ",") + "]I[" + strings.Join(is, ",") + "]"
}

// VerifC02Age makes the lease of mac expire (as if its lease time had passed).
func (p *Provider) VerifC02Age(mac string) {
	p.mu.Lock()
	defer p.mu.Unlock()
	if l, ok := p.leases[mac]; ok {
		l.ExpireTime = time.Now().Add(-time.Second)
	}
}
