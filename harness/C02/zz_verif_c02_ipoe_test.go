//go:build verif

package ipoe

// C02 correspondence harness, stage B (component level), injected into internal/ipoe.
//
// A real ipoe.Component is built in-package with fakes (capture bus, config manager, memory cache, a southbound
// fake whose async callbacks complete immediately or are queued and completed on demand) plus the REAL local
// DHCPv4 provider and the REAL global allocator registry.  It is driven one event at a time through the real
// entry points: processDHCPPacket (DISCOVER / REQUEST / RELEASE as gopacket-decoded frames), handleAAAResponse,
// handleSubscriberTerminate, and the queued southbound completions.  Egress frames are decoded with gopacket
// (independent of the builders) to (message type, yiaddr).  After every event the registry / lease-table
// snapshots are printed with the component's random session ids mapped to s<k+100*incarnation>.

import (
	"bufio"
	"context"
	"encoding/binary"
	"encoding/json"
	"sync"
	"fmt"
	"math/big"
	"net"
	"os"
	"sort"
	"strconv"
	"strings"
	"testing"
	"time"

	"github.com/google/gopacket"
	"github.com/google/gopacket/layers"
	"github.com/veesix-networks/osvbng/pkg/allocator"
	"github.com/veesix-networks/osvbng/pkg/cache/memory"
	"github.com/veesix-networks/osvbng/pkg/component"
	"github.com/veesix-networks/osvbng/pkg/config"
	"github.com/veesix-networks/osvbng/pkg/config/ip"
	"github.com/veesix-networks/osvbng/pkg/config/subscriber"
	"github.com/veesix-networks/osvbng/pkg/dataplane"
	"github.com/veesix-networks/osvbng/pkg/dhcp4"
	"github.com/veesix-networks/osvbng/pkg/dhcp6"
	"github.com/veesix-networks/osvbng/pkg/opdb"
	"github.com/veesix-networks/osvbng/pkg/events"
	"github.com/veesix-networks/osvbng/pkg/ifmgr"
	"github.com/veesix-networks/osvbng/pkg/logger"
	"github.com/veesix-networks/osvbng/pkg/models"
	"github.com/veesix-networks/osvbng/pkg/session"
	"github.com/veesix-networks/osvbng/pkg/southbound"
	"github.com/veesix-networks/osvbng/pkg/svcgroup"
	dhcp4local "github.com/veesix-networks/osvbng/plugins/dhcp4/local"
	dhcp6local "github.com/veesix-networks/osvbng/plugins/dhcp6/local"
)

type c02Bus struct {
	egress [][]byte
	dst    []string
	v6     []bool
	aaa    []*events.AAARequestEvent
}

func (b *c02Bus) Publish(topic string, ev events.Event) {
	switch topic {
	case events.TopicEgress:
		if e, ok := ev.Data.(*events.EgressEvent); ok {
			b.egress = append(b.egress, append([]byte(nil), e.Packet.RawData...))
			b.dst = append(b.dst, e.Packet.DstMAC)
			b.v6 = append(b.v6, e.Protocol == models.ProtocolDHCPv6)
		}
	case events.TopicAAARequest:
		if e, ok := ev.Data.(*events.AAARequestEvent); ok {
			b.aaa = append(b.aaa, e)
		}
	}
}
func (b *c02Bus) Subscribe(string, events.Handler) events.Subscription { return c02Sub{} }
func (b *c02Bus) SubscribeAll(events.Handler) events.Subscription      { return c02Sub{} }
func (b *c02Bus) Stats() events.Stats                                  { return events.Stats{} }
func (b *c02Bus) SetDebugTopics([]string)                              {}
func (b *c02Bus) DebugTopics() []string                                { return nil }
func (b *c02Bus) Close() error                                         { return nil }

type c02Sub struct{}

func (c02Sub) Unsubscribe() {}

type c02CfgMgr struct{ cfg *config.Config }

func (f *c02CfgMgr) GetRunning() (*config.Config, error) { return f.cfg, nil }
func (f *c02CfgMgr) GetStartup() (*config.Config, error) { return f.cfg, nil }
func (f *c02CfgMgr) LookupSubscriberGroup(svlan, cvlan uint16) (subscriber.GroupMatch, bool) {
	return subscriber.BuildMatchIndex(f.cfg.SubscriberGroups).Lookup(svlan, cvlan)
}

// southbound fake: session creation completes immediately or is queued (completed by the BC event)
type c02VPP struct {
	southbound.Southbound
	queue   bool
	pending []func()
	nextIf  uint32
}

func (v *c02VPP) AddIPoESessionAsync(clientMAC, localMAC net.HardwareAddr, encapIfIndex uint32, outerVLAN, innerVLAN uint16, decapVrfID uint32, cb func(uint32, error)) {
	v.nextIf++
	idx := 1000 + v.nextIf
	if v.queue {
		v.pending = append(v.pending, func() { cb(idx, nil) })
		return
	}
	cb(idx, nil)
}
func (v *c02VPP) DeleteIPoESessionAsync(clientMAC net.HardwareAddr, encapIfIndex uint32, innerVLAN uint16, cb func(error)) {
	cb(nil)
}
func (v *c02VPP) IPoESetSessionIPv4Async(swIfIndex uint32, clientIP net.IP, isAdd bool, cb func(error)) {
	cb(nil)
}
func (v *c02VPP) IPoESetSessionIPv6Async(swIfIndex uint32, clientIP net.IP, isAdd bool, cb func(error)) {
	cb(nil)
}
func (v *c02VPP) IPoESetDelegatedPrefixAsync(swIfIndex uint32, prefix net.IPNet, nextHop net.IP, isAdd bool, cb func(error)) {
	cb(nil)
}
func (v *c02VPP) SetUnnumberedAsync(swIfIndex uint32, loopbackName string, cb func(error)) { cb(nil) }
func (v *c02VPP) AddIPoESession(_, _ net.HardwareAddr, _ uint32, _, _ uint16, _ uint32) (uint32, error) {
	v.nextIf++
	return 1000 + v.nextIf, nil
}
func (v *c02VPP) IPoESetSessionIPv4(uint32, net.IP, bool) error                    { return nil }
func (v *c02VPP) IPoESetSessionIPv6(uint32, net.IP, bool) error                    { return nil }
func (v *c02VPP) IPoESetDelegatedPrefix(uint32, net.IPNet, net.IP, bool) error     { return nil }
func (v *c02VPP) DumpInterfaces() ([]southbound.InterfaceInfo, error)              { return nil, nil }

// in-memory opdb that survives the simulated restart; Load visits the images in declaration order
type c02Store struct {
	mu    sync.Mutex
	data  map[string][]byte
	order func(keys []string)
}

func (s *c02Store) Put(_ context.Context, ns, key string, value []byte) error {
	s.mu.Lock()
	defer s.mu.Unlock()
	s.data[key] = append([]byte(nil), value...)
	return nil
}
func (s *c02Store) Delete(_ context.Context, ns, key string) error {
	s.mu.Lock()
	defer s.mu.Unlock()
	delete(s.data, key)
	return nil
}
func (s *c02Store) Load(_ context.Context, ns string, fn opdb.LoadFunc) error {
	s.mu.Lock()
	keys := make([]string, 0, len(s.data))
	snap := map[string][]byte{}
	for k, v := range s.data {
		keys = append(keys, k)
		snap[k] = v
	}
	s.mu.Unlock()
	s.order(keys)
	for _, k := range keys {
		if err := fn(k, snap[k]); err != nil {
			return err
		}
	}
	return nil
}
func (s *c02Store) Count(context.Context, string) (int, error) { return len(s.data), nil }
func (s *c02Store) Clear(context.Context, string) error        { s.data = map[string][]byte{}; return nil }
func (s *c02Store) Stats() opdb.Stats                          { return opdb.Stats{} }
func (s *c02Store) Close() error                               { return nil }

func c02V4(tok string) net.IP {
	n, _ := strconv.ParseUint(tok, 10, 32)
	b := make([]byte, 4)
	binary.BigEndian.PutUint32(b, uint32(n))
	return net.IP(b)
}
func c02Num(ipa net.IP) string {
	if ipa == nil {
		return "nil"
	}
	if v4 := ipa.To4(); v4 != nil {
		return strconv.FormatUint(uint64(binary.BigEndian.Uint32(v4)), 10)
	}
	return new(big.Int).SetBytes(ipa.To16()).String()
}
func c02V6(tok string) net.IP {
	n, _ := new(big.Int).SetString(tok, 10)
	b := n.Bytes()
	out := make([]byte, 16)
	copy(out[16-len(b):], b)
	return net.IP(out)
}
func c02Pfx(p *net.IPNet) string {
	if p == nil {
		return "nil"
	}
	ones, _ := p.Mask.Size()
	return new(big.Int).SetBytes(p.IP.To16()).String() + "/" + strconv.Itoa(ones)
}
func c02VRF(tok string) string {
	if tok == "0" {
		return ""
	}
	return "vrf" + tok
}

type c02Sub2 struct {
	k    int
	grp  int
	mac  net.HardwareAddr
	inc  int    // incarnations started so far
	told net.IP // last address the subscriber was told (a REQUEST names it in option 50)
	real string // component session id of the current incarnation
}

type c02World struct {
	cfg   *config.Config
	comp  *Component
	bus   *c02Bus
	vpp   *c02VPP
	prov  *dhcp4local.Provider
	prov6 *dhcp6local.Provider
	store *c02Store
	subs  map[string]*c02Sub2
	names map[string]string // component session id -> s<k+100*inc>
}

// cfg tokens: V imm|queue ; P4 <key> <prof> <vrf> <lo> <hi> <excl|-> ; G <gid> <prof4|-> <prof6|-> ; S <sid> I <gid> <mac>
func c02Build(toks []string) (*c02World, error) {
	w := &c02World{subs: map[string]*c02Sub2{}, names: map[string]string{}, vpp: &c02VPP{}}
	v4 := map[string]*ip.IPv4Profile{}
	v6 := map[string]*ip.IPv6Profile{}
	for _, n := range []string{"0", "1"} {
		v4["p"+n] = &ip.IPv4Profile{Gateway: "192.0.2.1", DNS: []string{"192.0.2.53"}}
		v6["q"+n] = &ip.IPv6Profile{}
	}
	groups := map[string]*subscriber.SubscriberGroup{}
	i := 0
	for i < len(toks) {
		switch toks[i] {
		case "V":
			w.vpp.queue = toks[i+1] == "queue"
			i += 2
		case "P4":
			key, prof, vrf, lo, hi, ex := toks[i+1], toks[i+2], toks[i+3], toks[i+4], toks[i+5], toks[i+6]
			i += 7
			pn := "p" + prof
			lip := c02V4(lo)
			pool := ip.IPv4Pool{Name: "k" + key, Network: fmt.Sprintf("%d.%d.0.0/16", lip[0], lip[1]),
				RangeStart: lip.String(), RangeEnd: c02V4(hi).String(), VRF: c02VRF(vrf), Priority: len(v4[pn].Pools)}
			if ex != "-" {
				for _, e := range strings.Split(ex, ",") {
					pool.Exclude = append(pool.Exclude, c02V4(e).String())
				}
			}
			v4[pn].Pools = append(v4[pn].Pools, pool)
		case "P6":
			key, prof, vrf, lo, hi := toks[i+1], toks[i+2], toks[i+3], toks[i+4], toks[i+5]
			i += 6
			lip := c02V6(lo)
			netw := (&net.IPNet{IP: lip.Mask(net.CIDRMask(64, 128)), Mask: net.CIDRMask(64, 128)}).String()
			v6["q"+prof].IANAPools = append(v6["q"+prof].IANAPools, ip.IANAPool{Name: "k" + key, Network: netw,
				RangeStart: lip.String(), RangeEnd: c02V6(hi).String(), VRF: c02VRF(vrf)})
		case "PD":
			key, prof, vrf, base, nb, pl := toks[i+1], toks[i+2], toks[i+3], toks[i+4], toks[i+5], toks[i+6]
			i += 7
			netw := (&net.IPNet{IP: c02V6(base), Mask: net.CIDRMask(atoi(nb), 128)}).String()
			v6["q"+prof].PDPools = append(v6["q"+prof].PDPools, ip.PDPool{Name: "k" + key, Network: netw,
				PrefixLength: uint8(atoi(pl)), VRF: c02VRF(vrf)})
		case "G":
			g := &subscriber.SubscriberGroup{VLANs: []subscriber.VLANRange{{SVLAN: strconv.Itoa(100 + atoi(toks[i+1]))}}}
			if toks[i+2] != "-" {
				g.IPv4Profile = "p" + toks[i+2]
			}
			if toks[i+3] != "-" {
				g.IPv6Profile = "q" + toks[i+3]
			}
			groups["g"+toks[i+1]] = g
			i += 4
		case "S":
			mac := atoi(toks[i+4])
			w.subs[toks[i+1]] = &c02Sub2{k: atoi(toks[i+1]), grp: atoi(toks[i+3]),
				mac: net.HardwareAddr{0x02, 0, 0, 0, byte(mac >> 8), byte(mac)}, inc: -1}
			i += 5
		default:
			return nil, fmt.Errorf("bad cfg token %q", toks[i])
		}
	}
	w.cfg = &config.Config{SubscriberGroups: &subscriber.SubscriberGroupsConfig{Groups: groups}, IPv4Profiles: v4, IPv6Profiles: v6}
	// the address profiles of the generated configuration go through the real Config.Validate before anything is
	// built from them, as at load time (the subscriber groups of the harness are bare - no access types, parent
	// interfaces - and would be refused for reasons that have nothing to do with addresses: they are left out)
	if err := (&config.Config{IPv4Profiles: v4, IPv6Profiles: v6}).Validate(); err != nil {
		return nil, c02Rejected{err}
	}
	w.store = &c02Store{data: map[string][]byte{}}
	w.store.order = func(keys []string) {
		rank := func(id string) int { // declaration order of the subscriber, then incarnation
			n := atoi(strings.TrimPrefix(w.names[id], "s"))
			return (n%100)*100 + n/100
		}
		sort.Slice(keys, func(i, j int) bool { return rank(keys[i]) < rank(keys[j]) })
	}
	if err := w.boot(); err != nil {
		return nil, err
	}
	return w, nil
}

// boot starts one "process": fresh registry, fresh provider lease tables, fresh component; only the opdb store
// is carried over.
func (w *c02World) boot() error {
	allocator.ResetGlobalRegistry()
	p, err := dhcp4local.New(w.cfg)
	if err != nil {
		return err
	}
	w.prov = p.(*dhcp4local.Provider)
	p6, err := dhcp6local.New(w.cfg)
	if err != nil {
		return err
	}
	w.prov6 = p6.(*dhcp6local.Provider)
	ifMgr := ifmgr.New()
	ifMgr.Add(&ifmgr.Interface{SwIfIndex: 10, SupSwIfIndex: 2, Name: "TenGigE0/0.100", Type: ifmgr.IfTypeSub, OuterVlanID: 100})
	ifMgr.Add(&ifmgr.Interface{SwIfIndex: 2, Name: "TenGigE0/0", Type: ifmgr.IfTypeHardware, MAC: []byte{0x52, 0x54, 0, 0x11, 0x22, 0x33}})
	w.bus = &c02Bus{}
	w.vpp.pending = nil
	w.comp = &Component{
		Base:             component.NewBase("ipoe-c02"),
		logger:           logger.NewTest(),
		eventBus:         w.bus,
		ifMgr:            ifMgr,
		cfgMgr:           &c02CfgMgr{cfg: w.cfg},
		svcGroupResolver: svcgroup.New(),
		cache:            memory.New(),
		opdb:             w.store,
		vpp:              w.vpp,
		dhcp4Providers:   map[string]dhcp4.DHCPProvider{"local": w.prov},
		dhcp6Providers:   map[string]dhcp6.DHCPProvider{"local": w.prov6},
		raBuckets:        make(map[int][]string),
		raBucketCount:    16,
	}
	w.comp.StartContext(nil)
	return nil
}

// settle waits until every checkpoint write issued so far has reached the store
// (a gate on the writer's own queue, not a wait of fixed length).  A writer that is still busy after 30 s is not
// waited out silently: the case ends with "panic checkpoint_writer_not_idle", which no model variant produces.
func (w *c02World) settle() {
	deadline := time.Now().Add(30 * time.Second)
	for !w.comp.checkpointWriter().VerifC02Idle() {
		if time.Now().After(deadline) {
			panic("checkpoint_writer_not_idle")
		}
		time.Sleep(20 * time.Microsecond)
	}
}

func atoi(s string) int { n, _ := strconv.Atoi(s); return n }

func (w *c02World) live(s *c02Sub2) *SessionState {
	key := w.comp.makeSessionKeyV4(s.mac, uint16(100+s.grp), 0)
	if v, ok := w.comp.sessions.Load(key); ok {
		return v.(*SessionState)
	}
	return nil
}

func (w *c02World) dhcpPkt(s *c02Sub2, mt layers.DHCPMsgType, ciaddr net.IP) *dataplane.ParsedPacket {
	d := &layers.DHCPv4{Operation: layers.DHCPOpRequest, HardwareType: layers.LinkTypeEthernet, HardwareLen: 6,
		Xid: uint32(0x1000 + s.k), ClientHWAddr: s.mac, ClientIP: net.IPv4zero, YourClientIP: net.IPv4zero,
		NextServerIP: net.IPv4zero, RelayAgentIP: net.IPv4zero}
	if ciaddr != nil {
		d.ClientIP = ciaddr
	}
	d.Options = append(d.Options, layers.NewDHCPOption(layers.DHCPOptMessageType, []byte{byte(mt)}))
	if mt == layers.DHCPMsgTypeRequest && s.told.To4() != nil {
		d.Options = append(d.Options, layers.NewDHCPOption(layers.DHCPOptRequestIP, []byte(s.told.To4())))
	}
	return &dataplane.ParsedPacket{Protocol: models.ProtocolDHCPv4, MAC: s.mac, OuterVLAN: uint16(100 + s.grp),
		SwIfIndex: 10, DHCPv4: d}
}

func (w *c02World) v6Pkt(s *c02Sub2, mt byte) *dataplane.ParsedPacket {
	duid := append([]byte{0, 3, 0, 1}, s.mac...)
	raw := []byte{mt, 0, byte(s.k), 1}
	raw = append(raw, 0, 1, 0, byte(len(duid)))
	raw = append(raw, duid...)
	raw = append(raw, 0, 3, 0, 12, 0, 0, 0, 1, 0, 0, 0, 0, 0, 0, 0, 0)
	raw = append(raw, 0, 25, 0, 12, 0, 0, 0, 1, 0, 0, 0, 0, 0, 0, 0, 0)
	layer := &layers.DHCPv6{}
	if err := layer.DecodeFromBytes(raw, gopacket.NilDecodeFeedback); err != nil {
		panic(err)
	}
	ll := net.ParseIP("fe80::200:ff:fe00:0")
	ll[14], ll[15] = s.mac[4], s.mac[5]
	return &dataplane.ParsedPacket{Protocol: models.ProtocolDHCPv6, MAC: s.mac, OuterVLAN: uint16(100 + s.grp),
		SwIfIndex: 10, DHCPv6: layer, IPv6: &layers.IPv6{SrcIP: ll}}
}

// hand-written TLV walk over a DHCPv6 message: IA_NA address, IA_PD prefix
func c02V6Told(raw []byte) (string, string) {
	a6, pd := "nil", "nil"
	opts := raw[4:]
	for len(opts) >= 4 {
		code := int(opts[0])<<8 | int(opts[1])
		l := int(opts[2])<<8 | int(opts[3])
		if 4+l > len(opts) {
			break
		}
		body := opts[4 : 4+l]
		if (code == 3 || code == 25) && len(body) >= 12 {
			sub := body[12:]
			for len(sub) >= 4 {
				sc := int(sub[0])<<8 | int(sub[1])
				sl := int(sub[2])<<8 | int(sub[3])
				if 4+sl > len(sub) {
					break
				}
				if code == 3 && sc == 5 && sl >= 24 {
					a6 = c02Num(net.IP(sub[4:20]))
				}
				if code == 25 && sc == 26 && sl >= 25 {
					pd = new(big.Int).SetBytes(sub[13:29]).String() + "/" + strconv.Itoa(int(sub[12]))
				}
				sub = sub[4+sl:]
			}
		}
		opts = opts[4+l:]
	}
	return a6, pd
}

// decode the DHCPv4 replies published since mark with gopacket: "offer:<yi>" / "ack:<yi>" / "nak"
// replies of one event, sorted (the v4 and v6 pending packets are replayed on two goroutines)
func (w *c02World) replies(mark int) []string {
	out := w.replies0(mark)
	sort.Strings(out)
	return out
}

func (w *c02World) replies0(mark int) []string {
	var out []string
	for i, raw := range w.bus.egress[mark:] {
		if w.bus.v6[mark+i] {
			if len(raw) < 48+4 {
				out = append(out, "undecodable6")
				continue
			}
			m := raw[48:]
			a6, pd := c02V6Told(m)
			switch m[0] {
			case 2:
				out = append(out, "adv6:"+a6+":"+pd)
			case 7:
				out = append(out, "rep6:"+a6+":"+pd)
			default:
				out = append(out, "other6")
			}
			continue
		}
		pkt := gopacket.NewPacket(raw, layers.LayerTypeIPv4, gopacket.Default)
		if dl, _ := pkt.Layer(layers.LayerTypeDHCPv4).(*layers.DHCPv4); dl != nil {
			for _, sub := range w.subs {
				if sub.mac.String() == w.bus.dst[mark+i] {
					sub.told = append(net.IP(nil), dl.YourClientIP...)
				}
			}
		}
		dl, _ := pkt.Layer(layers.LayerTypeDHCPv4).(*layers.DHCPv4)
		if dl == nil {
			out = append(out, "undecodable")
			continue
		}
		mt := layers.DHCPMsgTypeUnspecified
		for _, o := range dl.Options {
			if o.Type == layers.DHCPOptMessageType && len(o.Data) == 1 {
				mt = layers.DHCPMsgType(o.Data[0])
			}
		}
		switch mt {
		case layers.DHCPMsgTypeOffer:
			out = append(out, "offer:"+c02Num(dl.YourClientIP))
		case layers.DHCPMsgTypeAck:
			out = append(out, "ack:"+c02Num(dl.YourClientIP))
		default:
			out = append(out, "other")
		}
	}
	return out
}

func (w *c02World) name(s *c02Sub2) {
	if sess := w.live(s); sess != nil && sess.SessionID != s.real {
		s.inc++
		s.told = nil // a new incarnation is a client that starts over: its first REQUEST names no address
		s.real = sess.SessionID
		w.names[sess.SessionID] = "s" + strconv.Itoa(s.k+100*s.inc)
	}
}

func (w *c02World) op(f []string) string {
	if f[0] == "BZ" { // the process dies and a new one restores from opdb
		w.settle()
		w.comp.StopContext()
		if err := w.boot(); err != nil {
			return "bz booterr"
		}
		if err := w.comp.restoreSessions(context.Background()); err != nil {
			return "bz restoreerr"
		}
		w.settle()
		var ks []string
		for k := range w.subs {
			ks = append(ks, k)
		}
		sort.Slice(ks, func(i, j int) bool { return atoi(ks[i]) < atoi(ks[j]) })
		var parts []string
		for _, k := range ks {
			parts = append(parts, "s"+k+"="+w.rec(w.subs[k]))
		}
		return "bz " + strings.Join(parts, ",")
	}
	if f[0] == "BC" { // complete queued southbound callbacks (BC = in order, BCR = reverse order)
		mark := len(w.bus.egress)
		q := w.vpp.pending
		w.vpp.pending = nil
		if len(f) > 1 && f[1] == "rev" {
			for i := len(q) - 1; i >= 0; i-- {
				q[i]()
			}
		} else {
			for _, cb := range q {
				cb()
			}
		}
		w.settle()
		return "bc " + strings.Join(append(w.replies(mark), "."), ",")
	}
	s := w.subs[f[1]]
	if s == nil {
		return "skip"
	}
	mark, amark := len(w.bus.egress), len(w.bus.aaa)
	tag := strings.ToLower(f[0])
	if (f[0] == "BD" || f[0] == "BQ" || f[0] == "BS") && w.live(s) == nil {
		s.told = nil // a new incarnation is a client that starts over: its first REQUEST names no address
	}
	switch f[0] {
	case "BD":
		w.comp.processDHCPPacket(w.dhcpPkt(s, layers.DHCPMsgTypeDiscover, nil))
		w.name(s)
	case "BQ":
		w.comp.processDHCPPacket(w.dhcpPkt(s, layers.DHCPMsgTypeRequest, nil))
		w.name(s)
	case "BS":
		w.comp.processDHCPv6Packet(w.v6Pkt(s, 1))
		w.name(s)
	case "BV":
		w.comp.processDHCPv6Packet(w.v6Pkt(s, 3))
	case "BW":
		w.comp.processDHCPv6Packet(w.v6Pkt(s, 5))
	case "BL":
		w.comp.processDHCPv6Packet(w.v6Pkt(s, 8))
	case "BA", "BJ": // AAA answer for the session's outstanding request
		sess := w.live(s)
		if sess == nil || !sess.AAAInFlight {
			return "skip"
		}
		attrs := map[string]interface{}{}
		if f[0] == "BA" {
			if f[2] != "0" {
				attrs["vrf"] = c02VRF(f[2])
			}
			if f[3] != "-" {
				attrs["ipv4_address"] = c02V4(f[3]).String()
			}
			if f[4] != "-" {
				attrs["pool"] = "k" + f[4]
			}
			if len(f) > 6 {
				if f[5] != "-" {
					attrs["ipv6_address"] = c02V6(f[5]).String()
				}
				if f[6] != "-" {
					parts := strings.Split(f[6], "/")
					attrs["ipv6_prefix"] = c02V6(parts[0]).String() + "/" + parts[1]
				}
			}
		}
		w.comp.handleAAAResponse(events.Event{Data: &events.AAAResponseEvent{SessionID: sess.SessionID,
			Response: models.AAAResponse{Allowed: f[0] == "BA", Attributes: attrs}}})
	case "BR": // DHCPRELEASE, ciaddr = the session's bound address ("self"), or the given one
		ci := net.IPv4zero
		if f[2] == "self" {
			if sess := w.live(s); sess != nil && sess.IPv4 != nil {
				ci = sess.IPv4
			}
		} else {
			ci = c02V4(f[2])
		}
		w.comp.processDHCPPacket(w.dhcpPkt(s, layers.DHCPMsgTypeRelease, ci))
	case "BT": // administrative disconnect
		sess := w.live(s)
		if sess == nil {
			return "skip"
		}
		w.comp.handleSubscriberTerminate(events.Event{Data: &events.SubscriberTerminateEvent{SessionID: sess.SessionID, Reason: "c02"}})
	case "BE": // lease expiry: the reaper of cleanupSessions takes the subscriber's session
		sess := w.live(s)
		if sess == nil {
			return "skip"
		}
		tag = w.reap(s, sess)
	case "BX": // lease of the subscriber's MAC expires in the DHCPv4 provider
		w.prov.VerifC02Age(s.mac.String())
	default:
		return "badop"
	}
	w.settle()
	return fmt.Sprintf("%s %s aaa=%d rec=%s", tag, strings.Join(append(w.replies(mark), "."), ","), len(w.bus.aaa)-amark, w.rec(s))
}

// reap lets the REAL cleanupSessions take the session: its clocks are moved into the past and the reaper goroutine is
// run (under a context of its own) until the session has left the component's table; cancelling the context and waiting
// for the goroutine to return guarantees that the iteration which removed the session has run to its end (releases,
// provider lease, checkpoint delete). The file injected for internal/ipoe/session.go is the repository's own, with the
// ticker period of cleanupSessions shortened (props/C02.py). Whether the session is due is asked of the same rule the
// loop applies (sessionPastLease / half-open idle); a due session that the reaper does not take within 30 s is reported.
func (w *c02World) reap(s *c02Sub2, sess *SessionState) string {
	c := w.comp
	past := time.Now().Add(-1000 * time.Hour)
	sess.mu.Lock()
	sess.LastSeen = past
	if !sess.BoundAt.IsZero() {
		sess.BoundAt = past
	}
	if !sess.IPv6BoundAt.IsZero() {
		sess.IPv6BoundAt = past
	}
	now := time.Now()
	var due bool
	if sess.State == "bound" {
		due = c.sessionPastLease(sess, now)
	} else {
		due = now.Sub(sess.LastSeen) > halfOpenIdleTimeout
	}
	sess.mu.Unlock()
	if !due {
		return "be-kept"
	}
	old := c.Ctx
	ctx, cancel := context.WithCancel(context.Background())
	c.Ctx = ctx
	done := make(chan struct{})
	go func() { c.cleanupSessions(); close(done) }()
	deadline := time.Now().Add(30 * time.Second)
	for w.live(s) != nil {
		if time.Now().After(deadline) {
			cancel()
			<-done
			c.Ctx = old
			panic("reaper_did_not_take_a_due_session")
		}
		time.Sleep(200 * time.Microsecond)
	}
	cancel()
	<-done
	c.Ctx = old
	return "be"
}

// what the component's session of the subscriber records: IPv4/IPv6 address/delegated prefix, or "gone"
func (w *c02World) rec(s *c02Sub2) string {
	sess := w.live(s)
	if sess == nil {
		return "gone"
	}
	sess.mu.Lock()
	defer sess.mu.Unlock()
	return c02Num(sess.IPv4) + "/" + c02Num(sess.IPv6Address) + "/" + c02Pfx(sess.IPv6Prefix)
}

// the persisted images: "name:v4/v6/pd" sorted
func (w *c02World) storeSnap() string {
	w.store.mu.Lock()
	defer w.store.mu.Unlock()
	var out []string
	for id, raw := range w.store.data {
		var ss SessionState
		if err := json.Unmarshal(raw, &ss); err != nil {
			out = append(out, w.names[id]+":undecodable")
			continue
		}
		// the image's allocator context: handleAAAResponse replays a pending DHCPv4 and a pending DHCPv6 packet on
		// two goroutines, so the image written by the DHCPv6 side may or may not carry the address the DHCPv4
		// side resolved; after a restart that decides between "reserve this address" and "allocate afresh"
		// (and the other way round for the IA_NA address / prefix in the image the DHCPv4 side writes)
		var ctx4, ctx6 net.IP
		var ctxd *net.IPNet
		if ss.AllocCtx != nil {
			ctx4, ctx6, ctxd = ss.AllocCtx.IPv4Address, ss.AllocCtx.IPv6Address, ss.AllocCtx.IPv6Prefix
		}
		out = append(out, w.names[id]+":"+c02Num(ss.IPv4)+"/"+c02Num(ss.IPv6Address)+"/"+c02Pfx(ss.IPv6Prefix)+
			"@"+c02Num(ctx4)+"/"+c02Num(ctx6)+"/"+c02Pfx(ctxd))
	}
	sort.Strings(out)
	return "S[" + strings.Join(out, ",") + "]"
}

func (w *c02World) rename(s string) string {
	// longest ids first so that no id is a prefix problem
	ids := make([]string, 0, len(w.names))
	for id := range w.names {
		ids = append(ids, id)
	}
	sort.Slice(ids, func(i, j int) bool { return len(ids[i]) > len(ids[j]) })
	for _, id := range ids {
		s = strings.ReplaceAll(s, id, w.names[id])
	}
	return s
}

// re-sort "a=s1,b=s2" lease lists after renaming is unnecessary: they are sorted by address first.
func (w *c02World) snap() string {
	return w.rename(allocator.GetGlobalRegistry().VerifC02Snapshot()) + " | " + w.rename(w.prov.VerifC02Leases()) +
		" | " + w.rename(w.prov6.VerifC02Leases()) + " | " + w.storeSnap()
}

// c02Rejected: Config.Validate refused the generated configuration
type c02Rejected struct{ error }

func c02RunCase(line string) (out string) {
	defer func() {
		if r := recover(); r != nil {
			out = "panic " + strings.ReplaceAll(fmt.Sprint(r), " ", "_")
		}
	}()
	parts := strings.Split(line, " ; ")
	cfg := strings.Fields(parts[0])
	w, err := c02Build(cfg[1:]) // cfg[0] == "B"
	if err != nil {
		if _, ok := err.(c02Rejected); ok {
			return "rejected-config" // Config.Validate refused the configuration: nothing runs
		}
		return "cfgerr " + strings.ReplaceAll(err.Error(), " ", "_")
	}
	_ = session.GenerateID
	res := []string{"init | " + w.snap()}
	for _, o := range parts[1:] {
		f := strings.Fields(o)
		if len(f) < 1 {
			continue
		}
		r := w.op(f)
		res = append(res, r+" | "+w.snap())
	}
	return strings.Join(res, " ; ")
}

func TestVerifC02IPoE(t *testing.T) {
	in, err := os.Open(os.Getenv("VERIF_CASES"))
	if err != nil {
		t.Fatal(err)
	}
	defer in.Close()
	outf, err := os.Create(os.Getenv("VERIF_OUT"))
	if err != nil {
		t.Fatal(err)
	}
	defer outf.Close()
	wr := bufio.NewWriter(outf)
	defer wr.Flush()
	sc := bufio.NewScanner(in)
	sc.Buffer(make([]byte, 1<<20), 1<<26)
	for sc.Scan() {
		line := sc.Text()
		if strings.TrimSpace(line) == "" {
			continue
		}
		done := make(chan string, 1)
		go func() { done <- c02RunCase(line) }()
		select {
		case r := <-done:
			fmt.Fprintln(wr, r)
		case <-time.After(20 * time.Second):
			fmt.Fprintln(wr, "hang")
		}
	}
}
