//go:build verif

package pppoe

// C02 correspondence harness (stage A: function level), injected into internal/pppoe.
//
// One case = one history over one shared allocator registry:
//   PPPoE subscribers   real SessionState: onAuthResult -> startNCP, IPCP Configure-Request through
//                       handlePPP, terminate
//   IPoE subscribers    the address functions the IPoE component calls: allocator.NewContext,
//                       dhcp.ResolveV4 / ResolveV6, the real local DHCPv4 provider (DISCOVER/REQUEST with
//                       Resolved, ReleaseLease, lease expiry) and the registry release calls of
//                       handleRelease / cleanupSessions / handleSubscriberTerminate.
// After every op the complete registry and DHCPv4 lease table are printed (accessors injected into
// pkg/allocator and plugins/dhcp4/local by the same overlay).

import (
	"bufio"
	"context"
	"encoding/binary"
	"fmt"
	"math/big"
	"net"
	"os"
	"strconv"
	"strings"
	"testing"
	"time"

	"github.com/google/gopacket/layers"
	"github.com/veesix-networks/osvbng/pkg/allocator"
	"github.com/veesix-networks/osvbng/pkg/component"
	"github.com/veesix-networks/osvbng/pkg/config"
	"github.com/veesix-networks/osvbng/pkg/config/ip"
	"github.com/veesix-networks/osvbng/pkg/config/subscriber"
	"github.com/veesix-networks/osvbng/pkg/dhcp"
	"github.com/veesix-networks/osvbng/pkg/dhcp4"
	"github.com/veesix-networks/osvbng/pkg/events"
	"github.com/veesix-networks/osvbng/pkg/ifmgr"
	"github.com/veesix-networks/osvbng/pkg/logger"
	"github.com/veesix-networks/osvbng/pkg/ppp"
	"github.com/veesix-networks/osvbng/pkg/svcgroup"
	dhcp4local "github.com/veesix-networks/osvbng/plugins/dhcp4/local"
	dhcp6local "github.com/veesix-networks/osvbng/plugins/dhcp6/local"
	"github.com/veesix-networks/osvbng/pkg/dhcp6"
)

type c02Bus struct{ frames [][]byte }

func (b *c02Bus) Publish(topic string, ev events.Event) {
	if topic == events.TopicEgress {
		if e, ok := ev.Data.(*events.EgressEvent); ok {
			b.frames = append(b.frames, append([]byte(nil), e.Packet.RawData...))
		}
	}
}
func (b *c02Bus) Subscribe(string, events.Handler) events.Subscription { return c02Sub{} }
func (b *c02Bus) SubscribeAll(events.Handler) events.Subscription      { return c02Sub{} }
func (b *c02Bus) Stats() events.Stats                                  { return events.Stats{} }
func (b *c02Bus) SetDebugTopics([]string)                              {}
func (b *c02Bus) DebugTopics() []string                                { return nil }
func (b *c02Bus) Close() error                                         { return nil }

type c02Sub struct{}

func (c02Sub) Unsubscribe() {}

type c02CfgMgr struct{ cfg *config.Config }

func (f *c02CfgMgr) GetRunning() (*config.Config, error) { return f.cfg, nil }
func (f *c02CfgMgr) GetStartup() (*config.Config, error) { return f.cfg, nil }
func (f *c02CfgMgr) LookupSubscriberGroup(svlan, cvlan uint16) (subscriber.GroupMatch, bool) {
	return subscriber.BuildMatchIndex(f.cfg.SubscriberGroups).Lookup(svlan, cvlan)
}

func c02V4(tok string) net.IP {
	n, _ := strconv.ParseUint(tok, 10, 32)
	b := make([]byte, 4)
	binary.BigEndian.PutUint32(b, uint32(n))
	return net.IP(b)
}
func c02V6(tok string) net.IP {
	n, _ := new(big.Int).SetString(tok, 10)
	b := n.Bytes()
	out := make([]byte, 16)
	copy(out[16-len(b):], b)
	return net.IP(out)
}
func c02Num(ipa net.IP) string {
	if ipa == nil {
		return "nil"
	}
	if v4 := ipa.To4(); v4 != nil {
		return strconv.FormatUint(uint64(binary.BigEndian.Uint32(v4)), 10)
	}
	return new(big.Int).SetBytes(ipa.To16()).String()
}
func c02Pfx(p *net.IPNet) string {
	if p == nil {
		return "nil"
	}
	ones, _ := p.Mask.Size()
	return new(big.Int).SetBytes(p.IP.To16()).String() + "/" + strconv.Itoa(ones)
}
func c02VRF(tok string) string {
	if tok == "0" {
		return ""
	}
	return "vrf" + tok
}

type c02Sess struct {
	id     string
	proto  string // P | I
	grp    int
	mac    net.HardwareAddr
	ppp    *SessionState
	ctx    *allocator.Context
	ipcp   bool
	acked  bool // the peer has acknowledged our IPCP Configure-Request in this authentication
	told4  net.IP
	duid   bool // the session recorded the client's DUID (a SOLICIT was seen)
	bound4 net.IP
	bound6 net.IP
	boundP *net.IPNet
	dead   bool
}

type c02World struct {
	cfg   *config.Config
	comp  *Component
	bus   *c02Bus
	prov  *dhcp4local.Provider
	prov6 *dhcp6local.Provider
	sess  map[string]*c02Sess
	grpP4 map[int]string
	grpP6 map[int]string
	pname map[string]string // family+key -> registry key "<profile>/k<key>" of that pool
}

// cfg tokens (before the first ';'):
//   P4 <key> <prof> <vrf> <lo> <hi> <excl,excl|->     IPv4 pool k<key> of profile p<prof>
//   P6 <key> <prof> <vrf> <lo> <hi>                   IA_NA pool k<key> of profile q<prof>
//   PD <key> <prof> <vrf> <base> <netbits> <plen>     PD pool k<key> of profile q<prof>
//   G <gid> <prof4|-> <prof6|->                       subscriber group (S-VLAN 100+gid)
//   S <sid> <P|I> <gid> <mac>                         subscriber session
func c02Build(cfgToks []string) (*c02World, error) {
	w := &c02World{sess: map[string]*c02Sess{}, grpP4: map[int]string{}, grpP6: map[int]string{}, pname: map[string]string{}}
	// NS (first token): IPv6 profiles are named like the IPv4 ones (p<prof>), so that an IPv4 pool, an IA_NA pool and a
	// PD pool can carry the SAME registry key "p<prof>/k<key>"
	qp := "q"
	if len(cfgToks) > 0 && cfgToks[0] == "NS" {
		qp = "p"
		cfgToks = cfgToks[1:]
	}
	v4 := map[string]*ip.IPv4Profile{}
	v6 := map[string]*ip.IPv6Profile{}
	groups := map[string]*subscriber.SubscriberGroup{}
	type sdecl struct {
		id, proto string
		grp, mac  int
	}
	var sds []sdecl
	// the profiles p0,p1 / q0,q1 always exist (possibly without pools)
	for _, n := range []string{"0", "1"} {
		v4["p"+n] = &ip.IPv4Profile{Gateway: "192.0.2.1", DNS: []string{"192.0.2.53"}}
		v6[qp+n] = &ip.IPv6Profile{}
	}
	i := 0
	for i < len(cfgToks) {
		switch cfgToks[i] {
		case "P4":
			key, prof, vrf, lo, hi, ex := cfgToks[i+1], cfgToks[i+2], cfgToks[i+3], cfgToks[i+4], cfgToks[i+5], cfgToks[i+6]
			i += 7
			pn := "p" + prof
			if v4[pn] == nil {
				v4[pn] = &ip.IPv4Profile{Gateway: "192.0.2.1", DNS: []string{"192.0.2.53"}}
			}
			lip := c02V4(lo)
			pool := ip.IPv4Pool{Name: "k" + key, Network: fmt.Sprintf("%d.%d.0.0/16", lip[0], lip[1]),
				RangeStart: lip.String(), RangeEnd: c02V4(hi).String(), VRF: c02VRF(vrf), Priority: len(v4[pn].Pools)}
			if ex != "-" {
				for _, e := range strings.Split(ex, ",") {
					pool.Exclude = append(pool.Exclude, c02V4(e).String())
				}
			}
			v4[pn].Pools = append(v4[pn].Pools, pool)
			w.pname["4"+key] = pn + "/k" + key
		case "P6":
			key, prof, vrf, lo, hi := cfgToks[i+1], cfgToks[i+2], cfgToks[i+3], cfgToks[i+4], cfgToks[i+5]
			i += 6
			qn := qp + prof
			if v6[qn] == nil {
				v6[qn] = &ip.IPv6Profile{}
			}
			lip := c02V6(lo)
			netw := (&net.IPNet{IP: lip.Mask(net.CIDRMask(64, 128)), Mask: net.CIDRMask(64, 128)}).String()
			v6[qn].IANAPools = append(v6[qn].IANAPools, ip.IANAPool{Name: "k" + key, Network: netw,
				RangeStart: lip.String(), RangeEnd: c02V6(hi).String(), VRF: c02VRF(vrf)})
			w.pname["6"+key] = qn + "/k" + key
		case "PD":
			key, prof, vrf, base, nb, pl := cfgToks[i+1], cfgToks[i+2], cfgToks[i+3], cfgToks[i+4], cfgToks[i+5], cfgToks[i+6]
			i += 7
			qn := qp + prof
			if v6[qn] == nil {
				v6[qn] = &ip.IPv6Profile{}
			}
			nbi, _ := strconv.Atoi(nb)
			pli, _ := strconv.Atoi(pl)
			netw := (&net.IPNet{IP: c02V6(base), Mask: net.CIDRMask(nbi, 128)}).String()
			v6[qn].PDPools = append(v6[qn].PDPools, ip.PDPool{Name: "k" + key, Network: netw,
				PrefixLength: uint8(pli), VRF: c02VRF(vrf)})
			w.pname["D"+key] = qn + "/k" + key
		case "G":
			gid, _ := strconv.Atoi(cfgToks[i+1])
			g := &subscriber.SubscriberGroup{VLANs: []subscriber.VLANRange{{SVLAN: strconv.Itoa(100 + gid)}}}
			if cfgToks[i+2] != "-" {
				g.IPv4Profile = "p" + cfgToks[i+2]
				w.grpP4[gid] = g.IPv4Profile
			}
			if cfgToks[i+3] != "-" {
				g.IPv6Profile = qp + cfgToks[i+3]
				w.grpP6[gid] = g.IPv6Profile
			}
			groups["g"+cfgToks[i+1]] = g
			i += 4
		case "S":
			gid, _ := strconv.Atoi(cfgToks[i+3])
			mac, _ := strconv.Atoi(cfgToks[i+4])
			sds = append(sds, sdecl{cfgToks[i+1], cfgToks[i+2], gid, mac})
			i += 5
		default:
			return nil, fmt.Errorf("bad cfg token %q", cfgToks[i])
		}
	}
	w.cfg = &config.Config{
		SubscriberGroups: &subscriber.SubscriberGroupsConfig{Groups: groups},
		IPv4Profiles:     v4,
		IPv6Profiles:     v6,
	}
	// the address profiles of the generated configuration go through the real Config.Validate before anything is
	// built from them, as at load time (the subscriber groups of the harness are bare - no access types, parent
	// interfaces - and would be refused for reasons that have nothing to do with addresses: they are left out)
	if err := (&config.Config{IPv4Profiles: v4, IPv6Profiles: v6}).Validate(); err != nil {
		return nil, c02Rejected{err}
	}
	allocator.ResetGlobalRegistry()
	p, err := dhcp4local.New(w.cfg) // also initialises the global registry, as in production
	if err != nil {
		return nil, err
	}
	w.prov = p.(*dhcp4local.Provider)
	p6, err := dhcp6local.New(w.cfg)
	if err != nil {
		return nil, err
	}
	w.prov6 = p6.(*dhcp6local.Provider)
	ifMgr := ifmgr.New()
	ifMgr.Add(&ifmgr.Interface{SwIfIndex: 10, SupSwIfIndex: 2, Name: "TenGigE0/0.100", Type: ifmgr.IfTypeSub, OuterVlanID: 100})
	ifMgr.Add(&ifmgr.Interface{SwIfIndex: 2, Name: "TenGigE0/0", Type: ifmgr.IfTypeHardware, MAC: []byte{0x52, 0x54, 0, 0x11, 0x22, 0x33}})
	w.bus = &c02Bus{}
	w.comp = &Component{
		Base:             component.NewBase("pppoe-c02"),
		logger:           logger.NewTest(),
		eventBus:         w.bus,
		ifMgr:            ifMgr,
		cfgMgr:           &c02CfgMgr{cfg: w.cfg},
		svcGroupResolver: svcgroup.New(),
		raBuckets:        make(map[int][]string),
		raBucketCount:    16,
		registry:         allocator.GetGlobalRegistry(),
		dhcp6Providers:   map[string]dhcp6.DHCPProvider{"local": w.prov6},
		dhcp6Sem:         make(chan struct{}, 16),
	}
	for n, d := range sds {
		s := &c02Sess{id: "s" + d.id, proto: d.proto, grp: d.grp,
			mac: net.HardwareAddr{0x02, 0, 0, 0, byte(d.mac >> 8), byte(d.mac)}}
		if d.proto == "P" {
			s.ppp = &SessionState{
				component: w.comp, SessionID: s.id, PPPoESessionID: uint16(n + 1), MAC: s.mac,
				OuterVLAN: uint16(100 + d.grp), EncapIfIndex: 10, Phase: ppp.PhaseAuthenticate,
				Attributes: make(map[string]string),
			}
			s.ppp.initPPP()
		}
		w.sess[d.id] = s
	}
	return w, nil
}

func c02Attrs(vrf, s4, s6, spd, o4, o6, opd string) map[string]interface{} {
	a := map[string]interface{}{}
	if vrf != "0" {
		a["vrf"] = c02VRF(vrf)
	}
	if s4 != "-" {
		a["ipv4_address"] = c02V4(s4).String()
	}
	if s6 != "-" {
		a["ipv6_address"] = c02V6(s6).String()
	}
	if spd != "-" {
		parts := strings.Split(spd, "/")
		a["ipv6_prefix"] = c02V6(parts[0]).String() + "/" + parts[1]
	}
	if o4 != "-" {
		a["pool"] = "k" + o4
	}
	if o6 != "-" {
		a["iana_pool"] = "k" + o6
	}
	if opd != "-" {
		a["pd_pool"] = "k" + opd
	}
	return a
}

func c02PoolTok(s string) string {
	if s == "" {
		return "-"
	}
	return s
}

// last IPCP frame of the given code published since mark; returns (id, options payload)
func (w *c02World) lastIPCP(mark int, codes ...uint8) (uint8, uint8, []byte, bool) {
	for i := len(w.bus.frames) - 1; i >= mark; i-- {
		f := w.bus.frames[i]
		// PPPoE header 6 bytes, then PPP protocol (2), code, id, len(2), data
		if len(f) < 12 || binary.BigEndian.Uint16(f[6:8]) != ppp.ProtoIPCP {
			continue
		}
		for _, c := range codes {
			if f[8] == c {
				l := int(binary.BigEndian.Uint16(f[10:12]))
				if 8+l > len(f) || l < 4 {
					return f[8], f[9], nil, true
				}
				return f[8], f[9], f[12 : 8+l], true
			}
		}
	}
	return 0, 0, nil, false
}

func c02IPCPFrame(code, id uint8, opts []byte) *layers.PPP {
	p := make([]byte, 4+len(opts))
	p[0], p[1] = code, id
	binary.BigEndian.PutUint16(p[2:4], uint16(4+len(opts)))
	copy(p[4:], opts)
	return &layers.PPP{PPPType: layers.PPPType(ppp.ProtoIPCP), BaseLayer: layers.BaseLayer{Payload: p}}
}

func c02Opt3(opts []byte) string {
	for i := 0; i+2 <= len(opts); {
		l := int(opts[i+1])
		if l < 2 || i+l > len(opts) {
			break
		}
		if opts[i] == 3 && l == 6 {
			return c02Num(net.IP(opts[i+2 : i+6]))
		}
		i += l
	}
	return "none"
}

// DISCOVER / REQUEST as a client sends them; a REQUEST names the offered address in option 50
func c02Discover(mac net.HardwareAddr, mt byte, requested net.IP) []byte {
	b := make([]byte, 240)
	b[0], b[1], b[2] = 1, 1, 6
	binary.BigEndian.PutUint32(b[4:8], 0x1234)
	copy(b[28:34], mac)
	binary.BigEndian.PutUint32(b[236:240], 0x63825363)
	b = append(b, 53, 1, mt)
	if mt == 3 && requested.To4() != nil {
		b = append(b, 50, 4)
		b = append(b, requested.To4()...)
	}
	return append(b, 255)
}

func c02Handle(p *dhcp4local.Provider, pkt *dhcp4.Packet) (resp *dhcp4.Packet, err error, panicked bool) {
	defer func() {
		if r := recover(); r != nil {
			panicked = true
		}
	}()
	resp, err = p.HandlePacket(context.Background(), pkt)
	return
}

// DHCPv6 SOLICIT (1) / REQUEST (3) asking for IA_NA and IA_PD
func c02V6Msg(mt byte, duid []byte) []byte {
	b := []byte{mt, 0x12, 0x34, 0x56}
	b = append(b, 0, 1, 0, byte(len(duid)))
	b = append(b, duid...)
	b = append(b, 0, 3, 0, 12, 0, 0, 0, 1, 0, 0, 0, 0, 0, 0, 0, 0)
	b = append(b, 0, 25, 0, 12, 0, 0, 0, 2, 0, 0, 0, 0, 0, 0, 0, 0)
	return b
}

// hand-written TLV walk over the reply (independent of the repo's builder/parser): IA_NA address, IA_PD prefix
func c02V6Told(raw []byte) (string, string) {
	a6, pd := "nil", "nil"
	opts := raw[4:]
	for len(opts) >= 4 {
		code := int(opts[0])<<8 | int(opts[1])
		l := int(opts[2])<<8 | int(opts[3])
		if 4+l > len(opts) {
			break
		}
		body := opts[4 : 4+l]
		if (code == 3 || code == 25) && len(body) >= 12 {
			sub := body[12:]
			for len(sub) >= 4 {
				sc := int(sub[0])<<8 | int(sub[1])
				sl := int(sub[2])<<8 | int(sub[3])
				if 4+sl > len(sub) {
					break
				}
				if code == 3 && sc == 5 && sl >= 24 {
					a6 = c02Num(net.IP(sub[4:20]))
				}
				if code == 25 && sc == 26 && sl >= 25 {
					pd = new(big.Int).SetBytes(sub[13:29]).String() + "/" + strconv.Itoa(int(sub[12]))
				}
				sub = sub[4+sl:]
			}
		}
		opts = opts[4+l:]
	}
	return a6, pd
}

// the registry key the HA peer sends for pool <key> of a family: the pool's own name; a key that exists only in another
// family resolves to THAT pool's name (in NS mode this is how a name of the wrong family reaches a lookup)
func (w *c02World) haName(fam, key string) string {
	if key == "-" {
		return ""
	}
	if n, ok := w.pname[fam+key]; ok {
		return n
	}
	for _, f := range []string{"4", "6", "D"} {
		if n, ok := w.pname[f+key]; ok {
			return n
		}
	}
	return "none/k" + key
}

// HA sync receiver entry points of the registry: HR <4|6|D> <key|-> <addr | addr/len> <sid>, HL likewise
func (w *c02World) haOp(f []string) string {
	reg := allocator.GetGlobalRegistry()
	name, sid := w.haName(f[1], f[2]), "s"+f[4]
	var err error
	switch f[1] {
	case "4":
		if f[0] == "HR" {
			err = reg.ReserveIPInPool(name, c02V4(f[3]), sid)
		} else {
			reg.ReleaseIPInPool(name, c02V4(f[3]))
		}
	case "6":
		if f[0] == "HR" {
			err = reg.ReserveIANAInPool(name, c02V6(f[3]), sid)
		} else {
			reg.ReleaseIANAInPool(name, c02V6(f[3]))
		}
	case "D":
		parts := strings.Split(f[3], "/")
		l, _ := strconv.Atoi(parts[1])
		pfx := &net.IPNet{IP: c02V6(parts[0]), Mask: net.CIDRMask(l, 128)}
		if f[0] == "HR" {
			err = reg.ReservePDInPool(name, pfx, sid)
		} else {
			reg.ReleasePDInPool(name, pfx)
		}
	default:
		return "badop"
	}
	if err != nil {
		return "ha err"
	}
	return "ha ok"
}

func (w *c02World) op(f []string) string {
	if (f[0] == "HR" || f[0] == "HL") && len(f) == 5 {
		if w.sess[f[4]] != nil {
			return "skip"
		}
		return w.haOp(f)
	}
	s := w.sess[f[1]]
	if s == nil {
		return "skip"
	}
	reg := allocator.GetGlobalRegistry()
	switch f[0] {
	case "PA": // PA sid vrf s4 s6 spd o4 o6 opd : AAA accept -> onAuthResult -> startNCP
		if s.proto != "P" || s.dead {
			return "skip"
		}
		p := s.ppp
		p.mu.Lock()
		if p.AllocCtx != nil {
			// RE-authentication: the link renegotiates LCP (onLCPDown) and authenticates again
			p.onLCPDown()
			s.ipcp = false
			s.acked = false
		}
		p.Phase = ppp.PhaseAuthenticate
		p.onAuthResult(true, c02Attrs(f[2], f[3], f[4], f[5], f[6], f[7], f[8]))
		// the address IPCP will tell the peer; without an address startNCP does not (re)start IPCP, and a peer
		// address left in the IPCP object by an earlier authentication is not told to anybody
		told := p.ipcp.PeerConfig().PeerAddress
		if p.IPv4Address == nil {
			told = nil
		}
		out := fmt.Sprintf("pa v4=%s v6=%s pd=%s p4=%s p6=%s told=%s", c02Num(p.IPv4Address), c02Num(p.IPv6Address),
			c02Pfx(p.IPv6Prefix), c02PoolTok(p.allocatedPool), c02PoolTok(p.allocatedIANAPool), c02Num(told))
		p.mu.Unlock()
		return out
	case "PI": // PI sid <addr|none> : peer acks our request, then sends Configure-Request
		if s.proto != "P" || s.dead || s.ppp.AllocCtx == nil || s.ipcp {
			return "skip"
		}
		p := s.ppp
		// the peer acknowledges our Configure-Request once per authentication; after a Configure-Nak / -Reject of ITS
		// request it simply sends the next request (several exchanges per authentication)
		if !s.acked {
			if _, id, opts, ok := w.lastIPCP(0, ppp.ConfReq); ok {
				p.handlePPP(c02IPCPFrame(ppp.ConfAck, id, opts))
			}
			s.acked = true
		}
		mark := len(w.bus.frames)
		var opts []byte
		if f[2] != "none" {
			opts = append([]byte{3, 6}, c02V4(f[2]).To4()...)
		}
		p.handlePPP(c02IPCPFrame(ppp.ConfReq, 77, opts))
		res := "noreply"
		if code, _, ro, ok := w.lastIPCP(mark, ppp.ConfAck, ppp.ConfNak, ppp.ConfRej); ok {
			switch code {
			case ppp.ConfAck:
				res = "ack:" + c02Opt3(ro)
				s.ipcp = true // IPCP is open: no further exchange in this authentication
			case ppp.ConfNak:
				res = "nak:" + c02Opt3(ro)
			case ppp.ConfRej:
				res = "rej"
			}
		}
		p.mu.Lock()
		out := fmt.Sprintf("pi %s v4=%s", res, c02Num(p.IPv4Address))
		p.mu.Unlock()
		return out
	case "PS", "PV", "PR": // DHCPv6 over PPP: SOLICIT / REQUEST / RELEASE through handleDHCPv6 -> forwardDHCPv6
		if s.proto != "P" || s.dead || s.ppp.AllocCtx == nil {
			return "skip"
		}
		p := s.ppp
		mt := map[string]byte{"PS": 1, "PV": 3, "PR": 8}[f[0]]
		duid := append([]byte{0, 3, 0, 1}, s.mac...)
		mark := len(w.bus.frames)
		p.mu.Lock()
		p.ipv6cpOpen = true // IPv6CP is up (its negotiation is not this property's)
		p.handleDHCPv6(net.ParseIP("fe80::1"), c02V6Msg(mt, duid))
		p.mu.Unlock()
		// gate: the bounded worker holds a semaphore slot from dispatch until forwardDHCPv6 has returned
		deadline := time.Now().Add(30 * time.Second)
		for len(w.comp.dhcp6Sem) > 0 {
			if time.Now().After(deadline) {
				panic("dhcp6_worker_not_idle")
			}
			time.Sleep(20 * time.Microsecond)
		}
		ans := "nil"
		for i := len(w.bus.frames) - 1; i >= mark; i-- {
			fr := w.bus.frames[i]
			// PPPoE header (6), PPP protocol (2), IPv6 header (40), UDP header (8), DHCPv6 message
			if len(fr) > 60 && binary.BigEndian.Uint16(fr[6:8]) == ppp.ProtoIPv6 {
				a6, pd := c02V6Told(fr[56:])
				switch fr[56] {
				case 2:
					ans = "adv:" + a6 + ":" + pd
				case 7:
					ans = "rep:" + a6 + ":" + pd
				}
				break
			}
		}
		p.mu.Lock()
		out := fmt.Sprintf("rec6=%s recd=%s", c02Num(p.IPv6Address), c02Pfx(p.IPv6Prefix))
		p.mu.Unlock()
		if f[0] == "PR" {
			return "pr " + out
		}
		return strings.ToLower(f[0]) + " " + ans + " " + out
	case "PX": // the component's teardown after terminate(): releaseDHCPv6Lease
		if s.proto != "P" || !s.dead {
			return "skip"
		}
		w.comp.releaseDHCPv6Lease(s.ppp)
		return "skip"
	case "PT":
		if s.proto != "P" {
			return "skip"
		}
		s.ppp.terminate()
		s.dead = true
		return "pt"
	case "ID", "IQ": // ID sid vrf s4 o4 : (first op of the session builds the allocation context)
		if s.proto != "I" || s.dead {
			return "skip"
		}
		if s.ctx == nil {
			s.ctx = allocator.NewContext(s.id, s.mac, uint16(100+s.grp), 0, c02VRF(f[2]), "", w.grpP4[s.grp], w.grpP6[s.grp],
				c02Attrs(f[2], f[3], "-", "-", f[4], "-", "-"))
		}
		// ipoe.resolveDHCPv4
		var resolved *dhcp.ResolvedDHCPv4
		if s.ctx.ProfileName != "" {
			if prof := w.cfg.IPv4Profiles[s.ctx.ProfileName]; prof != nil {
				resolved = dhcp.ResolveV4(s.ctx, prof)
			}
		}
		// as the component does (ipoe.handleResolvedV4): a request whose address resolution failed is not answered
		mt := byte(1)
		if f[0] == "IQ" {
			mt = 3
		}
		if resolved == nil {
			return strings.ToLower(f[0]) + " nil ctx4=" + c02Num(s.ctx.IPv4Address)
		}
		resp, err, panicked := c02Handle(w.prov, &dhcp4.Packet{SessionID: s.id, MAC: s.mac.String(),
			SVLAN: uint16(100 + s.grp), Raw: c02Discover(s.mac, mt, s.told4), Resolved: resolved})
		if panicked {
			return strings.ToLower(f[0]) + " panic ctx4=" + c02Num(s.ctx.IPv4Address)
		}
		if err != nil || resp == nil || len(resp.Raw) < 28+240 {
			if resolved == nil {
				return strings.ToLower(f[0]) + " nil ctx4=" + c02Num(s.ctx.IPv4Address)
			}
			return strings.ToLower(f[0]) + " err ctx4=" + c02Num(s.ctx.IPv4Address)
		}
		yi := net.IP(resp.Raw[28+16 : 28+20])
		s.told4 = append(net.IP(nil), yi...)
		kind := "offer"
		if f[0] == "IQ" {
			kind = "ack"
			s.bound4 = append(net.IP(nil), yi...) // ipoe.handleAck: sess.IPv4 = yiaddr
		}
		return strings.ToLower(f[0]) + " " + kind + ":" + c02Num(yi) + " ctx4=" + c02Num(s.ctx.IPv4Address)
	case "IS", "IV": // IS|IV sid vrf s6 spd o6 opd : ResolveV6 + local DHCPv6 provider SOLICIT (IS) / REQUEST (IV)
		if s.proto != "I" || s.dead {
			return "skip"
		}
		tag := strings.ToLower(f[0])
		if f[0] == "IS" {
			s.duid = true // handleDHCPv6Solicit records the DUID, handleDHCPv6Request does not
		}
		if s.ctx == nil {
			s.ctx = allocator.NewContext(s.id, s.mac, uint16(100+s.grp), 0, c02VRF(f[2]), "", w.grpP4[s.grp], w.grpP6[s.grp],
				c02Attrs(f[2], "-", f[3], f[4], "-", f[5], f[6]))
		}
		var r6 *dhcp.ResolvedDHCPv6
		if s.ctx.IPv6ProfileName != "" {
			if prof := w.cfg.IPv6Profiles[s.ctx.IPv6ProfileName]; prof != nil {
				r6 = dhcp.ResolveV6(s.ctx, prof)
			}
		}
		tail := " ctx6=" + c02Num(s.ctx.IPv6Address) + " ctxpd=" + c02Pfx(s.ctx.IPv6Prefix)
		if r6 == nil {
			return tag + " nil" + tail
		}
		duid := append([]byte{0, 3, 0, 1}, s.mac...)
		mt := byte(1)
		if f[0] == "IV" {
			mt = 3
		}
		resp, err := w.prov6.HandlePacket(context.Background(), &dhcp6.Packet{SessionID: s.id, MAC: s.mac.String(),
			SVLAN: uint16(100 + s.grp), DUID: duid, Raw: c02V6Msg(mt, duid), Resolved: r6})
		if err != nil || resp == nil || len(resp.Raw) < 4 {
			return tag + " err" + tail
		}
		a6, pd := c02V6Told(resp.Raw)
		kind := "adv"
		if resp.Raw[0] == 7 {
			kind = "rep"
		}
		// ipoe.handleDHCPv6Reply binds what the REPLY carries (an ADVERTISE binds nothing)
		if kind == "rep" {
			s.bound6, s.boundP = r6.IANAAddress, r6.PDPrefix
		}
		return tag + " " + kind + ":" + a6 + ":" + pd + tail
	case "IR", "IT", "IL":
		// release sequences of handleRelease / cleanupSessions (IR), handleSubscriberTerminate (IT) and
		// handleDHCPv6Release (IL); a unified session survives the release of one family while the other is bound
		if s.proto != "I" || s.dead {
			return "skip"
		}
		duid := append([]byte{0, 3, 0, 1}, s.mac...)
		v6bound := s.bound6 != nil || s.boundP != nil
		switch f[0] {
		case "IR":
			if s.bound4 != nil {
				reg.ReleaseIP(s.bound4)
			}
			w.prov.ReleaseLease(s.mac.String())
			s.bound4, s.told4 = nil, nil
			if v6bound {
				return "ir" // IPv6 stays bound: the session lives on
			}
			if s.duid {
				w.prov6.ReleaseLease(duid)
			}
		case "IL":
			w.prov6.ReleaseLease(duid) // the provider handles the RELEASE message
			if s.bound6 != nil {
				reg.ReleaseIANAByIP(s.bound6)
			}
			if s.boundP != nil {
				reg.ReleasePDByPrefix(s.boundP)
			}
			s.bound6, s.boundP = nil, nil
			if s.bound4 != nil {
				return "il" // IPv4 stays bound: the session lives on
			}
			w.prov.ReleaseLease(s.mac.String())
		case "IT":
			if s.bound4 != nil {
				reg.ReleaseIP(s.bound4)
			}
			if s.bound6 != nil {
				reg.ReleaseIANAByIP(s.bound6)
			}
			if s.boundP != nil {
				reg.ReleasePDByPrefix(s.boundP)
			}
		}
		s.dead = true
		return strings.ToLower(f[0])
	case "IA": // the DHCPv4 lease of the session's MAC reaches its expiry time
		if s.proto != "I" {
			return "skip"
		}
		w.prov.VerifC02Age(s.mac.String())
		return "ia"
	}
	return "badop"
}

// c02Rejected: Config.Validate refused the generated configuration
type c02Rejected struct{ error }

func c02RunCase(line string) (out string) {
	defer func() {
		if r := recover(); r != nil {
			out = "panic " + strings.ReplaceAll(fmt.Sprint(r), " ", "_")
		}
	}()
	parts := strings.Split(line, " ; ")
	w, err := c02Build(strings.Fields(parts[0]))
	if err != nil {
		if _, ok := err.(c02Rejected); ok {
			return "rejected-config" // Config.Validate refused the configuration: nothing runs
		}
		return "cfgerr " + strings.ReplaceAll(err.Error(), " ", "_")
	}
	res := []string{"init | " + allocator.GetGlobalRegistry().VerifC02Snapshot() + " | " + w.prov.VerifC02Leases() + " | " + w.prov6.VerifC02Leases()}
	for _, o := range parts[1:] {
		f := strings.Fields(o)
		if len(f) < 2 {
			continue
		}
		r := w.op(f)
		res = append(res, r+" | "+allocator.GetGlobalRegistry().VerifC02Snapshot()+" | "+w.prov.VerifC02Leases()+" | "+w.prov6.VerifC02Leases())
	}
	return strings.Join(res, " ; ")
}

func TestVerifC02(t *testing.T) {
	in, err := os.Open(os.Getenv("VERIF_CASES"))
	if err != nil {
		t.Fatal(err)
	}
	defer in.Close()
	outf, err := os.Create(os.Getenv("VERIF_OUT"))
	if err != nil {
		t.Fatal(err)
	}
	defer outf.Close()
	wr := bufio.NewWriter(outf)
	defer wr.Flush()
	sc := bufio.NewScanner(in)
	sc.Buffer(make([]byte, 1<<20), 1<<26)
	for sc.Scan() {
		line := sc.Text()
		if strings.TrimSpace(line) == "" {
			continue
		}
		done := make(chan string, 1)
		go func() { done <- c02RunCase(line) }()
		select {
		case r := <-done:
			fmt.Fprintln(wr, r)
		case <-time.After(20 * time.Second):
			fmt.Fprintln(wr, "hang")
		}
	}
}
