//go:build verif

package local

// C02 verification accessor (injected with -overlay): DHCPv6 lease-table snapshot.

import (
	"fmt"
	"math/big"
	"net"
	"sort"
	"strings"
)

func verifC02Num(ip net.IP) string { return new(big.Int).SetBytes(ip.To16()).String() }
func verifC02Pfx(p *net.IPNet) string {
	ones, _ := p.Mask.Size()
	return fmt.Sprintf("%s/%d", verifC02Num(p.IP), ones)
}

// VerifC02Leases: "N[duidhex>addr/sid/pool]A[addr>sid]P[duidhex>pfx/sid/pool]X[pfx>sid]" sorted.
func (p *Provider) VerifC02Leases() string {
	p.mu.RLock()
	defer p.mu.RUnlock()
	var n, a, d, x []string
	for duid, l := range p.ianaLeases {
		n = append(n, fmt.Sprintf("%x>%s/%s/%s", duid, verifC02Num(l.Address), l.SessionID, l.PoolName))
	}
	for _, l := range p.leasesByAddr {
		a = append(a, verifC02Num(l.Address)+">"+l.SessionID)
	}
	for duid, l := range p.pdLeases {
		d = append(d, fmt.Sprintf("%x>%s/%s/%s", duid, verifC02Pfx(l.Prefix), l.SessionID, l.PoolName))
	}
	for _, l := range p.leasesByPfx {
		x = append(x, verifC02Pfx(l.Prefix)+">"+l.SessionID)
	}
	sort.Strings(n)
	sort.Strings(a)
	sort.Strings(d)
	sort.Strings(x)
	return "N[" + strings.Join(n, ",") + "]A[" + strings.Join(a, ",") + "]P[" + strings.Join(d, ",") + "]X[" + strings.Join(x, ",") + "]"
}
