//go:build verif

package allocator

// C02 verification accessor (injected with -overlay; never part of a normal build).
// Renders the complete registry state: for every pool its lease map and free list.

import (
	"math/big"
	"net/netip"
	"sort"
	"strconv"
	"strings"
)

func verifC02AddrNum(a netip.Addr) string {
	b := a.AsSlice()
	return new(big.Int).SetBytes(b).String()
}

func (a *PoolAllocator) verifC02Snap() string {
	a.mu.Lock()
	defer a.mu.Unlock()
	var ls []string
	for addr, sid := range a.leases {
		ls = append(ls, verifC02AddrNum(addr)+"="+sid)
	}
	sort.Strings(ls)
	var fs []string
	for _, addr := range a.free {
		fs = append(fs, verifC02AddrNum(addr))
	}
	sort.Strings(fs)
	return "L[" + strings.Join(ls, ",") + "]F[" + strings.Join(fs, ",") + "]"
}

func (a *PrefixAllocator) verifC02Snap() string {
	a.mu.Lock()
	defer a.mu.Unlock()
	var ls []string
	for idx, sid := range a.leases {
		ls = append(ls, strconv.FormatUint(idx, 10)+"="+sid)
	}
	sort.Strings(ls)
	var fs []string
	for _, idx := range a.free {
		fs = append(fs, strconv.FormatUint(idx, 10))
	}
	sort.Strings(fs)
	return "L[" + strings.Join(ls, ",") + "]F[" + strings.Join(fs, ",") + "]"
}

// VerifC02Snapshot: "4:<key>:L[..]F[..] 6:<key>:... D:<key>:..." sorted by (family, key).
func (r *Registry) VerifC02Snapshot() string {
	if r == nil {
		return "nil"
	}
	r.mu.RLock()
	defer r.mu.RUnlock()
	var out []string
	for k, a := range r.allocators {
		out = append(out, "4:"+k+":"+a.verifC02Snap())
	}
	for k, a := range r.ianaAllocators {
		out = append(out, "6:"+k+":"+a.verifC02Snap())
	}
	for k, a := range r.pdAllocators {
		out = append(out, "D:"+k+":"+a.verifC02Snap())
	}
	sort.Strings(out)
	return strings.Join(out, " ")
}
