//go:build verif

package allocator

// C02 verification accessor (injected with -overlay; never part of a normal build).
// Renders the registry state the property is about: for every pool who holds which address (the lease map - there is no
// exported way to enumerate it) and how many addresses the pool can still hand out, asked through the allocator's own
// Available(). The representation of the free addresses (a slice, built eagerly or lazily, in whatever order) is not
// observed: which free address an Allocate returns is the implementation's choice, checked for admissibility.

import (
	"math/big"
	"net/netip"
	"sort"
	"strconv"
	"strings"
)

func verifC02AddrNum(a netip.Addr) string {
	b := a.AsSlice()
	return new(big.Int).SetBytes(b).String()
}

func (a *PoolAllocator) verifC02Snap() string {
	avail := a.Available()
	a.mu.Lock()
	defer a.mu.Unlock()
	var ls []string
	for addr, sid := range a.leases {
		ls = append(ls, verifC02AddrNum(addr)+"="+sid)
	}
	sort.Strings(ls)
	return "L[" + strings.Join(ls, ",") + "]F[" + strconv.Itoa(avail) + "]"
}

func (a *PrefixAllocator) verifC02Snap() string {
	a.mu.Lock()
	defer a.mu.Unlock()
	var ls []string
	for idx, sid := range a.leases {
		ls = append(ls, strconv.FormatUint(idx, 10)+"="+sid)
	}
	sort.Strings(ls)
	// the prefix allocator has no Available(): what it can still delegate is its size minus what is leased
	return "L[" + strings.Join(ls, ",") + "]F[" + strconv.FormatUint(a.count-uint64(len(a.leases)), 10) + "]"
}

// VerifC02Snapshot: "4:<key>:L[..]F[..] 6:<key>:... D:<key>:..." sorted by (family, key).
func (r *Registry) VerifC02Snapshot() string {
	if r == nil {
		return "nil"
	}
	r.mu.RLock()
	defer r.mu.RUnlock()
	var out []string
	for k, a := range r.allocators {
		out = append(out, "4:"+k+":"+a.verifC02Snap())
	}
	for k, a := range r.ianaAllocators {
		out = append(out, "6:"+k+":"+a.verifC02Snap())
	}
	for k, a := range r.pdAllocators {
		out = append(out, "D:"+k+":"+a.verifC02Snap())
	}
	sort.Strings(out)
	return strings.Join(out, " ")
}
