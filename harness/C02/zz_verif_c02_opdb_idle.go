//go:build verif

package opdb

// C02 verification accessor (injected with -overlay): true when no checkpoint write is in flight.
func (w *OrderedWriter) VerifC02Idle() bool {
	w.mu.Lock()
	defer w.mu.Unlock()
	return len(w.keys) == 0
}
