//go:build verif

package radius

// C08 correspondence harness (injected into plugins/auth/radius with -overlay).
//
// Case kinds (one case per line, see props/C08.py):
//
//   reply secret=<hex> R  { <id> <code> <auth hex16> <attrs hex|-> <n> <dgram hex>*n }*R
//       the real radiusConn.exchange / readLoop over loopback UDP against a scripted server
//   coa win=<W> nasid=<hex|-> maps=<vid:vtype:namehex,..|-> clients=<cidr>/<secrethex>,.. N { <pkt> }*N
//       the real CoAComponent.readLoop / worker over loopback UDP, fake event bus
//       <pkt> = src=<ip> bus=<ok|nf|e0|e401> code=<c> id=<i> sign=<mode> ma=<mode> lend=<delta> trail=<hex|-> attrs=<t:v,..|->
//   auth secret=<hex> pw=<hex|-> n { <recipe> }     Provider.Authenticate against a reactive scripted server
//
// Output: one line per case; observables only (bytes as hex, small enums, sorted maps).

import (
	"bufio"
	"bytes"
	"context"
	"crypto/hmac"
	"crypto/md5"
	"encoding/binary"
	"encoding/hex"
	"fmt"
	"net"
	"os"
	"sort"
	"strconv"
	"strings"
	"sync"
	"syscall"
	"testing"
	"time"

	internalaaa "github.com/veesix-networks/osvbng/internal/aaa"
	"github.com/veesix-networks/osvbng/pkg/aaa"
	"github.com/veesix-networks/osvbng/pkg/auth"
	"github.com/veesix-networks/osvbng/pkg/component"
	"github.com/veesix-networks/osvbng/pkg/events"
	"github.com/veesix-networks/osvbng/pkg/logger"
	"github.com/veesix-networks/osvbng/pkg/netbind"
	"layeh.com/radius"
)

const vfExchangeTimeout = 1500 * time.Millisecond

func vfHex(b []byte) string {
	if len(b) == 0 {
		return "-"
	}
	return hex.EncodeToString(b)
}

func vfUnhex(s string) []byte {
	if s == "-" || s == "" {
		return nil
	}
	b, err := hex.DecodeString(s)
	if err != nil {
		panic("bad hex " + s)
	}
	return b
}

func vfKV(tok, key string) string {
	if !strings.HasPrefix(tok, key+"=") {
		panic("expected " + key + "= got " + tok)
	}
	return tok[len(key)+1:]
}

// ---------------------------------------------------------------- independent crypto (RFC 2865/2866/3579/5176)

func vfMD5(parts ...[]byte) []byte {
	h := md5.New()
	for _, p := range parts {
		h.Write(p)
	}
	return h.Sum(nil)
}

func vfHMAC(key []byte, parts ...[]byte) []byte {
	h := hmac.New(md5.New, key)
	for _, p := range parts {
		h.Write(p)
	}
	return h.Sum(nil)
}

var vfZero16 = make([]byte, 16)

// offset of the value of the first well-formed attribute 80 of length 18 inside pkt[20:declared length]
func vfFindMA(pkt []byte) int {
	if len(pkt) < 20 {
		return -1
	}
	l := int(binary.BigEndian.Uint16(pkt[2:4]))
	if l > len(pkt) {
		l = len(pkt)
	}
	i := 20
	for i+2 <= l {
		al := int(pkt[i+1])
		if al < 2 || i+al > l {
			return -1
		}
		if pkt[i] == 80 && al == 18 {
			return i + 2
		}
		i += al
	}
	return -1
}

// RFC verification of a reply against the authenticator of its request.
func vfVerifyReply(reply, reqAuth, secret []byte) (ra string, ma string) {
	if len(reply) < 20 {
		return "0", "-"
	}
	l := int(binary.BigEndian.Uint16(reply[2:4]))
	if l < 20 || l > len(reply) {
		return "0", "-"
	}
	p := reply[:l]
	ra = "0"
	if bytes.Equal(vfMD5(p[:4], reqAuth, p[20:], secret), p[4:20]) {
		ra = "1"
	}
	ma = "-"
	if off := vfFindMA(p); off >= 0 {
		tmp := append([]byte(nil), p...)
		copy(tmp[4:20], reqAuth)
		copy(tmp[off:off+16], vfZero16)
		ma = "0"
		if bytes.Equal(vfHMAC(secret, tmp), p[off:off+16]) {
			ma = "1"
		}
	}
	return
}

// ---------------------------------------------------------------- reply cases

func vfPacketFields(p *radius.Packet) string {
	raw, err := p.MarshalBinary()
	if err != nil {
		return "unencodable"
	}
	return fmt.Sprintf("%d:%s:%s", int(p.Code), hex.EncodeToString(p.Authenticator[:]), vfHex(raw[20:]))
}

func vfRunReply(f []string) string {
	secret := vfUnhex(vfKV(f[1], "secret"))
	rounds, _ := strconv.Atoi(f[2])
	srv, err := net.ListenUDP("udp4", &net.UDPAddr{IP: net.IPv4(127, 0, 0, 1)})
	if err != nil {
		return "ENV listen " + err.Error()
	}
	defer srv.Close()
	port := srv.LocalAddr().(*net.UDPAddr).Port
	rc := newRadiusConn("127.0.0.1", port, secret, vfExchangeTimeout, netbind.Binding{})
	defer rc.close()
	buf := make([]byte, 8192)
	var out []string
	p := 3
	type res struct {
		pkt *radius.Packet
		err error
	}
	doExchange := func(id int, pkt *radius.Packet) chan res {
		ch := make(chan res, 1)
		rc.nextID.Store(uint32((id + 255) % 256))
		go func() {
			defer func() {
				if r := recover(); r != nil {
					ch <- res{nil, fmt.Errorf("panic %v", r)}
				}
			}()
			r, e := rc.exchange(pkt)
			ch <- res{r, e}
		}()
		return ch
	}
	// A round whose identifier token is prefixed with "h" is HELD: its exchange is started and its request read
	// by the server, but its datagrams are sent only together with (and before) those of the next round, whose
	// exchange is started while the held one is still waiting — two overlapping exchanges on one radiusConn.
	// No wall-clock decides an outcome: the exchange timeout is long (a watchdog).  After the datagrams of a group a
	// genuine exchange on the reserved identifier 255 is run; when it returns, the (sequential) read loop has
	// consumed every datagram sent before.  An exchange whose pending entry is then still registered was not
	// answered and never will be: that is reported as "timeout" and its slot is cleared the way exchange's own
	// deferred cleanup does (the goroutine itself is left to its watchdog timer).  An exchange whose slot was
	// taken over by a later exchange on the same identifier can never be answered either.
	rc.timeout = 30 * time.Second
	type held struct {
		idx int
		id  int
		ent *pendingRequest
		ch  chan res
		req []byte
		dgs []string
	}
	slot := func(id int) *pendingRequest {
		rc.mu.Lock()
		defer rc.mu.Unlock()
		return rc.pending[byte(id)]
	}
	gotOf := func(rr res) string {
		if rr.err == nil && rr.pkt != nil {
			return vfPacketFields(rr.pkt)
		} else if rr.err != nil && !strings.Contains(rr.err.Error(), "timeout waiting") {
			return "error"
		}
		return "timeout"
	}
	settle := func(id int, ent *pendingRequest, ch chan res, overwritten bool) string {
		if overwritten {
			return "timeout"
		}
		rc.mu.Lock()
		cur := rc.pending[byte(id)]
		if cur == ent {
			rc.pending[byte(id)] = nil
		}
		rc.mu.Unlock()
		if cur == ent {
			return "timeout"
		}
		select {
		case rr := <-ch:
			return gotOf(rr)
		case <-time.After(5 * time.Second):
			return "STUCK"
		}
	}
	drain := func() string {
		sp := &radius.Packet{Code: radius.CodeAccountingRequest}
		sch := doExchange(255, sp)
		srv.SetReadDeadline(time.Now().Add(25 * time.Second))
		n, addr, err := srv.ReadFromUDP(buf)
		if err != nil {
			return "SYNCFAIL-noreq"
		}
		sreq := append([]byte(nil), buf[:n]...)
		srep := []byte{5, sreq[1], 0, 20}
		srep = append(srep, vfMD5(srep, sreq[4:20], secret)...)
		srv.WriteToUDP(srep, addr)
		select {
		case sr := <-sch:
			if sr.err != nil {
				return "SYNCFAIL"
			}
		case <-time.After(25 * time.Second):
			return "SYNCFAIL-stuck"
		}
		return ""
	}
	var hold *held
	out = make([]string, rounds)
	for r := 0; r < rounds; r++ {
		isHeld := strings.HasPrefix(f[p], "h") && r+1 < rounds && hold == nil
		id, _ := strconv.Atoi(strings.TrimPrefix(f[p], "h"))
		code, _ := strconv.Atoi(f[p+1])
		authb := vfUnhex(f[p+2])
		attrb := vfUnhex(f[p+3])
		nd, _ := strconv.Atoi(f[p+4])
		dgs := f[p+5 : p+5+nd]
		p += 5 + nd
		attrs, err := radius.ParseAttributes(attrb)
		if err != nil {
			return "BADCASE attrs"
		}
		pkt := &radius.Packet{Code: radius.Code(code), Attributes: attrs}
		copy(pkt.Authenticator[:], authb)
		ch := doExchange(id, pkt)
		srv.SetReadDeadline(time.Now().Add(25 * time.Second))
		n, addr, err := srv.ReadFromUDP(buf)
		if err != nil {
			out[r] = "noreq:true"
			continue
		}
		reqRaw := append([]byte(nil), buf[:n]...)
		ent := slot(id) // the request is on the wire, so its pending entry is registered
		if isHeld {
			hold = &held{idx: r, id: id, ent: ent, ch: ch, req: reqRaw, dgs: dgs}
			continue
		}
		if hold != nil {
			for _, d := range hold.dgs {
				srv.WriteToUDP(vfUnhex(d), addr)
			}
		}
		for _, d := range dgs {
			srv.WriteToUDP(vfUnhex(d), addr)
		}
		if e := drain(); e != "" {
			return strings.Join(out, " ; ") + " " + e
		}
		out[r] = "req=" + vfHex(reqRaw) + " got=" + settle(id, ent, ch, false)
		if hold != nil {
			out[hold.idx] = "req=" + vfHex(hold.req) + " got=" + settle(hold.id, hold.ent, hold.ch, hold.id == id)
			hold = nil
		}
	}
	return strings.Join(out, " ; ")
}

// vfRecvNow does one non-blocking receive on c; -1 when nothing is queued.
func vfRecvNow(c *net.UDPConn, buf []byte) int {
	rc, err := c.SyscallConn()
	if err != nil {
		return -1
	}
	n := -1
	rc.Read(func(fd uintptr) bool {
		m, _, e := syscall.Recvfrom(int(fd), buf, syscall.MSG_DONTWAIT)
		if e == nil {
			n = m
		}
		return true
	})
	return n
}

// ---------------------------------------------------------------- CoA cases

type vfBus struct {
	mu       sync.Mutex
	handlers map[string][]events.Handler
	result   string
	evs      chan string
}

type vfSub struct{}

func (vfSub) Unsubscribe() {}

func vfTarget(acct, user, v4, v6, sid string) string {
	parts := []string{}
	if sid != "" {
		parts = append(parts, "sid."+hex.EncodeToString([]byte(sid)))
	}
	if acct != "" {
		parts = append(parts, "acct."+hex.EncodeToString([]byte(acct)))
	}
	if v4 != "" {
		ip := net.ParseIP(v4).To4()
		parts = append(parts, "v4."+hex.EncodeToString(ip))
	}
	if user != "" {
		parts = append(parts, "user."+hex.EncodeToString([]byte(user)))
	}
	if v6 != "" {
		ip := net.ParseIP(v6).To16()
		parts = append(parts, "v6."+hex.EncodeToString(ip))
	}
	if len(parts) == 0 {
		return "notarget"
	}
	return strings.Join(parts, "+")
}

func (b *vfBus) Publish(topic string, ev events.Event) {
	switch d := ev.Data.(type) {
	case *events.SubscriberMutationEvent:
		keys := make([]string, 0, len(d.AttributeDelta))
		for k := range d.AttributeDelta {
			keys = append(keys, k)
		}
		sort.Strings(keys)
		kv := []string{}
		for _, k := range keys {
			kv = append(kv, hex.EncodeToString([]byte(k))+"="+vfHex([]byte(d.AttributeDelta[k])))
		}
		if len(kv) == 0 {
			kv = []string{"-"}
		}
		b.evs <- "mut:" + vfTarget(d.AcctSessionID, d.Username, d.FramedIPv4, d.FramedIPv6, d.SessionID) + ":" + strings.Join(kv, ",")
		res := &events.SubscriberMutationResultEvent{RequestID: d.RequestID}
		switch b.result {
		case "ok":
			res.Ok = true
		case "nf":
			res.ErrorCause = 503
		case "e0":
			res.ErrorCause = 0
		case "e401":
			res.ErrorCause = 401
		}
		b.mu.Lock()
		hs := append([]events.Handler(nil), b.handlers[events.TopicSubscriberMutationResult]...)
		b.mu.Unlock()
		for _, h := range hs {
			h(events.Event{Data: res})
		}
	case *events.SubscriberTerminateEvent:
		b.evs <- "term:" + vfTarget(d.AcctSessionID, d.Username, d.FramedIPv4, d.FramedIPv6, d.SessionID) + ":" + d.Reason
	default:
		b.evs <- "other:" + topic
	}
}
func (b *vfBus) Subscribe(topic string, h events.Handler) events.Subscription {
	b.mu.Lock()
	defer b.mu.Unlock()
	b.handlers[topic] = append(b.handlers[topic], h)
	return vfSub{}
}
func (b *vfBus) SubscribeAll(h events.Handler) events.Subscription { return vfSub{} }
func (b *vfBus) Stats() events.Stats                               { return events.Stats{} }
func (b *vfBus) SetDebugTopics(topics []string)                    {}
func (b *vfBus) DebugTopics() []string                             { return nil }
func (b *vfBus) Close() error                                      { return nil }

type vfStatSnap struct {
	unknown uint64
	per     map[string]CoAClientStats
}

func vfSnap(s *CoAStats) vfStatSnap {
	s.mu.Lock()
	defer s.mu.Unlock()
	r := vfStatSnap{unknown: s.UnknownClient, per: map[string]CoAClientStats{}}
	for k, v := range s.clients {
		r.per[k] = *v
	}
	return r
}

func (a vfStatSnap) drops() uint64 {
	n := a.unknown
	for _, v := range a.per {
		n += v.InvalidAuth
	}
	return n
}

func vfStatDelta(a, b vfStatSnap, hosts []string) string {
	parts := []string{}
	if b.unknown != a.unknown {
		parts = append(parts, fmt.Sprintf("unknown%d", b.unknown-a.unknown))
	}
	keys := []string{}
	for k := range b.per {
		keys = append(keys, k)
	}
	sort.Strings(keys)
	for _, k := range keys {
		x, y := a.per[k], b.per[k]
		idx := -1
		for i, h := range hosts {
			if h == k {
				idx = i
				break
			}
		}
		add := func(name string, d uint64) {
			if d != 0 {
				parts = append(parts, fmt.Sprintf("c%d.%s%d", idx, name, d))
			}
		}
		add("coareq", y.CoARequests-x.CoARequests)
		add("coaack", y.CoAACKs-x.CoAACKs)
		add("coanak", y.CoANAKs-x.CoANAKs)
		add("dmreq", y.DisconnectRequests-x.DisconnectRequests)
		add("dmack", y.DisconnectACKs-x.DisconnectACKs)
		add("dmnak", y.DisconnectNAKs-x.DisconnectNAKs)
		add("overflow", y.Overflow-x.Overflow)
		add("invalid", y.InvalidAuth-x.InvalidAuth)
		add("notfound", y.SessionNotFound-x.SessionNotFound)
	}
	if len(parts) == 0 {
		return "none"
	}
	return strings.Join(parts, ",")
}

// build the datagram of a CoA packet recipe; returns (datagram, now)
func vfBuildCoA(kv map[string]string) ([]byte, int64) {
	now := time.Now().Unix() // the caller repeats the packet if the wall-clock second changes before it is done
	if raw, ok := kv["raw"]; ok {
		return vfUnhex(raw), now
	}
	code, _ := strconv.Atoi(kv["code"])
	id, _ := strconv.Atoi(kv["id"])
	body := []byte{}
	maOff := -1
	if kv["attrs"] != "-" && kv["attrs"] != "" {
		for _, a := range strings.Split(kv["attrs"], ",") {
			tv := strings.SplitN(a, ":", 2)
			t, _ := strconv.Atoi(tv[0])
			var val []byte
			switch {
			case tv[1] == "MA":
				val = make([]byte, 16)
				if maOff < 0 {
					maOff = 20 + len(body) + 2
				}
			case strings.HasPrefix(tv[1], "TS"):
				off, _ := strconv.ParseInt(tv[1][2:], 10, 64)
				val = make([]byte, 4)
				binary.BigEndian.PutUint32(val, uint32(now+off))
			default:
				val = vfUnhex(tv[1])
			}
			body = append(body, byte(t), byte(len(val)+2))
			body = append(body, val...)
		}
	}
	lend, _ := strconv.Atoi(kv["lend"])
	pkt := make([]byte, 20, 20+len(body))
	pkt[0], pkt[1] = byte(code), byte(id)
	binary.BigEndian.PutUint16(pkt[2:4], uint16(20+len(body)+lend))
	pkt = append(pkt, body...)
	sign := func() {
		m := strings.SplitN(kv["sign"], ":", 2)
		switch m[0] {
		case "S": // RFC 2866 / 5176 Request Authenticator
			copy(pkt[4:20], vfMD5(pkt[:4], vfZero16, pkt[20:], vfUnhex(m[1])))
		default:
			if strings.HasPrefix(m[0], "X") { // correct authenticator with one bit flipped in octet i
				i, _ := strconv.Atoi(m[0][1:])
				copy(pkt[4:20], vfMD5(pkt[:4], vfZero16, pkt[20:], vfUnhex(m[1])))
				pkt[4+i%16] ^= 0x04
			}
		case "L":
			copy(pkt[4:20], vfUnhex(m[1]))
		case "Z":
			copy(pkt[4:20], vfZero16)
		}
	}
	mam := strings.SplitN(kv["ma"], ":", 2)
	flip := -1
	for _, pre := range []string{"rfcflip", "asisflip"} {
		if strings.HasPrefix(mam[0], pre) {
			flip, _ = strconv.Atoi(mam[0][len(pre):])
			mam[0] = pre[:len(pre)-4]
		}
	}
	switch mam[0] {
	case "rfc": // RFC 5176: HMAC over the packet with a zero authenticator field, then the packet is signed
		copy(pkt[4:20], vfZero16)
		if maOff >= 0 {
			copy(pkt[maOff:maOff+16], vfHMAC(vfUnhex(mam[1]), pkt))
			if flip >= 0 {
				pkt[maOff+flip%16] ^= 0x20
			}
		}
		sign()
	case "asis": // HMAC over the packet as transmitted (authenticator field already final)
		sign()
		if maOff >= 0 {
			copy(pkt[maOff:maOff+16], vfHMAC(vfUnhex(mam[1]), pkt))
			if flip >= 0 {
				pkt[maOff+flip%16] ^= 0x20
			}
		}
	case "lit":
		if maOff >= 0 {
			copy(pkt[maOff:maOff+16], vfUnhex(mam[1]))
		}
		sign()
	default:
		sign()
	}
	pkt = append(pkt, vfUnhex(kv["trail"])...)
	return pkt, now
}

var vfCoAMu sync.Mutex

func vfRunCoA(f []string) string {
	vfCoAMu.Lock()
	defer vfCoAMu.Unlock()
	win, _ := strconv.ParseInt(vfKV(f[1], "win"), 10, 64)
	nasid := string(vfUnhex(vfKV(f[2], "nasid")))
	cfg := &Config{CoAReplayWindow: win, NASIdentifier: nasid, VendorID: DefaultVendorID}
	prov := &Provider{cfg: cfg, logger: logger.Get(Namespace), tier1Index: buildTier1Index(),
		tier2Index: buildTier2Index(DefaultVendorID), radiusStats: internalaaa.NewRADIUSStats()}
	if m := vfKV(f[3], "maps"); m != "-" {
		for _, e := range strings.Split(m, ",") {
			x := strings.Split(e, ":")
			vid, _ := strconv.Atoi(x[0])
			vt, _ := strconv.Atoi(x[1])
			prov.tier3 = append(prov.tier3, compiledCustomMapping{vendorID: uint32(vid), vendorType: byte(vt), internal: string(vfUnhex(x[2]))})
		}
	}
	ccfg := []CoAClientConfig{}
	hosts := []string{}
	if cl := vfKV(f[4], "clients"); cl != "-" {
		for _, e := range strings.Split(cl, ",") {
			i := strings.LastIndex(e, "/")
			ccfg = append(ccfg, CoAClientConfig{Host: e[:i], Secret: string(vfUnhex(e[i+1:]))})
			hosts = append(hosts, e[:i])
		}
	}
	clients, err := buildCoAClients(ccfg)
	if err != nil {
		return "BADCASE clients " + err.Error()
	}
	old := globalProvider.Load()
	globalProvider.Store(prov)
	defer globalProvider.Store(old)

	bus := &vfBus{handlers: map[string][]events.Handler{}, evs: make(chan string, 16)}
	conn, err := net.ListenUDP("udp4", &net.UDPAddr{IP: net.IPv4(127, 0, 0, 1)})
	if err != nil {
		return "ENV listen " + err.Error()
	}
	c := &CoAComponent{Base: component.NewBase(CoANamespace), logger: logger.Get("radius.coa"), eventBus: bus,
		clients: clients, workCh: make(chan *coaRequest, coaQueueSize), stats: NewCoAStats(), conn: conn}
	c.StartContext(context.Background())
	c.mutationResultSub = bus.Subscribe(events.TopicSubscriberMutationResult, c.handleMutationResult)
	c.wg.Add(2)
	go c.worker()
	go c.readLoop()
	defer func() {
		c.StopContext()
		conn.Close()
		c.wg.Wait()
	}()
	dst := conn.LocalAddr().(*net.UDPAddr)

	if len(clients) == 0 {
		return "BADCASE no clients"
	}
	sip := clients[0].network.IP.To4()
	if sip == nil || sip.IsUnspecified() {
		sip = net.IPv4(127, 0, 0, 1).To4()
	}
	ssock, err := net.ListenUDP("udp4", &net.UDPAddr{IP: sip})
	if err != nil {
		return "ENV bind sentinel " + err.Error()
	}
	defer ssock.Close()
	sentinelKey := clients[0].key
	sentinelNo := uint32(0)
	mkSentinel := func() []byte { // current Event-Timestamp (valid whether or not required); never byte-identical twice
		sentinelNo++
		sreq := []byte{40, byte(sentinelNo), 0, 43}
		sattr := append([]byte{44, 11}, []byte("~sentinel")...)
		ts := make([]byte, 4)
		binary.BigEndian.PutUint32(ts, uint32(time.Now().Unix()))
		sattr = append(append(sattr, 55, 6), ts...)
		ctr := make([]byte, 4)
		binary.BigEndian.PutUint32(ctr, sentinelNo)
		sattr = append(append(sattr, 33, 6), ctr...)
		sreq = append(sreq, vfMD5(sreq, vfZero16, sattr, clients[0].secret)...)
		return append(sreq, sattr...)
	}

	n, _ := strconv.Atoi(f[5])
	p := 6
	out := []string{}
	buf := make([]byte, 8192)
	var sentDgs [][]byte
	var sentAt []int64
	for k := 0; k < n; k++ {
		kv := map[string]string{}
		for p < len(f) && f[p] != "|" {
			i := strings.Index(f[p], "=")
			kv[f[p][:i]] = f[p][i+1:]
			p++
		}
		p++ // skip "|"
		bus.result = kv["bus"]
		src := net.ParseIP(kv["src"]).To4()
		sock, err := net.ListenUDP("udp4", &net.UDPAddr{IP: src})
		if err != nil {
			return "ENV bind " + err.Error()
		}
		var dg, reply []byte
		var now int64
		var before, after vfStatSnap
		var outcome string
		var evs []string
		// clock handshakes (no blind sleeps: the instants actually used are printed as tb/ta and judged by the model):
		// align=<ms> sends in the early part of a wall-clock second, after=<k>:<ms> not before <ms> after packet k was sent
		if v, ok := kv["align"]; ok {
			lim, _ := strconv.Atoi(v)
			for time.Now().Nanosecond()/1_000_000 >= lim {
				time.Sleep(5 * time.Millisecond)
			}
		}
		if v, ok := kv["after"]; ok {
			x := strings.SplitN(v, ":", 2)
			k, _ := strconv.Atoi(x[0])
			ms, _ := strconv.ParseInt(x[1], 10, 64)
			if k < len(sentAt) {
				for time.Now().UnixMilli() < sentAt[k]+ms {
					time.Sleep(5 * time.Millisecond)
				}
			}
		}
		var tb, ta int64
		for attempt := 0; ; attempt++ {
			if d, ok := kv["dup"]; ok { // byte-identical copy of an earlier datagram of this case
				k, _ := strconv.Atoi(d)
				now = time.Now().Unix()
				dg = nil
				if k < len(sentDgs) {
					dg = sentDgs[k]
				}
			} else {
				dg, now = vfBuildCoA(kv)
			}
			before = vfSnap(c.stats)
			tb = time.Now().UnixMilli()
			sock.WriteToUDP(dg, dst)
			// Completion is detected without timing: a correctly signed Disconnect-Request for the session
			// "~sentinel" from the first configured client follows the test datagram through the single
			// read loop and the single worker; its ACK and its terminate event mark the point where the
			// listener is done with the test datagram.
			ssock.WriteToUDP(mkSentinel(), dst)
			ssock.SetReadDeadline(time.Now().Add(20 * time.Second))
			if _, _, err := ssock.ReadFromUDP(buf); err != nil {
				return strings.Join(out, " ; ") + " HANG-sentinel"
			}
			evs = evs[:0]
			for done := false; !done; {
				select {
				case e := <-bus.evs:
					if strings.Contains(e, hex.EncodeToString([]byte("~sentinel"))) {
						done = true
					} else {
						evs = append(evs, e)
					}
				case <-time.After(20 * time.Second):
					return strings.Join(out, " ; ") + " HANG-bus"
				}
			}
			ta = time.Now().UnixMilli()
			after = vfSnap(c.stats)
			// remove the sentinel's own counts
			{
				x := after.per[sentinelKey]
				x.DisconnectRequests--
				x.DisconnectACKs--
				after.per[sentinelKey] = x
			}
			outcome, reply = "silent", nil
			// The listener sent its reply (if any) before it answered the sentinel, and a loopback send enqueues at the
			// receiver synchronously: one non-blocking receive decides, no deadline involved.
			if m := vfRecvNow(sock, buf); m >= 0 {
				reply = append([]byte(nil), buf[:m]...)
				outcome = "reply"
			} else if after.drops() != before.drops() {
				outcome = "drop"
			}
			// Only a recipe with a clock-relative Event-Timestamp depends on "now"; it is repeated (with a new
			// timestamp, hence new bytes) when the wall-clock second changed under it.  Any other datagram must NOT be
			// repeated: a byte-identical copy would be answered from the listener's duplicate cache.
			if !strings.Contains(kv["attrs"], "TS") || time.Now().Unix() == now || attempt >= 5 {
				break
			}
		}
		sock.Close()
		sentDgs = append(sentDgs, dg)
		sentAt = append(sentAt, tb)
		line := fmt.Sprintf("now=%d dg=%s tb=%d ta=%d %s st=%s", now, vfHex(dg), tb, ta, outcome, vfStatDelta(before, after, hosts))
		if outcome == "reply" {
			ra, ma := "-", "-"
			// independent verification under the secret of the first client net containing the source
			for i := range clients {
				if clients[i].network.Contains(src) {
					if len(dg) >= 20 {
						ra, ma = vfVerifyReply(reply, dg[4:20], clients[i].secret)
					}
					break
				}
			}
			line += fmt.Sprintf(" reply=%s ra=%s ma=%s", vfHex(reply), ra, ma)
		}
		if len(evs) == 0 {
			evs = []string{"noev"}
		}
		line += " ev=" + strings.Join(evs, "&")
		out = append(out, line)
	}
	return strings.Join(out, " ; ")
}

// ---------------------------------------------------------------- Authenticate cases (reactive server)

// recipes for the scripted server, applied to the request actually received:
//   ok:<code>:<attrs hex|->        genuine reply (Response Authenticator under the server secret)
//   okma:<code>:<attrs hex|->      genuine reply carrying a valid Message-Authenticator
//   badma:<code>:<attrs>           valid Response Authenticator, wrong Message-Authenticator
//   forge:<code>:<attrs>           random authenticator
//   wrong:<code>:<attrs>           signed with another secret
//   flip:<code>:<attrs>            genuine, then one attribute bit flipped
//   otherid:<code>:<attrs>         genuine for identifier+1
// vfBuildMulti builds a reply with SEVERAL attributes 80 (combo letters: V = 18-octet copy carrying the HMAC a verifier of
// that copy expects, G = 18 octets of garbage, W = attribute 80 of length 7); the Response Authenticator is genuine.
func vfBuildMulti(combo string, code int, attrs, req, secret []byte, salt int) []byte {
	body := append([]byte(nil), attrs...)
	offs := make([]int, len(combo))
	for i, c := range combo {
		if c == 'W' {
			offs[i] = -1
			body = append(body, 80, 7)
			body = append(body, bytes.Repeat([]byte{byte(0x11 + i + salt)}, 5)...)
		} else {
			offs[i] = 20 + len(body) + 2
			body = append(body, 80, 18)
			body = append(body, bytes.Repeat([]byte{byte(0xa0 + 7*i + salt)}, 16)...)
		}
	}
	p := []byte{byte(code), req[1], 0, 0}
	binary.BigEndian.PutUint16(p[2:4], uint16(20+len(body)))
	p = append(p, req[4:20]...)
	p = append(p, body...)
	for i := len(combo) - 1; i >= 0; i-- {
		if combo[i] == 'V' {
			tmp := append([]byte(nil), p...)
			copy(tmp[offs[i]:offs[i]+16], vfZero16)
			copy(p[offs[i]:offs[i]+16], vfHMAC(secret, tmp))
		}
	}
	copy(p[4:20], vfMD5(p[:4], req[4:20], p[20:], secret))
	return p
}

func vfBuildReply(recipe string, req []byte, secret []byte, k int) []byte {
	x := strings.Split(recipe, ":")
	code, _ := strconv.Atoi(x[1])
	attrs := vfUnhex(x[2])
	if strings.HasPrefix(x[0], "mm") {
		return vfBuildMulti(x[0][2:], code, attrs, req, secret, k)
	}
	id := req[1]
	if x[0] == "otherid" {
		id++
	}
	withMA := x[0] == "okma" || x[0] == "badma"
	body := append([]byte(nil), attrs...)
	maOff := -1
	if withMA {
		maOff = 20 + len(body) + 2
		body = append(body, 80, 18)
		body = append(body, vfZero16...)
	}
	p := []byte{byte(code), id, 0, 0}
	binary.BigEndian.PutUint16(p[2:4], uint16(20+len(body)))
	p = append(p, req[4:20]...)
	p = append(p, body...)
	key := secret
	if x[0] == "wrong" {
		key = append([]byte("x"), secret...)
	}
	if withMA {
		mac := vfHMAC(key, p)
		if x[0] == "badma" {
			mac[3] ^= 0x10
		}
		copy(p[maOff:], mac)
	}
	copy(p[4:20], vfMD5(p, key))
	switch x[0] {
	case "forge":
		for i := 4; i < 20; i++ {
			p[i] = byte(17*i + k)
		}
	case "flip":
		if len(p) > 22 {
			p[len(p)-1] ^= 1
		} else {
			p[0] ^= 1
		}
	}
	return p
}

// vfServerTimeout: a server none of whose scripted datagrams can be acceptable can only time out, so its exchange
// timeout is short; any other server gets a long one that correct code never waits for (replies arrive at once).
func vfServerTimeout(recipes []string) time.Duration {
	for _, r := range recipes {
		k := strings.SplitN(r, ":", 2)[0]
		if strings.HasPrefix(k, "mm") { // acceptable (under the first-18-octet-copy rule) only if that copy is a V
			first := strings.TrimLeft(k[2:], "W")
			if first != "" && first[0] == 'V' {
				return 5 * time.Second
			}
			continue
		}
		if k != "forge" && k != "wrong" && k != "flip" && k != "otherid" && k != "badma" {
			return 5 * time.Second
		}
	}
	return 400 * time.Millisecond
}

func vfRunAuth(f []string) string {
	secret := vfUnhex(vfKV(f[1], "secret"))
	pw := vfKV(f[2], "pw")
	n, _ := strconv.Atoi(f[3])
	recipes := f[4 : 4+n]
	srv, err := net.ListenUDP("udp4", &net.UDPAddr{IP: net.IPv4(127, 0, 0, 1)})
	if err != nil {
		return "ENV listen " + err.Error()
	}
	defer srv.Close()
	port := srv.LocalAddr().(*net.UDPAddr).Port
	rc := newRadiusConn("127.0.0.1", port, secret, vfServerTimeout(recipes), netbind.Binding{})
	defer rc.close()
	cfg := &Config{Retries: 1, DeadThreshold: 1000, NASIdentifier: "bng", Timeout: vfExchangeTimeout}
	prov := &Provider{cfg: cfg, logger: logger.Get(Namespace), authConns: []*radiusConn{rc}, tier1Index: buildTier1Index(),
		tier2Index: buildTier2Index(DefaultVendorID), radiusStats: internalaaa.NewRADIUSStats()}
	type res struct {
		r   *auth.AuthResponse
		err error
	}
	ch := make(chan res, 1)
	go func() {
		defer func() {
			if r := recover(); r != nil {
				ch <- res{nil, fmt.Errorf("panic %v", r)}
			}
		}()
		ar := &auth.AuthRequest{Username: "alice", MAC: "02:00:00:00:00:01", AccessType: "ipoe", Attributes: map[string]string{}}
		if pw != "-" {
			ar.Attributes[aaa.AttrPassword] = string(vfUnhex(pw))
		}
		r, e := prov.Authenticate(context.Background(), ar)
		ch <- res{r, e}
	}()
	buf := make([]byte, 8192)
	srv.SetReadDeadline(time.Now().Add(3 * time.Second))
	m, addr, err := srv.ReadFromUDP(buf)
	if err != nil {
		<-ch
		return "noreq"
	}
	req := append([]byte(nil), buf[:m]...)
	dgs := []string{}
	for k, r := range recipes {
		d := vfBuildReply(r, req, secret, k)
		dgs = append(dgs, vfHex(d))
		srv.WriteToUDP(d, addr)
	}
	rr := <-ch
	got := "error"
	if rr.err == nil && rr.r != nil {
		if rr.r.Allowed {
			keys := []string{}
			for k := range rr.r.Attributes {
				keys = append(keys, k)
			}
			sort.Strings(keys)
			kv := []string{}
			for _, k := range keys {
				v := rr.r.Attributes[k]
				if net.ParseIP(v) != nil || strings.Contains(v, "/") {
					v = "?" // rendering of addresses and prefixes is not modelled
				}
				kv = append(kv, hex.EncodeToString([]byte(k))+"="+vfHex([]byte(v)))
			}
			if len(kv) == 0 {
				kv = []string{"-"}
			}
			got = "allowed:" + strings.Join(kv, ",")
		} else {
			got = "denied"
		}
	}
	if len(dgs) == 0 {
		dgs = []string{"-"}
	}
	reqma := "-"
	if off := vfFindMA(req); off >= 0 {
		tmp := append([]byte(nil), req...)
		copy(tmp[off:off+16], vfZero16)
		reqma = "0"
		if bytes.Equal(vfHMAC(secret, tmp), req[off:off+16]) {
			reqma = "1"
		}
	}
	return "req=" + vfHex(req) + " dgs=" + strings.Join(dgs, ",") + " reqma=" + reqma + " got=" + got
}

// ---------------------------------------------------------------- fail-over cases
//   fail kind=<auth|acct> pw=<hex|-> n { secret=<hex> k recipe*k }*n
// n servers, each with its own socket, radiusConn and secret; a server with no recipes is silent.  Additional
// recipes: sk<j>:<code>:<attrs> / skma<j>:<code>:<attrs> = well-formed reply signed with the secret of server j.
func vfRunFail(f []string) string {
	kind := vfKV(f[1], "kind")
	pw := vfKV(f[2], "pw")
	n, _ := strconv.Atoi(f[3])
	type srvT struct {
		secret  []byte
		recipes []string
		sock    *net.UDPConn
		req     []byte
		dgs     []string
		done    chan struct{}
	}
	srvs := make([]*srvT, n)
	p := 4
	for i := 0; i < n; i++ {
		k, _ := strconv.Atoi(f[p+1])
		srvs[i] = &srvT{secret: vfUnhex(vfKV(f[p], "secret")), recipes: f[p+2 : p+2+k], done: make(chan struct{})}
		p += 2 + k
	}
	var rcs []*radiusConn
	for _, sv := range srvs {
		sock, err := net.ListenUDP("udp4", &net.UDPAddr{IP: net.IPv4(127, 0, 0, 1)})
		if err != nil {
			return "ENV listen " + err.Error()
		}
		sv.sock = sock
		defer sock.Close()
		// a silent server, or one whose scripted replies are all signed with a DIFFERENT secret, can only time out
		eff := []string{}
		for _, r := range sv.recipes {
			k := strings.SplitN(r, ":", 2)[0]
			for _, pre := range []string{"skma", "sk"} {
				if strings.HasPrefix(k, pre) {
					j, _ := strconv.Atoi(k[len(pre):])
					if !bytes.Equal(srvs[j%len(srvs)].secret, sv.secret) {
						r = "wrong:" // unacceptable
					}
					break
				}
			}
			eff = append(eff, r)
		}
		to := vfServerTimeout(eff)
		rc := newRadiusConn("127.0.0.1", sock.LocalAddr().(*net.UDPAddr).Port, sv.secret, to, netbind.Binding{})
		defer rc.close()
		rcs = append(rcs, rc)
	}
	for _, sv := range srvs {
		go func(sv *srvT) {
			defer close(sv.done)
			buf := make([]byte, 8192)
			m, addr, err := sv.sock.ReadFromUDP(buf)
			if err != nil {
				return
			}
			sv.req = append([]byte(nil), buf[:m]...)
			for k, r := range sv.recipes {
				key := sv.secret
				x := strings.SplitN(r, ":", 2)
				for _, pre := range []string{"skma", "sk"} {
					if strings.HasPrefix(x[0], pre) {
						j, _ := strconv.Atoi(x[0][len(pre):])
						key = srvs[j%len(srvs)].secret
						if pre == "skma" {
							r = "okma:" + x[1]
						} else {
							r = "ok:" + x[1]
						}
						break
					}
				}
				d := vfBuildReply(r, sv.req, key, k)
				sv.dgs = append(sv.dgs, vfHex(d))
				sv.sock.WriteToUDP(d, addr)
			}
		}(sv)
	}
	cfg := &Config{Retries: 1, DeadThreshold: 1000, NASIdentifier: "bng", Timeout: vfExchangeTimeout}
	prov := &Provider{cfg: cfg, logger: logger.Get(Namespace), authConns: rcs, acctConns: rcs, tier1Index: buildTier1Index(),
		tier2Index: buildTier2Index(DefaultVendorID), radiusStats: internalaaa.NewRADIUSStats()}
	got := "error"
	func() {
		defer func() {
			if r := recover(); r != nil {
				got = "panic"
			}
		}()
		if kind == "acct" {
			err := prov.StartAccounting(context.Background(), &auth.Session{AcctSessionID: "a1", Username: "alice", MAC: "02:00:00:00:00:01", AccessType: "ipoe"})
			if err == nil {
				got = "ok"
			}
			return
		}
		ar := &auth.AuthRequest{Username: "alice", MAC: "02:00:00:00:00:01", AccessType: "ipoe", Attributes: map[string]string{}}
		if pw != "-" {
			ar.Attributes[aaa.AttrPassword] = string(vfUnhex(pw))
		}
		r, e := prov.Authenticate(context.Background(), ar)
		if e == nil && r != nil {
			got = vfAuthResult(r)
		}
	}()
	segs := []string{}
	for i, sv := range srvs {
		sv.sock.Close()
		<-sv.done
		d := "-"
		if len(sv.dgs) > 0 {
			d = strings.Join(sv.dgs, ",")
		}
		segs = append(segs, fmt.Sprintf("s%d:req=%s dgs=%s", i, vfHex(sv.req), d))
	}
	return strings.Join(segs, " ; ") + " ; got=" + got
}

func vfAuthResult(r *auth.AuthResponse) string {
	if !r.Allowed {
		return "denied"
	}
	keys := []string{}
	for k := range r.Attributes {
		keys = append(keys, k)
	}
	sort.Strings(keys)
	kv := []string{}
	for _, k := range keys {
		v := r.Attributes[k]
		if net.ParseIP(v) != nil || strings.Contains(v, "/") {
			v = "?" // rendering of addresses and prefixes is not modelled
		}
		kv = append(kv, hex.EncodeToString([]byte(k))+"="+vfHex([]byte(v)))
	}
	if len(kv) == 0 {
		kv = []string{"-"}
	}
	return "allowed:" + strings.Join(kv, ",")
}

// ---------------------------------------------------------------- literal tables

// vfKind characterises a decoder by which probe lengths give a non-empty result and by the shape of the
// result for a 4-octet probe: 'o' rendered address/prefix, 'd' decimal number, 'r' raw string, '-' empty.
func vfKind(dec func([]byte) string) string {
	out := ""
	for _, n := range []int{0, 3, 4, 5, 16} {
		if dec([]byte("abcdefghijklmnopqrstuvwxyz")[:n]) != "" {
			out += "1"
		} else {
			out += "0"
		}
	}
	v := dec([]byte("abcd"))
	switch {
	case v == "":
		out += "-"
	case strings.ContainsAny(v, "./:"):
		out += "o"
	case strings.Trim(v, "0123456789") == "":
		out += "d"
	default:
		out += "r"
	}
	return out
}

func vfRunLits() string {
	ids := []int{}
	for t, ok := range identificationAttrTypes {
		if ok {
			ids = append(ids, int(t))
		}
	}
	sort.Ints(ids)
	is := []string{}
	for _, i := range ids {
		is = append(is, strconv.Itoa(i))
	}
	t1 := buildTier1Index()
	k1 := []int{}
	for t := range t1 {
		k1 = append(k1, int(t))
	}
	sort.Ints(k1)
	s1 := []string{}
	for _, t := range k1 {
		m := t1[byte(t)]
		s1 = append(s1, fmt.Sprintf("%d:%s:%s", t, hex.EncodeToString([]byte(m.internal)), vfKind(func(b []byte) string { return m.decode(radius.Attribute(b)) })))
	}
	t2 := buildTier2Index(DefaultVendorID)
	s2 := []string{}
	for k, m := range t2 {
		s2 = append(s2, fmt.Sprintf("%010d:%03d:%s:%s", k.vendorID, k.vendorType, hex.EncodeToString([]byte(m.internal)), vfKind(m.decode)))
	}
	sort.Strings(s2)
	return "ident=" + strings.Join(is, ",") + " tier1=" + strings.Join(s1, ",") + " tier2=" + strings.Join(s2, ",")
}

// ---------------------------------------------------------------- driver

// CoA cases are serialised (one global provider); a case may wait for the whole CoA queue before it starts, so its
// watchdog has to cover that queue, not just its own run time.
func vfWatchdog(kind string) time.Duration {
	if kind == "coa" {
		return 14 * time.Minute
	}
	return 60 * time.Second
}

func vfRunCase(line string) (res string) {
	defer func() {
		if r := recover(); r != nil {
			res = "panic " + strings.ReplaceAll(fmt.Sprint(r), "\n", " ")
		}
	}()
	f := strings.Fields(line)
	if len(f) == 0 {
		return "empty"
	}
	done := make(chan string, 1)
	go func() {
		defer func() {
			if r := recover(); r != nil {
				done <- "panic " + strings.ReplaceAll(fmt.Sprint(r), "\n", " ")
			}
		}()
		switch f[0] {
		case "reply":
			done <- vfRunReply(f)
		case "coa":
			done <- vfRunCoA(f)
		case "auth":
			done <- vfRunAuth(f)
		case "lits":
			done <- vfRunLits()
		case "fail":
			done <- vfRunFail(f)
		default:
			done <- "badcase"
		}
	}()
	select {
	case r := <-done:
		return r
	case <-time.After(vfWatchdog(f[0])):
		return "hang"
	}
}

func TestVerifC08(t *testing.T) {
	in, err := os.Open(os.Getenv("VERIF_CASES"))
	if err != nil {
		t.Fatal(err)
	}
	defer in.Close()
	var lines []string
	sc := bufio.NewScanner(in)
	sc.Buffer(make([]byte, 1<<20), 1<<26)
	for sc.Scan() {
		lines = append(lines, sc.Text())
	}
	results := make([]string, len(lines))
	var wg sync.WaitGroup
	sem := make(chan struct{}, 24)
	for i := range lines {
		wg.Add(1)
		sem <- struct{}{}
		go func(i int) {
			defer wg.Done()
			defer func() { <-sem }()
			results[i] = vfRunCase(lines[i])
		}(i)
	}
	wg.Wait()
	out, err := os.Create(os.Getenv("VERIF_OUT"))
	if err != nil {
		t.Fatal(err)
	}
	defer out.Close()
	w := bufio.NewWriter(out)
	defer w.Flush()
	for _, r := range results {
		fmt.Fprintln(w, r)
	}
}
