//go:build verif

package relay

// C19 harness for pkg/dhcp/relay (option82.go, rewrite.go, v6relay.go, v6rewrite.go) and, through the
// dhcp6 import, pkg/dhcp6 (serialize.go, message.go).  gopacket's DHCPv4 decoder is the independent decoder.

import (
	"bufio"
	"bytes"
	"encoding/hex"
	"fmt"
	"net"
	"os"
	"strconv"
	"strings"
	"testing"
	"time"

	"github.com/google/gopacket"
	"github.com/google/gopacket/layers"

	"github.com/veesix-networks/osvbng/pkg/config/ip"
	"github.com/veesix-networks/osvbng/pkg/dhcp6"
)

func c19Hex(t string) []byte {
	if t == "-" {
		return []byte{}
	}
	b, err := hex.DecodeString(t)
	if err != nil {
		panic("bad hex token")
	}
	return b
}

func c19Show(b []byte) string {
	if len(b) == 0 {
		return "-"
	}
	return hex.EncodeToString(b)
}

func c19ShowN(b []byte) string {
	if b == nil {
		return "nil"
	}
	return c19Show(b)
}

func c19IP(t string) net.IP {
	if t == "nil" {
		return nil
	}
	return net.IP(c19Hex(t))
}

func c19Verify(parts ...[]byte) bool {
	var all []byte
	for _, p := range parts {
		all = append(all, p...)
	}
	if len(all)%2 == 1 {
		all = append(all, 0)
	}
	var acc uint64
	for i := 0; i < len(all); i += 2 {
		acc += uint64(all[i])<<8 | uint64(all[i+1])
		if acc > 0xFFFF {
			acc = (acc & 0xFFFF) + 1
		}
	}
	return acc == 0xFFFF
}

func c19B(b bool) int {
	if b {
		return 1
	}
	return 0
}

func c19Sum4(f []byte) string {
	n := len(f)
	if n < 28 {
		return "h=0 u=0 l=0 z=0"
	}
	h := c19Verify(f[:20])
	u := c19Verify(f[12:20], []byte{0, 17}, f[24:26], f[20:])
	l := int(f[2])<<8|int(f[3]) == n && int(f[24])<<8|int(f[25]) == n-20
	z := f[26] == 0 && f[27] == 0
	return fmt.Sprintf("h=%d u=%d l=%d z=%d", c19B(h), c19B(u), c19B(l), c19B(z))
}

// option codes (pads dropped) as gopacket decodes them, "err" when it refuses the message
func c19GP(p []byte) string {
	var d layers.DHCPv4
	q := append([]byte(nil), p...)
	if len(q) > 2 {
		q[2] = 6 // gopacket slices chaddr by hlen without a bound check; not what is under test here
	}
	if err := d.DecodeFromBytes(q, gopacket.NilDecodeFeedback); err != nil {
		return "err"
	}
	var cs []string
	for _, o := range d.Options {
		if o.Type == layers.DHCPOptPad {
			continue
		}
		cs = append(cs, strconv.Itoa(int(o.Type)))
	}
	if len(cs) == 0 {
		return "e"
	}
	return strings.Join(cs, ".")
}

func c19U(t string) uint64 {
	n, _ := strconv.ParseUint(t, 10, 64)
	return n
}

func c19IA(iaid, t1, t2 uint32, plen uint8, addr net.IP, pref, valid uint32) string {
	return fmt.Sprintf("%d,%d,%d,%d,%s,%d,%d", iaid, t1, t2, plen, c19ShowN(addr), pref, valid)
}

func c19Msg(m *dhcp6.Message) string {
	if m == nil {
		return "nomsg"
	}
	o := m.Options
	na, pd := "nil", "nil"
	if o.IANA != nil {
		na = c19IA(o.IANA.IAID, o.IANA.T1, o.IANA.T2, 0, o.IANA.Address, o.IANA.PreferredTime, o.IANA.ValidTime)
	}
	if o.IAPD != nil {
		pd = c19IA(o.IAPD.IAID, o.IAPD.T1, o.IAPD.T2, o.IAPD.PrefixLen, o.IAPD.Prefix, o.IAPD.PreferredTime, o.IAPD.ValidTime)
	}
	dns := "-"
	if len(o.DNS) > 0 {
		var ds []string
		for _, d := range o.DNS {
			ds = append(ds, c19Show(d))
		}
		dns = strings.Join(ds, ",")
	}
	st := "nil"
	if o.StatusCode != nil {
		st = fmt.Sprintf("%d,%s", o.StatusCode.Code, c19Show([]byte(o.StatusCode.Message)))
	}
	return fmt.Sprintf("t=%d x=%s c=%s s=%s na=%s pd=%s dns=%s st=%s", m.MsgType, c19Show(m.TransactionID[:]),
		c19ShowN(o.ClientID), c19ShowN(o.ServerID), na, pd, dns, st)
}

func c19Info(i *dhcp6.RelayInfo) string {
	if i == nil {
		return "nil"
	}
	return fmt.Sprintf("%d,%s,%s,%s,%s", i.HopCount, c19Show(i.LinkAddr), c19Show(i.PeerAddr), c19ShowN(i.InterfaceID), c19ShowN(i.RemoteID))
}

func c19Txid(p []byte) string {
	x, ok := GetRelayTransactionID(p)
	if !ok {
		return "nil"
	}
	return c19Show(x[:])
}

func c19Unwrap(p []byte) string {
	inner, err := UnwrapRelayReply(p)
	if err == nil && c19Al(inner, p) == 1 {
		return "ALIAS"
	}
	if err != nil {
		switch {
		case strings.HasPrefix(err.Error(), "packet too short"):
			return "err1"
		case strings.HasPrefix(err.Error(), "not a relay-reply"):
			return "err2"
		default:
			return "err3"
		}
	}
	return "ok " + c19Show(inner)
}

func c19Get4(p []byte, code byte) string {
	g := GetOptionIP(p, code)
	if g != nil && c19Al(g, p) == 1 {
		return "ALIAS"
	}
	v, ok := GetOptionUint32(p, code)
	if g == nil {
		if ok {
			return "INCONSISTENT"
		}
		return "none"
	}
	if !ok || uint32(g[0])<<24|uint32(g[1])<<16|uint32(g[2])<<8|uint32(g[3]) != v {
		return "INCONSISTENT"
	}
	return c19Show(g)
}

// value-vs-alias observables.  c19Al: does res share memory with src?  (every byte of src is flipped and restored;
// res is compared with a private copy taken before)
func c19Al(res, src []byte) int {
	saved := append([]byte(nil), res...)
	for i := range src {
		src[i] ^= 0xFF
	}
	changed := !bytes.Equal(saved, res)
	for i := range src {
		src[i] ^= 0xFF
	}
	return c19B(changed)
}

// c19Rw runs a rewriter on a private copy of pkt and reports: result, al (result aliases the input buffer),
// im (the input buffer was modified by the call)
func c19Rw(pkt []byte, f func([]byte) []byte) ([]byte, string) {
	in := append([]byte(nil), pkt...)
	r := f(in)
	im := c19B(!bytes.Equal(in, pkt))
	out := append([]byte(nil), r...)
	al := c19Al(r, in)
	return out, fmt.Sprintf("al=%d im=%d", al, im)
}

func c19Pairs(toks []string) (codes []uint16, datas [][]byte) {
	for _, t := range toks {
		p := strings.SplitN(t, ",", 2)
		codes = append(codes, uint16(c19U(p[0])))
		datas = append(datas, c19Hex(p[1]))
	}
	return
}

func c19Case(f []string) (out string) {
	defer func() {
		if r := recover(); r != nil {
			out = "panic"
		}
	}()
	switch f[0] {
	case "wrap":
		fr := WrapIPUDP(c19Hex(f[3]), c19IP(f[1]), c19IP(f[2]))
		if fr == nil {
			return "nil"
		}
		return c19Show(fr) + " " + c19Sum4(fr)
	case "o82build":
		cfg := &ip.Option82Config{CircuitIDFormat: string(c19Hex(f[3])), RemoteIDFormat: string(c19Hex(f[4])), IncludeFlags: f[1] == "1"}
		p := &Option82Params{Interface: string(c19Hex(f[5])), SVLAN: uint16(c19U(f[6])), CVLAN: uint16(c19U(f[7])), MAC: string(c19Hex(f[8]))}
		b, err := BuildOption82(cfg, p, f[2] == "1")
		if err != nil {
			return "err"
		}
		return "ok " + c19Show(b)
	case "o82ins":
		o82 := c19Hex(f[2])
		r, am := c19Rw(c19Hex(f[3]), func(p []byte) []byte { return InsertOption82(p, o82, f[1]) })
		return c19Show(r) + " gp=" + c19GP(r) + " " + am
	case "o82strip":
		r, am := c19Rw(c19Hex(f[1]), StripOption82)
		return c19Show(r) + " gp=" + c19GP(r) + " " + am
	case "setu32":
		code := byte(c19U(f[1]))
		r, am := c19Rw(c19Hex(f[3]), func(p []byte) []byte { return SetOptionUint32(p, code, uint32(c19U(f[2]))) })
		return c19Show(r) + " gp=" + c19GP(r) + " get=" + c19Get4(r, code) + " " + am
	case "setip":
		code := byte(c19U(f[1]))
		r, am := c19Rw(c19Hex(f[3]), func(p []byte) []byte { return SetOptionIP(p, code, c19IP(f[2])) })
		return c19Show(r) + " gp=" + c19GP(r) + " get=" + c19Get4(r, code) + " " + am
	case "proxy":
		r, am := c19Rw(c19Hex(f[3]), func(p []byte) []byte { return RewriteForProxy(p, c19IP(f[1]), uint32(c19U(f[2]))) })
		return fmt.Sprintf("%s gp=%s get=%s,%s,%s,%s %s", c19Show(r), c19GP(r), c19Get4(r, 54), c19Get4(r, 51), c19Get4(r, 58), c19Get4(r, 59), am)
	case "giaddr":
		p := c19Hex(f[2])
		SetGIAddr(p, c19IP(f[1]))
		g := GetGIAddr(p)
		return c19Show(p) + " get=" + c19ShowN(g) + fmt.Sprintf(" gal=%d", c19Al(g, p))
	case "hops":
		p := c19Hex(f[1])
		IncrementHops(p)
		return fmt.Sprintf("%s get=%d", c19Show(p), GetHops(p))
	case "ser6":
		// ser6 type txid client server iana iapd ndns dns.. status nextras extras..
		r := &dhcp6.Response{MsgType: dhcp6.MessageType(c19U(f[1]))}
		copy(r.TransactionID[:], c19Hex(f[2]))
		r.ClientID = c19Hex(f[3])
		r.ServerID = c19Hex(f[4])
		if f[5] != "nil" {
			p := strings.Split(f[5], ",")
			r.IANA = &dhcp6.IANAOption{IAID: uint32(c19U(p[0])), T1: uint32(c19U(p[1])), T2: uint32(c19U(p[2])),
				Address: c19IP(p[3]), PreferredTime: uint32(c19U(p[4])), ValidTime: uint32(c19U(p[5]))}
		}
		if f[6] != "nil" {
			p := strings.Split(f[6], ",")
			r.IAPD = &dhcp6.IAPDOption{IAID: uint32(c19U(p[0])), T1: uint32(c19U(p[1])), T2: uint32(c19U(p[2])),
				PrefixLen: uint8(c19U(p[3])), Prefix: c19IP(p[4]), PreferredTime: uint32(c19U(p[5])), ValidTime: uint32(c19U(p[6]))}
		}
		nd := int(c19U(f[7]))
		for _, d := range f[8 : 8+nd] {
			r.DNS = append(r.DNS, c19IP(d))
		}
		rest := f[8+nd:]
		if rest[0] != "nil" {
			p := strings.SplitN(rest[0], ",", 2)
			r.StatusCode = &dhcp6.StatusCodeOption{Code: uint16(c19U(p[0])), Message: string(c19Hex(p[1]))}
		}
		codes, datas := c19Pairs(rest[2:])
		for i := range codes {
			r.Extras = append(r.Extras, dhcp6.ExtraOption{Code: codes[i], Data: datas[i]})
		}
		b := r.Serialize()
		if c19Al(b, r.ClientID) == 1 || c19Al(b, r.ServerID) == 1 {
			return "ALIAS"
		}
		m, _ := dhcp6.ParseMessage(b)
		return c19Show(b) + " ; " + c19Msg(m)
	case "rf6":
		p := &RelayForwardParams{HopCount: uint8(c19U(f[1])), LinkAddress: c19IP(f[2]), PeerAddress: c19IP(f[3]),
			InterfaceID: c19Hex(f[4]), RemoteID: c19Hex(f[5]), EnterpriseNumber: uint32(c19U(f[6])), SubscriberID: c19Hex(f[7])}
		msg := c19Hex(f[8])
		b := BuildRelayForward(msg, p)
		if c19Al(b, msg) == 1 || c19Al(b, p.InterfaceID) == 1 || c19Al(b, p.RemoteID) == 1 {
			return "ALIAS"
		}
		m, i := dhcp6.UnwrapRelay(b)
		return fmt.Sprintf("%s ; %s ; info=%s ; txid=%s", c19Show(b), c19Msg(m), c19Info(i), c19Txid(b))
	case "rr6":
		info := &dhcp6.RelayInfo{HopCount: uint8(c19U(f[1])), LinkAddr: c19IP(f[2]), PeerAddr: c19IP(f[3]), InterfaceID: c19Hex(f[4])}
		innerMsg := c19Hex(f[5])
		b := BuildRelayReply(innerMsg, info)
		if c19Al(b, innerMsg) == 1 || c19Al(b, info.InterfaceID) == 1 {
			return "ALIAS"
		}
		return fmt.Sprintf("%s ; unwrap=%s ; txid=%s ; m6=%s", c19Show(b), c19Unwrap(b), c19Txid(b), c19Msg(dhcp6.UnwrapRelayReply(b)))
	case "unw6":
		b := c19Hex(f[1])
		m, i := dhcp6.UnwrapRelay(b)
		return fmt.Sprintf("unwrap=%s ; txid=%s ; %s ; info=%s ; m6=%s", c19Unwrap(b), c19Txid(b), c19Msg(m), c19Info(i), c19Msg(dhcp6.UnwrapRelayReply(b)))
	case "relay4":
		// relay4 giaddr policy opt82 pkt — plugins/dhcp4/relay|proxy handleForward, client -> server, on ONE buffer
		raw := c19Hex(f[4])
		SetGIAddr(raw, c19IP(f[1]))
		IncrementHops(raw)
		raw = InsertOption82(raw, c19Hex(f[3]), f[2])
		return fmt.Sprintf("%s gp=%s gi=%s hops=%d", c19Show(raw), c19GP(raw), c19ShowN(GetGIAddr(raw)), GetHops(raw))
	case "relayreply4":
		// relayreply4 giaddr reply — relay provider, server -> client
		gi := c19IP(f[1])
		reply := StripOption82(c19Hex(f[2]))
		sid := GetOptionIP(reply, OptServerID)
		if sid == nil {
			sid = gi
		}
		fr := WrapIPUDP(reply, sid, net.IPv4bcast)
		if fr == nil {
			return "nil"
		}
		return c19Show(fr) + " " + c19Sum4(fr) + " gp=" + c19GP(fr[28:])
	case "proxyreply4":
		// proxyreply4 giaddr lease reply — proxy provider, server -> client
		gi := c19IP(f[1])
		reply := StripOption82(c19Hex(f[3]))
		reply = RewriteForProxy(reply, gi, uint32(c19U(f[2])))
		fr := WrapIPUDP(reply, gi, net.IPv4bcast)
		if fr == nil {
			return "nil"
		}
		return fmt.Sprintf("%s %s gp=%s get=%s,%s,%s,%s", c19Show(fr), c19Sum4(fr), c19GP(fr[28:]), c19Get4(fr[28:], 54), c19Get4(fr[28:], 51), c19Get4(fr[28:], 58), c19Get4(fr[28:], 59))
	case "pseq6":
		// pseq6 proxyduid pref valid relayreply request — the DHCPv6 proxy's two-message sequence at function level
		// (plugins/dhcp6/proxy/provider.go handleForwardAndRewrite): learn the server DUID from the ADVERTISE/REPLY,
		// rewrite that message for the client, later put the learnt DUID into the client's REQUEST
		pd := c19Hex(f[1])
		raw := c19Hex(f[4])
		raw0 := append([]byte(nil), raw...)
		inner, err := UnwrapRelayReply(raw)
		if err != nil {
			return "err"
		}
		sd := GetServerDUID(inner)
		inner = ReplaceServerDUID(inner, pd)
		inner = RewriteV6Lifetimes(inner, uint32(c19U(f[2])), uint32(c19U(f[3])))
		req := c19Hex(f[5])
		if len(sd) > 0 {
			req = ReplaceServerDUID(req, sd)
		}
		fwd := BuildRelayForward(req, &RelayForwardParams{LinkAddress: net.IPv6loopback, PeerAddress: net.IPv6loopback, InterfaceID: []byte("if0")})
		return fmt.Sprintf("%s ; sd=%s ; fwd=%s ; rawmod=%d", c19Show(inner), c19ShowN(sd), c19Show(fwd), c19B(!bytes.Equal(raw, raw0)))
	case "lt6":
		r, am := c19Rw(c19Hex(f[3]), func(p []byte) []byte { return RewriteV6Lifetimes(p, uint32(c19U(f[1])), uint32(c19U(f[2]))) })
		return c19Show(r) + " " + am
	case "duid6":
		nd := c19Hex(f[1])
		r, am := c19Rw(c19Hex(f[2]), func(p []byte) []byte { return ReplaceServerDUID(p, nd) })
		g := GetServerDUID(r)
		gs := c19ShowN(g)
		gal := c19Al(g, r)
		// the result must not alias the new DUID either
		ral := c19Al(r, nd)
		return c19Show(r) + " get=" + gs + fmt.Sprintf(" %s gal=%d nal=%d", am, gal, ral)
	}
	return "badline"
}

func c19Guard(f []string) string {
	ch := make(chan string, 1)
	go func() { ch <- c19Case(f) }()
	select {
	case s := <-ch:
		return s
	case <-time.After(20 * time.Second):
		return "hang"
	}
}

func TestVerifC19(t *testing.T) {
	in, err := os.Open(os.Getenv("VERIF_CASES"))
	if err != nil {
		t.Fatal(err)
	}
	defer in.Close()
	out, err := os.Create(os.Getenv("VERIF_OUT"))
	if err != nil {
		t.Fatal(err)
	}
	defer out.Close()
	w := bufio.NewWriter(out)
	defer w.Flush()
	sc := bufio.NewScanner(in)
	sc.Buffer(make([]byte, 1<<20), 1<<28)
	for sc.Scan() {
		f := strings.Fields(sc.Text())
		if len(f) == 0 {
			continue
		}
		fmt.Fprintln(w, c19Guard(f))
	}
}
