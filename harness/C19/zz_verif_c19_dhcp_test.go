//go:build verif

package dhcp

// C19 harness for pkg/dhcp (udp.go, packet.go): frame builders, with an independent RFC 1071 verifier.

import (
	"bufio"
	"encoding/hex"
	"fmt"
	"net"
	"os"
	"strconv"
	"strings"
	"testing"
	"time"
)

func c19Hex(t string) []byte {
	if t == "-" {
		return []byte{}
	}
	b, err := hex.DecodeString(t)
	if err != nil {
		panic("bad hex token")
	}
	return b
}

func c19Show(b []byte) string {
	if len(b) == 0 {
		return "-"
	}
	return hex.EncodeToString(b)
}

func c19IP(t string) net.IP {
	if t == "nil" {
		return nil
	}
	return net.IP(c19Hex(t))
}

// ones-complement sum of 16-bit big-endian words with end-around carry, written independently of the code under test
func c19Verify(parts ...[]byte) bool {
	var all []byte
	for _, p := range parts {
		all = append(all, p...)
	}
	if len(all)%2 == 1 {
		all = append(all, 0)
	}
	var acc uint64
	for i := 0; i < len(all); i += 2 {
		acc += uint64(all[i])<<8 | uint64(all[i+1])
		if acc > 0xFFFF {
			acc = (acc & 0xFFFF) + 1
		}
	}
	return acc == 0xFFFF
}

func c19B(b bool) int {
	if b {
		return 1
	}
	return 0
}

func c19Sum4(f []byte) string {
	n := len(f)
	if n < 28 {
		return "h=0 u=0 l=0 z=0"
	}
	h := c19Verify(f[:20])
	u := c19Verify(f[12:20], []byte{0, 17}, f[24:26], f[20:])
	l := int(f[2])<<8|int(f[3]) == n && int(f[24])<<8|int(f[25]) == n-20
	z := f[26] == 0 && f[27] == 0
	return fmt.Sprintf("h=%d u=%d l=%d z=%d", c19B(h), c19B(u), c19B(l), c19B(z))
}

func c19Sum6(f []byte) string {
	n := len(f)
	if n < 48 {
		return "h=0 u=0 l=0 z=0"
	}
	u := c19Verify(f[8:40], []byte{0, 0}, f[44:46], []byte{0, 0, 0, 17}, f[40:])
	l := int(f[4])<<8|int(f[5]) == n-40 && int(f[44])<<8|int(f[45]) == n-40
	z := f[46] == 0 && f[47] == 0
	return fmt.Sprintf("h=1 u=%d l=%d z=%d", c19B(u), c19B(l), c19B(z))
}

func c19U16(t string) uint16 {
	n, _ := strconv.Atoi(t)
	return uint16(n)
}

func c19Case(f []string) (out string) {
	defer func() {
		if r := recover(); r != nil {
			out = "panic"
		}
	}()
	switch f[0] {
	case "ip4":
		fr := BuildIPv4UDPFrame(c19IP(f[1]), c19IP(f[2]), c19U16(f[3]), c19U16(f[4]), c19Hex(f[5]))
		if fr == nil {
			return "nil"
		}
		return c19Show(fr) + " " + c19Sum4(fr)
	case "udp4":
		fr := BuildUDPPacket(c19IP(f[1]), c19IP(f[2]), c19U16(f[3]), c19U16(f[4]), c19Hex(f[5]))
		if fr == nil {
			return "nil"
		}
		return c19Show(fr) + " " + c19Sum4(fr)
	case "ip6":
		fr := BuildIPv6UDPFrame(c19IP(f[1]), c19IP(f[2]), c19U16(f[3]), c19U16(f[4]), c19Hex(f[5]))
		if fr == nil {
			return "nil"
		}
		return c19Show(fr) + " " + c19Sum6(fr)
	}
	return "badline"
}

func c19Guard(f []string) string {
	ch := make(chan string, 1)
	go func() { ch <- c19Case(f) }()
	select {
	case s := <-ch:
		return s
	case <-time.After(20 * time.Second):
		return "hang"
	}
}

func TestVerifC19(t *testing.T) {
	in, err := os.Open(os.Getenv("VERIF_CASES"))
	if err != nil {
		t.Fatal(err)
	}
	defer in.Close()
	out, err := os.Create(os.Getenv("VERIF_OUT"))
	if err != nil {
		t.Fatal(err)
	}
	defer out.Close()
	w := bufio.NewWriter(out)
	defer w.Flush()
	sc := bufio.NewScanner(in)
	sc.Buffer(make([]byte, 1<<20), 1<<28)
	for sc.Scan() {
		f := strings.Fields(sc.Text())
		if len(f) == 0 {
			continue
		}
		fmt.Fprintln(w, c19Guard(f))
	}
}
