//go:build verif

package local

// C19 harness for plugins/dhcp4/local/provider.go: the DHCPv4 reply builder (pool path and resolved path).
// The built frame is checked with an independent RFC 1071 verifier and decoded with gopacket.

import (
	"bufio"
	"encoding/hex"
	"fmt"
	"net"
	"os"
	"strconv"
	"strings"
	"testing"
	"time"

	"github.com/google/gopacket"
	"github.com/google/gopacket/layers"

	"github.com/veesix-networks/osvbng/pkg/allocator"
	ipcfg "github.com/veesix-networks/osvbng/pkg/config/ip"
	"github.com/veesix-networks/osvbng/pkg/dhcp"
	"github.com/veesix-networks/osvbng/pkg/dhcp4"
)

// first half of an "asciihex/parsed" token: the configuration string as the operator wrote it
func c19Str(t string) string {
	return string(c19Hex(strings.SplitN(t, "/", 2)[0]))
}

func c19ShowIPN(ip net.IP) string {
	if ip == nil {
		return "nil"
	}
	return c19Show(ip)
}

func c19Hex(t string) []byte {
	if t == "-" {
		return []byte{}
	}
	b, err := hex.DecodeString(t)
	if err != nil {
		panic("bad hex token")
	}
	return b
}

func c19Show(b []byte) string {
	if len(b) == 0 {
		return "-"
	}
	return hex.EncodeToString(b)
}

func c19IP(t string) net.IP {
	if t == "nil" {
		return nil
	}
	return net.IP(c19Hex(t))
}

func c19Verify(parts ...[]byte) bool {
	var all []byte
	for _, p := range parts {
		all = append(all, p...)
	}
	if len(all)%2 == 1 {
		all = append(all, 0)
	}
	var acc uint64
	for i := 0; i < len(all); i += 2 {
		acc += uint64(all[i])<<8 | uint64(all[i+1])
		if acc > 0xFFFF {
			acc = (acc & 0xFFFF) + 1
		}
	}
	return acc == 0xFFFF
}

func c19B(b bool) int {
	if b {
		return 1
	}
	return 0
}

func c19Sum4(f []byte) string {
	n := len(f)
	if n < 28 {
		return "h=0 u=0 l=0 z=0"
	}
	h := c19Verify(f[:20])
	u := c19Verify(f[12:20], []byte{0, 17}, f[24:26], f[20:])
	l := int(f[2])<<8|int(f[3]) == n && int(f[24])<<8|int(f[25]) == n-20
	z := f[26] == 0 && f[27] == 0
	return fmt.Sprintf("h=%d u=%d l=%d z=%d", c19B(h), c19B(u), c19B(l), c19B(z))
}

func c19GPFull(p []byte) string {
	var d layers.DHCPv4
	if err := d.DecodeFromBytes(p, gopacket.NilDecodeFeedback); err != nil {
		return "err"
	}
	var os []string
	for _, o := range d.Options {
		if o.Type == layers.DHCPOptPad {
			continue
		}
		os = append(os, strconv.Itoa(int(o.Type))+":"+c19Show(o.Data))
	}
	opts := "e"
	if len(os) > 0 {
		opts = strings.Join(os, ".")
	}
	return fmt.Sprintf("%d,%s,%s,%s", d.Xid, c19Show(d.YourClientIP), c19Show(p[28:34]), opts)
}

func c19U(t string) uint64 {
	n, _ := strconv.ParseUint(t, 10, 64)
	return n
}

func c19Opts(toks []string) []dhcp.EncodedOption {
	var r []dhcp.EncodedOption
	for _, t := range toks {
		p := strings.SplitN(t, ",", 2)
		r = append(r, dhcp.EncodedOption{Tag: uint8(c19U(p[0])), Payload: c19Hex(p[1])})
	}
	return r
}

func c19Req(f []string) *dhcp4.Message {
	req := &dhcp4.Message{XID: uint32(c19U(f[1])), ClientIP: c19IP(f[2])}
	if f[3] != "-" {
		req.ClientHWAddr = net.HardwareAddr(c19Hex(f[3]))
	}
	return req
}

func c19Frame(fr []byte) string {
	if fr == nil {
		return "nil"
	}
	if len(fr) < 28 {
		return c19Show(fr) + " short"
	}
	return c19Show(fr) + " " + c19Sum4(fr) + " gp=" + c19GPFull(fr[28:])
}

func c19Case(f []string) (out string) {
	defer func() {
		if r := recover(); r != nil {
			out = "panic"
		}
	}()
	p := &Provider{}
	switch f[0] {
	case "pool":
		// pool xid ciaddr hw msgtype ip gw mask lease ndns dns.. nextra extras..
		req := c19Req(f)
		pool := &IPPool{Gateway: c19IP(f[6]), Network: &net.IPNet{Mask: net.IPMask(c19Hex(f[7]))}, LeaseTime: uint32(c19U(f[8]))}
		nd := int(c19U(f[9]))
		for _, d := range f[10 : 10+nd] {
			pool.DNSServers = append(pool.DNSServers, c19IP(d))
		}
		pool.Options = c19Opts(f[10+nd+1:])
		return c19Frame(p.buildResponse(req, c19IP(f[5]), pool, dhcp4.MessageType(c19U(f[4]))))
	case "resolve4":
		// resolve4 xid ci hw mt addr ctxgw ctxmask nctxdns dns.. pgw psid unnum lease npdns pdns.. npools {cidr gw nopts {tag,enc,val/..}..}..
		// pkg/dhcp.ResolveV4 (address already chosen, no allocator registry) followed by buildResponseFromResolved
		allocator.ResetGlobalRegistry()
		defer allocator.ResetGlobalRegistry()
		req := c19Req(f)
		alloc := f[5] == "alloc"
		ctx := &allocator.Context{IPv4Gateway: c19IP(f[6]), ProfileName: "p", SessionID: "s1"}
		if !alloc {
			ctx.IPv4Address = c19IP(f[5])
		}
		if f[7] != "nil" {
			ctx.IPv4Netmask = net.IPMask(c19Hex(f[7]))
		}
		k := 8
		n := int(c19U(f[k]))
		k++
		for i := 0; i < n; i++ {
			ctx.DNSv4 = append(ctx.DNSv4, c19IP(f[k]))
			k++
		}
		prof := &ipcfg.IPv4Profile{Gateway: c19Str(f[k]), DHCP: &ipcfg.IPv4DHCPOptions{ServerID: c19Str(f[k+1]), LeaseTime: uint32(c19U(f[k+3]))}}
		if f[k+2] == "1" {
			prof.DHCP.AddressModel = "unnumbered-ptp"
		}
		k += 4
		n = int(c19U(f[k]))
		k++
		for i := 0; i < n; i++ {
			prof.DNS = append(prof.DNS, c19Str(f[k]))
			k++
		}
		np := int(c19U(f[k]))
		k++
		for i := 0; i < np; i++ {
			pool := ipcfg.IPv4Pool{Name: "pool" + strconv.Itoa(i), Network: c19Str(f[k]), Gateway: c19Str(f[k+1]), LeaseTime: 7777}
			no := int(c19U(f[k+2]))
			k += 3
			for j := 0; j < no; j++ {
				q := strings.SplitN(strings.SplitN(f[k], "/", 2)[0], ",", 3)
				pool.Options = append(pool.Options, ipcfg.DHCPOption{Tag: uint8(c19U(q[0])), Encoding: string(c19Hex(q[1])), Value: string(c19Hex(q[2]))})
				k++
			}
			prof.Pools = append(prof.Pools, pool)
		}
		if alloc {
			// the allocation branch: a real allocator registry built from this very profile
			allocator.InitGlobalRegistry(map[string]*ipcfg.IPv4Profile{"p": prof}, nil)
		}
		res := dhcp.ResolveV4(ctx, prof)
		if res == nil {
			return "noresolve"
		}
		var ds, os []string
		for _, d := range res.DNS {
			ds = append(ds, c19ShowIPN(d))
		}
		for _, o := range res.Options {
			os = append(os, strconv.Itoa(int(o.Tag))+":"+c19Show(o.Payload))
		}
		dj, oj := "-", "-"
		if len(ds) > 0 {
			dj = strings.Join(ds, ",")
		}
		if len(os) > 0 {
			oj = strings.Join(os, ".")
		}
		sum := fmt.Sprintf("y=%s r=%s s=%s m=%s dns=%s lease=%d nr=%d opts=%s", c19ShowIPN(res.YourIP), c19ShowIPN(res.Router), c19ShowIPN(res.ServerID), c19Show(res.Netmask),
			dj, uint32(res.LeaseTime.Seconds()), len(res.ClasslessRoutes), oj)
		return sum + " ; " + c19Frame(p.buildResponseFromResolved(req, res, dhcp4.MessageType(c19U(f[4]))))
	case "resolved":
		// resolved xid ciaddr hw msgtype yip router serverid mask lease ndns dns.. nroutes routes.. nextra extras..
		req := c19Req(f)
		res := &dhcp.ResolvedDHCPv4{YourIP: c19IP(f[5]), Router: c19IP(f[6]), ServerID: c19IP(f[7]),
			Netmask: net.IPMask(c19Hex(f[8])), LeaseTime: time.Duration(c19U(f[9])) * time.Second}
		nd := int(c19U(f[10]))
		for _, d := range f[11 : 11+nd] {
			res.DNS = append(res.DNS, c19IP(d))
		}
		rest := f[11+nd:]
		nr := int(c19U(rest[0]))
		for _, t := range rest[1 : 1+nr] {
			q := strings.Split(t, ",")
			res.ClasslessRoutes = append(res.ClasslessRoutes, dhcp.ClasslessRoute{
				Destination: &net.IPNet{IP: c19IP(q[1]), Mask: net.CIDRMask(int(c19U(q[0])), 32)}, NextHop: c19IP(q[2])})
		}
		res.Options = c19Opts(rest[1+nr+1:])
		return c19Frame(p.buildResponseFromResolved(req, res, dhcp4.MessageType(c19U(f[4]))))
	}
	return "badline"
}

func c19Guard(f []string) string {
	ch := make(chan string, 1)
	go func() { ch <- c19Case(f) }()
	select {
	case s := <-ch:
		return s
	case <-time.After(20 * time.Second):
		return "hang"
	}
}

func TestVerifC19(t *testing.T) {
	in, err := os.Open(os.Getenv("VERIF_CASES"))
	if err != nil {
		t.Fatal(err)
	}
	defer in.Close()
	out, err := os.Create(os.Getenv("VERIF_OUT"))
	if err != nil {
		t.Fatal(err)
	}
	defer out.Close()
	w := bufio.NewWriter(out)
	defer w.Flush()
	sc := bufio.NewScanner(in)
	sc.Buffer(make([]byte, 1<<20), 1<<28)
	for sc.Scan() {
		f := strings.Fields(sc.Text())
		if len(f) == 0 {
			continue
		}
		fmt.Fprintln(w, c19Guard(f))
	}
}
