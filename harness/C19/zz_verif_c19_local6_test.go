//go:build verif

package local

// C19 harness for plugins/dhcp6/local/provider.go: buildResponse (what the local DHCPv6 server puts on the wire),
// re-parsed with dhcp6.ParseMessage.

import (
	"bufio"
	"context"
	"encoding/hex"
	"fmt"
	"net"
	"os"
	"strconv"
	"strings"
	"testing"
	"time"

	"github.com/veesix-networks/osvbng/pkg/allocator"
	"github.com/veesix-networks/osvbng/pkg/config"
	ipcfg "github.com/veesix-networks/osvbng/pkg/config/ip"
	"github.com/veesix-networks/osvbng/pkg/dhcp"
	dhcp6msg "github.com/veesix-networks/osvbng/pkg/dhcp6"
)

func c19Hex(t string) []byte {
	if t == "-" {
		return []byte{}
	}
	b, err := hex.DecodeString(t)
	if err != nil {
		panic("bad hex token")
	}
	return b
}

func c19Show(b []byte) string {
	if len(b) == 0 {
		return "-"
	}
	return hex.EncodeToString(b)
}

func c19ShowN(b []byte) string {
	if b == nil {
		return "nil"
	}
	return c19Show(b)
}

func c19IP(t string) net.IP {
	if t == "nil" {
		return nil
	}
	return net.IP(c19Hex(t))
}

func c19U(t string) uint64 {
	n, _ := strconv.ParseUint(t, 10, 64)
	return n
}

func c19IA(iaid, t1, t2 uint32, plen uint8, addr net.IP, pref, valid uint32) string {
	return fmt.Sprintf("%d,%d,%d,%d,%s,%d,%d", iaid, t1, t2, plen, c19ShowN(addr), pref, valid)
}

func c19Msg(m *dhcp6msg.Message) string {
	if m == nil {
		return "nomsg"
	}
	o := m.Options
	na, pd := "nil", "nil"
	if o.IANA != nil {
		na = c19IA(o.IANA.IAID, o.IANA.T1, o.IANA.T2, 0, o.IANA.Address, o.IANA.PreferredTime, o.IANA.ValidTime)
	}
	if o.IAPD != nil {
		pd = c19IA(o.IAPD.IAID, o.IAPD.T1, o.IAPD.T2, o.IAPD.PrefixLen, o.IAPD.Prefix, o.IAPD.PreferredTime, o.IAPD.ValidTime)
	}
	dns := "-"
	if len(o.DNS) > 0 {
		var ds []string
		for _, d := range o.DNS {
			ds = append(ds, c19Show(d))
		}
		dns = strings.Join(ds, ",")
	}
	st := "nil"
	if o.StatusCode != nil {
		st = fmt.Sprintf("%d,%s", o.StatusCode.Code, c19Show([]byte(o.StatusCode.Message)))
	}
	return fmt.Sprintf("t=%d x=%s c=%s s=%s na=%s pd=%s dns=%s st=%s", m.MsgType, c19Show(m.TransactionID[:]),
		c19ShowN(o.ClientID), c19ShowN(o.ServerID), na, pd, dns, st)
}

func c19Str(t string) string {
	return string(c19Hex(strings.SplitN(t, "/", 2)[0]))
}

func c19Case(f []string) (out string) {
	defer func() {
		if r := recover(); r != nil {
			out = "panic"
		}
	}()
	switch f[0] {
	case "solicit6":
		// solicit6 serverduid clientmsg relayinfo addr prefix ones nctxdns dns.. ppref pvalid npdns dns.. nia {cidr pref valid nopts {code,enc,val/..}..}.. npd {cidr pref valid}..
		// pkg/dhcp.ResolveV6 (address / prefix already chosen, no registry) then the real Provider.HandlePacket on a fresh provider
		allocator.ResetGlobalRegistry()
		ctx := &allocator.Context{IPv6Address: c19IP(f[4])}
		if f[5] != "nil" {
			ctx.IPv6Prefix = &net.IPNet{IP: c19IP(f[5]), Mask: net.CIDRMask(int(c19U(f[6])), 128)}
		}
		k := 7
		n := int(c19U(f[k]))
		k++
		for i := 0; i < n; i++ {
			ctx.DNSv6 = append(ctx.DNSv6, c19IP(f[k]))
			k++
		}
		prof := &ipcfg.IPv6Profile{DHCPv6: &ipcfg.IPv6DHCPv6Options{PreferredTime: uint32(c19U(f[k])), ValidTime: uint32(c19U(f[k+1]))}}
		k += 2
		n = int(c19U(f[k]))
		k++
		for i := 0; i < n; i++ {
			prof.DNS = append(prof.DNS, c19Str(f[k]))
			k++
		}
		n = int(c19U(f[k]))
		k++
		for i := 0; i < n; i++ {
			pool := ipcfg.IANAPool{Network: c19Str(f[k]), PreferredTime: uint32(c19U(f[k+1])), ValidTime: uint32(c19U(f[k+2]))}
			no := int(c19U(f[k+3]))
			k += 4
			for j := 0; j < no; j++ {
				q := strings.SplitN(strings.SplitN(f[k], "/", 2)[0], ",", 3)
				pool.Options = append(pool.Options, ipcfg.DHCPv6Option{Code: uint16(c19U(q[0])), Encoding: string(c19Hex(q[1])), Value: string(c19Hex(q[2]))})
				k++
			}
			prof.IANAPools = append(prof.IANAPools, pool)
		}
		n = int(c19U(f[k]))
		k++
		for i := 0; i < n; i++ {
			prof.PDPools = append(prof.PDPools, ipcfg.PDPool{Network: c19Str(f[k]), PreferredTime: uint32(c19U(f[k+1])), ValidTime: uint32(c19U(f[k+2]))})
			k += 3
		}
		res := dhcp.ResolveV6(ctx, prof)
		if res == nil {
			return "noresolve"
		}
		p := &Provider{coreConfig: &config.Config{}, serverDUID: c19Hex(f[1]),
			ianaPools: map[string]*IANAPool{}, pdPools: map[string]*PDPool{},
			ianaLeases: map[string]*IANALease{}, pdLeases: map[string]*PDLease{},
			leasesByAddr: map[string]*IANALease{}, leasesByPfx: map[string]*PDLease{}}
		var ri *dhcp6msg.RelayInfo
		if f[3] != "nil" {
			q := strings.Split(f[3], ",")
			ri = &dhcp6msg.RelayInfo{HopCount: uint8(c19U(q[0])), LinkAddr: c19IP(q[1]), PeerAddr: c19IP(q[2]), InterfaceID: c19Hex(q[3])}
		}
		mk := func() *dhcp6msg.Packet {
			return &dhcp6msg.Packet{SessionID: "s1", Raw: c19Hex(f[2]), Resolved: res, RelayInfo: ri}
		}
		resp, err := p.HandlePacket(context.Background(), mk())
		if err != nil || resp == nil {
			return "noresp"
		}
		first := append([]byte(nil), resp.Raw...)
		// the same message again on the SAME provider (client retry: the already-reserved fast path for SOLICIT) must give the same answer
		retry := "same"
		resp2, err2 := p.HandlePacket(context.Background(), mk())
		if err2 != nil || resp2 == nil {
			retry = "noresp"
		} else if c19Show(resp2.Raw) != c19Show(first) {
			retry = c19Show(resp2.Raw)
		}
		inner := first
		if ri != nil {
			if u := dhcp6msg.UnwrapRelayReply(first); u != nil {
				inner = u.Raw
			} else {
				return c19Show(first) + " ; nounwrap ; retry=" + retry
			}
		}
		m, _ := dhcp6msg.ParseMessage(inner)
		return c19Show(first) + " ; " + c19Msg(m) + " ; retry=" + retry
	case "resp6":
		// resp6 type txid client server iana pd ndns dns.. nextras extras..
		p := &Provider{coreConfig: &config.Config{}, serverDUID: c19Hex(f[4])}
		req := &dhcp6msg.Message{}
		copy(req.TransactionID[:], c19Hex(f[2]))
		var ianaAddr net.IP
		var ianaIAID uint32
		var ianaPool *IANAPool
		if f[5] != "nil" {
			q := strings.Split(f[5], ",")
			ianaIAID = uint32(c19U(q[0]))
			ianaAddr = c19IP(q[1])
			ianaPool = &IANAPool{PreferredTime: uint32(c19U(q[2])), ValidTime: uint32(c19U(q[3]))}
		}
		var pdPrefix *net.IPNet
		var pdIAID uint32
		var pdPool *PDPool
		if f[6] != "nil" {
			q := strings.Split(f[6], ",")
			pdIAID = uint32(c19U(q[0]))
			pdPrefix = &net.IPNet{IP: c19IP(q[1]), Mask: net.CIDRMask(int(c19U(q[2])), 128)}
			pdPool = &PDPool{PreferredTime: uint32(c19U(q[3])), ValidTime: uint32(c19U(q[4]))}
		}
		nd := int(c19U(f[7]))
		var dns []net.IP
		for _, d := range f[8 : 8+nd] {
			dns = append(dns, c19IP(d))
		}
		var extras []dhcp.EncodedDHCPv6Option
		for _, t := range f[8+nd+1:] {
			q := strings.SplitN(t, ",", 2)
			extras = append(extras, dhcp.EncodedDHCPv6Option{Code: uint16(c19U(q[0])), Payload: c19Hex(q[1])})
		}
		b := p.buildResponse(req, dhcp6msg.MessageType(c19U(f[1])), c19Hex(f[3]), ianaAddr, ianaIAID, ianaPool, pdPrefix, pdIAID, pdPool, dns, extras)
		m, _ := dhcp6msg.ParseMessage(b)
		return c19Show(b) + " ; " + c19Msg(m)
	}
	return "badline"
}

func c19Guard(f []string) string {
	ch := make(chan string, 1)
	go func() { ch <- c19Case(f) }()
	select {
	case s := <-ch:
		return s
	case <-time.After(20 * time.Second):
		return "hang"
	}
}

func TestVerifC19(t *testing.T) {
	in, err := os.Open(os.Getenv("VERIF_CASES"))
	if err != nil {
		t.Fatal(err)
	}
	defer in.Close()
	out, err := os.Create(os.Getenv("VERIF_OUT"))
	if err != nil {
		t.Fatal(err)
	}
	defer out.Close()
	w := bufio.NewWriter(out)
	defer w.Flush()
	sc := bufio.NewScanner(in)
	sc.Buffer(make([]byte, 1<<20), 1<<28)
	for sc.Scan() {
		f := strings.Fields(sc.Text())
		if len(f) == 0 {
			continue
		}
		fmt.Fprintln(w, c19Guard(f))
	}
}
