//go:build verif

package pppoe

import (
	"net"
	"testing"

	"github.com/veesix-networks/osvbng/pkg/aaa"
	"github.com/veesix-networks/osvbng/pkg/component"
	"github.com/veesix-networks/osvbng/pkg/config"
	"github.com/veesix-networks/osvbng/pkg/config/subscriber"
	"github.com/veesix-networks/osvbng/pkg/events"
	"github.com/veesix-networks/osvbng/pkg/ifmgr"
	"github.com/veesix-networks/osvbng/pkg/logger"
	"github.com/veesix-networks/osvbng/pkg/ppp"
)

type c07Bus struct {
	aaaReqs int
	last    *events.AAARequestEvent
}

func (b *c07Bus) Publish(topic string, ev events.Event) {
	if topic == events.TopicAAARequest {
		b.aaaReqs++
		if r, ok := ev.Data.(*events.AAARequestEvent); ok {
			b.last = r
		}
	}
}
func (b *c07Bus) Subscribe(string, events.Handler) events.Subscription { return c07Sub{} }
func (b *c07Bus) SubscribeAll(events.Handler) events.Subscription      { return c07Sub{} }
func (b *c07Bus) Stats() events.Stats                                  { return events.Stats{} }
func (b *c07Bus) SetDebugTopics([]string)                              {}
func (b *c07Bus) DebugTopics() []string                                { return nil }
func (b *c07Bus) Close() error                                         { return nil }

type c07Sub struct{}

func (c07Sub) Unsubscribe() {}

type c07CfgMgr struct{ cfg *config.Config }

func (f *c07CfgMgr) GetRunning() (*config.Config, error) { return f.cfg, nil }
func (f *c07CfgMgr) GetStartup() (*config.Config, error) { return f.cfg, nil }
func (f *c07CfgMgr) LookupSubscriberGroup(svlan, cvlan uint16) (subscriber.GroupMatch, bool) {
	return subscriber.GroupMatch{}, false
}

func c07Session(phase ppp.Phase) (*SessionState, *c07Bus) {
	ifMgr := ifmgr.New()
	ifMgr.Add(&ifmgr.Interface{SwIfIndex: 10, SupSwIfIndex: 2, Name: "TenGigE0/0.100", Type: ifmgr.IfTypeSub, OuterVlanID: 100})
	ifMgr.Add(&ifmgr.Interface{SwIfIndex: 2, Name: "TenGigE0/0", Type: ifmgr.IfTypeHardware, MAC: []byte{0x52, 0x54, 0x00, 0x11, 0x22, 0x33}})
	bus := &c07Bus{}
	c := &Component{
		Base:     component.NewBase("pppoe-c07"),
		logger:   logger.NewTest(),
		eventBus: bus,
		ifMgr:    ifMgr,
		cfgMgr:   &c07CfgMgr{cfg: &config.Config{}},
	}
	s := &SessionState{
		component:    c,
		SessionID:    "s1",
		MAC:          net.HardwareAddr{0xaa, 0x42, 0xa1, 0x0a, 0x54, 0x97},
		OuterVLAN:    100,
		EncapIfIndex: 10,
		Phase:        phase,
	}
	s.initPPP()
	return s, bus
}

func c07Sess(entry string, n []uint64, f []string) string {
	data := c07Arg(f, 0)
	switch entry {
	case "sesspap": // sesspap <id> <data>: the session's own copy of the PAP request parser, in the authenticate phase
		s, bus := c07Session(ppp.PhaseAuthenticate)
		if err := s.handlePAPPacket(ppp.PAPAuthReq, uint8(c07Num(n, 0)), data); err != nil {
			return "err 9"
		}
		if bus.aaaReqs == 0 {
			return "ok 0"
		}
		return c07Ok("1", c07TB([]byte(s.Username)), c07TB([]byte(bus.last.Request.Attributes[aaa.AttrPassword])))
	case "sesschap": // sesschap <id> <data> <expected response>
		s, bus := c07Session(ppp.PhaseAuthenticate)
		if err := s.handleCHAPPacket(ppp.CHAPResponse, uint8(c07Num(n, 0)), data); err != nil {
			return "err 9"
		}
		if bus.aaaReqs == 0 {
			return "ok 0"
		}
		k := "1"
		if string(s.chapResponse) == string(c07Arg(f, 1)) {
			k = "2"
		}
		return c07Ok(k, c07TB([]byte(s.Username)))
	case "fzsess": // fzsess <proto>,<phase> <payload>: the whole receive path of a session, crash check only
		s, _ := c07Session(ppp.Phase(c07Num(n, 1)))
		defer s.lcp.FSM().Kill()
		defer s.ipcp.FSM().Kill()
		defer s.ipv6cp.FSM().Kill()
		defer s.stopCHAPRetryTimer()
		s.mu.Lock()
		defer s.mu.Unlock()
		s.dispatcher.HandleFrame(uint16(c07Num(n, 0)), data)
		return "nocrash"
	}
	return "badline"
}

func TestVerifC07(t *testing.T) { c07Run(t, c07Sess) }
