//go:build verif

package pppoe

import (
	"context"
	"fmt"
	"net"
	"os"
	"strings"
	"sync"
	"sync/atomic"
	"testing"
	"time"

	"github.com/google/gopacket/layers"
	"github.com/veesix-networks/osvbng/pkg/allocator"
	"github.com/veesix-networks/osvbng/pkg/config/ip"
	"github.com/veesix-networks/osvbng/pkg/dhcp"
	"github.com/veesix-networks/osvbng/pkg/dhcp6"
	"github.com/veesix-networks/osvbng/pkg/provider"

	"github.com/veesix-networks/osvbng/pkg/aaa"
	"github.com/veesix-networks/osvbng/pkg/component"
	"github.com/veesix-networks/osvbng/pkg/config"
	"github.com/veesix-networks/osvbng/pkg/config/subscriber"
	"github.com/veesix-networks/osvbng/pkg/dataplane"
	"github.com/veesix-networks/osvbng/pkg/events"
	"github.com/veesix-networks/osvbng/pkg/ifmgr"
	"github.com/veesix-networks/osvbng/pkg/logger"
	"github.com/veesix-networks/osvbng/pkg/models"
	"github.com/veesix-networks/osvbng/pkg/ppp"
	pppoepkt "github.com/veesix-networks/osvbng/pkg/pppoe"
	"github.com/veesix-networks/osvbng/pkg/svcgroup"
)

type c07Bus struct {
	mu      sync.Mutex
	aaaReqs int
	egress  int
	last    *events.AAARequestEvent
	sent    [][]byte // PPP payloads (protocol + packet) of the frames the session sent
}

func (b *c07Bus) egressCount() int {
	b.mu.Lock()
	defer b.mu.Unlock()
	return b.egress
}

func (b *c07Bus) Publish(topic string, ev events.Event) {
	b.mu.Lock()
	defer b.mu.Unlock()
	if topic == events.TopicEgress {
		b.egress++
		if e, ok := ev.Data.(*events.EgressEvent); ok && len(e.Packet.RawData) > 6 {
			b.sent = append(b.sent, append([]byte(nil), e.Packet.RawData[6:]...))
		}
	}
	if topic == events.TopicAAARequest {
		b.aaaReqs++
		if r, ok := ev.Data.(*events.AAARequestEvent); ok {
			b.last = r
		}
	}
}
func (b *c07Bus) Subscribe(string, events.Handler) events.Subscription { return c07Sub{} }
func (b *c07Bus) SubscribeAll(events.Handler) events.Subscription      { return c07Sub{} }
func (b *c07Bus) Stats() events.Stats                                  { return events.Stats{} }
func (b *c07Bus) SetDebugTopics([]string)                              {}
func (b *c07Bus) DebugTopics() []string                                { return nil }
func (b *c07Bus) Close() error                                         { return nil }

type c07Sub struct{}

func (c07Sub) Unsubscribe() {}

type c07CfgMgr struct{ cfg *config.Config }

func (f *c07CfgMgr) GetRunning() (*config.Config, error) { return f.cfg, nil }
func (f *c07CfgMgr) GetStartup() (*config.Config, error) { return f.cfg, nil }
func (f *c07CfgMgr) LookupSubscriberGroup(svlan, cvlan uint16) (subscriber.GroupMatch, bool) {
	return subscriber.GroupMatch{}, false
}

func c07Session(phase ppp.Phase) (*SessionState, *c07Bus) {
	c, bus := c07Component()
	return c07SessionOn(c, "s1", 0x97, phase), bus
}

func c07SessionOn(c *Component, id string, macLast byte, phase ppp.Phase) *SessionState {
	s := &SessionState{
		component:    c,
		SessionID:    id,
		MAC:          net.HardwareAddr{0xaa, 0x42, 0xa1, 0x0a, 0x54, macLast},
		OuterVLAN:    100,
		EncapIfIndex: 10,
		Phase:        phase,
	}
	s.initPPP()
	return s
}

func c07Component() (*Component, *c07Bus) {
	ifMgr := ifmgr.New()
	ifMgr.Add(&ifmgr.Interface{SwIfIndex: 10, SupSwIfIndex: 2, Name: "TenGigE0/0.100", Type: ifmgr.IfTypeSub, OuterVlanID: 100})
	ifMgr.Add(&ifmgr.Interface{SwIfIndex: 2, Name: "TenGigE0/0", Type: ifmgr.IfTypeHardware, MAC: []byte{0x52, 0x54, 0x00, 0x11, 0x22, 0x33}})
	bus := &c07Bus{}
	c := &Component{
		Base:     component.NewBase("pppoe-c07"),
		logger:   logger.NewTest(),
		eventBus: bus,
		ifMgr:    ifMgr,
		cfgMgr:   &c07CfgMgr{cfg: &config.Config{}},

		svcGroupResolver: svcgroup.New(),
	}
	return c, bus
}

// ---- backlog / wedge scenarios: bounded worker pools and hand-off queues on the receive path ----

const c07CallWatchdog = 3 * time.Second // generous: the calls take microseconds; reached only by a wedged handler

// c07GatedProvider is a DHCPv6 provider whose upstream does not answer until the harness opens the gate.
type c07GatedProvider struct {
	entered atomic.Int64
	gate    chan struct{}
}

func (p *c07GatedProvider) Info() provider.Info { return provider.Info{Name: "c07-gated"} }
func (p *c07GatedProvider) HandlePacket(_ context.Context, pkt *dhcp6.Packet) (*dhcp6.Packet, error) {
	p.entered.Add(1)
	<-p.gate
	return &dhcp6.Packet{Raw: []byte{byte(dhcp6.MsgTypeReply), pkt.Raw[1], pkt.Raw[2], pkt.Raw[3]}}, nil
}
func (p *c07GatedProvider) ReleaseLease([]byte) {}

func c07Deliver(s *SessionState, proto uint16, payload []byte) bool {
	ok := c07Returns(c07CallWatchdog, func() {
		_ = s.handlePPP(&layers.PPP{PPPType: layers.PPPType(proto), BaseLayer: layers.BaseLayer{Payload: payload}})
	})
	if !ok {
		c07Hangs++
	}
	return ok
}

// c07EchoAnswered: the session still answers an LCP Echo-Request (one more egress frame).
func c07EchoAnswered(s *SessionState, bus *c07Bus) bool {
	echo := []byte{ppp.EchoReq, 1, 0, 8, 1, 2, 3, 4}
	before := bus.egressCount()
	if !c07Returns(c07CallWatchdog, func() {
		_ = s.handlePPP(&layers.PPP{PPPType: layers.PPPType(ppp.ProtoLCP), BaseLayer: layers.BaseLayer{Payload: echo}})
	}) {
		return false
	}
	return bus.egressCount() == before+1
}

func c07OpenV6Session(c *Component, k int) *SessionState {
	s := c07SessionOn(c, "s"+c07U(uint64(k)), byte(0x10+k), ppp.PhaseOpen)
	s.AllocCtx = &allocator.Context{IPv6ProfileName: "v6"}
	s.lcp.FSM().Restore()
	s.ipv6cp.FSM().Restore()
	s.ipv6cpOpen = true
	return s
}

// bkdhcp6 <N>,<sessions>,<msgtype>: N well-formed in-band DHCPv6 messages (PPP 0x0057 / IPv6 / UDP 546->547) on open
// sessions while the DHCPv6 provider does not answer.  Prints: returned accepted echo drained.
func c07BacklogDHCPv6(n []uint64) string {
	N, S, mt := int(c07Num(n, 0)), int(c07Num(n, 1)), byte(c07Num(n, 2))
	if S < 1 {
		S = 1
	}
	c, bus := c07Component()
	cfg, _ := c.cfgMgr.GetRunning()
	cfg.IPv6Profiles = map[string]*ip.IPv6Profile{"v6": {DHCPv6: &ip.IPv6DHCPv6Options{Mode: "relay"}}}
	gp := &c07GatedProvider{gate: make(chan struct{})}
	c.dhcp6Providers = map[string]dhcp6.DHCPProvider{"relay": gp}
	const workers = 16 // New() in component.go
	c.dhcp6Sem = make(chan struct{}, workers)
	var sess []*SessionState
	for k := 0; k < S; k++ {
		sess = append(sess, c07OpenV6Session(c, k))
	}
	defer func() {
		for _, s := range sess {
			s.lcp.FSM().Kill()
			s.ipcp.FSM().Kill()
			s.ipv6cp.FSM().Kill()
		}
	}()
	returned := 0
	for i := 0; i < N; i++ {
		s := sess[i%S]
		duid := []byte{0x00, 0x03, 0x00, 0x01, 0xaa, 0x42, 0xa1, 0x0a, 0x54, byte(0x10 + i%S)}
		req := []byte{mt, 0x12, byte(i >> 8), byte(i), 0x00, byte(dhcp6.OptClientID), 0x00, byte(len(duid))}
		req = append(req, duid...)
		frame := dhcp.BuildIPv6UDPFrame(net.ParseIP("fe80::a842:a1ff:fe0a:5497"), net.ParseIP("ff02::1:2"), 546, 547, req)
		if !c07Deliver(s, ppp.ProtoIPv6, frame) {
			break
		}
		returned++
	}
	// let the dispatched workers reach the provider
	deadline := time.Now().Add(c07CallWatchdog)
	for int(gp.entered.Load()) != len(c.dhcp6Sem) && time.Now().Before(deadline) {
		time.Sleep(2 * time.Millisecond)
	}
	accepted := int(gp.entered.Load())
	echo := c07EchoAnswered(sess[0], bus)
	before := bus.egressCount()
	close(gp.gate)
	deadline = time.Now().Add(2 * c07CallWatchdog)
	for (len(c.dhcp6Sem) != 0 || bus.egressCount() != before+accepted) && time.Now().Before(deadline) {
		time.Sleep(2 * time.Millisecond)
	}
	drained := len(c.dhcp6Sem) == 0 && bus.egressCount() == before+accepted
	return c07Ok(c07U(uint64(returned)), c07U(uint64(accepted)), c07Bool(echo), c07Bool(drained))
}

// lastSent returns the most recent packet with the given protocol and code the session sent (code,id,len,data).
func (b *c07Bus) lastSent(proto uint16, code byte) []byte {
	b.mu.Lock()
	defer b.mu.Unlock()
	for i := len(b.sent) - 1; i >= 0; i-- {
		f := b.sent[i]
		if len(f) >= 6 && uint16(f[0])<<8|uint16(f[1]) == proto && f[2] == code {
			return f[2:]
		}
	}
	return nil
}

// fzseq <start phase> <step> ...: ONE session driven through a sequence of steps, every call under the watchdog; crash / hang
// observables only.  A step is a byte string whose first byte is its kind:
//
//	00 PP PP <payload>   deliver the PPP frame (protocol PPPP) through handlePPP
//	01 PP PP             Configure-Ack for the last Configure-Request the session sent on protocol PPPP
//	02 PP PP             Configure-Nak/Rej echo of it (code 03) — a peer that refuses everything
//	03 <value+name>      CHAP Response to the last Challenge the session sent (value-size 16)
//	04 PH                the host moves the session to phase PH (AAA / dataplane side of the state machine)
//	05 AL                AAA verdict (AL != 0 accept) through onAuthResult
//	06                   start the NCP automata (what startNCP does after allocation)
//	07                   terminate()
func c07Sequence(n []uint64, f []string) string {
	s, bus := c07Session(ppp.Phase(c07Num(n, 0)))
	s.Attributes = map[string]string{}
	defer s.lcp.FSM().Kill()
	defer s.ipcp.FSM().Kill()
	defer s.ipv6cp.FSM().Kill()
	defer func() { s.mu.Lock(); s.stopCHAPRetryTimer(); s.mu.Unlock() }()
	s.mu.Lock()
	s.lcp.FSM().Open()
	s.lcp.FSM().Up()
	s.mu.Unlock()
	for k := range f {
		st := c07Arg(f, k)
		if len(st) == 0 {
			continue
		}
		var proto uint16
		if len(st) >= 3 {
			proto = uint16(st[1])<<8 | uint16(st[2])
		}
		ok := true
		switch st[0] {
		case 0:
			if len(st) >= 3 {
				ok = c07Deliver(s, proto, append(make([]byte, 0, len(st)-3), st[3:]...))
			}
		case 1, 2:
			if req := bus.lastSent(proto, ppp.ConfReq); req != nil {
				ack := append(make([]byte, 0, len(req)), req...)
				ack[0] = ppp.ConfAck
				if st[0] == 2 {
					ack[0] = ppp.ConfNak
				}
				ok = c07Deliver(s, proto, ack)
			}
		case 3:
			if ch := bus.lastSent(ppp.ProtoCHAP, ppp.CHAPChallenge); ch != nil {
				body := append([]byte{16}, st[1:]...)
				fr := append([]byte{ppp.CHAPResponse, ch[1], byte((4 + len(body)) >> 8), byte(4 + len(body))}, body...)
				ok = c07Deliver(s, ppp.ProtoCHAP, append(make([]byte, 0, len(fr)), fr...))
			}
		case 4:
			if len(st) >= 2 {
				ok = c07Returns(c07CallWatchdog, func() { s.mu.Lock(); defer s.mu.Unlock(); s.Phase = ppp.Phase(st[1]) })
			}
		case 5:
			ok = c07Returns(c07CallWatchdog, func() {
				s.mu.Lock()
				defer s.mu.Unlock()
				s.onAuthResult(len(st) >= 2 && st[1] != 0, map[string]interface{}{})
			})
		case 6:
			ok = c07Returns(c07CallWatchdog, func() {
				s.mu.Lock()
				defer s.mu.Unlock()
				s.ipcp.FSM().Open()
				s.ipcp.FSM().Up()
				s.ipv6cp.FSM().Open()
				s.ipv6cp.FSM().Up()
			})
		case 7:
			ok = c07Returns(c07CallWatchdog, func() { s.terminate() })
		}
		if !ok {
			return "hang"
		}
		// lock discipline: when a handler has returned, the session lock and the three FSM locks are free again
		if st[0] != 7 {
			if !s.mu.TryLock() {
				return "lockleak-session"
			}
			s.mu.Unlock()
		}
		if !c07Returns(c07CallWatchdog, func() { s.lcp.FSM().State(); s.ipcp.FSM().State(); s.ipv6cp.FSM().State() }) {
			return "lockleak-fsm"
		}
		if os.Getenv("VERIF_C07_DEBUG") != "" {
			fmt.Fprintf(os.Stderr, "c07seq step %d kind %d -> phase %v lcp %v ipcp %v ipv6cp %v aaa %d\n", k, st[0], s.Phase,
				s.lcp.FSM().State(), s.ipcp.FSM().State(), s.ipv6cp.FSM().State(), bus.aaaReqs)
		}
	}
	return "nocrash"
}

// bkevd6 <cap> <events>: an arbitrary history of 'A' (a DHCPv6 Request reaches the receive handler) and 'F' (the provider
// answers one held request) against a worker pool of <cap> slots; after every step the real semaphore occupancy
// len(c.dhcp6Sem) and the outcome (1 dispatched, 2 dropped, 3 handler did not return, 4 finished, 5 nothing to finish).
func c07EventsDHCPv6(n []uint64, events []byte) string {
	c, bus := c07Component()
	cfg, _ := c.cfgMgr.GetRunning()
	cfg.IPv6Profiles = map[string]*ip.IPv6Profile{"v6": {DHCPv6: &ip.IPv6DHCPv6Options{Mode: "relay"}}}
	gp := &c07GatedProvider{gate: make(chan struct{})}
	c.dhcp6Providers = map[string]dhcp6.DHCPProvider{"relay": gp}
	c.dhcp6Sem = make(chan struct{}, int(c07Num(n, 0)))
	s := c07OpenV6Session(c, 0)
	defer func() { s.lcp.FSM().Kill(); s.ipcp.FSM().Kill(); s.ipv6cp.FSM().Kill() }()
	defer close(gp.gate)
	_ = bus
	duid := []byte{0x00, 0x03, 0x00, 0x01, 0xaa, 0x42, 0xa1, 0x0a, 0x54, 0x10}
	var toks []string
	for i, e := range events {
		before := len(c.dhcp6Sem)
		out := "5"
		if e == 'F' {
			if before > 0 {
				select {
				case gp.gate <- struct{}{}:
					deadline := time.Now().Add(c07CallWatchdog)
					for len(c.dhcp6Sem) != before-1 && time.Now().Before(deadline) {
						time.Sleep(time.Millisecond)
					}
					out = "4"
				case <-time.After(c07CallWatchdog):
					out = "9"
				}
			}
		} else {
			req := []byte{byte(dhcp6.MsgTypeRequest), 0x12, byte(i >> 8), byte(i), 0x00, byte(dhcp6.OptClientID), 0x00, byte(len(duid))}
			req = append(req, duid...)
			frame := dhcp.BuildIPv6UDPFrame(net.ParseIP("fe80::a842:a1ff:fe0a:5497"), net.ParseIP("ff02::1:2"), 546, 547, req)
			if !c07Deliver(s, ppp.ProtoIPv6, frame) {
				toks = append(toks, c07U(uint64(len(c.dhcp6Sem))), "3")
				break
			}
			out = "2"
			if len(c.dhcp6Sem) == before+1 {
				out = "1"
			}
		}
		toks = append(toks, c07U(uint64(len(c.dhcp6Sem))), out)
	}
	if len(toks) == 0 {
		return "ok"
	}
	return c07Ok(toks...)
}

// bkevra <K> <events>: 'A' = IPv6CP layer-up callback under the session lock, 'F' = the RA emitter takes one kick.
func c07EventsRAKick(n []uint64, events []byte) string {
	c, _ := c07Component()
	c.raKicks = make(chan string, int(c07Num(n, 0)))
	s := c07OpenV6Session(c, 0)
	defer func() { s.lcp.FSM().Kill(); s.ipcp.FSM().Kill(); s.ipv6cp.FSM().Kill() }()
	var toks []string
	for _, e := range events {
		before := len(c.raKicks)
		out := "5"
		if e == 'F' {
			if before > 0 {
				<-c.raKicks
				out = "4"
			}
		} else {
			if !c07Returns(c07CallWatchdog, func() { s.mu.Lock(); defer s.mu.Unlock(); s.onIPv6CPUp() }) {
				c07Hangs++
				toks = append(toks, c07U(uint64(len(c.raKicks))), "3")
				break
			}
			out = "2"
			if len(c.raKicks) == before+1 {
				out = "1"
			}
		}
		toks = append(toks, c07U(uint64(len(c.raKicks))), out)
	}
	if len(toks) == 0 {
		return "ok"
	}
	return c07Ok(toks...)
}

// bkpadr <free ids> <events>: PPPoE discovery with the session-id space (65535 ids) filled except <free ids>.
// Events: 'R' a well-formed PADR from a new host (valid AC-Cookie), 'F' one id becomes free, 'T' PADT from the owner of the
// session created last.  Every handler call runs under the watchdog; after every step: outcome (1 session created, 2 refused
// for lack of ids, 3 did not return, 4 freed / terminated, 5 nothing to do, 9 other error) and the number of free ids, and the
// discovery locks (sidMu, sessionMu) must be free again.
func c07DiscoveryExhaustion(n []uint64, events []byte) string {
	cfg := &config.Config{SubscriberGroups: &subscriber.SubscriberGroupsConfig{
		Groups: map[string]*subscriber.SubscriberGroup{"grp": {VLANs: []subscriber.VLANRange{{SVLAN: "100"}}}}}}
	ifMgr := ifmgr.New()
	ifMgr.Add(&ifmgr.Interface{SwIfIndex: 10, SupSwIfIndex: 2, Name: "TenGigE0/0.100", Type: ifmgr.IfTypeSub, OuterVlanID: 100})
	ifMgr.Add(&ifmgr.Interface{SwIfIndex: 2, Name: "TenGigE0/0", Type: ifmgr.IfTypeHardware, MAC: []byte{0x52, 0x54, 0x00, 0x11, 0x22, 0x33}})
	cm, err := pppoepkt.NewCookieManager(time.Minute)
	if err != nil {
		return "ok NOCOOKIE"
	}
	c := &Component{
		Base: component.NewBase("pppoe-c07d"), logger: logger.NewTest(), eventBus: &c07Bus{}, ifMgr: ifMgr,
		cfgMgr: &c07GroupCfg{cfg: cfg}, acName: "osvbng", cookieMgr: cm, svcGroupResolver: svcgroup.New(),
		sessions: make(map[string]*SessionState), sidIndex: make(map[uint16]*SessionState),
		sessionIDIndex: make(map[string]*SessionState), acctSessionIndex: make(map[string]*SessionState),
		usernameIndex: make(map[string]*SessionState), ipv4Index: make(map[string]*SessionState),
		ipv6Index: make(map[string]*SessionState), nextSessionID: 1,
	}
	filler := &SessionState{component: c, SessionID: "filler", MAC: net.HardwareAddr{2, 0, 0, 0, 0, 1}, OuterVLAN: 100}
	free := int(c07Num(n, 0))
	for sid := 1; sid <= 0xFFFF-free; sid++ {
		c.sidIndex[uint16(sid)] = filler
	}
	nextFiller := 1
	var mine []*SessionState
	defer func() {
		for _, s := range mine {
			c07Returns(c07CallWatchdog, func() { s.terminate() })
		}
	}()
	var toks []string
	for k, e := range events {
		out := "5"
		switch e {
		case 'R':
			mac := net.HardwareAddr{0xaa, 0, 0, 0, byte(k >> 8), byte(k)}
			cookie := c.cookieMgr.Generate(mac, 100, 0)
			tags := pppoepkt.NewTagBuilder().AddServiceName("").AddACCookie(cookie).AddHostUniq([]byte{1, 2, 3, 4}).Build()
			pkt := &dataplane.ParsedPacket{Protocol: models.ProtocolPPPoEDiscovery, SwIfIndex: 10, MAC: mac, OuterVLAN: 100,
				PPPoE: &layers.PPPoE{Version: 1, Type: 1, Code: layers.PPPoECodePADR, Length: uint16(len(tags)),
					BaseLayer: layers.BaseLayer{Payload: tags}}}
			var herr error
			if !c07Returns(c07CallWatchdog, func() { herr = c.handlePacket(pkt) }) {
				c07Hangs++
				toks = append(toks, "3", "0")
				return c07Ok(toks...)
			}
			switch {
			case herr == nil:
				out = "1"
				c.sessionMu.RLock()
				for _, s := range c.sidIndex {
					if s != filler && s.MAC.String() == mac.String() {
						mine = append(mine, s)
					}
				}
				c.sessionMu.RUnlock()
			case strings.Contains(herr.Error(), "no free PPPoE session id"):
				out = "2"
			default:
				out = "9"
			}
		case 'T':
			if len(mine) > 0 {
				s := mine[len(mine)-1]
				mine = mine[:len(mine)-1]
				pkt := &dataplane.ParsedPacket{Protocol: models.ProtocolPPPoEDiscovery, SwIfIndex: 10, MAC: s.MAC, OuterVLAN: 100,
					PPPoE: &layers.PPPoE{Version: 1, Type: 1, Code: layers.PPPoECodePADT, SessionId: s.PPPoESessionID}}
				if !c07Returns(c07CallWatchdog, func() { _ = c.handlePacket(pkt) }) {
					c07Hangs++
					toks = append(toks, "3", "0")
					return c07Ok(toks...)
				}
				out = "4"
			}
		default: // 'F'
			c.sessionMu.Lock()
			for ; nextFiller <= 0xFFFF; nextFiller++ {
				if c.sidIndex[uint16(nextFiller)] == filler {
					delete(c.sidIndex, uint16(nextFiller))
					break
				}
			}
			c.sessionMu.Unlock()
			out = "4"
		}
		if !c.sidMu.TryLock() {
			return "lockleak-sidMu"
		}
		c.sidMu.Unlock()
		if !c.sessionMu.TryLock() {
			return "lockleak-sessionMu"
		}
		nfree := 0xFFFF - len(c.sidIndex)
		c.sessionMu.Unlock()
		toks = append(toks, out, c07U(uint64(nfree)))
	}
	if len(toks) == 0 {
		return "ok"
	}
	return c07Ok(toks...)
}

type c07GroupCfg struct{ cfg *config.Config }

func (f *c07GroupCfg) GetRunning() (*config.Config, error) { return f.cfg, nil }
func (f *c07GroupCfg) GetStartup() (*config.Config, error) { return f.cfg, nil }
func (f *c07GroupCfg) LookupSubscriberGroup(svlan, cvlan uint16) (subscriber.GroupMatch, bool) {
	return subscriber.BuildMatchIndex(f.cfg.SubscriberGroups).Lookup(svlan, cvlan)
}

// bkrakick <N>,<K>: N IPv6CP-up events (the FSM's layer-up callback, run under the session lock) while nobody
// drains the K-slot RA kick queue.
func c07BacklogRAKick(n []uint64) string {
	N, K := int(c07Num(n, 0)), int(c07Num(n, 1))
	c, bus := c07Component()
	c.raKicks = make(chan string, K)
	s := c07OpenV6Session(c, 0)
	defer func() { s.lcp.FSM().Kill(); s.ipcp.FSM().Kill(); s.ipv6cp.FSM().Kill() }()
	returned := 0
	for i := 0; i < N; i++ {
		if !c07Returns(c07CallWatchdog, func() { s.mu.Lock(); defer s.mu.Unlock(); s.onIPv6CPUp() }) {
			c07Hangs++
			break
		}
		returned++
	}
	accepted := len(c.raKicks)
	echo := c07EchoAnswered(s, bus)
	for k := 0; k < accepted; k++ {
		<-c.raKicks
	}
	return c07Ok(c07U(uint64(returned)), c07U(uint64(accepted)), c07Bool(echo), c07Bool(len(c.raKicks) == 0))
}

func c07Sess(entry string, n []uint64, f []string) string {
	data := c07Arg(f, 0)
	switch entry {
	case "sesspap": // sesspap <id> <data>: the session's own copy of the PAP request parser, in the authenticate phase
		s, bus := c07Session(ppp.PhaseAuthenticate)
		if err := s.handlePAPPacket(ppp.PAPAuthReq, uint8(c07Num(n, 0)), data); err != nil {
			return "err"
		}
		if bus.aaaReqs == 0 {
			return "ok 0"
		}
		return c07Ok("1", c07TB([]byte(s.Username)), c07TB([]byte(bus.last.Request.Attributes[aaa.AttrPassword])))
	case "sesschap": // sesschap <id> <data> <expected response>
		s, bus := c07Session(ppp.PhaseAuthenticate)
		if err := s.handleCHAPPacket(ppp.CHAPResponse, uint8(c07Num(n, 0)), data); err != nil {
			return "err"
		}
		if bus.aaaReqs == 0 {
			return "ok 0"
		}
		k := "1"
		if string(s.chapResponse) == string(c07Arg(f, 1)) {
			k = "2"
		}
		return c07Ok(k, c07TB([]byte(s.Username)))
	case "fzseq":
		return c07Sequence(n, f)
	case "bkpadr":
		return c07DiscoveryExhaustion(n, data)
	case "bkevd6":
		return c07EventsDHCPv6(n, data)
	case "bkevra":
		return c07EventsRAKick(n, data)
	case "bkdhcp6":
		return c07BacklogDHCPv6(n)
	case "bkrakick":
		return c07BacklogRAKick(n)
	case "fzsess": // fzsess <proto>,<phase> <payload>: the whole receive path of a session, crash check only
		var s *SessionState
		if c07Num(n, 1) == 9 { // an open session with IPv6CP Opened: 0x0057 frames reach handleIPv6Packet
			c, _ := c07Component()
			s = c07OpenV6Session(c, 0)
		} else {
			s, _ = c07Session(ppp.Phase(c07Num(n, 1)))
		}
		defer s.lcp.FSM().Kill()
		defer s.ipcp.FSM().Kill()
		defer s.ipv6cp.FSM().Kill()
		defer s.stopCHAPRetryTimer()
		s.mu.Lock()
		defer s.mu.Unlock()
		s.dispatcher.HandleFrame(uint16(c07Num(n, 0)), data)
		return "nocrash"
	}
	return "badline"
}

func TestVerifC07(t *testing.T) { c07Run(t, c07Sess) }
