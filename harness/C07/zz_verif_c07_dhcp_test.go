//go:build verif

package dhcp

import (
	"sort"
	"strings"
	"testing"
)

func c07DHCP(entry string, n []uint64, f []string) string {
	data := c07Arg(f, 0)
	switch entry {
	case "d4parse":
		p, err := Parse(data)
		if err != nil {
			if strings.HasPrefix(err.Error(), "packet too short") {
				return "err"
			}
			if strings.HasPrefix(err.Error(), "invalid magic") {
				return "err"
			}
			return "err"
		}
		toks := []string{c07U(uint64(p.Op)), c07U(uint64(p.HType)), c07U(uint64(p.HLen)), c07U(uint64(p.Hops)),
			c07U(uint64(p.XID)), c07U(uint64(p.Secs)), c07U(uint64(p.Flags)), c07TB(p.CIAddr), c07TB(p.YIAddr),
			c07TB(p.SIAddr), c07TB(p.GIAddr), c07TB(p.CHAddr)}
		var codes []int
		for c := range p.Options {
			codes = append(codes, int(c))
		}
		sort.Ints(codes)
		toks = append(toks, c07U(uint64(len(codes))))
		for _, c := range codes {
			toks = append(toks, c07U(uint64(c)), c07TB(p.Options[uint8(c)]))
		}
		toks = append(toks, c07TBN(p.CircuitID), c07TBN(p.RemoteID))
		return c07Ok(toks...)
	case "sub82p":
		p := &Packet{}
		p.parseOption82(data)
		return c07Ok(c07TBN(p.CircuitID), c07TBN(p.RemoteID))
	}
	return "badline"
}

func TestVerifC07(t *testing.T) { c07Run(t, c07DHCP) }
