//go:build verif

package local

import (
	"net"
	"testing"

	"github.com/veesix-networks/osvbng/pkg/dhcp4"
)

// bldd4 <xid,msgtype,code...> <ciaddr> <yiaddr> <siaddr> <chaddr> <value>...:
// buildDHCPv4Reply + optionWriter.addByte, output fed to dhcp4.ParseMessage
func c07Local(entry string, n []uint64, f []string) string {
	switch entry {
	case "bldd4":
		req := &dhcp4.Message{XID: uint32(c07Num(n, 0)), ClientIP: net.IP(c07Arg(f, 0)), ClientHWAddr: net.HardwareAddr(c07Arg(f, 3))}
		out := buildDHCPv4Reply(req, net.IP(c07Arg(f, 1)), net.IP(c07Arg(f, 2)), dhcp4.MessageType(c07Num(n, 1)), func(w *optionWriter) {
			for i := 2; i < len(n); i++ {
				w.addByte(uint8(n[i]), c07Arg(f, 4+i-2))
			}
		})
		out = append(make([]byte, 0, len(out)), out...)
		m, err := dhcp4.ParseMessage(out)
		if err != nil {
			return "err"
		}
		o := m.Options
		toks := []string{c07TB(out), c07U(uint64(m.Op)), c07U(uint64(m.HType)), c07U(uint64(m.HLen)), c07U(uint64(m.Hops)),
			c07U(uint64(m.XID)), c07U(uint64(m.Secs)), c07U(uint64(m.Flags)), c07TB(m.ClientIP), c07TB(m.YourIP),
			c07TB(m.ServerIP), c07TB(m.GatewayIP), c07TB(m.ClientHWAddr), c07TB(m.ServerName[:]), c07TB(m.BootFileName[:]),
			c07U(uint64(o.MessageType)), c07TBN(o.ServerID), c07TBN(o.RequestedIP), c07TB([]byte(o.Hostname)),
			c07TBN(o.ClientID), c07U(uint64(o.LeaseTime)), c07TBN(o.SubnetMask), c07TBN(o.Router), c07U(uint64(len(o.DNS)))}
		for _, d := range o.DNS {
			toks = append(toks, c07TB(d))
		}
		toks = append(toks, c07TBN(o.Option82))
		return c07Ok(toks...)
	}
	return "badline"
}

func TestVerifC07(t *testing.T) { c07Run(t, c07Local) }
