//go:build verif

package dhcp6

import (
	"net"
	"testing"
)

func c07IA(present bool, iaid, t1, t2 uint32, addr []byte, plen uint8, pref, valid uint32) []string {
	if !present {
		return []string{"nil"}
	}
	return []string{c07U(uint64(iaid)), c07U(uint64(t1)), c07U(uint64(t2)), c07TBN(addr), c07U(uint64(plen)),
		c07U(uint64(pref)), c07U(uint64(valid))}
}

func c07Opts6(o Options) []string {
	toks := []string{c07TBN(o.ClientID), c07TBN(o.ServerID)}
	if o.IANA != nil {
		toks = append(toks, c07IA(true, o.IANA.IAID, o.IANA.T1, o.IANA.T2, o.IANA.Address, 0, o.IANA.PreferredTime, o.IANA.ValidTime)...)
	} else {
		toks = append(toks, "nil")
	}
	if o.IAPD != nil {
		toks = append(toks, c07IA(true, o.IAPD.IAID, o.IAPD.T1, o.IAPD.T2, o.IAPD.Prefix, o.IAPD.PrefixLen, o.IAPD.PreferredTime, o.IAPD.ValidTime)...)
	} else {
		toks = append(toks, "nil")
	}
	toks = append(toks, c07U(uint64(len(o.DNS))))
	for _, d := range o.DNS {
		toks = append(toks, c07TB(d))
	}
	toks = append(toks, c07TBN(o.InterfaceID), c07TBN(o.RemoteID), c07TBN(o.ClientLinkLayerAddr), c07Bool(o.RapidCommit))
	if o.StatusCode != nil {
		toks = append(toks, c07U(uint64(o.StatusCode.Code)), c07TB([]byte(o.StatusCode.Message)))
	} else {
		toks = append(toks, "nil")
	}
	return toks
}

func c07Msg6(m *Message) []string {
	if m == nil {
		return []string{"nil"}
	}
	return append([]string{c07U(uint64(m.MsgType)), c07TB(m.TransactionID[:])}, c07Opts6(m.Options)...)
}

func c07DHCP6(entry string, n []uint64, f []string) string {
	data := c07Arg(f, 0)
	switch entry {
	case "d6msg":
		m, err := ParseMessage(data)
		if err != nil {
			return "err"
		}
		return c07Ok(c07Msg6(m)...)
	case "bldd6": // Response.Serialize fed to ParseMessage; argument layout: see run_build entry 84 in RoundTrip.v
		r := &Response{MsgType: MessageType(c07Num(n, 0)), ClientID: c07Arg(f, 1), ServerID: c07Arg(f, 2)}
		copy(r.TransactionID[:], c07Arg(f, 0))
		if c07Num(n, 1) != 0 {
			r.IANA = &IANAOption{IAID: uint32(c07Num(n, 2)), T1: uint32(c07Num(n, 3)), T2: uint32(c07Num(n, 4)), Address: net.IP(c07Arg(f, 3)),
				PreferredTime: uint32(c07Num(n, 5)), ValidTime: uint32(c07Num(n, 6))}
		}
		if c07Num(n, 7) != 0 {
			r.IAPD = &IAPDOption{IAID: uint32(c07Num(n, 8)), T1: uint32(c07Num(n, 9)), T2: uint32(c07Num(n, 10)), Prefix: net.IP(c07Arg(f, 4)),
				PreferredTime: uint32(c07Num(n, 11)), ValidTime: uint32(c07Num(n, 12)), PrefixLen: uint8(c07Num(n, 13))}
		}
		if c07Num(n, 14) != 0 {
			r.StatusCode = &StatusCodeOption{Code: uint16(c07Num(n, 15)), Message: string(c07Arg(f, 5))}
		}
		nd := int(c07Num(n, 16))
		for i := 0; i < nd; i++ {
			r.DNS = append(r.DNS, net.IP(c07Arg(f, 6+i)))
		}
		for i := 17; i < len(n); i++ {
			r.Extras = append(r.Extras, ExtraOption{Code: uint16(n[i]), Data: c07Arg(f, 6+nd+i-17)})
		}
		out := r.Serialize()
		out = append(make([]byte, 0, len(out)), out...)
		m, err := ParseMessage(out)
		if err != nil {
			return "err"
		}
		return c07Ok(append([]string{c07TB(out)}, c07Msg6(m)...)...)
	case "d6relay":
		m, ri := UnwrapRelay(data)
		toks := c07Msg6(m)
		if ri == nil {
			toks = append(toks, "nil")
		} else {
			toks = append(toks, c07U(uint64(ri.HopCount)), c07TB(ri.LinkAddr), c07TB(ri.PeerAddr), c07TBN(ri.InterfaceID),
				c07TBN(ri.RemoteID), c07TBN(ri.ClientLinkLayerAddr))
		}
		return c07Ok(toks...)
	case "d6reply":
		return c07Ok(c07Msg6(UnwrapRelayReply(data))...)
	}
	return "badline"
}

func TestVerifC07(t *testing.T) { c07Run(t, c07DHCP6) }
