//go:build verif

// Code generated from harness/C07/common.go.tmpl by harness/C07/gen.sh; DO NOT EDIT.
// Shared plumbing of the C07 harnesses: case reader, token printers, per-case recover() and watchdog.

package dhcp6

import (
	"bufio"
	"encoding/hex"
	"fmt"
	"os"
	"runtime/debug"
	"strconv"
	"strings"
	"sync/atomic"
	"testing"
	"time"
)

// c07Hex decodes a hex token ("-" = empty) into a slice with len == cap, so that any slice
// expression beyond the data panics instead of reading spare capacity.
func c07Hex(tok string) []byte {
	if tok == "-" {
		return make([]byte, 0)
	}
	raw, err := hex.DecodeString(tok)
	if err != nil {
		panic("c07: bad hex in case file")
	}
	b := make([]byte, len(raw))
	copy(b, raw)
	return b
}

func c07TB(b []byte) string {
	if len(b) == 0 {
		return "-"
	}
	return hex.EncodeToString(b)
}

// c07TBN prints "nil" for a nil slice.
func c07TBN(b []byte) string {
	if b == nil {
		return "nil"
	}
	return c07TB(b)
}

func c07Bool(b bool) string {
	if b {
		return "1"
	}
	return "0"
}

func c07Nums(tok string) []uint64 {
	if tok == "-" {
		return nil
	}
	var out []uint64
	for _, p := range strings.Split(tok, ",") {
		n, _ := strconv.ParseUint(p, 10, 64)
		out = append(out, n)
	}
	return out
}

func c07Num(n []uint64, k int) uint64 {
	if k < len(n) {
		return n[k]
	}
	return 0
}

func c07Arg(f []string, k int) []byte {
	if k < len(f) {
		return c07Hex(f[k])
	}
	return make([]byte, 0)
}

var c07Hangs int

// set when a call made through c07Returns panicked; the enclosing case is then reported as "panic"
var c07PanicSeen atomic.Bool

// c07Guard runs one case under recover() and a watchdog.  A hung call cannot be killed, so after three
// hangs the remaining cases are not run (each would cost the full watchdog time on a busy CPU).
func c07Guard(fn func() string) string { return c07GuardT(5*time.Second, fn) }

// c07Returns reports whether fn returns within d (used for single handler calls inside a scenario).
func c07Returns(d time.Duration, fn func()) bool {
	done := make(chan struct{})
	go func() {
		defer close(done)
		defer func() {
			if r := recover(); r != nil {
				c07PanicSeen.Store(true)
				if os.Getenv("VERIF_C07_DEBUG") != "" {
					fmt.Fprintf(os.Stderr, "c07 panic: %v\n%s\n", r, debug.Stack())
				}
			}
		}()
		fn()
	}()
	tm := time.NewTimer(d)
	defer tm.Stop()
	select {
	case <-done:
		return true
	case <-tm.C:
		return false
	}
}

func c07GuardT(d time.Duration, fn func() string) string {
	if c07Hangs >= 3 {
		return "skipped-after-3-hangs"
	}
	ch := make(chan string, 1)
	c07PanicSeen.Store(false)
	go func() {
		defer func() {
			if r := recover(); r != nil {
				ch <- "panic"
			}
		}()
		r := fn()
		if c07PanicSeen.Load() {
			r = "panic"
		}
		ch <- r
	}()
	tm := time.NewTimer(d)
	defer tm.Stop()
	select {
	case s := <-ch:
		return s
	case <-tm.C:
		c07Hangs++
		return "hang"
	}
}

// c07Run reads $VERIF_CASES, calls handle(entry, nums, fields-after-nums) per line and writes $VERIF_OUT.
func c07Run(t *testing.T, handle func(entry string, n []uint64, f []string) string) {
	in, err := os.Open(os.Getenv("VERIF_CASES"))
	if err != nil {
		t.Fatal(err)
	}
	defer in.Close()
	out, err := os.Create(os.Getenv("VERIF_OUT"))
	if err != nil {
		t.Fatal(err)
	}
	defer out.Close()
	w := bufio.NewWriterSize(out, 1<<20)
	defer w.Flush()
	sc := bufio.NewScanner(in)
	sc.Buffer(make([]byte, 1<<20), 1<<26)
	for sc.Scan() {
		f := strings.Fields(sc.Text())
		if len(f) < 2 {
			fmt.Fprintln(w, "badline")
			continue
		}
		d := 5 * time.Second // generous: a parser call takes microseconds; only a genuinely wedged call gets here
		if strings.HasPrefix(f[0], "bk") || f[0] == "fzseq" || f[0] == "fzipoe" || f[0] == "radex" { // own per-call watchdogs
			d = 60 * time.Second
		}
		fmt.Fprintln(w, c07GuardT(d, func() string { return handle(f[0], c07Nums(f[1]), f[2:]) }))
	}
}

func c07Ok(toks ...string) string { return "ok " + strings.Join(toks, " ") }
func c07U(n uint64) string      { return strconv.FormatUint(n, 10) }
