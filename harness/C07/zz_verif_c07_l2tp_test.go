//go:build verif

package l2tp

import (
	"testing"
)

func c07L2TP(entry string, n []uint64, f []string) string {
	data := c07Arg(f, 0)
	switch entry {
	case "l2hdr":
		h, p, err := Parse(data)
		switch err {
		case nil:
		case ErrShortPacket:
			return "err 1"
		case ErrReservedBits:
			return "err 2"
		case ErrLengthInvalid:
			return "err 3"
		default:
			return "err 9"
		}
		return c07Ok(c07Bool(h.IsControl), c07Bool(h.HasLength), c07Bool(h.HasSequence), c07Bool(h.HasOffset),
			c07Bool(h.Priority), c07U(uint64(h.Version)), c07U(uint64(h.Length)), c07U(uint64(h.TunnelID)),
			c07U(uint64(h.SessionID)), c07U(uint64(h.Ns)), c07U(uint64(h.Nr)), c07U(uint64(h.OffsetSize)),
			c07U(uint64(h.HeaderLen)), c07TB(p))
	case "l2avp":
		avps, err := ParseAVPs(data)
		switch err {
		case nil:
		case ErrAVPShort:
			return "err 1"
		case ErrAVPReserved:
			return "err 2"
		case ErrAVPLengthTooSmall:
			return "err 3"
		case ErrAVPLengthTooBig:
			return "err 4"
		case ErrAVPHiddenNoRV:
			return "err 5"
		default:
			return "err 9"
		}
		toks := []string{c07U(uint64(len(avps)))}
		for _, a := range avps {
			toks = append(toks, c07Bool(a.Mandatory), c07Bool(a.Hidden), c07U(uint64(a.VendorID)), c07U(uint64(a.Type)), c07TB(a.Value))
		}
		return c07Ok(toks...)
	case "l2v3":
		return c07Ok(c07Bool(IsL2TPv3(data)))
	case "rtl2hdr": // round trip: parse, re-append with the parsed payload length, must parse to the same header
		h, p, err := Parse(data)
		if err != nil {
			return "err"
		}
		out := h.AppendTo(nil, len(p))
		return c07Ok(c07TB(out))
	}
	return "badline"
}

func TestVerifC07(t *testing.T) { c07Run(t, c07L2TP) }
