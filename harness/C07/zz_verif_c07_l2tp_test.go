//go:build verif

package l2tp

import (
	"testing"
)

func c07L2TP(entry string, n []uint64, f []string) string {
	data := c07Arg(f, 0)
	prefix := []string{}
	switch entry {
	case "chalresp": // chalresp - <observed> <md5>: VerifyChallengeResponse on a Challenge-Response AVP value from the peer
		if VerifyChallengeResponse(3, []byte("secret"), []byte("0123456789abcdef"), data) != nil {
			return "ok 1"
		}
		return "ok 0"
	case "bldl2": // bldl2 <T,L,S,O,P,ver,tid,sid,ns,nr,offsz> <body>: AppendTo(nil, len(body)) ++ body fed to Parse
		h := &Header{IsControl: c07Num(n, 0) != 0, HasLength: c07Num(n, 1) != 0, HasSequence: c07Num(n, 2) != 0,
			HasOffset: c07Num(n, 3) != 0, Priority: c07Num(n, 4) != 0, Version: uint8(c07Num(n, 5)),
			TunnelID: uint16(c07Num(n, 6)), SessionID: uint16(c07Num(n, 7)), Ns: uint16(c07Num(n, 8)),
			Nr: uint16(c07Num(n, 9)), OffsetSize: uint16(c07Num(n, 10))}
		out := h.AppendTo(nil, len(data))
		out = append(out, data...)
		data = append(make([]byte, 0, len(out)), out...)
		prefix = []string{c07TB(data)}
		fallthrough
	case "l2hdr":
		h, p, err := Parse(data)
		switch err {
		case nil:
		case ErrShortPacket:
			return "err"
		case ErrReservedBits:
			return "err"
		case ErrLengthInvalid:
			return "err"
		default:
			return "err"
		}
		return c07Ok(append(prefix, c07Bool(h.IsControl), c07Bool(h.HasLength), c07Bool(h.HasSequence), c07Bool(h.HasOffset),
			c07Bool(h.Priority), c07U(uint64(h.Version)), c07U(uint64(h.Length)), c07U(uint64(h.TunnelID)),
			c07U(uint64(h.SessionID)), c07U(uint64(h.Ns)), c07U(uint64(h.Nr)), c07U(uint64(h.OffsetSize)),
			c07U(uint64(h.HeaderLen)), c07TB(p))...)
	case "bldavp": // bldavp <m,vendor,type,...> <value> ...: AppendAVP output fed to ParseAVPs
		var out []byte
		for i := 0; 3*i+2 < len(n); i++ {
			out = AppendAVP(out, n[3*i] != 0, false, uint16(n[3*i+1]), uint16(n[3*i+2]), c07Arg(f, i))
		}
		data = append(make([]byte, 0, len(out)), out...)
		prefix = []string{c07TB(data)}
		fallthrough
	case "l2avp":
		avps, err := ParseAVPs(data)
		switch err {
		case nil:
		case ErrAVPShort:
			return "err"
		case ErrAVPReserved:
			return "err"
		case ErrAVPLengthTooSmall:
			return "err"
		case ErrAVPLengthTooBig:
			return "err"
		case ErrAVPHiddenNoRV:
			return "err"
		default:
			return "err"
		}
		toks := append(prefix, c07U(uint64(len(avps))))
		for _, a := range avps {
			toks = append(toks, c07Bool(a.Mandatory), c07Bool(a.Hidden), c07U(uint64(a.VendorID)), c07U(uint64(a.Type)), c07TB(a.Value))
		}
		return c07Ok(toks...)
	case "l2v3":
		return c07Ok(c07Bool(IsL2TPv3(data)))
	case "rtl2hdr": // round trip: parse, re-append with the parsed payload length, must parse to the same header
		h, p, err := Parse(data)
		if err != nil {
			return "err"
		}
		out := h.AppendTo(nil, len(p))
		return c07Ok(c07TB(out))
	}
	return "badline"
}

func TestVerifC07(t *testing.T) { c07Run(t, c07L2TP) }
