//go:build verif

package shm

import (
	"testing"

	"github.com/veesix-networks/osvbng/pkg/logger"
)

// supporting validation only (gopacket is not modelled): fzgopkt <proto> <frame>
func c07Shm(entry string, n []uint64, f []string) string {
	switch entry {
	case "fzgopkt":
		ing := &Ingress{logger: logger.NewTest()}
		ing.parsePacket(&PuntPacket{Data: c07Arg(f, 0), Protocol: Protocol(c07Num(n, 0))})
		return "nocrash"
	}
	return "badline"
}

func TestVerifC07(t *testing.T) { c07Run(t, c07Shm) }
