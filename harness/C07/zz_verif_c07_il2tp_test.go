//go:build verif

package l2tp

import (
	"context"
	"net"
	"sort"
	"testing"
	"time"

	"github.com/google/gopacket/layers"
	"github.com/veesix-networks/osvbng/pkg/dataplane"
	"github.com/veesix-networks/osvbng/pkg/logger"

	pppdisp "github.com/veesix-networks/osvbng/internal/ppp"
	"github.com/veesix-networks/osvbng/pkg/ppp"
)

// l2ppp <net>,<v6up>,<fsm> <frame>: internal/l2tp dispatchPPPFrame (HDLC address/control strip, protocol field) in front of
// the shared PPP dispatcher; callbacks as in the disp harness.
// c07RecDispatcher: a dispatcher whose callbacks record what they are given (no automata installed).
func c07RecDispatcher(log *[]string) *pppdisp.Dispatcher {
	return &pppdisp.Dispatcher{
		HandlePAP: func(code, id uint8, data []byte) error {
			*log = append(*log, "6", c07U(uint64(code)), c07U(uint64(id)), c07TB(data))
			return nil
		},
		HandleCHAP: func(code, id uint8, data []byte) error {
			*log = append(*log, "7", c07U(uint64(code)), c07U(uint64(id)), c07TB(data))
			return nil
		},
		OnEchoReq:          func(id uint8, data []byte) { *log = append(*log, "2", c07U(uint64(id)), c07TB(data)) },
		OnEchoRep:          func(id uint8, data []byte) { *log = append(*log, "3", c07U(uint64(id)), c07TB(data)) },
		OnProtocolReject:   func(p uint16) { *log = append(*log, "4", c07U(uint64(p))) },
		SendProtocolReject: func(p uint16, pl []byte) { *log = append(*log, "10", c07U(uint64(p)), c07TB(pl)) },
		HandleIPv6:         func(pl []byte) error { *log = append(*log, "1", c07TB(pl)); return nil },
		PhaseFn:            func() ppp.Phase { return ppp.PhaseNetwork },
	}
}

// l2dg - <datagram> <authorised LAC host name>: one L2TP datagram through Component.Dispatch on a component that knows one
// session (peer 10.0.0.1, tunnel 7, session 9) and authorises one LAC host name.  Data frames (T=0) come from 10.0.0.1,
// control frames from 10.0.0.2 (so that they never hit the pre-registered, FSM-less tunnel).  Observables: the PPP callbacks
// the session's dispatcher received; the host name handed to the LNS-config resolver and the peer tunnel id of the tunnel an
// SCCRQ created (+1; 0 = none).  Whether Dispatch returned an error is not compared.
func c07L2TPDatagram(f []string) string {
	body := c07Arg(f, 0)
	auth := string(c07Arg(f, 1))
	c := New(logger.NewTest())
	defer c.Stop(context.Background())
	var resolved [][]byte
	c.resolveLNSConfig = func(h string) (LNSConfig, bool) {
		resolved = append(resolved, []byte(h))
		return LNSConfig{LocalHostname: "lns"}, h == auth
	}
	var log []string
	peer := net.IPv4(10, 0, 0, 1)
	_ = c.registerTunnel(&Tunnel{PeerIP: peer, LocalID: 7, Sessions: map[uint16]*Session{9: {LocalID: 9, PPPDispatcher: c07RecDispatcher(&log)}}})
	src := peer
	if len(body) > 0 && body[0]&0x80 != 0 {
		src = net.IPv4(10, 0, 0, 2)
	}
	pkt := &dataplane.ParsedPacket{IPv4: &layers.IPv4{SrcIP: src, DstIP: net.IPv4(10, 0, 0, 254)},
		UDP: &layers.UDP{BaseLayer: layers.BaseLayer{Payload: body}}}
	_ = c.Dispatch(pkt)
	if len(log) > 0 {
		return c07Ok(append([]string{"30"}, log...)...)
	}
	if len(resolved) > 0 {
		created := uint64(0)
		c.mu.RLock()
		for _, t := range c.tunnels {
			if t.PeerIP.Equal(net.IPv4(10, 0, 0, 2)) {
				created = uint64(t.PeerID) + 1
			}
		}
		c.mu.RUnlock()
		return c07Ok("20", c07TB(resolved[0]), c07U(created))
	}
	return "ok 0"
}

// l2seq - <authorised host name> <datagram> ...: ONE component (built with New, no transmit function: tunnels have no
// control channel, so every control message that parses reaches its handler) fed a sequence of datagrams from peer 10.0.0.2
// through Dispatch, each under the watchdog.  After every datagram: 255, number of tunnels, then per tunnel (by local id)
// local id, peer id, FSM state, number of sessions, then per session (by local id) local id, peer id, FSM state.
func c07L2TPSequence(f []string) string {
	auth := string(c07Arg(f, 0))
	c := New(logger.NewTest())
	defer c.Stop(context.Background())
	c.resolveLNSConfig = func(h string) (LNSConfig, bool) { return LNSConfig{LocalHostname: "lns"}, h == auth }
	peer := net.IPv4(10, 0, 0, 2)
	var toks []string
	for k := 1; k < len(f); k++ {
		pkt := &dataplane.ParsedPacket{IPv4: &layers.IPv4{SrcIP: peer, DstIP: net.IPv4(10, 0, 0, 254)},
			UDP: &layers.UDP{BaseLayer: layers.BaseLayer{Payload: c07Arg(f, k)}}}
		if !c07Returns(3*time.Second, func() { _ = c.Dispatch(pkt) }) {
			c07Hangs++
			return "hang"
		}
		c.mu.RLock()
		var tuns []*Tunnel
		for _, t := range c.tunnels {
			tuns = append(tuns, t)
		}
		c.mu.RUnlock()
		sort.Slice(tuns, func(i, j int) bool { return tuns[i].LocalID < tuns[j].LocalID })
		toks = append(toks, "255", c07U(uint64(len(tuns))))
		for _, t := range tuns {
			t.mu.Lock()
			var ss []*Session
			for _, s := range t.Sessions {
				ss = append(ss, s)
			}
			t.mu.Unlock()
			sort.Slice(ss, func(i, j int) bool { return ss[i].LocalID < ss[j].LocalID })
			toks = append(toks, c07U(uint64(t.LocalID)), c07U(uint64(t.PeerID)), c07U(uint64(t.FSM.State())), c07U(uint64(len(ss))))
			for _, s := range ss {
				toks = append(toks, c07U(uint64(s.LocalID)), c07U(uint64(s.PeerID)), c07U(uint64(s.FSM.State())))
			}
		}
	}
	if len(toks) == 0 {
		return "ok"
	}
	return c07Ok(toks...)
}

func c07IL2TP(entry string, n []uint64, f []string) string {
	if entry == "l2dg" {
		return c07L2TPDatagram(f)
	}
	if entry == "l2seq" {
		return c07L2TPSequence(f)
	}
	if entry != "l2ppp" {
		return "badline"
	}
	var log []string
	d := &pppdisp.Dispatcher{
		HandlePAP: func(code, id uint8, data []byte) error {
			log = append(log, "6", c07U(uint64(code)), c07U(uint64(id)), c07TB(data))
			return nil
		},
		HandleCHAP: func(code, id uint8, data []byte) error {
			log = append(log, "7", c07U(uint64(code)), c07U(uint64(id)), c07TB(data))
			return nil
		},
		OnEchoReq:          func(id uint8, data []byte) { log = append(log, "2", c07U(uint64(id)), c07TB(data)) },
		OnEchoRep:          func(id uint8, data []byte) { log = append(log, "3", c07U(uint64(id)), c07TB(data)) },
		OnProtocolReject:   func(p uint16) { log = append(log, "4", c07U(uint64(p))) },
		SendProtocolReject: func(p uint16, pl []byte) { log = append(log, "10", c07U(uint64(p)), c07TB(pl)) },
		HandleIPv6:         func(pl []byte) error { log = append(log, "1", c07TB(pl)); return nil },
	}
	if c07Num(n, 0) != 0 {
		d.PhaseFn = func() ppp.Phase { return ppp.PhaseNetwork }
	} else {
		d.PhaseFn = func() ppp.Phase { return ppp.PhaseAuthenticate }
	}
	if c07Num(n, 2) != 0 {
		cb := ppp.Callbacks{Send: func(code, id uint8, data []byte) {}}
		d.LCP, d.IPCP, d.IPv6CP = ppp.NewLCP(cb), ppp.NewIPCP(cb), ppp.NewIPv6CP(cb)
		defer d.LCP.FSM().Kill()
		defer d.IPCP.FSM().Kill()
		defer d.IPv6CP.FSM().Kill()
		if c07Num(n, 1) != 0 {
			d.IPv6CP.FSM().Restore()
		}
	}
	c := &Component{}
	s := &Session{PPPDispatcher: d}
	err := c.dispatchPPPFrame(s, c07Arg(f, 0))
	switch err {
	case nil:
	case ErrPPPFrameShort:
		return "err"
	case pppdisp.ErrFrameShort:
		return "err"
	case pppdisp.ErrFrameLengthMismatch:
		return "err"
	default:
		return "err"
	}
	if len(log) == 0 {
		return "ok 0"
	}
	return c07Ok(log...)
}

func TestVerifC07(t *testing.T) { c07Run(t, c07IL2TP) }
