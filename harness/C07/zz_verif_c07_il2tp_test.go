//go:build verif

package l2tp

import (
	"testing"

	pppdisp "github.com/veesix-networks/osvbng/internal/ppp"
	"github.com/veesix-networks/osvbng/pkg/ppp"
)

// l2ppp <net>,<v6up>,<fsm> <frame>: internal/l2tp dispatchPPPFrame (HDLC address/control strip, protocol field) in front of
// the shared PPP dispatcher; callbacks as in the disp harness.
func c07IL2TP(entry string, n []uint64, f []string) string {
	if entry != "l2ppp" {
		return "badline"
	}
	var log []string
	d := &pppdisp.Dispatcher{
		HandlePAP: func(code, id uint8, data []byte) error {
			log = append(log, "6", c07U(uint64(code)), c07U(uint64(id)), c07TB(data))
			return nil
		},
		HandleCHAP: func(code, id uint8, data []byte) error {
			log = append(log, "7", c07U(uint64(code)), c07U(uint64(id)), c07TB(data))
			return nil
		},
		OnEchoReq:          func(id uint8, data []byte) { log = append(log, "2", c07U(uint64(id)), c07TB(data)) },
		OnEchoRep:          func(id uint8, data []byte) { log = append(log, "3", c07U(uint64(id)), c07TB(data)) },
		OnProtocolReject:   func(p uint16) { log = append(log, "4", c07U(uint64(p))) },
		SendProtocolReject: func(p uint16, pl []byte) { log = append(log, "10", c07U(uint64(p)), c07TB(pl)) },
		HandleIPv6:         func(pl []byte) error { log = append(log, "1", c07TB(pl)); return nil },
	}
	if c07Num(n, 0) != 0 {
		d.PhaseFn = func() ppp.Phase { return ppp.PhaseNetwork }
	} else {
		d.PhaseFn = func() ppp.Phase { return ppp.PhaseAuthenticate }
	}
	if c07Num(n, 2) != 0 {
		cb := ppp.Callbacks{Send: func(code, id uint8, data []byte) {}}
		d.LCP, d.IPCP, d.IPv6CP = ppp.NewLCP(cb), ppp.NewIPCP(cb), ppp.NewIPv6CP(cb)
		defer d.LCP.FSM().Kill()
		defer d.IPCP.FSM().Kill()
		defer d.IPv6CP.FSM().Kill()
		if c07Num(n, 1) != 0 {
			d.IPv6CP.FSM().Restore()
		}
	}
	c := &Component{}
	s := &Session{PPPDispatcher: d}
	err := c.dispatchPPPFrame(s, c07Arg(f, 0))
	switch err {
	case nil:
	case ErrPPPFrameShort:
		return "err"
	case pppdisp.ErrFrameShort:
		return "err"
	case pppdisp.ErrFrameLengthMismatch:
		return "err"
	default:
		return "err"
	}
	if len(log) == 0 {
		return "ok 0"
	}
	return c07Ok(log...)
}

func TestVerifC07(t *testing.T) { c07Run(t, c07IL2TP) }
