//go:build verif

package pppdisp

import (
	"testing"

	"github.com/veesix-networks/osvbng/pkg/ppp"
)

// disp <proto>,<net>,<v6up>,<fsm> <payload>
//
//	net:  PhaseFn reports 0 Authenticate, 1 Network, 2 Open, 3 = PhaseFn nil, 4 Dead, 5 Establish, 6 Terminate, 7 LACTunnelPending, 8 LACTunneled
//	fsm:  0 no FSMs installed, 1 fresh FSMs (Req-Sent), 2 FSMs restored to Opened
//	v6up: IPv6CP restored to Opened (only meaningful with fsm != 0)
func c07Disp(entry string, n []uint64, f []string) string {
	if entry != "disp" {
		return "badline"
	}
	payload := c07Arg(f, 0)
	var log []string
	fsmSent := 0
	d := &Dispatcher{
		HandlePAP: func(code, id uint8, data []byte) error {
			log = append(log, "6", c07U(uint64(code)), c07U(uint64(id)), c07TB(data))
			return nil
		},
		HandleCHAP: func(code, id uint8, data []byte) error {
			log = append(log, "7", c07U(uint64(code)), c07U(uint64(id)), c07TB(data))
			return nil
		},
		OnEchoReq:        func(id uint8, data []byte) { log = append(log, "2", c07U(uint64(id)), c07TB(data)) },
		OnEchoRep:        func(id uint8, data []byte) { log = append(log, "3", c07U(uint64(id)), c07TB(data)) },
		OnProtocolReject: func(p uint16) { log = append(log, "4", c07U(uint64(p))) },
		SendProtocolReject: func(p uint16, pl []byte) {
			log = append(log, "10", c07U(uint64(p)), c07TB(pl))
		},
		HandleIPv6: func(pl []byte) error { log = append(log, "1", c07TB(pl)); return nil },
	}
	switch c07Num(n, 1) {
	case 0:
		d.PhaseFn = func() ppp.Phase { return ppp.PhaseAuthenticate }
	case 1:
		d.PhaseFn = func() ppp.Phase { return ppp.PhaseNetwork }
	case 2:
		d.PhaseFn = func() ppp.Phase { return ppp.PhaseOpen }
	case 3: // no PhaseFn
	case 4:
		d.PhaseFn = func() ppp.Phase { return ppp.PhaseDead }
	case 5:
		d.PhaseFn = func() ppp.Phase { return ppp.PhaseEstablish }
	case 6:
		d.PhaseFn = func() ppp.Phase { return ppp.PhaseTerminate }
	case 7:
		d.PhaseFn = func() ppp.Phase { return ppp.PhaseLACTunnelPending }
	case 8:
		d.PhaseFn = func() ppp.Phase { return ppp.PhaseLACTunneled }
	}
	if fsm := c07Num(n, 3); fsm != 0 {
		cb := ppp.Callbacks{Send: func(code, id uint8, data []byte) { fsmSent++ }}
		d.LCP, d.IPCP, d.IPv6CP = ppp.NewLCP(cb), ppp.NewIPCP(cb), ppp.NewIPv6CP(cb)
		defer d.LCP.FSM().Kill()
		defer d.IPCP.FSM().Kill()
		defer d.IPv6CP.FSM().Kill()
		if fsm == 2 {
			d.LCP.FSM().Restore()
			d.IPCP.FSM().Restore()
			d.IPv6CP.FSM().Open()
			d.IPv6CP.FSM().Up()
		} else {
			d.LCP.FSM().Open()
			d.LCP.FSM().Up()
			d.IPCP.FSM().Open()
			d.IPCP.FSM().Up()
			d.IPv6CP.FSM().Open()
			d.IPv6CP.FSM().Up()
		}
		if c07Num(n, 2) != 0 {
			d.IPv6CP.FSM().Restore()
		}
	}
	sentBefore := fsmSent // Configure-Requests the automata sent while being brought up
	err := d.HandleFrame(uint16(c07Num(n, 0)), payload)
	switch err {
	case nil:
	case ErrFrameShort:
		return "err"
	case ErrFrameLengthMismatch:
		return "err"
	default:
		return "err"
	}
	if len(log) == 0 {
		log = []string{"0"}
	}
	// did an automaton answer?  reported where that is predictable from the packet (Configure-Request, Terminate-Request,
	// unknown code): tells "delivered to the FSM" from "dropped"
	proto := uint16(c07Num(n, 0))
	if c07Num(n, 3) != 0 && (proto == ppp.ProtoLCP || proto == ppp.ProtoIPCP || proto == ppp.ProtoIPv6CP) && len(payload) > 0 {
		if c := payload[0]; c == 1 || c == 5 || c == 0 || c > 11 {
			log = append(log, "77", c07Bool(fsmSent > sentBefore))
		}
	}
	return c07Ok(log...)
}

func TestVerifC07(t *testing.T) { c07Run(t, c07Disp) }
