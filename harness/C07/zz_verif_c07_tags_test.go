//go:build verif

package pppoe

import (
	"net"
	"strings"
	"testing"
	"time"
)

func c07Tags(entry string, n []uint64, f []string) string {
	data := c07Arg(f, 0)
	prefix := []string{}
	switch entry {
	case "cookie": // cookie <fresh> <cookie> <hmac>: CookieManager.Validate on an AC-Cookie from the wire (fixed key, MAC, VLANs)
		// cookie <fresh>,<svlan>,<cvlan> <cookie> <hmac> <mac>
		cm := &CookieManager{secret: []byte("c07-cookie-secret"), ttl: time.Hour}
		return c07Ok(c07Bool(cm.Validate(data, net.HardwareAddr(c07Arg(f, 2)), uint16(c07Num(n, 1)), uint16(c07Num(n, 2)))))
	case "bldtags": // bldtags <type,...> <value> ...: TagBuilder output fed to ParseTags
		b := NewTagBuilder()
		for i, ty := range n {
			b.AddTag(uint16(ty), c07Arg(f, i))
		}
		data = append(make([]byte, 0, len(b.Build())), b.Build()...)
		prefix = []string{c07TB(data)}
		fallthrough
	case "tags":
		t, err := ParseTags(data)
		if err != nil { // the property constrains that the input is rejected, not the error text or identity
			return "err"
		}
		toks := append(prefix, c07TB([]byte(t.ServiceName)), c07TB([]byte(t.ACName)), c07TBN(t.HostUniq), c07TBN(t.ACCookie),
			c07TBN(t.RelaySessionID), c07TBN(t.VendorSpecific), c07TB([]byte(t.AgentCircuitID)),
			c07TB([]byte(t.AgentRemoteID)), c07U(uint64(t.PPPMaxPayload)), c07U(uint64(len(t.Errors))))
		for _, e := range t.Errors {
			kind := "9"
			for k, p := range []string{"service-name-error: ", "ac-system-error: ", "generic-error: "} {
				if strings.HasPrefix(e, p) {
					kind = c07U(uint64(k + 1))
					e = e[len(p):]
					break
				}
			}
			toks = append(toks, kind, c07TB([]byte(e)))
		}
		toks = append(toks, c07U(uint64(len(t.Raw))))
		for _, r := range t.Raw {
			toks = append(toks, c07U(uint64(r.Type)), c07TB(r.Value))
		}
		return c07Ok(toks...)
	}
	return "badline"
}

func TestVerifC07(t *testing.T) { c07Run(t, c07Tags) }
