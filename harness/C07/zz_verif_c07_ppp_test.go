//go:build verif

package ppp

import (
	"testing"
)

const c07Secret = "s3cret"

func c07PPP(entry string, n []uint64, f []string) string {
	data := c07Arg(f, 0)
	switch entry {
	case "ppphdr": // ppphdr <which> <data>    which: 0 PAP, 1 CHAP, 2 IPv6CP
		var code, id uint8
		var p []byte
		var err error
		switch c07Num(n, 0) {
		case 0:
			code, id, p, err = ParsePAPPacket(data)
		case 1:
			code, id, p, err = ParseCHAPPacket(data)
		default:
			code, id, p, err = ParseIPv6CPPacket(data)
		}
		if err != nil {
			return "err"
		}
		return c07Ok(c07U(uint64(code)), c07U(uint64(id)), c07TB(p))
	case "pppopts":
		opts, err := ParseOptions(data)
		if err != nil {
			return "err"
		}
		toks := []string{c07U(uint64(len(opts)))}
		for _, o := range opts {
			toks = append(toks, c07U(uint64(o.Type)), c07TB(o.Data))
		}
		// and back: serialising what was parsed must give the bytes that were consumed
		return c07Ok(toks...)
	case "papreq":
		var sent []string
		res := "0"
		h := &PAPHandler{
			Send: func(code, id uint8, d []byte) { sent = append(sent, c07U(uint64(code))) },
			Validate: func(u, p string) bool {
				res = "1 " + c07TB([]byte(u)) + " " + c07TB([]byte(p))
				return true
			},
		}
		h.HandleAuthReq(uint8(c07Num(n, 0)), data)
		if len(sent) != 1 || (res == "0") != (sent[0] == "3") {
			return "ok BADSEND"
		}
		return "ok " + res
	case "papmsg": // papmsg <0 ack|1 nak> <data>
		got := "NOCALL"
		h := &PAPHandler{OnResult: func(ok bool, m string) {
			if ok == (c07Num(n, 0) == 0) {
				got = c07TB([]byte(m))
			} else {
				got = "WRONGRESULT"
			}
		}}
		if c07Num(n, 0) == 0 {
			h.HandleAuthAck(1, data)
		} else {
			h.HandleAuthNak(1, data)
		}
		return "ok " + got
	case "chapchal":
		// the model yields (challenge, name); the handler's reaction is the MD5 response over the challenge
		sent := 0
		var resp []byte
		h := &CHAPHandler{LocalName: "bng", LocalSecret: c07Secret,
			Send: func(code, id uint8, d []byte) {
				sent++
				if code == CHAPResponse && len(d) >= 17 && d[0] == 16 {
					resp = d[1:17]
				}
			}}
		id := uint8(c07Num(n, 0))
		h.HandleChallenge(id, data)
		if sent == 0 {
			return "ok 0"
		}
		// recompute independently which prefix of data was hashed: report its length via brute force
		for k := 0; k+1 <= len(data); k++ {
			if string(h.computeMD5Response(id, data[1:1+k], c07Secret)) == string(resp) {
				return c07Ok("1", c07TB(data[1:1+k]), c07TB(data[1+k:]))
			}
		}
		return "ok NOCHALLENGEMATCH"
	case "chapresp": // chapresp <id> <data> <expected md5> <challenge>
		var name []byte
		called := false
		var sentCode uint8
		var sentMsg string
		h := &CHAPHandler{
			Send:      func(code, id uint8, d []byte) { sentCode, sentMsg = code, string(d) },
			GetSecret: func(u string) string { called = true; name = []byte(u); return c07Secret },
		}
		h.HandleResponse(uint8(c07Num(n, 0)), data, c07Arg(f, 2))
		switch {
		case sentCode == CHAPFailure && sentMsg == "malformed response" && !called:
			return "ok 0"
		case sentCode == CHAPFailure && called:
			return c07Ok("1", c07TB(name))
		case sentCode == CHAPSuccess && called:
			return c07Ok("2", c07TB(name))
		}
		return "ok BADOUTCOME"
	case "echo":
		var tail []byte
		h := &EchoHandler{Magic: 0x01020304, Send: func(code, id uint8, d []byte) {
			if code == EchoRep && len(d) >= 4 {
				tail = d[4:]
			}
		}}
		h.HandleEchoReq(1, data)
		return c07Ok(c07TBN(tail))
	case "papbld": // papbld - <user> <password>: PAPHandler.SendAuthReq
		var out []byte
		h := &PAPHandler{Send: func(code, id uint8, d []byte) { out = d }}
		h.SendAuthReq(1, string(data), string(c07Arg(f, 1)))
		return c07Ok(c07TB(out))
	case "chapbld": // chapbld - <challenge> <name>: CHAPHandler.SendChallenge
		var out []byte
		h := &CHAPHandler{Send: func(code, id uint8, d []byte) { out = d }}
		h.SendChallenge(1, data, string(c07Arg(f, 1)))
		return c07Ok(c07TB(out))
	case "rtopts": // round trip: <data> is parsed, re-serialised and parsed again
		opts, err := ParseOptions(data)
		if err != nil {
			return "err"
		}
		return c07Ok(c07TB(SerializeOptions(opts)))
	}
	return "badline"
}

func TestVerifC07(t *testing.T) { c07Run(t, c07PPP) }
