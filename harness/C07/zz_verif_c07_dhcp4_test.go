//go:build verif

package dhcp4

import (
	"testing"
)

func c07DHCP4(entry string, n []uint64, f []string) string {
	data := c07Arg(f, 0)
	switch entry {
	case "d4msg":
		m, err := ParseMessage(data)
		if err != nil {
			return "err"
		}
		o := m.Options
		toks := []string{c07U(uint64(m.Op)), c07U(uint64(m.HType)), c07U(uint64(m.HLen)), c07U(uint64(m.Hops)),
			c07U(uint64(m.XID)), c07U(uint64(m.Secs)), c07U(uint64(m.Flags)), c07TB(m.ClientIP), c07TB(m.YourIP),
			c07TB(m.ServerIP), c07TB(m.GatewayIP), c07TB(m.ClientHWAddr), c07TB(m.ServerName[:]), c07TB(m.BootFileName[:]),
			c07U(uint64(o.MessageType)), c07TBN(o.ServerID), c07TBN(o.RequestedIP), c07TB([]byte(o.Hostname)),
			c07TBN(o.ClientID), c07U(uint64(o.LeaseTime)), c07TBN(o.SubnetMask), c07TBN(o.Router), c07U(uint64(len(o.DNS)))}
		for _, d := range o.DNS {
			toks = append(toks, c07TB(d))
		}
		toks = append(toks, c07TBN(o.Option82))
		return c07Ok(toks...)
	}
	return "badline"
}

func TestVerifC07(t *testing.T) { c07Run(t, c07DHCP4) }
