//go:build verif

package ipoe

import (
	"testing"
	"time"

	"github.com/google/gopacket/layers"
	"github.com/veesix-networks/osvbng/pkg/config"
	"github.com/veesix-networks/osvbng/pkg/config/subscriber"
	"github.com/veesix-networks/osvbng/pkg/dataplane"
)

type c07L2GWCfg struct{ grp *subscriber.SubscriberGroup }

func (f *c07L2GWCfg) GetRunning() (*config.Config, error) { return &config.Config{}, nil }
func (f *c07L2GWCfg) GetStartup() (*config.Config, error) { return &config.Config{}, nil }
func (f *c07L2GWCfg) LookupSubscriberGroup(svlan, cvlan uint16) (subscriber.GroupMatch, bool) {
	return subscriber.GroupMatch{Name: "l2gw", Group: f.grp}, true
}

func c07IPoE(entry string, n []uint64, f []string) string {
	data := c07Arg(f, 0)
	switch entry {
	case "sub82":
		c, r := parseOption82(data)
		return c07Ok(c07TBN(c), c07TBN(r))
	case "ipoeopts": // ipoeopts <wanted,type,...> <value> ...: getDHCPMessageType / getDHCPOption over decoded options
		var opts layers.DHCPOptions
		for i := 1; i < len(n); i++ {
			opts = append(opts, layers.DHCPOption{Type: layers.DHCPOpt(n[i]), Length: uint8(len(c07Arg(f, i-1))), Data: c07Arg(f, i-1)})
		}
		return c07Ok(c07U(uint64(getDHCPMessageType(opts))), c07TBN(getDHCPOption(opts, layers.DHCPOpt(c07Num(n, 0)))))
	case "bkevl2": // bkevl2 <K> <events>: 'A' = forwardToL2GW, 'F' = the L2GW component takes one packet; occupancy = len(l2gwChan)
		ch := make(chan *dataplane.ParsedPacket, int(c07Num(n, 0)))
		c := &Component{cfgMgr: &c07L2GWCfg{grp: &subscriber.SubscriberGroup{AccessTypes: []subscriber.AccessType{subscriber.AccessTypeL2GW}}}}
		c.l2gwChan = ch
		var toks []string
		for _, e := range data {
			before := len(ch)
			out := "5"
			if e == 'F' {
				if before > 0 {
					<-ch
					out = "4"
				}
			} else {
				if !c07Returns(1500*time.Millisecond, func() { c.forwardToL2GW(&dataplane.ParsedPacket{OuterVLAN: 100}) }) {
					c07Hangs++
					toks = append(toks, c07U(uint64(len(ch))), "3")
					break
				}
				out = "2"
				if len(ch) == before+1 {
					out = "1"
				}
			}
			toks = append(toks, c07U(uint64(len(ch))), out)
		}
		if len(toks) == 0 {
			return "ok"
		}
		return c07Ok(toks...)
	case "bkl2gw": // bkl2gw <N>,<K>: N DHCP packets of an L2GW group while nobody drains the K-slot trigger queue
		N, K := int(c07Num(n, 0)), int(c07Num(n, 1))
		ch := make(chan *dataplane.ParsedPacket, K)
		c := &Component{cfgMgr: &c07L2GWCfg{grp: &subscriber.SubscriberGroup{AccessTypes: []subscriber.AccessType{subscriber.AccessTypeL2GW}}}}
		c.l2gwChan = ch
		returned := 0
		for i := 0; i < N; i++ {
			if !c07Returns(1500*time.Millisecond, func() { c.forwardToL2GW(&dataplane.ParsedPacket{OuterVLAN: 100}) }) {
				c07Hangs++
				break
			}
			returned++
		}
		accepted := len(ch)
		// the handler still works for a packet of the next subscriber, and the queue drains
		alive := c07Returns(1500*time.Millisecond, func() { c.forwardToL2GW(&dataplane.ParsedPacket{OuterVLAN: 101}) })
		for len(ch) > 0 {
			<-ch
		}
		return c07Ok(c07U(uint64(returned)), c07U(uint64(accepted)), c07Bool(alive), c07Bool(len(ch) == 0))
	}
	return "badline"
}

func TestVerifC07(t *testing.T) { c07Run(t, c07IPoE) }
