//go:build verif

package ipoe

import (
	"testing"
)

func c07IPoE(entry string, n []uint64, f []string) string {
	data := c07Arg(f, 0)
	switch entry {
	case "sub82":
		c, r := parseOption82(data)
		return c07Ok(c07TBN(c), c07TBN(r))
	}
	return "badline"
}

func TestVerifC07(t *testing.T) { c07Run(t, c07IPoE) }
