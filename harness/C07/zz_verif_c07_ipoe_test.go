//go:build verif

package ipoe

import (
	"fmt"
	"net"
	"os"
	"sync"
	"testing"
	"time"

	"github.com/google/gopacket"
	"github.com/veesix-networks/osvbng/pkg/cache/memory"
	"github.com/veesix-networks/osvbng/pkg/component"
	"github.com/veesix-networks/osvbng/pkg/config/ip"
	"github.com/veesix-networks/osvbng/pkg/events"
	"github.com/veesix-networks/osvbng/pkg/ifmgr"
	"github.com/veesix-networks/osvbng/pkg/logger"
	"github.com/veesix-networks/osvbng/pkg/models"

	"github.com/google/gopacket/layers"
	"github.com/veesix-networks/osvbng/pkg/config"
	"github.com/veesix-networks/osvbng/pkg/config/subscriber"
	"github.com/veesix-networks/osvbng/pkg/dataplane"
)

type c07L2GWCfg struct{ grp *subscriber.SubscriberGroup }

func (f *c07L2GWCfg) GetRunning() (*config.Config, error) { return &config.Config{}, nil }
func (f *c07L2GWCfg) GetStartup() (*config.Config, error) { return &config.Config{}, nil }
func (f *c07L2GWCfg) LookupSubscriberGroup(svlan, cvlan uint16) (subscriber.GroupMatch, bool) {
	return subscriber.GroupMatch{Name: "l2gw", Group: f.grp}, true
}

type c07IPoEBus struct {
	mu sync.Mutex
	n  int
}

func (b *c07IPoEBus) Publish(string, events.Event)                         { b.mu.Lock(); b.n++; b.mu.Unlock() }
func (b *c07IPoEBus) Subscribe(string, events.Handler) events.Subscription { return c07IPoESub{} }
func (b *c07IPoEBus) SubscribeAll(events.Handler) events.Subscription      { return c07IPoESub{} }
func (b *c07IPoEBus) Stats() events.Stats                                  { return events.Stats{} }
func (b *c07IPoEBus) SetDebugTopics([]string)                              {}
func (b *c07IPoEBus) DebugTopics() []string                                { return nil }
func (b *c07IPoEBus) Close() error                                         { return nil }

type c07IPoESub struct{}

func (c07IPoESub) Unsubscribe() {}

type c07IPoECfg struct{ cfg *config.Config }

func (f *c07IPoECfg) GetRunning() (*config.Config, error) { return f.cfg, nil }
func (f *c07IPoECfg) GetStartup() (*config.Config, error) { return f.cfg, nil }
func (f *c07IPoECfg) LookupSubscriberGroup(svlan, cvlan uint16) (subscriber.GroupMatch, bool) {
	return subscriber.BuildMatchIndex(f.cfg.SubscriberGroups).Lookup(svlan, cvlan)
}

// fzipoe <mode> <dhcpv4 message> ...: ONE IPoE component fed a sequence of DHCPv4 messages (BOOTP payloads, decoded by
// gopacket as the ingress does) through processDHCPPacket: DISCOVER / REQUEST / RELEASE / DECLINE / INFORM from the access
// side and OFFER / ACK / NAK as a relay server would send them; crash / hang observables only.
func c07IPoESequence(n []uint64, f []string) string {
	ifMgr := ifmgr.New()
	ifMgr.Add(&ifmgr.Interface{SwIfIndex: 10, SupSwIfIndex: 2, Name: "TenGigE0/0.100", Type: ifmgr.IfTypeSub, OuterVlanID: 100})
	ifMgr.Add(&ifmgr.Interface{SwIfIndex: 2, Name: "TenGigE0/0", Type: ifmgr.IfTypeHardware, MAC: []byte{0x52, 0x54, 0x00, 0x11, 0x22, 0x33}})
	mode := "server"
	if c07Num(n, 0) == 1 {
		mode = "relay"
	}
	cfg := &config.Config{
		SubscriberGroups: &subscriber.SubscriberGroupsConfig{Groups: map[string]*subscriber.SubscriberGroup{
			"grp": {IPv4Profile: "v4", VLANs: []subscriber.VLANRange{{SVLAN: "100"}}}}},
		IPv4Profiles: map[string]*ip.IPv4Profile{"v4": {DHCP: &ip.IPv4DHCPOptions{Mode: mode}}},
	}
	c := &Component{Base: component.NewBase("ipoe-c07"), logger: logger.NewTest(), eventBus: &c07IPoEBus{}, ifMgr: ifMgr,
		cfgMgr: &c07IPoECfg{cfg: cfg}, cache: memory.New()}
	for k := range f {
		raw := c07Arg(f, k)
		pk := gopacket.NewPacket(raw, layers.LayerTypeDHCPv4, gopacket.Default)
		d4, _ := pk.Layer(layers.LayerTypeDHCPv4).(*layers.DHCPv4)
		if d4 == nil {
			continue
		}
		mac := net.HardwareAddr{0xaa, 0xbb, 0xcc, 0, 0, 1}
		if len(d4.ClientHWAddr) == 6 {
			mac = d4.ClientHWAddr
		}
		pkt := &dataplane.ParsedPacket{Protocol: models.ProtocolDHCPv4, MAC: mac, OuterVLAN: 100, SwIfIndex: 10, DHCPv4: d4, RawPacket: raw}
		if !c07Returns(3*time.Second, func() { _ = c.processDHCPPacket(pkt) }) {
			c07Hangs++
			return "hang"
		}
	}
	if os.Getenv("VERIF_C07_DEBUG") != "" {
		ns := 0
		c.sessions.Range(func(_, _ any) bool { ns++; return true })
		fmt.Fprintf(os.Stderr, "c07ipoe sessions=%d published=%d\n", ns, c.eventBus.(*c07IPoEBus).n)
	}
	return "nocrash"
}

func c07IPoE(entry string, n []uint64, f []string) string {
	data := c07Arg(f, 0)
	switch entry {
	case "sub82":
		c, r := parseOption82(data)
		return c07Ok(c07TBN(c), c07TBN(r))
	case "fzipoe":
		return c07IPoESequence(n, f)
	case "ipoeopts": // ipoeopts <wanted,type,...> <value> ...: getDHCPMessageType / getDHCPOption over decoded options
		var opts layers.DHCPOptions
		for i := 1; i < len(n); i++ {
			opts = append(opts, layers.DHCPOption{Type: layers.DHCPOpt(n[i]), Length: uint8(len(c07Arg(f, i-1))), Data: c07Arg(f, i-1)})
		}
		return c07Ok(c07U(uint64(getDHCPMessageType(opts))), c07TBN(getDHCPOption(opts, layers.DHCPOpt(c07Num(n, 0)))))
	case "bkevl2": // bkevl2 <K> <events>: 'A' = forwardToL2GW, 'F' = the L2GW component takes one packet; occupancy = len(l2gwChan)
		ch := make(chan *dataplane.ParsedPacket, int(c07Num(n, 0)))
		c := &Component{cfgMgr: &c07L2GWCfg{grp: &subscriber.SubscriberGroup{AccessTypes: []subscriber.AccessType{subscriber.AccessTypeL2GW}}}}
		c.l2gwChan = ch
		var toks []string
		for _, e := range data {
			before := len(ch)
			out := "5"
			if e == 'F' {
				if before > 0 {
					<-ch
					out = "4"
				}
			} else {
				if !c07Returns(3*time.Second, func() { c.forwardToL2GW(&dataplane.ParsedPacket{OuterVLAN: 100}) }) {
					c07Hangs++
					toks = append(toks, c07U(uint64(len(ch))), "3")
					break
				}
				out = "2"
				if len(ch) == before+1 {
					out = "1"
				}
			}
			toks = append(toks, c07U(uint64(len(ch))), out)
		}
		if len(toks) == 0 {
			return "ok"
		}
		return c07Ok(toks...)
	case "bkl2gw": // bkl2gw <N>,<K>: N DHCP packets of an L2GW group while nobody drains the K-slot trigger queue
		N, K := int(c07Num(n, 0)), int(c07Num(n, 1))
		ch := make(chan *dataplane.ParsedPacket, K)
		c := &Component{cfgMgr: &c07L2GWCfg{grp: &subscriber.SubscriberGroup{AccessTypes: []subscriber.AccessType{subscriber.AccessTypeL2GW}}}}
		c.l2gwChan = ch
		returned := 0
		for i := 0; i < N; i++ {
			if !c07Returns(3*time.Second, func() { c.forwardToL2GW(&dataplane.ParsedPacket{OuterVLAN: 100}) }) {
				c07Hangs++
				break
			}
			returned++
		}
		accepted := len(ch)
		// the handler still works for a packet of the next subscriber, and the queue drains
		alive := c07Returns(3*time.Second, func() { c.forwardToL2GW(&dataplane.ParsedPacket{OuterVLAN: 101}) })
		for len(ch) > 0 {
			<-ch
		}
		return c07Ok(c07U(uint64(returned)), c07U(uint64(accepted)), c07Bool(alive), c07Bool(len(ch) == 0))
	}
	return "badline"
}

func TestVerifC07(t *testing.T) { c07Run(t, c07IPoE) }
