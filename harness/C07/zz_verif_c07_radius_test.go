//go:build verif

package radius

import (
	"net"
	"testing"

	lradius "layeh.com/radius"
)

func c07Radius(entry string, n []uint64, f []string) string {
	data := c07Arg(f, 0)
	switch entry {
	case "attr80":
		off := findAttr80(data)
		if off < 0 {
			// the callers' behaviour without the attribute: accepted as is
			if !validateMessageAuthenticator(data, []byte("secret")) {
				return "ok REJECTEDWITHOUTMA"
			}
			return "ok nil"
		}
		w := append([]byte(nil), data[off:off+16]...)
		before := string(data)
		validateMessageAuthenticator(data, []byte("secret"))
		if string(data) != before {
			return "ok NOTRESTORED"
		}
		return c07Ok(c07U(uint64(off)), c07TB(w))
	case "radreply": // radreply - <raw> <d_resp> <d_ma> <reqAuth>
		return c07Ok(c07Bool(isAuthenticReply(data, c07Arg(f, 3), []byte("secret"))))
	case "radreqauth": // radreqauth - <raw> <digest>
		return c07Ok(c07Bool(validateRequestAuthenticator(data, []byte("secret"))))
	case "radma": // radma - <raw> <digest>
		before := string(data)
		r := validateMessageAuthenticator(data, []byte("secret"))
		if string(data) != before {
			return "ok MODIFIED"
		}
		return c07Ok(c07Bool(r))
	case "coaattrs": // coaattrs <type,...> <expected NAS-Identifier> <value> ...: the CoA attribute accessors
		p := &lradius.Packet{}
		for i, ty := range n {
			p.Attributes = append(p.Attributes, &lradius.AVP{Type: lradius.Type(ty), Attribute: lradius.Attribute(c07Arg(f, 1+i))})
		}
		tgt, cause := resolveCoATarget(p)
		kind, val := "0", []byte{}
		switch {
		case cause != 0:
		case tgt.AcctSessionID != "":
			kind, val = "1", []byte(tgt.AcctSessionID)
		case tgt.FramedIPv4 != "":
			kind, val = "2", net.ParseIP(tgt.FramedIPv4).To4()
		case tgt.Username != "":
			kind, val = "3", []byte(tgt.Username)
		case tgt.FramedIPv6 != "":
			kind, val = "4", net.ParseIP(tgt.FramedIPv6).To16()
		}
		nas := "0"
		if validateNASIdentifier(p, string(data)) != nil {
			nas = "1"
		}
		return c07Ok(kind, c07TB(val), c07Bool(hasServiceType(p, 8)), c07U(uint64(getEventTimestamp(p))),
			c07Bool(hasNonIdentificationAttrs(p)), nas)
	case "fzrad": // supporting validation only: layeh radius.Parse + the CoA accessors on whatever it accepts
		p, err := lradius.Parse(data, []byte("secret"))
		validateMessageAuthenticator(data, []byte("secret"))
		if err == nil {
			resolveCoATarget(p)
			hasServiceType(p, 8)
			getEventTimestamp(p)
			hasNonIdentificationAttrs(p)
			validateNASIdentifier(p, "nas")
		}
		return "nocrash"
	}
	return "badline"
}

func TestVerifC07(t *testing.T) { c07Run(t, c07Radius) }
