//go:build verif

package radius

import (
	"net"
	"testing"
	"time"

	"github.com/veesix-networks/osvbng/pkg/netbind"

	lradius "layeh.com/radius"
)

var c07ExchangeTimeouts int

// radex - <request authenticator> {<datagram> <d_resp> <d_ma>}...: one real radiusConn.exchange (first identifier of a fresh
// connection = 1, Request Authenticator taken from the case) against a loopback endpoint that plays the server's address: on
// receiving the Access-Request it sends the datagrams of the case, in order, with no pauses.  The generator ends every history
// with an authentic "sentinel" reply, so exchange() returns as soon as the first authentic reply is processed — there is no
// waiting on HEAD; the 3 s exchange timeout is reached only when no reply at all gets through (a finding).  Observable:
// number of replies delivered to the requester (0 or 1) and the Reply-Message of the delivered one.
func c07RadiusExchange(f []string) string {
	if c07ExchangeTimeouts >= 3 {
		return "skipped-after-3-timeouts"
	}
	secret := []byte("secret")
	srv, err := net.ListenUDP("udp4", &net.UDPAddr{IP: net.IPv4(127, 0, 0, 1)})
	if err != nil {
		return "ok NOSOCKET"
	}
	defer srv.Close()
	var history [][]byte
	for k := 1; k < len(f); k += 3 {
		history = append(history, c07Arg(f, k))
	}
	go func() {
		buf := make([]byte, 4096)
		_, src, err := srv.ReadFromUDP(buf)
		if err != nil {
			return
		}
		for _, d := range history {
			_, _ = srv.WriteToUDP(d, src)
		}
	}()
	rc := newRadiusConn("127.0.0.1", srv.LocalAddr().(*net.UDPAddr).Port, secret, 3*time.Second, netbind.Binding{})
	defer rc.close()
	req := lradius.New(lradius.CodeAccessRequest, secret)
	copy(req.Authenticator[:], c07Arg(f, 0))
	req.Add(1, lradius.Attribute("alice"))
	resp, err := rc.exchange(req)
	if err != nil || resp == nil {
		c07ExchangeTimeouts++
		return "ok 0"
	}
	return c07Ok("1", c07TBN(resp.Get(18)))
}

func c07Radius(entry string, n []uint64, f []string) string {
	data := c07Arg(f, 0)
	switch entry {
	case "attr80":
		off := findAttr80(data)
		if off < 0 {
			// the callers' behaviour without the attribute: accepted as is
			if !validateMessageAuthenticator(data, []byte("secret")) {
				return "ok REJECTEDWITHOUTMA"
			}
			return "ok nil"
		}
		w := append([]byte(nil), data[off:off+16]...)
		before := string(data)
		validateMessageAuthenticator(data, []byte("secret"))
		if string(data) != before {
			return "ok NOTRESTORED"
		}
		return c07Ok(c07U(uint64(off)), c07TB(w))
	case "radex":
		return c07RadiusExchange(f)
	case "radparse": // radparse - <datagram>: does the third-party parser accept it, and with which declared length
		p, err := lradius.Parse(data, []byte("secret"))
		if err != nil || p == nil {
			return "ok 0 0"
		}
		return c07Ok("1", c07U(uint64(data[2])<<8|uint64(data[3])))
	case "radreply": // radreply - <raw> <d_resp> <d_ma> <reqAuth>
		return c07Ok(c07Bool(isAuthenticReply(data, c07Arg(f, 3), []byte("secret"))))
	case "radreqauth": // radreqauth - <raw> <digest>
		return c07Ok(c07Bool(validateRequestAuthenticator(data, []byte("secret"))))
	case "radma": // radma - <raw> <digest>
		before := string(data)
		r := validateMessageAuthenticator(data, []byte("secret"))
		if string(data) != before {
			return "ok MODIFIED"
		}
		return c07Ok(c07Bool(r))
	case "coaattrs": // coaattrs <type,...> <expected NAS-Identifier> <value> ...: the CoA attribute accessors
		p := &lradius.Packet{}
		for i, ty := range n {
			p.Attributes = append(p.Attributes, &lradius.AVP{Type: lradius.Type(ty), Attribute: lradius.Attribute(c07Arg(f, 1+i))})
		}
		tgt, cause := resolveCoATarget(p)
		kind, val := "0", []byte{}
		switch {
		case cause != 0:
		case tgt.AcctSessionID != "":
			kind, val = "1", []byte(tgt.AcctSessionID)
		case tgt.FramedIPv4 != "":
			kind, val = "2", net.ParseIP(tgt.FramedIPv4).To4()
		case tgt.Username != "":
			kind, val = "3", []byte(tgt.Username)
		case tgt.FramedIPv6 != "":
			kind, val = "4", net.ParseIP(tgt.FramedIPv6).To16()
		}
		nas := "0"
		if validateNASIdentifier(p, string(data)) != nil {
			nas = "1"
		}
		return c07Ok(kind, c07TB(val), c07Bool(hasServiceType(p, 8)), c07U(uint64(getEventTimestamp(p))),
			c07Bool(hasNonIdentificationAttrs(p)), nas)
	case "fzrad": // supporting validation only: layeh radius.Parse + the CoA accessors on whatever it accepts
		p, err := lradius.Parse(data, []byte("secret"))
		validateMessageAuthenticator(data, []byte("secret"))
		if err == nil {
			resolveCoATarget(p)
			hasServiceType(p, 8)
			getEventTimestamp(p)
			hasNonIdentificationAttrs(p)
			validateNASIdentifier(p, "nas")
		}
		return "nocrash"
	}
	return "badline"
}

func TestVerifC07(t *testing.T) { c07Run(t, c07Radius) }
