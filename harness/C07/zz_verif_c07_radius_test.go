//go:build verif

package radius

import (
	"net"
	"testing"
	"time"

	"github.com/veesix-networks/osvbng/pkg/netbind"

	lradius "layeh.com/radius"
)

// radex - <history>: one real radiusConn.exchange against a loopback endpoint that plays the server's address.  For the
// Access-Request it receives it sends the datagrams of <history> in order (one byte per datagram):
//
//	0 forged 20-byte reply, same identifier, zero authenticator      1 the same for another identifier
//	2 garbage that radius.Parse rejects                                3 well-formed reply signed with another secret
//	4 stale reply (authentic for a different Request Authenticator)    5 the genuine reply cut short
//	6 one forged datagram for every identifier (spray)                 9 the genuine, correctly authenticated Access-Accept
//
// Observable: did exchange() return the genuine Access-Accept with the Reply-Message it was built with.
func c07RadiusExchange(history []byte) string {
	secret := []byte("s3cr3t")
	srv, err := net.ListenUDP("udp4", &net.UDPAddr{IP: net.IPv4(127, 0, 0, 1)})
	if err != nil {
		return "ok NOSOCKET"
	}
	defer srv.Close()
	forged := func(id byte) []byte {
		d := make([]byte, 20)
		d[0], d[1], d[3] = byte(lradius.CodeAccessReject), id, 20
		return d
	}
	go func() {
		buf := make([]byte, 4096)
		n, src, err := srv.ReadFromUDP(buf)
		if err != nil {
			return
		}
		req := append([]byte(nil), buf[:n]...)
		genuine := func(sec []byte, reqRaw []byte) []byte {
			p, err := lradius.Parse(reqRaw, sec)
			if err != nil {
				return nil
			}
			resp := p.Response(lradius.CodeAccessAccept)
			resp.Add(18, lradius.Attribute("welcome"))
			raw, _ := resp.Encode()
			return raw
		}
		for _, k := range history {
			var d []byte
			switch k {
			case 0:
				d = forged(req[1])
			case 1:
				d = forged(req[1] + 1)
			case 2:
				d = []byte{0xff, req[1], 0x00, 0x02, 0x01}
			case 3:
				d = genuine([]byte("other"), req)
			case 4:
				stale := append([]byte(nil), req...)
				for i := 4; i < 20; i++ {
					stale[i] ^= 0x5a
				}
				d = genuine(secret, stale)
			case 5:
				if g := genuine(secret, req); len(g) > 3 {
					d = g[:len(g)-3]
				}
			case 6:
				for id := 0; id < 256; id++ {
					_, _ = srv.WriteToUDP(forged(byte(id)), src)
					if id%32 == 31 { // stay below the receiver's socket buffer: the kernel must not drop the genuine reply
						time.Sleep(3 * time.Millisecond)
					}
				}
				time.Sleep(10 * time.Millisecond)
			case 9:
				d = genuine(secret, req)
			}
			if d != nil {
				_, _ = srv.WriteToUDP(d, src)
			}
		}
	}()
	rc := newRadiusConn("127.0.0.1", srv.LocalAddr().(*net.UDPAddr).Port, secret, 400*time.Millisecond, netbind.Binding{})
	defer rc.close()
	req := lradius.New(lradius.CodeAccessRequest, secret)
	req.Add(1, lradius.Attribute("alice"))
	resp, err := rc.exchange(req)
	if err != nil || resp == nil {
		return "ok 0"
	}
	if resp.Code != lradius.CodeAccessAccept || string(resp.Get(18)) != "welcome" {
		return "ok WRONGREPLY"
	}
	return "ok 1"
}

func c07Radius(entry string, n []uint64, f []string) string {
	data := c07Arg(f, 0)
	switch entry {
	case "attr80":
		off := findAttr80(data)
		if off < 0 {
			// the callers' behaviour without the attribute: accepted as is
			if !validateMessageAuthenticator(data, []byte("secret")) {
				return "ok REJECTEDWITHOUTMA"
			}
			return "ok nil"
		}
		w := append([]byte(nil), data[off:off+16]...)
		before := string(data)
		validateMessageAuthenticator(data, []byte("secret"))
		if string(data) != before {
			return "ok NOTRESTORED"
		}
		return c07Ok(c07U(uint64(off)), c07TB(w))
	case "radex":
		return c07RadiusExchange(data)
	case "radreply": // radreply - <raw> <d_resp> <d_ma> <reqAuth>
		return c07Ok(c07Bool(isAuthenticReply(data, c07Arg(f, 3), []byte("secret"))))
	case "radreqauth": // radreqauth - <raw> <digest>
		return c07Ok(c07Bool(validateRequestAuthenticator(data, []byte("secret"))))
	case "radma": // radma - <raw> <digest>
		before := string(data)
		r := validateMessageAuthenticator(data, []byte("secret"))
		if string(data) != before {
			return "ok MODIFIED"
		}
		return c07Ok(c07Bool(r))
	case "coaattrs": // coaattrs <type,...> <expected NAS-Identifier> <value> ...: the CoA attribute accessors
		p := &lradius.Packet{}
		for i, ty := range n {
			p.Attributes = append(p.Attributes, &lradius.AVP{Type: lradius.Type(ty), Attribute: lradius.Attribute(c07Arg(f, 1+i))})
		}
		tgt, cause := resolveCoATarget(p)
		kind, val := "0", []byte{}
		switch {
		case cause != 0:
		case tgt.AcctSessionID != "":
			kind, val = "1", []byte(tgt.AcctSessionID)
		case tgt.FramedIPv4 != "":
			kind, val = "2", net.ParseIP(tgt.FramedIPv4).To4()
		case tgt.Username != "":
			kind, val = "3", []byte(tgt.Username)
		case tgt.FramedIPv6 != "":
			kind, val = "4", net.ParseIP(tgt.FramedIPv6).To16()
		}
		nas := "0"
		if validateNASIdentifier(p, string(data)) != nil {
			nas = "1"
		}
		return c07Ok(kind, c07TB(val), c07Bool(hasServiceType(p, 8)), c07U(uint64(getEventTimestamp(p))),
			c07Bool(hasNonIdentificationAttrs(p)), nas)
	case "fzrad": // supporting validation only: layeh radius.Parse + the CoA accessors on whatever it accepts
		p, err := lradius.Parse(data, []byte("secret"))
		validateMessageAuthenticator(data, []byte("secret"))
		if err == nil {
			resolveCoATarget(p)
			hasServiceType(p, 8)
			getEventTimestamp(p)
			hasNonIdentificationAttrs(p)
			validateNASIdentifier(p, "nas")
		}
		return "nocrash"
	}
	return "badline"
}

func TestVerifC07(t *testing.T) { c07Run(t, c07Radius) }
