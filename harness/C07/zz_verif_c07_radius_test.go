//go:build verif

package radius

import (
	"testing"

	lradius "layeh.com/radius"
)

func c07Radius(entry string, n []uint64, f []string) string {
	data := c07Arg(f, 0)
	switch entry {
	case "attr80":
		off := findAttr80(data)
		if off < 0 {
			// the callers' behaviour without the attribute: accepted as is
			if !validateMessageAuthenticator(data, []byte("secret")) {
				return "ok REJECTEDWITHOUTMA"
			}
			return "ok nil"
		}
		w := append([]byte(nil), data[off:off+16]...)
		before := string(data)
		validateMessageAuthenticator(data, []byte("secret"))
		if string(data) != before {
			return "ok NOTRESTORED"
		}
		return c07Ok(c07U(uint64(off)), c07TB(w))
	case "fzrad": // supporting validation only: layeh radius.Parse + the CoA accessors on whatever it accepts
		p, err := lradius.Parse(data, []byte("secret"))
		validateMessageAuthenticator(data, []byte("secret"))
		if err == nil {
			resolveCoATarget(p)
			hasServiceType(p, 8)
			getEventTimestamp(p)
			hasNonIdentificationAttrs(p)
			validateNASIdentifier(p, "nas")
		}
		return "nocrash"
	}
	return "badline"
}

func TestVerifC07(t *testing.T) { c07Run(t, c07Radius) }
