#!/bin/bash
# regenerates the per-package copies of common.go.tmpl (Go needs one copy per package under test)
cd "$(dirname "$0")" || exit 2
for p in pppdisp:disp ppp:ppp pppoe:tags l2tp:l2tp dhcp6:dhcp6 relay:relay dhcp:dhcp dhcp4:dhcp4 ipoe:ipoe pppoe:sess radius:radius shm:shm local:local l2tp:il2tp; do
  pkg="${p%%:*}"; name="${p##*:}"
  sed "s/@@PKG@@/$pkg/" common.go.tmpl > "zz_verif_c07_common_${name}_test.go"
done
