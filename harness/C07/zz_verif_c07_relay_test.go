//go:build verif

package relay

import (
	"encoding/binary"
	"strings"
	"testing"
)

func c07Relay(entry string, n []uint64, f []string) string {
	data := c07Arg(f, 0)
	switch entry {
	case "o82ins": // o82ins <policy 0 replace|1 keep|2 drop> <pkt> <opt82>
		pol := "replace"
		switch c07Num(n, 0) {
		case 1:
			pol = "keep"
		case 2:
			pol = "drop"
		}
		return c07Ok(c07TB(InsertOption82(data, c07Arg(f, 1), pol)))
	case "o82strip":
		return c07Ok(c07TB(StripOption82(data)))
	case "setopt": // setopt <code> <pkt> <4-byte value>
		v := c07Arg(f, 1)
		return c07Ok(c07TB(SetOptionUint32(data, byte(c07Num(n, 0)), binary.BigEndian.Uint32(v))))
	case "getopt":
		v, ok := GetOptionUint32(data, byte(c07Num(n, 0)))
		ip := GetOptionIP(data, byte(c07Num(n, 0)))
		if !ok {
			if ip != nil {
				return "ok INCONSISTENT"
			}
			return "ok nil"
		}
		b := make([]byte, 4)
		binary.BigEndian.PutUint32(b, v)
		if string(b) != string(ip) {
			return "ok INCONSISTENT"
		}
		return c07Ok(c07TB(b))
	case "v6unwrap":
		inner, err := UnwrapRelayReply(data)
		if err != nil {
			switch {
			case strings.HasPrefix(err.Error(), "packet too short"):
				return "err 1"
			case strings.HasPrefix(err.Error(), "not a relay-reply"):
				return "err 2"
			}
			return "err 3"
		}
		return c07Ok(c07TB(inner))
	case "v6txid":
		x, ok := GetRelayTransactionID(data)
		if !ok {
			return "ok nil"
		}
		return c07Ok(c07TB(x[:]))
	}
	return "badline"
}

func TestVerifC07(t *testing.T) { c07Run(t, c07Relay) }
