//go:build verif

package relay

import (
	"encoding/binary"
	"net"
	"strings"
	"testing"

	"github.com/veesix-networks/osvbng/pkg/config/ip"
	"github.com/veesix-networks/osvbng/pkg/dhcp6"
)

func c07RelayIA(a *dhcp6.IANAOption, p *dhcp6.IAPDOption) []string {
	if a != nil {
		return []string{c07U(uint64(a.IAID)), c07U(uint64(a.T1)), c07U(uint64(a.T2)), c07TBN(a.Address), "0",
			c07U(uint64(a.PreferredTime)), c07U(uint64(a.ValidTime))}
	}
	if p != nil {
		return []string{c07U(uint64(p.IAID)), c07U(uint64(p.T1)), c07U(uint64(p.T2)), c07TBN(p.Prefix), c07U(uint64(p.PrefixLen)),
			c07U(uint64(p.PreferredTime)), c07U(uint64(p.ValidTime))}
	}
	return []string{"nil"}
}

func c07RelayMsg6(m *dhcp6.Message) []string {
	if m == nil {
		return []string{"nil"}
	}
	o := m.Options
	toks := []string{c07U(uint64(m.MsgType)), c07TB(m.TransactionID[:]), c07TBN(o.ClientID), c07TBN(o.ServerID)}
	toks = append(toks, c07RelayIA(o.IANA, nil)...)
	toks = append(toks, c07RelayIA(nil, o.IAPD)...)
	toks = append(toks, c07U(uint64(len(o.DNS))))
	for _, d := range o.DNS {
		toks = append(toks, c07TB(d))
	}
	toks = append(toks, c07TBN(o.InterfaceID), c07TBN(o.RemoteID), c07TBN(o.ClientLinkLayerAddr), c07Bool(o.RapidCommit))
	if o.StatusCode != nil {
		toks = append(toks, c07U(uint64(o.StatusCode.Code)), c07TB([]byte(o.StatusCode.Message)))
	} else {
		toks = append(toks, "nil")
	}
	return toks
}

func c07Relay(entry string, n []uint64, f []string) string {
	data := c07Arg(f, 0)
	switch entry {
	case "bldrelay": // bldrelay <hop,enterprise,depth> <link> <peer> <ifid> <remote> <subscriber> <client>
		p := &RelayForwardParams{HopCount: uint8(c07Num(n, 0)), LinkAddress: net.IP(c07Arg(f, 0)), PeerAddress: net.IP(c07Arg(f, 1)),
			InterfaceID: c07Arg(f, 2), RemoteID: c07Arg(f, 3), EnterpriseNumber: uint32(c07Num(n, 1)), SubscriberID: c07Arg(f, 4)}
		msg := c07Arg(f, 5)
		for d := uint64(0); d < c07Num(n, 2); d++ {
			msg = BuildRelayForward(msg, p)
		}
		msg = append(make([]byte, 0, len(msg)), msg...)
		m, ri := dhcp6.UnwrapRelay(msg)
		toks := append([]string{c07TB(msg)}, c07RelayMsg6(m)...)
		if ri == nil {
			toks = append(toks, "nil")
		} else {
			toks = append(toks, c07U(uint64(ri.HopCount)), c07TB(ri.LinkAddr), c07TB(ri.PeerAddr), c07TBN(ri.InterfaceID),
				c07TBN(ri.RemoteID), c07TBN(ri.ClientLinkLayerAddr))
		}
		return c07Ok(toks...)
	case "bld82": // bld82 <includeFlags,unicast> <circuit-id> <remote-id>: BuildOption82 with literal formats
		cfg := &ip.Option82Config{CircuitIDFormat: string(c07Arg(f, 0)), RemoteIDFormat: string(c07Arg(f, 1)), IncludeFlags: c07Num(n, 0) != 0}
		out, err := BuildOption82(cfg, &Option82Params{}, c07Num(n, 1) != 0)
		if err != nil {
			return "err"
		}
		return c07Ok(c07TB(out))
	case "v6duid": // pkg/dhcp/relay/v6rewrite.go on a server reply
		return c07Ok(c07TBN(GetServerDUID(data)))
	case "v6repl":
		return c07Ok(c07TB(ReplaceServerDUID(data, c07Arg(f, 1))))
	case "v6life": // v6life <preferred>,<valid> <message>
		return c07Ok(c07TB(RewriteV6Lifetimes(data, uint32(c07Num(n, 0)), uint32(c07Num(n, 1)))))
	case "gihops": // gihops - <packet> <4-byte giaddr>: GetGIAddr, SetGIAddr, GetHops, IncrementHops (each on its own copy)
		g := GetGIAddr(append(make([]byte, 0, len(data)), data...))
		s := append(make([]byte, 0, len(data)), data...)
		SetGIAddr(s, net.IP(c07Arg(f, 1)))
		h := GetHops(data)
		i := append(make([]byte, 0, len(data)), data...)
		IncrementHops(i)
		return c07Ok(c07TBN(g), c07TB(s), c07U(uint64(h)), c07TB(i))
	case "o82ins": // o82ins <policy 0 replace|1 keep|2 drop> <pkt> <opt82>
		pol := "replace"
		switch c07Num(n, 0) {
		case 1:
			pol = "keep"
		case 2:
			pol = "drop"
		}
		return c07Ok(c07TB(InsertOption82(data, c07Arg(f, 1), pol)))
	case "o82strip":
		return c07Ok(c07TB(StripOption82(data)))
	case "setopt": // setopt <code> <pkt> <4-byte value>
		// both exported setters (SetOptionUint32 and SetOptionIP) on their own copies: they must agree for a 4-byte value
		v := c07Arg(f, 1)
		d1 := append(make([]byte, 0, len(data)), data...)
		d2 := append(make([]byte, 0, len(data)), data...)
		r1 := SetOptionUint32(d1, byte(c07Num(n, 0)), binary.BigEndian.Uint32(v))
		r2 := SetOptionIP(d2, byte(c07Num(n, 0)), net.IP(v))
		if string(r1) != string(r2) {
			return c07Ok(c07TB(r1), "SetOptionIP", c07TB(r2))
		}
		return c07Ok(c07TB(r1))
	case "getopt":
		v, ok := GetOptionUint32(data, byte(c07Num(n, 0)))
		ip := GetOptionIP(data, byte(c07Num(n, 0)))
		if !ok {
			if ip != nil {
				return "ok INCONSISTENT"
			}
			return "ok nil"
		}
		b := make([]byte, 4)
		binary.BigEndian.PutUint32(b, v)
		if string(b) != string(ip) {
			return "ok INCONSISTENT"
		}
		return c07Ok(c07TB(b))
	case "v6unwrap":
		inner, err := UnwrapRelayReply(data)
		if err != nil {
			switch {
			case strings.HasPrefix(err.Error(), "packet too short"):
				return "err"
			case strings.HasPrefix(err.Error(), "not a relay-reply"):
				return "err"
			}
			return "err"
		}
		return c07Ok(c07TB(inner))
	case "v6txid":
		x, ok := GetRelayTransactionID(data)
		if !ok {
			return "ok nil"
		}
		return c07Ok(c07TB(x[:]))
	}
	return "badline"
}

func TestVerifC07(t *testing.T) { c07Run(t, c07Relay) }
