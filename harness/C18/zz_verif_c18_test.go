//go:build verif

package upgrade

// C18 correspondence harness: drives the real Runner (Apply / Rollback) inside a sandbox created under
// t.TempDir(); no real system path is touched (the only absolute path the code under test hard-codes,
// /usr/local/bin/osvbngd for generate-external, goes through the injected Commander and is never executed).
//
// One case = one history:   h <ver> <fs> ; <op> ; <op> ...        (see props/C18.py for the grammar)
// One output line per case: per-op segments joined by " | ":
//     <res> j=<journal phase> cur=<current-manifest version> sn=<snapshot dirs with metadata> fs=<p0,..,p4>
//     mon=<ok|MIXED|na|-> ver=<ok|STALE|na|->
// A second case kind tests safeTarEntryPath:  name <hex>  ->  ok <hex of cleaned name> | rej

import (
	"archive/tar"
	"bufio"
	"bytes"
	"compress/gzip"
	"context"
	"crypto/ecdsa"
	"crypto/elliptic"
	"crypto/rand"
	"crypto/sha256"
	"crypto/x509"
	"encoding/base64"
	"encoding/hex"
	"encoding/json"
	"encoding/pem"
	"errors"
	"fmt"
	"os"
	"path/filepath"
	"sort"
	"strconv"
	"strings"
	"sync"
	"syscall"
	"testing"
	"time"
)

const vf18NPaths = 5

type vf18Crash struct{}

// Version ids of the case language map to deliberately confusable version strings: proper prefixes /
// suffixes of each other, last-digit-count, case, leading 'v', leading / trailing blank, +build suffix.
// The code compares versions by exact string equality, the model by id equality; the strings are
// pairwise distinct, so the two agree exactly when the code really compares whole strings.
var vf18Versions = []string{"0.13.0", "0.13.1", "0.13.2", "0.13.10", "0.13.1+dirty", "v0.13.1", "0.13.1 ", "0.13",
	"0.13.1-rc1", "0.13.1-RC1", "0.13.11", "10.13.1", " 0.13.1", "0.13.1-3-gabc1234", "0.13.01", "0.13.1.0"}

func vf18Ver(id string) string {
	n, err := strconv.Atoi(id)
	if err != nil || n < 0 {
		return "bad-" + id
	}
	if n < len(vf18Versions) {
		return vf18Versions[n]
	}
	return "9.9." + id
}

func vf18VerID(s string) string {
	for i, v := range vf18Versions {
		if v == s {
			return strconv.Itoa(i)
		}
	}
	if strings.HasPrefix(s, "9.9.") {
		if _, err := strconv.Atoi(s[4:]); err == nil {
			return s[4:]
		}
	}
	return "?"
}

type vf18Obst struct {
	p      int
	sticky bool
	file   bool // a stale REGULAR staging file (what a swap killed between write and rename leaves), with this mode
	mode   int
	link   bool // a stale SYMLINK at the staging name, pointing at node `mode` (artifact / outside file / nothing)
}

type vf18Sandbox struct {
	root    string
	paths   [vf18NPaths]string
	runner  *Runner
	key     *ecdsa.PrivateKey
	wrong   *ecdsa.PrivateKey
	opn     int
	base    map[int]string
	baseOK  bool
	hasBase bool
	baseVer string // version current-manifest named when the journal of the last apply was written
	baseRes map[int]string // what each artifact path of that apply resolved to (bytes read through the path)
	clean   bool           // no operator edit since then
	baseOwn map[int]string // owner (uid-gid) of every baseline path when the baseline was taken
	planted string         // directory planted to make saveCurrentManifest fail (fail label 36)
	order35 string         // "" unknown / "ok" / "BAD": did current-manifest.yaml land before the completed journal?
	inoFd   int
	ownMon  string
	aux     [vf18NPaths]string
}

// ---- fake Commander + Reporter (one per operation) ----
type vf18Fake struct {
	sb         *vf18Sandbox
	flowR      bool
	dead       bool
	fail       map[int]bool
	crash      int
	crashedAt  int
	ha, hr     string
	ob, rob    []vf18Obst
	reloadSeen [2]bool
	vppStopped bool
	vppStarted bool
	resumable  bool // the journal found by this apply is an interrupted upgrade (ForceRetry keeps its snapshot)
}

func (f *vf18Fake) off() int {
	if f.flowR {
		return 10
	}
	return 0
}

func (f *vf18Fake) point(lab int) {
	if f.crash == lab {
		f.dead = true
		f.crashedAt = lab
		panic(vf18Crash{})
	}
}

func (f *vf18Fake) flavour() string {
	if f.flowR {
		return f.hr
	}
	return f.ha
}

func (f *vf18Fake) Run(ctx context.Context, name string, args ...string) ([]byte, error) {
	if f.dead {
		return nil, errors.New("process is dead")
	}
	lab := 0
	a := strings.Join(args, " ")
	unit := f.sb.runner.SystemdUnit
	switch {
	case name == "systemctl" && a == "daemon-reload":
		idx := 0
		if f.flowR {
			idx = 1
		}
		if !f.reloadSeen[idx] {
			f.reloadSeen[idx] = true
			lab = 1
		}
	case name == "systemctl" && a == "stop "+unit:
		lab = 2
	case name == "/usr/local/bin/osvbngd":
		lab = 3
	case name == "systemctl" && a == "stop --no-block vpp.service":
		lab = 4
	case name == "systemctl" && a == "start --no-block vpp.service":
		lab = 5
	case name == "systemctl" && a == "start frr.service":
		lab = 7
	case name == "systemctl" && a == "start "+unit:
		lab = 8
	case name == "systemctl" && a == "show -p ActiveState --value vpp.service":
		switch {
		case f.vppStarted && f.fail[6+f.off()]:
			return []byte("activating\n"), nil
		case f.vppStarted:
			return []byte("active\n"), nil
		case f.vppStopped:
			return []byte("inactive\n"), nil
		}
		return []byte("active\n"), nil
	case name == "systemctl" && len(args) > 1 && args[0] == "show" && args[1] == unit:
		st := "active"
		if f.flavour() == "failed" {
			st = "failed"
		}
		return []byte("ActiveState=" + st + "\nSubState=running\nResult=success\n"), nil
	case name == f.sb.runner.BinaryPath:
		return []byte(vf18Ver("63") + " (verif) built on 2026-01-01T00:00:00Z\n"), nil
	default:
		return nil, nil
	}
	if lab == 0 {
		return nil, nil
	}
	lab += f.off()
	f.point(lab)
	if f.fail[lab] {
		return []byte("injected"), errors.New("injected failure")
	}
	switch lab % 10 {
	case 4:
		f.vppStopped, f.vppStarted = true, false
	case 5:
		f.vppStarted = true
		// No wall-clock race: the wait that follows can only time out when the case ASKS for "never active"
		// (then any stall still yields the same failure); otherwise the first poll answers "active" and the
		// deadline is far away.
		if f.fail[6+f.off()] {
			f.sb.runner.VPPActiveWait = 15 * time.Millisecond
		} else {
			f.sb.runner.VPPActiveWait = 30 * time.Second
		}
	case 8:
		f.writeHealth()
		if f.flavour() == "stale" || f.flavour() == "stalep" { // the flavours whose outcome IS the timeout
			f.sb.runner.HealthTimeout = 25 * time.Millisecond
		} else {
			f.sb.runner.HealthTimeout = 30 * time.Second
		}
	}
	return nil, nil
}

func (f *vf18Fake) writeHealth() {
	var j struct {
		From string `json:"from"`
		To   string `json:"to"`
	}
	data, _ := os.ReadFile(filepath.Join(f.sb.runner.StateRoot, "upgrade-state.json"))
	_ = json.Unmarshal(data, &j)
	v := j.To
	if f.flowR {
		v = j.From
	}
	state := "ready"
	switch f.flavour() {
	case "degraded":
		state = "degraded"
	case "invalid":
		state = "weird"
	case "stale":
		// the daemon that answers is NOT the expected version, but its version string is as close as it gets:
		// the expected one plus a suffix (a comparison by prefix would accept it) ...
		v = v + "0"
	case "stalep":
		// ... or a proper prefix of the expected one (a comparison the other way round would accept it)
		if len(v) > 1 {
			v = v[:len(v)-1]
		} else {
			v = "x" + v
		}
	}
	payload := fmt.Sprintf(`{"state":%q,"sequence":3,"updated_at":"2026-01-01T00:00:00Z","version":%q}`, state, v)
	_ = os.WriteFile(f.sb.runner.StateFile, []byte(payload), 0o644)
}

func (f *vf18Fake) Stage(step, total int, name string) {
	if f.dead {
		return
	}
	lab := 20 + step
	if total == 5 {
		f.flowR = true
		lab = 40 + step
	}
	f.point(lab)
	if lab == 25 && f.fail[36] && !f.resumable {
		// fail label 36: make saveCurrentManifest (the statement after Snapshot) fail through the real code:
		// its rename target inside the snapshot directory is occupied by a non-empty directory.  Snapshot itself
		// never touches that name.  The harness removes the directory again after the operation, which leaves
		// exactly what a death between Snapshot and saveCurrentManifest leaves: metadata, no saved manifest.
		if from, err := f.sb.runner.discoverCurrentVersion(context.Background()); err == nil {
			d := filepath.Join(f.sb.runner.RollbackRoot, from, "current-manifest.yaml")
			if _, err := os.Lstat(d); err == nil {
				// a copy saved by an earlier upgrade from the same version: put it aside, it comes back afterwards
				_ = os.Rename(d, d+".verif-aside")
			}
			if os.MkdirAll(d, 0o755) == nil && os.WriteFile(filepath.Join(d, "keep"), []byte("x"), 0o644) == nil {
				f.sb.planted = d
			}
		}
	}
	if lab == 32 {
		f.sb.watch35()
	}
	if lab == 33 {
		f.sb.check35()
	}
	if lab == 29 {
		f.sb.installObstacles(f.ob)
	}
	if lab == 43 {
		f.sb.installObstacles(f.rob)
	}
}
func (f *vf18Fake) Progress(string) {}
func (f *vf18Fake) Detail(string)   {}
func (f *vf18Fake) Warn(msg string) {
	if f.dead {
		return
	}
	switch {
	case strings.HasPrefix(msg, "swap loop failed"):
		f.point(51)
	case strings.HasPrefix(msg, "triggering auto-rollback"):
		f.point(52)
		f.flowR = true
	case strings.HasPrefix(msg, "health failed"):
		f.point(53)
	}
}

// Label 35 (death between WriteCurrentManifest and the "completed" phase write) has no injectable call, so the
// harness builds that state itself (die at Stage 12, then run WriteCurrentManifest).  That is only right while
// ApplyOne commits in this order; the order is therefore OBSERVED on every apply that passes stage 12: inotify
// records the renames landing in the state directory between Stage(12) and Stage(13).
func (sb *vf18Sandbox) watch35() {
	sb.order35 = ""
	fd, err := syscall.InotifyInit1(syscall.IN_NONBLOCK | syscall.IN_CLOEXEC)
	if err != nil {
		sb.order35 = "NOINOTIFY"
		return
	}
	if _, err := syscall.InotifyAddWatch(fd, sb.runner.StateRoot, syscall.IN_MOVED_TO); err != nil {
		_ = syscall.Close(fd)
		sb.order35 = "NOINOTIFY"
		return
	}
	sb.inoFd = fd
}

func (sb *vf18Sandbox) check35() {
	if sb.inoFd <= 0 {
		return
	}
	defer func() { _ = syscall.Close(sb.inoFd); sb.inoFd = 0 }()
	buf := make([]byte, 8192)
	n, _ := syscall.Read(sb.inoFd, buf)
	var names []string
	for off := 0; off+16 <= n; {
		l := int(uint32(buf[off+12]) | uint32(buf[off+13])<<8 | uint32(buf[off+14])<<16 | uint32(buf[off+15])<<24)
		name := strings.TrimRight(string(buf[off+16:off+16+l]), "\x00")
		names = append(names, name)
		off += 16 + l
	}
	im, ij := -1, -1
	for i, nm := range names {
		if nm == "current-manifest.yaml" && im < 0 {
			im = i
		}
		if nm == "upgrade-state.json" {
			ij = i
		}
	}
	if im >= 0 && ij > im {
		sb.order35 = "ok"
	} else {
		sb.order35 = "BAD:" + strings.Join(names, "+")
	}
}

// ---- sandbox ----
func vf18NewSandbox(root string, key, wrong *ecdsa.PrivateKey, pubPEM []byte) (*vf18Sandbox, error) {
	sb := &vf18Sandbox{root: root, key: key, wrong: wrong, ownMon: "-"}
	inst := filepath.Join(root, "inst")
	for _, d := range []string{inst, filepath.Join(inst, "sub"), filepath.Join(root, "state"), filepath.Join(root, "run", "systemd"),
		filepath.Join(root, "keys"), filepath.Join(root, "tb")} {
		if err := os.MkdirAll(d, 0o755); err != nil {
			return nil, err
		}
	}
	sb.paths = [vf18NPaths]string{filepath.Join(inst, "a0"), filepath.Join(inst, "a1"), filepath.Join(inst, "a2"),
		filepath.Join(inst, "sub", "a0"), filepath.Join(inst, "newdir", "a4")} // node 3 shares its BASENAME with node 0
	if err := os.MkdirAll(filepath.Join(root, "aux"), 0o755); err != nil {
		return nil, err
	}
	for i := range sb.aux {
		sb.aux[i] = filepath.Join(root, "aux", "x"+strconv.Itoa(i)) // outside every artifact directory
	}
	if err := os.WriteFile(filepath.Join(root, "keys", "cosign.pub"), pubPEM, 0o644); err != nil {
		return nil, err
	}
	state := filepath.Join(root, "state")
	sb.runner = &Runner{
		BinaryPath:      sb.paths[0],
		CLIPath:         sb.paths[1],
		PluginDir:       inst,
		TemplateDir:     inst,
		StateRoot:       state,
		RollbackRoot:    filepath.Join(state, "rollback"),
		QuarantineDir:   filepath.Join(state, "quarantine"),
		StateFile:       filepath.Join(root, "run", "state"),
		VPPSocketPath:   filepath.Join(root, "run", "sock"),
		SystemdUnit:     "osvbng.service",
		DropInRoot:      filepath.Join(root, "run", "systemd"),
		PubKey:          filepath.Join(root, "keys", "cosign.pub"),
		HealthTimeout:   30 * time.Second, // set per daemon start by the fake, see vf18Fake.Run
		PollInterval:    time.Millisecond,
		StallLimit:      30 * time.Second,
		StateFileGrace:  30 * time.Second, // the state file is always written before the first poll
		VPPStopWait:     30 * time.Second, // the fake answers "inactive" at the first poll
		VPPActiveWait:   30 * time.Second, // set per vpp start by the fake
		VPPPollInterval: time.Millisecond,
	}
	return sb, nil
}

func vf18UnixMode(m os.FileMode) int {
	u := int(m.Perm())
	if m&os.ModeSetuid != 0 {
		u |= 0o4000
	}
	if m&os.ModeSetgid != 0 {
		u |= 0o2000
	}
	if m&os.ModeSticky != 0 {
		u |= 0o1000
	}
	return u
}

func vf18GoMode(u int) os.FileMode {
	m := os.FileMode(u & 0o777)
	if u&0o4000 != 0 {
		m |= os.ModeSetuid
	}
	if u&0o2000 != 0 {
		m |= os.ModeSetgid
	}
	if u&0o1000 != 0 {
		m |= os.ModeSticky
	}
	return m
}

// content id 0 is the empty file
func vf18Content(c int) []byte {
	if c == 0 {
		return []byte{}
	}
	return []byte("C" + strconv.Itoa(c) + "\n")
}

func vf18ContentID(b []byte) string {
	s := string(b)
	if s == "" {
		return "0"
	}
	if strings.HasPrefix(s, "C") && strings.HasSuffix(s, "\n") {
		if n, err := strconv.Atoi(s[1 : len(s)-1]); err == nil && n > 0 && "C"+strconv.Itoa(n)+"\n" == s {
			return strconv.Itoa(n)
		}
	}
	return "?"
}

// node ids: 0..4 artifact paths, 100..104 auxiliary files outside the artifact directories
func (sb *vf18Sandbox) pathOf(id int) (string, bool) {
	switch {
	case id >= 0 && id < vf18NPaths:
		return sb.paths[id], true
	case id >= 100 && id < 100+vf18NPaths:
		return sb.aux[id-100], true
	}
	return "", false
}

func (sb *vf18Sandbox) idOfPath(p string) (int, bool) {
	for i := 0; i < vf18NPaths; i++ {
		if sb.paths[i] == p {
			return i, true
		}
		if sb.aux[i] == p {
			return 100 + i, true
		}
	}
	return 0, false
}

// bytes read THROUGH the path (symlinks followed); "x" when that fails
func (sb *vf18Sandbox) resolved(id int) string {
	p, _ := sb.pathOf(id)
	b, err := os.ReadFile(p)
	if err != nil {
		return "x"
	}
	return vf18ContentID(b)
}

// spec: r<c>.<octal> | s<t> | d | x
func (sb *vf18Sandbox) setFile(p int, spec string) error {
	own := ""
	if i := strings.IndexByte(spec, '@'); i >= 0 {
		spec, own = spec[:i], spec[i+1:]
	}
	if err := sb.setFile0(p, spec); err != nil {
		return err
	}
	if own != "" && os.Geteuid() == 0 {
		var u, g int
		fmt.Sscanf(own, "%d-%d", &u, &g)
		path, _ := sb.pathOf(p)
		if err := os.Lchown(path, u, g); err != nil {
			return err
		}
		if spec != "" && spec[0] == 'r' { // chown strips setuid/setgid: set the mode again
			parts := strings.SplitN(spec[1:], ".", 2)
			m, _ := strconv.ParseInt(parts[1], 8, 32)
			return os.Chmod(path, vf18GoMode(int(m)))
		}
	}
	return nil
}

func (sb *vf18Sandbox) setFile0(p int, spec string) error {
	path, ok := sb.pathOf(p)
	if !ok {
		return fmt.Errorf("bad node id %d", p)
	}
	_ = os.RemoveAll(path)
	if spec == "x" {
		return nil
	}
	if err := os.MkdirAll(filepath.Dir(path), 0o755); err != nil {
		return err
	}
	switch spec[0] {
	case 'd':
		return os.Mkdir(path, 0o755)
	case 's':
		t, _ := strconv.Atoi(spec[1:])
		if tp, ok := sb.pathOf(t); ok {
			return os.Symlink(tp, path)
		}
		return os.Symlink("T"+spec[1:], path)
	case 'r':
		parts := strings.SplitN(spec[1:], ".", 2)
		c, _ := strconv.Atoi(parts[0])
		m, _ := strconv.ParseInt(parts[1], 8, 32)
		if err := os.WriteFile(path, vf18Content(c), 0o600); err != nil {
			return err
		}
		return os.Chmod(path, vf18GoMode(int(m)))
	}
	return fmt.Errorf("bad spec %q", spec)
}

func (sb *vf18Sandbox) readFile(p int) string {
	path, _ := sb.pathOf(p)
	info, err := os.Lstat(path)
	if err != nil {
		return "x"
	}
	switch {
	case info.Mode()&os.ModeSymlink != 0:
		t, _ := os.Readlink(path)
		if id, ok := sb.idOfPath(t); ok {
			return "s" + strconv.Itoa(id)
		}
		return "s" + strings.TrimPrefix(t, "T")
	case info.IsDir():
		return "d"
	case info.Mode().IsRegular():
		b, _ := os.ReadFile(path)
		return "r" + vf18ContentID(b) + "." + strconv.FormatInt(int64(vf18UnixMode(info.Mode())), 8)
	}
	return "?"
}

func (sb *vf18Sandbox) dump() []string {
	out := make([]string, vf18NPaths)
	for p := 0; p < vf18NPaths; p++ {
		out[p] = sb.readFile(p)
	}
	return out
}

func (sb *vf18Sandbox) obstPath(p int) string {
	return filepath.Join(filepath.Dir(sb.paths[p]), "."+filepath.Base(sb.paths[p])+".new")
}

func (sb *vf18Sandbox) installObstacles(l []vf18Obst) {
	for _, o := range l { // directories first, then leftover files (the model's order)
		if o.file {
			continue
		}
		d := sb.obstPath(o.p)
		_ = os.RemoveAll(d)
		if err := os.MkdirAll(d, 0o755); err != nil {
			continue
		}
		if o.sticky {
			_ = os.WriteFile(filepath.Join(d, "keep"), []byte("x"), 0o644)
		}
	}
	for _, o := range l {
		if !o.file {
			continue
		}
		d := sb.obstPath(o.p)
		_ = os.RemoveAll(d)
		if os.MkdirAll(filepath.Dir(d), 0o755) != nil {
			continue
		}
		if o.link {
			if tp, ok := sb.pathOf(o.mode); ok {
				_ = os.Symlink(tp, d)
			} else {
				_ = os.Symlink(filepath.Join(sb.root, "aux", "nowhere"+strconv.Itoa(o.mode)), d)
			}
			continue
		}
		if os.WriteFile(d, []byte("half-written bytes of a swap that was killed\n"), 0o600) == nil {
			_ = os.Chmod(d, vf18GoMode(o.mode))
		}
	}
}

func (sb *vf18Sandbox) clearObstacles() {
	for p := 0; p < vf18NPaths; p++ {
		_ = os.RemoveAll(sb.obstPath(p))
	}
}

func (sb *vf18Sandbox) plantCurrent(v string) error {
	y := fmt.Sprintf("schema_version: 2\nosvbng_version: %q\nmin_compatible_version: v0\ntype: A\nbuild_commit: planted\nartifacts:\n  - path: %s\n    source: m0\n    sha256: %s\n    requires_restart: none\n",
		v, sb.paths[0], strings.Repeat("0", 64))
	return os.WriteFile(filepath.Join(sb.runner.StateRoot, "current-manifest.yaml"), []byte(y), 0o644)
}

type vf18Journal struct {
	From      string `json:"from"`
	To        string `json:"to"`
	Phase     string `json:"phase"`
	StartedAt string `json:"started_at"`
}

func (sb *vf18Sandbox) journal() (*vf18Journal, string) {
	data, err := os.ReadFile(filepath.Join(sb.runner.StateRoot, "upgrade-state.json"))
	if err != nil {
		return nil, ""
	}
	var j vf18Journal
	if json.Unmarshal(data, &j) != nil {
		return nil, ""
	}
	return &j, j.From + "|" + j.To + "|" + j.StartedAt
}

func (sb *vf18Sandbox) phase() string {
	j, _ := sb.journal()
	if j == nil {
		return "none"
	}
	return sb.rawPhase(j) + ":" + vf18VerID(j.From) + ">" + vf18VerID(j.To)
}

// an interrupted upgrade whose snapshot completed (journal neither finished nor at "started")
func vf18Resumable(j *vf18Journal) bool {
	if j == nil {
		return false
	}
	switch j.Phase {
	case "completed", "rolled_back", "started":
		return false
	}
	return true
}

func (sb *vf18Sandbox) rawPhase(j *vf18Journal) string {
	for _, pre := range []string{"swapping:", "swapped:"} {
		if strings.HasPrefix(j.Phase, pre) {
			rest := strings.TrimPrefix(j.Phase, pre)
			for p := 0; p < vf18NPaths; p++ {
				if sb.paths[p] == rest {
					return pre + strconv.Itoa(p)
				}
			}
			return pre + "?"
		}
	}
	return j.Phase
}

func (sb *vf18Sandbox) observe(res, mon string) string {
	return sb.observeVer(res, mon, "-", "-")
}

func (sb *vf18Sandbox) curVersion() string {
	if m, err := ParseManifestFile(filepath.Join(sb.runner.StateRoot, "current-manifest.yaml")); err == nil {
		return vf18VerID(m.OsvbngVersion)
	} else if errors.Is(err, os.ErrNotExist) {
		return "63" // no current-manifest: discovery asks the binary, which the fake answers with version id 63
	}
	return "?"
}

// ownership monitor (harness only; the model has no owners): after ok every artifact is owned as the manifest says
// (uid/gid -1 = the creating user), after a reported rollback every baseline path is owned as when the baseline was taken
func (sb *vf18Sandbox) ownRestored() string {
	if !sb.hasBase {
		return "na"
	}
	for p, want := range sb.baseOwn {
		if vf18Own(sb.paths[p]) != want {
			return "BAD"
		}
	}
	return "ok"
}

func (sb *vf18Sandbox) observeVer(res, mon, ver, rm string) string {
	cur := "?"
	if m, err := ParseManifestFile(filepath.Join(sb.runner.StateRoot, "current-manifest.yaml")); err == nil {
		cur = vf18VerID(m.OsvbngVersion)
	} else if errors.Is(err, os.ErrNotExist) {
		cur = "63"
	}
	var sn []int
	if ents, err := os.ReadDir(sb.runner.RollbackRoot); err == nil {
		for _, e := range ents {
			if _, err := os.Stat(filepath.Join(sb.runner.RollbackRoot, e.Name(), "metadata.yaml")); err == nil {
				n, err := strconv.Atoi(vf18VerID(e.Name()))
				if err != nil {
					n = -1
				}
				sn = append(sn, n)
			}
		}
	}
	sort.Ints(sn)
	sns := "-"
	if len(sn) > 0 {
		parts := make([]string, len(sn))
		for i, n := range sn {
			parts[i] = strconv.Itoa(n)
		}
		sns = strings.Join(parts, "+")
	}
	ax := make([]string, vf18NPaths)
	rv := make([]string, vf18NPaths)
	for i := 0; i < vf18NPaths; i++ {
		ax[i] = sb.readFile(100 + i)
		rv[i] = sb.resolved(i)
	}
	return fmt.Sprintf("%s j=%s cur=%s sn=%s fs=%s ax=%s rv=%s mon=%s ver=%s rm=%s", res, sb.phase(), cur, sns,
		strings.Join(sb.dump(), ","), strings.Join(ax, ","), strings.Join(rv, ","), mon, ver, rm) + " own=" + sb.ownMon
}

// ---- tarball construction ----
type vf18Art struct {
	p    int
	c    int
	mode string // "e" empty, "b" bad, octal digits
	rc   string
	uid  int // manifest uid / gid; -1 = leave as created
	gid  int
}

func vf18ParseArts(s string) []vf18Art {
	var arts []vf18Art
	for _, it := range strings.Split(s, ",") {
		f := strings.Split(it, ":")
		p, _ := strconv.Atoi(f[0])
		c, _ := strconv.Atoi(f[1])
		a := vf18Art{p: p, c: c, mode: f[2], rc: f[3], uid: -1, gid: -1}
		if len(f) >= 6 && os.Geteuid() == 0 { // ownership can only be exercised as root
			a.uid, _ = strconv.Atoi(f[4])
			a.gid, _ = strconv.Atoi(f[5])
		}
		arts = append(arts, a)
	}
	return arts
}

func vf18Own(path string) string {
	fi, err := os.Lstat(path)
	if err != nil {
		return "x"
	}
	if st, ok := fi.Sys().(*syscall.Stat_t); ok {
		return fmt.Sprintf("%d-%d", st.Uid, st.Gid)
	}
	return "?"
}

type vf18Member struct {
	name string
	body []byte
	typ  byte
	link string
}

// tarball member name of artifact i: flat, in a sub-directory, and two members with the same basename
func vf18Src(i int) string {
	switch i % 4 {
	case 1:
		return "bin/m"
	case 2:
		return "plugins/m"
	}
	return "m" + strconv.Itoa(i)
}

func vf18Sha(b []byte) string {
	h := sha256.Sum256(b)
	return hex.EncodeToString(h[:])
}

func vf18Sign(k *ecdsa.PrivateKey, data []byte) []byte {
	d := sha256.Sum256(data)
	sig, _ := ecdsa.SignASN1(rand.Reader, k, d[:])
	return []byte(base64.StdEncoding.EncodeToString(sig) + "\n")
}

func vf18Tar(members []vf18Member) []byte {
	var buf bytes.Buffer
	gz := gzip.NewWriter(&buf)
	tw := tar.NewWriter(gz)
	for _, m := range members {
		typ := m.typ
		if typ == 0 {
			typ = tar.TypeReg
		}
		hdr := &tar.Header{Name: m.name, Mode: 0o644, Typeflag: typ, Linkname: m.link}
		if typ == tar.TypeReg {
			hdr.Size = int64(len(m.body))
		}
		if typ == tar.TypeDir {
			hdr.Mode = 0o755
		}
		_ = tw.WriteHeader(hdr)
		if typ == tar.TypeReg {
			_, _ = tw.Write(m.body)
		}
	}
	_ = tw.Close()
	_ = gz.Close()
	return buf.Bytes()
}

func vf18KV(tokens []string) map[string]string {
	m := map[string]string{}
	for _, t := range tokens {
		if i := strings.IndexByte(t, '='); i > 0 {
			m[t[:i]] = t[i+1:]
		}
	}
	return m
}

func vf18Obsts(s string) []vf18Obst {
	var out []vf18Obst
	if s == "-" || s == "" {
		return nil
	}
	for _, it := range strings.Split(s, ",") {
		parts := strings.Split(it, ":")
		p, _ := strconv.Atoi(parts[0])
		if len(parts) > 1 && strings.HasPrefix(parts[1], "f") {
			m, _ := strconv.ParseInt(parts[1][1:], 8, 32)
			out = append(out, vf18Obst{p: p, file: true, mode: int(m)})
			continue
		}
		if len(parts) > 1 && strings.HasPrefix(parts[1], "l") {
			t, _ := strconv.Atoi(parts[1][1:])
			out = append(out, vf18Obst{p: p, file: true, link: true, mode: t})
			continue
		}
		out = append(out, vf18Obst{p: p, sticky: len(parts) > 1 && parts[1] == "s"})
	}
	return out
}

func vf18Fails(s string) map[int]bool {
	m := map[int]bool{}
	if s == "-" || s == "" {
		return m
	}
	for _, it := range strings.Split(s, ",") {
		n, _ := strconv.Atoi(it)
		m[n] = true
	}
	return m
}

func (sb *vf18Sandbox) newFake(kv map[string]string, rollback bool) *vf18Fake {
	f := &vf18Fake{sb: sb, flowR: rollback, fail: vf18Fails(kv["fail"]), ha: kv["ha"], hr: kv["hr"],
		ob: vf18Obsts(kv["ob"]), rob: vf18Obsts(kv["rob"])}
	if c := kv["crash"]; c != "-" && c != "" {
		f.crash, _ = strconv.Atoi(c)
	}
	sb.runner.Cmd = f
	sb.runner.Reporter = f
	return f
}

func (sb *vf18Sandbox) buildTarball(kv map[string]string, arts []vf18Art) (string, error) {
	sb.opn++
	dir := filepath.Join(sb.root, "tb", strconv.Itoa(sb.opn))
	if err := os.MkdirAll(dir, 0o755); err != nil {
		return "", err
	}
	tarPath := filepath.Join(dir, "up.tar.gz")
	tam := kv["tam"]
	var y strings.Builder
	typ := "A"
	if tam == "tierb" {
		typ = "B"
	}
	fmt.Fprintf(&y, "schema_version: 2\nosvbng_version: %q\nmin_compatible_version: v0\n", vf18Ver(kv["to"]))
	var members []vf18Member
	prev := kv["prev"]
	if prev != "-" && prev != "" {
		cls := prev[len(prev)-1]
		pv := prev[:len(prev)-1]
		pm := []byte(fmt.Sprintf("schema_version: 2\nosvbng_version: %q\n# previous manifest\n", vf18Ver(pv)))
		sha := vf18Sha(pm)
		if cls == 'h' {
			sha = vf18Sha([]byte("other"))
		}
		fmt.Fprintf(&y, "previous_version: %q\nprevious_manifest_sha256: %s\n", vf18Ver(pv), sha)
		if cls != 'f' {
			k := sb.key
			if cls == 'g' {
				k = sb.wrong
			}
			members = append(members, vf18Member{name: "prev/manifest.yaml", body: pm},
				vf18Member{name: "prev/manifest.yaml.sig", body: vf18Sign(k, pm)})
		}
	}
	fmt.Fprintf(&y, "type: %s\nbuild_commit: verif\nartifacts:\n", typ)
	bodies := make([][]byte, len(arts))
	for i, a := range arts {
		bodies[i] = vf18Content(a.c)
	}
	digestOf := func(i int) string { return vf18Sha(bodies[i]) }
	memberBody := func(i int) []byte { return bodies[i] }
	switch {
	case strings.HasPrefix(tam, "dig"):
		k, _ := strconv.Atoi(tam[3:])
		k %= len(arts)
		old := memberBody
		memberBody = func(i int) []byte {
			if i == k {
				return append([]byte("evil-"), old(i)...)
			}
			return old(i)
		}
	case tam == "swapm":
		memberBody = func(i int) []byte {
			if len(arts) < 2 {
				return []byte("evil")
			}
			if i == 0 {
				return append([]byte("x"), bodies[1]...)
			}
			if i == 1 {
				return append([]byte("y"), bodies[0]...)
			}
			return bodies[i]
		}
	}
	for i, a := range arts {
		rc := map[string]string{"o": "osvbngd", "v": "vpp", "b": "both", "n": "none"}[a.rc]
		src := vf18Src(i)
		if tam == "nosrc" && i == len(arts)-1 {
			src = "absent-member"
		}
		if tam == "dupman" && i == 1 {
			src = vf18Src(0) // one member listed twice in the manifest (the generator gives both artifacts the same content)
		}
		fmt.Fprintf(&y, "  - path: %s\n    source: %s\n    sha256: %s\n", sb.paths[a.p], src, digestOf(i))
		switch a.mode {
		case "e":
		case "b":
			fmt.Fprintf(&y, "    mode: \"0999\"\n")
		default:
			fmt.Fprintf(&y, "    mode: \"%s\"\n", a.mode)
		}
		fmt.Fprintf(&y, "    uid: %d\n    gid: %d\n    requires_restart: %s\n", a.uid, a.gid, rc)
		if i == 0 && strings.HasPrefix(tam, "dup") && tam != "dupman" {
			// the same member name twice in the archive; the later entry is what a correct extractor ends up with
			good := memberBody(0)
			long := append(append([]byte{}, good...), []byte("-TAIL-OF-A-LONGER-FIRST-BODY\n")...)
			short := []byte{}
			if len(good) == 0 {
				short = []byte("J")
			}
			switch tam {
			case "dupl": // longer wrong body first, vouched body second: admissible
				members = append(members, vf18Member{name: "m0", body: long}, vf18Member{name: "m0", body: good})
			case "dups": // shorter wrong body first
				members = append(members, vf18Member{name: "m0", body: short}, vf18Member{name: "m0", body: good})
			case "duplr": // vouched body first, longer wrong body last: digest mismatch
				members = append(members, vf18Member{name: "m0", body: good}, vf18Member{name: "m0", body: long})
			case "dupsr":
				members = append(members, vf18Member{name: "m0", body: good}, vf18Member{name: "m0", body: short})
			default:
				members = append(members, vf18Member{name: "m0", body: good})
			}
			continue
		}
		members = append(members, vf18Member{name: vf18Src(i), body: memberBody(i)})
	}
	hookBody := []byte("#!/bin/sh\nexit 0\n")
	switch kv["hook"] {
	case "h":
		fmt.Fprintf(&y, "hooks:\n  pre:\n    path: hooks/pre.sh\n    sha256: %s\n", vf18Sha([]byte("something else")))
		members = append(members, vf18Member{name: "hooks/pre.sh", body: hookBody})
	case "m":
		fmt.Fprintf(&y, "hooks:\n  pre:\n    path: hooks/pre.sh\n    sha256: %s\n", vf18Sha(hookBody))
	case "p": // a POST hook whose digest does not match: must only warn, the apply has already succeeded
		fmt.Fprintf(&y, "hooks:\n  post:\n    path: hooks/post.sh\n    sha256: %s\n", vf18Sha([]byte("something else")))
		members = append(members, vf18Member{name: "hooks/post.sh", body: hookBody})
	}
	if tam != "nomanifest" {
		members = append([]vf18Member{{name: "manifest.yaml", body: []byte(y.String())}}, members...)
	}
	// escaping members: each one, if honoured, would overwrite installed artifact a0
	rel, _ := filepath.Rel(filepath.Join(dir, "osvbng-upgrade-XXXX"), sb.paths[0])
	evil := []byte("EVIL\n")
	switch tam {
	case "dotdot":
		members = append(members, vf18Member{name: rel, body: evil})
	case "deepdot":
		members = append(members, vf18Member{name: "x/y/../../" + rel, body: evil})
	case "abs":
		members = append(members, vf18Member{name: sb.paths[0], body: evil})
	case "symlink":
		members = append(members, vf18Member{name: "lnk", typ: tar.TypeSymlink, link: filepath.Dir(sb.paths[0])},
			vf18Member{name: "lnk/a0", body: evil})
	case "hardlink":
		members = append(members, vf18Member{name: "hl", typ: tar.TypeLink, link: sb.paths[0]})
	}
	data := vf18Tar(members)
	sigKey := sb.key
	sig := kv["sig"]
	if sig == "wkey" {
		sigKey = sb.wrong
	}
	sigBytes := vf18Sign(sigKey, data)
	if sig == "flip" {
		data[5] ^= 0x40 // gzip MTIME byte: the archive still decompresses, the signed digest no longer matches
	}
	if strings.HasPrefix(sig, "flip") && len(sig) == 5 { // flip1..flip9: one bit somewhere else in the archive
		k := int(sig[4] - '0')
		data[(len(data)-1)*k/9] ^= 1 << uint(k%8)
	}
	if sig == "garb" {
		sigBytes = []byte("!!! not base64 !!!\n")
	}
	if err := os.WriteFile(tarPath, data, 0o644); err != nil {
		return "", err
	}
	if sig != "none" {
		if err := os.WriteFile(tarPath+".sig", sigBytes, 0o644); err != nil {
			return "", err
		}
	}
	return tarPath, nil
}

func vf18ExpectedNew(a vf18Art) string {
	m := 0o644
	if a.mode != "e" {
		v, _ := strconv.ParseInt(a.mode, 8, 32)
		m = int(v) & 0o777
	}
	return "r" + strconv.Itoa(a.c) + "." + strconv.FormatInt(int64(m), 8)
}

func (sb *vf18Sandbox) monRestored(cur []string) string {
	if !sb.hasBase {
		return "na"
	}
	for p, want := range sb.base {
		if cur[p] != want {
			return "MIXED"
		}
	}
	return "ok"
}

// resolved-content monitor: after a reported rollback every artifact path of the upgrade reads (through
// symlinks) as it did before the upgrade, unless the operator edited something in between
func (sb *vf18Sandbox) resRestored() string {
	if !sb.hasBase || !sb.clean {
		return "na"
	}
	for p, want := range sb.baseRes {
		if sb.resolved(p) != want {
			return "MIXED"
		}
	}
	return "ok"
}

func (sb *vf18Sandbox) verRestored() string {
	if !sb.hasBase {
		return "na"
	}
	if sb.curVersion() != sb.baseVer {
		return "STALE"
	}
	return "ok"
}

func (sb *vf18Sandbox) doApply(tokens []string) string {
	kv := vf18KV(tokens)
	arts := vf18ParseArts(kv["arts"])
	tarPath, err := sb.buildTarball(kv, arts)
	if err != nil {
		return "harness-error:" + strings.ReplaceAll(err.Error(), " ", "_")
	}
	fake := sb.newFake(kv, false)
	afterCommit := fake.crash == 35
	if afterCommit {
		fake.crash = 32
	}
	jPrior, _ := sb.journal()
	resumable := vf18Resumable(jPrior)
	fake.resumable = resumable
	sb.order35 = "" 
	opts := ApplyOptions{ForceRetry: kv["force"] == "1"}
	if e := kv["exp"]; e != "-" && e != "" {
		opts.ExpectedFrom = vf18Ver(e)
	}
	pre := sb.dump()
	preRes := map[int]string{}
	for _, a := range arts {
		preRes[a.p] = sb.resolved(a.p)
	}
	preVer := sb.curVersion()
	preOwn := map[int]string{}
	for _, a := range arts {
		preOwn[a.p] = vf18Own(sb.paths[a.p])
	}
	_, jidBefore := sb.journal()
	res := "?"
	func() {
		defer func() {
			if r := recover(); r != nil {
				if _, ok := r.(vf18Crash); ok {
					res = "crash"
				} else {
					res = "panic:" + strings.ReplaceAll(fmt.Sprint(r), " ", "_")
				}
			}
		}()
		ar, err := sb.runner.ApplyOne(context.Background(), tarPath, opts)
		switch {
		case err == nil && ar != nil && ar.JournalEndPhase == "completed":
			res = "ok"
		case err == nil:
			res = "ok?"
		case strings.Contains(err.Error(), "auto-rollback succeeded"):
			res = "err:rolledback"
		case strings.Contains(err.Error(), "auto-rollback also failed"):
			res = "err:rbfailed"
		default:
			res = "err"
		}
	}()
	if afterCommit && res == "crash" && fake.crashedAt == 32 {
		// label 35: the process dies between WriteCurrentManifest and the "completed" phase write.  No
		// injectable call sits between the two statements, so the state is constructed with the real code:
		// die at Stage 12 (nothing of stage 12 has run yet), then execute the stage's first statement.
		if st, err := ExtractTarball(tarPath); err == nil {
			_ = WriteCurrentManifest(sb.runner.StateRoot, st.Manifest)
			_ = st.Cleanup()
		} else {
			res = "harness-error"
		}
	}
	if sb.planted != "" {
		_ = os.RemoveAll(sb.planted)
		if _, err := os.Lstat(sb.planted + ".verif-aside"); err == nil {
			_ = os.Rename(sb.planted+".verif-aside", sb.planted)
		}
		sb.planted = ""
	}
	if sb.inoFd > 0 {
		_ = syscall.Close(sb.inoFd)
		sb.inoFd = 0
	}
	if sb.order35 != "" && sb.order35 != "ok" {
		res += "!commit-order:" + sb.order35
	}
	j, jid := sb.journal()
	if j != nil && jid != jidBefore && !resumable {
		// Baseline of the monitors = the installed state when an upgrade starts on a box that is NOT in the
		// middle of an interrupted upgrade.  An apply that continues an interrupted upgrade (ForceRetry) does
		// not move it: "before the upgrade" stays the last state no upgrade had touched.
		sb.baseVer = preVer
		sb.baseRes = preRes
		sb.clean = true
		sb.hasBase = true
		sb.base = map[int]string{}
		sb.baseOwn = preOwn
		for _, a := range arts {
			sb.base[a.p] = pre[a.p]
		}
	}
	now := sb.dump()
	mon, ver, rm := "-", "-", "-"
	switch res {
	case "ok":
		mon, ver = "ok", "ok"
		// every path this upgrade episode may have replaced (the baseline paths: the artifacts of the first
		// attempt since the box was last not mid-upgrade) must be an artifact of THIS tarball: otherwise it can
		// hold the bytes of an interrupted attempt at another version while success is reported
		inTar := map[int]bool{}
		for _, a := range arts {
			inTar[a.p] = true
		}
		for p := range sb.base {
			if !inTar[p] {
				mon = "MIXED"
			}
		}
		for _, a := range arts {
			if now[a.p] != vf18ExpectedNew(a) {
				mon = "MIXED"
			}
			// independent of the decoding above: the installed bytes are exactly the bytes whose sha256 the
			// signed manifest carries (the harness built the manifest digest from vf18Content(a.c))
			if b, err := os.ReadFile(sb.paths[a.p]); err != nil || vf18Sha(b) != vf18Sha(vf18Content(a.c)) {
				mon = "MIXED"
			}
		}
		if sb.curVersion() != kv["to"] {
			ver = "STALE"
		}
	case "err:rolledback":
		mon = sb.monRestored(now)
		ver = sb.verRestored()
		rm = sb.resRestored()
		sb.ownMon = sb.ownRestored()
		defer func() { sb.ownMon = "-" }()
	}
	sb.ownMon = "-"
	switch res {
	case "ok":
		sb.ownMon = "ok"
		me := strconv.Itoa(os.Geteuid()) + "-" + strconv.Itoa(os.Getegid())
		for _, a := range arts {
			want := me
			if a.uid >= 0 || a.gid >= 0 {
				u, g := os.Geteuid(), os.Getegid()
				if a.uid >= 0 {
					u = a.uid
				}
				if a.gid >= 0 {
					g = a.gid
				}
				want = strconv.Itoa(u) + "-" + strconv.Itoa(g)
			}
			if vf18Own(sb.paths[a.p]) != want {
				sb.ownMon = "BAD"
			}
		}
	case "err:rolledback":
		sb.ownMon = sb.ownRestored()
	}
	defer func() { sb.ownMon = "-" }()
	return sb.observeVer(res, mon, ver, rm)
}

// Plan is the read-only dry run: whatever the tarball is, nothing observable may change
func (sb *vf18Sandbox) doPlan(tokens []string) string {
	kv := vf18KV(tokens)
	arts := vf18ParseArts(kv["arts"])
	tarPath, err := sb.buildTarball(kv, arts)
	if err != nil {
		return "harness-error"
	}
	sb.newFake(map[string]string{"fail": "-", "crash": "-", "ha": "ok", "hr": "ok", "ob": "-", "rob": "-"}, false)
	res := "?"
	func() {
		defer func() {
			if r := recover(); r != nil {
				res = "panic:" + strings.ReplaceAll(fmt.Sprint(r), " ", "_")
			}
		}()
		pr, err := sb.runner.Plan(context.Background(), tarPath)
		switch {
		case err != nil:
			res = "plan:err"
		case pr != nil && pr.To == vf18Ver(kv["to"]) && len(pr.Artifacts) == len(arts):
			res = "plan:ok"
		default:
			res = "plan:ok?"
		}
	}()
	// the staging directory must be gone again
	if ents, err := os.ReadDir(filepath.Dir(tarPath)); err == nil {
		for _, e := range ents {
			if strings.HasPrefix(e.Name(), "osvbng-upgrade-") {
				res += "!staging-left-behind"
			}
		}
	}
	return sb.observe(res, "-")
}

func (sb *vf18Sandbox) doRollback(tokens []string) string {
	kv := vf18KV(tokens)
	sb.newFake(kv, true)
	res := "?"
	func() {
		defer func() {
			if r := recover(); r != nil {
				if _, ok := r.(vf18Crash); ok {
					res = "crash"
				} else {
					res = "panic:" + strings.ReplaceAll(fmt.Sprint(r), " ", "_")
				}
			}
		}()
		rr, err := sb.runner.Rollback(context.Background())
		switch {
		case err == nil && rr != nil && rr.JournalEndPhase == "rolled_back":
			res = "rb:ok"
		case err == nil:
			res = "rb:ok?"
		default:
			res = "rb:err"
		}
	}()
	mon, ver, rm := "-", "-", "-"
	if res == "rb:ok" {
		mon = sb.monRestored(sb.dump())
		ver = sb.verRestored()
		rm = sb.resRestored()
		sb.ownMon = sb.ownRestored()
		defer func() { sb.ownMon = "-" }()
	}
	return sb.observeVer(res, mon, ver, rm)
}

func vf18RunCase(line, root string, key, wrong *ecdsa.PrivateKey, pubPEM []byte) (out string) {
	defer func() {
		if r := recover(); r != nil {
			out = "panic:" + strings.ReplaceAll(fmt.Sprint(r), " ", "_")
		}
	}()
	f := strings.Fields(line)
	if len(f) == 0 {
		return "badline"
	}
	if f[0] == "name" {
		raw, err := hex.DecodeString(strings.TrimPrefix(f[1], "-"))
		if err != nil {
			return "badline"
		}
		clean, err := safeTarEntryPath(string(raw), "/stage/root")
		if err != nil {
			return "rej"
		}
		joined := filepath.Join("/stage/root", clean)
		inside := joined == "/stage/root" || strings.HasPrefix(joined, "/stage/root/")
		h := hex.EncodeToString([]byte(clean))
		if h == "" {
			h = "-"
		}
		if !inside {
			return "ok " + h + " ESCAPES"
		}
		return "ok " + h
	}
	if f[0] != "h" || len(f) < 3 {
		return "badline"
	}
	sb, err := vf18NewSandbox(root, key, wrong, pubPEM)
	if err != nil {
		return "harness-error"
	}
	if f[1] != "63" { // version id 63 = never-upgraded box without current-manifest.yaml
		if err := sb.plantCurrent(vf18Ver(f[1])); err != nil {
			return "harness-error"
		}
	}
	if f[2] != "-" {
		for _, it := range strings.Split(f[2], ",") {
			i := strings.IndexByte(it, ':')
			p, _ := strconv.Atoi(it[:i])
			if err := sb.setFile(p, it[i+1:]); err != nil {
				return "harness-error:" + strings.ReplaceAll(err.Error(), " ", "_")
			}
		}
	}
	var segs []string
	var op []string
	flush := func() {
		if len(op) == 0 {
			return
		}
		switch op[0] {
		case "apply":
			segs = append(segs, sb.doApply(op[1:]))
		case "rollback":
			segs = append(segs, sb.doRollback(op[1:]))
		case "plan":
			segs = append(segs, sb.doPlan(op[1:]))
		case "clear":
			sb.clearObstacles()
			segs = append(segs, sb.observe("cleared", "-"))
		case "edit":
			kv := vf18KV(op[1:])
			p, _ := strconv.Atoi(kv["p"])
			_ = sb.setFile(p, kv["f"])
			sb.clean = false
			segs = append(segs, sb.observe("edited", "-"))
		default:
			segs = append(segs, "badop")
		}
		op = nil
	}
	for _, t := range f[3:] {
		if t == ";" {
			flush()
			continue
		}
		op = append(op, t)
	}
	flush()
	if len(segs) == 0 {
		return sb.observe("init", "-")
	}
	return strings.Join(segs, " | ")
}

func TestVerifC18(t *testing.T) {
	in, err := os.Open(os.Getenv("VERIF_CASES"))
	if err != nil {
		t.Fatal(err)
	}
	defer in.Close()
	var lines []string
	sc := bufio.NewScanner(in)
	sc.Buffer(make([]byte, 1<<20), 1<<26)
	for sc.Scan() {
		lines = append(lines, sc.Text())
	}
	syscall.Umask(0o022)
	key, _ := ecdsa.GenerateKey(elliptic.P256(), rand.Reader)
	wrong, _ := ecdsa.GenerateKey(elliptic.P256(), rand.Reader)
	der, _ := x509.MarshalPKIXPublicKey(&key.PublicKey)
	pubPEM := pem.EncodeToMemory(&pem.Block{Type: "PUBLIC KEY", Bytes: der})
	base := t.TempDir()
	results := make([]string, len(lines))
	var wg sync.WaitGroup
	sem := make(chan struct{}, 8)
	for i := range lines {
		wg.Add(1)
		sem <- struct{}{}
		go func(i int) {
			defer wg.Done()
			defer func() { <-sem }()
			root := filepath.Join(base, "c"+strconv.Itoa(i))
			done := make(chan string, 1)
			go func() { done <- vf18RunCase(lines[i], root, key, wrong, pubPEM) }()
			select {
			case r := <-done:
				results[i] = r
			case <-time.After(30 * time.Second):
				results[i] = "hang"
			}
			_ = os.RemoveAll(root)
		}(i)
	}
	wg.Wait()
	out, err := os.Create(os.Getenv("VERIF_OUT"))
	if err != nil {
		t.Fatal(err)
	}
	defer out.Close()
	w := bufio.NewWriter(out)
	defer w.Flush()
	for _, r := range results {
		fmt.Fprintln(w, r)
	}
}
