//go:build verif

// C12: the Store contract the restart model assumes, checked on the REAL sqlite store (temp-file database, a second
// connection holding the write lock): an operation that returns nil has taken effect; one that could not take effect
// returns an error and changes nothing.
//
//	case: sq op...   put:<k>:<v> del:<k> clear  lock unlock
//	                 putr:<k>:<v> delr:<k>   the write lock (if held) is released after the store's first busy attempt
//	out : one ok/err per data op, then store=<k>:<v>,.. count=<n>
package sqlite

import (
	"bufio"
	"context"
	"database/sql"
	"fmt"
	"os"
	"path/filepath"
	"sort"
	"strings"
	"testing"
	"time"
)

func c12sqCase(dir string, n int, ops []string) string {
	path := filepath.Join(dir, fmt.Sprintf("c%d.db", n))
	st0, err := Open(path)
	if err != nil {
		return "openerr"
	}
	st0.Close()
	// same store code, short busy timeout so that "busy on every attempt" takes ~0.2 s instead of 25 s
	db, err := sql.Open("sqlite3", "file:"+path+"?_journal_mode=WAL&_synchronous=NORMAL&_busy_timeout=2")
	if err != nil {
		return "openerr"
	}
	st := &Store{db: db}
	defer st.Close()
	other, err := sql.Open("sqlite3", "file:"+path+"?_journal_mode=WAL&_busy_timeout=2000")
	if err != nil {
		return "openerr"
	}
	defer other.Close()
	ctx := context.Background()
	var conn *sql.Conn
	lock := func() {
		if conn != nil {
			return
		}
		c, err := other.Conn(ctx)
		if err != nil {
			return
		}
		if _, err := c.ExecContext(ctx, "BEGIN IMMEDIATE"); err != nil {
			c.Close()
			return
		}
		conn = c
	}
	unlock := func() {
		if conn == nil {
			return
		}
		conn.ExecContext(ctx, "ROLLBACK")
		conn.Close()
		conn = nil
	}
	defer unlock()
	// rows of OTHER namespaces with the same keys, and one whose namespace+key concatenates like ("ns","a"): no operation
	// on namespace "ns" may touch them
	decoys := [][2]string{{"ns2", "a"}, {"ns2", "b"}, {"n", "sa"}, {"nsa", ""}}
	for _, d := range decoys {
		if err := st.Put(ctx, d[0], d[1], []byte("decoy-"+d[0])); err != nil {
			return "decoy-put-failed"
		}
	}
	out := []string{}
	res := func(err error) {
		if err != nil {
			out = append(out, "err")
		} else {
			out = append(out, "ok")
		}
	}
	for _, o := range ops {
		a := strings.Split(o, ":")
		switch a[0] {
		case "lock":
			lock()
		case "unlock":
			unlock()
		case "put":
			res(st.Put(ctx, "ns", a[1], []byte(a[2])))
		case "del":
			res(st.Delete(ctx, "ns", a[1]))
		case "clear":
			res(st.Clear(ctx, "ns"))
		case "putr", "delr":
			r0 := st.retries.Load()
			done := make(chan error, 1)
			go func() {
				if a[0] == "putr" {
					done <- st.Put(ctx, "ns", a[1], []byte(a[2]))
				} else {
					done <- st.Delete(ctx, "ns", a[1])
				}
			}()
			if conn != nil {
				dl := time.Now().Add(3 * time.Second)
				for st.retries.Load() == r0 && time.Now().Before(dl) && len(done) == 0 {
					time.Sleep(200 * time.Microsecond)
				}
				unlock()
			}
			select {
			case err := <-done:
				res(err)
			case <-time.After(20 * time.Second):
				out = append(out, "hang")
			}
		}
	}
	unlock()
	kv := []string{}
	st.Load(ctx, "ns", func(k string, v []byte) error {
		kv = append(kv, k+":"+string(v))
		return nil
	})
	sort.Strings(kv)
	cnt, _ := st.Count(ctx, "ns")
	s := "-"
	if len(kv) > 0 {
		s = strings.Join(kv, ",")
	}
	r := "-"
	if len(out) > 0 {
		r = strings.Join(out, ",")
	}
	lost := ""
	for _, d := range decoys {
		n, ok := 0, false
		st.Load(ctx, d[0], func(k string, v []byte) error {
			n++
			ok = ok || (k == d[1] && string(v) == "decoy-"+d[0])
			return nil
		})
		want := 1
		if d[0] == "ns2" {
			want = 2
		}
		if c, _ := st.Count(ctx, d[0]); !ok || n != want || c != want {
			lost = " DECOY-LOST:" + d[0] + "/" + d[1]
		}
	}
	return fmt.Sprintf("res=%s store=%s count=%d", r, s, cnt) + lost
}

func TestVerifC12SQ(t *testing.T) {
	in, err := os.Open(os.Getenv("VERIF_CASES"))
	if err != nil {
		t.Fatal(err)
	}
	defer in.Close()
	outf, err := os.Create(os.Getenv("VERIF_OUT"))
	if err != nil {
		t.Fatal(err)
	}
	defer outf.Close()
	wr := bufio.NewWriter(outf)
	defer wr.Flush()
	dir := t.TempDir()
	sc := bufio.NewScanner(in)
	n := 0
	for sc.Scan() {
		f := strings.Fields(sc.Text())
		if len(f) < 1 || f[0] != "sq" {
			fmt.Fprintln(wr, "badline")
			continue
		}
		n++
		res := make(chan string, 1)
		go func() {
			defer func() {
				if r := recover(); r != nil {
					res <- fmt.Sprintf("panic %v", r)
				}
			}()
			res <- c12sqCase(dir, n, f[1:])
		}()
		select {
		case r := <-res:
			fmt.Fprintln(wr, r)
		case <-time.After(60 * time.Second):
			fmt.Fprintln(wr, "hang")
		}
	}
}
