//go:build verif

// C12: direct harness on the real opdb.OrderedWriter with a store fake that parks every Store operation and lets the
// case complete it successfully or with a transient error.
//
//	case: ow op...      pa:<k>:<v> PutAsync   ps:<k>:<v> Put (sync)   del:<k> Delete (sync)   ok:<k> / err:<k> complete
//	                    the operation of key k that is at the store
//	out : store=<k>:<v|->,.. log=<effects in the order they reached the store> infl=<ops at the store> res=<per issue op>
package opdb

import (
	"bufio"
	"bytes"
	"context"
	"errors"
	"fmt"
	"os"
	"runtime"
	"sort"
	"strconv"
	"strings"
	"sync"
	"testing"
	"time"
)

type c12owOp struct {
	key     string
	desc    string
	release chan bool
	gid     int64 // the goroutine that carries the write
}

type c12owStore struct {
	mu   sync.Mutex
	data map[string]string
	infl map[string]*c12owOp
	log  []string
}

var errC12OW = errors.New("c12: database is locked (injected)")

// the case's key letters are full (namespace, key) pairs that differ in exactly one component — and one pair whose plain
// concatenation equals another's; the store fake files an operation under the letter of the FULL pair it was given
var c12owPairs = map[string][2]string{
	"a": {"ipoe_sessions", "s1"},
	"b": {"ipoe_sessions", "s2"},  // key differs
	"c": {"pppoe_sessions", "s1"}, // namespace differs
	"d": {"ipoe_session", "ss1"},  // namespace+key concatenate to the same string as a
}

func c12owNS(l string) string  { return c12owPairs[l][0] }
func c12owKey(l string) string { return c12owPairs[l][1] }
func c12owLetter(ns, key string) string {
	for l, p := range c12owPairs {
		if p[0] == ns && p[1] == key {
			return l
		}
	}
	return "?" + ns + "/" + key
}

func (s *c12owStore) arrive(key, desc string) *c12owOp {
	op := &c12owOp{key: key, desc: desc, release: make(chan bool, 1), gid: c12owGID()}
	s.mu.Lock()
	if s.infl[key] != nil {
		s.log = append(s.log, key+":OVERLAP") // two operations of one key at the store at once
	}
	s.infl[key] = op
	s.mu.Unlock()
	return op
}

func (s *c12owStore) Put(_ context.Context, ns, key string, value []byte) error {
	key = c12owLetter(ns, key)
	op := s.arrive(key, "P"+string(value))
	ok := <-op.release
	s.mu.Lock()
	defer s.mu.Unlock()
	if s.infl[key] == op {
		delete(s.infl, key)
	}
	if !ok {
		return errC12OW
	}
	s.data[key] = string(value)
	s.log = append(s.log, key+":P"+string(value))
	return nil
}

func (s *c12owStore) Delete(_ context.Context, ns, key string) error {
	key = c12owLetter(ns, key)
	op := s.arrive(key, "D")
	ok := <-op.release
	s.mu.Lock()
	defer s.mu.Unlock()
	if s.infl[key] == op {
		delete(s.infl, key)
	}
	if !ok {
		return errC12OW
	}
	delete(s.data, key)
	s.log = append(s.log, key+":D")
	return nil
}
func (s *c12owStore) Load(context.Context, string, LoadFunc) error { return nil }
func (s *c12owStore) Count(context.Context, string) (int, error)   { return 0, nil }
func (s *c12owStore) Clear(context.Context, string) error          { return nil }
func (s *c12owStore) Stats() Stats                                 { return Stats{} }
func (s *c12owStore) Close() error                                 { return nil }

func (s *c12owStore) at(key string) *c12owOp {
	s.mu.Lock()
	defer s.mu.Unlock()
	return s.infl[key]
}

func c12owWait(d time.Duration, cond func() bool) bool {
	dl := time.Now().Add(d)
	for i := 0; ; i++ {
		if cond() {
			return true
		}
		if time.Now().After(dl) {
			return false
		}
		if i < 100 {
			runtime.Gosched()
		} else {
			time.Sleep(50 * time.Microsecond)
		}
	}
}

func c12owGID() int64 {
	var buf [64]byte
	n := runtime.Stack(buf[:], false)
	f := bytes.Fields(buf[:n])
	id, _ := strconv.ParseInt(string(f[1]), 10, 64)
	return id
}

// does goroutine gid still exist?
func c12owAlive(gid int64) bool {
	for sz := 1 << 18; ; sz *= 2 {
		buf := make([]byte, sz)
		n := runtime.Stack(buf, true)
		if n < sz || sz >= 1<<26 { // complete dump
			return bytes.Contains(buf[:n], []byte(fmt.Sprintf("goroutine %d [", gid)))
		}
	}
}

// is goroutine gid parked (waiting for its turn, or inside the store fake)?
func c12owParked(gid int64) bool {
	buf := make([]byte, 1<<18)
	n := runtime.Stack(buf, true)
	hdr := []byte(fmt.Sprintf("goroutine %d [", gid))
	i := bytes.Index(buf[:n], hdr)
	if i < 0 {
		return true // gone: finished
	}
	rest := buf[i+len(hdr) : n]
	j := bytes.IndexByte(rest, ']')
	st := string(rest[:j])
	return strings.HasPrefix(st, "sync.Cond.Wait") || strings.HasPrefix(st, "chan receive")
}

func c12owCase(ops []string) string {
	st := &c12owStore{data: map[string]string{}, infl: map[string]*c12owOp{}}
	w := NewOrderedWriter(st)
	ctx := context.Background()
	var mu sync.Mutex
	res := []string{}
	errs := []string{}
	set := func(i int, v string) {
		mu.Lock()
		res[i] = v
		mu.Unlock()
	}
	for _, o := range ops {
		a := strings.Split(o, ":")
		switch a[0] {
		case "pa":
			i := len(res)
			res = append(res, "-")
			w.PutAsync(ctx, c12owNS(a[1]), c12owKey(a[1]), []byte(a[2]), func(error) { set(i, "E") })
			// the write is at the store at once when it is its turn
			c12owWait(2*time.Millisecond, func() bool { return st.at(a[1]) != nil })
		case "ps", "del":
			i := len(res)
			mu.Lock()
			res = append(res, "pend")
			mu.Unlock()
			gidc := make(chan int64, 1)
			go func() {
				gidc <- c12owGID()
				var err error
				if a[0] == "ps" {
					err = w.Put(ctx, c12owNS(a[1]), c12owKey(a[1]), []byte(a[2]))
				} else {
					err = w.Delete(ctx, c12owNS(a[1]), c12owKey(a[1]))
				}
				if err != nil {
					set(i, "err")
				} else {
					set(i, "ok")
				}
			}()
			gid := <-gidc
			// the call has taken its slot once it waits for its turn, sits in the store, or has returned
			c12owWait(200*time.Millisecond, func() bool {
				mu.Lock()
				done := res[i] != "pend"
				mu.Unlock()
				return done || c12owParked(gid)
			})
		case "ok", "err":
			c12owWait(50*time.Millisecond, func() bool { return st.at(a[1]) != nil })
			if op := st.at(a[1]); op != nil {
				// the slot whose turn it is: the key's bookkeeping entry and its serving counter (this harness is
				// inside package opdb).  A repetition is "inside the slot" only if it reaches the store while this
				// very entry still serves this very sequence number, i.e. before the turn was handed on.
				id := orderedID(c12owNS(a[1]), c12owKey(a[1]))
				w.mu.Lock()
				k0 := w.keys[id]
				var sv0 uint64
				if k0 != nil {
					sv0 = k0.serving
				}
				w.mu.Unlock()
				op.release <- a[0] == "ok"
				c12owWait(50*time.Millisecond, func() bool { return st.at(a[1]) != op })
				if a[0] == "err" {
					// what does the writer do with the error?  It may repeat the write inside its slot: the same
					// goroutine brings the same operation to the store again (handshake: wait until it does, or
					// until that goroutine has finished — no fixed sleep).
					verdict := "f"
					c12owWait(5*time.Second, func() bool {
						if n := st.at(a[1]); n != nil && n != op && n.gid == op.gid && n.desc == op.desc {
							w.mu.Lock()
							inSlot := k0 != nil && w.keys[id] == k0 && k0.serving == sv0
							w.mu.Unlock()
							if inSlot {
								verdict = "r"
							} // else: the write came back through a NEW slot — not a repetition the contract admits;
							// it stays at the store as an operation the model does not expect
							return true
						}
						return !c12owAlive(op.gid)
					})
					errs = append(errs, verdict)
				}
				// the next slot of this key (if any) reaches the store
				c12owWait(2*time.Millisecond, func() bool { return st.at(a[1]) != nil })
			}
		}
	}
	time.Sleep(15 * time.Millisecond) // anything still on its way to the store (a write outside its slot) shows up
	st.mu.Lock()
	keys := map[string]bool{}
	for _, o := range ops {
		a := strings.Split(o, ":")
		if len(a) > 1 {
			keys[a[1]] = true
		}
	}
	ks := []string{}
	for k := range keys {
		ks = append(ks, k)
	}
	sort.Strings(ks)
	sv, inf := []string{}, []string{}
	for _, k := range ks {
		if v, ok := st.data[k]; ok {
			sv = append(sv, k+":"+v)
		} else {
			sv = append(sv, k+":-")
		}
		if op := st.infl[k]; op != nil {
			inf = append(inf, k+":"+op.desc)
		}
	}
	lg := append([]string(nil), st.log...)
	st.mu.Unlock()
	mu.Lock()
	rs := strings.Join(res, ",")
	mu.Unlock()
	j := func(l []string) string {
		if len(l) == 0 {
			return "-"
		}
		return strings.Join(l, ",")
	}
	if rs == "" {
		rs = "-"
	}
	out := "store=" + j(sv) + " log=" + j(lg) + " infl=" + j(inf) + " res=" + rs + " errs=" + j(errs)
	// drain so that no goroutine stays behind
	for n := 0; n < 200; n++ {
		any := false
		for _, k := range ks {
			if op := st.at(k); op != nil {
				op.release <- true
				c12owWait(20*time.Millisecond, func() bool { return st.at(k) != op })
				any = true
			}
		}
		if !any {
			if !c12owWait(3*time.Millisecond, func() bool {
				for _, k := range ks {
					if st.at(k) != nil {
						return true
					}
				}
				return false
			}) {
				break
			}
		}
	}
	return out
}

func TestVerifC12OW(t *testing.T) {
	in, err := os.Open(os.Getenv("VERIF_CASES"))
	if err != nil {
		t.Fatal(err)
	}
	defer in.Close()
	outf, err := os.Create(os.Getenv("VERIF_OUT"))
	if err != nil {
		t.Fatal(err)
	}
	defer outf.Close()
	wr := bufio.NewWriter(outf)
	defer wr.Flush()
	sc := bufio.NewScanner(in)
	sc.Buffer(make([]byte, 1<<20), 1<<24)
	for sc.Scan() {
		f := strings.Fields(sc.Text())
		if len(f) < 1 || f[0] != "ow" {
			fmt.Fprintln(wr, "badline")
			continue
		}
		res := make(chan string, 1)
		go func() {
			defer func() {
				if r := recover(); r != nil {
					res <- fmt.Sprintf("panic %v", r)
				}
			}()
			res <- c12owCase(f[1:])
		}()
		select {
		case r := <-res:
			fmt.Fprintln(wr, r)
		case <-time.After(30 * time.Second):
			fmt.Fprintln(wr, "hang")
		}
	}
}
