//go:build verif

package ipoe

import (
	"bytes"
	"context"
	"encoding/binary"
	"encoding/json"
	"fmt"
	"net"
	"sort"
	"strconv"
	"strings"
	"testing"
	"time"

	"github.com/google/gopacket/layers"
	"github.com/veesix-networks/osvbng/pkg/component"
	"github.com/veesix-networks/osvbng/pkg/dataplane"
	"github.com/veesix-networks/osvbng/pkg/events"
	"github.com/veesix-networks/osvbng/pkg/ifmgr"
	"github.com/veesix-networks/osvbng/pkg/opdb"
	"github.com/veesix-networks/osvbng/pkg/svcgroup"
)

// IPoE dataplane calls of the fake southbound
func (s *c12SB) c12macIdx(mac net.HardwareAddr, svlan, cvlan uint16) int {
	return c12IdxOfKey(mac, svlan, cvlan) // the FULL key: every MAC byte, S-VLAN, C-VLAN
}
func (s *c12SB) AddIPoESession(clientMAC, localMAC net.HardwareAddr, encapIfIndex uint32, outerVLAN, innerVLAN uint16, decapVrfID uint32) (uint32, error) {
	i := s.c12macIdx(clientMAC, outerVLAN, innerVLAN)
	if i < 0 || encapIfIndex != c12Ident(i).encap || len(localMAC) != 6 || localMAC[5] != 0x33 {
		s.log.add("BADADD%d", i)
	}
	return s.add(i)
}
func (s *c12SB) DeleteIPoESessionAsync(clientMAC net.HardwareAddr, encapIfIndex uint32, innerVLAN uint16, cb func(error)) {
	s.del(s.c12macIdx(clientMAC, c12SvlanOfEncap(encapIfIndex), innerVLAN))
	cb(nil)
}
func (s *c12SB) IPoESetSessionIPv4(sw uint32, clientIP net.IP, isAdd bool) error {
	return s.set(sw, "4", c12V4Idx(clientIP), isAdd)
}
func (s *c12SB) IPoESetSessionIPv6(sw uint32, clientIP net.IP, isAdd bool) error {
	return s.set(sw, "6", c12V6Idx(clientIP), isAdd)
}
func (s *c12SB) IPoESetDelegatedPrefix(sw uint32, prefix net.IPNet, nextHop net.IP, isAdd bool) error {
	return s.set(sw, "P", c12PDIdx(&prefix, c12Kpd), isAdd)
}

var c12Kpd = 1

type c12IPoE struct {
	e     *c12Env
	c     *Component
	taken chan struct{}
}

func (p *c12IPoE) pktTaken() chan struct{} { return p.taken }
func (p *c12IPoE) stop() {
	if p.c != nil {
		p.c.Stop(context.Background())
	}
}

func (p *c12IPoE) newComponent(h *c12Handle) {
	e := p.e
	c12Kpd = e.kpd
	ifMgr := ifmgr.New()
	ifMgr.Add(&ifmgr.Interface{SwIfIndex: 10, SupSwIfIndex: 2, Name: "TenGigE0/0.100", Type: ifmgr.IfTypeSub, OuterVlanID: 100})
	ifMgr.Add(&ifmgr.Interface{SwIfIndex: 11, SupSwIfIndex: 2, Name: "TenGigE0/0.200", Type: ifmgr.IfTypeSub, OuterVlanID: 200})
	ifMgr.Add(&ifmgr.Interface{SwIfIndex: 2, Name: "TenGigE0/0", Type: ifmgr.IfTypeHardware, MAC: []byte{0x52, 0x54, 0x00, 0x11, 0x22, 0x33}})
	// a DHCP packet is already waiting when the component starts (unbuffered: the send completes when the packet
	// consumer takes it); it carries no DHCP layer and is dropped by processDHCPPacket
	ch := make(chan *dataplane.ParsedPacket)
	taken := make(chan struct{})
	go func() {
		ch <- &dataplane.ParsedPacket{}
		e.log.add("PKT")
		close(taken)
	}()
	c, err := New(component.Dependencies{EventBus: e.bus, Cache: e.cache, Southbound: e.sb, ConfigManager: e.cfgm, OpDB: h,
		DHCPChan: ch}, nil, ifMgr, nil, nil)
	if err != nil {
		panic(err)
	}
	p.c = c
	p.taken = taken
}

func (p *c12IPoE) restore() {
	if err := p.c.Start(context.Background()); err != nil {
		p.e.log.add("STARTERR")
	}
}

func (p *c12IPoE) get(i int) *SessionState {
	v, ok := p.c.sessionIndex.Load(c12SessID(i))
	if !ok {
		return nil
	}
	return v.(*SessionState)
}
func (p *c12IPoE) live(i int) bool { return p.get(i) != nil }

func (p *c12IPoE) create(n c12New, v4, v6 net.IP, pd *net.IPNet, t0 time.Time, swif uint32) bool {
	s := &SessionState{
		SessionID: c12SessID(n.idx), AcctSessionID: fmt.Sprintf("acct%d", n.idx),
		MAC: append(net.HardwareAddr(nil), c12Ident(n.idx).mac...), OuterVLAN: c12Ident(n.idx).svlan,
		InnerVLAN: c12Ident(n.idx).cvlan, EncapIfIndex: c12Ident(n.idx).encap,
		ClientID: []byte{1, byte(n.idx), 0xfe}, CircuitID: []byte(fmt.Sprintf("circuit-%d", n.idx)),
		RemoteID: []byte{0xde, 0xad, byte(n.idx)}, DHCPv6DUID: []byte{0, 3, 0, 1, byte(n.idx), 9},
		Attributes:    map[string]string{"k": fmt.Sprintf("v%d", n.idx)},
		IPoESwIfIndex: swif, State: "init", IPv4: v4, LeaseTime: uint32(n.lease4), BoundAt: c12Time(t0, n.age4),
		ActivatedAt: c12Time(t0, n.age4), Hostname: "t-", AAAApproved: n.approved, IPoESessionCreated: n.created,
		IPv6Address: v6, IPv6Prefix: pd, IPv6LeaseTime: uint32(n.lease6), IPv6BoundAt: c12Time(t0, n.age6), IPv6Bound: n.v6bound,
		Username: fmt.Sprintf("u%d", n.idx), ServiceGroup: svcgroup.ServiceGroup{Name: "sg", URPF: "strict", Unnumbered: "loop0"},
	}
	if n.bound {
		s.State = "bound"
	} else if n.rel4 {
		s.State = "released" // DHCPv4 lease released, session kept for DHCPv6 (handleRelease, unified mode)
	}
	c := p.c
	c.sessions.Store(c.makeSessionKeyV4(s.MAC, s.OuterVLAN, s.InnerVLAN), s)
	c.sessionIndex.Store(s.SessionID, s)
	c.addSessionToIndexes(s)
	return true
}

func (p *c12IPoE) stamp(i int, st string) {
	s := p.get(i)
	s.mu.Lock()
	s.Hostname = st
	s.mu.Unlock()
}
func (p *c12IPoE) checkpoint(i int) { p.c.checkpointSession(p.get(i)) }
func (p *c12IPoE) checkpointSync(i int) {
	if err := p.c.checkpointSessionSync(p.get(i)); err != nil {
		p.e.log.add("CKSERR")
	}
}
func (s *c12SB) IPoESetSessionIPv4Async(sw uint32, clientIP net.IP, isAdd bool, cb func(error)) {
	cb(s.set(sw, "4", c12V4Idx(clientIP), isAdd))
}

func (p *c12IPoE) v4of(i int) net.IP {
	s := p.get(i)
	s.mu.Lock()
	defer s.mu.Unlock()
	return s.IPv4
}

// bind4 hands the provider's DHCPv4 ACK to the real handler (i < 0: capability probe)
func (p *c12IPoE) bind4(i int, a net.IP, lease int) bool {
	if i < 0 {
		return true
	}
	lt := make([]byte, 4)
	binary.BigEndian.PutUint32(lt, uint32(lease))
	s := p.get(i)
	pkt := &dataplane.ParsedPacket{MAC: s.MAC, OuterVLAN: s.OuterVLAN, InnerVLAN: s.InnerVLAN,
		DHCPv4: &layers.DHCPv4{YourClientIP: a, Options: layers.DHCPOptions{{Type: 51, Length: 4, Data: lt}}}}
	if err := p.c.handleAck(s, pkt); err != nil {
		p.e.log.add("ACKERR")
	}
	return true
}

func (p *c12IPoE) release(i int) {
	p.c.handleSubscriberTerminate(events.Event{Data: &events.SubscriberTerminateEvent{SessionID: c12SessID(i), Reason: "c12"}})
}

func c12Flags(bound, rel4, approved, created, v6b bool) string {
	s := ""
	if bound {
		s += "b"
	}
	if rel4 {
		s += "r"
	}
	if approved {
		s += "a"
	}
	if created {
		s += "c"
	}
	if v6b {
		s += "6"
	}
	if s == "" {
		s = "."
	}
	return s
}

func (p *c12IPoE) show(s *SessionState, kpd int) string {
	i, _ := strconv.Atoi(c12Idx(s.SessionID))
	id := c12KeyStr(s.MAC, s.OuterVLAN, s.InnerVLAN) // the full key, as restored
	if s.EncapIfIndex != c12Ident(i).encap ||
		s.Username != fmt.Sprintf("u%d", i) || s.AcctSessionID != fmt.Sprintf("acct%d", i) || s.ServiceGroup.URPF != "strict" ||
		!bytes.Equal(s.ClientID, []byte{1, byte(i), 0xfe}) || string(s.CircuitID) != fmt.Sprintf("circuit-%d", i) ||
		!bytes.Equal(s.RemoteID, []byte{0xde, 0xad, byte(i)}) || !bytes.Equal(s.DHCPv6DUID, []byte{0, 3, 0, 1, byte(i), 9}) ||
		s.Attributes["k"] != fmt.Sprintf("v%d", i) {
		id += "!IDENTITY"
	}
	return fmt.Sprintf("%d:%s:%d:%s:%s:%s:%s:%s", i, strings.TrimPrefix(s.Hostname, "t"), s.IPoESwIfIndex,
		c12Flags(s.State == "bound", s.State == "released", s.AAAApproved, s.IPoESessionCreated, s.IPv6Bound),
		c12V4Idx(s.IPv4), c12V6Idx(s.IPv6Address), c12PDIdx(s.IPv6Prefix, kpd), id)
}

func (p *c12IPoE) dumpLive(kpd int) string {
	out := []string{}
	p.c.sessionIndex.Range(func(k, v any) bool {
		s := v.(*SessionState)
		s.mu.Lock()
		line := p.show(s, kpd)
		mac, sv, cv := s.MAC, s.OuterVLAN, s.InnerVLAN
		s.mu.Unlock()
		// the protocol's own lookup (MAC, S-VLAN, C-VLAN) must lead to THIS session
		if got, ok := p.c.sessions.Load(p.c.makeSessionKeyV4(mac, sv, cv)); !ok || got.(*SessionState) != s {
			line += "!KEYMISS"
		}
		out = append(out, line)
		return true
	})
	sort.Slice(out, func(a, b int) bool {
		x, _ := strconv.Atoi(strings.SplitN(out[a], ":", 2)[0])
		y, _ := strconv.Atoi(strings.SplitN(out[b], ":", 2)[0])
		return x < y
	})
	if len(out) == 0 {
		return "-"
	}
	return strings.Join(out, ",")
}

func (p *c12IPoE) dumpStored(val []byte, kpd int) string {
	var s SessionState
	if err := json.Unmarshal(val, &s); err != nil {
		return "UNPARSEABLE"
	}
	return p.show(&s, kpd)
}

func TestVerifC12(t *testing.T) {
	c12Run(t, func(e *c12Env) c12Proto { return &c12IPoE{e: e} }, "ipoe_session", opdb.NamespaceIPoESessions)
}
